/-
Refinement of the translated `SupervisedOPF.fit` (`Gen/SupImp.lean`) to `fitRun`; continues
`Lemmas/SupRefine.lean`.  The loop lemmas are parametric in the relaxation body and in the `semi`
flag of the model so that `Lemmas/SemiRefine.lean` reuses them.

Structure:
* `pyIdx_nat`, `pySetIdx_nat`, `pyForRange_nat` – evaluation of the Python prelude on natural
  indices;
* `initBody`, `relaxBody`, `loopCond`, `loopBodyG`, `fitTail`, `fit_eq` – the loop bodies of the
  generated `fit` under names (`fit_eq` is `rfl` against the generated text);
* `foldlM_range_refines` – a `for` loop of the translation against a `List.foldl` of the model;
* `LInv` – the loop invariant (heap refinement + heap invariant + `RelF` + sizes);
* `StepOK` – what the loop lemmas need from a relaxation body;
* `initBody_step`, `relaxBody_step`, `relax_fold`, `loopBody_step` – one iteration each;
* `nb`, `while_refines` – termination of `while not h.is_empty()` within the model's fuel (every
  iteration turns one more identifier BLACK) and refinement of the whole loop;
* `fitTail_refines` – heap creation + initialisation + competition against `competeRun`;
* `primRun_same` – sizes and `n` are untouched by `primRun` (no hypothesis on the weights).
-/
import OpfVerif.Gen.FitImp
import OpfVerif.Lemmas.SupRefine
set_option linter.unusedVariables false
namespace Opf.SupRefine
open Opf Opf.Gen Opf.Gen.SupImp

/-! ### evaluation of the Python prelude on in-range natural indices -/

theorem pyIdx_nat {α : Type} (a : Array α) (k : Nat) : Py.idx a (k : Int) = a[k]? := by
  unfold Py.idx Py.resolve
  by_cases h : k < a.size
  · simp [h]
  · simp [h]

theorem pySetIdx_nat {α : Type} (a : Array α) (k : Nat) (v : α) (h : k < a.size) :
    Py.setIdx a (k : Int) v = some (a.setIfInBounds k v) := by
  unfold Py.setIdx Py.resolve
  simp [h]

theorem pyForRange_nat {σ : Type} (n : Nat) (body : Int → σ → Option σ) (s : σ) :
    Py.forRange (n : Int) body s = (List.range n).foldlM (fun s (q : Nat) => body (q : Int) s) s := by
  unfold Py.forRange
  rw [Int.toNat_natCast]

/-- the initialisation loop body of `fit`. -/
def initBody (FLOAT_MAX : Int) : Int → SG × HeapImp.Obj → Option (SG × HeapImp.Obj) :=
    (fun i (sg, h) => (do
      let t24 ← Py.idx sg.status i
      let (sg, h) ← (if (decide (t24 = (1 : Int))) then (do
          let _g ← (if (decide ((-1 : Int) < (-1 : Int))) then none else pure ())
          let t25 ← Py.setIdx sg.pred i (-1 : Int)
          let sg := { sg with pred := t25 }
          let t26 ← Py.idx sg.label i
          let _g ← (if (decide (t26 < (0 : Int))) then none else pure ())
          let t27 ← Py.setIdx sg.predicted_label i t26
          let sg := { sg with predicted_label := t27 }
          let t28 ← Py.setIdx h.cost i (0 : Int)
          let h := { h with cost := t28 }
          let (h, t29) ← HeapImp.Obj.insert h i
          pure (sg, h)) else (do
          let t30 ← Py.setIdx h.cost i FLOAT_MAX
          let h := { h with cost := t30 }
          pure (sg, h)))
      pure (sg, h)))

/-- the relaxation loop body of `fit`. -/
def relaxBody (W : Int → Int → Option Int) (p : Int) :
    Int → SG × HeapImp.Obj → Option (SG × HeapImp.Obj) :=
        (fun q (sg, h) => (do
          let (sg, h) ← (if (decide (p ≠ q)) then (do
              let t35 ← Py.idx h.cost p
              let t36 ← Py.idx h.cost q
              let (sg, h) ← (if (decide (t35 < t36)) then (do
                  let weight ← W p q
                  let t37 ← Py.idx h.cost p
                  let current_cost := (max t37 weight)
                  let t38 ← Py.idx h.cost q
                  let (sg, h) ← (if (decide (current_cost < t38)) then (do
                      let _g ← (if (decide (p < (-1 : Int))) then none else pure ())
                      let t39 ← Py.setIdx sg.pred q p
                      let sg := { sg with pred := t39 }
                      let t40 ← Py.idx sg.predicted_label p
                      let _g ← (if (decide (t40 < (0 : Int))) then none else pure ())
                      let t41 ← Py.setIdx sg.predicted_label q t40
                      let sg := { sg with predicted_label := t41 }
                      let (h, t42) ← HeapImp.Obj.update h q current_cost
                      pure (sg, h)) else (do
                      pure (sg, h)))
                  pure (sg, h)) else (do
                  pure (sg, h)))
              pure (sg, h)) else (do
              pure (sg, h)))
          pure (sg, h)))

def loopCond : HeapImp.Obj × SG → Option Bool :=
    (fun (h, sg) => (do
      let t31 ← HeapImp.Obj.is_empty h
      pure (!t31)))

/-- the body of `while not h.is_empty()`, parametric in the relaxation body `rb p q`. -/
def loopBodyG (rb : Int → Int → SG × HeapImp.Obj → Option (SG × HeapImp.Obj)) :
    HeapImp.Obj × SG → Option (HeapImp.Obj × SG) :=
    (fun (h, sg) => (do
      let (h, t32) ← HeapImp.Obj.remove h
      let p := (Py.asInt t32)
      let sg := { sg with idx_nodes := sg.idx_nodes.push p }
      let t33 ← Py.idx h.cost p
      let t34 ← Py.setIdx sg.cost p t33
      let sg := { sg with cost := t34 }
      let (sg, h) ← Py.forRange (σ := SG × HeapImp.Obj) sg.n_nodes (rb p) (sg, h)
      pure (h, sg)))

/-- everything `fit` does after prototype selection (heap creation, initialisation loop,
competition, `trained = True`), parametric in the relaxation body. -/
def fitTail (FLOAT_MAX : Int) (rb : Int → Int → SG × HeapImp.Obj → Option (SG × HeapImp.Obj))
    (sg : SG) : Option (SG × Unit) := do
  let h ← HeapImp.Obj.init sg.n_nodes "min" FLOAT_MAX
  let (sg, h) ← Py.forRange (σ := SG × HeapImp.Obj) sg.n_nodes (initBody FLOAT_MAX) (sg, h)
  let (h, sg) ← Py.whileM (σ := HeapImp.Obj × SG) loopCond (loopBodyG rb) (h, sg)
  pure ({ sg with trained := true }, ())

theorem fit_eq (W : Int → Int → Option Int) (FLOAT_MAX : Int) (sg0 : SG) :
    fit W FLOAT_MAX sg0 = (do
      let (sg, _) ← find_prototypes W FLOAT_MAX sg0
      fitTail FLOAT_MAX (relaxBody W) sg) := rfl

/-- generic refinement of a `foldlM` over `List.range` by a pure `foldl`. -/
theorem foldlM_range_refines {σ τ : Type} (R : Nat → σ → τ → Prop) (body : Nat → σ → Option σ)
    (step : τ → Nat → τ) (n : Nat)
    (hstep : ∀ k, k < n → ∀ a b, R k a b → ∃ a', body k a = some a' ∧ R (k + 1) a' (step b k)) :
    ∀ k, k ≤ n → ∀ a b, R 0 a b →
      ∃ a', (List.range k).foldlM (fun s q => body q s) a = some a' ∧
        R k a' ((List.range k).foldl step b) := by
  intro k
  induction k with
  | zero => intro _ a b h; exact ⟨a, rfl, h⟩
  | succ k ih =>
    intro hk a b h
    obtain ⟨a1, e1, r1⟩ := ih (by omega) a b h
    obtain ⟨a2, e2, r2⟩ := hstep k (by omega) a1 _ r1
    refine ⟨a2, ?_, ?_⟩
    · rw [List.range_succ, List.foldlM_append, e1]
      simp only [Option.bind_eq_bind, Option.bind_some, List.foldlM_cons, List.foldlM_nil, e2]
      rfl
    · rw [List.range_succ, List.foldl_append]
      exact r2

theorem countP_le_of_imp (l : List Nat) (P Q : Nat → Bool)
    (hmono : ∀ x, x ∈ l → Q x = true → P x = true) : l.countP Q ≤ l.countP P := by
  induction l with
  | nil => simp
  | cons a l ih =>
    have ih' := ih (fun x hx => hmono x (List.mem_cons_of_mem _ hx))
    have ha := hmono a List.mem_cons_self
    rw [List.countP_cons, List.countP_cons]
    by_cases hq : Q a = true
    · rw [if_pos hq, if_pos (ha hq)]; omega
    · rw [if_neg hq]; split <;> omega

theorem countP_lt_of_imp (l : List Nat) (P Q : Nat → Bool)
    (hmono : ∀ x, x ∈ l → Q x = true → P x = true) (p : Nat) (hp : p ∈ l)
    (hP : P p = true) (hQ : Q p = false) : l.countP Q < l.countP P := by
  induction l with
  | nil => exact absurd hp (by simp)
  | cons a l ih =>
    have hm' : ∀ x, x ∈ l → Q x = true → P x = true := fun x hx => hmono x (List.mem_cons_of_mem _ hx)
    rw [List.countP_cons, List.countP_cons]
    rcases List.mem_cons.1 hp with e | hl
    · subst e
      have := countP_le_of_imp l P Q hm'
      rw [if_pos hP, if_neg (by rw [hQ]; decide)]
      omega
    · have ih' := ih hm' hl
      have ha := hmono a List.mem_cons_self
      by_cases hq : Q a = true
      · rw [if_pos hq, if_pos (ha hq)]; omega
      · rw [if_neg hq]; split <;> omega


theorem getElem?_getD {α : Type} (a : Array α) (x : Nat) (d : α) (h : x < a.size) :
    a[x]? = some (a.getD x d) := by
  simp [Array.getD_eq_getD_getElem?, h]

/-- invariant relating the translated heap object and subgraph to the model state. -/
structure LInv (n : Nat) (sg : SG) (g : HeapImp.Obj) (s : CompSt) : Prop where
  rel : HeapRefine.Rel g s.h
  inv : Heap.Inv s.h
  hsize : s.h.size = n
  hmax : s.h.isMax = false
  relf : RelF sg s.f
  fn : s.f.n = n
  sized : s.f.Sized

theorem LInv.cost_get {n : Nat} {sg : SG} {g : HeapImp.Obj} {s : CompSt} (L : LInv n sg g s)
    (x : Nat) (hx : x < n) : Py.idx g.cost (x : Int) = some (s.h.costOf x) := by
  rw [pyIdx_nat, L.rel.cost]
  exact getElem?_getD _ _ _ (by rw [L.inv.size_cost, L.hsize]; exact hx)

theorem rel_setCost {g : HeapImp.Obj} {h : Heap} (hr : HeapRefine.Rel g h) (x : Nat) (c : Int) :
    HeapRefine.Rel { g with cost := g.cost.setIfInBounds x c } (h.setCost x c) :=
  ⟨hr.size, hr.policy, hr.last, by show g.cost.setIfInBounds x c = h.cost.setIfInBounds x c; rw [hr.cost],
    hr.color_size, hr.color, hr.p_size, hr.p, hr.pos_size, hr.pos, hr.pos_free⟩

theorem getElem?_set {α : Type} (a : Array α) (i k : Nat) (v : α) (hi : i < a.size) :
    (a.setIfInBounds i v)[k]? = if k = i then some v else a[k]? := by
  rw [Array.getElem?_setIfInBounds]
  by_cases e : i = k
  · subst e; simp [hi]
  · have : ¬ k = i := fun h => e h.symm
    simp [e, this]

/-- a store at `i` on both sides keeps a pointwise correspondence of two arrays. -/
theorem upd_field {α β : Type} (a : Array α) (b : Array β) (d : β) (F : β → α) (n i : Nat) (v : β)
    (ha : a.size = n) (hb : b.size = n) (hi : i < n)
    (h : ∀ x, x < n → a[x]? = some (F (b.getD x d))) :
    ∀ x, x < n → (a.setIfInBounds i (F v))[x]? = some (F ((b.setIfInBounds i v).getD x d)) := by
  intro x hx
  rw [getElem?_set _ _ _ _ (by omega), Heap.getD_set]
  by_cases e : x = i
  · rw [if_pos e, if_pos ⟨e, by omega⟩]
  · rw [if_neg e, if_neg (fun c => e c.1)]; exact h x hx

theorem initBody_step (top : Int) (n i : Nat) (hi : i < n) (sg : SG) (g : HeapImp.Obj)
    (s : CompSt) (L : LInv n sg g s) (hwhite : ∀ j, i ≤ j → s.h.colorOf j = WHITE) :
    ∃ a', initBody top (i : Int) (sg, g) = some a' ∧ LInv n a'.1 a'.2 (compInit top s i) ∧
      (∀ j, i + 1 ≤ j → (compInit top s i).h.colorOf j = WHITE) := by
  have hif : i < s.f.n := by rw [L.fn]; exact hi
  have hst := L.relf.status i hif
  have his : i < s.h.size := by rw [L.hsize]; exact hi
  have hw := hwhite i (Nat.le_refl i)
  have hng : s.h.colorOf i ≠ GRAY := by rw [hw]; decide
  have hgc : i < g.cost.size := by rw [L.rel.cost, L.inv.size_cost]; exact his
  by_cases hpr : s.f.isProto i = true
  · rw [CE.compInit_pos top s i hpr]
    have e1 : Py.idx sg.status (i : Int) = some 1 := by rw [pyIdx_nat, hst, if_pos hpr]
    have e2 : Py.setIdx sg.pred (i : Int) (-1) = some (sg.pred.setIfInBounds i (-1)) :=
      pySetIdx_nat _ _ _ (by rw [L.relf.sz_pred]; exact hif)
    have e3 : Py.idx sg.label (i : Int) = some (s.f.labelOf i : Int) := by
      rw [pyIdx_nat]; exact L.relf.label i hif
    have e4 : Py.setIdx sg.predicted_label (i : Int) (s.f.labelOf i : Int) =
        some (sg.predicted_label.setIfInBounds i (s.f.labelOf i : Int)) :=
      pySetIdx_nat _ _ _ (by rw [L.relf.sz_plabel]; exact hif)
    have e5 : Py.setIdx g.cost (i : Int) 0 = some (g.cost.setIfInBounds i 0) :=
      pySetIdx_nat _ _ _ hgc
    have hinv' : Heap.Inv (s.h.setCost i 0) := Heap.Inv_setCost L.inv 0 his hng
    obtain ⟨g', e6, r6⟩ := HeapRefine.insert_refines _ _ (rel_setCost L.rel i 0) hinv' i his
      (Or.inl hw)
    obtain ⟨_, i1, i2, i3, i4, _⟩ := Heap.insert_spec (s.h.setCost i 0) i hinv' his hw
    have hlab : ¬ ((s.f.labelOf i : Int) < 0) := by omega
    refine ⟨({ sg with pred := sg.pred.setIfInBounds i (-1),
                       predicted_label := sg.predicted_label.setIfInBounds i (s.f.labelOf i : Int) }, g'), ?_, ?_, ?_⟩
    · simp only [initBody, e1, e2, e3, e4, e5, e6, Option.bind_eq_bind, Option.bind_some,
        Option.pure_def, decide_true, if_true, hlab, decide_false, if_false, Int.lt_irrefl,
        Bool.false_eq_true]
    · refine ⟨r6, i1, ?_, ?_, ?_, L.fn, ?_⟩
      · show ((s.h.setCost i 0).insert i).1.size = n
        rw [Heap.insert_size, Heap.setCost_size]; exact L.hsize
      · show ((s.h.setCost i 0).insert i).1.isMax = false
        rw [CE.insert_isMax, Heap.setCost_isMax]; exact L.hmax
      · have R := L.relf
        refine ⟨R.n, ?_, R.sz_status, R.sz_cost, ?_, R.sz_label, R.sz_relevant, R.fsz_relevant,
          ?_, R.status, R.cost, ?_, R.label, R.relevant, R.order⟩
        · show (sg.pred.setIfInBounds i (-1)).size = s.f.n
          rw [Array.size_setIfInBounds]; exact R.sz_pred
        · show (sg.predicted_label.setIfInBounds i _).size = s.f.n
          rw [Array.size_setIfInBounds]; exact R.sz_plabel
        · exact upd_field sg.pred s.f.pred none predInt s.f.n i none R.sz_pred
            L.sized.size_pred hif R.pred
        · exact upd_field sg.predicted_label s.f.plabel 0 (fun (x : Nat) => (x : Int)) s.f.n i
            (s.f.labelOf i) R.sz_plabel L.sized.size_plabel hif R.plabel
      · have S := L.sized
        refine ⟨?_, S.size_proto, S.size_ncost, ?_, S.size_label⟩
        · show (s.f.pred.setIfInBounds i none).size = s.f.n
          rw [Array.size_setIfInBounds]; exact S.size_pred
        · show (s.f.plabel.setIfInBounds i _).size = s.f.n
          rw [Array.size_setIfInBounds]; exact S.size_plabel
    · intro j hj
      show ((s.h.setCost i 0).insert i).1.colorOf j = WHITE
      rw [i3 j (by omega), Heap.setCost_colorOf]; exact hwhite j (by omega)
  · rw [CE.compInit_neg top s i hpr]
    have e1 : Py.idx sg.status (i : Int) = some 0 := by rw [pyIdx_nat, hst, if_neg hpr]
    have e5 : Py.setIdx g.cost (i : Int) top = some (g.cost.setIfInBounds i top) :=
      pySetIdx_nat _ _ _ hgc
    refine ⟨(sg, { g with cost := g.cost.setIfInBounds i top }), ?_, ?_, ?_⟩
    · simp only [initBody, e1, e5, Option.bind_eq_bind, Option.bind_some,
        Option.pure_def, decide_false, if_false, Bool.false_eq_true, Int.reduceEq]
    · exact ⟨rel_setCost L.rel i top, Heap.Inv_setCost L.inv top his hng, L.hsize, L.hmax, L.relf,
        L.fn, L.sized⟩
    · intro j hj
      show (s.h.setCost i top).colorOf j = WHITE
      rw [Heap.setCost_colorOf]; exact hwhite j (by omega)

theorem relaxBody_step (W : Int → Int → Option Int) (w : Nat → Nat → Int) (n : Nat)
    (hW : WAgree n W w) (p q : Nat) (hp : p < n) (hq : q < n) (sg : SG) (g : HeapImp.Obj)
    (s : CompSt) (L : LInv n sg g s) :
    ∃ a', relaxBody W (p : Int) (q : Int) (sg, g) = some a' ∧
      LInv n a'.1 a'.2 (compRelax w false p s q) := by
  have hpf : p < s.f.n := by rw [L.fn]; exact hp
  have hqf : q < s.f.n := by rw [L.fn]; exact hq
  have hqs : q < s.h.size := by rw [L.hsize]; exact hq
  have ecp := L.cost_get p hp
  have ecq := L.cost_get q hq
  have eW := hW p q hp hq
  by_cases hne : p = q
  · have hc : ¬ (p ≠ q ∧ s.h.costOf p < s.h.costOf q ∧
        max (s.h.costOf p) (w p q) < s.h.costOf q) := fun c => c.1 hne
    rw [CE.compRelax_neg w false p s q hc]
    refine ⟨(sg, g), ?_, L⟩
    subst hne
    simp only [relaxBody, ne_eq, not_true_eq_false, decide_false, Bool.false_eq_true, if_false,
      Option.bind_eq_bind, Option.bind_some, Option.pure_def]
  · have hne' : ¬ ((p : Int) = (q : Int)) := by omega
    by_cases h1 : s.h.costOf p < s.h.costOf q
    · by_cases h2 : max (s.h.costOf p) (w p q) < s.h.costOf q
      · rw [CE.compRelax_pos w false p s q ⟨hne, h1, h2⟩]
        have e39 : Py.setIdx sg.pred (q : Int) (p : Int) = some (sg.pred.setIfInBounds q (p : Int)) :=
          pySetIdx_nat _ _ _ (by rw [L.relf.sz_pred]; exact hqf)
        have e40 : Py.idx sg.predicted_label (p : Int) = some (s.f.plabelOf p : Int) := by
          rw [pyIdx_nat]; exact L.relf.plabel p hpf
        have e41 : Py.setIdx sg.predicted_label (q : Int) (s.f.plabelOf p : Int) =
            some (sg.predicted_label.setIfInBounds q (s.f.plabelOf p : Int)) :=
          pySetIdx_nat _ _ _ (by rw [L.relf.sz_plabel]; exact hqf)
        obtain ⟨g', e42, r42⟩ := HeapRefine.update_refines g s.h L.rel L.inv q
          (max (s.h.costOf p) (w p q)) hqs
        have hcontract : s.h.colorOf q = GRAY →
            Heap.better s.h.isMax (s.h.costOf q) (max (s.h.costOf p) (w p q)) = false := by
          intro _
          rw [L.hmax, CE.better_false, decide_eq_false_iff_not]
          omega
        obtain ⟨u1, _, _, _, _⟩ := Heap.update_spec s.h q _ L.inv hqs hcontract
        have hg1 : ¬ ((p : Int) < -1) := by omega
        have hg2 : ¬ ((s.f.plabelOf p : Int) < 0) := by omega
        refine ⟨({ sg with pred := sg.pred.setIfInBounds q (p : Int),
                           predicted_label :=
                             sg.predicted_label.setIfInBounds q (s.f.plabelOf p : Int) }, g'),
          ?_, ?_⟩
        · simp only [relaxBody, ne_eq, hne', not_false_eq_true, decide_true, if_true, ecp, ecq, eW,
            h1, h2, hg1, hg2, e39, e40, e41, e42, decide_false, Bool.false_eq_true, if_false,
            Option.bind_eq_bind, Option.bind_some, Option.pure_def]
        · refine ⟨r42, u1, ?_, ?_, ?_, L.fn, ?_⟩
          · show (s.h.update q _).size = n
            rw [Heap.update_size]; exact L.hsize
          · show (s.h.update q _).isMax = false
            rw [CE.update_isMax]; exact L.hmax
          · have R := L.relf
            refine ⟨R.n, ?_, R.sz_status, R.sz_cost, ?_, R.sz_label, R.sz_relevant,
              R.fsz_relevant, ?_, R.status, R.cost, ?_, R.label, R.relevant, R.order⟩
            · show (sg.pred.setIfInBounds q _).size = s.f.n
              rw [Array.size_setIfInBounds]; exact R.sz_pred
            · show (sg.predicted_label.setIfInBounds q _).size = s.f.n
              rw [Array.size_setIfInBounds]; exact R.sz_plabel
            · exact upd_field sg.pred s.f.pred none predInt s.f.n q (some p) R.sz_pred
                L.sized.size_pred hqf R.pred
            · exact upd_field sg.predicted_label s.f.plabel 0 (fun (x : Nat) => (x : Int)) s.f.n q
                (s.f.plabelOf p) R.sz_plabel L.sized.size_plabel hqf R.plabel
          · have S := L.sized
            refine ⟨?_, S.size_proto, S.size_ncost, ?_, S.size_label⟩
            · show (s.f.pred.setIfInBounds q _).size = s.f.n
              rw [Array.size_setIfInBounds]; exact S.size_pred
            · show (s.f.plabel.setIfInBounds q _).size = s.f.n
              rw [Array.size_setIfInBounds]; exact S.size_plabel
      · have hc : ¬ (p ≠ q ∧ s.h.costOf p < s.h.costOf q ∧
            max (s.h.costOf p) (w p q) < s.h.costOf q) := fun c => h2 c.2.2
        rw [CE.compRelax_neg w false p s q hc]
        refine ⟨(sg, g), ?_, L⟩
        simp only [relaxBody, ne_eq, hne', not_false_eq_true, decide_true, if_true, ecp, ecq, eW,
          h1, h2, decide_false, Bool.false_eq_true, if_false,
          Option.bind_eq_bind, Option.bind_some, Option.pure_def]
    · have hc : ¬ (p ≠ q ∧ s.h.costOf p < s.h.costOf q ∧
          max (s.h.costOf p) (w p q) < s.h.costOf q) := fun c => h1 c.2.1
      rw [CE.compRelax_neg w false p s q hc]
      refine ⟨(sg, g), ?_, L⟩
      simp only [relaxBody, ne_eq, hne', not_false_eq_true, decide_true, if_true, ecp, ecq,
        h1, decide_false, Bool.false_eq_true, if_false,
        Option.bind_eq_bind, Option.bind_some, Option.pure_def]

/-! ### the relaxation loop and one iteration of the `while` loop -/

theorem compRelax_black (w : Nat → Nat → Int) (semi : Bool) (p q : Nat) (s : CompSt) (hinv : Heap.Inv s.h)
    (hq : q < s.h.size) (hmax : s.h.isMax = false) (x : Nat) (hx : s.h.colorOf x = BLACK) :
    (compRelax w semi p s q).h.colorOf x = BLACK := by
  by_cases hc : p ≠ q ∧ s.h.costOf p < s.h.costOf q ∧ max (s.h.costOf p) (w p q) < s.h.costOf q
  · rw [CE.compRelax_pos w semi p s q hc]
    have hcontract : s.h.colorOf q = GRAY →
        Heap.better s.h.isMax (s.h.costOf q) (max (s.h.costOf p) (w p q)) = false := by
      intro _
      rw [hmax, CE.better_false, decide_eq_false_iff_not]
      have := hc.2.2; omega
    obtain ⟨_, _, _, u4, u5⟩ := Heap.update_spec s.h q _ hinv hq hcontract
    show (s.h.update q _).colorOf x = BLACK
    by_cases e : x = q
    · subst e
      rw [u4, if_neg (by rw [hx]; decide), hx]
    · rw [u5 x e, hx]
  · rw [CE.compRelax_neg w semi p s q hc]; exact hx

/-- what the generic loop lemmas need from a relaxation body `rb p q`: one iteration refines
`compRelax w semi p · q` and keeps the invariant. -/
def StepOK (n : Nat) (w : Nat → Nat → Int) (semi : Bool)
    (rb : Int → Int → SG × HeapImp.Obj → Option (SG × HeapImp.Obj)) : Prop :=
  ∀ p q : Nat, p < n → q < n → ∀ (sg : SG) (g : HeapImp.Obj) (s : CompSt), LInv n sg g s →
    ∃ a', rb (p : Int) (q : Int) (sg, g) = some a' ∧ LInv n a'.1 a'.2 (compRelax w semi p s q)

theorem relax_fold (rb : Int → Int → SG × HeapImp.Obj → Option (SG × HeapImp.Obj)) (w : Nat → Nat → Int)
    (semi : Bool) (n : Nat) (hrb : StepOK n w semi rb) (p : Nat) (hp : p < n) (sg : SG) (g : HeapImp.Obj)
    (s : CompSt) (L : LInv n sg g s) :
    ∃ a', Py.forRange (n : Int) (rb (p : Int)) (sg, g) = some a' ∧
      LInv n a'.1 a'.2 ((List.range n).foldl (compRelax w semi p) s) ∧
      (∀ x, s.h.colorOf x = BLACK →
        ((List.range n).foldl (compRelax w semi p) s).h.colorOf x = BLACK) := by
  rw [pyForRange_nat]
  have := foldlM_range_refines
    (fun (_ : Nat) (a : SG × HeapImp.Obj) (b : CompSt) => LInv n a.1 a.2 b ∧
      ∀ x, s.h.colorOf x = BLACK → b.h.colorOf x = BLACK)
    (fun q a => rb (p : Int) (q : Int) a) (compRelax w semi p) n
    (by
      intro k hk a b hab
      obtain ⟨a', e, L'⟩ := hrb p k hp hk a.1 a.2 b hab.1
      refine ⟨a', e, L', fun x hx => ?_⟩
      exact compRelax_black w semi p k b hab.1.inv (by rw [hab.1.hsize]; exact hk) hab.1.hmax x
        (hab.2 x hx))
    n (Nat.le_refl n) (sg, g) s ⟨L, fun _ hx => hx⟩
  exact this

/-- number of identifiers that are not yet BLACK. -/
def nb (n : Nat) (h : Heap) : Nat := (List.range n).countP (fun x => decide (h.colorOf x ≠ BLACK))

theorem nb_le (n : Nat) (h : Heap) : nb n h ≤ n := by
  unfold nb
  have := List.countP_le_length (p := fun x => decide (h.colorOf x ≠ BLACK)) (l := List.range n)
  rw [List.length_range] at this
  exact this

theorem asInt_retOf (p : Nat) : Py.asInt (HeapRefine.retOf (some p)) = (p : Int) := rfl

theorem loopBody_step (rb : Int → Int → SG × HeapImp.Obj → Option (SG × HeapImp.Obj)) (w : Nat → Nat → Int)
    (semi : Bool) (n : Nat) (hrb : StepOK n w semi rb) (sg : SG) (g : HeapImp.Obj) (s : CompSt) (L : LInv n sg g s)
    (hne : 0 < s.h.cnt) :
    ∃ g' sg' s', loopBodyG rb (g, sg) = some (g', sg') ∧ compStep w semi n s = some s' ∧
      LInv n sg' g' s' ∧ nb n s'.h < nb n s.h := by
  obtain ⟨p, r1, ⟨r2a, r2b⟩, _, r4, r5, r6, r7, _⟩ := Heap.remove_spec s.h L.inv hne
  obtain ⟨g1, e1, rr1⟩ := HeapRefine.remove_refines g s.h L.rel L.inv
  rw [r1] at e1
  have hp : p < n := by rw [← L.hsize]; exact r2a
  have hpf : p < s.f.n := by rw [L.fn]; exact hp
  have hsz1 : (s.h.remove).1.size = n := by rw [Heap.remove_size]; exact L.hsize
  have e33 : Py.idx g1.cost (p : Int) = some ((s.h.remove).1.costOf p) := by
    rw [pyIdx_nat, rr1.cost]
    exact getElem?_getD _ _ _ (by rw [r4.size_cost, hsz1]; exact hp)
  have e34 : Py.setIdx sg.cost (p : Int) ((s.h.remove).1.costOf p) =
      some (sg.cost.setIfInBounds p ((s.h.remove).1.costOf p)) :=
    pySetIdx_nat _ _ _ (by rw [L.relf.sz_cost]; exact hpf)
  have hnn : sg.n_nodes = (n : Int) := by rw [L.relf.n, L.fn]
  have L1 : LInv n { sg with idx_nodes := sg.idx_nodes.push (p : Int),
                             cost := sg.cost.setIfInBounds p ((s.h.remove).1.costOf p) }
      g1 (CE.afterRemove s p) := by
    refine ⟨rr1, r4, hsz1, ?_, ?_, L.fn, ?_⟩
    · show (s.h.remove).1.isMax = false
      rw [CE.remove_isMax]; exact L.hmax
    · have R := L.relf
      refine ⟨R.n, R.sz_pred, R.sz_status, ?_, R.sz_plabel, R.sz_label, R.sz_relevant,
        R.fsz_relevant, R.pred, R.status, ?_, R.plabel, R.label, R.relevant, ?_⟩
      · show (sg.cost.setIfInBounds p _).size = s.f.n
        rw [Array.size_setIfInBounds]; exact R.sz_cost
      · exact upd_field sg.cost s.f.ncost 0 (fun (x : Int) => x) s.f.n p _ R.sz_cost
          L.sized.size_ncost hpf R.cost
      · show sg.idx_nodes.push (p : Int) = (s.f.order.push p).map (fun (x : Nat) => (x : Int))
        rw [Array.map_push, R.order]
    · have S := L.sized
      refine ⟨S.size_pred, S.size_proto, ?_, S.size_plabel, S.size_label⟩
      show (s.f.ncost.setIfInBounds p _).size = s.f.n
      rw [Array.size_setIfInBounds]; exact S.size_ncost
  obtain ⟨a', e35, L2, hbl⟩ := relax_fold rb w semi n hrb p hp _ g1 _ L1
  refine ⟨a'.2, a'.1, _, ?_, CE.compStep_some w semi n s p r1, L2, ?_⟩
  · simp only [hnn] at e35
    simp only [loopBodyG, e1, asInt_retOf, e33, e34, hnn, e35, Option.bind_eq_bind, Option.bind_some,
      Option.pure_def]
  · unfold nb
    apply countP_lt_of_imp _ _ _ _ p (List.mem_range.2 hp)
    · rw [decide_eq_true_eq, r2b]; decide
    · rw [decide_eq_false_iff_not, not_not]
      exact hbl p r5
    · intro x _ hx
      rw [decide_eq_true_eq] at hx ⊢
      intro hb
      apply hx
      apply hbl x
      show (s.h.remove).1.colorOf x = BLACK
      by_cases e : x = p
      · rw [e]; exact r5
      · rw [r6 x e]; exact hb

theorem loopCond_eq (g : HeapImp.Obj) (sg : SG) :
    loopCond (g, sg) = some (!decide (g.last = -1)) := by
  unfold loopCond HeapImp.Obj.is_empty
  by_cases h : g.last = -1 <;> simp [h]

theorem while_refines (rb : Int → Int → SG × HeapImp.Obj → Option (SG × HeapImp.Obj)) (w : Nat → Nat → Int)
    (semi : Bool) (n : Nat) (hrb : StepOK n w semi rb) :
    ∀ fuel sg g s, LInv n sg g s → nb n s.h < fuel →
      ∃ g' sg', Py.whileM loopCond (loopBodyG rb) (g, sg) = some (g', sg') ∧
        RelF sg' (compLoop w semi n fuel s).f := by
  intro fuel
  induction fuel with
  | zero => intro sg g s _ h; omega
  | succ fuel ih =>
    intro sg g s L hnb
    have hlast := L.rel.last
    by_cases he : s.h.cnt = 0
    · have hl : compLoop w semi n (fuel + 1) s = s := by
        simp only [compLoop, CE.compStep_none w semi n s he]
      have hc : loopCond (g, sg) = some false := by
        rw [loopCond_eq]
        have : g.last = -1 := by rw [hlast, he]; rfl
        simp [this]
      refine ⟨g, sg, ?_, ?_⟩
      · rw [Py.whileM.eq_1]
        simp only [hc, Option.bind_eq_bind, Option.bind_some, Bool.false_eq_true, if_false,
          Option.pure_def]
      · rw [hl]; exact L.relf
    · obtain ⟨g1, sg1, s1, e1, e2, L1, hlt⟩ := loopBody_step rb w semi n hrb sg g s L (by omega)
      have hl : compLoop w semi n (fuel + 1) s = compLoop w semi n fuel s1 := by
        simp only [compLoop, e2]
      have hc : loopCond (g, sg) = some true := by
        rw [loopCond_eq]
        have : ¬ g.last = -1 := by rw [hlast]; omega
        simp [this]
      obtain ⟨g', sg', e3, r3⟩ := ih sg1 g1 s1 L1 (by omega)
      refine ⟨g', sg', ?_, ?_⟩
      · rw [Py.whileM.eq_1]
        simp only [hc, e1, Option.bind_eq_bind, Option.bind_some, if_true]
        exact e3
      · rw [hl]; exact r3

/-! ### what `primRun` leaves untouched (no hypothesis on the weights) -/

theorem primLoop_same (w : Nat → Nat → Int) (n : Nat) :
    ∀ fuel (s : PrimSt), PrimExec.Same s.f (primLoop w n fuel s).f := by
  intro fuel
  induction fuel with
  | zero => intro s; exact PrimExec.Same.refl _
  | succ fuel ih =>
    intro s
    rcases hrem : s.h.remove with ⟨h1, o⟩
    cases o with
    | none =>
      have : primStep w n s = none := by unfold primStep; rw [hrem]
      simp only [primLoop, this]
      exact PrimExec.Same.refl _
    | some p =>
      have e := PrimExec.primStep_some (w := w) (n := n) hrem
      simp only [primLoop, e]
      refine PrimExec.Same.trans ?_ (ih _)
      refine PrimExec.Same.trans ?_ (PrimExec.fold_same w p _ _)
      exact (PrimExec.same_setNcost s.f p _).trans (PrimExec.primFlag_same _ p)

theorem primRun_same (w : Nat → Nat → Int) (top : Int) (n : Nat) (f : Forest) :
    PrimExec.Same f (primRun w top n f).f := by
  exact (PrimExec.same_setPred f 0 none).trans (primLoop_same w n (n + 1)
    { h := ((Heap.init n false top).insert 0).1, f := { f with pred := f.pred.setIfInBounds 0 none } })

theorem init_sized (lab : Array Nat) : (Forest.init lab).Sized := by
  constructor <;> simp [Forest.init]

theorem relaxBody_stepOK (W : Int → Int → Option Int) (w : Nat → Nat → Int) (n : Nat)
    (hW : WAgree n W w) : StepOK n w false (relaxBody W) :=
  fun p q hp hq sg g s L => relaxBody_step W w n hW p q hp hq sg g s L

/-- heap creation, initialisation loop and competition on a subgraph that represents `f1`. -/
theorem fitTail_refines (rb : Int → Int → SG × HeapImp.Obj → Option (SG × HeapImp.Obj))
    (w : Nat → Nat → Int) (top : Int) (semi : Bool) (sg1 : SG) (f1 : Forest)
    (r1 : RelF sg1 f1) (hs1 : f1.Sized) (hnpos : 0 < f1.n) (hrb : StepOK f1.n w semi rb) :
    ∃ sg', fitTail top rb sg1 = some (sg', ()) ∧ sg'.trained = true ∧
      RelF sg' (competeRun w top semi f1).f := by
  have hfr : competeRun w top semi f1 =
      compLoop w semi f1.n (f1.n + 1)
        ((List.range f1.n).foldl (compInit top) { h := Heap.init f1.n false top, f := f1 }) := rfl
  rw [hfr]
  have hnn : sg1.n_nodes = (f1.n : Int) := r1.n
  obtain ⟨g0, e2, r2⟩ := HeapRefine.init_refines f1.n hnpos false top
  have e2' : HeapImp.Obj.init (f1.n : Int) "min" top = some g0 := e2
  have L0 : LInv f1.n sg1 g0 { h := Heap.init f1.n false top, f := f1 } :=
    ⟨r2, Heap.inv_init f1.n false top, rfl, rfl, r1, rfl, hs1⟩
  obtain ⟨a3, e3, L3, _⟩ := foldlM_range_refines
    (fun (k : Nat) (a : SG × HeapImp.Obj) (b : CompSt) => LInv f1.n a.1 a.2 b ∧
      ∀ j, k ≤ j → b.h.colorOf j = WHITE)
    (fun i a => initBody top (i : Int) a) (compInit top) f1.n
    (fun k hk a b hab => initBody_step top f1.n k hk a.1 a.2 b hab.1 hab.2)
    f1.n (Nat.le_refl _) (sg1, g0) _ ⟨L0, fun j _ => Heap.init_colorOf f1.n false top j⟩
  obtain ⟨g4, sg4, e4, r4⟩ := while_refines rb w semi f1.n hrb (f1.n + 1) a3.1 a3.2 _ L3
    (Nat.lt_succ_of_le (nb_le _ _))
  refine ⟨{ sg4 with trained := true }, ?_, rfl, ?_⟩
  · simp only [fitTail, hnn, e2', pyForRange_nat, e3, e4, Option.bind_eq_bind, Option.bind_some,
      Option.pure_def]
  · exact ⟨r4.n, r4.sz_pred, r4.sz_status, r4.sz_cost, r4.sz_plabel, r4.sz_label, r4.sz_relevant,
      r4.fsz_relevant, r4.pred, r4.status, r4.cost, r4.plabel, r4.label, r4.relevant, r4.order⟩

/-- the part of `fit` after `_find_prototypes()`: initialisation loop + competition. -/
theorem fit_refines (W : Int → Int → Option Int) (w : Nat → Nat → Int) (top : Int)
    (sg0 : SG) (lab : Array Nat) (hr : RelF sg0 (Forest.init lab)) (hn : 0 < lab.size)
    (hW : WAgree lab.size W w) :
    ∃ sg', fit W top sg0 = some (sg', ()) ∧ sg'.trained = true ∧
      RelF sg' (fitRun w top false lab.size lab).f := by
  have hs0 := init_sized lab
  obtain ⟨sg1, e1, r1⟩ := find_prototypes_refines W w top sg0 (Forest.init lab) hr hs0 hn hW
  have hsame := primRun_same w top lab.size (Forest.init lab)
  have hfr : fitRun w top false lab.size lab =
      competeRun w top false (primRun w top lab.size (Forest.init lab)).f := rfl
  rw [hfr]
  have r1' : RelF sg1 (primRun w top lab.size (Forest.init lab)).f := r1
  generalize (primRun w top lab.size (Forest.init lab)).f = f1 at hsame r1' ⊢
  have hn1 : f1.n = lab.size := hsame.n
  obtain ⟨sg', e2, t2, r2⟩ := fitTail_refines (relaxBody W) w top false sg1 f1 r1'
    (hsame.sized hs0) (by rw [hn1]; exact hn) (relaxBody_stepOK W w f1.n (by rw [hn1]; exact hW))
  refine ⟨sg', ?_, t2, r2⟩
  rw [fit_eq]
  simp only [e1, Option.bind_eq_bind, Option.bind_some]
  exact e2

/-- an empty training set: `Heap(0)` raises in `_find_prototypes`. -/
theorem find_prototypes_empty (W : Int → Int → Option Int) (top : Int) (sg0 : SG)
    (h0 : sg0.n_nodes = 0) : find_prototypes W top sg0 = none := by
  have e : HeapImp.Obj.init sg0.n_nodes "min" top = none :=
    HeapRefine.init_rejects _ _ _ (Or.inl (by rw [h0]; decide))
  unfold find_prototypes
  rw [e]; rfl

/-- an empty training set: `Heap(0)` raises in `_find_prototypes`. -/
theorem fit_empty (W : Int → Int → Option Int) (top : Int) (sg0 : SG) (h0 : sg0.n_nodes = 0) :
    fit W top sg0 = none := by
  rw [fit_eq, find_prototypes_empty W top sg0 h0]; rfl

end Opf.SupRefine
