/-
Glue for the END-TO-END theorems `Props/C01Gen.lean` … `C17Gen.lean`: readers that turn the
abstraction relation `RelF sg f` into equations about the arrays of the translated subgraph `sg`,
decoding of `Node.pred` (`NIL = -1`), ancestor chains read directly off a `pred` array, the
competition / Prim instances read off the INPUTS (and, for the seed set, off the returned `status`
array), congruence of `PathCost`, and the few model-side frame facts (`competeRun` keeps array sizes
and the relevance marks) the existing files do not export.
-/
import OpfVerif.Lemmas.SupRefinePredict
import OpfVerif.Lemmas.FitCompose
namespace Opf.GenCompose
open Opf Opf.Gen Opf.Gen.SupImp Opf.SupRefine

/-! ### decoding `Node.pred` -/

/-- a stored predecessor as an optional node position (`NIL = -1`, any negative value, is `none`). -/
def decPred (z : Int) : Option Nat := if z < 0 then none else some z.toNat

/-- predecessor of node `v` read off a `pred` array. -/
def predAt (a : Array Int) (v : Nat) : Option Nat := decPred (a.getD v (-1))

theorem decPred_predInt (o : Option Nat) : decPred (predInt o) = o := by
  cases o with
  | none => rfl
  | some p =>
    unfold decPred predInt
    have : ¬ ((p : Int) < 0) := by omega
    rw [if_neg this, Int.toNat_natCast]

theorem decPred_eq_none {z : Int} : decPred z = none ↔ z < 0 := by
  unfold decPred
  by_cases h : z < 0
  · simp [h]
  · simp [h]

theorem decPred_eq_some {z : Int} {p : Nat} : decPred z = some p ↔ z = (p : Int) := by
  unfold decPred
  by_cases h : z < 0
  · rw [if_pos h]
    constructor
    · intro e; cases e
    · intro e; omega
  · rw [if_neg h]
    constructor
    · intro e
      have : z.toNat = p := by cases e; rfl
      omega
    · intro e; subst e; rw [Int.toNat_natCast]

/-- `AncA a c u`: following the stored predecessors `a` from node `u` reaches node `c`
(`c = u` allowed). -/
inductive AncA (a : Array Int) (c : Nat) : Nat → Prop
  | refl : AncA a c c
  | step {u p : Nat} : predAt a u = some p → AncA a c p → AncA a c u

theorem getD_of_getElem? {α : Type} {a : Array α} {x : Nat} {v d : α} (h : a[x]? = some v) :
    a.getD x d = v := by
  rw [Array.getD_eq_getD_getElem?, h]; rfl

/-! ### readers of `RelF` -/

section readers
variable {sg : SG} {f : Forest}

theorem rd_cost (hr : RelF sg f) {x : Nat} (hx : x < f.n) : sg.cost.getD x 0 = f.costOf x :=
  getD_of_getElem? (hr.cost x hx)

theorem rd_pred (hr : RelF sg f) {x : Nat} (hx : x < f.n) : predAt sg.pred x = f.predOf x := by
  unfold predAt
  rw [getD_of_getElem? (hr.pred x hx), decPred_predInt]

theorem rd_pred_raw (hr : RelF sg f) {x : Nat} (hx : x < f.n) :
    sg.pred.getD x (-1) = predInt (f.predOf x) := getD_of_getElem? (hr.pred x hx)

theorem rd_status (hr : RelF sg f) {x : Nat} (hx : x < f.n) :
    sg.status.getD x 0 = if f.isProto x then 1 else 0 := getD_of_getElem? (hr.status x hx)

theorem rd_status_iff (hr : RelF sg f) {x : Nat} (hx : x < f.n) :
    sg.status.getD x 0 = 1 ↔ f.isProto x = true := by
  rw [rd_status hr hx]
  cases f.isProto x <;> simp

theorem rd_status_01 (hr : RelF sg f) {x : Nat} (hx : x < f.n) :
    sg.status.getD x 0 = 0 ∨ sg.status.getD x 0 = 1 := by
  rw [rd_status hr hx]
  cases f.isProto x <;> simp

theorem rd_plabel (hr : RelF sg f) {x : Nat} (hx : x < f.n) :
    sg.predicted_label.getD x 0 = (f.plabelOf x : Int) := getD_of_getElem? (hr.plabel x hx)

theorem rd_label (hr : RelF sg f) {x : Nat} (hx : x < f.n) :
    sg.label.getD x 0 = (f.labelOf x : Int) := getD_of_getElem? (hr.label x hx)

theorem rd_relevant (hr : RelF sg f) {x : Nat} (hx : x < f.n) :
    sg.relevant.getD x 0 = if f.relevant.getD x false then 1 else 0 :=
  getD_of_getElem? (hr.relevant x hx)

theorem rd_relevant_iff (hr : RelF sg f) {x : Nat} (hx : x < f.n) :
    sg.relevant.getD x 0 = 1 ↔ f.relevantOf x = true := by
  rw [rd_relevant hr hx]
  unfold Forest.relevantOf
  cases f.relevant.getD x false <;> simp

theorem rd_order (hr : RelF sg f) :
    sg.idx_nodes.toList = f.order.toList.map (fun (x : Nat) => (x : Int)) := by
  rw [hr.order, Array.toList_map]

/-- an ancestor chain of the model forest, all of whose nodes are `< n`, is a chain of the
stored `pred` array, and conversely. -/
theorem rd_anc (hr : RelF sg f) (hlt : ∀ x p, x < f.n → f.predOf x = some p → p < f.n)
    (c u : Nat) (hu : u < f.n) : AncA sg.pred c u ↔ Anc f c u := by
  constructor
  · intro h
    induction h with
    | refl => exact Anc.refl
    | step hp _ ih =>
      rw [rd_pred hr hu] at hp
      exact Anc.step hp (ih (hlt _ _ hu hp))
  · intro h
    induction h with
    | refl => exact AncA.refl
    | step hp _ ih =>
      exact AncA.step (by rw [rd_pred hr hu]; exact hp) (ih (hlt _ _ hu hp))

end readers

/-! ### the instances read off the inputs -/

/-- the competition instance of a fit as the END-TO-END theorems state it: `n = lab.size` samples,
arc weights `w`, true labels `lab`, and as seed set the nodes whose returned `status` is `1`. -/
def outInst (w : Nat → Nat → Int) (top : Int) (lab : Array Nat) (status : Array Int) : CompInst :=
  { n := lab.size, w := w, seed := fun x => decide (status.getD x 0 = 1),
    lam := fun x => lab.getD x 0, top := top }

/-- the Prim instance of `_find_prototypes` read off the inputs. -/
def inPrim (w : Nat → Nat → Int) (top : Int) (lab : Array Nat) : PrimInst :=
  { n := lab.size, w := w, lam := fun x => lab.getD x 0, top := top }

theorem inPrim_eq (w : Nat → Nat → Int) (top : Int) (lab : Array Nat) :
    primInstOf w top lab.size (Forest.init lab) = inPrim w top lab := rfl

/-- `PathCost` only depends on `n`, `w` and the seed set below `n`. -/
theorem pathCost_congr {I J : CompInst} (hn : I.n = J.n) (hw : I.w = J.w)
    (hs : ∀ x, x < I.n → I.seed x = J.seed x) {t : Nat} {c : Int}
    (h : I.PathCost t c) : J.PathCost t c := by
  induction h with
  | seed hlt hseed => exact CompInst.PathCost.seed (hn ▸ hlt) (by rw [← hs _ hlt]; exact hseed)
  | arc _ hq hne ih =>
    rw [hw]
    exact CompInst.PathCost.arc ih (hn ▸ hq) hne

theorem pathCost_congr_iff {I J : CompInst} (hn : I.n = J.n) (hw : I.w = J.w)
    (hs : ∀ x, x < I.n → I.seed x = J.seed x) (t : Nat) (c : Int) :
    I.PathCost t c ↔ J.PathCost t c :=
  ⟨pathCost_congr hn hw hs,
   pathCost_congr hn.symm hw.symm (fun x hx => (hs x (hn ▸ hx)).symm)⟩

/-! ### frame facts of the competition model -/

/-- what the competition never changes: `n`, the array sizes, the relevance marks. -/
structure Frame (f g : Forest) : Prop where
  n : g.n = f.n
  pred : g.pred.size = f.pred.size
  proto : g.proto = f.proto
  ncost : g.ncost.size = f.ncost.size
  plabel : g.plabel.size = f.plabel.size
  label : g.label.size = f.label.size
  relevant : g.relevant = f.relevant

theorem Frame.refl (f : Forest) : Frame f f := ⟨rfl, rfl, rfl, rfl, rfl, rfl, rfl⟩

theorem Frame.trans {f g h : Forest} (a : Frame f g) (b : Frame g h) : Frame f h :=
  ⟨b.n.trans a.n, b.pred.trans a.pred, b.proto.trans a.proto, b.ncost.trans a.ncost,
   b.plabel.trans a.plabel, b.label.trans a.label, b.relevant.trans a.relevant⟩

theorem Frame.sized {f g : Forest} (a : Frame f g) (hs : f.Sized) : g.Sized :=
  ⟨by rw [a.pred, a.n]; exact hs.size_pred, by rw [a.proto, a.n]; exact hs.size_proto,
   by rw [a.ncost, a.n]; exact hs.size_ncost, by rw [a.plabel, a.n]; exact hs.size_plabel,
   by rw [a.label, a.n]; exact hs.size_label⟩

theorem compRelax_frame (w : Nat → Nat → Int) (semi : Bool) (p : Nat) (s : CompSt) (q : Nat) :
    Frame s.f (compRelax w semi p s q).f := by
  unfold compRelax
  split
  · refine ⟨rfl, ?_, rfl, rfl, ?_, ?_, rfl⟩
    · simp
    · simp
    · cases semi <;> simp
  · exact Frame.refl _

theorem compRelax_fold_frame (w : Nat → Nat → Int) (semi : Bool) (p : Nat) (l : List Nat) :
    ∀ s : CompSt, Frame s.f (l.foldl (compRelax w semi p) s).f := by
  induction l with
  | nil => intro s; exact Frame.refl _
  | cons q l ih =>
    intro s
    rw [List.foldl_cons]
    exact (compRelax_frame w semi p s q).trans (ih _)

theorem compStep_frame (w : Nat → Nat → Int) (semi : Bool) (n : Nat) (s s' : CompSt)
    (h : compStep w semi n s = some s') : Frame s.f s'.f := by
  unfold compStep at h
  split at h
  · cases h
  · next h1 p _ =>
    simp only [Option.some.injEq] at h
    subst h
    refine Frame.trans ?_ (compRelax_fold_frame w semi p _ _)
    refine ⟨rfl, rfl, rfl, ?_, rfl, rfl, rfl⟩
    simp

theorem compLoop_frame (w : Nat → Nat → Int) (semi : Bool) (n : Nat) (fuel : Nat) :
    ∀ s : CompSt, Frame s.f (compLoop w semi n fuel s).f := by
  induction fuel with
  | zero => intro s; exact Frame.refl _
  | succ fuel ih =>
    intro s
    unfold compLoop
    cases h : compStep w semi n s with
    | none => exact Frame.refl _
    | some s' => exact (compStep_frame w semi n s s' h).trans (ih s')

theorem compInit_frame (top : Int) (s : CompSt) (i : Nat) : Frame s.f (compInit top s i).f := by
  unfold compInit
  split
  · refine ⟨rfl, ?_, rfl, rfl, ?_, rfl, rfl⟩ <;> simp
  · exact Frame.refl _

theorem compInit_fold_frame (top : Int) (l : List Nat) :
    ∀ s : CompSt, Frame s.f (l.foldl (compInit top) s).f := by
  induction l with
  | nil => intro s; exact Frame.refl _
  | cons q l ih =>
    intro s
    rw [List.foldl_cons]
    exact (compInit_frame top s q).trans (ih _)

theorem competeRun_frame (w : Nat → Nat → Int) (top : Int) (semi : Bool) (f : Forest) :
    Frame f (competeRun w top semi f).f := by
  unfold competeRun
  exact Frame.trans (compInit_fold_frame top _ { h := Heap.init f.n false top, f := f })
    (compLoop_frame w semi f.n _ _)

/-! ### predecessor chains -/

theorem chainOk_mono (f : Forest) : ∀ (k k' i : Nat), k ≤ k' → ChainOk f k i → ChainOk f k' i := by
  intro k
  induction k with
  | zero =>
    intro k' i _ h
    cases k' with
    | zero => exact h
    | succ k' =>
      have h0 : f.predOf i = none := h
      unfold ChainOk
      rw [h0]; trivial
  | succ k ih =>
    intro k' i hk h
    cases k' with
    | zero => omega
    | succ k' =>
      unfold ChainOk at h ⊢
      cases hp : f.predOf i with
      | none => trivial
      | some p =>
        rw [hp] at h
        exact ⟨h.1, ih k' p (by omega) h.2⟩

/-- predecessor links that stay below `n` and strictly decrease a rank: the chain from `i`
reaches a root within `rank i` steps. -/
theorem chainOk_of_rank (f : Forest) (rank : Nat → Nat)
    (hlink : ∀ x p, x < f.n → f.predOf x = some p → p < f.n ∧ rank p < rank x) :
    ∀ (k i : Nat), i < f.n → rank i ≤ k → ChainOk f k i := by
  intro k
  induction k with
  | zero =>
    intro i hi hk
    show f.predOf i = none
    cases hp : f.predOf i with
    | none => rfl
    | some p => have := (hlink i p hi hp).2; omega
  | succ k ih =>
    intro i hi hk
    unfold ChainOk
    cases hp : f.predOf i with
    | none => trivial
    | some p =>
      have := hlink i p hi hp
      exact ⟨this.1, ih p this.1 (by omega)⟩

open Opf.FitCompose

/-! ### `_find_prototypes` never touches the relevance marks -/

theorem primRelax_relevant (w : Nat → Nat → Int) (p : Nat) (s : PrimSt) (q : Nat) :
    (primRelax w p s q).f.relevant = s.f.relevant := by
  unfold primRelax
  split <;> rfl

theorem primRelax_fold_relevant (w : Nat → Nat → Int) (p : Nat) (l : List Nat) :
    ∀ s : PrimSt, (l.foldl (primRelax w p) s).f.relevant = s.f.relevant := by
  induction l with
  | nil => intro s; rfl
  | cons q l ih => intro s; rw [List.foldl_cons, ih, primRelax_relevant]

theorem primFlag_relevant (f : Forest) (p : Nat) : (primFlag f p).relevant = f.relevant := by
  unfold primFlag
  split
  · rfl
  · split <;> rfl

theorem primStep_relevant (w : Nat → Nat → Int) (n : Nat) (s s' : PrimSt)
    (h : primStep w n s = some s') : s'.f.relevant = s.f.relevant := by
  unfold primStep at h
  split at h
  · cases h
  · simp only [Option.some.injEq] at h
    subst h
    rw [primRelax_fold_relevant, primFlag_relevant]

theorem primLoop_relevant (w : Nat → Nat → Int) (n : Nat) (fuel : Nat) :
    ∀ s : PrimSt, (primLoop w n fuel s).f.relevant = s.f.relevant := by
  induction fuel with
  | zero => intro s; rfl
  | succ fuel ih =>
    intro s
    unfold primLoop
    cases h : primStep w n s with
    | none => rfl
    | some s' => exact (ih s').trans (primStep_relevant w n s s' h)

theorem primRun_relevant (w : Nat → Nat → Int) (top : Int) (n : Nat) (f : Forest) :
    (primRun w top n f).f.relevant = f.relevant := by
  unfold primRun
  exact primLoop_relevant w n _ _

theorem fitRun_relevant (w : Nat → Nat → Int) (top : Int) (semi : Bool) (nLab : Nat)
    (lab : Array Nat) :
    (fitRun w top semi nLab lab).f.relevant = Array.replicate lab.size false := by
  rw [fitRun_eq, (competeRun_frame w top semi _).relevant]
  exact primRun_relevant w top nLab (Forest.init lab)


/-! ### the C01 / C15 facts, read off the arrays of the subgraph returned by the translated `fit` -/

theorem idxOf_map_cast (l : List Nat) (a : Nat) :
    (l.map (fun (x : Nat) => (x : Int))).idxOf (a : Int) = l.idxOf a := by
  induction l with
  | nil => rfl
  | cons b l ih =>
    simp only [List.map_cons, List.idxOf_cons]
    by_cases h : b = a
    · subst h; simp
    · have h1 : ((b : Int) == (a : Int)) = false := by rw [beq_eq_false_iff_ne]; omega
      have h2 : (b == a) = false := by rw [beq_eq_false_iff_ne]; exact h
      rw [h1, h2, ih]

section fit
variable {w : Nat → Nat → Int} {top : Int} {nLab : Nat} {lab : Array Nat} {semi : Bool} {sg' : SG}

theorem fitRun_n (H : FitHyp w top nLab lab) (semi : Bool) :
    (fitRun w top semi nLab lab).f.n = lab.size := by
  obtain ⟨_, _, _, _, _, _, _, hn⟩ := fit_lawful H semi
  exact hn

theorem fitRun_isProto (H : FitHyp w top nLab lab) (semi : Bool) (x : Nat) :
    (fitRun w top semi nLab lab).f.isProto x = (fitPrim w top nLab lab).isProto x := by
  obtain ⟨_, _, _, _, _, _, hp, _⟩ := fit_lawful H semi
  unfold Forest.isProto; rw [hp]

theorem fitRun_sized (H : FitHyp w top nLab lab) (semi : Bool) :
    (fitRun w top semi nLab lab).f.Sized := by
  rw [fitRun_eq]
  exact (competeRun_frame w top semi _).sized (fitPrim_sized H)

/-- predecessors recorded by the fit are nodes. -/
theorem fitRun_pred_lt (H : FitHyp w top nLab lab) (semi : Bool) (x p : Nat) (hx : x < lab.size)
    (hp : (fitRun w top semi nLab lab).f.predOf x = some p) : p < lab.size := by
  cases hs : (fitPrim w top nLab lab).isProto x with
  | true =>
    have := (fit_seeds H semi x hs).2.2.2.1
    rw [this] at hp; cases hp
  | false =>
    obtain ⟨p', hp', hlt, _⟩ := fit_link H semi x hx hs
    rw [hp'] at hp; cases hp; exact hlt

/-- predecessors were conquered earlier. -/
theorem fitRun_pred_rank (H : FitHyp w top nLab lab) (semi : Bool) (x p : Nat) (hx : x < lab.size)
    (hp : (fitRun w top semi nLab lab).f.predOf x = some p) :
    (fitRun w top semi nLab lab).f.order.toList.idxOf p <
      (fitRun w top semi nLab lab).f.order.toList.idxOf x := by
  cases hs : (fitPrim w top nLab lab).isProto x with
  | true =>
    have := (fit_seeds H semi x hs).2.2.2.1
    rw [this] at hp; cases hp
  | false =>
    obtain ⟨p', hp', _, _, _, _, hlt⟩ := fit_link H semi x hx hs
    rw [hp'] at hp; cases hp; exact hlt

variable (H : FitHyp w top nLab lab) (hr : RelF sg' (fitRun w top semi nLab lab).f)
include H hr

theorem fo_sizes :
    sg'.n_nodes = (lab.size : Int) ∧ sg'.pred.size = lab.size ∧ sg'.status.size = lab.size ∧
    sg'.cost.size = lab.size ∧ sg'.predicted_label.size = lab.size ∧ sg'.label.size = lab.size ∧
    sg'.relevant.size = lab.size := by
  have hn := fitRun_n H semi
  exact ⟨by rw [hr.n, hn], by rw [hr.sz_pred, hn], by rw [hr.sz_status, hn], by rw [hr.sz_cost, hn],
    by rw [hr.sz_plabel, hn], by rw [hr.sz_label, hn], by rw [hr.sz_relevant, hn]⟩

theorem fo_status_iff {x : Nat} (hx : x < lab.size) :
    sg'.status.getD x 0 = 1 ↔ (fitPrim w top nLab lab).isProto x = true := by
  rw [rd_status_iff hr (by rw [fitRun_n H semi]; exact hx), fitRun_isProto H semi]

theorem fo_status_01 {x : Nat} (hx : x < lab.size) :
    sg'.status.getD x 0 = 0 ∨ sg'.status.getD x 0 = 1 :=
  rd_status_01 hr (by rw [fitRun_n H semi]; exact hx)

theorem fo_relevant {x : Nat} (hx : x < lab.size) : sg'.relevant.getD x 0 = 0 := by
  rw [rd_relevant hr (by rw [fitRun_n H semi]; exact hx), fitRun_relevant]
  simp [Array.getD_eq_getD_getElem?, hx]

theorem fo_pathCost (t : Nat) (c : Int) :
    (outInst w top lab sg'.status).PathCost t c ↔ (fitInst w top nLab lab).PathCost t c := by
  apply pathCost_congr_iff
  · exact (fitInst_n H).symm
  · rfl
  · intro x hx
    have hx' : x < lab.size := hx
    show decide (sg'.status.getD x 0 = 1) = (fitPrim w top nLab lab).isProto x
    have := fo_status_iff H hr hx'
    cases hb : (fitPrim w top nLab lab).isProto x with
    | true => rw [decide_eq_true_eq, this]; exact hb
    | false =>
      rw [decide_eq_false_iff_not, this, hb]; exact Bool.false_ne_true

theorem fo_cost_optimal (t : Nat) (ht : t < lab.size) :
    (outInst w top lab sg'.status).PathCost t (sg'.cost.getD t 0) ∧
    ∀ c, (outInst w top lab sg'.status).PathCost t c → sg'.cost.getD t 0 ≤ c := by
  have hn := fitRun_n H semi
  obtain ⟨h1, h2⟩ := fit_cost_optimal H semi t ht
  rw [rd_cost hr (by rw [hn]; exact ht)]
  exact ⟨(fo_pathCost H hr t _).2 h1, fun c hc => h2 c ((fo_pathCost H hr t c).1 hc)⟩

theorem fo_order :
    ∃ ord : List Nat, sg'.idx_nodes.toList = ord.map (fun (x : Nat) => (x : Int)) ∧ ord.Nodup ∧
      (∀ t, t ∈ ord ↔ t < lab.size) ∧ ord.length = lab.size ∧
      ord.Pairwise (fun a b => sg'.cost.getD a 0 ≤ sg'.cost.getD b 0) := by
  have hn := fitRun_n H semi
  obtain ⟨hnd, hmem, hsz, hsorted⟩ := fit_order H semi
  refine ⟨_, rd_order hr, hnd, hmem, by rw [Array.length_toList]; exact hsz, ?_⟩
  refine hsorted.imp_of_mem ?_
  intro a b ha hb hab
  rw [rd_cost hr (by rw [hn]; exact (hmem a).1 ha), rd_cost hr (by rw [hn]; exact (hmem b).1 hb)]
  exact hab

theorem fo_seeds (t : Nat) (ht : t < lab.size) (hs : sg'.status.getD t 0 = 1) :
    t < nLab ∧ sg'.cost.getD t 0 = 0 ∧ sg'.pred.getD t (-1) = -1 ∧
    sg'.predicted_label.getD t 0 = (lab.getD t 0 : Int) := by
  have hn := fitRun_n H semi
  have ht' : t < (fitRun w top semi nLab lab).f.n := by rw [hn]; exact ht
  obtain ⟨h1, _, h3, h4, h5⟩ := fit_seeds H semi t ((fo_status_iff H hr ht).1 hs)
  refine ⟨h1, ?_, ?_, ?_⟩
  · rw [rd_cost hr ht', h3]
  · rw [rd_pred_raw hr ht', h4]; rfl
  · rw [rd_plabel hr ht', h5]

theorem fo_link (t : Nat) (ht : t < lab.size) (hs : sg'.status.getD t 0 ≠ 1) :
    ∃ p, p < lab.size ∧ p ≠ t ∧ sg'.pred.getD t (-1) = (p : Int) ∧
      sg'.cost.getD t 0 = max (sg'.cost.getD p 0) (w p t) ∧
      sg'.predicted_label.getD t 0 = sg'.predicted_label.getD p 0 ∧
      sg'.idx_nodes.toList.idxOf (p : Int) < sg'.idx_nodes.toList.idxOf (t : Int) := by
  have hn := fitRun_n H semi
  have ht' : t < (fitRun w top semi nLab lab).f.n := by rw [hn]; exact ht
  have hnp : (fitPrim w top nLab lab).isProto t = false := by
    cases hb : (fitPrim w top nLab lab).isProto t with
    | false => rfl
    | true => exact absurd ((fo_status_iff H hr ht).2 hb) hs
  obtain ⟨p, hp, hpn, hne, hc, hl, hi⟩ := fit_link H semi t ht hnp
  have hp' : p < (fitRun w top semi nLab lab).f.n := by rw [hn]; exact hpn
  refine ⟨p, hpn, hne, ?_, ?_, ?_, ?_⟩
  · rw [rd_pred_raw hr ht', hp]; rfl
  · rw [rd_cost hr ht', rd_cost hr hp', hc]
  · rw [rd_plabel hr ht', rd_plabel hr hp', hl]
  · rw [rd_order hr, idxOf_map_cast, idxOf_map_cast]; exact hi

theorem fo_forest (t : Nat) (ht : t < lab.size) :
    ∃ r, r < nLab ∧ sg'.status.getD r 0 = 1 ∧ AncA sg'.pred r t ∧
      sg'.predicted_label.getD t 0 = (lab.getD r 0 : Int) := by
  have hn := fitRun_n H semi
  have ht' : t < (fitRun w top semi nLab lab).f.n := by rw [hn]; exact ht
  obtain ⟨r, hr1, hr2, hr3, hr4⟩ := fit_forest H semi t ht
  refine ⟨r, hr1, (fo_status_iff H hr (Nat.lt_of_lt_of_le hr1 H.nLab_le)).2 hr2, ?_, ?_⟩
  · refine (rd_anc hr ?_ r t ht').2 hr3
    intro x p hx hp
    rw [hn] at hx ⊢
    exact fitRun_pred_lt H semi x p hx hp
  · rw [rd_plabel hr ht', hr4]

theorem fo_classes (a : Nat) (ha : a < nLab) :
    ∃ p, p < nLab ∧ sg'.status.getD p 0 = 1 ∧ lab.getD p 0 = lab.getD a 0 := by
  obtain ⟨p, hp, hpp, hl⟩ := prim_every_class H a ha
  exact ⟨p, hp, (fo_status_iff H hr (Nat.lt_of_lt_of_le hp H.nLab_le)).2 hpp, hl⟩

end fit

/-! ### `predict` on the fitted subgraph -/

/-- `c` is the training node that conquers a query whose distance to training node `t` is `d t`:
it minimises `max (cost t) (d t)` over ALL `n` training nodes and is the FIRST such node in the
conquest order `idx_nodes` (every node standing before it offers strictly more). -/
def IsConq (sg : SG) (n : Nat) (d : Nat → Int) (c : Nat) : Prop :=
  c < n ∧
  (∀ s, s < n → max (sg.cost.getD c 0) (d c) ≤ max (sg.cost.getD s 0) (d s)) ∧
  (∀ s, s < n → sg.idx_nodes.toList.idxOf (s : Int) < sg.idx_nodes.toList.idxOf (c : Int) →
    max (sg.cost.getD c 0) (d c) < max (sg.cost.getD s 0) (d s))

theorem mem_take_of_idxOf_lt (l : List Nat) (s c : Nat) (h : l.idxOf s < l.idxOf c) :
    s ∈ l.take (l.idxOf c) := by
  have hc : l.idxOf c ≤ l.length := List.idxOf_le_length
  have hs : l.idxOf s < l.length := by omega
  rw [List.mem_take_iff_getElem]
  exact ⟨l.idxOf s, by omega, List.getElem_idxOf hs⟩

theorem split_at_idxOf (l : List Nat) (c : Nat) (hc : c ∈ l) :
    l = l.take (l.idxOf c) ++ c :: l.drop (l.idxOf c + 1) := by
  have hlt : l.idxOf c < l.length := List.idxOf_lt_length_iff.2 hc
  have : l.drop (l.idxOf c) = c :: l.drop (l.idxOf c + 1) := by
    rw [List.drop_eq_getElem_cons hlt, List.getElem_idxOf hlt]
  rw [← this, List.take_append_drop]

/-- the conqueror is determined by the arrays: two nodes satisfying `IsConq` coincide as soon as
every node `< n` occurs in `idx_nodes`. -/
theorem IsConq.unique {sg : SG} {n : Nat} {d : Nat → Int} {c c' : Nat}
    (hmem : ∀ t, t < n → (t : Int) ∈ sg.idx_nodes.toList)
    (h : IsConq sg n d c) (h' : IsConq sg n d c') : c = c' := by
  rcases Nat.lt_trichotomy (sg.idx_nodes.toList.idxOf (c : Int))
      (sg.idx_nodes.toList.idxOf (c' : Int)) with hlt | heq | hgt
  · have := h'.2.2 c h.1 hlt
    have := h.2.1 c' h'.1
    omega
  · have := (List.idxOf_inj (hmem c h.1)).1 heq
    omega
  · have := h.2.2 c' h'.1 hgt
    have := h'.2.1 c h.1
    omega

section predict
variable {w : Nat → Nat → Int} {top : Int} {nLab : Nat} {lab : Array Nat} {semi : Bool} {sg1 : SG}

/-- the side conditions of `c03_gen_predict`, discharged for the fitted model forest. -/
theorem fitRun_predict_ready (H : FitHyp w top nLab lab) (semi : Bool) :
    (fitRun w top semi nLab lab).f.Sized ∧ 0 < (fitRun w top semi nLab lab).f.n ∧
    (fitRun w top semi nLab lab).f.order.size = (fitRun w top semi nLab lab).f.n ∧
    (∀ x, x ∈ (fitRun w top semi nLab lab).f.order.toList → x < (fitRun w top semi nLab lab).f.n) ∧
    (∀ i, i < (fitRun w top semi nLab lab).f.n →
      ChainOk (fitRun w top semi nLab lab).f ((fitRun w top semi nLab lab).f.n - 1) i) := by
  have hn := fitRun_n H semi
  obtain ⟨_, hmem, hsz, _⟩ := fit_order H semi
  refine ⟨fitRun_sized H semi, by rw [hn]; exact Nat.lt_of_lt_of_le H.nLab_pos H.nLab_le,
    by rw [hsz, hn], fun x hx => by rw [hn]; exact (hmem x).1 hx, ?_⟩
  intro i hi
  apply chainOk_of_rank _ (fun x => (fitRun w top semi nLab lab).f.order.toList.idxOf x)
  · intro x p hx hp
    rw [hn] at hx ⊢
    exact ⟨fitRun_pred_lt H semi x p hx hp, fitRun_pred_rank H semi x p hx hp⟩
  · exact hi
  · have : i ∈ (fitRun w top semi nLab lab).f.order.toList := (hmem i).2 (hn ▸ hi)
    have := List.idxOf_lt_length_iff.2 this
    rw [Array.length_toList, hsz] at this
    omega

/-- the fitted model forest is well formed and ranked by the position in the conquest order, with
no relevance mark set (the hypotheses of `c17_relevant`). -/
theorem fitRun_wf_ranked (H : FitHyp w top nLab lab) (semi : Bool) :
    (fitRun w top semi nLab lab).f.WF ∧
    Ranked (fitRun w top semi nLab lab).f
      (fun x => (fitRun w top semi nLab lab).f.order.toList.idxOf x) ∧
    (∀ x, (fitRun w top semi nLab lab).f.relevantOf x = false) := by
  have hn := fitRun_n H semi
  have hs := fitRun_sized H semi
  obtain ⟨_, hmem, hsz, _⟩ := fit_order H semi
  have hpl : ∀ x p, (fitRun w top semi nLab lab).f.predOf x = some p → x < lab.size := by
    intro x p hp
    apply Classical.byContradiction
    intro hge
    have : (fitRun w top semi nLab lab).f.predOf x = none := by
      unfold Forest.predOf
      rw [Array.getD_eq_getD_getElem?, Array.getElem?_eq_none (by rw [hs.size_pred, hn]; omega)]
      rfl
    rw [this] at hp; cases hp
  refine ⟨⟨hs.size_pred, hs.size_proto, hs.size_ncost, hs.size_plabel, hs.size_label, ?_, ?_, ?_⟩,
    ⟨?_, ?_⟩, ?_⟩
  · rw [fitRun_relevant, Array.size_replicate, hn]
  · intro x p hp
    rw [hn]; exact fitRun_pred_lt H semi x p (hpl x p hp) hp
  · intro t ht; rw [hn]; exact (hmem t).1 ht
  · intro x p hp
    exact fitRun_pred_rank H semi x p (hpl x p hp) hp
  · intro x hx
    have : x ∈ (fitRun w top semi nLab lab).f.order.toList := (hmem x).2 (hn ▸ hx)
    have := List.idxOf_lt_length_iff.2 this
    rw [Array.length_toList, hsz] at this
    rw [hn]; exact this
  · intro x
    unfold Forest.relevantOf
    rw [fitRun_relevant, Array.getD_eq_getD_getElem?, Array.getElem?_replicate]
    split <;> rfl

/-- the scan of the model on the fitted forest succeeds and its conqueror is the node described
by `IsConq` on the arrays of the fitted subgraph. -/
theorem predictOne_isConq (H : FitHyp w top nLab lab)
    (hr : RelF sg1 (fitRun w top semi nLab lab).f) (d : Nat → Int) :
    ∃ r, predictOne (fitRun w top semi nLab lab).f d = some r ∧ IsConq sg1 lab.size d r.conq ∧
      (r.label : Int) = sg1.predicted_label.getD r.conq 0 := by
  have hn := fitRun_n H semi
  obtain ⟨hnd, hmem, _, hsorted⟩ := fit_order H semi
  have hsort : OrderSorted (fitRun w top semi nLab lab).f := hsorted
  have h0 : 0 ∈ (fitRun w top semi nLab lab).f.order.toList :=
    (hmem 0).2 (Nat.lt_of_lt_of_le H.nLab_pos H.nLab_le)
  have hne : predictOne (fitRun w top semi nLab lab).f d ≠ none := by
    intro hnone
    rw [(predictOne_none_iff _ d).1 hnone] at h0
    exact absurd h0 (by simp)
  obtain ⟨r, hr1⟩ := Option.ne_none_iff_exists'.1 hne
  obtain ⟨hc1, hc2, hc3⟩ := predictOne_conq_mem _ d r hr1
  have hcn : r.conq < lab.size := (hmem _).1 hc1
  have hcost : ∀ s, s < lab.size → sg1.cost.getD s 0 = (fitRun w top semi nLab lab).f.costOf s :=
    fun s hs => rd_cost hr (by rw [hn]; exact hs)
  refine ⟨r, hr1, ⟨hcn, ?_, ?_⟩, ?_⟩
  · intro s hs
    rw [hcost _ hcn, hcost s hs]
    rw [← hc2]
    exact (predictOne_min _ d hsort r hr1).1 s ((hmem s).2 hs)
  · intro s hs hlt
    rw [rd_order hr, idxOf_map_cast, idxOf_map_cast] at hlt
    rw [hcost _ hcn, hcost s hs]
    rw [← hc2]
    exact predictOne_first _ d hsort r hr1 _ _ (split_at_idxOf _ _ hc1) hnd s
      (mem_take_of_idxOf_lt _ _ _ hlt)
  · rw [rd_plabel hr (by rw [hn]; exact hcn), hc3]

end predict

/-- a pass of `predict` changes no array of the training subgraph except `relevant`. -/
theorem relF_agree {sg sg' : SG} {f g : Forest} (hr : RelF sg f) (hr' : RelF sg' g)
    (ha : AgreeBut g f) :
    sg'.n_nodes = sg.n_nodes ∧ sg'.cost = sg.cost ∧ sg'.pred = sg.pred ∧ sg'.status = sg.status ∧
    sg'.predicted_label = sg.predicted_label ∧ sg'.label = sg.label ∧
    sg'.idx_nodes = sg.idx_nodes := by
  obtain ⟨h1, h2, h3, h4, h5, h6, h7⟩ := ha
  have ext : ∀ (a b : Array Int), a.size = f.n → b.size = f.n →
      (∀ x, x < f.n → a[x]? = b[x]?) → a = b := by
    intro a b ha hb h
    apply Array.ext_getElem?
    intro x
    by_cases hx : x < f.n
    · exact h x hx
    · rw [Array.getElem?_eq_none (by omega), Array.getElem?_eq_none (by omega)]
  refine ⟨by rw [hr'.n, hr.n, h1], ?_, ?_, ?_, ?_, ?_, by rw [hr'.order, hr.order, h7]⟩
  · refine ext _ _ (by rw [hr'.sz_cost, h1]) hr.sz_cost (fun x hx => ?_)
    rw [hr'.cost x (by rw [h1]; exact hx), hr.cost x hx]
    unfold Forest.costOf; rw [h4]
  · refine ext _ _ (by rw [hr'.sz_pred, h1]) hr.sz_pred (fun x hx => ?_)
    rw [hr'.pred x (by rw [h1]; exact hx), hr.pred x hx]
    unfold Forest.predOf; rw [h2]
  · refine ext _ _ (by rw [hr'.sz_status, h1]) hr.sz_status (fun x hx => ?_)
    rw [hr'.status x (by rw [h1]; exact hx), hr.status x hx]
    unfold Forest.isProto; rw [h3]
  · refine ext _ _ (by rw [hr'.sz_plabel, h1]) hr.sz_plabel (fun x hx => ?_)
    rw [hr'.plabel x (by rw [h1]; exact hx), hr.plabel x hx]
    unfold Forest.plabelOf; rw [h5]
  · refine ext _ _ (by rw [hr'.sz_label, h1]) hr.sz_label (fun x hx => ?_)
    rw [hr'.label x (by rw [h1]; exact hx), hr.label x hx]
    unfold Forest.labelOf; rw [h6]

/-- reading the array of returned labels. -/
theorem labelsInt_getD (L : List (Option Nat)) (i : Nat) (hi : i < L.length) (v : Nat)
    (h : L[i] = some v) : (labelsInt L).getD i 0 = (v : Int) := by
  unfold labelsInt
  rw [Array.getD_eq_getD_getElem?]
  simp [hi, h]


/-! ### costs are finite -/

/-- a path cost is the weight of an arc or 0: it lies in `[0, top)`. -/
theorem pathCost_bounds {I : CompInst} (hg : I.Good) {t : Nat} {c : Int} (h : I.PathCost t c) :
    t < I.n ∧ 0 ≤ c ∧ c < I.top := by
  induction h with
  | seed hlt _ => exact ⟨hlt, Int.le_refl 0, hg.top_pos⟩
  | arc _ hq _ ih =>
    obtain ⟨hp, h0, h1⟩ := ih
    have := hg.w_nonneg _ _ hp hq
    have := hg.w_lt_top _ _ hp hq
    exact ⟨hq, by omega, by omega⟩

theorem fo_cost_bounds {w : Nat → Nat → Int} {top : Int} {nLab : Nat} {lab : Array Nat}
    {semi : Bool} {sg' : SG} (H : FitHyp w top nLab lab)
    (hr : RelF sg' (fitRun w top semi nLab lab).f) (t : Nat) (ht : t < lab.size) :
    0 ≤ sg'.cost.getD t 0 ∧ sg'.cost.getD t 0 < top := by
  rw [rd_cost hr (by rw [fitRun_n H semi]; exact ht)]
  exact (pathCost_bounds (comp_good H) (fit_cost_optimal H semi t ht).1).2


end Opf.GenCompose
