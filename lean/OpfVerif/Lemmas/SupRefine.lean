/-
Refinement between the statement-level translation of `Subgraph.mark_nodes`,
`SupervisedOPF._find_prototypes` and `SupervisedOPF.fit` (`Gen/SupImp.lean`, regenerated from the
source on every run by `tools/translate_fn.py`) and the executable models `markNodes`, `primRun`,
`competeRun`/`fitRun` of `Model/Forest.lean`.  Vocabulary + lemmas; the property-level statements
are in `Props/C01Refine.lean`.
-/
import OpfVerif.Gen.SupImp
import OpfVerif.Lemmas.HeapRefine
import OpfVerif.Lemmas.PrimExec
import OpfVerif.Lemmas.CompeteExec
namespace Opf.SupRefine
open Opf Opf.Gen Opf.Gen.SupImp

/-- `Node.pred` as the real code stores it (`NIL = -1`). -/
def predInt : Option Nat → Int
  | none => -1
  | some p => (p : Int)

/-- abstraction relation: the flattened subgraph `sg` represents the model forest `f`. -/
structure RelF (sg : SG) (f : Forest) : Prop where
  n : sg.n_nodes = (f.n : Int)
  sz_pred : sg.pred.size = f.n
  sz_status : sg.status.size = f.n
  sz_cost : sg.cost.size = f.n
  sz_plabel : sg.predicted_label.size = f.n
  sz_label : sg.label.size = f.n
  sz_relevant : sg.relevant.size = f.n
  fsz_relevant : f.relevant.size = f.n
  pred : ∀ x, x < f.n → sg.pred[x]? = some (predInt (f.predOf x))
  status : ∀ x, x < f.n → sg.status[x]? = some (if f.isProto x then 1 else 0)
  cost : ∀ x, x < f.n → sg.cost[x]? = some (f.costOf x)
  plabel : ∀ x, x < f.n → sg.predicted_label[x]? = some (f.plabelOf x : Int)
  label : ∀ x, x < f.n → sg.label[x]? = some (f.labelOf x : Int)
  relevant : ∀ x, x < f.n → sg.relevant[x]? = some (if f.relevant.getD x false then 1 else 0)
  order : sg.idx_nodes = f.order.map (fun (x : Nat) => (x : Int))

/-- the arc-weight oracle of the translation agrees with the model's weight function on the
positions of the subgraph (and only there: outside it may raise). -/
def WAgree (n : Nat) (W : Int → Int → Option Int) (w : Nat → Nat → Int) : Prop :=
  ∀ a b : Nat, a < n → b < n → W (a : Int) (b : Int) = some (w a b)

/-- the predecessor chain from `i` reaches a root within `k` steps and stays inside the forest. -/
def ChainOk (f : Forest) : Nat → Nat → Prop
  | 0, i => f.predOf i = none
  | k + 1, i => match f.predOf i with
      | none => True
      | some p => p < f.n ∧ ChainOk f k p

namespace Prim

/-! ### evaluation lemmas, `mark_nodes` -/

theorem idx_nat {α : Type} (a : Array α) (k : Nat) : Py.idx a (k : Int) = a[k]? := by
  unfold Py.idx Py.resolve
  by_cases hk : k < a.size
  · simp [hk]
  · simp [hk]

theorem setIdx_nat {α : Type} (a : Array α) (k : Nat) (v : α) (hk : k < a.size) :
    Py.setIdx a (k : Int) v = some (a.setIfInBounds k v) := by
  unfold Py.setIdx Py.resolve
  simp [hk]

theorem getElem?_set {α : Type} (a : Array α) (i k : Nat) (v : α) :
    (a.setIfInBounds i v)[k]? = if k = i ∧ i < a.size then some v else a[k]? := by
  rw [Array.getElem?_setIfInBounds]
  by_cases h : i = k
  · subst h
    by_cases h2 : i < a.size
    · simp [h2]
    · simp [h2]
  · have : ¬ k = i := fun e => h e.symm
    simp [h, this]

theorem mark_nodes_root (sg : SG) (i : Nat) (hp : sg.pred[i]? = some (-1))
    (hi : i < sg.relevant.size) :
    mark_nodes sg (i : Int) = some ({ sg with relevant := sg.relevant.setIfInBounds i 1 }, ()) := by
  unfold mark_nodes
  rw [Py.whileM.eq_1]
  simp [idx_nat, hp, setIdx_nat _ _ _ hi]

theorem mark_nodes_step (sg : SG) (i : Nat) (p : Int) (hp : sg.pred[i]? = some p) (hne : p ≠ -1)
    (hi : i < sg.relevant.size) :
    mark_nodes sg (i : Int) = mark_nodes { sg with relevant := sg.relevant.setIfInBounds i 1 } p := by
  unfold mark_nodes
  conv_lhs => rw [Py.whileM.eq_1]
  simp [idx_nat, hp, hne, setIdx_nat _ _ _ hi]

theorem relF_mark {sg : SG} {f : Forest} (hr : RelF sg f) (i : Nat) :
    RelF { sg with relevant := sg.relevant.setIfInBounds i 1 }
      { f with relevant := f.relevant.setIfInBounds i true } := by
  refine ⟨hr.n, hr.sz_pred, hr.sz_status, hr.sz_cost, hr.sz_plabel, hr.sz_label, ?_, ?_, hr.pred,
    hr.status, hr.cost, hr.plabel, hr.label, ?_, hr.order⟩
  · show (sg.relevant.setIfInBounds i 1).size = f.n
    rw [Array.size_setIfInBounds]; exact hr.sz_relevant
  · show (f.relevant.setIfInBounds i true).size = f.n
    rw [Array.size_setIfInBounds]; exact hr.fsz_relevant
  · intro x hx
    show (sg.relevant.setIfInBounds i 1)[x]? =
      some (if (f.relevant.setIfInBounds i true).getD x false then 1 else 0)
    rw [getElem?_set, Heap.getD_set, hr.sz_relevant, hr.fsz_relevant]
    by_cases h : x = i ∧ i < f.n
    · rw [if_pos h, if_pos h]; rfl
    · rw [if_neg h, if_neg h]; exact hr.relevant x hx

theorem chainOk_congr {f g : Forest} (hp : g.pred = f.pred) (hn : g.n = f.n) (k i : Nat)
    (h : ChainOk f k i) : ChainOk g k i := by
  induction k generalizing i with
  | zero =>
    show g.predOf i = none
    unfold Forest.predOf; rw [hp]; exact h
  | succ k ih =>
    have e : g.predOf i = f.predOf i := by unfold Forest.predOf; rw [hp]
    unfold ChainOk at h ⊢
    rw [e]
    cases hq : f.predOf i with
    | none => trivial
    | some p =>
      rw [hq] at h
      exact ⟨by rw [hn]; exact h.1, ih p h.2⟩


/-! ### `find_prototypes`: named copies of the loop components -/
section copies
set_option linter.unusedVariables false

/-- copy of the loop guard of `find_prototypes`. -/
def fpCond : HeapImp.Obj × SG × Array Int → Option Bool :=
    (fun (h, sg, prototypes) => (do
      let t8 ← HeapImp.Obj.is_empty h
      pure (!t8)))

def fpRelax (W : Int → Int → Option Int) (p : Int) : Int → SG × HeapImp.Obj → Option (SG × HeapImp.Obj) :=
        (fun q (sg, h) => (do
          let t19 ← Py.idx h.color q
          let (sg, h) ← (if (decide (t19 ≠ (2 : Int))) then (do
              let (sg, h) ← (if (decide (p ≠ q)) then (do
                  let weight ← W p q
                  let t20 ← Py.idx h.cost q
                  let (sg, h) ← (if (decide (weight < t20)) then (do
                      let _g ← (if (decide (p < (-1 : Int))) then none else pure ())
                      let t21 ← Py.setIdx sg.pred q p
                      let sg := { sg with pred := t21 }
                      let (h, t22) ← HeapImp.Obj.update h q weight
                      pure (sg, h)) else (do
                      pure (sg, h)))
                  pure (sg, h)) else (do
                  pure (sg, h)))
              pure (sg, h)) else (do
              pure (sg, h)))
          pure (sg, h)))

def fpMark (sg : SG) (prototypes : Array Int) (p t15 : Int) : Option (SG × Array Int) :=
              (if (decide (t15 ≠ (1 : Int))) then (do
                  let _g ← (if (!([(0 : Int), (1 : Int)].contains (1 : Int))) then none else pure ())
                  let t16 ← Py.setIdx sg.status p (1 : Int)
                  let sg := { sg with status := t16 }
                  let prototypes := prototypes.push p
                  pure (sg, prototypes)) else (do
                  pure (sg, prototypes)))

def fpFlag (sg : SG) (prototypes : Array Int) (p pred : Int) : Option (SG × Array Int) :=
      (if (decide (pred ≠ (-1 : Int))) then (do
          let t13 ← Py.idx sg.label p
          let t14 ← Py.idx sg.label pred
          let (sg, prototypes) ← (if (decide (t13 ≠ t14)) then (do
              let t15 ← Py.idx sg.status p
              let (sg, prototypes) ← fpMark sg prototypes p t15
              let t17 ← Py.idx sg.status pred
              let (sg, prototypes) ← fpMark sg prototypes pred t17
              pure (sg, prototypes)) else (do
              pure (sg, prototypes)))
          pure (sg, prototypes)) else (do
          pure (sg, prototypes)))

def fpBody (W : Int → Int → Option Int) : HeapImp.Obj × SG × Array Int → Option (HeapImp.Obj × SG × Array Int) :=
    (fun (h, sg, prototypes) => (do
      let (h, t9) ← HeapImp.Obj.remove h
      let p := (Py.asInt t9)
      let t10 ← Py.idx h.cost p
      let t11 ← Py.setIdx sg.cost p t10
      let sg := { sg with cost := t11 }
      let t12 ← Py.idx sg.pred p
      let pred := t12
      let (sg, prototypes) ← fpFlag sg prototypes p pred
      let (sg, h) ← Py.forRange (σ := SG × HeapImp.Obj) sg.n_nodes (fpRelax W p) (sg, h)
      pure (h, sg, prototypes)))

theorem find_prototypes_eq (W : Int → Int → Option Int) (top : Int) (sg : SG) :
    find_prototypes W top sg = (do
      let t5 ← HeapImp.Obj.init sg.n_nodes "min" top
      let h := t5
      let t6 ← Py.setIdx sg.pred (0 : Int) (-1 : Int)
      let sg := { sg with pred := t6 }
      let (h, t7) ← HeapImp.Obj.insert h (0 : Int)
      let (h, sg, prototypes) ← Py.whileM fpCond (fpBody W) (h, sg, #[])
      pure (sg, ())) := by
  rfl

end copies

/-! ### array facts, stores, flagging -/
theorem set_same {α : Type} (a : Array α) (x : Nat) (v : α) (h : a[x]? = some v) :
    a.setIfInBounds x v = a := by
  apply Array.ext_getElem?
  intro i
  rw [getElem?_set]
  by_cases hc : i = x ∧ x < a.size
  · rw [if_pos hc, hc.1, h]
  · rw [if_neg hc]

theorem getD_of_getElem? {α : Type} (a : Array α) (x : Nat) (d : α) (hx : x < a.size) :
    a[x]? = some (a.getD x d) := by
  simp [Array.getD, hx]

/-! ### stores re-establish `RelF` -/

theorem relF_setPred {sg : SG} {f : Forest} (hr : RelF sg f) (hs : f.pred.size = f.n)
    (q : Nat) (v : Option Nat) :
    RelF { sg with pred := sg.pred.setIfInBounds q (predInt v) }
      { f with pred := f.pred.setIfInBounds q v } := by
  refine ⟨hr.n, ?_, hr.sz_status, hr.sz_cost, hr.sz_plabel, hr.sz_label, hr.sz_relevant,
    hr.fsz_relevant, ?_, hr.status, hr.cost, hr.plabel, hr.label, hr.relevant, hr.order⟩
  · show (sg.pred.setIfInBounds q (predInt v)).size = f.n
    rw [Array.size_setIfInBounds]; exact hr.sz_pred
  · intro x hx
    show (sg.pred.setIfInBounds q (predInt v))[x]? =
      some (predInt ((f.pred.setIfInBounds q v).getD x none))
    rw [getElem?_set, Heap.getD_set, hr.sz_pred, hs]
    by_cases h : x = q ∧ q < f.n
    · rw [if_pos h, if_pos h]
    · rw [if_neg h, if_neg h]; exact hr.pred x hx

theorem relF_setCost {sg : SG} {f : Forest} (hr : RelF sg f) (hs : f.ncost.size = f.n)
    (q : Nat) (v : Int) :
    RelF { sg with cost := sg.cost.setIfInBounds q v }
      { f with ncost := f.ncost.setIfInBounds q v } := by
  refine ⟨hr.n, hr.sz_pred, hr.sz_status, ?_, hr.sz_plabel, hr.sz_label, hr.sz_relevant,
    hr.fsz_relevant, hr.pred, hr.status, ?_, hr.plabel, hr.label, hr.relevant, hr.order⟩
  · show (sg.cost.setIfInBounds q v).size = f.n
    rw [Array.size_setIfInBounds]; exact hr.sz_cost
  · intro x hx
    show (sg.cost.setIfInBounds q v)[x]? = some ((f.ncost.setIfInBounds q v).getD x 0)
    rw [getElem?_set, Heap.getD_set, hr.sz_cost, hs]
    by_cases h : x = q ∧ q < f.n
    · rw [if_pos h, if_pos h]
    · rw [if_neg h, if_neg h]; exact hr.cost x hx

theorem relF_setProto {sg : SG} {f : Forest} (hr : RelF sg f) (hs : f.proto.size = f.n)
    (q : Nat) :
    RelF { sg with status := sg.status.setIfInBounds q 1 }
      { f with proto := f.proto.setIfInBounds q true } := by
  refine ⟨hr.n, hr.sz_pred, ?_, hr.sz_cost, hr.sz_plabel, hr.sz_label, hr.sz_relevant,
    hr.fsz_relevant, hr.pred, ?_, hr.cost, hr.plabel, hr.label, hr.relevant, hr.order⟩
  · show (sg.status.setIfInBounds q 1).size = f.n
    rw [Array.size_setIfInBounds]; exact hr.sz_status
  · intro x hx
    show (sg.status.setIfInBounds q 1)[x]? =
      some (if (f.proto.setIfInBounds q true).getD x false then 1 else 0)
    rw [getElem?_set, Heap.getD_set, hr.sz_status, hs]
    by_cases h : x = q ∧ q < f.n
    · rw [if_pos h, if_pos h]; rfl
    · rw [if_neg h, if_neg h]; exact hr.status x hx

/-! ### flagging -/

theorem fpMark_eq (sg : SG) (pr : Array Int) (x : Nat) (t : Int) (hx : x < sg.status.size)
    (ht : sg.status[x]? = some t) :
    ∃ pr', fpMark sg pr (x : Int) t =
      some ({ sg with status := sg.status.setIfInBounds x 1 }, pr') := by
  unfold fpMark
  by_cases h : t = 1
  · subst h
    refine ⟨pr, ?_⟩
    rw [set_same _ _ _ ht]
    simp
  · refine ⟨pr.push x, ?_⟩
    simp [h, setIdx_nat _ _ _ hx]

theorem fpMark_refines {sg : SG} {f : Forest} (hr : RelF sg f) (hs : f.proto.size = f.n)
    (pr : Array Int) (x : Nat) (hx : x < f.n) :
    ∃ sg' pr', fpMark sg pr (x : Int) (if f.isProto x then 1 else 0) = some (sg', pr') ∧
      RelF sg' { f with proto := f.proto.setIfInBounds x true } := by
  obtain ⟨pr1, h1⟩ := fpMark_eq sg pr x _ (by rw [hr.sz_status]; exact hx) (hr.status x hx)
  exact ⟨_, pr1, h1, relF_setProto hr hs x⟩

theorem fpFlag_refines {sg : SG} {f : Forest} (hr : RelF sg f) (hs : f.Sized) (pr : Array Int)
    (x : Nat) (hx : x < f.n) (hp : ∀ r, f.predOf x = some r → r < f.n) :
    ∃ sg' pr', fpFlag sg pr (x : Int) (predInt (f.predOf x)) = some (sg', pr') ∧
      RelF sg' (primFlag f x) := by
  cases hq : f.predOf x with
  | none =>
    refine ⟨sg, pr, ?_, ?_⟩
    · simp [fpFlag, predInt]
    · rw [PrimExec.primFlag_none hq]; exact hr
  | some r =>
    have hrn := hp r hq
    have hne : ¬ ((r : Int) = -1) := by omega
    by_cases hl : f.labelOf x ≠ f.labelOf r
    · have hl' : ¬ ((f.labelOf x : Int) = (f.labelOf r : Int)) := by omega
      obtain ⟨sg1, pr1, h1, hr1⟩ := fpMark_refines hr hs.size_proto pr x hx
      obtain ⟨sg2, pr2, h2, hr2⟩ := fpMark_refines hr1
        (by show (f.proto.setIfInBounds x true).size = f.n
            rw [Array.size_setIfInBounds]; exact hs.size_proto) pr1 r hrn
      refine ⟨sg2, pr2, ?_, ?_⟩
      · unfold fpFlag
        simp only [predInt, idx_nat, hr.label x hx, hr.label r hrn, hr.status x hx,
          Option.bind_eq_bind, Option.bind_some, Option.pure_def, ne_eq, hne, hl',
          not_false_eq_true, decide_true, if_true, h1, hr1.status r hrn, h2]
      · rw [PrimExec.primFlag_some_ne hq hl]
        exact hr2
    · have hl' : (f.labelOf x : Int) = (f.labelOf r : Int) := by omega
      refine ⟨sg, pr, ?_, ?_⟩
      · simp [fpFlag, predInt, idx_nat, hne, hl', hr.label x hx, hr.label r hrn]
      · rw [PrimExec.primFlag_some_eq hq hl]; exact hr

/-! ### the relaxation loop, the main loop -/

/-- what the loop of `_find_prototypes` maintains on the model state. -/
structure LInv (n : Nat) (s : PrimSt) : Prop where
  inv : Heap.Inv s.h
  hsize : s.h.size = n
  hmin : s.h.isMax = false
  fn : s.f.n = n
  sized : s.f.Sized
  gpred : ∀ x, x < n → s.h.colorOf x = GRAY → ∀ r, s.f.predOf x = some r → r < n

theorem fpRelax_refines {W : Int → Int → Option Int} {w : Nat → Nat → Int} {n : Nat}
    (hW : WAgree n W w) {sg : SG} {g : HeapImp.Obj} {s : PrimSt}
    (hF : RelF sg s.f) (hR : HeapRefine.Rel g s.h) (hI : LInv n s) (p q : Nat) (hp : p < n)
    (hq : q < n) :
    ∃ sg' g', fpRelax W (p : Int) (q : Int) (sg, g) = some (sg', g') ∧
      RelF sg' (primRelax w p s q).f ∧ HeapRefine.Rel g' (primRelax w p s q).h ∧
      LInv n (primRelax w p s q) ∧
      (∀ y, s.h.colorOf y = BLACK → (primRelax w p s q).h.colorOf y = BLACK) := by
  have hqs : q < s.h.size := by rw [hI.hsize]; exact hq
  have hcol : g.color[q]? = some (s.h.colorOf q : Int) := hR.color q hqs
  have hcost : g.cost[q]? = some (s.h.costOf q) := by
    rw [hR.cost]; exact getD_of_getElem? _ _ _ (by rw [hI.inv.size_cost]; exact hqs)
  by_cases hc : s.h.colorOf q ≠ BLACK ∧ p ≠ q ∧ w p q < s.h.costOf q
  · rw [PrimExec.primRelax_pos hc]
    obtain ⟨hcb, hpq, hlt⟩ := hc
    obtain ⟨g', hu, hR'⟩ := HeapRefine.update_refines g s.h hR hI.inv q (w p q) hqs
    obtain ⟨i1, c1, c2, k1, k2⟩ := Heap.update_spec s.h q (w p q) hI.inv hqs
      (by intro _; rw [hI.hmin]; exact PrimExec.better_min_false (Int.le_of_lt hlt))
    have e1 : ¬ ((s.h.colorOf q : Int) = 2) := by
      intro h; apply hcb; show s.h.colorOf q = 2; omega
    have e2 : ¬ ((p : Int) = (q : Int)) := by omega
    have e3 : ¬ ((p : Int) < -1) := by omega
    have hqp : q < sg.pred.size := by rw [hF.sz_pred, hI.fn]; exact hq
    refine ⟨_, g', ?_, relF_setPred hF hI.sized.size_pred q (some p), hR', ?_, ?_⟩
    · unfold fpRelax
      simp only [idx_nat, hcol, hcost, hW p q hp hq, Option.bind_eq_bind, Option.bind_some,
        Option.pure_def, ne_eq, e1, e2, e3, hlt, not_false_eq_true, decide_true, decide_false,
        if_true, if_false, setIdx_nat _ _ _ hqp, hu, Bool.false_eq_true]
      rfl
    · refine ⟨i1, by rw [Heap.update_size]; exact hI.hsize,
        by rw [PrimExec.update_isMax]; exact hI.hmin, hI.fn,
        (PrimExec.same_setPred s.f q (some p)).sized hI.sized, ?_⟩
      intro x hx hg r hr
      rw [PrimExec.predOf_setPred] at hr
      by_cases hxq : x = q
      · rw [if_pos ⟨hxq, by rw [hI.sized.size_pred, hI.fn]; exact hq⟩] at hr
        have : p = r := Option.some.inj hr
        omega
      · rw [if_neg (fun h => hxq h.1)] at hr
        have hg' : s.h.colorOf x = GRAY := by rw [← k2 x hxq]; exact hg
        exact hI.gpred x hx hg' r hr
    · intro y hy
      have hyq : y ≠ q := fun e => hcb (e ▸ hy)
      show (s.h.update q (w p q)).colorOf y = BLACK
      rw [k2 y hyq]; exact hy
  · rw [PrimExec.primRelax_neg hc]
    refine ⟨sg, g, ?_, hF, hR, hI, fun _ h => h⟩
    unfold fpRelax
    by_cases h1 : s.h.colorOf q = BLACK
    · have e1 : (s.h.colorOf q : Int) = 2 := by rw [h1]; rfl
      simp only [idx_nat, hcol, Option.bind_eq_bind, Option.bind_some, Option.pure_def, ne_eq,
        e1, not_true_eq_false, decide_false, if_false, Bool.false_eq_true]
    · have e1 : ¬ ((s.h.colorOf q : Int) = 2) := by
        intro h; apply h1; show s.h.colorOf q = 2; omega
      by_cases h2 : p = q
      · have e2 : (p : Int) = (q : Int) := by omega
        simp only [idx_nat, hcol, Option.bind_eq_bind, Option.bind_some, Option.pure_def, ne_eq,
          e1, e2, not_true_eq_false, not_false_eq_true, decide_true, decide_false, if_true,
          if_false, Bool.false_eq_true]
      · have e2 : ¬ ((p : Int) = (q : Int)) := by omega
        have e3 : ¬ (w p q < s.h.costOf q) := fun h => hc ⟨h1, h2, h⟩
        simp only [idx_nat, hcol, hcost, hW p q hp hq, Option.bind_eq_bind, Option.bind_some,
          Option.pure_def, ne_eq, e1, e2, e3, not_false_eq_true, decide_true, decide_false,
          if_true, if_false, Bool.false_eq_true]

theorem fpRelax_fold {W : Int → Int → Option Int} {w : Nat → Nat → Int} {n : Nat}
    (hW : WAgree n W w) (p : Nat) (hp : p < n) (k : Nat) (hk : k ≤ n)
    {sg : SG} {g : HeapImp.Obj} {s : PrimSt}
    (hF : RelF sg s.f) (hR : HeapRefine.Rel g s.h) (hI : LInv n s) :
    ∃ sg' g', (List.range k).foldlM (fun st (q : Nat) => fpRelax W (p : Int) (q : Int) st) (sg, g)
        = some (sg', g') ∧
      RelF sg' ((List.range k).foldl (primRelax w p) s).f ∧
      HeapRefine.Rel g' ((List.range k).foldl (primRelax w p) s).h ∧
      LInv n ((List.range k).foldl (primRelax w p) s) ∧
      (∀ y, s.h.colorOf y = BLACK →
        ((List.range k).foldl (primRelax w p) s).h.colorOf y = BLACK) := by
  induction k with
  | zero => exact ⟨sg, g, rfl, hF, hR, hI, fun _ h => h⟩
  | succ k ih =>
    obtain ⟨sg1, g1, e1, hF1, hR1, hI1, hb1⟩ := ih (by omega)
    obtain ⟨sg2, g2, e2, hF2, hR2, hI2, hb2⟩ :=
      fpRelax_refines (w := w) hW hF1 hR1 hI1 p k hp (by omega)
    refine ⟨sg2, g2, ?_, ?_, ?_, ?_, ?_⟩
    · rw [List.range_succ, List.foldlM_append, e1]
      simp only [Option.bind_eq_bind, Option.bind_some, List.foldlM_cons, List.foldlM_nil, e2]
      rfl
    all_goals rw [List.range_succ, List.foldl_append, List.foldl_cons, List.foldl_nil]
    · exact hF2
    · exact hR2
    · exact hI2
    · exact fun y hy => hb2 y (hb1 y hy)

/-- number of identifiers not yet removed (termination measure of the loop). -/
def nb (n : Nat) (h : Heap) : Nat := ((Finset.range n).filter (fun y => h.colorOf y ≠ BLACK)).card

theorem nb_le (n : Nat) (h : Heap) : nb n h ≤ n := by
  unfold nb
  have := Finset.card_filter_le (Finset.range n) (fun y => h.colorOf y ≠ BLACK)
  rw [Finset.card_range] at this
  exact this

theorem nb_lt {n : Nat} {h h' : Heap} (x : Nat) (hx : x < n) (hb : h.colorOf x ≠ BLACK)
    (hb' : h'.colorOf x = BLACK) (hmono : ∀ y, h.colorOf y = BLACK → h'.colorOf y = BLACK) :
    nb n h' < nb n h := by
  unfold nb
  apply Finset.card_lt_card
  rw [Finset.ssubset_iff_of_subset]
  · refine ⟨x, ?_, ?_⟩
    · rw [Finset.mem_filter, Finset.mem_range]; exact ⟨hx, hb⟩
    · rw [Finset.mem_filter]; exact fun h => h.2 hb'
  · intro y hy
    rw [Finset.mem_filter] at hy ⊢
    exact ⟨hy.1, fun h => hy.2 (hmono y h)⟩

theorem forRange_nat {σ : Type} (n : Nat) (body : Int → σ → Option σ) (s : σ) :
    Py.forRange (n : Int) body s = (List.range n).foldlM (fun s (q : Nat) => body (q : Int) s) s := by
  unfold Py.forRange
  rw [Int.toNat_natCast]

theorem fpBody_refines {W : Int → Int → Option Int} {w : Nat → Nat → Int} {n : Nat}
    (hW : WAgree n W w) {sg : SG} {g : HeapImp.Obj} {s : PrimSt} (pr : Array Int)
    (hF : RelF sg s.f) (hR : HeapRefine.Rel g s.h) (hI : LInv n s) (hne : 0 < s.h.cnt) :
    ∃ g' sg' pr' s', fpBody W (g, sg, pr) = some (g', sg', pr') ∧ primStep w n s = some s' ∧
      HeapRefine.Rel g' s'.h ∧ RelF sg' s'.f ∧ LInv n s' ∧ nb n s'.h < nb n s.h := by
  obtain ⟨x, hx2, hqd, _, hinv1, hblack, hcol1, _, _⟩ := Heap.remove_spec s.h hI.inv hne
  have hrem : s.h.remove = (s.h.remove.1, some x) := Prod.ext rfl hx2
  obtain ⟨g1, hg1, hR1⟩ := HeapRefine.remove_refines g s.h hR hI.inv
  rw [hx2] at hg1
  have hxn : x < n := by rw [← hI.hsize]; exact hqd.1
  have hsz1 : (s.h.remove).1.size = n := by rw [Heap.remove_size]; exact hI.hsize
  have hcost : g1.cost[x]? = some ((s.h.remove).1.costOf x) := by
    rw [hR1.cost]; exact getD_of_getElem? _ _ _ (by rw [hinv1.size_cost, hsz1]; exact hxn)
  have hxf : x < s.f.n := by rw [hI.fn]; exact hxn
  have hxc : x < sg.cost.size := by rw [hF.sz_cost]; exact hxf
  have hF1 := relF_setCost hF hI.sized.size_ncost x ((s.h.remove).1.costOf x)
  have hS1 := (PrimExec.same_setNcost s.f x ((s.h.remove).1.costOf x))
  obtain ⟨sg2, pr2, hfl, hF2⟩ := fpFlag_refines hF1 (hS1.sized hI.sized) pr x hxf
    (fun r hr => by
      show r < s.f.n
      rw [hI.fn]; exact hI.gpred x hxn hqd.2 r hr)
  have hS2 := hS1.trans (PrimExec.primFlag_same _ x)
  have hI1 : LInv n (PrimSt.mk (s.h.remove).1
      (primFlag { s.f with ncost := s.f.ncost.setIfInBounds x ((s.h.remove).1.costOf x) } x)) := by
    refine ⟨hinv1, hsz1, by rw [PrimExec.remove_isMax]; exact hI.hmin, by rw [hS2.n]; exact hI.fn,
      hS2.sized hI.sized, ?_⟩
    intro y hy hg r hr
    rw [PrimExec.primFlag_predOf] at hr
    have hyx : y ≠ x := by
      intro e; rw [e, hblack] at hg; exact absurd hg (by decide)
    rw [hcol1 y hyx] at hg
    exact hI.gpred y hy hg r hr
  obtain ⟨sg3, g3, hfold, hF3, hR3, hI3, hb3⟩ :=
    fpRelax_fold (w := w) hW x hxn n (Nat.le_refl n) hF2 hR1 hI1
  have hn2 : sg2.n_nodes = (n : Int) := by rw [hF2.n, hS2.n, hI.fn]
  refine ⟨g3, sg3, pr2, _, ?_, PrimExec.primStep_some hrem, hR3, hF3, hI3, ?_⟩
  · unfold fpBody
    simp only [hg1, HeapRefine.retOf, Py.asInt, idx_nat, hcost, setIdx_nat _ _ _ hxc,
      Option.bind_eq_bind, Option.bind_some, Option.pure_def, hF.pred x hxf]
    have hfl' : fpFlag { sg with cost := sg.cost.setIfInBounds x ((s.h.remove).1.costOf x) } pr
        (x : Int) (predInt (s.f.predOf x)) = some (sg2, pr2) := hfl
    simp only [hfl', Option.bind_some, hn2, forRange_nat, hfold]
  · refine nb_lt x hxn (by rw [hqd.2]; decide) (hb3 x hblack) (fun y hy => hb3 y ?_)
    by_cases hyx : y = x
    · rw [hyx]; exact hblack
    · show (s.h.remove).1.colorOf y = BLACK
      rw [hcol1 y hyx]; exact hy

theorem fpCond_eq {g : HeapImp.Obj} {h : Heap} (hR : HeapRefine.Rel g h) (sg : SG)
    (pr : Array Int) : fpCond (g, sg, pr) = some (decide (h.cnt ≠ 0)) := by
  unfold fpCond HeapImp.Obj.is_empty
  have := hR.last
  by_cases hc : h.cnt = 0
  · have e : g.last = -1 := by omega
    simp [e, hc]
  · have e : ¬ g.last = -1 := by omega
    simp [e, hc]

theorem fpLoop_refines {W : Int → Int → Option Int} {w : Nat → Nat → Int} {n : Nat}
    (hW : WAgree n W w) (fuel : Nat) :
    ∀ (sg : SG) (g : HeapImp.Obj) (s : PrimSt) (pr : Array Int),
      RelF sg s.f → HeapRefine.Rel g s.h → LInv n s → nb n s.h < fuel →
      ∃ g' sg' pr', Py.whileM fpCond (fpBody W) (g, sg, pr) = some (g', sg', pr') ∧
        RelF sg' (primLoop w n fuel s).f := by
  induction fuel with
  | zero => intro _ _ _ _ _ _ _ h; exact absurd h (Nat.not_lt_zero _)
  | succ fuel ih =>
    intro sg g s pr hF hR hI hlt
    by_cases hc : s.h.cnt = 0
    · refine ⟨g, sg, pr, ?_, ?_⟩
      · rw [Py.whileM.eq_1, fpCond_eq hR]
        simp [hc]
      · rw [PrimExec.primLoop_none fuel (PrimExec.primStep_none hc)]; exact hF
    · obtain ⟨g1, sg1, pr1, s1, hb, hstep, hR1, hF1, hI1, hnb⟩ :=
        fpBody_refines (w := w) hW pr hF hR hI (Nat.pos_of_ne_zero hc)
      obtain ⟨g2, sg2, pr2, hw, hF2⟩ := ih sg1 g1 s1 pr1 hF1 hR1 hI1 (by omega)
      refine ⟨g2, sg2, pr2, ?_, ?_⟩
      · rw [Py.whileM.eq_1, fpCond_eq hR, hb]
        simp [hc, hw]
      · rw [PrimExec.primLoop_some fuel hstep]; exact hF2

end Prim
open Prim

/-- `Subgraph.mark_nodes(i)`: the `while` loop terminates on any chain that reaches a root, and
flags exactly what the model flags. -/
theorem mark_nodes_refines (sg : SG) (f : Forest) (hr : RelF sg f) (hs : f.Sized)
    (k i : Nat) (hi : i < f.n) (hc : ChainOk f k i) :
    ∃ sg', mark_nodes sg (i : Int) = some (sg', ()) ∧ RelF sg' (markNodes f (k + 1) i) := by
  have _hs := hs -- (`Sized` is not needed for marking)
  clear _hs hs
  induction k generalizing sg f i with
  | zero =>
    have hp : f.predOf i = none := hc
    refine ⟨_, mark_nodes_root sg i ?_ (by rw [hr.sz_relevant]; exact hi), ?_⟩
    · rw [hr.pred i hi, hp]; rfl
    · simp only [markNodes, hp]
      exact relF_mark hr i
  | succ k ih =>
    cases hp : f.predOf i with
    | none =>
      refine ⟨_, mark_nodes_root sg i ?_ (by rw [hr.sz_relevant]; exact hi), ?_⟩
      · rw [hr.pred i hi, hp]; rfl
      · simp only [markNodes, hp]
        exact relF_mark hr i
    | some p =>
      unfold ChainOk at hc
      rw [hp] at hc
      rw [mark_nodes_step sg i (p : Int) (by rw [hr.pred i hi, hp]; rfl) (by omega)
        (by rw [hr.sz_relevant]; exact hi)]
      have := ih _ _ (relF_mark hr i) p hc.1 (chainOk_congr (f := f) (g := { f with relevant := f.relevant.setIfInBounds i true }) rfl rfl k p hc.2)
      obtain ⟨sg', h1, h2⟩ := this
      refine ⟨sg', h1, ?_⟩
      rw [markNodes, hp]
      exact h2

/-- `_find_prototypes()` on a non-empty subgraph. -/
theorem find_prototypes_refines (W : Int → Int → Option Int) (w : Nat → Nat → Int) (top : Int)
    (sg : SG) (f : Forest) (hr : RelF sg f) (hs : f.Sized) (hn : 0 < f.n) (hW : WAgree f.n W w) :
    ∃ sg', find_prototypes W top sg = some (sg', ()) ∧ RelF sg' (primRun w top f.n f).f := by
  obtain ⟨g0, hg0, hR0⟩ := HeapRefine.init_refines f.n hn false top
  have hg0' : HeapImp.Obj.init sg.n_nodes "min" top = some g0 := by rw [hr.n]; exact hg0
  have hi0 := Heap.inv_init f.n false top
  obtain ⟨g1, hg1, hR1⟩ := HeapRefine.insert_refines g0 _ hR0 hi0 0 hn
    (Or.inl (Heap.init_colorOf _ _ _ 0))
  obtain ⟨_, i1, c0, c1, _, _⟩ := Heap.insert_spec (Heap.init f.n false top) 0 hi0 hn
    (Heap.init_colorOf _ _ _ 0)
  have hset : Py.setIdx sg.pred (0 : Int) (-1 : Int) = some (sg.pred.setIfInBounds 0 (-1)) :=
    setIdx_nat sg.pred 0 (-1) (by rw [hr.sz_pred]; exact hn)
  have hF0 : RelF { sg with pred := sg.pred.setIfInBounds 0 (-1) }
      { f with pred := f.pred.setIfInBounds 0 none } := relF_setPred hr hs.size_pred 0 none
  have hI0 : LInv f.n (PrimSt.mk ((Heap.init f.n false top).insert 0).1
      { f with pred := f.pred.setIfInBounds 0 none }) := by
    refine ⟨i1, Heap.insert_size _ _, PrimExec.insert_isMax _ _, rfl,
      (PrimExec.same_setPred f 0 none).sized hs, ?_⟩
    intro x hx hg r hr'
    rw [PrimExec.predOf_setPred] at hr'
    by_cases hx0 : x = 0
    · rw [if_pos ⟨hx0, by rw [hs.size_pred]; exact hn⟩] at hr'
      exact absurd hr' (by simp)
    · exfalso
      have : ((Heap.init f.n false top).insert 0).1.colorOf x = WHITE := by
        rw [c1 x hx0]; exact Heap.init_colorOf _ _ _ x
      rw [this] at hg
      exact absurd hg (by decide)
  obtain ⟨g2, sg2, pr2, hw, hF2⟩ := fpLoop_refines (w := w) hW (f.n + 1) _ g1 _ #[] hF0 hR1 hI0
    (Nat.lt_succ_of_le (nb_le _ _))
  refine ⟨sg2, ?_, hF2⟩
  rw [find_prototypes_eq, hg0', hset]
  have hg1' : HeapImp.Obj.insert g0 (0 : Int) =
      some (g1, ((Heap.init f.n false top).insert 0).2) := hg1
  simp only [Option.bind_eq_bind, Option.bind_some, hg1', hw, Option.pure_def]

end Opf.SupRefine
