/-
Lemmas for C01: invariants of every lawful run of the competition semantics
(`Model/CompeteSpec.lean`) and the consequences used by `Props/C01.lean`.

Structure:
* `relaxed_iff`, `fire_*`            – unfolding of the step function;
* `exists_min_on`                    – a non-empty subset of `{0..n-1}` has a minimiser;
* `CInv`                             – the invariant bundle (colours, order, I1–I3, realisability);
* `cinv_init`, `cinv_step`, `cinv_of_reach`;
* the nine `compete_*` lemmas;
* a non-vacuity example (n = 4, tied weights, two seeds with different labels).
-/
import OpfVerif.Model.CompeteSpec
import Mathlib.Data.List.Nodup
import Mathlib.Data.List.Range
import Mathlib.Data.List.Perm.Basic

namespace Opf.CompInst

/-- `omega` after exposing the numeric values of the colour constants. -/
local macro "col_omega" : tactic =>
  `(tactic| (simp only [WHITE, GRAY, BLACK] at * <;> omega))

/-! ### unfolding the step function -/

theorem relaxed_iff (I : CompInst) (s : AState) (p q : Nat) :
    I.relaxed s p q = true ↔ (q < I.n ∧ q ≠ p ∧ max (s.cost p) (I.w p q) < s.cost q) := by
  unfold relaxed
  exact decide_eq_true_iff

theorem relaxed_false_iff (I : CompInst) (s : AState) (p q : Nat) :
    I.relaxed s p q = false ↔ ¬ (q < I.n ∧ q ≠ p ∧ max (s.cost p) (I.w p q) < s.cost q) := by
  rw [← relaxed_iff]; cases I.relaxed s p q <;> simp

theorem fire_color (I : CompInst) (s : AState) (p q : Nat) :
    (I.fire s p).color q =
      if q = p then BLACK
      else if I.relaxed s p q = true ∧ s.color q = WHITE then GRAY else s.color q := rfl

theorem fire_cost (I : CompInst) (s : AState) (p q : Nat) :
    (I.fire s p).cost q =
      if I.relaxed s p q = true then max (s.cost p) (I.w p q) else s.cost q := rfl

theorem fire_pred (I : CompInst) (s : AState) (p q : Nat) :
    (I.fire s p).pred q = if I.relaxed s p q = true then some p else s.pred q := rfl

theorem fire_lab (I : CompInst) (s : AState) (p q : Nat) :
    (I.fire s p).lab q = if I.relaxed s p q = true then s.lab p else s.lab q := rfl

theorem fire_order (I : CompInst) (s : AState) (p : Nat) :
    (I.fire s p).order = s.order ++ [p] := rfl

theorem fire_cost_rel {I : CompInst} {s : AState} {p q : Nat} (h : I.relaxed s p q = true) :
    (I.fire s p).cost q = max (s.cost p) (I.w p q) := by
  rw [fire_cost, if_pos h]

theorem fire_pred_rel {I : CompInst} {s : AState} {p q : Nat} (h : I.relaxed s p q = true) :
    (I.fire s p).pred q = some p := by
  rw [fire_pred, if_pos h]

theorem fire_lab_rel {I : CompInst} {s : AState} {p q : Nat} (h : I.relaxed s p q = true) :
    (I.fire s p).lab q = s.lab p := by
  rw [fire_lab, if_pos h]

theorem fire_cost_keep {I : CompInst} {s : AState} {p q : Nat} (h : I.relaxed s p q = false) :
    (I.fire s p).cost q = s.cost q := by
  rw [fire_cost, h]; simp

theorem fire_pred_keep {I : CompInst} {s : AState} {p q : Nat} (h : I.relaxed s p q = false) :
    (I.fire s p).pred q = s.pred q := by
  rw [fire_pred, h]; simp

theorem fire_lab_keep {I : CompInst} {s : AState} {p q : Nat} (h : I.relaxed s p q = false) :
    (I.fire s p).lab q = s.lab q := by
  rw [fire_lab, h]; simp

theorem not_rel_self (I : CompInst) (s : AState) (p : Nat) : I.relaxed s p p = false := by
  rw [relaxed_false_iff]; intro h; exact h.2.1 rfl

/-- costs never increase. -/
theorem fire_cost_le (I : CompInst) (s : AState) (p q : Nat) :
    (I.fire s p).cost q ≤ s.cost q := by
  cases hr : I.relaxed s p q
  · rw [fire_cost_keep hr]; exact Int.le_refl _
  · rw [fire_cost_rel hr]; have := ((relaxed_iff I s p q).1 hr).2.2; omega

/-! ### minimiser on an initial segment -/

theorem exists_min_on (P : Nat → Prop) (f : Nat → Int) :
    ∀ n, (∃ q, q < n ∧ P q) → ∃ p, p < n ∧ P p ∧ ∀ q, q < n → P q → f p ≤ f q := by
  intro n
  induction n with
  | zero => rintro ⟨q, hq, _⟩; omega
  | succ n ih =>
    rintro ⟨q, hq, hPq⟩
    by_cases hex : ∃ q, q < n ∧ P q
    · obtain ⟨p0, hp0, hP0, hmin0⟩ := ih hex
      by_cases hPn : P n
      · by_cases hle : f p0 ≤ f n
        · refine ⟨p0, by omega, hP0, ?_⟩
          intro r hr hPr
          by_cases hrn : r = n
          · subst hrn; exact hle
          · exact hmin0 r (by omega) hPr
        · refine ⟨n, by omega, hPn, ?_⟩
          intro r hr hPr
          by_cases hrn : r = n
          · subst hrn; exact Int.le_refl _
          · have := hmin0 r (by omega) hPr; omega
      · refine ⟨p0, by omega, hP0, ?_⟩
        intro r hr hPr
        by_cases hrn : r = n
        · subst hrn; exact absurd hPr hPn
        · exact hmin0 r (by omega) hPr
    · have hqn : q = n := by
        by_cases hqn : q = n
        · exact hqn
        · exact absurd ⟨q, by omega, hPq⟩ hex
      subst hqn
      refine ⟨q, by omega, hPq, ?_⟩
      intro r hr hPr
      by_cases hrn : r = q
      · subst hrn; exact Int.le_refl _
      · exact absurd ⟨r, by omega, hPr⟩ hex

/-! ### the invariant -/

/-- invariant of the competition loop. -/
structure CInv (I : CompInst) (s : AState) : Prop where
  col : ∀ q, s.color q = WHITE ∨ s.color q = GRAY ∨ s.color q = BLACK
  out : ∀ q, I.n ≤ q → s.color q = WHITE
  nodup : s.order.Nodup
  mem : ∀ q, q ∈ s.order ↔ s.color q = BLACK
  nonneg : ∀ q, 0 ≤ s.cost q
  white : ∀ q, q < I.n → s.color q = WHITE → s.cost q = I.top ∧ I.seed q = false
  lt_top : ∀ q, q < I.n → s.color q ≠ WHITE → s.cost q < I.top
  nowhite : s.order ≠ [] → ∀ q, q < I.n → s.color q ≠ WHITE
  /-- I3: removed nodes are no more expensive than the others. -/
  i3 : ∀ b q, s.color b = BLACK → q < I.n → s.color q ≠ BLACK → s.cost b ≤ s.cost q
  sorted : s.order.Pairwise (fun a b => s.cost a ≤ s.cost b)
  /-- I2: every arc out of a removed node has been offered. -/
  i2 : ∀ b q, s.color b = BLACK → q < I.n → q ≠ b → s.cost q ≤ max (s.cost b) (I.w b q)
  /-- I1 for seeds. -/
  seedinv : ∀ q, q < I.n → I.seed q = true →
    s.cost q = 0 ∧ s.pred q = none ∧ s.lab q = I.lam q
  /-- I1 for the other nodes. -/
  link : ∀ q, q < I.n → I.seed q = false → s.color q ≠ WHITE →
    ∃ p, s.pred q = some p ∧ s.color p = BLACK ∧ p < I.n ∧ p ≠ q ∧
      s.cost q = max (s.cost p) (I.w p q) ∧ s.lab q = s.lab p ∧
      (q ∈ s.order → s.order.idxOf p < s.order.idxOf q)
  /-- the recorded cost is the cost of some path. -/
  real : ∀ q, q < I.n → s.color q ≠ WHITE → PathCost I q (s.cost q)

theorem cinv_init (I : CompInst) (pred0 : Nat → Option Nat) (lab0 : Nat → Nat) (hg : I.Good) :
    CInv I (I.init pred0 lab0) where
  col := by
    intro q; simp only [init]; split
    · exact Or.inr (Or.inl rfl)
    · exact Or.inl rfl
  out := by
    intro q hq; simp only [init]; rw [if_neg]; intro h; omega
  nodup := by simp [init]
  mem := by
    intro q; simp only [init]; split <;> simp [WHITE, GRAY, BLACK]
  nonneg := by
    intro q; simp only [init]; split
    · exact Int.le_refl _
    · exact Int.le_of_lt hg.top_pos
  white := by
    intro q hq; simp only [init]; intro hc
    by_cases hs : I.seed q = true
    · rw [if_pos ⟨hq, hs⟩] at hc; exact absurd hc (by decide)
    · rw [if_neg hs]; exact ⟨rfl, by simpa using hs⟩
  lt_top := by
    intro q hq; simp only [init]; intro hc
    by_cases hs : I.seed q = true
    · rw [if_pos hs]; exact hg.top_pos
    · rw [if_neg (fun h => hs h.2)] at hc; exact absurd rfl hc
  nowhite := by intro h; exact absurd rfl h
  i3 := by
    intro b q hb; simp only [init] at hb; split at hb <;> exact absurd hb (by decide)
  sorted := by simp [init]
  i2 := by
    intro b q hb; simp only [init] at hb; split at hb <;> exact absurd hb (by decide)
  seedinv := by
    intro q hq hs; simp only [init]; rw [if_pos hs, if_pos hs, if_pos hs]
    exact ⟨rfl, rfl, rfl⟩
  link := by
    intro q hq hs hc; simp only [init] at hc
    rw [if_neg (fun h => by rw [hs] at h; exact absurd h.2 (by decide))] at hc
    exact absurd rfl hc
  real := by
    intro q hq hc; simp only [init] at hc ⊢
    by_cases hs : I.seed q = true
    · rw [if_pos hs]; exact PathCost.seed hq hs
    · rw [if_neg (fun h => hs h.2)] at hc; exact absurd rfl hc

/-! ### one lawful step preserves the invariant -/

section step
variable {I : CompInst} {s : AState} {p : Nat}

theorem not_rel_black (h : CInv I s) (hp : p < I.n) (hgray : s.color p = GRAY) {q : Nat}
    (hb : s.color q = BLACK) : I.relaxed s p q = false := by
  rw [relaxed_false_iff]; intro hr
  have := h.i3 q p hb hp (by rw [hgray]; decide)
  omega

theorem not_rel_seed (h : CInv I s) {q : Nat} (hq : q < I.n) (hs : I.seed q = true) :
    I.relaxed s p q = false := by
  rw [relaxed_false_iff]; intro hr
  have h0 := (h.seedinv q hq hs).1
  have := h.nonneg p
  omega

theorem not_rel_out {q : Nat} (hq : I.n ≤ q) : I.relaxed s p q = false := by
  rw [relaxed_false_iff]; intro hr; omega

theorem rel_white (G : I.Good) (h : CInv I s) (hp : p < I.n) (hgray : s.color p = GRAY) {q : Nat}
    (hq : q < I.n) (hw : s.color q = WHITE) : I.relaxed s p q = true := by
  rw [relaxed_iff]
  have hqp : q ≠ p := by intro e; subst e; rw [hgray] at hw; exact absurd hw (by decide)
  have h1 := (h.white q hq hw).1
  have h2 := h.lt_top p hp (by rw [hgray]; decide)
  have h3 := G.w_lt_top p q hp hq
  refine ⟨hq, hqp, ?_⟩
  omega

theorem fire_color_black_iff (q : Nat) :
    (I.fire s p).color q = BLACK ↔ q = p ∨ s.color q = BLACK := by
  rw [fire_color]
  by_cases hqp : q = p
  · simp [hqp]
  · rw [if_neg hqp]
    by_cases hc : I.relaxed s p q = true ∧ s.color q = WHITE
    · rw [if_pos hc, hc.2]; simp [hqp, WHITE, GRAY, BLACK]
    · rw [if_neg hc]; simp [hqp]

theorem fire_color_nonwhite (G : I.Good) (h : CInv I s) (hp : p < I.n)
    (hgray : s.color p = GRAY) {q : Nat} (hq : q < I.n) : (I.fire s p).color q ≠ WHITE := by
  rw [fire_color]
  by_cases hqp : q = p
  · rw [if_pos hqp]; decide
  · rw [if_neg hqp]
    by_cases hw : s.color q = WHITE
    · rw [if_pos ⟨rel_white G h hp hgray hq hw, hw⟩]; decide
    · rw [if_neg (fun hc => hw hc.2)]; exact hw

/-- the removed node is cheapest among the non-removed ones. -/
theorem cost_p_le (h : CInv I s) (hp : p < I.n) (hgray : s.color p = GRAY)
    (hmin : ∀ q, q < I.n → s.color q = GRAY → s.cost p ≤ s.cost q) {q : Nat} (hq : q < I.n)
    (hnb : s.color q ≠ BLACK) : s.cost p ≤ s.cost q := by
  rcases h.col q with hc | hc | hc
  · have h1 := (h.white q hq hc).1
    have h2 := h.lt_top p hp (by rw [hgray]; decide)
    omega
  · exact hmin q hq hc
  · exact absurd hc hnb

theorem cost_p_le_fire (I : CompInst) (s : AState) (p q : Nat) (hle : s.cost p ≤ s.cost q) :
    s.cost p ≤ (I.fire s p).cost q := by
  cases hr : I.relaxed s p q
  · rw [fire_cost_keep hr]; exact hle
  · rw [fire_cost_rel hr]; omega

/-- a node that is BLACK after the step (old BLACK or `p`) was not touched. -/
theorem not_rel_of_black' (h : CInv I s) (hp : p < I.n) (hgray : s.color p = GRAY) {b : Nat}
    (hb : b = p ∨ s.color b = BLACK) : I.relaxed s p b = false := by
  rcases hb with hb | hb
  · subst hb; exact not_rel_self I s b
  · exact not_rel_black h hp hgray hb

theorem cinv_step (G : I.Good) (h : CInv I s) (hp : p < I.n) (hgray : s.color p = GRAY)
    (hmin : ∀ q, q < I.n → s.color q = GRAY → s.cost p ≤ s.cost q) : CInv I (I.fire s p) := by
  have hpnb : s.color p ≠ BLACK := by rw [hgray]; decide
  have hpnw : s.color p ≠ WHITE := by rw [hgray]; decide
  have hpmem : p ∉ s.order := by rw [h.mem]; exact hpnb
  have hptop := h.lt_top p hp hpnw
  have hp0 := h.nonneg p
  -- cost of (new) BLACK nodes is unchanged and at most `cost p`
  have hblk : ∀ b, (b = p ∨ s.color b = BLACK) →
      (I.fire s p).cost b = s.cost b ∧ s.cost b ≤ s.cost p := by
    intro b hb
    refine ⟨fire_cost_keep (not_rel_of_black' h hp hgray hb), ?_⟩
    rcases hb with hb | hb
    · subst hb; exact Int.le_refl _
    · exact h.i3 b p hb hp hpnb
  refine
    { col := ?col, out := ?out, nodup := ?nodup, mem := ?mem, nonneg := ?nonneg, white := ?white,
      lt_top := ?lt_top, nowhite := ?nowhite, i3 := ?i3, sorted := ?sorted, i2 := ?i2,
      seedinv := ?seedinv, link := ?link, real := ?real }
  case col =>
    intro q; rw [fire_color]
    by_cases hqp : q = p
    · rw [if_pos hqp]; exact Or.inr (Or.inr rfl)
    · rw [if_neg hqp]; split
      · exact Or.inr (Or.inl rfl)
      · exact h.col q
  case out =>
    intro q hq
    rw [fire_color, if_neg (by omega), not_rel_out hq, if_neg (by simp)]
    exact h.out q hq
  case nodup =>
    rw [fire_order, List.nodup_append]
    refine ⟨h.nodup, List.nodup_singleton p, ?_⟩
    intro a ha b hb e
    rw [List.mem_singleton] at hb
    subst hb; subst e; exact hpmem ha
  case mem =>
    intro q
    rw [fire_order, fire_color_black_iff, List.mem_append, List.mem_singleton, h.mem]
    exact Or.comm
  case nonneg =>
    intro q
    cases hr : I.relaxed s p q
    · rw [fire_cost_keep hr]; exact h.nonneg q
    · rw [fire_cost_rel hr]; omega
  case white =>
    intro q hq hw; exact absurd hw (fire_color_nonwhite G h hp hgray hq)
  case lt_top =>
    intro q hq _
    cases hr : I.relaxed s p q
    · rw [fire_cost_keep hr]
      apply h.lt_top q hq
      intro hw; rw [rel_white G h hp hgray hq hw] at hr; exact absurd hr (by decide)
    · rw [fire_cost_rel hr]
      have := G.w_lt_top p q hp hq
      omega
  case nowhite =>
    intro _ q hq; exact fire_color_nonwhite G h hp hgray hq
  case i3 =>
    intro b q hb hq hnb
    rw [fire_color_black_iff] at hb
    have hnb' : s.color q ≠ BLACK := fun hc => hnb ((fire_color_black_iff q).2 (Or.inr hc))
    obtain ⟨e1, e2⟩ := hblk b hb
    rw [e1]
    have hle : s.cost p ≤ s.cost q := cost_p_le h hp hgray hmin hq hnb'
    have := cost_p_le_fire I s p q hle
    omega
  case sorted =>
    rw [fire_order, List.pairwise_append]
    refine ⟨?_, List.pairwise_singleton _ _, ?_⟩
    · refine List.Pairwise.imp_of_mem ?_ h.sorted
      intro a b ha hb hab
      rw [(hblk a (Or.inr ((h.mem a).1 ha))).1, (hblk b (Or.inr ((h.mem b).1 hb))).1]
      exact hab
    · intro a ha b hb
      rw [List.mem_singleton] at hb
      subst hb
      rw [(hblk a (Or.inr ((h.mem a).1 ha))).1, (hblk b (Or.inl rfl)).1]
      exact (hblk a (Or.inr ((h.mem a).1 ha))).2
  case i2 =>
    intro b q hb hq hqb
    rw [fire_color_black_iff] at hb
    rw [(hblk b hb).1]
    rcases hb with hb | hb
    · subst hb
      cases hr : I.relaxed s b q
      · rw [fire_cost_keep hr]
        rw [relaxed_false_iff] at hr
        by_cases hlt : max (s.cost b) (I.w b q) < s.cost q
        · exact absurd ⟨hq, hqb, hlt⟩ hr
        · omega
      · rw [fire_cost_rel hr]; exact Int.le_refl _
    · have h1 := fire_cost_le I s p q
      have h2 := h.i2 b q hb hq hqb
      omega
  case seedinv =>
    intro q hq hs
    have hr : I.relaxed s p q = false := not_rel_seed h hq hs
    rw [fire_cost_keep hr, fire_pred_keep hr, fire_lab_keep hr]
    exact h.seedinv q hq hs
  case link =>
    intro q hq hs _
    have hrp : I.relaxed s p p = false := not_rel_self I s p
    cases hr : I.relaxed s p q
    · -- untouched: the old link survives
      have hnw : s.color q ≠ WHITE := by
        intro hw; rw [rel_white G h hp hgray hq hw] at hr; exact absurd hr (by decide)
      obtain ⟨p0, h1, h2, h3, h4, h5, h6, h7⟩ := h.link q hq hs hnw
      have hr0 : I.relaxed s p p0 = false := not_rel_black h hp hgray h2
      have hp0mem : p0 ∈ s.order := (h.mem p0).2 h2
      refine ⟨p0, ?_, ?_, h3, h4, ?_, ?_, ?_⟩
      · rw [fire_pred_keep hr]; exact h1
      · rw [fire_color_black_iff]; exact Or.inr h2
      · rw [fire_cost_keep hr, fire_cost_keep hr0]; exact h5
      · rw [fire_lab_keep hr, fire_lab_keep hr0]; exact h6
      · intro hmem
        rw [fire_order, List.idxOf_append, List.idxOf_append, if_pos hp0mem]
        by_cases hqo : q ∈ s.order
        · rw [if_pos hqo]; exact h7 hqo
        · rw [if_neg hqo]
          have := List.idxOf_lt_length_of_mem hp0mem
          omega
    · -- relaxed: the new predecessor is `p`
      have hqp : q ≠ p := ((relaxed_iff I s p q).1 hr).2.1
      refine ⟨p, fire_pred_rel hr, ?_, hp, fun e => hqp e.symm, ?_, ?_, ?_⟩
      · rw [fire_color_black_iff]; exact Or.inl rfl
      · rw [fire_cost_rel hr, fire_cost_keep hrp]
      · rw [fire_lab_rel hr, fire_lab_keep hrp]
      · intro hmem
        rw [fire_order, List.mem_append, List.mem_singleton] at hmem
        rcases hmem with hmem | hmem
        · rw [not_rel_black h hp hgray ((h.mem q).1 hmem)] at hr
          exact absurd hr (by decide)
        · exact absurd hmem hqp
  case real =>
    intro q hq _
    cases hr : I.relaxed s p q
    · have hnw : s.color q ≠ WHITE := by
        intro hw; rw [rel_white G h hp hgray hq hw] at hr; exact absurd hr (by decide)
      rw [fire_cost_keep hr]; exact h.real q hq hnw
    · rw [fire_cost_rel hr]
      exact PathCost.arc (h.real p hp hpnw) hq ((relaxed_iff I s p q).1 hr).2.1

end step

theorem cinv_of_reach (I : CompInst) (pred0 : Nat → Option Nat) (lab0 : Nat → Nat) (hg : I.Good)
    {s : AState} (hr : Reach I pred0 lab0 s) : CInv I s := by
  induction hr with
  | init => exact cinv_init I pred0 lab0 hg
  | step _ hstep ih =>
    obtain ⟨p, hp, hgray, hmin, rfl⟩ := hstep
    exact cinv_step hg ih hp hgray hmin

/-! ### consequences -/

theorem pathCost_lt (I : CompInst) {t : Nat} {c : Int} (h : PathCost I t c) : t < I.n := by
  cases h with
  | seed h _ => exact h
  | arc _ h _ => exact h

/-- a reachable state is the initial one or has a non-empty order. -/
theorem reach_init_or_order (I : CompInst) (pred0 : Nat → Option Nat) (lab0 : Nat → Nat)
    {s : AState} (hr : Reach I pred0 lab0 s) : s = I.init pred0 lab0 ∨ s.order ≠ [] := by
  cases hr with
  | init => exact Or.inl rfl
  | step _ hstep =>
    obtain ⟨p, _, _, _, rfl⟩ := hstep
    right; rw [fire_order]; simp

theorem init_not_final (I : CompInst) (pred0 : Nat → Option Nat) (lab0 : Nat → Nat)
    (hg : I.Good) : ¬ I.Final (I.init pred0 lab0) := by
  intro hf
  obtain ⟨r, hr, hs⟩ := hg.has_seed
  apply hf r hr
  simp only [init]; rw [if_pos ⟨hr, hs⟩]

variable (I : CompInst) (pred0 : Nat → Option Nat) (lab0 : Nat → Nat)

theorem compete_progress (_hg : I.Good) (s : AState) (_hr : Reach I pred0 lab0 s)
    (hnf : ¬ I.Final s) : ∃ s', I.Step s s' := by
  have hex : ∃ q, q < I.n ∧ s.color q = GRAY := by
    by_contra hcon
    apply hnf
    intro q hq hc
    exact hcon ⟨q, hq, hc⟩
  obtain ⟨p, hp, hgray, hmin⟩ := exists_min_on (fun q => s.color q = GRAY) s.cost I.n hex
  exact ⟨I.fire s p, p, hp, hgray, hmin, rfl⟩

theorem order_lt (hg : I.Good) (s : AState) (hr : Reach I pred0 lab0 s) :
    ∀ t, t ∈ s.order → t < I.n := by
  have h := cinv_of_reach I pred0 lab0 hg hr
  intro t ht
  by_contra hge
  have h1 := h.out t (by omega)
  have h2 := (h.mem t).1 ht
  rw [h1] at h2; exact absurd h2 (by decide)

theorem compete_bounded (hg : I.Good) (s : AState) (hr : Reach I pred0 lab0 s) :
    s.order.Nodup ∧ (∀ t, t ∈ s.order → t < I.n) ∧ s.order.length ≤ I.n := by
  have h := cinv_of_reach I pred0 lab0 hg hr
  have hlt := order_lt I pred0 lab0 hg s hr
  refine ⟨h.nodup, hlt, ?_⟩
  have hsub : s.order ⊆ List.range I.n := by
    intro t ht; rw [List.mem_range]; exact hlt t ht
  have := (List.subperm_of_subset h.nodup hsub).length_le
  rwa [List.length_range] at this

theorem compete_all_black (hg : I.Good) (s : AState) (hr : Reach I pred0 lab0 s)
    (hf : I.Final s) : ∀ t, t < I.n → s.color t = BLACK := by
  have h := cinv_of_reach I pred0 lab0 hg hr
  have hne : s.order ≠ [] := by
    rcases reach_init_or_order I pred0 lab0 hr with e | e
    · subst e; exact absurd hf (init_not_final I pred0 lab0 hg)
    · exact e
  intro t ht
  rcases h.col t with hc | hc | hc
  · exact absurd hc (h.nowhite hne t ht)
  · exact absurd hc (hf t ht)
  · exact hc

theorem compete_cost_optimal (hg : I.Good) (s : AState) (hr : Reach I pred0 lab0 s)
    (hf : I.Final s) (t : Nat) (ht : t < I.n) :
    I.PathCost t (s.cost t) ∧ ∀ c, I.PathCost t c → s.cost t ≤ c := by
  have h := cinv_of_reach I pred0 lab0 hg hr
  have hb := compete_all_black I pred0 lab0 hg s hr hf
  refine ⟨h.real t ht (by rw [hb t ht]; decide), ?_⟩
  intro c hc
  induction hc with
  | seed hs1 hs2 => rw [(h.seedinv _ hs1 hs2).1]; exact Int.le_refl _
  | @arc p q c hpc hq hqp ih =>
    have hp : p < I.n := pathCost_lt I hpc
    have h1 := ih hp
    have h2 := h.i2 p q (hb p hp) hq hqp
    omega

theorem compete_seeds (hg : I.Good) (s : AState) (hr : Reach I pred0 lab0 s) (t : Nat)
    (ht : t < I.n) (hs : I.seed t = true) :
    s.cost t = 0 ∧ s.pred t = none ∧ s.lab t = I.lam t :=
  (cinv_of_reach I pred0 lab0 hg hr).seedinv t ht hs

theorem compete_link (hg : I.Good) (s : AState) (hr : Reach I pred0 lab0 s) (hf : I.Final s)
    (t : Nat) (ht : t < I.n) (hs : I.seed t = false) :
    ∃ p, s.pred t = some p ∧ p < I.n ∧ p ≠ t ∧ s.cost t = max (s.cost p) (I.w p t) ∧
      s.lab t = s.lab p ∧ s.order.idxOf p < s.order.idxOf t := by
  have h := cinv_of_reach I pred0 lab0 hg hr
  have hb := compete_all_black I pred0 lab0 hg s hr hf t ht
  obtain ⟨p, h1, _, h3, h4, h5, h6, h7⟩ := h.link t ht hs (by rw [hb]; decide)
  exact ⟨p, h1, h3, h4, h5, h6, h7 ((h.mem t).2 hb)⟩

theorem compete_forest (hg : I.Good) (s : AState) (hr : Reach I pred0 lab0 s) (hf : I.Final s)
    (t : Nat) (ht : t < I.n) :
    ∃ r, r < I.n ∧ I.seed r = true ∧ Chain s r t ∧ s.lab t = I.lam r := by
  have key : ∀ k t, s.order.idxOf t = k → t < I.n →
      ∃ r, r < I.n ∧ I.seed r = true ∧ Chain s r t ∧ s.lab t = I.lam r := by
    intro k
    induction k using Nat.strongRecOn with
    | ind k ih =>
      intro t hk ht
      by_cases hs : I.seed t = true
      · exact ⟨t, ht, hs, Chain.refl, (compete_seeds I pred0 lab0 hg s hr t ht hs).2.2⟩
      · have hs' : I.seed t = false := by simpa using hs
        obtain ⟨p, hpred, hpn, _, _, hl, hidx⟩ := compete_link I pred0 lab0 hg s hr hf t ht hs'
        obtain ⟨r, hr1, hr2, hr3, hr4⟩ := ih _ (hk ▸ hidx) p rfl hpn
        exact ⟨r, hr1, hr2, Chain.step hpred hr3, hl.trans hr4⟩
  exact key _ t rfl ht

theorem compete_order (hg : I.Good) (s : AState) (hr : Reach I pred0 lab0 s) (hf : I.Final s) :
    s.order.Nodup ∧ (∀ t, t ∈ s.order ↔ t < I.n) ∧ s.order.length = I.n ∧
    s.order.Pairwise (fun a b => s.cost a ≤ s.cost b) := by
  have h := cinv_of_reach I pred0 lab0 hg hr
  have hb := compete_all_black I pred0 lab0 hg s hr hf
  have hmem : ∀ t, t ∈ s.order ↔ t < I.n := by
    intro t
    exact ⟨order_lt I pred0 lab0 hg s hr t, fun ht => (h.mem t).2 (hb t ht)⟩
  refine ⟨h.nodup, hmem, ?_, h.sorted⟩
  have hperm : s.order.Perm (List.range I.n) := by
    rw [List.perm_ext_iff_of_nodup h.nodup List.nodup_range]
    intro t; rw [hmem, List.mem_range]
  rw [hperm.length_eq, List.length_range]

theorem compete_no_seed (hns : ∀ x, x < I.n → I.seed x = false) :
    I.Final (I.init pred0 lab0) ∧ (I.init pred0 lab0).order = [] := by
  refine ⟨?_, rfl⟩
  intro q hq
  simp only [init]
  rw [if_neg (fun h => by rw [hns q hq] at h; exact absurd h.2 (by decide))]
  decide

/-! ### non-vacuity: a concrete lawful run that ends -/

/-- 4 nodes; seeds 0 (label 1) and 3 (label 2); the arc 0–1 weighs 2, every other arc 5, so that
the two seeds tie at cost 0 and nodes 1, 2 tie at cost 5 after the first step. -/
def exI : CompInst :=
  { n := 4
    w := fun p q => if p + q = 1 then 2 else 5
    seed := fun x => x == 0 || x == 3
    lam := fun x => if x = 0 then 1 else 2
    top := 100 }

theorem exI_good : exI.Good where
  top_pos := by decide
  w_nonneg := by intro p q _ _; simp only [exI]; split <;> omega
  w_lt_top := by intro p q _ _; simp only [exI]; split <;> omega
  has_seed := ⟨0, by decide, by decide⟩

/-- the run that removes 3, 0, 1, 2 in this order (3 before 0 although both cost 0). -/
def exS0 : AState := exI.init (fun _ => none) (fun _ => 0)
def exS1 : AState := exI.fire exS0 3
def exS2 : AState := exI.fire exS1 0
def exS3 : AState := exI.fire exS2 1
def exS : AState := exI.fire exS3 2

example : exI.Good ∧ Reach exI (fun _ => none) (fun _ => 0) exS ∧ exI.Final exS ∧
    exS.order = [3, 0, 1, 2] ∧ exS.lab 1 = 1 ∧ exS.lab 2 = 2 ∧ exS.cost 1 = 2 ∧ exS.cost 2 = 5 := by
  refine ⟨exI_good, ?_, ?_, rfl, by decide, by decide, by decide, by decide⟩
  · have r0 : Reach exI (fun _ => none) (fun _ => 0) exS0 := Reach.init
    have r1 : Reach exI (fun _ => none) (fun _ => 0) exS1 :=
      Reach.step r0 ⟨3, by decide, by decide, by decide, rfl⟩
    have r2 : Reach exI (fun _ => none) (fun _ => 0) exS2 :=
      Reach.step r1 ⟨0, by decide, by decide, by decide, rfl⟩
    have r3 : Reach exI (fun _ => none) (fun _ => 0) exS3 :=
      Reach.step r2 ⟨1, by decide, by decide, by decide, rfl⟩
    exact Reach.step r3 ⟨2, by decide, by decide, by decide, rfl⟩
  · unfold Final; decide

end Opf.CompInst
