/-
Refinement of the translated `KNNSupervisedOPF.predict` and `UnsupervisedOPF.predict`
(`Gen/KnnPredImp.lean`) to the models of `Model/Knn.lean` about which `Props/C14.lean` speaks:
`queryNeighbours` (insertion scan over ALL training samples), `queryDensityG` (query density,
polymorphic, instantiated with the UNINTERPRETED float operations `fo`), `knnArgmax` (first maximiser
of `min(cost, density)` among the valid slots).

Structure: `qScanBody`, `densBody`, `knnPick`, `unsPick`, `qNodeBody` name the loop bodies of the generated text
(`knn_predict_eq`, `uns_predict_eq` are `rfl`; the inner `while` is `ArcsRefine.bubCond/bubBody`, so
`ArcsRefine.bubble_refines` and the buffer relation `ArcsRefine.BR` are reused); `qscan_refines` (scan over ALL
`j`), `SlotOK` (a slot holds the sentinel or a candidate `< n`), `dens_refines`, `knnArgmax_range`, `pick_loop`,
`node_step` (one query), `outer_loop` (all queries; entries `< q` final, the others those of `psg0`).
-/
import OpfVerif.Gen.KnnPredImp
import OpfVerif.Lemmas.FSym
import OpfVerif.Lemmas.ArcsRefine
set_option linter.unusedVariables false
namespace Opf.KnnPredRefine
open Opf Opf.Gen Opf.Gen.KnnPredImp Opf.ArcsRefine

/-- the trained subgraph: `n` nodes, `best_k = k`, per-node cost / assigned label / cluster. -/
structure RelT (sg : QSG) (n k : Nat) (cost : Nat → Int) (lab clu : Nat → Nat) : Prop where
  n_eq : sg.n_nodes = (n : Int)
  k_eq : sg.best_k = (k : Int)
  sz_cost : sg.cost.size = n
  sz_lab : sg.predicted_label.size = n
  sz_clu : sg.cluster_label.size = n
  cost_eq : ∀ x, x < n → sg.cost[x]? = some (cost x)
  lab_eq : ∀ x, x < n → sg.predicted_label[x]? = some (lab x : Int)
  clu_eq : ∀ x, x < n → sg.cluster_label[x]? = some (clu x : Int)

/-- the query subgraph built from `m` queries. -/
structure RelQ (psg : QSG) (m : Nat) : Prop where
  n_eq : psg.n_nodes = (m : Int)
  sz_lab : psg.predicted_label.size = m
  sz_clu : psg.cluster_label.size = m

/-- the model of one query: the node chosen (if any valid slot exists). `dist t` = distance from the
query to training node `t`; `negTop` = the initial best cost. -/
def chosen (fo : Py.FOps) (top negTop eps : Int) (k n : Nat) (cost : Nat → Int) (constant minD maxD : Int)
    (dist : Nat → Int) : Option Nat :=
  let buf := queryNeighbours k n top dist
  let exps : List (FSym fo) := (buf.toList.take k).map (fun s => ⟨fo.exp (fo.div (-s.1) constant)⟩)
  let dens := (queryDensityG (α := FSym fo) ⟨0⟩ (FSym.ofInt fo 1) (FSym.ofInt fo 1000) ⟨eps⟩ ⟨minD⟩ ⟨maxD⟩
                (FSym.ofInt fo (k : Int)) exps).val
  (knnArgmax negTop cost dens (validSlots k top buf)).1

/-- the query-side oracle agrees with the per-query distance functions (QUERY FIRST: `QW i j` is the
distance from query `i` to training node `j`). -/
def QWAgree (n : Nat) (QW : Int → Int → Option Int) (ds : List (Nat → Int)) : Prop :=
  ∀ (i : Nat) (hi : i < ds.length) (j : Nat), j < n → QW (i : Int) (j : Int) = some (ds[i] j)


def qScanBody (QW : Int → Int → Option Int) (best_k i : Int) :
    Int → Array Int × Array Int → Option (Array Int × Array Int) :=
        (fun j (distances, neighbours_idx) => (do
          let t5001 ← QW i j
          let t5002 ← Py.setIdx distances best_k t5001
          let distances := t5002
          let t5003 ← Py.setIdx neighbours_idx best_k j
          let neighbours_idx := t5003
          let cur_k := best_k
          let (distances, neighbours_idx, cur_k) ← Py.whileM (σ := Array Int × Array Int × Int)
            bubCond bubBody (distances, neighbours_idx, cur_k)
          pure (distances, neighbours_idx)))

def densBody (fo : Py.FOps) (constant : Int) (distances : Array Int) : Int → Int → Option Int :=
        (fun k density => (do
          let t5019 ← Py.idx distances k
          let density := (fo.add density (fo.exp (fo.div (-t5019) constant)))
          pure density))

def knnPick (sg : QSG) (FLOAT_MAX density : Int) (distances neighbours_idx : Array Int) (i : Int) :
    Int → Int × QSG → Option (Int × QSG) :=
        (fun k (cost, pred_subgraph) => (do
          let t5020 ← Py.idx distances k
          let (cost, pred_subgraph) ← (if (decide (t5020 ≠ FLOAT_MAX)) then (do
              let t5021 ← Py.idx neighbours_idx k
              let neighbour := t5021
              let t5022 ← Py.idx sg.cost neighbour
              let temp_cost := (min t5022 density)
              let (cost, pred_subgraph) ← (if (decide (temp_cost > cost)) then (do
                  let cost := temp_cost
                  let t5023 ← Py.idx sg.predicted_label neighbour
                  let _g ← (if (decide (t5023 < (0 : Int))) then none else pure ())
                  let t5024 ← Py.setIdx pred_subgraph.predicted_label i t5023
                  let pred_subgraph := { pred_subgraph with predicted_label := t5024 }
                  pure (cost, pred_subgraph)) else (do
                  pure (cost, pred_subgraph)))
              pure (cost, pred_subgraph)) else (do
              pure (cost, pred_subgraph)))
          pure (cost, pred_subgraph)))

def unsPick (sg : QSG) (FLOAT_MAX density : Int) (distances neighbours_idx : Array Int) (i : Int) :
    Int → Int × QSG → Option (Int × QSG) :=
        (fun k (cost, pred_subgraph) => (do
          let t5220 ← Py.idx distances k
          let (cost, pred_subgraph) ← (if (decide (t5220 ≠ FLOAT_MAX)) then (do
              let t5221 ← Py.idx neighbours_idx k
              let neighbour := t5221
              let t5222 ← Py.idx sg.cost neighbour
              let temp_cost := (min t5222 density)
              let (cost, pred_subgraph) ← (if (decide (temp_cost > cost)) then (do
                  let cost := temp_cost
                  let t5223 ← Py.idx sg.predicted_label neighbour
                  let _g ← (if (decide (t5223 < (0 : Int))) then none else pure ())
                  let t5224 ← Py.setIdx pred_subgraph.predicted_label i t5223
                  let pred_subgraph := { pred_subgraph with predicted_label := t5224 }
                  let t5225 ← Py.idx sg.cluster_label neighbour
                  let _g ← (if (decide (t5225 < (0 : Int))) then none else pure ())
                  let t5226 ← Py.setIdx pred_subgraph.cluster_label i t5225
                  let pred_subgraph := { pred_subgraph with cluster_label := t5226 }
                  pure (cost, pred_subgraph)) else (do
                  pure (cost, pred_subgraph)))
              pure (cost, pred_subgraph)) else (do
              pure (cost, pred_subgraph)))
          pure (cost, pred_subgraph)))

/-- the affine rescaling of the mean, as the code computes it. -/
def densOf (fo : Py.FOps) (eps : Int) (sg : QSG) (density : Int) : Int :=
  (fo.add (fo.div (fo.mul (fo.ofInt ((1000 : Int) - (1 : Int))) (fo.sub (fo.div density (fo.ofInt sg.best_k)) sg.min_density)) (fo.add (fo.sub sg.max_density sg.min_density) eps)) (fo.ofInt (1 : Int)))

def qNodeBody (pick : Int → Array Int → Array Int → Int → Int → Int × QSG → Option (Int × QSG))
    (QW : Int → Int → Option Int) (fo : Py.FOps) (FLOAT_MAX FC_1em20 cost0 : Int) (sg : QSG) :
    Int → Array Int × Array Int × QSG → Option (Array Int × Array Int × QSG) :=
    (fun i (distances, neighbours_idx, pred_subgraph) => (do
      let distances : Array Int := Array.replicate distances.size FLOAT_MAX
      let (distances, neighbours_idx) ← Py.forRange (σ := Array Int × Array Int) sg.n_nodes
        (qScanBody QW sg.best_k i) (distances, neighbours_idx)
      let density ← Py.forRange (σ := Int) sg.best_k (densBody fo sg.constant distances) (0 : Int)
      let (cost, pred_subgraph) ← Py.forRange (σ := Int × QSG) sg.best_k
        (pick (densOf fo FC_1em20 sg density) distances neighbours_idx i) (cost0, pred_subgraph)
      pure (distances, neighbours_idx, pred_subgraph)))

theorem knn_predict_eq (QW : Int → Int → Option Int) (fo : Py.FOps) (top eps : Int) (sg psg0 : QSG) :
    knn_predict QW fo top eps sg psg0 = (do
      let (distances, neighbours_idx, pred_subgraph) ← Py.forRange (σ := Array Int × Array Int × QSG) psg0.n_nodes
        (qNodeBody (knnPick sg top) QW fo top eps (fo.mul top (fo.ofInt (-1))) sg)
        (Py.replicate (sg.best_k + 1) 0, Py.replicate (sg.best_k + 1) 0, psg0)
      pure (sg, pred_subgraph.predicted_label)) := rfl

theorem uns_predict_eq (QW : Int → Int → Option Int) (fo : Py.FOps) (top eps : Int) (sg psg0 : QSG) :
    uns_predict QW fo top eps sg psg0 = (do
      let _g ← (if (!sg.trained) then none else pure ())
      let (distances, neighbours_idx, pred_subgraph) ← Py.forRange (σ := Array Int × Array Int × QSG) psg0.n_nodes
        (qNodeBody (unsPick sg top) QW fo top eps (-top) sg)
        (Py.replicate (sg.best_k + 1) 0, Py.replicate (sg.best_k + 1) 0, psg0)
      pure (sg, (pred_subgraph.predicted_label, pred_subgraph.cluster_label))) := rfl

/-! ### the insertion scan -/

theorem qScanBody_step (QW : Int → Int → Option Int) (top : Int) (k : Nat) (i : Int) (j : Nat) (v : Int)
    (hQ : QW i (j : Int) = some v) (d ni : Array Int) (buf : Array Slot) (h : BR top k d ni buf) :
    ∃ a', qScanBody QW (k : Int) i (j : Int) (d, ni) = some a' ∧
      BR top k a'.1 a'.2 (scanInsert k buf v j) := by
  have s1 : Py.setIdx d (k : Int) v = some (d.setIfInBounds k v) :=
    HeapRefine.setIdx_nat _ _ _ (by rw [h.sd]; omega)
  have s2 : Py.setIdx ni (k : Int) (j : Int) = some (ni.setIfInBounds k (j : Int)) :=
    HeapRefine.setIdx_nat _ _ _ (by rw [h.sn]; omega)
  obtain ⟨d', ni', c', ew, r⟩ := bubble_refines top k k _ _ _ (Nat.le_refl k) (h.write v j)
  refine ⟨(d', ni'), ?_, r⟩
  simp only [qScanBody, hQ, s1, s2, ew, Option.bind_eq_bind, Option.bind_some, Option.pure_def]

theorem qscan_refines (QW : Int → Int → Option Int) (top : Int) (k n : Nat) (i : Int) (dist : Nat → Int)
    (hQ : ∀ j, j < n → QW i (j : Int) = some (dist j)) (d ni : Array Int) (hd : d.size = k + 1)
    (hn : ni.size = k + 1) :
    ∃ d' ni', Py.forRange (n : Int) (qScanBody QW (k : Int) i) (Array.replicate d.size top, ni) =
        some (d', ni') ∧ BR top k d' ni' (queryNeighbours k n top dist) := by
  obtain ⟨a', e, r⟩ := forRange_refines
    (fun (_ : Nat) (a : Array Int × Array Int) (b : Array Slot) => BR top k a.1 a.2 b)
    (qScanBody QW (k : Int) i) (fun buf j => scanInsert k buf (dist j) j) n
    (fun j hj a b hab => qScanBody_step QW top k i j (dist j) (hQ j hj) a.1 a.2 b hab)
    (Array.replicate d.size top, ni) (Array.replicate (k + 1) (top, 0)) (BR.fresh top k d ni hd hn)
  exact ⟨a'.1, a'.2, e, r⟩

/-- every slot holds the sentinel distance or a candidate `< n`. -/
def SlotOK (top : Int) (n k : Nat) (buf : Array Slot) : Prop :=
  buf.size = k + 1 ∧ ∀ t, t ≤ k → (buf.getD t (0, 0)).1 = top ∨ (buf.getD t (0, 0)).2 < n

theorem SlotOK.bubble {top : Int} {n k : Nat} : ∀ (cur : Nat) (buf : Array Slot), cur ≤ k →
    SlotOK top n k buf → SlotOK top n k (bubble buf cur) := by
  intro cur
  induction cur with
  | zero => intro buf _ h; exact h
  | succ cur ih =>
    intro buf hc h
    rw [bubble_succ]
    by_cases hlt : (buf.getD (cur + 1) (0, 0)).1 < (buf.getD cur (0, 0)).1
    · rw [if_pos hlt]
      refine ih _ (by omega) ⟨by rw [swp_size]; exact h.1, ?_⟩
      intro t ht
      rw [swp_getD _ _ _ _ (by rw [h.1]; omega) (by rw [h.1]; omega)]
      by_cases e1 : t = cur
      · rw [if_pos e1]; exact h.2 _ hc
      · rw [if_neg e1]
        by_cases e2 : t = cur + 1
        · rw [if_pos e2]; exact h.2 _ (by omega)
        · rw [if_neg e2]; exact h.2 _ ht
    · rw [if_neg hlt]; exact h

theorem SlotOK.insert {top : Int} {n k : Nat} {buf : Array Slot} (h : SlotOK top n k buf) (v : Int)
    (j : Nat) (hj : j < n) : SlotOK top n k (scanInsert k buf v j) := by
  unfold scanInsert
  refine SlotOK.bubble k _ (Nat.le_refl k) ⟨by rw [Array.size_setIfInBounds]; exact h.1, ?_⟩
  intro t ht
  rw [Heap.getD_set]
  by_cases e : t = k
  · rw [if_pos ⟨e, by rw [h.1]; omega⟩]; right; exact hj
  · rw [if_neg (fun c => e c.1)]; exact h.2 t ht

theorem SlotOK.foldl {top : Int} {n k : Nat} (dist : Nat → Int) : ∀ (l : List Nat) (buf : Array Slot),
    (∀ j, j ∈ l → j < n) → SlotOK top n k buf →
    SlotOK top n k (l.foldl (fun buf j => scanInsert k buf (dist j) j) buf) := by
  intro l
  induction l with
  | nil => intro buf _ h; exact h
  | cons j l ih =>
    intro buf hl h
    rw [List.foldl_cons]
    exact ih _ (fun x hx => hl x (List.mem_cons_of_mem _ hx)) (h.insert _ j (hl j (List.mem_cons_self ..)))

theorem slotOK_query (top : Int) (n k : Nat) (dist : Nat → Int) :
    SlotOK top n k (queryNeighbours k n top dist) := by
  unfold queryNeighbours scan
  refine SlotOK.foldl dist _ _ (fun j hj => List.mem_range.mp hj) ⟨by simp, ?_⟩
  intro t ht
  left
  rw [getD_repl _ _ _ _ (by omega)]

/-! ### the first `k` slots as a map over `range k` -/

theorem take_range (buf : Array Slot) (k : Nat) (hk : k ≤ buf.size) :
    buf.toList.take k = (List.range k).map (fun t => buf.getD t (0, 0)) := by
  apply List.ext_getElem?
  intro t
  by_cases ht : t < k
  · have : t < buf.size := by omega
    simp [ht, this, Array.getD_eq_getD_getElem?]
  · simp [ht]

/-! ### the density loop -/

/-- the exp value of slot `s`. -/
def expOf (fo : Py.FOps) (c : Int) (s : Slot) : FSym fo := ⟨fo.exp (fo.div (-s.1) c)⟩

theorem dens_refines (fo : Py.FOps) (c top : Int) (k : Nat) (d ni : Array Int) (buf : Array Slot)
    (h : BR top k d ni buf) :
    Py.forRange (k : Int) (densBody fo c d) 0 =
      some (((buf.toList.take k).map (expOf fo c)).foldl (· + ·) (⟨0⟩ : FSym fo)).val := by
  obtain ⟨a', e, r⟩ := forRange_refines
    (fun (_ : Nat) (a : Int) (b : FSym fo) => a = b.val) (densBody fo c d)
    (fun b t => b + expOf fo c (buf.getD t (0, 0))) k
    (fun t ht a b hab => by
      refine ⟨_, ?_, rfl⟩
      have e1 := h.idx_d t (by omega)
      simp only [densBody, e1, hab, Option.bind_eq_bind, Option.bind_some, Option.pure_def]
      rfl)
    0 ⟨0⟩ rfl
  rw [e, r, take_range buf k (by rw [h.sb]; omega), List.map_map, List.foldl_map]
  rfl

/-! ### the arg-max as a fold over `range k` -/

def pickStep (top : Int) (cost : Nat → Int) (dens : Int) (buf : Array Slot) (acc : Option Nat × Int)
    (t : Nat) : Option Nat × Int :=
  if (buf.getD t (0, 0)).1 ≠ top then
    (if min (cost (buf.getD t (0, 0)).2) dens > acc.2 then
      (some (buf.getD t (0, 0)).2, min (cost (buf.getD t (0, 0)).2) dens) else acc)
  else acc

theorem knnArgmax_range (top negTop : Int) (cost : Nat → Int) (dens : Int) (buf : Array Slot) (k : Nat)
    (hk : k ≤ buf.size) :
    knnArgmax negTop cost dens (validSlots k top buf) =
      (List.range k).foldl (pickStep top cost dens buf) (none, negTop) := by
  unfold knnArgmax validSlots
  rw [take_range buf k hk, List.foldl_filter, List.foldl_map]
  congr 1
  funext acc t
  simp only [pickStep, decide_eq_true_eq]

theorem chosen_eq (fo : Py.FOps) (top negTop eps : Int) (k n : Nat) (cost : Nat → Int)
    (c minD maxD : Int) (dist : Nat → Int) :
    chosen fo top negTop eps k n cost c minD maxD dist =
      (knnArgmax negTop cost
        (fo.add (fo.div (fo.mul (fo.sub (fo.ofInt 1000) (fo.ofInt 1))
            (fo.sub (fo.div ((((queryNeighbours k n top dist).toList.take k).map (expOf fo c)).foldl
              (· + ·) (⟨0⟩ : FSym fo)).val (fo.ofInt (k : Int))) minD))
          (fo.add (fo.sub maxD minD) eps)) (fo.ofInt 1))
        (validSlots k top (queryNeighbours k n top dist))).1 := rfl

/-! ### the arg-max loop -/

/-- `a[i] = v` when there is a value to store. -/
def putLab (a : Array Int) (i : Nat) : Option Int → Array Int
  | some v => a.setIfInBounds i v
  | none => a

theorem putLab_size (a : Array Int) (i : Nat) (o : Option Int) : (putLab a i o).size = a.size := by
  cases o <;> simp [putLab]

theorem set_putLab (a : Array Int) (i : Nat) (o : Option Int) (v : Int) :
    (putLab a i o).setIfInBounds i v = a.setIfInBounds i v := by
  cases o with
  | none => rfl
  | some w =>
    apply Array.ext_getElem?
    intro t
    simp only [putLab, Array.getElem?_setIfInBounds, Array.size_setIfInBounds]
    by_cases e : i = t
    · simp [e]
    · simp [e]

theorem putLab_getq (a : Array Int) (i x : Nat) (o : Option Int) (hi : i < a.size) :
    (putLab a i o)[x]? = if x = i then (match o with | some v => some v | none => a[i]?) else a[x]? := by
  cases o with
  | none =>
    by_cases e : x = i
    · rw [if_pos e, e]; rfl
    · rw [if_neg e]; rfl
  | some v => exact getq_set a i x v hi

/-- the query subgraph after query `i` chose `o` (`KNNSupervisedOPF.predict`). -/
def knnF (lab : Nat → Nat) (psg : QSG) (i : Nat) (o : Option Nat) : QSG :=
  { psg with predicted_label := putLab psg.predicted_label i (o.map (fun t => ((lab t : Nat) : Int))) }

/-- the query subgraph after query `i` chose `o` (`UnsupervisedOPF.predict`). -/
def unsF (lab clu : Nat → Nat) (psg : QSG) (i : Nat) (o : Option Nat) : QSG :=
  { psg with predicted_label := putLab psg.predicted_label i (o.map (fun t => ((lab t : Nat) : Int))),
             cluster_label := putLab psg.cluster_label i (o.map (fun t => ((clu t : Nat) : Int))) }

theorem pickStep_neg (top : Int) (cost : Nat → Int) (dens : Int) (buf : Array Slot)
    (acc : Option Nat × Int) (t : Nat) (h : (buf.getD t (0, 0)).1 = top) :
    pickStep top cost dens buf acc t = acc := by
  unfold pickStep
  rw [if_neg (fun c => c h)]

theorem pickStep_pos (top : Int) (cost : Nat → Int) (dens : Int) (buf : Array Slot)
    (acc : Option Nat × Int) (t : Nat) (h : (buf.getD t (0, 0)).1 ≠ top) :
    pickStep top cost dens buf acc t =
      if min (cost (buf.getD t (0, 0)).2) dens > acc.2 then
        (some (buf.getD t (0, 0)).2, min (cost (buf.getD t (0, 0)).2) dens) else acc := by
  unfold pickStep
  rw [if_pos h]

theorem knnPick_step {sg : QSG} {n k : Nat} {cost : Nat → Int} {lab clu : Nat → Nat}
    (hr : RelT sg n k cost lab clu) (top dens : Int) (d ni : Array Int) (buf : Array Slot)
    (hb : BR top k d ni buf) (hok : SlotOK top n k buf) (i : Nat) (psg : QSG)
    (hi : i < psg.predicted_label.size) (t : Nat) (ht : t < k) (acc : Option Nat × Int) :
    knnPick sg top dens d ni (i : Int) (t : Int) (acc.2, knnF lab psg i acc.1) =
      some ((pickStep top cost dens buf acc t).2, knnF lab psg i (pickStep top cost dens buf acc t).1) := by
  have e1 := hb.idx_d t (by omega)
  by_cases hs : (buf.getD t (0, 0)).1 = top
  · rw [pickStep_neg _ _ _ _ _ _ hs]
    simp only [knnPick, e1, hs, ne_eq, not_true_eq_false, decide_false, Bool.false_eq_true, if_false,
      Option.bind_eq_bind, Option.bind_some, Option.pure_def]
  · rw [pickStep_pos _ _ _ _ _ _ hs]
    have e2 := hb.idx_n t (by omega) hs
    have hlt : (buf.getD t (0, 0)).2 < n := by
      rcases hok.2 t (by omega) with c | c
      · exact absurd c hs
      · exact c
    have e3 : Py.idx sg.cost (((buf.getD t (0, 0)).2 : Nat) : Int) = some (cost (buf.getD t (0, 0)).2) := by
      rw [HeapRefine.idx_nat]; exact hr.cost_eq _ hlt
    have e4 : Py.idx sg.predicted_label (((buf.getD t (0, 0)).2 : Nat) : Int) =
        some ((lab (buf.getD t (0, 0)).2 : Nat) : Int) := by
      rw [HeapRefine.idx_nat]; exact hr.lab_eq _ hlt
    generalize buf.getD t (0, 0) = s at *
    have e5 : ¬ (((lab s.2 : Nat) : Int) < 0) := by omega
    have e6 : ∀ v, Py.setIdx (knnF lab psg i acc.1).predicted_label (i : Int) v =
        some (psg.predicted_label.setIfInBounds i v) := by
      intro v
      rw [HeapRefine.setIdx_nat _ _ _ (by show i < (putLab _ _ _).size; rw [putLab_size]; exact hi)]
      show some ((putLab _ _ _).setIfInBounds i v) = _
      rw [set_putLab]
    by_cases c : min (cost s.2) dens > acc.2
    · rw [if_pos c]
      simp only [knnPick, e1, e2, e3, e4, e5, e6, hs, c, ne_eq, not_false_eq_true, decide_true, decide_false,
        Bool.false_eq_true, if_true, if_false, Option.bind_eq_bind, Option.bind_some, Option.pure_def]
      rfl
    · rw [if_neg c]
      simp only [knnPick, e1, e2, e3, hs, c, ne_eq, not_false_eq_true, decide_true, decide_false,
        Bool.false_eq_true, if_true, if_false, Option.bind_eq_bind, Option.bind_some, Option.pure_def]

theorem unsPick_step {sg : QSG} {n k : Nat} {cost : Nat → Int} {lab clu : Nat → Nat}
    (hr : RelT sg n k cost lab clu) (top dens : Int) (d ni : Array Int) (buf : Array Slot)
    (hb : BR top k d ni buf) (hok : SlotOK top n k buf) (i : Nat) (psg : QSG)
    (hi : i < psg.predicted_label.size) (hi' : i < psg.cluster_label.size)
    (t : Nat) (ht : t < k) (acc : Option Nat × Int) :
    unsPick sg top dens d ni (i : Int) (t : Int) (acc.2, unsF lab clu psg i acc.1) =
      some ((pickStep top cost dens buf acc t).2, unsF lab clu psg i (pickStep top cost dens buf acc t).1) := by
  have e1 := hb.idx_d t (by omega)
  by_cases hs : (buf.getD t (0, 0)).1 = top
  · rw [pickStep_neg _ _ _ _ _ _ hs]
    simp only [unsPick, e1, hs, ne_eq, not_true_eq_false, decide_false, Bool.false_eq_true, if_false,
      Option.bind_eq_bind, Option.bind_some, Option.pure_def]
  · rw [pickStep_pos _ _ _ _ _ _ hs]
    have e2 := hb.idx_n t (by omega) hs
    have hlt : (buf.getD t (0, 0)).2 < n := by
      rcases hok.2 t (by omega) with c | c
      · exact absurd c hs
      · exact c
    have e3 : Py.idx sg.cost (((buf.getD t (0, 0)).2 : Nat) : Int) = some (cost (buf.getD t (0, 0)).2) := by
      rw [HeapRefine.idx_nat]; exact hr.cost_eq _ hlt
    have e4 : Py.idx sg.predicted_label (((buf.getD t (0, 0)).2 : Nat) : Int) =
        some ((lab (buf.getD t (0, 0)).2 : Nat) : Int) := by
      rw [HeapRefine.idx_nat]; exact hr.lab_eq _ hlt
    have e4' : Py.idx sg.cluster_label (((buf.getD t (0, 0)).2 : Nat) : Int) =
        some ((clu (buf.getD t (0, 0)).2 : Nat) : Int) := by
      rw [HeapRefine.idx_nat]; exact hr.clu_eq _ hlt
    generalize buf.getD t (0, 0) = s at *
    have e5 : ¬ (((lab s.2 : Nat) : Int) < 0) := by omega
    have e5' : ¬ (((clu s.2 : Nat) : Int) < 0) := by omega
    have e6 : ∀ v, Py.setIdx (unsF lab clu psg i acc.1).predicted_label (i : Int) v =
        some (psg.predicted_label.setIfInBounds i v) := by
      intro v
      rw [HeapRefine.setIdx_nat _ _ _ (by show i < (putLab _ _ _).size; rw [putLab_size]; exact hi)]
      show some ((putLab _ _ _).setIfInBounds i v) = _
      rw [set_putLab]
    have e7 : ∀ v, Py.setIdx (unsF lab clu psg i acc.1).cluster_label (i : Int) v =
        some (psg.cluster_label.setIfInBounds i v) := by
      intro v
      rw [HeapRefine.setIdx_nat _ _ _ (by show i < (putLab _ _ _).size; rw [putLab_size]; exact hi')]
      show some ((putLab _ _ _).setIfInBounds i v) = _
      rw [set_putLab]
    by_cases c : min (cost s.2) dens > acc.2
    · rw [if_pos c]
      simp only [unsPick, e1, e2, e3, e4, e4', e5, e5', e6, e7, hs, c, ne_eq, not_false_eq_true, decide_true,
        decide_false, Bool.false_eq_true, if_true, if_false, Option.bind_eq_bind, Option.bind_some,
        Option.pure_def]
      rfl
    · rw [if_neg c]
      simp only [unsPick, e1, e2, e3, hs, c, ne_eq, not_false_eq_true, decide_true, decide_false,
        Bool.false_eq_true, if_true, if_false, Option.bind_eq_bind, Option.bind_some, Option.pure_def]

theorem knnF_none (lab : Nat → Nat) (psg : QSG) (i : Nat) : knnF lab psg i none = psg := rfl
theorem unsF_none (lab clu : Nat → Nat) (psg : QSG) (i : Nat) : unsF lab clu psg i none = psg := rfl

theorem pick_loop (pick : Int → Int × QSG → Option (Int × QSG)) (F : Option Nat → QSG) (top : Int)
    (cost : Nat → Int) (dens : Int) (buf : Array Slot) (k : Nat) (hk : k ≤ buf.size)
    (hstep : ∀ t, t < k → ∀ acc : Option Nat × Int, pick (t : Int) (acc.2, F acc.1) =
      some ((pickStep top cost dens buf acc t).2, F (pickStep top cost dens buf acc t).1))
    (negTop : Int) :
    Py.forRange (k : Int) pick (negTop, F none) =
      some ((knnArgmax negTop cost dens (validSlots k top buf)).2,
        F (knnArgmax negTop cost dens (validSlots k top buf)).1) := by
  obtain ⟨a', e, r⟩ := forRange_refines
    (fun (_ : Nat) (a : Int × QSG) (acc : Option Nat × Int) => a = (acc.2, F acc.1)) pick
    (pickStep top cost dens buf) k
    (fun t ht a acc hab => ⟨_, by rw [hab]; exact hstep t ht acc, rfl⟩)
    (negTop, F none) (none, negTop) rfl
  rw [e, r, knnArgmax_range top negTop cost dens buf k hk]

/-! ### one query -/

theorem node_step (pick : Int → Array Int → Array Int → Int → Int → Int × QSG → Option (Int × QSG))
    (F : QSG → Nat → Option Nat → QSG) (QW : Int → Int → Option Int) (fo : Py.FOps)
    (top eps cost0 : Int) (h999 : fo.sub (fo.ofInt 1000) (fo.ofInt 1) = fo.ofInt 999)
    {sg : QSG} {n k : Nat} {cost : Nat → Int} {lab clu : Nat → Nat} (hr : RelT sg n k cost lab clu)
    (i : Nat) (dist : Nat → Int) (hQ : ∀ j, j < n → QW (i : Int) (j : Int) = some (dist j)) (psg : QSG)
    (hF0 : F psg i none = psg)
    (hpick : ∀ (dens : Int) (d ni : Array Int) (buf : Array Slot), BR top k d ni buf → SlotOK top n k buf →
      ∀ t, t < k → ∀ acc : Option Nat × Int, pick dens d ni (i : Int) (t : Int) (acc.2, F psg i acc.1) =
        some ((pickStep top cost dens buf acc t).2, F psg i (pickStep top cost dens buf acc t).1))
    (d ni : Array Int) (hd : d.size = k + 1) (hn : ni.size = k + 1) :
    ∃ d' ni', qNodeBody pick QW fo top eps cost0 sg (i : Int) (d, ni, psg) =
        some (d', ni', F psg i (chosen fo top cost0 eps k n cost sg.constant sg.min_density
          sg.max_density dist)) ∧ d'.size = k + 1 ∧ ni'.size = k + 1 := by
  obtain ⟨d', ni', es, hb⟩ := qscan_refines QW top k n (i : Int) dist hQ d ni hd hn
  have hok := slotOK_query top n k dist
  have ed := dens_refines fo sg.constant top k d' ni' _ hb
  refine ⟨d', ni', ?_, hb.sd, hb.sn⟩
  have e9 : ((1000 : Int) - (1 : Int)) = 999 := by decide
  have edens : densOf fo eps sg ((((queryNeighbours k n top dist).toList.take k).map
        (expOf fo sg.constant)).foldl (· + ·) (⟨0⟩ : FSym fo)).val =
      (fo.add (fo.div (fo.mul (fo.sub (fo.ofInt 1000) (fo.ofInt 1))
            (fo.sub (fo.div ((((queryNeighbours k n top dist).toList.take k).map
              (expOf fo sg.constant)).foldl (· + ·) (⟨0⟩ : FSym fo)).val (fo.ofInt (k : Int)))
              sg.min_density))
          (fo.add (fo.sub sg.max_density sg.min_density) eps)) (fo.ofInt 1)) := by
    unfold densOf
    rw [e9, h999, hr.k_eq]
  have el := pick_loop (pick (densOf fo eps sg ((((queryNeighbours k n top dist).toList.take k).map
      (expOf fo sg.constant)).foldl (· + ·) (⟨0⟩ : FSym fo)).val) d' ni' (i : Int)) (F psg i) top cost _ _ k
    (by rw [hb.sb]; omega) (hpick _ d' ni' _ hb hok) cost0
  rw [hF0] at el
  rw [chosen_eq, ← edens]
  simp only [qNodeBody, hr.n_eq, hr.k_eq] at es ed el ⊢
  simp only [es, ed, el, Option.bind_eq_bind, Option.bind_some, Option.pure_def]

/-! ### the loop over the queries -/

/-- entries `< q` of `a` are final, the others those of `a0`. -/
structure AInv (a0 a : Array Int) (m q : Nat) (f : Nat → Option Int) : Prop where
  sz : a.size = m
  ent : ∀ x, x < m → a[x]? = if x < q then (match f x with | some v => some v | none => a0[x]?) else a0[x]?

theorem AInv.init (a0 : Array Int) (m : Nat) (h : a0.size = m) (f : Nat → Option Int) : AInv a0 a0 m 0 f :=
  ⟨h, fun x _ => by rw [if_neg (Nat.not_lt_zero x)]⟩

theorem AInv.step {a0 a : Array Int} {m q : Nat} {f : Nat → Option Int} (h : AInv a0 a m q f) (hq : q < m) :
    AInv a0 (putLab a q (f q)) m (q + 1) f := by
  refine ⟨by rw [putLab_size]; exact h.sz, ?_⟩
  intro x hx
  rw [putLab_getq _ _ _ _ (by rw [h.sz]; exact hq)]
  by_cases e : x = q
  · subst e
    rw [if_pos rfl, if_pos (Nat.lt_succ_self x)]
    cases f x with
    | some v => rfl
    | none =>
      have := h.ent x hx
      rw [if_neg (Nat.lt_irrefl x)] at this
      exact this
  · rw [if_neg e, h.ent x hx]
    by_cases c : x < q
    · rw [if_pos c, if_pos (by omega)]
    · rw [if_neg c, if_neg (by omega)]

structure OInv (k m : Nat) (psg0 : QSG) (fL fC : Nat → Option Int) (q : Nat)
    (st : Array Int × Array Int × QSG) : Prop where
  sd : st.1.size = k + 1
  sn : st.2.1.size = k + 1
  labI : AInv psg0.predicted_label st.2.2.predicted_label m q fL
  cluI : AInv psg0.cluster_label st.2.2.cluster_label m q fC

/-- the model's choice for query `x`. -/
def resOf (fo : Py.FOps) (top cost0 eps : Int) (k n : Nat) (cost : Nat → Int) (sg : QSG)
    (ds : List (Nat → Int)) (x : Nat) : Option Nat :=
  chosen fo top cost0 eps k n cost sg.constant sg.min_density sg.max_density (ds.getD x (fun _ => 0))

theorem getD_ds (ds : List (Nat → Int)) (i : Nat) (hi : i < ds.length) :
    ds.getD i (fun _ => 0) = ds[i] := by
  simp [List.getD_eq_getElem?_getD, hi]

theorem outer_loop (pick : Int → Array Int → Array Int → Int → Int → Int × QSG → Option (Int × QSG))
    (F : QSG → Nat → Option Nat → QSG) (G : Option Nat → Option Int)
    (QW : Int → Int → Option Int) (fo : Py.FOps)
    (top eps cost0 : Int) (h999 : fo.sub (fo.ofInt 1000) (fo.ofInt 1) = fo.ofInt 999)
    {sg : QSG} {n k : Nat} {cost : Nat → Int} {lab clu : Nat → Nat} (hr : RelT sg n k cost lab clu)
    (ds : List (Nat → Int)) (hW : QWAgree n QW ds) (psg0 : QSG) (hq : RelQ psg0 ds.length)
    (hFL : ∀ psg i o, (F psg i o).predicted_label =
      putLab psg.predicted_label i (o.map (fun t => ((lab t : Nat) : Int))))
    (hFC : ∀ psg i o, (F psg i o).cluster_label = putLab psg.cluster_label i (G o))
    (hF0 : ∀ psg i, F psg i none = psg)
    (hpick : ∀ (i : Nat) (psg : QSG), i < psg.predicted_label.size → i < psg.cluster_label.size →
      ∀ (dens : Int) (d ni : Array Int) (buf : Array Slot), BR top k d ni buf → SlotOK top n k buf →
      ∀ t, t < k → ∀ acc : Option Nat × Int, pick dens d ni (i : Int) (t : Int) (acc.2, F psg i acc.1) =
        some ((pickStep top cost dens buf acc t).2, F psg i (pickStep top cost dens buf acc t).1)) :
    ∃ st, Py.forRange psg0.n_nodes (qNodeBody pick QW fo top eps cost0 sg)
        (Py.replicate (sg.best_k + 1) 0, Py.replicate (sg.best_k + 1) 0, psg0) = some st ∧
      OInv k ds.length psg0
        (fun x => (resOf fo top cost0 eps k n cost sg ds x).map (fun t => ((lab t : Nat) : Int)))
        (fun x => G (resOf fo top cost0 eps k n cost sg ds x)) ds.length st := by
  have ek1 : ((k : Int) + 1).toNat = k + 1 := by omega
  rw [hq.n_eq, hr.k_eq]
  obtain ⟨st, e, hI⟩ := forRange_refines
    (fun (q : Nat) (st : Array Int × Array Int × QSG) (_ : Unit) => OInv k ds.length psg0
        (fun x => (resOf fo top cost0 eps k n cost sg ds x).map (fun t => ((lab t : Nat) : Int)))
        (fun x => G (resOf fo top cost0 eps k n cost sg ds x)) q st)
    (qNodeBody pick QW fo top eps cost0 sg) (fun _ _ => ()) ds.length
    (fun i hi st _ h => by
      obtain ⟨d, ni, psg⟩ := st
      obtain ⟨hd, hn, hL, hC⟩ := h
      simp only at hd hn hL hC
      have hQ : ∀ j, j < n → QW (i : Int) (j : Int) = some ((ds.getD i (fun _ => 0)) j) := by
        intro j hj
        rw [hW i hi j hj, getD_ds ds i hi]
      obtain ⟨d', ni', en, hd', hn'⟩ := node_step pick F QW fo top eps cost0 h999 hr i
        (ds.getD i (fun _ => 0)) hQ psg (hF0 psg i)
        (hpick i psg (by rw [hL.sz]; exact hi) (by rw [hC.sz]; exact hi)) d ni hd hn
      refine ⟨_, en, ⟨hd', hn', ?_, ?_⟩⟩
      · show AInv _ (F psg i _).predicted_label _ _ _
        rw [hFL]
        exact hL.step hi
      · show AInv _ (F psg i _).cluster_label _ _ _
        rw [hFC]
        exact hC.step hi)
    (Py.replicate ((k : Int) + 1) 0, Py.replicate ((k : Int) + 1) 0, psg0) ()
    ⟨by simp [Py.replicate, ek1], by simp [Py.replicate, ek1], AInv.init _ _ hq.sz_lab _,
      AInv.init _ _ hq.sz_clu _⟩
  exact ⟨st, e, hI⟩

/-! ### the two methods -/

/-- `KNNSupervisedOPF.predict`: for every trained subgraph, `best_k ≥ 0` and batch of queries the
translated code raises nothing, terminates, leaves the trained subgraph untouched and returns, for each
query, the assigned label of the model's chosen node (the query node's initial label when no slot is
valid, i.e. an empty training set or `k = 0`). -/
theorem knn_predict_refines (fo : Py.FOps) (QW : Int → Int → Option Int) (top eps : Int)
    (h999 : fo.sub (fo.ofInt 1000) (fo.ofInt 1) = fo.ofInt 999)
    (sg psg0 : QSG) (n k : Nat) (cost : Nat → Int) (lab clu : Nat → Nat)
    (hr : RelT sg n k cost lab clu) (ds : List (Nat → Int)) (hq : RelQ psg0 ds.length) (hW : QWAgree n QW ds) :
    ∃ preds, knn_predict QW fo top eps sg psg0 = some (sg, preds) ∧ preds.size = ds.length ∧
      ∀ (i : Nat) (hi : i < ds.length),
        preds[i]? = (match chosen fo top (fo.mul top (fo.ofInt (-1))) eps k n cost sg.constant sg.min_density sg.max_density ds[i] with
                     | some t => some (lab t : Int)
                     | none => psg0.predicted_label[i]?) := by
  obtain ⟨st, e, hI⟩ := outer_loop (knnPick sg top) (knnF lab) (fun _ => none) QW fo top eps
    (fo.mul top (fo.ofInt (-1))) h999 hr ds hW psg0 hq (fun _ _ _ => rfl) (fun _ _ _ => rfl)
    (fun _ _ => rfl)
    (fun i psg hi _ dens d ni buf hb hok t ht acc => knnPick_step hr top dens d ni buf hb hok i psg hi t ht acc)
  refine ⟨st.2.2.predicted_label, ?_, hI.labI.sz, ?_⟩
  · rw [knn_predict_eq, e]; rfl
  · intro i hi
    have h1 := hI.labI.ent i hi
    rw [if_pos hi] at h1
    simp only [resOf, getD_ds ds i hi] at h1
    rw [h1]
    cases chosen fo top (fo.mul top (fo.ofInt (-1))) eps k n cost sg.constant sg.min_density
      sg.max_density ds[i] <;> rfl

/-- `UnsupervisedOPF.predict`: as above, with the cluster identifier of the same chosen node; an
untrained subgraph raises. -/
theorem uns_predict_refines (fo : Py.FOps) (QW : Int → Int → Option Int) (top eps : Int)
    (h999 : fo.sub (fo.ofInt 1000) (fo.ofInt 1) = fo.ofInt 999)
    (sg psg0 : QSG) (n k : Nat) (cost : Nat → Int) (lab clu : Nat → Nat)
    (hr : RelT sg n k cost lab clu) (ht : sg.trained = true)
    (ds : List (Nat → Int)) (hq : RelQ psg0 ds.length) (hW : QWAgree n QW ds) :
    ∃ preds clusters, uns_predict QW fo top eps sg psg0 = some (sg, (preds, clusters)) ∧
      preds.size = ds.length ∧ clusters.size = ds.length ∧
      ∀ (i : Nat) (hi : i < ds.length),
        (match chosen fo top (-top) eps k n cost sg.constant sg.min_density sg.max_density ds[i] with
         | some t => preds[i]? = some (lab t : Int) ∧ clusters[i]? = some (clu t : Int)
         | none => preds[i]? = psg0.predicted_label[i]? ∧ clusters[i]? = psg0.cluster_label[i]?) := by
  obtain ⟨st, e, hI⟩ := outer_loop (unsPick sg top) (unsF lab clu)
    (fun o => o.map (fun t => ((clu t : Nat) : Int))) QW fo top eps
    (-top) h999 hr ds hW psg0 hq (fun _ _ _ => rfl) (fun _ _ _ => rfl)
    (fun _ _ => rfl)
    (fun i psg hi hi' dens d ni buf hb hok t ht acc =>
      unsPick_step hr top dens d ni buf hb hok i psg hi hi' t ht acc)
  refine ⟨st.2.2.predicted_label, st.2.2.cluster_label, ?_, hI.labI.sz, hI.cluI.sz, ?_⟩
  · rw [uns_predict_eq, e, ht]; rfl
  · intro i hi
    have h1 := hI.labI.ent i hi
    have h2 := hI.cluI.ent i hi
    rw [if_pos hi] at h1 h2
    simp only [resOf, getD_ds ds i hi] at h1 h2
    revert h1 h2
    cases chosen fo top (-top) eps k n cost sg.constant sg.min_density sg.max_density ds[i] with
    | none => intro h1 h2; exact ⟨h1, h2⟩
    | some t => intro h1 h2; exact ⟨h1, h2⟩

theorem uns_predict_untrained (fo : Py.FOps) (QW : Int → Int → Option Int) (top eps : Int) (sg psg0 : QSG)
    (ht : sg.trained = false) : uns_predict QW fo top eps sg psg0 = none := by
  rw [uns_predict_eq, ht]; rfl
end Opf.KnnPredRefine
