/-
C02, END TO END — theorems about the arrays that the STATEMENT-BY-STATEMENT TRANSLATION of
`SupervisedOPF._find_prototypes` (`Gen/SupImp.lean`, `Opf.Gen.SupImp.find_prototypes`) itself
returns, with hypotheses about the INPUTS only:

* `sg0 : SG`, `lab : Array Nat`, `hr : RelF sg0 (Forest.init lab)` — the subgraph handed to the
  method is a fresh one (every `pred` NIL, every `status` STANDARD) carrying the labels `lab`;
* `hW : WAgree lab.size W w` — the arc-weight oracle `W` of the translation returns `w a b` on the
  positions of the subgraph;
* `hg : (inPrim w top lab).Good` — at least one sample, `w` symmetric, `w < top = FLOAT_MAX`;
* `(inPrim w top lab).Distinct` — pairwise distinct weights, only where uniqueness is claimed.

No hypothesis mentions the executable model `primRun`, the relational semantics, or any
intermediate state.  Every theorem has the shape
`∃ sg', find_prototypes W top sg0 = some (sg', ()) ∧ <facts about sg'.pred / sg'.status / sizes>`:
the translated code raises nothing, its loops terminate, and the arrays it leaves satisfy the stated
property.  (`find_prototypes` is a function, so the `sg'` of the different theorems coincide.)

Proof: `c02_gen_find_prototypes` (`Props/C02Refine.lean`, translated code refines `primRun`) composed
with `c02_exec` (`Props/C02Exec.lean`, `primRun` on a fresh forest is a finished lawful run of the
relational Prim semantics) gives the master lemma `c02_gen_master`; the property theorems of
`Props/C02.lean`, `C02Weight.lean`, `C02WeightGraph.lean` are then transported along the readers of
`Lemmas/GenCompose.lean` (`predAt sg'.pred v` = the model's predecessor of `v`, `NIL = -1 ↦ none`).
`Node.cost`, about which `c02_exec` is silent, is handled by re-running the simulation of
`Lemmas/PrimExec.lean` with one more invariant (section `C02Gen`, `primRun_cost`).
-/
import OpfVerif.Lemmas.GenCompose
import OpfVerif.Props.C02Refine
import OpfVerif.Props.C02Exec
import OpfVerif.Props.C02Weight
import OpfVerif.Props.C02WeightGraph

namespace Opf.GenCompose
open Opf Opf.Gen Opf.Gen.SupImp Opf.SupRefine Opf.PrimInst

/-! ### helper lemmas -/

namespace C02Gen
open Opf.PrimExec

/-! #### `Node.cost`: an extra invariant of the executable model `primRun`

`c02_exec` does not speak about `Node.cost`; the simulation of `Lemmas/PrimExec.lean` is re-run here
with one more invariant (`CostInv`). -/

section cost

/-- lawful runs: the key of a node is the weight of the arc to its current predecessor, or `top`
when it has none. -/
theorem reach_cost (I : PrimInst) {a : PState} (hr : Reach I a) :
    ∀ x, (∀ u, a.pred x = some u → a.cost x = I.w u x) ∧ (a.pred x = none → a.cost x = I.top) := by
  induction hr with
  | init => intro x; exact ⟨fun u h => (by cases h), fun _ => rfl⟩
  | @step s0 _ _ hstep ih =>
    obtain ⟨p, _, _, _, rfl⟩ := hstep
    intro x
    by_cases hrel : I.relaxed s0 p x = true
    · rw [I.fire_pred_relaxed hrel, I.fire_cost_relaxed hrel]
      exact ⟨fun u h => (by cases h; rfl), fun h => (by cases h)⟩
    · rw [I.fire_pred_not hrel, I.fire_cost_not hrel]
      exact ih x

theorem primRelax_ncost (w : Nat → Nat → Int) (p : Nat) (s : PrimSt) (q : Nat) :
    (primRelax w p s q).f.ncost = s.f.ncost := by
  by_cases h : s.h.colorOf q ≠ BLACK ∧ p ≠ q ∧ w p q < s.h.costOf q
  · rw [primRelax_pos h]
  · rw [primRelax_neg h]

theorem fold_ncost (w : Nat → Nat → Int) (p : Nat) (l : List Nat) (s : PrimSt) :
    (l.foldl (primRelax w p) s).f.ncost = s.f.ncost := by
  induction l generalizing s with
  | nil => rfl
  | cons q l ih => rw [List.foldl_cons, ih, primRelax_ncost]

theorem primFlag_ncost (g : Forest) (p : Nat) : (primFlag g p).ncost = g.ncost := by
  cases h : g.predOf p with
  | none => rw [primFlag_none h]
  | some r =>
    by_cases hl : g.labelOf p ≠ g.labelOf r
    · rw [primFlag_some_ne h hl]
    · rw [primFlag_some_eq h hl]

/-- the recorded `Node.cost` of every removed node is its key. -/
def CostInv (I : PrimInst) (s : PrimSt) (a : PState) : Prop :=
  ∀ x, x < I.n → a.color x = BLACK → s.f.costOf x = a.cost x

theorem step_cost (I : PrimInst) (f : Forest) (hs : f.Sized) (hn : I.n ≤ f.n)
    (hlam : I.lam = f.labelOf) (s : PrimSt) (a : PState) (hA : I.Inv a) (hsim : Sim I f s a)
    (hci : CostInv I s a) (hne : 0 < s.h.cnt) :
    ∃ p s', primStep I.w I.n s = some s' ∧ I.pickOk a p = true ∧ Sim I f s' (I.fire a p) ∧
      CostInv I s' (I.fire a p) := by
  obtain ⟨x, hx2, hq, _, hinv1, hblack, hcol1, hcost1, _⟩ :=
    Heap.remove_spec s.h hsim.hinv hne
  have hrem : s.h.remove = (s.h.remove.1, some x) := Prod.ext rfl hx2
  have hxn : x < I.n := by rw [← hsim.hsize]; exact hq.1
  have hxg : a.color x = GRAY := by rw [← hsim.col x hxn]; exact hq.2
  obtain ⟨p, s', hstep, hpick, hsim'⟩ := step_sim I f hs hn hlam s a hA hsim hne
  have hdsz : s.f.pred.size = f.n := by rw [hsim.same.spred, hs.size_pred]
  have hcsz : s.f.ncost.size = f.n := by rw [hsim.same.sncost, hs.size_ncost]
  let f1 : Forest := { s.f with ncost := s.f.ncost.setIfInBounds x ((s.h.remove).1.costOf x) }
  have hpredg : ∀ q, (primFlag f1 x).predOf q = s.f.predOf q := fun q => primFlag_predOf f1 x q
  have hF0 : FoldInv I a x 0 { h := (s.h.remove).1, f := primFlag f1 x } := by
    refine ⟨hinv1, by rw [← hsim.hsize]; exact Heap.remove_size s.h,
      by rw [← hsim.hmin]; exact remove_isMax s.h, ?_, ?_, ?_, ?_, ?_⟩
    · intro q hqn
      rw [if_neg (Nat.not_lt_zero q)]
      show (s.h.remove).1.colorOf q = _
      by_cases hqx : q = x
      · rw [if_pos hqx, hqx]; exact hblack
      · rw [if_neg hqx, hcol1 q hqx]; exact hsim.col q hqn
    · intro q hqn
      rw [if_neg (Nat.not_lt_zero q)]
      show (s.h.remove).1.costOf q = _
      rw [hcost1 q]; exact hsim.cost q hqn
    · intro q hqn
      rw [if_neg (Nat.not_lt_zero q)]
      show (primFlag f1 x).predOf q = _
      rw [hpredg q]; exact hsim.pred q hqn
    · intro q hqn
      show (primFlag f1 x).predOf q = _
      rw [hpredg q]; exact hsim.predhi q hqn
    · show I.n ≤ (primFlag f1 x).pred.size
      rw [primFlag_pred]
      show I.n ≤ s.f.pred.size
      omega
  have hF := foldInv_fold I a x _ hF0 I.n (Nat.le_refl _)
  have hs' : s' = (List.range I.n).foldl (primRelax I.w x)
      { h := (s.h.remove).1, f := primFlag f1 x } := by
    rw [primStep_some hrem] at hstep
    exact (Option.some.inj hstep).symm
  -- the pick of `step_sim` is the removed node
  have hpick' := hpick
  unfold PrimInst.pickOk at hpick'
  simp only [Bool.and_eq_true, decide_eq_true_eq] at hpick'
  obtain ⟨⟨hpn, hpg⟩, _⟩ := hpick'
  have hpx : p = x := by
    apply Classical.byContradiction
    intro hne'
    have h1 : s'.h.colorOf p = BLACK := by rw [hsim'.col p hpn]; exact I.fire_color_self a p
    have h2 : s'.h.colorOf p = (I.fire a x).color p := by
      rw [hs', hF.col p hpn, if_pos hpn]
    rw [h2, I.fire_color_ne hne', hpg] at h1
    simp [GRAY, WHITE, BLACK] at h1
  subst hpx
  refine ⟨p, s', hstep, hpick, hsim', ?_⟩
  have hnc : s'.f.ncost = s.f.ncost.setIfInBounds p ((s.h.remove).1.costOf p) := by
    rw [hs', fold_ncost, primFlag_ncost]
  intro y hy hyb
  have hnrel : ¬ I.relaxed a p y = true := by
    rw [I.relaxed_iff]
    rintro ⟨_, hyp, hyc, _⟩
    rw [I.fire_color_ne hyp] at hyb
    split at hyb
    · simp [GRAY, BLACK] at hyb
    · exact hyc hyb
  rw [I.fire_cost_not hnrel]
  unfold Forest.costOf
  rw [hnc, Heap.getD_set]
  by_cases hyp : y = p
  · subst hyp
    rw [if_pos ⟨rfl, by omega⟩, hcost1 y]
    exact hsim.cost y hy
  · rw [if_neg (fun h => hyp h.1)]
    rw [I.fire_color_ne hyp] at hyb
    split at hyb
    · simp [GRAY, BLACK] at hyb
    · exact hci y hy hyb

theorem loop_cost (I : PrimInst) (f : Forest) (hg : I.Good) (hs : f.Sized) (hn : I.n ≤ f.n)
    (hlam : I.lam = f.labelOf) (fuel : Nat) :
    ∀ (s : PrimSt) (a : PState) (picks : List Nat),
      I.runPicks I.init picks = some a → Sim I f s a → CostInv I s a →
      I.n + 1 ≤ picks.length + fuel →
      ∃ picks' a', I.runPicks I.init picks' = some a' ∧ I.isFinal a' = true ∧
        Sim I f (primLoop I.w I.n fuel s) a' ∧ CostInv I (primLoop I.w I.n fuel s) a' := by
  induction fuel with
  | zero =>
    intro s a picks hrun _ _ hfuel
    exfalso
    have hA : I.Inv a := I.inv_of_reach hg (I.runPicks_reach I.init PrimInst.Reach.init picks a hrun)
    have hord := runPicks_order I picks _ a hrun
    have hlen := nodup_length_le a.order I.n hA.hnd hA.hlt
    rw [hord] at hlen
    simp only [PrimInst.init, List.nil_append] at hlen
    omega
  | succ fuel ih =>
    intro s a picks hrun hsim hci hfuel
    have hA : I.Inv a := I.inv_of_reach hg (I.runPicks_reach I.init PrimInst.Reach.init picks a hrun)
    by_cases hc : s.h.cnt = 0
    · rw [primLoop_none fuel (primStep_none hc)]
      have hemp : s.h.isEmpty = true := by unfold Heap.isEmpty; rw [hc]; rfl
      refine ⟨picks, a, hrun, ?_, hsim, hci⟩
      have hnq := (Heap.truthful s.h hsim.hinv).1.1 hemp
      unfold PrimInst.isFinal
      simp only [List.all_eq_true, List.mem_range, Bool.not_eq_true', decide_eq_false_iff_not]
      intro q hq hqg
      exact hnq q ⟨by rw [hsim.hsize]; exact hq, by rw [hsim.col q hq]; exact hqg⟩
    · obtain ⟨p, s', hstep, hpick, hsim', hci'⟩ :=
        step_cost I f hs hn hlam s a hA hsim hci (Nat.pos_of_ne_zero hc)
      rw [primLoop_some fuel hstep]
      exact ih s' (I.fire a p) (picks ++ [p]) (runPicks_snoc I picks _ a p hrun hpick) hsim' hci'
        (by rw [List.length_append, List.length_singleton]; omega)

/-- `primRun` on a fresh forest records in `Node.cost` of every node the weight of the arc to the
predecessor it records for that node (`top` for the root, which has none). -/
theorem primRun_cost (w : Nat → Nat → Int) (top : Int) (nLab : Nat) (f : Forest)
    (hs : f.Sized) (hn : nLab ≤ f.n)
    (hfresh : ∀ x, f.predOf x = none ∧ f.isProto x = false)
    (hg : (primInstOf w top nLab f).Good) (x : Nat) (hx : x < nLab) :
    (∀ u, (primRun w top nLab f).f.predOf x = some u → (primRun w top nLab f).f.costOf x = w u x) ∧
    ((primRun w top nLab f).f.predOf x = none → (primRun w top nLab f).f.costOf x = top) := by
  have h0 := init_sim (primInstOf w top nLab f) f hg hfresh
  have hc0 : CostInv (primInstOf w top nLab f)
      { h := ((Heap.init nLab false top).insert 0).1,
        f := { f with pred := f.pred.setIfInBounds 0 none } } (primInstOf w top nLab f).init := by
    intro y _ hyb
    simp only [PrimInst.init] at hyb
    split at hyb <;> simp [GRAY, WHITE, BLACK] at hyb
  obtain ⟨picks, a, hrun, hfin, hsim, hci⟩ :=
    loop_cost (primInstOf w top nLab f) f hg hs hn rfl (nLab + 1) _ _ [] rfl h0 hc0
      (by show nLab + 1 ≤ 0 + (nLab + 1); omega)
  have hreach := PrimInst.runPicks_reach _ _ PrimInst.Reach.init picks a hrun
  have hfinal := PrimInst.isFinal_final _ a hfin
  obtain ⟨_, hmem, _⟩ := c02_spanning (primInstOf w top nLab f) hg a hreach hfinal
  have hA := (primInstOf w top nLab f).inv_of_reach hg hreach
  have hblack : a.color x = BLACK := (hA.hcol x).1 ((hmem x).2 hx)
  have hp : (primRun w top nLab f).f.predOf x = a.pred x := hsim.pred x hx
  have hcx : (primRun w top nLab f).f.costOf x = a.cost x := hci x hx hblack
  rw [hp, hcx]
  exact reach_cost (primInstOf w top nLab f) hreach x

end cost

section helpers

/-- `treeWeight I par` only looks at `par v` for `v < I.n`. -/
theorem treeWeight_congr (I : PrimInst) {par par' : Nat → Option Nat}
    (h : ∀ v, v < I.n → par v = par' v) : I.treeWeight par = I.treeWeight par' := by
  unfold PrimInst.treeWeight
  congr 1
  apply List.filterMap_congr
  intro v hv
  rw [h v (List.mem_range.1 hv)]

theorem filterMap_eq_map_of {α β : Type} (f : α → Option β) (g : α → β) (l : List α)
    (h : ∀ a ∈ l, f a = some (g a)) : l.filterMap f = l.map g := by
  induction l with
  | nil => rfl
  | cons a l ih =>
    rw [List.filterMap_cons_some (h a (by simp)), List.map_cons,
      ih (fun b hb => h b (by simp [hb]))]

/-- `IsRootedTree n par` only looks at `par v` for `v < n`. -/
theorem isRootedTree_congr {n : Nat} {par par' : Nat → Option Nat} (hn : 0 < n)
    (h : ∀ v, v < n → par v = par' v) (ht : IsRootedTree n par) : IsRootedTree n par' := by
  obtain ⟨h0, hpar, rank, hrank⟩ := ht
  refine ⟨by rw [← h 0 hn]; exact h0, fun v hv0 hv => ?_, rank, fun v u hv hu => ?_⟩
  · rw [← h v hv]; exact hpar v hv0 hv
  · rw [← h v hv] at hu; exact hrank v u hv hu

/-- what the master lemma records about the returned subgraph `sg'`: a finished lawful run `s'` of
the relational Prim semantics on the INPUT instance whose predecessors and prototype flags are
those stored in `sg'`, plus the frame facts. -/
structure Out (w : Nat → Nat → Int) (top : Int) (lab : Array Nat) (sg' : SG) (s' : PState) :
    Prop where
  reach : (inPrim w top lab).Reach s'
  final : (inPrim w top lab).Final s'
  pred : ∀ x, x < lab.size → predAt sg'.pred x = s'.pred x
  status : ∀ x, x < lab.size → (sg'.status.getD x 0 = 1 ↔ s'.proto x = true)
  status01 : ∀ x, x < lab.size → sg'.status.getD x 0 = 0 ∨ sg'.status.getD x 0 = 1
  label : ∀ x, x < lab.size → sg'.label.getD x 0 = (lab.getD x 0 : Int)
  cost : ∀ x, x < lab.size →
    (∀ u, predAt sg'.pred x = some u → sg'.cost.getD x 0 = w u x) ∧
    (predAt sg'.pred x = none → sg'.cost.getD x 0 = top)
  n_nodes : sg'.n_nodes = (lab.size : Int)
  sz_pred : sg'.pred.size = lab.size
  sz_status : sg'.status.size = lab.size
  sz_cost : sg'.cost.size = lab.size
  sz_label : sg'.label.size = lab.size
  sz_plabel : sg'.predicted_label.size = lab.size
  sz_relevant : sg'.relevant.size = lab.size
  idx_nodes : sg'.idx_nodes = #[]

variable {w : Nat → Nat → Int} {top : Int} {lab : Array Nat} {sg' : SG} {s' : PState}

/-- parents stored in `sg'.pred` are below `n`. -/
theorem Out.par_lt (ho : Out w top lab sg' s') (hg : (inPrim w top lab).Good)
    {x p : Nat} (hx : x < lab.size) (hp : predAt sg'.pred x = some p) : p < lab.size := by
  obtain ⟨_, _, _, _, hp0, hpred⟩ := c02_spanning (inPrim w top lab) hg s' ho.reach ho.final
  rw [ho.pred x hx] at hp
  by_cases h0 : x = 0
  · subst h0; rw [hp0] at hp; cases hp
  · obtain ⟨p', hp', hlt, _⟩ := hpred x hx h0
    rw [hp] at hp'; cases hp'; exact hlt

theorem Out.ancA_lt (ho : Out w top lab sg' s') (hg : (inPrim w top lab).Good) {c u : Nat}
    (hu : u < lab.size) (h : AncA sg'.pred c u) : c < lab.size := by
  induction h with
  | refl => exact hu
  | step hp _ ih => exact ih (ho.par_lt hg hu hp)

/-- ancestor chains of the lawful run = chains read off the returned `pred` array. -/
theorem Out.anc_iff (ho : Out w top lab sg' s') (hg : (inPrim w top lab).Good) (c u : Nat)
    (hu : u < lab.size) : AncA sg'.pred c u ↔ PrimInst.Anc s' c u := by
  constructor
  · intro h
    induction h with
    | refl => exact PrimInst.Anc.refl
    | step hp _ ih =>
      have hlt := ho.par_lt hg hu hp
      rw [ho.pred _ hu] at hp
      exact PrimInst.Anc.step hp (ih hlt)
  · intro h
    induction h with
    | refl => exact AncA.refl
    | @step x p hp _ ih =>
      have hp' : predAt sg'.pred x = some p := by rw [ho.pred x hu]; exact hp
      exact AncA.step hp' (ih (ho.par_lt hg hu hp'))

/-- tree arcs of the lawful run = arcs read off the returned `pred` array. -/
theorem Out.treeArc_iff (ho : Out w top lab sg' s') {u v : Nat} (hu : u < lab.size)
    (hv : v < lab.size) :
    (predAt sg'.pred v = some u ∨ predAt sg'.pred u = some v) ↔ TreeArc s' u v := by
  unfold TreeArc
  rw [ho.pred v hv, ho.pred u hu]

end helpers
end C02Gen
open C02Gen

/-! ### the master lemma -/

/-- **Master lemma.**  On a fresh subgraph the translated `_find_prototypes` returns normally, and
the subgraph `sg'` it returns stores the predecessors and prototype flags of a finished lawful run
`s'` of the relational Prim semantics on the instance read off the inputs; sizes, labels and
`idx_nodes` are as on entry. -/
theorem c02_gen_master (W : Int → Int → Option Int) (w : Nat → Nat → Int) (top : Int)
    (sg0 : SG) (lab : Array Nat) (hr : RelF sg0 (Forest.init lab))
    (hW : WAgree lab.size W w) (hg : (inPrim w top lab).Good) :
    ∃ sg' s', find_prototypes W top sg0 = some (sg', ()) ∧ Out w top lab sg' s' := by
  obtain ⟨sg', hfp, hr0⟩ := c02_gen_find_prototypes W w top sg0 (Forest.init lab) hr
    (FitCompose.init_sized lab) hg.n_pos hW
  have hr' : RelF sg' (primRun w top lab.size (Forest.init lab)).f := hr0
  obtain ⟨picks, s', hrun, hfin, _, hlab, _, hl, _, hord, hn, _⟩ :=
    c02_exec w top lab.size (Forest.init lab) (FitCompose.init_sized lab) (Nat.le_refl _)
      (FitCompose.init_fresh lab) hg
  have hFn : (primRun w top lab.size (Forest.init lab)).f.n = lab.size := hn
  have hlt : ∀ x, x < lab.size → x < (primRun w top lab.size (Forest.init lab)).f.n := by
    intro x hx; rw [hFn]; exact hx
  refine ⟨sg', s', hfp, ?_⟩
  refine
    { reach := PrimInst.runPicks_reach _ _ PrimInst.Reach.init picks s' hrun
      final := PrimInst.isFinal_final _ s' hfin
      pred := fun x hx => by rw [rd_pred hr' (hlt x hx)]; exact (hlab x hx).1
      status := fun x hx => by rw [rd_status_iff hr' (hlt x hx), (hlab x hx).2]
      status01 := fun x hx => rd_status_01 hr' (hlt x hx)
      label := fun x hx => ?_
      cost := fun x hx => ?_
      n_nodes := by rw [hr'.n, hFn]
      sz_pred := hr'.sz_pred.trans hFn
      sz_status := hr'.sz_status.trans hFn
      sz_cost := hr'.sz_cost.trans hFn
      sz_label := hr'.sz_label.trans hFn
      sz_plabel := hr'.sz_plabel.trans hFn
      sz_relevant := hr'.sz_relevant.trans hFn
      idx_nodes := ?_ }
  · rw [rd_label hr' (hlt x hx)]
    unfold Forest.labelOf
    rw [hl]
    rfl
  · rw [rd_pred hr' (hlt x hx), rd_cost hr' (hlt x hx)]
    exact primRun_cost w top lab.size (Forest.init lab) (FitCompose.init_sized lab) (Nat.le_refl _)
      (FitCompose.init_fresh lab) hg x hx
  · rw [hr'.order, hord, FitCompose.init_order]
    exact Array.map_empty

/-! ### f. termination and frame -/

/-- `_find_prototypes` on a fresh subgraph returns normally (no exception, both loops terminate);
the arrays `pred`, `status`, `cost`, `label`, `predicted_label`, `relevant` keep the length
`n = lab.size`, `n_nodes` and the true labels are unchanged, `idx_nodes` stays empty, and every
`status` entry is `0` (STANDARD) or `1` (PROTOTYPE). -/
theorem c02_gen_frame (W : Int → Int → Option Int) (w : Nat → Nat → Int) (top : Int)
    (sg0 : SG) (lab : Array Nat) (hr : RelF sg0 (Forest.init lab))
    (hW : WAgree lab.size W w) (hg : (inPrim w top lab).Good) :
    ∃ sg', find_prototypes W top sg0 = some (sg', ()) ∧
      sg'.n_nodes = (lab.size : Int) ∧
      sg'.pred.size = lab.size ∧ sg'.status.size = lab.size ∧ sg'.cost.size = lab.size ∧
      sg'.label.size = lab.size ∧ sg'.predicted_label.size = lab.size ∧
      sg'.relevant.size = lab.size ∧ sg'.idx_nodes = #[] ∧
      (∀ v, v < lab.size → sg'.label.getD v 0 = (lab.getD v 0 : Int)) ∧
      (∀ v, v < lab.size → sg'.status.getD v 0 = 0 ∨ sg'.status.getD v 0 = 1) := by
  obtain ⟨sg', s', hfp, ho⟩ := c02_gen_master W w top sg0 lab hr hW hg
  exact ⟨sg', hfp, ho.n_nodes, ho.sz_pred, ho.sz_status, ho.sz_cost, ho.sz_label, ho.sz_plabel,
    ho.sz_relevant, ho.idx_nodes, ho.label, ho.status01⟩

/-- the `cost` field `_find_prototypes` leaves in every node is the weight of the arc from the
predecessor it leaves in `pred` (the key with which the node left the heap); the root, sample 0,
keeps `FLOAT_MAX`. -/
theorem c02_gen_cost (W : Int → Int → Option Int) (w : Nat → Nat → Int) (top : Int)
    (sg0 : SG) (lab : Array Nat) (hr : RelF sg0 (Forest.init lab))
    (hW : WAgree lab.size W w) (hg : (inPrim w top lab).Good) :
    ∃ sg', find_prototypes W top sg0 = some (sg', ()) ∧
      sg'.cost.getD 0 0 = top ∧
      ∀ v u, v < lab.size → predAt sg'.pred v = some u → sg'.cost.getD v 0 = w u v := by
  obtain ⟨sg', s', hfp, ho⟩ := c02_gen_master W w top sg0 lab hr hW hg
  obtain ⟨_, _, _, _, hp0, _⟩ := c02_spanning (inPrim w top lab) hg s' ho.reach ho.final
  refine ⟨sg', hfp, ?_, fun v u hv hp => (ho.cost v hv).1 u hp⟩
  exact (ho.cost 0 hg.n_pos).2 (by rw [ho.pred 0 hg.n_pos]; exact hp0)

/-- consequently the total weight of the tree stored in `pred` is the sum of the `cost` fields of the
samples `1..n-1`. -/
theorem c02_gen_weight_eq_cost_sum (W : Int → Int → Option Int) (w : Nat → Nat → Int) (top : Int)
    (sg0 : SG) (lab : Array Nat) (hr : RelF sg0 (Forest.init lab))
    (hW : WAgree lab.size W w) (hg : (inPrim w top lab).Good) :
    ∃ sg', find_prototypes W top sg0 = some (sg', ()) ∧
      (inPrim w top lab).treeWeight (predAt sg'.pred) =
        ((List.range (lab.size - 1)).map (fun k => sg'.cost.getD (k + 1) 0)).sum := by
  obtain ⟨sg', s', hfp, ho⟩ := c02_gen_master W w top sg0 lab hr hW hg
  obtain ⟨_, _, _, _, hp0, hpred⟩ := c02_spanning (inPrim w top lab) hg s' ho.reach ho.final
  refine ⟨sg', hfp, ?_⟩
  have h0 : predAt sg'.pred 0 = none := by rw [ho.pred 0 hg.n_pos]; exact hp0
  have hsome : ∀ k, k + 1 < lab.size →
      (predAt sg'.pred (k + 1)).map (fun u => w u (k + 1)) = some (sg'.cost.getD (k + 1) 0) := by
    intro k hk
    obtain ⟨p, hp, _, _⟩ := hpred (k + 1) hk (by omega)
    have hp' : predAt sg'.pred (k + 1) = some p := by rw [ho.pred _ hk]; exact hp
    rw [hp', (ho.cost _ hk).1 p hp']
    rfl
  obtain ⟨m, hm⟩ : ∃ m, lab.size = m + 1 := ⟨lab.size - 1, by have : 0 < lab.size := hg.n_pos; omega⟩
  show ((List.range lab.size).filterMap
    (fun v => (predAt sg'.pred v).map (fun u => w u v))).sum = _
  rw [hm] at hsome ⊢
  rw [List.range_succ_eq_map, List.filterMap_cons_none (by rw [h0]; rfl), List.filterMap_map,
    Nat.add_sub_cancel]
  congr 1
  exact filterMap_eq_map_of _ _ _ (fun k hk => hsome k (by have := List.mem_range.1 hk; omega))

/-! ### a. spanning tree -/

/-- the `pred` fields `_find_prototypes` leaves form a spanning tree of the samples rooted at
sample 0: `pred[0]` is NIL, every other sample has a predecessor below `n`, and some rank strictly
decreases along predecessor links (no cycle). -/
theorem c02_gen_spanning_tree (W : Int → Int → Option Int) (w : Nat → Nat → Int) (top : Int)
    (sg0 : SG) (lab : Array Nat) (hr : RelF sg0 (Forest.init lab))
    (hW : WAgree lab.size W w) (hg : (inPrim w top lab).Good) :
    ∃ sg', find_prototypes W top sg0 = some (sg', ()) ∧
      IsRootedTree lab.size (predAt sg'.pred) := by
  obtain ⟨sg', s', hfp, ho⟩ := c02_gen_master W w top sg0 lab hr hW hg
  refine ⟨sg', hfp, ?_⟩
  exact isRootedTree_congr hg.n_pos (fun v hv => (ho.pred v hv).symm)
    (c02_pred_isRootedTree (inPrim w top lab) hg s' ho.reach ho.final)

/-- the same in terms of an explicit removal order: there is a list `ord` enumerating the samples
`0..n-1` once, starting with 0, such that `pred[0]` is NIL and every other sample's stored
predecessor comes earlier in `ord`; moreover (CUT PROPERTY) the arc `(pred[v], v)` is a lightest
arc between the samples listed before `v` and the samples from `v` on. -/
theorem c02_gen_cut (W : Int → Int → Option Int) (w : Nat → Nat → Int) (top : Int)
    (sg0 : SG) (lab : Array Nat) (hr : RelF sg0 (Forest.init lab))
    (hW : WAgree lab.size W w) (hg : (inPrim w top lab).Good) :
    ∃ sg', ∃ ord : List Nat, find_prototypes W top sg0 = some (sg', ()) ∧
      ord.Nodup ∧ (∀ t, t ∈ ord ↔ t < lab.size) ∧ ord.length = lab.size ∧
      ord.head? = some 0 ∧ predAt sg'.pred 0 = none ∧
      (∀ t, t < lab.size → t ≠ 0 →
        ∃ p, predAt sg'.pred t = some p ∧ p < lab.size ∧ ord.idxOf p < ord.idxOf t) ∧
      (∀ u v, v < lab.size → predAt sg'.pred v = some u →
        ∀ a b, a < lab.size → b < lab.size → ord.idxOf a < ord.idxOf v →
          ord.idxOf v ≤ ord.idxOf b → w u v ≤ w a b) := by
  obtain ⟨sg', s', hfp, ho⟩ := c02_gen_master W w top sg0 lab hr hW hg
  obtain ⟨hnd, hmem, hlen, hhead, hp0, hpred⟩ :=
    c02_spanning (inPrim w top lab) hg s' ho.reach ho.final
  refine ⟨sg', s'.order, hfp, hnd, hmem, hlen, hhead, ?_, ?_, ?_⟩
  · rw [ho.pred 0 hg.n_pos]; exact hp0
  · intro t ht ht0
    obtain ⟨p, hp, hpn, hlt⟩ := hpred t ht ht0
    exact ⟨p, by rw [ho.pred t ht]; exact hp, hpn, hlt⟩
  · intro u v hv hp a b ha hb hab hvb
    rw [ho.pred v hv] at hp
    exact c02_cut (inPrim w top lab) hg s' ho.reach ho.final u v hv hp a b ha hb hab hvb

/-! ### b. minimum total weight -/

/-- **Minimum total weight, parent-function form.**  The tree `_find_prototypes` leaves in `pred` is
a spanning tree rooted at sample 0, and its total weight is no larger than that of ANY spanning tree
of the complete graph on the samples given as a parent function rooted at sample 0. -/
theorem c02_gen_min_weight (W : Int → Int → Option Int) (w : Nat → Nat → Int) (top : Int)
    (sg0 : SG) (lab : Array Nat) (hr : RelF sg0 (Forest.init lab))
    (hW : WAgree lab.size W w) (hg : (inPrim w top lab).Good) :
    ∃ sg', find_prototypes W top sg0 = some (sg', ()) ∧
      IsRootedTree lab.size (predAt sg'.pred) ∧
      ∀ par', IsRootedTree lab.size par' →
        (inPrim w top lab).treeWeight (predAt sg'.pred) ≤ (inPrim w top lab).treeWeight par' := by
  obtain ⟨sg', s', hfp, ho⟩ := c02_gen_master W w top sg0 lab hr hW hg
  have hcongr : (inPrim w top lab).treeWeight (predAt sg'.pred) = (inPrim w top lab).primWeight s' :=
    treeWeight_congr (inPrim w top lab) (fun v hv => ho.pred v hv)
  refine ⟨sg', hfp, ?_, fun par' hpar' => ?_⟩
  · exact isRootedTree_congr hg.n_pos (fun v hv => (ho.pred v hv).symm)
      (c02_pred_isRootedTree (inPrim w top lab) hg s' ho.reach ho.final)
  · rw [hcongr]
    exact c02_min_weight (inPrim w top lab) hg s' ho.reach ho.final par' hpar'

/-- **Minimum total weight, arc-list form.**  The total weight of the tree `_find_prototypes` leaves
in `pred` is no larger than the total weight of ANY `n-1` arcs between samples that connect every
sample to sample 0. -/
theorem c02_gen_min_weight_arcs (W : Int → Int → Option Int) (w : Nat → Nat → Int) (top : Int)
    (sg0 : SG) (lab : Array Nat) (hr : RelF sg0 (Forest.init lab))
    (hW : WAgree lab.size W w) (hg : (inPrim w top lab).Good) :
    ∃ sg', find_prototypes W top sg0 = some (sg', ()) ∧
      ∀ E, IsSpanningArcs lab.size E →
        (inPrim w top lab).treeWeight (predAt sg'.pred) ≤ (inPrim w top lab).arcsWeight E := by
  obtain ⟨sg', s', hfp, ho⟩ := c02_gen_master W w top sg0 lab hr hW hg
  have hcongr : (inPrim w top lab).treeWeight (predAt sg'.pred) = (inPrim w top lab).primWeight s' :=
    treeWeight_congr (inPrim w top lab) (fun v hv => ho.pred v hv)
  refine ⟨sg', hfp, fun E hE => ?_⟩
  rw [hcongr]
  exact c02_min_weight_arcs (inPrim w top lab) hg s' ho.reach ho.final E hE

/-- **Minimum total weight, Mathlib form.**  The total weight of the tree `_find_prototypes` leaves
in `pred` is no larger than the total weight of ANY spanning tree of the complete graph on the
samples, "spanning tree" being Mathlib's `SimpleGraph.IsTree` on the vertex type `Fin n`. -/
theorem c02_gen_min_weight_graph (W : Int → Int → Option Int) (w : Nat → Nat → Int) (top : Int)
    (sg0 : SG) (lab : Array Nat) (hr : RelF sg0 (Forest.init lab))
    (hW : WAgree lab.size W w) (hg : (inPrim w top lab).Good) :
    ∃ sg', find_prototypes W top sg0 = some (sg', ()) ∧
      ∀ T : SimpleGraph (Fin (inPrim w top lab).n), T.IsTree →
        (inPrim w top lab).treeWeight (predAt sg'.pred) ≤ (inPrim w top lab).graphWeight T := by
  obtain ⟨sg', s', hfp, ho⟩ := c02_gen_master W w top sg0 lab hr hW hg
  have hcongr : (inPrim w top lab).treeWeight (predAt sg'.pred) = (inPrim w top lab).primWeight s' :=
    treeWeight_congr (inPrim w top lab) (fun v hv => ho.pred v hv)
  refine ⟨sg', hfp, fun T hT => ?_⟩
  rw [hcongr]
  exact c02_min_weight_graph (inPrim w top lab) hg s' ho.reach ho.final T hT

/-! ### c. cycle property -/

/-- **Cycle property** on the returned `pred` array: if the stored arc `(pred[c], c)` lies on the
tree path between samples `u` and `v` (following `pred` from `u` reaches `c`, following it from `v`
does not) then it is no heavier than the arc `{u, v}` — no non-tree arc is lighter than a tree arc on
the cycle it closes. -/
theorem c02_gen_cycle (W : Int → Int → Option Int) (w : Nat → Nat → Int) (top : Int)
    (sg0 : SG) (lab : Array Nat) (hr : RelF sg0 (Forest.init lab))
    (hW : WAgree lab.size W w) (hg : (inPrim w top lab).Good) :
    ∃ sg', find_prototypes W top sg0 = some (sg', ()) ∧
      ∀ c pc u v, u < lab.size → v < lab.size → predAt sg'.pred c = some pc →
        AncA sg'.pred c u → ¬ AncA sg'.pred c v → w pc c ≤ w u v := by
  obtain ⟨sg', s', hfp, ho⟩ := c02_gen_master W w top sg0 lab hr hW hg
  refine ⟨sg', hfp, fun c pc u v hu hv hpc hcu hcv => ?_⟩
  have hc : c < lab.size := ho.ancA_lt hg hu hcu
  rw [ho.pred c hc] at hpc
  exact c02_cycle (inPrim w top lab) hg s' ho.reach ho.final c pc u v hu hv hpc
    ((ho.anc_iff hg c u hu).1 hcu) (fun h => hcv ((ho.anc_iff hg c v hv).2 h))

/-! ### d. prototype flags -/

/-- a sample's `status` is PROTOTYPE (`1`) exactly when it is an endpoint of an arc of the stored
tree (`pred[v] = u` or `pred[u] = v`) joining samples of different classes; every other `status`
is STANDARD (`0`). -/
theorem c02_gen_prototypes (W : Int → Int → Option Int) (w : Nat → Nat → Int) (top : Int)
    (sg0 : SG) (lab : Array Nat) (hr : RelF sg0 (Forest.init lab))
    (hW : WAgree lab.size W w) (hg : (inPrim w top lab).Good) :
    ∃ sg', find_prototypes W top sg0 = some (sg', ()) ∧
      ∀ v, v < lab.size →
        (sg'.status.getD v 0 = 1 ↔
          ∃ u, u < lab.size ∧ (predAt sg'.pred v = some u ∨ predAt sg'.pred u = some v) ∧
            lab.getD u 0 ≠ lab.getD v 0) ∧
        (sg'.status.getD v 0 = 0 ∨ sg'.status.getD v 0 = 1) := by
  obtain ⟨sg', s', hfp, ho⟩ := c02_gen_master W w top sg0 lab hr hW hg
  refine ⟨sg', hfp, fun v hv => ⟨?_, ho.status01 v hv⟩⟩
  rw [ho.status v hv, c02_prototypes (inPrim w top lab) hg s' ho.reach ho.final v hv]
  constructor
  · rintro ⟨u, hu, harc, hne⟩
    exact ⟨u, hu, (ho.treeArc_iff hu hv).2 harc, hne⟩
  · rintro ⟨u, hu, harc, hne⟩
    exact ⟨u, hu, (ho.treeArc_iff hu hv).1 harc, hne⟩

/-- with at least two classes among the samples, every class present gets a prototype: for every
sample `a` some sample of the same class has `status = PROTOTYPE`. -/
theorem c02_gen_every_class (W : Int → Int → Option Int) (w : Nat → Nat → Int) (top : Int)
    (sg0 : SG) (lab : Array Nat) (hr : RelF sg0 (Forest.init lab))
    (hW : WAgree lab.size W w) (hg : (inPrim w top lab).Good)
    (h2 : ∃ a b, a < lab.size ∧ b < lab.size ∧ lab.getD a 0 ≠ lab.getD b 0) :
    ∃ sg', find_prototypes W top sg0 = some (sg', ()) ∧
      ∀ a, a < lab.size →
        ∃ p, p < lab.size ∧ sg'.status.getD p 0 = 1 ∧ lab.getD p 0 = lab.getD a 0 := by
  obtain ⟨sg', s', hfp, ho⟩ := c02_gen_master W w top sg0 lab hr hW hg
  refine ⟨sg', hfp, fun a ha => ?_⟩
  obtain ⟨p, hp, hpp, hl⟩ := c02_every_class (inPrim w top lab) hg s' ho.reach ho.final h2 a ha
  exact ⟨p, hp, (ho.status p hp).2 hpp, hl⟩

/-! ### e. pairwise-distinct weights: THE minimum spanning tree -/

/-- with pairwise-distinct weights the stored tree is THE minimum spanning tree, characterised
without reference to any run or sample order: `{u, v}` is a stored arc iff `u ≠ v` are not already
connected by strictly lighter arcs (`MstArc`, Kruskal's rule). -/
theorem c02_gen_tree_eq_mst (W : Int → Int → Option Int) (w : Nat → Nat → Int) (top : Int)
    (sg0 : SG) (lab : Array Nat) (hr : RelF sg0 (Forest.init lab))
    (hW : WAgree lab.size W w) (hg : (inPrim w top lab).Good) (hd : (inPrim w top lab).Distinct) :
    ∃ sg', find_prototypes W top sg0 = some (sg', ()) ∧
      ∀ u v, u < lab.size → v < lab.size →
        ((predAt sg'.pred v = some u ∨ predAt sg'.pred u = some v) ↔
          (inPrim w top lab).MstArc u v) := by
  obtain ⟨sg', s', hfp, ho⟩ := c02_gen_master W w top sg0 lab hr hW hg
  refine ⟨sg', hfp, fun u v hu hv => ?_⟩
  rw [ho.treeArc_iff hu hv]
  exact c02_tree_eq_mst (inPrim w top lab) hg hd s' ho.reach ho.final u v hu hv

/-- hence, with pairwise-distinct weights, the `status` flags are determined by the inputs alone:
sample `v` is flagged PROTOTYPE iff some arc `{u, v}` of the (unique) minimum spanning tree joins it
to a sample of another class. -/
theorem c02_gen_prototypes_mst (W : Int → Int → Option Int) (w : Nat → Nat → Int) (top : Int)
    (sg0 : SG) (lab : Array Nat) (hr : RelF sg0 (Forest.init lab))
    (hW : WAgree lab.size W w) (hg : (inPrim w top lab).Good) (hd : (inPrim w top lab).Distinct) :
    ∃ sg', find_prototypes W top sg0 = some (sg', ()) ∧
      ∀ v, v < lab.size →
        (sg'.status.getD v 0 = 1 ↔
          ∃ u, u < lab.size ∧ (inPrim w top lab).MstArc u v ∧ lab.getD u 0 ≠ lab.getD v 0) := by
  obtain ⟨sg', s', hfp, ho⟩ := c02_gen_master W w top sg0 lab hr hW hg
  refine ⟨sg', hfp, fun v hv => ?_⟩
  rw [ho.status v hv, c02_prototypes (inPrim w top lab) hg s' ho.reach ho.final v hv]
  constructor
  · rintro ⟨u, hu, harc, hne⟩
    exact ⟨u, hu,
      (c02_tree_eq_mst (inPrim w top lab) hg hd s' ho.reach ho.final u v hu hv).1 harc, hne⟩
  · rintro ⟨u, hu, harc, hne⟩
    exact ⟨u, hu,
      (c02_tree_eq_mst (inPrim w top lab) hg hd s' ho.reach ho.final u v hu hv).2 harc, hne⟩

/-- with pairwise-distinct weights the result does not depend on which oracle / fresh subgraph is
used: two calls on the same labels and weights return the same tree arcs and the same flags (even
if the two oracles `W₁`, `W₂` differ outside the subgraph). -/
theorem c02_gen_unique (W₁ W₂ : Int → Int → Option Int) (w : Nat → Nat → Int) (top : Int)
    (sg₁ sg₂ : SG) (lab : Array Nat) (hr₁ : RelF sg₁ (Forest.init lab))
    (hr₂ : RelF sg₂ (Forest.init lab)) (hW₁ : WAgree lab.size W₁ w) (hW₂ : WAgree lab.size W₂ w)
    (hg : (inPrim w top lab).Good) (hd : (inPrim w top lab).Distinct) :
    ∃ sg₁' sg₂', find_prototypes W₁ top sg₁ = some (sg₁', ()) ∧
      find_prototypes W₂ top sg₂ = some (sg₂', ()) ∧
      (∀ u v, u < lab.size → v < lab.size →
        ((predAt sg₁'.pred v = some u ∨ predAt sg₁'.pred u = some v) ↔
         (predAt sg₂'.pred v = some u ∨ predAt sg₂'.pred u = some v))) ∧
      (∀ v, v < lab.size → sg₁'.status.getD v 0 = sg₂'.status.getD v 0) := by
  obtain ⟨sg₁', s₁, hfp₁, ho₁⟩ := c02_gen_master W₁ w top sg₁ lab hr₁ hW₁ hg
  obtain ⟨sg₂', s₂, hfp₂, ho₂⟩ := c02_gen_master W₂ w top sg₂ lab hr₂ hW₂ hg
  obtain ⟨harcs, hprot⟩ := c02_unique (inPrim w top lab) hg hd s₁ s₂ ho₁.reach ho₁.final
    ho₂.reach ho₂.final
  refine ⟨sg₁', sg₂', hfp₁, hfp₂, fun u v hu hv => ?_, fun v hv => ?_⟩
  · rw [ho₁.treeArc_iff hu hv, ho₂.treeArc_iff hu hv]
    exact harcs u v hu hv
  · have h1 := ho₁.status v hv
    have h2 := ho₂.status v hv
    rw [hprot v hv] at h1
    rcases ho₁.status01 v hv with a | a <;> rcases ho₂.status01 v hv with b | b
    · rw [a, b]
    · have := h1.2 (h2.1 b); omega
    · have := h2.2 (h1.1 a); omega
    · rw [a, b]

/-! ### non-vacuity -/

/-- 4 samples, classes `{0, 1}` and `{2, 3}`, pairwise distinct symmetric weights. -/
def c02GenW (a b : Nat) : Int :=
  (([[0, 1, 4, 6], [1, 0, 3, 5], [4, 3, 0, 2], [6, 5, 2, 0]] : List (List Int)).getD a []).getD b 0

/-- a fresh 4-node subgraph as `_find_prototypes` receives it. -/
def c02GenSg : SG :=
  { n_nodes := 4, trained := false, idx_nodes := #[], pred := #[-1, -1, -1, -1],
    relevant := #[0, 0, 0, 0], cost := #[0, 0, 0, 0], label := #[0, 0, 1, 1],
    status := #[0, 0, 0, 0], predicted_label := #[0, 0, 0, 0] }

/-- the hypotheses of the theorems above are satisfiable: an explicit fresh subgraph, a weight oracle
agreeing with `c02GenW`, a `Good` and `Distinct` instance with two classes. -/
example :
    RelF c02GenSg (Forest.init #[0, 0, 1, 1]) ∧
    WAgree (#[0, 0, 1, 1] : Array Nat).size
      (fun a b => some (c02GenW a.toNat b.toNat)) c02GenW ∧
    (inPrim c02GenW 10 #[0, 0, 1, 1]).Good ∧ (inPrim c02GenW 10 #[0, 0, 1, 1]).Distinct ∧
    (∃ a b, a < (#[0, 0, 1, 1] : Array Nat).size ∧ b < (#[0, 0, 1, 1] : Array Nat).size ∧
      (#[0, 0, 1, 1] : Array Nat).getD a 0 ≠ (#[0, 0, 1, 1] : Array Nat).getD b 0) := by
  have hcases : ∀ x, x < (Forest.init #[0, 0, 1, 1]).n → x = 0 ∨ x = 1 ∨ x = 2 ∨ x = 3 := by
    intro x hx
    have : x < 4 := hx
    omega
  refine ⟨?_, ?_, ?_, ?_, ⟨0, 2, by decide, by decide, by decide⟩⟩
  · refine
      { n := rfl, sz_pred := rfl, sz_status := rfl, sz_cost := rfl, sz_plabel := rfl,
        sz_label := rfl, sz_relevant := rfl, fsz_relevant := by decide,
        pred := ?_, status := ?_, cost := ?_, plabel := ?_, label := ?_, relevant := ?_,
        order := by rw [FitCompose.init_order]; exact Array.map_empty.symm }
    all_goals
      intro x hx
      rcases hcases x hx with rfl | rfl | rfl | rfl <;> decide
  · intro a b _ _
    show some (c02GenW (a : Int).toNat (b : Int).toNat) = some (c02GenW a b)
    rw [Int.toNat_natCast, Int.toNat_natCast]
  · refine ⟨by decide, ?_, ?_⟩
    · have : ∀ p q : Fin 4, c02GenW p.1 q.1 = c02GenW q.1 p.1 := by decide
      exact fun p q hp hq => this ⟨p, hp⟩ ⟨q, hq⟩
    · have : ∀ p q : Fin 4, c02GenW p.1 q.1 < 10 := by decide
      exact fun p q hp hq => this ⟨p, hp⟩ ⟨q, hq⟩
  · have : ∀ a b c d : Fin 4, (a.1 = b.1 ∨ c.1 = d.1 ∨
        c02GenW a.1 b.1 ≠ c02GenW c.1 d.1 ∨ (a.1 = c.1 ∧ b.1 = d.1) ∨ (a.1 = d.1 ∧ b.1 = c.1)) := by
      decide
    intro a b c d ha hb hc hd hab hcd he
    rcases this ⟨a, ha⟩ ⟨b, hb⟩ ⟨c, hc⟩ ⟨d, hd⟩ with h | h | h | h
    · exact absurd h hab
    · exact absurd h hcd
    · exact absurd he h
    · exact h

end Opf.GenCompose
