/-
C13 / C12 — refinement of two small translated methods:
`UnsupervisedOPF.propagate_labels` (`Gen/ClusImp.lean`) = `propagateLabels` of `Props/C13.lean`
(every sample takes the TRUE label of the root of its tree, a root its own), and
`KNNSubgraph.eliminate_maxima_height` (`Gen/PdfImp.lean`) = the polymorphic `elimG` of
`Props/C12Pdf.lean` with the UNINTERPRETED float subtraction.
Property theorems only; helper lemmas live in `Lemmas/SmallRefine.lean`.
-/
import OpfVerif.Lemmas.SmallRefine
namespace Opf.SmallRefine
open Opf Opf.Gen

theorem c13_gen_propagate_labels (sg : ClusImp.KSG) (c : Clu) (unsup : Bool)
    (hr : ClusRefine.RelK unsup sg c) (hroot : ∀ i, i < c.n → c.rootOf i < c.n) :
    ∃ sg', ClusImp.propagate_labels sg = some (sg', ()) ∧
      sg'.predicted_label = (propagateLabels c).map (fun (x : Nat) => (x : Int)) ∧
      sg' = { sg with predicted_label := sg'.predicted_label } :=
  propagate_labels_refines sg c unsup hr hroot

theorem c12_gen_eliminate_maxima_height (fo : Py.FOps) (sg : PdfImp.PSG) (n : Nat) (height : Int)
    (hn : sg.n_nodes = (n : Int)) (hd : sg.density.size = n) (hc : sg.cost.size = n) :
    ∃ sg', PdfImp.eliminate_maxima_height fo sg height = some (sg', ()) ∧
      sg'.cost = (Array.range n).map (fun i =>
        (elimG (α := FSym fo) ⟨0⟩ ⟨height⟩ ⟨sg.density.getD i 0⟩ ⟨sg.cost.getD i 0⟩).val) ∧
      sg' = { sg with cost := sg'.cost } :=
  eliminate_maxima_height_refines fo sg n height hn hd hc

end Opf.SmallRefine
