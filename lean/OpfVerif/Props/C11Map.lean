/-
C11 (metric re-scaling) — "replacing the metric by a strictly increasing transform of it leaves
prototypes, assigned labels and all predictions unchanged".

The executable models (`Opf.fitRun` = `primRun` then `competeRun` on the heap model L0, and
`predictOne`/`predictBatch`) are equivariant under every strictly increasing `φ : Int → Int` with
`φ 0 = 0`: run on the weights `φ (w p q)` and the sentinel `φ top`, they go through the very same
heap operations (same removals, same tie-breaks, same sifts) and end in the same state except
that every recorded cost `c` is `φ c`.  `Forest.mapCost φ f` is `f` with `ncost` mapped by `φ`;
all its other fields are those of `f` by definition.

`φ 0 = 0` is what the models need: `compInit` writes the literal cost `0` for the prototypes,
`Forest.init` starts with all node costs `0`, and out-of-range reads default to `0`.
-/
import OpfVerif.Lemmas.Equivariance
namespace Opf

variable {φ : Int → Int}

/-! ### fitting -/

/-- Prim stage (`_find_prototypes`): same final heap and forest up to `φ` on the costs. -/
theorem c11_map_prim (hφ : ∀ a b, a < b → φ a < φ b) (h0 : φ 0 = 0)
    (w : Nat → Nat → Int) (top : Int) (nLab : Nat) (lab : Array Nat) :
    (primRun (fun p q => φ (w p q)) (φ top) nLab (Forest.init lab)).f
        = (primRun w top nLab (Forest.init lab)).f.mapCost φ ∧
    (primRun (fun p q => φ (w p q)) (φ top) nLab (Forest.init lab)).h
        = (primRun w top nLab (Forest.init lab)).h.mapCost φ := by
  have h := primRun_map hφ h0 w top nLab (Forest.init lab)
  rw [Forest.mapCost_init h0] at h
  rw [h]
  exact ⟨rfl, rfl⟩

/-- `fit` on `φ ∘ w` with sentinel `φ top`: the forest of `fit` on `w`, costs mapped by `φ`. -/
theorem c11_map_fit (hφ : ∀ a b, a < b → φ a < φ b) (h0 : φ 0 = 0)
    (w : Nat → Nat → Int) (top : Int) (semi : Bool) (nLab : Nat) (lab : Array Nat) :
    (fitRun (fun p q => φ (w p q)) (φ top) semi nLab lab).f
      = (fitRun w top semi nLab lab).f.mapCost φ := by
  rw [fitRun_map hφ h0]; rfl

/-- the final heap too (colours, positions, slots, count are equal; costs mapped). -/
theorem c11_map_fit_heap (hφ : ∀ a b, a < b → φ a < φ b) (h0 : φ 0 = 0)
    (w : Nat → Nat → Int) (top : Int) (semi : Bool) (nLab : Nat) (lab : Array Nat) :
    (fitRun (fun p q => φ (w p q)) (φ top) semi nLab lab).h
      = (fitRun w top semi nLab lab).h.mapCost φ := by
  rw [fitRun_map hφ h0]; rfl

/-- same prototypes. -/
theorem c11_map_prototypes (hφ : ∀ a b, a < b → φ a < φ b) (h0 : φ 0 = 0)
    (w : Nat → Nat → Int) (top : Int) (semi : Bool) (nLab : Nat) (lab : Array Nat) :
    (fitRun (fun p q => φ (w p q)) (φ top) semi nLab lab).f.proto
      = (fitRun w top semi nLab lab).f.proto := by
  rw [c11_map_fit hφ h0]; rfl

/-- same predecessors (the same optimum-path forest). -/
theorem c11_map_pred (hφ : ∀ a b, a < b → φ a < φ b) (h0 : φ 0 = 0)
    (w : Nat → Nat → Int) (top : Int) (semi : Bool) (nLab : Nat) (lab : Array Nat) :
    (fitRun (fun p q => φ (w p q)) (φ top) semi nLab lab).f.pred
      = (fitRun w top semi nLab lab).f.pred := by
  rw [c11_map_fit hφ h0]; rfl

/-- same assigned labels (`predicted_label`) and same `label` (rewritten by the semi-supervised
model). -/
theorem c11_map_labels (hφ : ∀ a b, a < b → φ a < φ b) (h0 : φ 0 = 0)
    (w : Nat → Nat → Int) (top : Int) (semi : Bool) (nLab : Nat) (lab : Array Nat) :
    (fitRun (fun p q => φ (w p q)) (φ top) semi nLab lab).f.plabel
        = (fitRun w top semi nLab lab).f.plabel ∧
    (fitRun (fun p q => φ (w p q)) (φ top) semi nLab lab).f.label
        = (fitRun w top semi nLab lab).f.label := by
  rw [c11_map_fit hφ h0]; exact ⟨rfl, rfl⟩

/-- same conquest order (`idx_nodes`), tie-breaking included. -/
theorem c11_map_order (hφ : ∀ a b, a < b → φ a < φ b) (h0 : φ 0 = 0)
    (w : Nat → Nat → Int) (top : Int) (semi : Bool) (nLab : Nat) (lab : Array Nat) :
    (fitRun (fun p q => φ (w p q)) (φ top) semi nLab lab).f.order
      = (fitRun w top semi nLab lab).f.order := by
  rw [c11_map_fit hφ h0]; rfl

/-- the only difference: the recorded node costs are mapped by `φ`. -/
theorem c11_map_costs (hφ : ∀ a b, a < b → φ a < φ b) (h0 : φ 0 = 0)
    (w : Nat → Nat → Int) (top : Int) (semi : Bool) (nLab : Nat) (lab : Array Nat) :
    (fitRun (fun p q => φ (w p q)) (φ top) semi nLab lab).f.ncost
      = (fitRun w top semi nLab lab).f.ncost.map φ := by
  rw [c11_map_fit hφ h0]; rfl

/-! ### prediction -/

/-- one query: on the mapped forest with mapped distances the scan makes the same decisions;
the result is the same record with `minCost` mapped. -/
theorem c11_map_predict (hφ : ∀ a b, a < b → φ a < φ b) (h0 : φ 0 = 0)
    (f : Forest) (d : Nat → Int) :
    predictOne (f.mapCost φ) (fun t => φ (d t)) = (predictOne f d).map (PredAcc.mapCost φ) :=
  predictOne_map hφ h0 f d

/-- field by field: same conqueror, label and early-exit flag; minimum cost mapped. -/
theorem c11_map_predict_fields (hφ : ∀ a b, a < b → φ a < φ b) (h0 : φ 0 = 0)
    (f : Forest) (d : Nat → Int) :
    (predictOne (f.mapCost φ) (fun t => φ (d t))).map (fun r => (r.conq, r.label, r.stop))
        = (predictOne f d).map (fun r => (r.conq, r.label, r.stop)) ∧
    (predictOne (f.mapCost φ) (fun t => φ (d t))).map (fun r => r.minCost)
        = (predictOne f d).map (fun r => φ r.minCost) := by
  rw [c11_map_predict hφ h0]
  cases predictOne f d <;> exact ⟨rfl, rfl⟩

/-- a batch: same predicted labels, same relevance marks, and the resulting forest is the
mapped one. -/
theorem c11_map_predict_batch (hφ : ∀ a b, a < b → φ a < φ b) (h0 : φ 0 = 0)
    (f : Forest) (ds : List (Nat → Int)) :
    (predictBatch (f.mapCost φ) (ds.map (fun d t => φ (d t)))).2 = (predictBatch f ds).2 ∧
    (predictBatch (f.mapCost φ) (ds.map (fun d t => φ (d t)))).1.relevant
        = (predictBatch f ds).1.relevant ∧
    (predictBatch (f.mapCost φ) (ds.map (fun d t => φ (d t)))).1
        = (predictBatch f ds).1.mapCost φ := by
  rw [predictBatch_map hφ h0]
  exact ⟨rfl, rfl, rfl⟩

/-- fit + predict: the model fitted on `φ ∘ w` predicts on the queries `φ ∘ d` exactly the labels
(and marks exactly the relevant nodes) that the model fitted on `w` predicts on the queries `d`. -/
theorem c11_map_fit_predict (hφ : ∀ a b, a < b → φ a < φ b) (h0 : φ 0 = 0)
    (w : Nat → Nat → Int) (top : Int) (semi : Bool) (nLab : Nat) (lab : Array Nat)
    (ds : List (Nat → Int)) :
    (predictBatch (fitRun (fun p q => φ (w p q)) (φ top) semi nLab lab).f
        (ds.map (fun d t => φ (d t)))).2
      = (predictBatch (fitRun w top semi nLab lab).f ds).2 ∧
    (predictBatch (fitRun (fun p q => φ (w p q)) (φ top) semi nLab lab).f
        (ds.map (fun d t => φ (d t)))).1.relevant
      = (predictBatch (fitRun w top semi nLab lab).f ds).1.relevant := by
  rw [c11_map_fit hφ h0]
  have h := c11_map_predict_batch hφ h0 (fitRun w top semi nLab lab).f ds
  exact ⟨h.1, h.2.1⟩

/-- the same with the queries written `φ ∘ d`. -/
theorem c11_map_fit_predict_comp (hφ : ∀ a b, a < b → φ a < φ b) (h0 : φ 0 = 0)
    (w : Nat → Nat → Int) (top : Int) (semi : Bool) (nLab : Nat) (lab : Array Nat)
    (ds : List (Nat → Int)) :
    (predictBatch (fitRun (fun p q => φ (w p q)) (φ top) semi nLab lab).f (ds.map (φ ∘ ·))).2
      = (predictBatch (fitRun w top semi nLab lab).f ds).2 :=
  (c11_map_fit_predict hφ h0 w top semi nLab lab ds).1

/-! ### the sentinel kept fixed (what the real code does: `FLOAT_MAX` is not transformed) -/

/-- the sentinel's value is immaterial once it exceeds every weight: two such sentinels give
forests equal in everything but the costs above the weight bound `M`. -/
theorem c11_top_indep (w : Nat → Nat → Int) {M T1 T2 : Int} (hM : 0 ≤ M)
    (hw : ∀ p q, w p q ≤ M) (h1 : M < T1) (h2 : M < T2) (semi : Bool) (nLab : Nat)
    (lab : Array Nat) :
    Forest.AgreeBelow M (fitRun w T1 semi nLab lab).f (fitRun w T2 semi nLab lab).f :=
  fitRun_top_indep w hM hw h1 h2 semi nLab lab

/-- transform of the metric only, same sentinel `top` on both sides, provided `top` exceeds every
weight before and after the transform (`w ≤ M < top`, `φ M < top`): same prototypes,
predecessors, labels and conquest order; every recorded cost not above `M` is mapped by `φ`;
same predictions and relevance marks on queries whose distances are at most `M`. -/
theorem c11_map_fit_fixed_top (hφ : ∀ a b, a < b → φ a < φ b) (h0 : φ 0 = 0)
    (w : Nat → Nat → Int) (top M : Int) (hM : 0 ≤ M) (hw : ∀ p q, w p q ≤ M)
    (ht : M < top) (ht' : φ M < top) (semi : Bool) (nLab : Nat) (lab : Array Nat) :
    (fitRun (fun p q => φ (w p q)) top semi nLab lab).f.proto
        = (fitRun w top semi nLab lab).f.proto ∧
    (fitRun (fun p q => φ (w p q)) top semi nLab lab).f.pred
        = (fitRun w top semi nLab lab).f.pred ∧
    (fitRun (fun p q => φ (w p q)) top semi nLab lab).f.plabel
        = (fitRun w top semi nLab lab).f.plabel ∧
    (fitRun (fun p q => φ (w p q)) top semi nLab lab).f.label
        = (fitRun w top semi nLab lab).f.label ∧
    (fitRun (fun p q => φ (w p q)) top semi nLab lab).f.order
        = (fitRun w top semi nLab lab).f.order ∧
    (∀ x, (fitRun w top semi nLab lab).f.costOf x ≤ M →
      (fitRun (fun p q => φ (w p q)) top semi nLab lab).f.costOf x
        = φ ((fitRun w top semi nLab lab).f.costOf x)) ∧
    (∀ ds : List (Nat → Int), (∀ d ∈ ds, ∀ t, d t ≤ M) →
      (predictBatch (fitRun (fun p q => φ (w p q)) top semi nLab lab).f
          (ds.map (fun d t => φ (d t)))).2
        = (predictBatch (fitRun w top semi nLab lab).f ds).2 ∧
      (predictBatch (fitRun (fun p q => φ (w p q)) top semi nLab lab).f
          (ds.map (fun d t => φ (d t)))).1.relevant
        = (predictBatch (fitRun w top semi nLab lab).f ds).1.relevant) := by
  have hφ' : StrictMonoInt φ := hφ
  have hM' : 0 ≤ φ M := by rw [← h0]; exact (hφ'.le_iff 0 M).2 hM
  have hw' : ∀ p q, φ (w p q) ≤ φ M := fun p q => (hφ'.le_iff _ _).2 (hw p q)
  obtain ⟨_, a2, a3, a4, a5, a6, _, a8, a9⟩ :=
    fitRun_top_indep (fun p q => φ (w p q)) hM' hw' ht' (hφ M top ht) semi nLab lab
  have hB := c11_map_fit hφ h0 w top semi nLab lab
  rw [hB] at a2 a3 a4 a5 a6 a8 a9
  refine ⟨a3, a2, a4, a5, a6, ?_, ?_⟩
  · intro x hx
    have hc := Forest.mapCost_costOf h0 (fitRun w top semi nLab lab).f x
    rw [a8 x (Or.inr (by rw [hc]; exact (hφ'.le_iff _ _).2 hx)), hc]
  · intro ds hds
    have hds' : ∀ d ∈ ds.map (fun d t => φ (d t)), ∀ t, d t ≤ φ M := by
      intro d hd t
      obtain ⟨d0, hd0, rfl⟩ := List.mem_map.1 hd
      exact (hφ'.le_iff _ _).2 (hds d0 hd0 t)
    have h1 := a9 _ hds'
    have h2 := c11_map_predict_batch hφ h0 (fitRun w top semi nLab lab).f ds
    exact ⟨h1.1.trans h2.1, h1.2.trans h2.2.1⟩

/-! ### non-vacuity: a 4-node instance, `φ x = 2x`, `φ x = x³`, and a kinked map -/

-- the instance does something: two prototypes, a non-trivial order, non-zero costs
example : (fitRun exW 1000 false 4 exLab).f.proto = #[false, true, true, false] := by
  decide +kernel
example : (fitRun exW 1000 false 4 exLab).f.order = #[1, 2, 3, 0] := by decide +kernel
example : (fitRun exW 1000 false 4 exLab).f.ncost = #[3, 0, 0, 2] := by decide +kernel
example : (predictBatch (fitRun exW 1000 false 4 exLab).f [exD]).2 = [some 2] := by
  decide +kernel

-- the theorem instantiated, and checked independently by evaluation
example : (fitRun (fun p q => 2 * exW p q) 2000 false 4 exLab).f
    = (fitRun exW 1000 false 4 exLab).f.mapCost (fun x => 2 * x) :=
  c11_map_fit (φ := fun x => 2 * x) strictMono_double rfl exW 1000 false 4 exLab
example : (fitRun (fun p q => 2 * exW p q) 2000 false 4 exLab).f.ncost = #[6, 0, 0, 4] := by
  decide +kernel
example : (fitRun (fun p q => exW p q ^ 3) (1000 ^ 3) false 4 exLab).f
    = (fitRun exW 1000 false 4 exLab).f.mapCost (fun x => x ^ 3) :=
  c11_map_fit (φ := fun x => x ^ 3) strictMono_cube rfl exW 1000 false 4 exLab
example : (fitRun (fun p q => exW p q ^ 3) (1000 ^ 3) false 4 exLab).f.ncost
    = #[27, 0, 0, 8] := by decide +kernel
example : (predictBatch (fitRun (fun p q => exW p q ^ 3) (1000 ^ 3) true 4 exLab).f
      ([exD].map (fun d t => d t ^ 3))).2
    = (predictBatch (fitRun exW 1000 true 4 exLab).f [exD]).2 :=
  (c11_map_fit_predict (φ := fun x => x ^ 3) strictMono_cube rfl exW 1000 true 4 exLab [exD]).1
example : (fitRun (fun p q => if exW p q < 0 then exW p q else 3 * exW p q)
      (if (1000 : Int) < 0 then 1000 else 3 * 1000) false 4 exLab).f.order
    = (fitRun exW 1000 false 4 exLab).f.order :=
  c11_map_order (φ := fun x => if x < 0 then x else 3 * x) strictMono_kink rfl exW 1000 false 4
    exLab

-- sentinel kept at 1000 while the weights are cubed (all weights ≤ 9, 9³ = 729 < 1000)
example : (fitRun (fun p q => exW p q ^ 3) 1000 false 4 exLab).f.proto
    = (fitRun exW 1000 false 4 exLab).f.proto :=
  (c11_map_fit_fixed_top (φ := fun x => x ^ 3) strictMono_cube rfl exW 1000 9 (by decide)
    exW_le (by decide) (by decide) false 4 exLab).1

end Opf
