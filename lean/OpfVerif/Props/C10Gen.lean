/-
C10 (pre-computed = on-the-fly) — END TO END for the translated code: the translations of `SupervisedOPF.fit` and
`SupervisedOPF.predict` take the arc weight as an oracle `W a b` of the two node positions (the two-branch lookup
`pre_distances[idx_a][idx_b]` / `distance_fn(features_a, features_b)` names the same two nodes in both branches,
`c10_sites_wellformed`). Whatever the oracle is — a table lookup or a function evaluation — the trained forest and the
predictions depend on it ONLY through the values it returns on the training positions / (training, query) pairs: two
oracles returning the same numbers give the same prototypes, predecessors, costs, labels, conquest order, predictions and
relevance marks.

STATEMENTS ARE FIXED (DESIGN §2.1b); helper lemmas live in Lemmas/C10GenLemmas.lean.
-/
import OpfVerif.Props.C03Gen
import OpfVerif.Lemmas.C10GenLemmas
namespace Opf.C10Gen
open Opf Opf.Gen Opf.Gen.SupImp Opf.SupRefine Opf.FitCompose Opf.GenCompose

/-- **C10 on the translated source.** `W1`/`WQ1` and `W2`/`WQ2` are two ways of obtaining the same distances (`w` between
training samples, `ds` from the training samples to the queries). -/
theorem c10_gen_same_model (W1 W2 WQ1 WQ2 : Int → Int → Option Int) (w : Nat → Nat → Int) (top : Int)
    (sg0 psg0 : SG) (lab : Array Nat) (ds : List (Nat → Int))
    (hr : RelF sg0 (Forest.init lab)) (H : FitHyp w top lab.size lab)
    (hW1 : WAgree lab.size W1 w) (hW2 : WAgree lab.size W2 w)
    (hq : QuerySG psg0 ds.length) (hWQ1 : WQAgree lab.size WQ1 ds) (hWQ2 : WQAgree lab.size WQ2 ds) :
    ∃ sg1 sg1' p1 sg2 sg2' p2,
      fit W1 top sg0 = some (sg1, ()) ∧ predict WQ1 sg1 psg0 = some (sg1', p1) ∧
      fit W2 top sg0 = some (sg2, ()) ∧ predict WQ2 sg2 psg0 = some (sg2', p2) ∧
      sg2.status = sg1.status ∧ sg2.pred = sg1.pred ∧ sg2.cost = sg1.cost ∧
      sg2.predicted_label = sg1.predicted_label ∧ sg2.label = sg1.label ∧ sg2.idx_nodes = sg1.idx_nodes ∧
      p2 = p1 ∧ sg2'.relevant = sg1'.relevant := by
  obtain ⟨sg1, sg1', p1, e1, e1', r1, r1', hp1⟩ :=
    c03_gen_master W1 WQ1 w top sg0 lab psg0 ds hr hW1 H hq hWQ1
  obtain ⟨sg2, sg2', p2, e2, e2', r2, r2', hp2⟩ :=
    c03_gen_master W2 WQ2 w top sg0 lab psg0 ds hr hW2 H hq hWQ2
  exact ⟨sg1, sg1', p1, sg2, sg2', p2, e1, e1', e2, e2',
    C10GenLemmas.status_eq r1 r2, C10GenLemmas.pred_eq r1 r2, C10GenLemmas.cost_eq r1 r2,
    C10GenLemmas.plabel_eq r1 r2, C10GenLemmas.label_eq r1 r2, C10GenLemmas.order_eq r1 r2,
    by rw [hp2, hp1], C10GenLemmas.relevant_eq r1' r2'⟩

/-! ### non-vacuity: the demo of `Props/C01Gen.lean` / `Props/C03Gen.lean`, with a second pair of oracles that look the
same numbers up in a table (`Array`) instead of computing them. -/

def tableW : Int → Int → Option Int :=
  fun a b => ((#[#[0, 1, 5], #[1, 0, 4], #[5, 4, 0]] : Array (Array Int))[a.toNat]?).bind (·[b.toNat]?)

example : ∃ sg1 sg1' p1 sg2 sg2' p2,
    fit demoW 100 (initSG #[1, 1, 2]) = some (sg1, ()) ∧ predict demoWQ sg1 (querySG demoQ.length) = some (sg1', p1) ∧
    fit tableW 100 (initSG #[1, 1, 2]) = some (sg2, ()) ∧ predict demoWQ sg2 (querySG demoQ.length) = some (sg2', p2) ∧
    sg2.status = sg1.status ∧ sg2.pred = sg1.pred ∧ sg2.cost = sg1.cost ∧
    sg2.predicted_label = sg1.predicted_label ∧ sg2.label = sg1.label ∧ sg2.idx_nodes = sg1.idx_nodes ∧
    p2 = p1 ∧ sg2'.relevant = sg1'.relevant :=
  c10_gen_same_model demoW tableW demoWQ demoWQ c15_demo_w 100 _ _ #[1, 1, 2] demoQ
    c01_gen_demo_hyps.1 c01_gen_demo_hyps.2.2 c01_gen_demo_hyps.2.1
    (by
      intro a b ha hb
      have ha' : a = 0 ∨ a = 1 ∨ a = 2 := by simp at ha; omega
      have hb' : b = 0 ∨ b = 1 ∨ b = 2 := by simp at hb; omega
      rcases ha' with rfl | rfl | rfl <;> rcases hb' with rfl | rfl | rfl <;> decide)
    (c03_gen_query_hyps 3 demoQ).1 (c03_gen_query_hyps 3 demoQ).2 (c03_gen_query_hyps 3 demoQ).2

end Opf.C10Gen
