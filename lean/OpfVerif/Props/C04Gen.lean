/-
C04 (zero resubstitution error) — END TO END for the translated code: on tie-free training data (`TieFree`: symmetric,
positive, pairwise distinct weights below the sentinel, at least two classes) the translation of `SupervisedOPF.fit`
(`Gen/FitImp.lean`) terminates without raising and assigns EVERY training sample its own true label, and the translation
of `SupervisedOPF.predict` (`Gen/PredImp.lean`) applied to the training rows themselves (query `t` is at distance 0 from
training node `t` and at the training distance from the others) returns the training labels exactly.

Composition of `c03_gen_master` (refinement of fit ∘ predict) with `c04_exec` (Props/C04.lean).
STATEMENTS ARE FIXED (DESIGN §2.1b); helper lemmas live in Lemmas/C04GenLemmas.lean.
-/
import OpfVerif.Props.C03Gen
import OpfVerif.Props.C04
import OpfVerif.Lemmas.C04GenLemmas
namespace Opf.C04Gen
open Opf Opf.Gen Opf.Gen.SupImp Opf.SupRefine Opf.FitCompose Opf.GenCompose

/-- the training rows as queries: query `t` sees training node `s` at `w s t`, itself at 0. -/
def trainQueries (w : Nat → Nat → Int) (n : Nat) : List (Nat → Int) :=
  (List.range n).map (fun t s => if s = t then 0 else w s t)

/-- tie-free data satisfy the input hypotheses of the fit theorems. -/
theorem fitHyp_of_tieFree (w : Nat → Nat → Int) (top : Int) (lab : Array Nat) (H : TieFree w top lab) :
    FitHyp w top lab.size lab := by
  exact C04GenLemmas.fitHyp_of_tieFree w top lab H

/-- **C04, training clause, on the translated source.** -/
theorem c04_gen_train_labels (W : Int → Int → Option Int) (w : Nat → Nat → Int) (top : Int) (sg0 : SG)
    (lab : Array Nat) (hr : RelF sg0 (Forest.init lab)) (hW : WAgree lab.size W w) (H : TieFree w top lab) :
    ∃ sg1, fit W top sg0 = some (sg1, ()) ∧ sg1.trained = true ∧
      sg1.predicted_label = lab.map (fun (x : Nat) => (x : Int)) ∧ sg1.label = lab.map (fun (x : Nat) => (x : Int)) := by
  have HF := fitHyp_of_tieFree w top lab H
  obtain ⟨sg1, he, ht, r⟩ := c01_gen_master W w top sg0 lab hr hW HF
  have hn : (fitRun w top false lab.size lab).f.n = lab.size := fitRun_n HF false
  refine ⟨sg1, he, ht, ?_, ?_⟩
  · apply C04GenLemmas.eq_map_cast _ _ (by rw [r.sz_plabel, hn])
    intro x hx
    rw [r.plabel x (by rw [hn]; exact hx), (c04_exec w top lab H x hx).1]
  · apply C04GenLemmas.eq_map_cast _ _ (by rw [r.sz_label, hn])
    intro x hx
    rw [r.label x (by rw [hn]; exact hx)]
    unfold Forest.labelOf
    rw [C04GenLemmas.fitRun_label w top lab HF]
    simp [hx]

/-- **C04, prediction clause, on the translated source.** -/
theorem c04_gen_predict_training (W WQ : Int → Int → Option Int) (w : Nat → Nat → Int) (top : Int) (sg0 psg0 : SG)
    (lab : Array Nat) (hr : RelF sg0 (Forest.init lab)) (hW : WAgree lab.size W w) (H : TieFree w top lab)
    (hq : QuerySG psg0 lab.size) (hWQ : WQAgree lab.size WQ (trainQueries w lab.size)) :
    ∃ sg1 sg2 preds, fit W top sg0 = some (sg1, ()) ∧ predict WQ sg1 psg0 = some (sg2, preds) ∧
      preds = lab.map (fun (x : Nat) => (x : Int)) := by
  have HF := fitHyp_of_tieFree w top lab H
  have hlen : (trainQueries w lab.size).length = lab.size := by simp [trainQueries]
  obtain ⟨sg1, sg2, preds, he, hp, _, _, hpreds⟩ :=
    c03_gen_master W WQ w top sg0 lab psg0 (trainQueries w lab.size) hr hW HF
      (by rw [hlen]; exact hq) hWQ
  refine ⟨sg1, sg2, preds, he, hp, ?_⟩
  rw [hpreds]
  exact C04GenLemmas.labelsInt_train _ w lab (fun t ht => (c04_exec w top lab H t ht).2)

/-! ### non-vacuity: the demo of `Props/C01Gen.lean` (three samples on a line at 0, 1, 5, classes 1, 1, 2; the three
pairwise distances 1, 5, 4 are distinct) is tie-free, so both theorems fire on it. -/

theorem demo_tieFree : TieFree c15_demo_w 100 #[1, 1, 2] := by
  have h3 : ∀ p, p < (#[1, 1, 2] : Array Nat).size → p = 0 ∨ p = 1 ∨ p = 2 := by intro p hp; simp at hp; omega
  refine ⟨?_, ?_, ?_, ?_, ?_, ⟨0, 2, by decide, by decide, by decide⟩⟩
  · intro p q hp hq
    rcases h3 p hp with rfl | rfl | rfl <;> rcases h3 q hq with rfl | rfl | rfl <;> decide
  · intro p q hp hq
    rcases h3 p hp with rfl | rfl | rfl <;> rcases h3 q hq with rfl | rfl | rfl <;> decide
  · intro p q hp hq hne
    rcases h3 p hp with rfl | rfl | rfl <;> rcases h3 q hq with rfl | rfl | rfl <;> first | exact absurd rfl hne | decide
  · intro p hp
    rcases h3 p hp with rfl | rfl | rfl <;> decide
  · intro a b c d ha hb hc hd hab hcd
    rcases h3 a ha with rfl | rfl | rfl <;> rcases h3 b hb with rfl | rfl | rfl <;>
    rcases h3 c hc with rfl | rfl | rfl <;> rcases h3 d hd with rfl | rfl | rfl <;>
    first | exact absurd rfl hab | exact absurd rfl hcd | decide

example : ∃ sg1, fit demoW 100 (initSG #[1, 1, 2]) = some (sg1, ()) ∧ sg1.trained = true ∧
    sg1.predicted_label = (#[1, 1, 2] : Array Nat).map (fun (x : Nat) => (x : Int)) ∧
    sg1.label = (#[1, 1, 2] : Array Nat).map (fun (x : Nat) => (x : Int)) :=
  c04_gen_train_labels demoW c15_demo_w 100 _ #[1, 1, 2] c01_gen_demo_hyps.1 c01_gen_demo_hyps.2.1 demo_tieFree

end Opf.C04Gen
