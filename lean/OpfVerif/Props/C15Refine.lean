/-
C15 — refinement: the translation of `SemiSupervisedOPF.fit` (`Gen/SemiImp.lean`) refines the
model `fitRun … (semi := true)` about which `Props/C15.lean` speaks: prototypes are chosen on the
labeled samples only (the translated `_find_prototypes` runs before the unlabeled nodes are
appended), then labeled and unlabeled samples compete in one forest; the translated code raises
nothing and terminates for EVERY labeled set, number of unlabeled samples and weight function.
Property theorems only; helper lemmas live in the `Lemmas/` file imported below.
-/
import OpfVerif.Lemmas.SemiRefine
namespace Opf.SupRefine
open Opf Opf.Gen Opf.Gen.SupImp

theorem c15_gen_fit (W : Int → Int → Option Int) (w : Nat → Nat → Int) (top : Int)
    (sg0 : SG) (labL : Array Nat) (nU : Nat) (hr : RelF sg0 (Forest.init labL))
    (hn : 0 < labL.size) (hW : WAgree (labL.size + nU) W w) :
    ∃ sg', SemiImp.fit W top sg0 (nU : Int) = some (sg', ()) ∧ sg'.trained = true ∧
      RelF sg' (fitRun w top true labL.size (labL ++ Array.replicate nU 0)).f :=
  semi_fit_refines W w top sg0 labL nU hr hn hW

/-- no labeled sample: `Heap(0)` raises in `_find_prototypes`. -/
theorem c15_gen_fit_empty (W : Int → Int → Option Int) (top : Int) (sg0 : SG) (nU : Int)
    (h0 : sg0.n_nodes = 0) : SemiImp.fit W top sg0 nU = none :=
  semi_fit_empty W top sg0 nU h0

end Opf.SupRefine
