/-
C16 — refinement: the STATEMENT-BY-STATEMENT TRANSLATION of `UnsupervisedOPF._normalized_cut`
(`Gen/CutImp.lean`, regenerated from the source on every run) computes exactly the polymorphic
model `normalizedCutG` about which `Props/C16Cut.lean` speaks, instantiated with the
UNINTERPRETED float operations `fo` — i.e. for every meaning of `+`, `/` and int→float conversion,
IEEE-754 binary64 in particular: the criterion the best-k search minimises is
Σ_clusters external / (internal + external) over the arcs visited (first `n_plateaus + k` entries of
each list, arcs of distance 0 skipped), reads in range, nothing raised, subgraph untouched.
Property theorems only; helper lemmas live in `Lemmas/CutRefine.lean`.
-/
import OpfVerif.Lemmas.CutRefine
namespace Opf.CutRefine
open Opf Opf.Gen Opf.Gen.CutImp

theorem c16_gen_normalized_cut (fo : Py.FOps) (W : Int → Int → Option Int) (w : Nat → Nat → Int)
    (sg : CSG) (n nclusters k : Nat) (adj : Array (List Nat)) (nplat : Array Nat) (clu : Nat → Nat)
    (hr : RelC sg n nclusters adj nplat clu)
    (hW : ∀ a b : Nat, a < n → b < n → W (a : Int) (b : Int) = some (w a b))
    (hlong : ∀ i, i < n → nplat.getD i 0 + k ≤ (adj.getD i []).length)
    (hadj : ∀ i, i < n → ∀ j, j ∈ adj.getD i [] → j < n)
    (hclu : ∀ i, i < n → clu i < nclusters) :
    normalized_cut W fo sg (k : Int) = some (sg,
      (normalizedCutG (α := FSym fo) ⟨0⟩ (FSym.ofInt fo 1) (fun a b => ⟨w a b⟩) adj nplat k clu n nclusters).val) :=
  normalized_cut_refines fo W w sg n nclusters k adj nplat clu hr hW hlong hadj hclu

end Opf.CutRefine
