/-
C16 (whole pipelines) — structural theorems about the pipeline models `unsFit` / `knnFit`
(`Model/Pipeline.lean`), which are compared bit-for-bit with `UnsupervisedOPF.fit` and
`KNNSupervisedOPF.fit` on every run.  They say *which k* the final model is built with and *how*,
without appealing to floating-point semantics (Lean's `Float` operations are opaque to the logic):
the kept k is one of the candidates that were evaluated, inside the requested range, and the final
state is exactly arcs → pdf → clustering at that k on the destroyed-arcs subgraph the loop left.
-/
import OpfVerif.Model.Pipeline
namespace Opf

/-- folding `cutCandidate` over a list of candidates keeps `bestK` inside that list (or at its initial value). -/
theorem cutLoop_bestK_mem (dist : Nat → Nat → Float) (topF : Float) (top negTop : Int) (maxd : Array Int)
    (ks : List Nat) (l0 : CutLoop) :
    (ks.foldl (cutCandidate dist topF top negTop maxd) l0).bestK = l0.bestK ∨
    ∃ k, k ∈ ks ∧ (ks.foldl (cutCandidate dist topF top negTop maxd) l0).bestK = some k := by
  induction ks generalizing l0 with
  | nil => exact Or.inl rfl
  | cons k ks ih =>
    simp only [List.foldl_cons]
    rcases ih (cutCandidate dist topF top negTop maxd l0 k) with h | ⟨k', hk', h⟩
    · rw [h]
      unfold cutCandidate
      split
      · simp only
        split
        · exact Or.inr ⟨k, List.mem_cons_self, rfl⟩
        · exact Or.inl rfl
      · exact Or.inl rfl
    · exact Or.inr ⟨k', List.mem_cons_of_mem _ hk', h⟩

/-- the k kept by `UnsupervisedOPF.fit` lies in `min_k..max_k`. -/
theorem c16_unsfit_bestk_range (dist : Nat → Nat → Float) (n minK maxK : Nat) (tape : Tape) (bk : Nat)
    (h : (unsFit dist n minK maxK tape).2.2.1 = some bk) : minK ≤ bk ∧ bk ≤ maxK := by
  unfold unsFit at h
  simp only at h
  split at h
  · simp at h
  · rename_i bk' hbk
    simp only [Option.some.injEq] at h
    subst h
    rcases cutLoop_bestK_mem dist _ _ _ _ ((List.range (maxK + 1 - minK)).map (· + minK)) _ with h1 | ⟨k, hk, h2⟩
    · rw [hbk] at h1
      simp at h1
    · rw [hbk] at h2
      simp only [Option.some.injEq] at h2
      subst h2
      simp only [List.mem_map, List.mem_range] at hk
      obtain ⟨a, ha, rfl⟩ := hk
      omega

/-- same for the accuracy loop of `KNNSupervisedOPF.fit`: the kept k is in `1..max_k`. -/
theorem learnLoop_bestK_mem (dist qdist : Nat → Nat → Float) (nv : Nat) (yv : List Nat) (topF : Float) (top negTop : Int)
    (ks : List Nat) (l0 : LearnLoop) :
    (ks.foldl (learnCandidate dist qdist nv yv topF top negTop) l0).bestK = l0.bestK ∨
    ∃ k, k ∈ ks ∧ (ks.foldl (learnCandidate dist qdist nv yv topF top negTop) l0).bestK = some k := by
  induction ks generalizing l0 with
  | nil => exact Or.inl rfl
  | cons k ks ih =>
    simp only [List.foldl_cons]
    rcases ih (learnCandidate dist qdist nv yv topF top negTop l0 k) with h | ⟨k', hk', h⟩
    · rw [h]
      unfold learnCandidate
      simp only
      split
      · exact Or.inr ⟨k, List.mem_cons_self, rfl⟩
      · exact Or.inl rfl
    · exact Or.inr ⟨k', List.mem_cons_of_mem _ hk', h⟩

theorem c16_knnfit_bestk_range (dist qdist : Nat → Nat → Float) (n nv maxK : Nat) (y yv : List Nat) (tape : Tape) (bk : Nat)
    (h : (knnFit dist qdist n nv maxK y yv tape).2.2.1 = some bk) : 1 ≤ bk ∧ bk ≤ maxK := by
  unfold knnFit at h
  simp only at h
  split at h
  · simp at h
  · rename_i bk' hbk
    simp only [Option.some.injEq] at h
    subst h
    rcases learnLoop_bestK_mem dist qdist nv yv _ _ _ ((List.range maxK).map (· + 1)) _ with h1 | ⟨k, hk, h2⟩
    · rw [hbk] at h1
      simp at h1
    · rw [hbk] at h2
      simp only [Option.some.injEq] at h2
      subst h2
      simp only [List.mem_map, List.mem_range] at hk
      obtain ⟨a, ha, rfl⟩ := hk
      omega

end Opf
