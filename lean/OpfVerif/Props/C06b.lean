/-
C06, second half — closed forms and theorems for `kulczynski` … `vicis_wave_hedges`.
See the header of `Props/C06.lean` for what is proved and what is not modelled.
-/
import OpfVerif.Props.C06
namespace Opf
open scoped BigOperators

variable {n : Nat}

/-! ### closed forms, second half -/

noncomputable def cf_kulczynski (x y : Fin n → ℝ) : ℝ :=
  (∑ i, |x i - y i|) / (∑ i, min (x i) (y i))

noncomputable def cf_kullback_leibler (x y : Fin n → ℝ) : ℝ :=
  ∑ i, x i * Real.log (x i / y i)

/-- `MAX_ARC_WEIGHT · ln (1 + ‖x − y‖₂)` with `MAX_ARC_WEIGHT = 100000`. -/
noncomputable def cf_log_euclidean (x y : Fin n → ℝ) : ℝ :=
  100000 * Real.log (1 + Real.sqrt (∑ i, (x i - y i) ^ 2))

/-- `MAX_ARC_WEIGHT · ln (1 + ‖x − y‖₂²)` with `MAX_ARC_WEIGHT = 100000`. -/
noncomputable def cf_log_squared_euclidean (x y : Fin n → ℝ) : ℝ :=
  100000 * Real.log (1 + ∑ i, (x i - y i) ^ 2)

noncomputable def cf_lorentzian (x y : Fin n → ℝ) : ℝ :=
  ∑ i, Real.log (1 + |x i - y i|)

noncomputable def cf_manhattan (x y : Fin n → ℝ) : ℝ :=
  ∑ i, |x i - y i|

noncomputable def cf_matusita (x y : Fin n → ℝ) : ℝ :=
  Real.sqrt (∑ i, (Real.sqrt (x i) - Real.sqrt (y i)) ^ 2)

noncomputable def cf_max_symmetric (x y : Fin n → ℝ) : ℝ :=
  max (∑ i, (x i - y i) ^ 2 / x i) (∑ i, (x i - y i) ^ 2 / y i)

/-- the mean is over the coordinates that are not zero in both vectors (`x i + y i ≠ 0`). -/
noncomputable def cf_mean_censored_euclidean (x y : Fin n → ℝ) : ℝ :=
  Real.sqrt ((∑ i, (x i - y i) ^ 2)
    / ((Finset.univ.filter (fun i => x i + y i ≠ 0)).card : ℝ))

noncomputable def cf_min_symmetric (x y : Fin n → ℝ) : ℝ :=
  min (∑ i, (x i - y i) ^ 2 / x i) (∑ i, (x i - y i) ^ 2 / y i)

noncomputable def cf_neyman (x y : Fin n → ℝ) : ℝ :=
  ∑ i, (x i - y i) ^ 2 / x i

noncomputable def cf_non_intersection (x y : Fin n → ℝ) : ℝ :=
  1 / 2 * ∑ i, |x i - y i|

noncomputable def cf_pearson (x y : Fin n → ℝ) : ℝ :=
  ∑ i, (x i - y i) ^ 2 / y i

noncomputable def cf_sangvi (x y : Fin n → ℝ) : ℝ :=
  2 * ∑ i, (x i - y i) ^ 2 / (x i + y i)

noncomputable def cf_soergel (x y : Fin n → ℝ) : ℝ :=
  (∑ i, |x i - y i|) / (∑ i, max (x i) (y i))

noncomputable def cf_squared (x y : Fin n → ℝ) : ℝ :=
  ∑ i, (x i - y i) ^ 2 / (x i + y i)

noncomputable def cf_squared_chord (x y : Fin n → ℝ) : ℝ :=
  ∑ i, (Real.sqrt (x i) - Real.sqrt (y i)) ^ 2

noncomputable def cf_squared_euclidean (x y : Fin n → ℝ) : ℝ :=
  ∑ i, (x i - y i) ^ 2

noncomputable def cf_statistic (x y : Fin n → ℝ) : ℝ :=
  ∑ i, (x i - (x i + y i) / 2) / ((x i + y i) / 2)

noncomputable def cf_topsoe (x y : Fin n → ℝ) : ℝ :=
  (∑ i, x i * Real.log (2 * x i / (x i + y i)))
    + ∑ i, y i * Real.log (2 * y i / (x i + y i))

noncomputable def cf_vicis_symmetric1 (x y : Fin n → ℝ) : ℝ :=
  ∑ i, (x i - y i) ^ 2 / (min (x i) (y i)) ^ 2

noncomputable def cf_vicis_symmetric2 (x y : Fin n → ℝ) : ℝ :=
  ∑ i, (x i - y i) ^ 2 / min (x i) (y i)

noncomputable def cf_vicis_symmetric3 (x y : Fin n → ℝ) : ℝ :=
  ∑ i, (x i - y i) ^ 2 / max (x i) (y i)

noncomputable def cf_vicis_wave_hedges (x y : Fin n → ℝ) : ℝ :=
  ∑ i, |x i - y i| / min (x i) (y i)

/-! ### theorems, second half -/

theorem c06_kulczynski (x y : Fin n → ℝ) :
    metricR "kulczynski" x y
      = some (cf_kulczynski (fun i => x i + epsR) (fun i => y i + epsR)) := by
  c06_shift "kulczynski_distance" Gen.body_kulczynski_distance cf_kulczynski

theorem c06_kullback_leibler (x y : Fin n → ℝ) :
    metricR "kullback_leibler" x y
      = some (cf_kullback_leibler (fun i => x i + epsR) (fun i => y i + epsR)) := by
  c06_shift "kullback_leibler_distance" Gen.body_kullback_leibler_distance cf_kullback_leibler

theorem c06_log_euclidean (x y : Fin n → ℝ) :
    metricR "log_euclidean" x y = some (cf_log_euclidean x y) := by
  c06_plain "log_euclidean_distance" Gen.body_log_euclidean_distance cf_log_euclidean
  rw [add_comm]

theorem c06_log_squared_euclidean (x y : Fin n → ℝ) :
    metricR "log_squared_euclidean" x y = some (cf_log_squared_euclidean x y) := by
  c06_plain "log_squared_euclidean_distance" Gen.body_log_squared_euclidean_distance cf_log_squared_euclidean
  rw [add_comm]

theorem c06_lorentzian (x y : Fin n → ℝ) :
    metricR "lorentzian" x y = some (cf_lorentzian x y) := by
  c06_plain "lorentzian_distance" Gen.body_lorentzian_distance cf_lorentzian

theorem c06_manhattan (x y : Fin n → ℝ) :
    metricR "manhattan" x y = some (cf_manhattan x y) := by
  c06_plain "manhattan_distance" Gen.body_manhattan_distance cf_manhattan

theorem c06_matusita (x y : Fin n → ℝ) :
    metricR "matusita" x y = some (cf_matusita x y) := by
  c06_plain "matusita_distance" Gen.body_matusita_distance cf_matusita

theorem c06_max_symmetric (x y : Fin n → ℝ) :
    metricR "max_symmetric" x y
      = some (cf_max_symmetric (fun i => x i + epsR) (fun i => y i + epsR)) := by
  c06_shift "max_symmetric_distance" Gen.body_max_symmetric_distance cf_max_symmetric

theorem c06_mean_censored_euclidean (x y : Fin n → ℝ) :
    metricR "mean_censored_euclidean" x y
      = some (cf_mean_censored_euclidean (fun i => x i + epsR) (fun i => y i + epsR)) := by
  c06_shift "mean_censored_euclidean_distance" Gen.body_mean_censored_euclidean_distance cf_mean_censored_euclidean
  congr 2
  exact sum_indicator_eq_card _

theorem c06_min_symmetric (x y : Fin n → ℝ) :
    metricR "min_symmetric" x y
      = some (cf_min_symmetric (fun i => x i + epsR) (fun i => y i + epsR)) := by
  c06_shift "min_symmetric_distance" Gen.body_min_symmetric_distance cf_min_symmetric

theorem c06_neyman (x y : Fin n → ℝ) :
    metricR "neyman" x y
      = some (cf_neyman (fun i => x i + epsR) (fun i => y i + epsR)) := by
  c06_shift "neyman_distance" Gen.body_neyman_distance cf_neyman

theorem c06_non_intersection (x y : Fin n → ℝ) :
    metricR "non_intersection" x y = some (cf_non_intersection x y) := by
  c06_plain "non_intersection_distance" Gen.body_non_intersection_distance cf_non_intersection

theorem c06_pearson (x y : Fin n → ℝ) :
    metricR "pearson" x y
      = some (cf_pearson (fun i => x i + epsR) (fun i => y i + epsR)) := by
  c06_shift "pearson_distance" Gen.body_pearson_distance cf_pearson

theorem c06_sangvi (x y : Fin n → ℝ) :
    metricR "sangvi" x y
      = some (cf_sangvi (fun i => x i + epsR) (fun i => y i + epsR)) := by
  c06_shift "sangvi_distance" Gen.body_sangvi_distance cf_sangvi

theorem c06_soergel (x y : Fin n → ℝ) :
    metricR "soergel" x y
      = some (cf_soergel (fun i => x i + epsR) (fun i => y i + epsR)) := by
  c06_shift "soergel_distance" Gen.body_soergel_distance cf_soergel

theorem c06_squared (x y : Fin n → ℝ) :
    metricR "squared" x y
      = some (cf_squared (fun i => x i + epsR) (fun i => y i + epsR)) := by
  c06_shift "squared_distance" Gen.body_squared_distance cf_squared

theorem c06_squared_chord (x y : Fin n → ℝ) :
    metricR "squared_chord" x y = some (cf_squared_chord x y) := by
  c06_plain "squared_chord_distance" Gen.body_squared_chord_distance cf_squared_chord

theorem c06_squared_euclidean (x y : Fin n → ℝ) :
    metricR "squared_euclidean" x y = some (cf_squared_euclidean x y) := by
  c06_plain "squared_euclidean_distance" Gen.body_squared_euclidean_distance cf_squared_euclidean

theorem c06_statistic (x y : Fin n → ℝ) :
    metricR "statistic" x y
      = some (cf_statistic (fun i => x i + epsR) (fun i => y i + epsR)) := by
  c06_shift "statistic_distance" Gen.body_statistic_distance cf_statistic

theorem c06_topsoe (x y : Fin n → ℝ) :
    metricR "topsoe" x y
      = some (cf_topsoe (fun i => x i + epsR) (fun i => y i + epsR)) := by
  c06_shift "topsoe_distance" Gen.body_topsoe_distance cf_topsoe

theorem c06_vicis_symmetric1 (x y : Fin n → ℝ) :
    metricR "vicis_symmetric1" x y
      = some (cf_vicis_symmetric1 (fun i => x i + epsR) (fun i => y i + epsR)) := by
  c06_shift "vicis_symmetric1_distance" Gen.body_vicis_symmetric1_distance cf_vicis_symmetric1

theorem c06_vicis_symmetric2 (x y : Fin n → ℝ) :
    metricR "vicis_symmetric2" x y
      = some (cf_vicis_symmetric2 (fun i => x i + epsR) (fun i => y i + epsR)) := by
  c06_shift "vicis_symmetric2_distance" Gen.body_vicis_symmetric2_distance cf_vicis_symmetric2

theorem c06_vicis_symmetric3 (x y : Fin n → ℝ) :
    metricR "vicis_symmetric3" x y
      = some (cf_vicis_symmetric3 (fun i => x i + epsR) (fun i => y i + epsR)) := by
  c06_shift "vicis_symmetric3_distance" Gen.body_vicis_symmetric3_distance cf_vicis_symmetric3

theorem c06_vicis_wave_hedges (x y : Fin n → ℝ) :
    metricR "vicis_wave_hedges" x y
      = some (cf_vicis_wave_hedges (fun i => x i + epsR) (fun i => y i + epsR)) := by
  c06_shift "vicis_wave_hedges_distance" Gen.body_vicis_wave_hedges_distance cf_vicis_wave_hedges

end Opf
