/-
C13 — END-TO-END: the properties of `Props/C13.lean` stated about the OUTPUT ARRAYS of the
translated code itself.  `Gen/ClusImp.lean` holds the statement-by-statement translations
`knn_clustering` (`KNNSupervisedOPF._clustering(force_prototype)`) and `uns_clustering`
(`UnsupervisedOPF._clustering(k)`); `Props/C13Refine.lean` proves that they refine the model
`clusterRun`; here the two are composed.  Every theorem has the shape

  `∃ sg', knn_clustering top sg force = some (sg', ()) ∧ <facts about the fields of sg'>`

(resp. `uns_clustering top sg (k : Int)`), and its hypotheses speak about the INPUT only: the
flattened subgraph `sg`, its abstract reading `c` (`RelK _ sg c`), `c.Ready _ (-top) k`
(well-formed, `cost < density`, `-FLOAT_MAX < cost`, `idx_nodes` empty), `0 < c.n`, and, for the
unsupervised method, `hlong` (every adjacency list holds the `n_plateaus + k` entries the code
reads by position).  No hypothesis mentions `clusterRun` or any intermediate state.

Values are read with `.getD x 0`; a stored predecessor is decoded with `predAt` (`NIL = -1 ↦ none`);
`AncA sg'.pred ρ t` says that following the stored predecessors from `t` reaches `ρ`.
`c13_gen_read_input` is the dictionary between the accessors of `c` and the arrays of `sg`.
-/
import OpfVerif.Props.C13
import OpfVerif.Props.C13Refine
import OpfVerif.Lemmas.GenCompose
namespace Opf.GenCompose
open Opf Opf.Gen Opf.Gen.ClusImp Opf.ClusRefine

namespace C13G

/-! ### helpers: decoding, lists -/

theorem decPred_predIntK (o : Option Nat) : decPred (ClusRefine.predInt o) = o := by
  cases o with
  | none => rfl
  | some p => exact decPred_eq_some.mpr rfl

theorem idxOf_map_cast (l : List Nat) (x : Nat) :
    (l.map (fun (y : Nat) => (y : Int))).idxOf (x : Int) = l.idxOf x := by
  induction l with
  | nil => rfl
  | cons a l ih =>
    rw [List.map_cons, List.idxOf_cons, List.idxOf_cons, ih]
    by_cases e : a = x
    · subst e; simp
    · have e' : ¬ ((a : Int) = (x : Int)) := by omega
      have h1 : (a == x) = false := beq_eq_false_iff_ne.mpr e
      have h2 : ((a : Int) == (x : Int)) = false := beq_eq_false_iff_ne.mpr e'
      rw [h1, h2]

theorem length_of_nodup_mem {l : List Nat} {n : Nat} (nd : l.Nodup) (hm : ∀ t, t ∈ l ↔ t < n) :
    l.length = n := by
  have hp : l.Perm (List.range n) :=
    (List.perm_ext_iff_of_nodup nd List.nodup_range).mpr
      (fun a => by rw [hm a, List.mem_range])
  rw [hp.length_eq, List.length_range]

theorem mem_adjInt {l : List Nat} {q : Nat} (h : q ∈ l) : (q : Int) ∈ (adjInt l).toList := by
  unfold adjInt
  exact List.mem_map_of_mem (f := fun (x : Nat) => (x : Int)) h

theorem nbrs_sub {c : Clu} {u : Bool} {k p q : Nat} (h : q ∈ c.nbrs u k p) : q ∈ c.adjOf p := by
  unfold Clu.nbrs at h
  split at h
  · exact List.mem_of_mem_take h
  · exact h

/-- the root of a stored-predecessor chain is unique. -/
theorem ancA_root_unique {a : Array Int} {ρ ρ' t : Nat} (h1 : AncA a ρ t) (h2 : AncA a ρ' t)
    (hρ : predAt a ρ = none) (hρ' : predAt a ρ' = none) : ρ = ρ' := by
  induction h1 with
  | refl =>
    cases h2 with
    | refl => rfl
    | step hp _ => rw [hρ] at hp; cases hp
  | step hp _ ih =>
    cases h2 with
    | refl => rw [hρ'] at hp; cases hp
    | step hp' h2' =>
      rw [hp] at hp'
      cases hp'
      exact ih h2'

/-! ### readers of `RelK` -/

/-- the label array the model's `lab` stands for: `cluster_label` (unsupervised) or
`predicted_label` (KNN-supervised). -/
def labOut (u : Bool) (sg : KSG) : Array Int := bif u then sg.cluster_label else sg.predicted_label

section readers
variable {u : Bool} {sg : KSG} {c : Clu}

theorem rk_cost (hr : RelK u sg c) {x : Nat} (hx : x < c.n) : sg.cost.getD x 0 = c.costOf x :=
  getD_of_getElem? (hr.cost x hx)

theorem rk_pred (hr : RelK u sg c) {x : Nat} (hx : x < c.n) : predAt sg.pred x = c.predOf x := by
  unfold predAt
  rw [getD_of_getElem? (hr.pred x hx), decPred_predIntK]

theorem rk_root (hr : RelK u sg c) {x : Nat} (hx : x < c.n) :
    sg.root.getD x 0 = (c.rootOf x : Int) := getD_of_getElem? (hr.root x hx)

theorem rk_label (hr : RelK u sg c) {x : Nat} (hx : x < c.n) :
    sg.label.getD x 0 = (c.tlabelOf x : Int) := getD_of_getElem? (hr.label x hx)

theorem rk_density (hr : RelK u sg c) {x : Nat} (hx : x < c.n) :
    sg.density.getD x 0 = c.densOf x := getD_of_getElem? (hr.density x hx)

theorem rk_adj (hr : RelK u sg c) {x : Nat} (hx : x < c.n) :
    sg.adjacency.getD x #[] = adjInt (c.adjOf x) := getD_of_getElem? (hr.adj x hx)

theorem rk_nplat (hr : RelK u sg c) {x : Nat} (hx : x < c.n) :
    sg.n_plateaus.getD x 0 = (c.nplat.getD x 0 : Int) := getD_of_getElem? (hr.nplat x hx)

theorem rk_lab (hr : RelK u sg c) {x : Nat} (hx : x < c.n) :
    (labOut u sg).getD x 0 = (c.labOf x : Int) := by
  cases u with
  | false => exact getD_of_getElem? (hr.lab_knn rfl x hx)
  | true => exact getD_of_getElem? (hr.lab_uns rfl x hx)

theorem rk_order (hr : RelK u sg c) :
    sg.idx_nodes.toList = c.order.toList.map (fun (x : Nat) => (x : Int)) := by
  rw [hr.order, Array.toList_map]

end readers

/-! ### the facts about any `sg'` that represents the model's result -/

section out
variable (u force : Bool) (top : Int) (k : Nat) (c : Clu) (sg' : KSG)

theorem out_n (h : c.Ready u (-top) k) : (clusterRun u force top (-top) k c).n = c.n :=
  (c13_unchanged u force top (-top) k c h).1

variable {u force top k c sg'}

theorem out_lt (h : c.Ready u (-top) k) {x : Nat} (hx : x < c.n) :
    x < (clusterRun u force top (-top) k c).n := by
  rw [out_n u force top k c h]; exact hx

/-- sizes of the returned arrays. -/
theorem out_sizes (hr' : RelK u sg' (clusterRun u force top (-top) k c))
    (h : c.Ready u (-top) k) :
    sg'.n_nodes = (c.n : Int) ∧ sg'.cost.size = c.n ∧ sg'.pred.size = c.n ∧
    sg'.root.size = c.n ∧ sg'.density.size = c.n ∧ sg'.label.size = c.n ∧
    sg'.adjacency.size = c.n ∧ sg'.predicted_label.size = c.n ∧ sg'.cluster_label.size = c.n ∧
    sg'.n_plateaus.size = c.n := by
  have e := out_n u force top k c h
  refine ⟨?_, ?_, ?_, ?_, ?_, ?_, ?_, ?_, ?_, ?_⟩
  · rw [hr'.n, e]
  · rw [hr'.sz_cost, e]
  · rw [hr'.sz_pred, e]
  · rw [hr'.sz_root, e]
  · rw [hr'.sz_density, e]
  · rw [hr'.sz_label, e]
  · rw [hr'.sz_adj, e]
  · rw [hr'.sz_plabel, e]
  · rw [hr'.sz_clabel, e]
  · rw [hr'.sz_nplat, e]

theorem out_order (hr' : RelK u sg' (clusterRun u force top (-top) k c))
    (h : c.Ready u (-top) k) :
    ∃ ord : List Nat, sg'.idx_nodes.toList = ord.map (fun (x : Nat) => (x : Int)) ∧
      ord.Nodup ∧ (∀ t, t ∈ ord ↔ t < c.n) ∧ ord.length = c.n ∧ sg'.idx_nodes.size = c.n := by
  obtain ⟨nd, hm⟩ := c13_order u force top (-top) k c h
  have hl := length_of_nodup_mem nd hm
  refine ⟨_, rk_order hr', nd, hm, hl, ?_⟩
  rw [← Array.length_toList, rk_order hr', List.length_map, hl]

theorem out_root_cost (hr' : RelK u sg' (clusterRun u force top (-top) k c))
    (h : c.Ready u (-top) k) :
    ∀ t, t < c.n → predAt sg'.pred t = none →
      sg'.cost.getD t 0 = c.densOf t ∧ sg'.root.getD t 0 = (t : Int) := by
  intro t ht hp
  have ht' := out_lt (force := force) h ht
  rw [rk_pred hr' ht'] at hp
  obtain ⟨h1, h2⟩ := c13_root_cost u force top (-top) k c h t ht hp
  exact ⟨by rw [rk_cost hr' ht', h1], by rw [rk_root hr' ht', h2]⟩

theorem out_link (hr' : RelK u sg' (clusterRun u force top (-top) k c))
    (h : c.Ready u (-top) k) :
    ∀ q, q < c.n → ∀ p, predAt sg'.pred q = some p →
      p < c.n ∧ q ∈ (c.sym u k).nbrs u k p ∧
      (q ∈ c.adjOf p ∨ (p ∈ c.adjOf q ∧ c.densOf p = c.densOf q)) ∧
      (q : Int) ∈ (sg'.adjacency.getD p #[]).toList ∧
      sg'.cost.getD q 0 = min (sg'.cost.getD p 0) (c.densOf q) ∧
      c.costOf q < sg'.cost.getD q 0 ∧
      sg'.idx_nodes.toList.idxOf (p : Int) < sg'.idx_nodes.toList.idxOf (q : Int) ∧
      sg'.root.getD q 0 = sg'.root.getD p 0 ∧
      (labOut u sg').getD q 0 = (labOut u sg').getD p 0 ∧
      (force = true → c.tlabelOf p = c.tlabelOf q) := by
  intro q hq p hp
  have hq' := out_lt (force := force) h hq
  rw [rk_pred hr' hq'] at hp
  obtain ⟨hp1, hnb, hcost, hgt, hidx, hroot, hlab, hforce⟩ :=
    c13_link u force top (-top) k c h q hq p hp
  have hp' := out_lt (force := force) h hp1
  have hmem := nbrs_sub hnb
  have hadj : (clusterRun u force top (-top) k c).adjOf p = (c.sym u k).adjOf p := by
    unfold Clu.adjOf
    rw [(c13_unchanged u force top (-top) k c h).2.2.2.1]
  refine ⟨hp1, hnb, ?_, ?_, ?_, ?_, ?_, ?_, ?_, hforce⟩
  · exact c13_sym_sound u k c h.wf h.long p hp1 q hmem
  · rw [rk_adj hr' hp', hadj]
    exact mem_adjInt hmem
  · rw [rk_cost hr' hq', rk_cost hr' hp']; exact hcost
  · rw [rk_cost hr' hq']; exact hgt
  · rw [rk_order hr', idxOf_map_cast, idxOf_map_cast]; exact hidx
  · rw [rk_root hr' hq', rk_root hr' hp', hroot]
  · rw [rk_lab hr' hq', rk_lab hr' hp', hlab]

/-- unsupervised: the conquering arc sits among the first `n_plateaus[p] + k` entries of the
returned adjacency list of `p`. -/
theorem out_link_take (hr' : RelK true sg' (clusterRun true force top (-top) k c))
    (h : c.Ready true (-top) k) :
    ∀ q, q < c.n → ∀ p, predAt sg'.pred q = some p →
      (q : Int) ∈ (sg'.adjacency.getD p #[]).toList.take
        ((sg'.n_plateaus.getD p 0).toNat + k) := by
  intro q hq p hp
  have hq' := out_lt (force := force) h hq
  rw [rk_pred hr' hq'] at hp
  obtain ⟨hp1, hnb, -⟩ := c13_link true force top (-top) k c h q hq p hp
  have hp' := out_lt (force := force) h hp1
  have un := c13_unchanged true force top (-top) k c h
  have hadj : (clusterRun true force top (-top) k c).adjOf p = (c.sym true k).adjOf p := by
    unfold Clu.adjOf
    rw [un.2.2.2.1]
  rw [rk_adj hr' hp', rk_nplat hr' hp', hadj, un.2.2.2.2.1, Int.toNat_natCast]
  unfold adjInt
  rw [← List.map_take]
  exact List.mem_map_of_mem (f := fun (x : Nat) => (x : Int)) hnb

theorem out_chain (hr' : RelK u sg' (clusterRun u force top (-top) k c))
    (h : c.Ready u (-top) k) (ρ t : Nat) (ht : t < c.n)
    (hc : Clu.Chain (clusterRun u force top (-top) k c) ρ t) : AncA sg'.pred ρ t := by
  induction hc with
  | refl => exact AncA.refl
  | step hp _ ih =>
    have hlt := (c13_link u force top (-top) k c h _ ht _ hp).1
    exact AncA.step (by rw [rk_pred hr' (out_lt (force := force) h ht)]; exact hp) (ih hlt)

theorem out_reaches (hr' : RelK u sg' (clusterRun u force top (-top) k c))
    (h : c.Ready u (-top) k) :
    ∀ t, t < c.n → ∃ ρ, ρ < c.n ∧ predAt sg'.pred ρ = none ∧ AncA sg'.pred ρ t ∧
      sg'.root.getD t 0 = (ρ : Int) ∧
      (labOut u sg').getD t 0 = (labOut u sg').getD ρ 0 := by
  intro t ht
  obtain ⟨ρ, hρ, hnone, hch, hroot, hlab⟩ := c13_reaches_root u force top (-top) k c h t ht
  have ht' := out_lt (force := force) h ht
  have hρ' := out_lt (force := force) h hρ
  refine ⟨ρ, hρ, ?_, out_chain hr' h ρ t ht hch, ?_, ?_⟩
  · rw [rk_pred hr' hρ']; exact hnone
  · rw [rk_root hr' ht', hroot]
  · rw [rk_lab hr' ht', rk_lab hr' hρ', hlab]

/-- the stored root is the position of a sample. -/
theorem out_root_lt (hr' : RelK u sg' (clusterRun u force top (-top) k c))
    (h : c.Ready u (-top) k) :
    ∀ t, t < c.n → 0 ≤ sg'.root.getD t 0 ∧ sg'.root.getD t 0 < (c.n : Int) ∧
      (sg'.root.getD t 0).toNat = (clusterRun u force top (-top) k c).rootOf t := by
  intro t ht
  obtain ⟨ρ, hρ, -, -, hroot, -⟩ := c13_reaches_root u force top (-top) k c h t ht
  rw [rk_root hr' (out_lt (force := force) h ht), hroot, Int.toNat_natCast]
  omega

theorem out_root_bound (hr' : RelK u sg' (clusterRun u force top (-top) k c))
    (h : c.Ready u (-top) k) :
    ∀ t, t < c.n → sg'.cost.getD t 0 ≤ c.densOf (sg'.root.getD t 0).toNat := by
  intro t ht
  rw [(out_root_lt hr' h t ht).2.2, rk_cost hr' (out_lt (force := force) h ht)]
  exact c13_root_bound u force top (-top) k c h t ht

theorem out_cost_gt (hr' : RelK u sg' (clusterRun u force top (-top) k c))
    (h : c.Ready u (-top) k) :
    ∀ t, t < c.n → c.costOf t < sg'.cost.getD t 0 := by
  intro t ht
  rw [rk_cost hr' (out_lt (force := force) h ht)]
  exact c13_cost_gt u force top (-top) k c h t ht

theorem out_density_gap (hr' : RelK u sg' (clusterRun u force top (-top) k c))
    (h : c.Ready u (-top) k) (hpdf : ∀ i, i < c.n → c.densOf i - 1 ≤ c.costOf i) :
    ∀ t, t < c.n → c.densOf t - 1 < c.densOf (sg'.root.getD t 0).toNat := by
  intro t ht
  rw [(out_root_lt hr' h t ht).2.2]
  exact c13_density_gap u force top (-top) k c h hpdf t ht

theorem out_ids (hr' : RelK true sg' (clusterRun true force top (-top) k c))
    (h : c.Ready true (-top) k) :
    ∃ (m : Nat) (ord : List Nat), sg'.n_clusters = (m : Int) ∧
      m = ((List.range c.n).filter (fun t => predAt sg'.pred t == none)).length ∧
      sg'.idx_nodes.toList = ord.map (fun (x : Nat) => (x : Int)) ∧
      ((ord.filter (fun t => predAt sg'.pred t == none)).map
          (fun t => sg'.cluster_label.getD t 0)) = (List.range m).map (fun (x : Nat) => (x : Int)) := by
  obtain ⟨hcount, hids⟩ := c13_ids_unsup true force top (-top) k c h rfl
  obtain ⟨-, hm⟩ := c13_order true force top (-top) k c h
  refine ⟨_, _, hr'.nclusters, ?_, rk_order hr', ?_⟩
  · rw [hcount]
    congr 1
    apply List.filter_congr
    intro x hx
    rw [rk_pred hr' (out_lt (force := force) h (List.mem_range.mp hx))]
  · have e1 : (clusterRun true force top (-top) k c).order.toList.filter
          (fun t => predAt sg'.pred t == none) =
        (clusterRun true force top (-top) k c).order.toList.filter
          (fun t => (clusterRun true force top (-top) k c).predOf t == none) := by
      apply List.filter_congr
      intro x hx
      rw [rk_pred hr' (out_lt (force := force) h ((hm x).mp hx))]
    rw [e1, ← hids, List.map_map]
    apply List.map_congr_left
    intro x hx
    have hx' := (hm x).mp (List.mem_of_mem_filter hx)
    exact rk_lab (u := true) hr' (out_lt (force := force) h hx')

theorem out_labels_knn (hr' : RelK false sg' (clusterRun false force top (-top) k c))
    (h : c.Ready false (-top) k) :
    ∀ t, t < c.n → predAt sg'.pred t = none →
      sg'.predicted_label.getD t 0 = (c.tlabelOf t : Int) := by
  intro t ht hp
  have ht' := out_lt (force := force) h ht
  rw [rk_pred hr' ht'] at hp
  have := rk_lab (u := false) hr' ht'
  rw [c13_labels_knn false force top (-top) k c h rfl t ht hp] at this
  exact this

theorem out_knn_forced (hr' : RelK false sg' (clusterRun false true top (-top) k c))
    (h : c.Ready false (-top) k) :
    ∀ t, t < c.n → sg'.predicted_label.getD t 0 = (c.tlabelOf t : Int) := by
  intro t ht
  have ht' := out_lt (force := true) h ht
  have := rk_lab (u := false) hr' ht'
  rw [c13_knn_forced false true top (-top) k c h rfl rfl t ht] at this
  exact this

/-- frame: densities, true labels, `n_nodes` as in the input; adjacency = symmetrised input. -/
theorem out_frame {sg : KSG} (hr : RelK u sg c)
    (hr' : RelK u sg' (clusterRun u force top (-top) k c)) (h : c.Ready u (-top) k) :
    sg'.n_nodes = sg.n_nodes ∧
    ∀ x, x < c.n →
      sg'.density.getD x 0 = sg.density.getD x 0 ∧ sg'.label.getD x 0 = sg.label.getD x 0 ∧
      ∃ l : List Nat, l = (c.sym u k).adjOf x ∧ sg'.adjacency.getD x #[] = adjInt l ∧
        sg.adjacency.getD x #[] = adjInt (c.adjOf x) ∧
        (∀ j, j ∈ c.adjOf x → j ∈ l) ∧
        (∀ j, j ∈ l → j < c.n ∧ j ≠ x ∧
          (j ∈ c.adjOf x ∨ (x ∈ c.adjOf j ∧ c.densOf x = c.densOf j))) := by
  have un := c13_unchanged u force top (-top) k c h
  refine ⟨by rw [hr'.n, hr.n, un.1], ?_⟩
  intro x hx
  have hx' := out_lt (force := force) h hx
  have fr := c13_sym_frame u k c h.wf h.long
  refine ⟨?_, ?_, _, rfl, ?_, rk_adj hr hx, ?_, ?_⟩
  · rw [rk_density hr' hx', rk_density hr hx]
    unfold Clu.densOf
    rw [un.2.1]
  · rw [rk_label hr' hx', rk_label hr hx]
    unfold Clu.tlabelOf
    rw [un.2.2.1]
  · rw [rk_adj hr' hx']
    unfold Clu.adjOf
    rw [un.2.2.2.1]
  · exact fun j hj => c13_sym_keeps u k c h.wf h.long x j hj
  · intro j hj
    have hwf := fr.2.2.2.2.2.2.2.2.2.adj_lt x (by rw [fr.1]; exact hx) j hj
    refine ⟨by rw [← fr.1]; exact hwf.1, hwf.2, ?_⟩
    exact c13_sym_sound u k c h.wf h.long x hx j hj

end out

/-! ### lifting through the refinement theorems -/

theorem knn_lift {top : Int} {sg : KSG} {c : Clu} {force : Bool} (hr : RelK false sg c)
    (h : c.Ready false (-top) 0) (hn : 0 < c.n) {P : KSG → Prop}
    (hP : ∀ sg', RelK false sg' (clusterRun false force top (-top) 0 c) → P sg') :
    ∃ sg', knn_clustering top sg force = some (sg', ()) ∧ P sg' := by
  obtain ⟨sg', e, r⟩ := c13_gen_knn_clustering top sg c force hr h.wf hn
  exact ⟨sg', e, hP sg' r⟩

theorem uns_lift {top : Int} {sg : KSG} {c : Clu} {k : Nat} (hr : RelK true sg c)
    (h : c.Ready true (-top) k) (hn : 0 < c.n)
    (hlong : ∀ i, i < c.n → c.nplat.getD i 0 + k ≤ (c.adjOf i).length) {P : KSG → Prop}
    (hP : ∀ sg', RelK true sg' (clusterRun true false top (-top) k c) → P sg') :
    ∃ sg', uns_clustering top sg (k : Int) = some (sg', ()) ∧ P sg' := by
  obtain ⟨sg', e, r⟩ := c13_gen_uns_clustering top sg c k hr h.wf hn hlong
  exact ⟨sg', e, hP sg' r⟩

end C13G

open C13G

/-! ## dictionary between `c` and the arrays of the input subgraph -/

/-- How the accessors of the abstract reading `c` used in the statements below are read off the
arrays of the flattened input `sg` (`NIL = -1` decodes to `none`); `lab` is `predicted_label` for
the KNN-supervised and `cluster_label` for the unsupervised classifier. -/
theorem c13_gen_read_input (u : Bool) (sg : KSG) (c : Clu) (hr : RelK u sg c) :
    sg.n_nodes = (c.n : Int) ∧ sg.n_clusters = (c.nclusters : Int) ∧
    sg.idx_nodes.toList = c.order.toList.map (fun (x : Nat) => (x : Int)) ∧
    ∀ x, x < c.n →
      sg.cost.getD x 0 = c.costOf x ∧ sg.density.getD x 0 = c.densOf x ∧
      predAt sg.pred x = c.predOf x ∧ sg.root.getD x 0 = (c.rootOf x : Int) ∧
      sg.label.getD x 0 = (c.tlabelOf x : Int) ∧
      sg.adjacency.getD x #[] = adjInt (c.adjOf x) ∧
      sg.n_plateaus.getD x 0 = (c.nplat.getD x 0 : Int) ∧
      (bif u then sg.cluster_label else sg.predicted_label).getD x 0 = (c.labOf x : Int) :=
  ⟨hr.n, hr.nclusters, rk_order hr, fun _ hx =>
    ⟨rk_cost hr hx, rk_density hr hx, rk_pred hr hx, rk_root hr hx, rk_label hr hx, rk_adj hr hx,
     rk_nplat hr hx, rk_lab hr hx⟩⟩

/-- In any `pred` array, two roots (`pred = NIL`) reached from the same sample coincide. -/
theorem c13_gen_root_unique (a : Array Int) (ρ ρ' t : Nat) (h1 : AncA a ρ t) (h2 : AncA a ρ' t)
    (hρ : predAt a ρ = none) (hρ' : predAt a ρ' = none) : ρ = ρ' :=
  ancA_root_unique h1 h2 hρ hρ'

/-! ## `KNNSupervisedOPF._clustering(force_prototype)` -/

section knn
variable (top : Int) (sg : KSG) (c : Clu) (force : Bool)

/-- `KNNSupervisedOPF._clustering` raises nothing and terminates; all per-node arrays of the
returned subgraph keep the size `n`, `n_nodes`, densities and true labels are those of the input,
and the returned adjacency list of `x` is the input list symmetrised on plateaus: it keeps every
input arc and every added entry `j` is a sample `≠ x` with `x ∈ adj[j]` and equal density. -/
theorem c13_gen_knn_frame (hr : RelK false sg c) (h : c.Ready false (-top) 0) (hn : 0 < c.n) :
    ∃ sg', knn_clustering top sg force = some (sg', ()) ∧
      (sg'.n_nodes = sg.n_nodes ∧ sg'.cost.size = c.n ∧ sg'.pred.size = c.n ∧
       sg'.root.size = c.n ∧ sg'.density.size = c.n ∧ sg'.label.size = c.n ∧
       sg'.adjacency.size = c.n ∧ sg'.predicted_label.size = c.n) ∧
      ∀ x, x < c.n →
        sg'.density.getD x 0 = sg.density.getD x 0 ∧ sg'.label.getD x 0 = sg.label.getD x 0 ∧
        ∃ l : List Nat, l = (symKnn c).adjOf x ∧ sg'.adjacency.getD x #[] = adjInt l ∧
          sg.adjacency.getD x #[] = adjInt (c.adjOf x) ∧
          (∀ j, j ∈ c.adjOf x → j ∈ l) ∧
          (∀ j, j ∈ l → j < c.n ∧ j ≠ x ∧
            (j ∈ c.adjOf x ∨ (x ∈ c.adjOf j ∧ c.densOf x = c.densOf j))) :=
  knn_lift hr h hn (fun sg' hr' => by
    have s := out_sizes hr' h
    have f := out_frame hr hr' h
    exact ⟨⟨f.1, s.2.1, s.2.2.1, s.2.2.2.1, s.2.2.2.2.1, s.2.2.2.2.2.1, s.2.2.2.2.2.2.1,
      s.2.2.2.2.2.2.2.1⟩, f.2⟩)

/-- every sample is removed from the heap exactly once: the returned `idx_nodes` is a
duplicate-free enumeration of `0 … n-1`. -/
theorem c13_gen_knn_order (hr : RelK false sg c) (h : c.Ready false (-top) 0) (hn : 0 < c.n) :
    ∃ sg', knn_clustering top sg force = some (sg', ()) ∧
      ∃ ord : List Nat, sg'.idx_nodes.toList = ord.map (fun (x : Nat) => (x : Int)) ∧
        ord.Nodup ∧ (∀ t, t ∈ ord ↔ t < c.n) ∧ ord.length = c.n ∧ sg'.idx_nodes.size = c.n :=
  knn_lift hr h hn (fun _ hr' => out_order hr' h)

/-- a root of the returned forest (`pred = NIL`) has its density as cost and is its own root. -/
theorem c13_gen_knn_root_cost (hr : RelK false sg c) (h : c.Ready false (-top) 0)
    (hn : 0 < c.n) :
    ∃ sg', knn_clustering top sg force = some (sg', ()) ∧
      ∀ t, t < c.n → predAt sg'.pred t = none →
        sg'.cost.getD t 0 = c.densOf t ∧ sg'.root.getD t 0 = (t : Int) :=
  knn_lift hr h hn (fun _ hr' => out_root_cost hr' h)

/-- a conquered sample `q` (returned `pred[q] = p ≠ NIL`): `p` is a sample; `q` is on the
symmetrised adjacency list of `p` (hence an input arc `p→q`, or a reversed input arc `q→p` between
samples of equal density), also as stored in the returned `adjacency[p]`; the returned cost of
`q` is `min(cost[p], density[q])` and strictly above its input cost; `p` was removed before `q`;
`root` and `predicted_label` are inherited from `p`; with `force_prototype` the true labels of `p`
and `q` agree. -/
theorem c13_gen_knn_link (hr : RelK false sg c) (h : c.Ready false (-top) 0) (hn : 0 < c.n) :
    ∃ sg', knn_clustering top sg force = some (sg', ()) ∧
      ∀ q, q < c.n → ∀ p, predAt sg'.pred q = some p →
        p < c.n ∧ q ∈ (symKnn c).adjOf p ∧
        (q ∈ c.adjOf p ∨ (p ∈ c.adjOf q ∧ c.densOf p = c.densOf q)) ∧
        (q : Int) ∈ (sg'.adjacency.getD p #[]).toList ∧
        sg'.cost.getD q 0 = min (sg'.cost.getD p 0) (c.densOf q) ∧
        c.costOf q < sg'.cost.getD q 0 ∧
        sg'.idx_nodes.toList.idxOf (p : Int) < sg'.idx_nodes.toList.idxOf (q : Int) ∧
        sg'.root.getD q 0 = sg'.root.getD p 0 ∧
        sg'.predicted_label.getD q 0 = sg'.predicted_label.getD p 0 ∧
        (force = true → c.tlabelOf p = c.tlabelOf q) :=
  knn_lift hr h hn (fun _ hr' => out_link hr' h)

/-- every sample hangs, through the returned `pred` array, below a root `ρ` (`pred[ρ] = NIL`);
its `root` field is `ρ` and its `predicted_label` is that of `ρ`. -/
theorem c13_gen_knn_reaches_root (hr : RelK false sg c) (h : c.Ready false (-top) 0)
    (hn : 0 < c.n) :
    ∃ sg', knn_clustering top sg force = some (sg', ()) ∧
      ∀ t, t < c.n → ∃ ρ, ρ < c.n ∧ predAt sg'.pred ρ = none ∧ AncA sg'.pred ρ t ∧
        sg'.root.getD t 0 = (ρ : Int) ∧
        sg'.predicted_label.getD t 0 = sg'.predicted_label.getD ρ 0 :=
  knn_lift hr h hn (fun _ hr' => out_reaches hr' h)

/-- the returned cost of a sample never exceeds the density of its (returned) root, which is a
sample position. -/
theorem c13_gen_knn_root_bound (hr : RelK false sg c) (h : c.Ready false (-top) 0)
    (hn : 0 < c.n) :
    ∃ sg', knn_clustering top sg force = some (sg', ()) ∧
      ∀ t, t < c.n → 0 ≤ sg'.root.getD t 0 ∧ sg'.root.getD t 0 < (c.n : Int) ∧
        sg'.cost.getD t 0 ≤ c.densOf (sg'.root.getD t 0).toNat :=
  knn_lift hr h hn (fun _ hr' t ht =>
    ⟨(out_root_lt hr' h t ht).1, (out_root_lt hr' h t ht).2.1, out_root_bound hr' h t ht⟩)

/-- every sample ends with a cost strictly above its input cost. -/
theorem c13_gen_knn_cost_gt (hr : RelK false sg c) (h : c.Ready false (-top) 0) (hn : 0 < c.n) :
    ∃ sg', knn_clustering top sg force = some (sg', ()) ∧
      ∀ t, t < c.n → c.costOf t < sg'.cost.getD t 0 :=
  knn_lift hr h hn (fun _ hr' => out_cost_gt hr' h)

/-- when the input costs are at least `density - 1` (as `calculate_pdf` leaves them), no sample's
density exceeds the density of its returned root by one or more. -/
theorem c13_gen_knn_density_gap (hr : RelK false sg c) (h : c.Ready false (-top) 0)
    (hn : 0 < c.n) (hpdf : ∀ i, i < c.n → c.densOf i - 1 ≤ c.costOf i) :
    ∃ sg', knn_clustering top sg force = some (sg', ()) ∧
      ∀ t, t < c.n → c.densOf t - 1 < c.densOf (sg'.root.getD t 0).toNat :=
  knn_lift hr h hn (fun _ hr' => out_density_gap hr' h hpdf)

/-- a root's returned `predicted_label` is its own true label `label[t]`. -/
theorem c13_gen_knn_labels (hr : RelK false sg c) (h : c.Ready false (-top) 0) (hn : 0 < c.n) :
    ∃ sg', knn_clustering top sg force = some (sg', ()) ∧
      ∀ t, t < c.n → predAt sg'.pred t = none →
        sg'.predicted_label.getD t 0 = sg.label.getD t 0 ∧
        sg'.predicted_label.getD t 0 = sg'.label.getD t 0 :=
  knn_lift hr h hn (fun _ hr' t ht hp => by
    have e := out_labels_knn hr' h t ht hp
    have f := ((out_frame hr hr' h).2 t ht).2.1
    rw [f, e, rk_label hr ht]
    exact ⟨rfl, rfl⟩)

/-- with `force_prototype = True` every training sample's returned `predicted_label` equals its
own true label `label[t]` (the KNN clause of C04). -/
theorem c13_gen_knn_forced (hr : RelK false sg c) (h : c.Ready false (-top) 0) (hn : 0 < c.n) :
    ∃ sg', knn_clustering top sg true = some (sg', ()) ∧
      ∀ t, t < c.n → sg'.predicted_label.getD t 0 = sg.label.getD t 0 ∧
        sg'.predicted_label.getD t 0 = sg'.label.getD t 0 :=
  knn_lift hr h hn (fun _ hr' t ht => by
    have e := out_knn_forced hr' h t ht
    have f := ((out_frame hr hr' h).2 t ht).2.1
    rw [f, e, rk_label hr ht]
    exact ⟨rfl, rfl⟩)

end knn

/-! ## `UnsupervisedOPF._clustering(k)` -/

section uns
variable (top : Int) (sg : KSG) (c : Clu) (k : Nat)

/-- `UnsupervisedOPF._clustering(k)` raises nothing and terminates; all per-node arrays of the
returned subgraph keep the size `n`, `n_nodes`, densities and true labels are those of the input,
and the returned adjacency list of `x` is the input list symmetrised on plateaus: it keeps every
input arc and every added entry `j` is a sample `≠ x` with `x ∈ adj[j]` and equal density. -/
theorem c13_gen_uns_frame (hr : RelK true sg c) (h : c.Ready true (-top) k) (hn : 0 < c.n)
    (hlong : ∀ i, i < c.n → c.nplat.getD i 0 + k ≤ (c.adjOf i).length) :
    ∃ sg', uns_clustering top sg (k : Int) = some (sg', ()) ∧
      (sg'.n_nodes = sg.n_nodes ∧ sg'.cost.size = c.n ∧ sg'.pred.size = c.n ∧
       sg'.root.size = c.n ∧ sg'.density.size = c.n ∧ sg'.label.size = c.n ∧
       sg'.adjacency.size = c.n ∧ sg'.cluster_label.size = c.n ∧ sg'.n_plateaus.size = c.n) ∧
      ∀ x, x < c.n →
        sg'.density.getD x 0 = sg.density.getD x 0 ∧ sg'.label.getD x 0 = sg.label.getD x 0 ∧
        ∃ l : List Nat, l = (symUns k c).adjOf x ∧ sg'.adjacency.getD x #[] = adjInt l ∧
          sg.adjacency.getD x #[] = adjInt (c.adjOf x) ∧
          (∀ j, j ∈ c.adjOf x → j ∈ l) ∧
          (∀ j, j ∈ l → j < c.n ∧ j ≠ x ∧
            (j ∈ c.adjOf x ∨ (x ∈ c.adjOf j ∧ c.densOf x = c.densOf j))) :=
  uns_lift hr h hn hlong (fun sg' hr' => by
    have s := out_sizes hr' h
    have f := out_frame hr hr' h
    exact ⟨⟨f.1, s.2.1, s.2.2.1, s.2.2.2.1, s.2.2.2.2.1, s.2.2.2.2.2.1, s.2.2.2.2.2.2.1,
      s.2.2.2.2.2.2.2.2.1, s.2.2.2.2.2.2.2.2.2⟩, f.2⟩)

/-- every sample is removed from the heap exactly once: the returned `idx_nodes` is a
duplicate-free enumeration of `0 … n-1`. -/
theorem c13_gen_uns_order (hr : RelK true sg c) (h : c.Ready true (-top) k) (hn : 0 < c.n)
    (hlong : ∀ i, i < c.n → c.nplat.getD i 0 + k ≤ (c.adjOf i).length) :
    ∃ sg', uns_clustering top sg (k : Int) = some (sg', ()) ∧
      ∃ ord : List Nat, sg'.idx_nodes.toList = ord.map (fun (x : Nat) => (x : Int)) ∧
        ord.Nodup ∧ (∀ t, t ∈ ord ↔ t < c.n) ∧ ord.length = c.n ∧ sg'.idx_nodes.size = c.n :=
  uns_lift hr h hn hlong (fun _ hr' => out_order hr' h)

/-- a root of the returned forest (`pred = NIL`) has its density as cost and is its own root. -/
theorem c13_gen_uns_root_cost (hr : RelK true sg c) (h : c.Ready true (-top) k) (hn : 0 < c.n)
    (hlong : ∀ i, i < c.n → c.nplat.getD i 0 + k ≤ (c.adjOf i).length) :
    ∃ sg', uns_clustering top sg (k : Int) = some (sg', ()) ∧
      ∀ t, t < c.n → predAt sg'.pred t = none →
        sg'.cost.getD t 0 = c.densOf t ∧ sg'.root.getD t 0 = (t : Int) :=
  uns_lift hr h hn hlong (fun _ hr' => out_root_cost hr' h)

/-- a conquered sample `q` (returned `pred[q] = p ≠ NIL`): `p` is a sample; `q` is among the first
`n_plateaus[p] + k` entries of the symmetrised adjacency list of `p` (hence an input arc `p→q`, or
a reversed input arc `q→p` between samples of equal density), also as stored in the returned
`adjacency[p]` / `n_plateaus[p]`; the returned cost of `q` is `min(cost[p], density[q])` and
strictly above its input cost; `p` was removed before `q`; `root` and `cluster_label` are
inherited from `p`. -/
theorem c13_gen_uns_link (hr : RelK true sg c) (h : c.Ready true (-top) k) (hn : 0 < c.n)
    (hlong : ∀ i, i < c.n → c.nplat.getD i 0 + k ≤ (c.adjOf i).length) :
    ∃ sg', uns_clustering top sg (k : Int) = some (sg', ()) ∧
      ∀ q, q < c.n → ∀ p, predAt sg'.pred q = some p →
        p < c.n ∧
        q ∈ ((symUns k c).adjOf p).take ((symUns k c).nplat.getD p 0 + k) ∧
        (q ∈ c.adjOf p ∨ (p ∈ c.adjOf q ∧ c.densOf p = c.densOf q)) ∧
        (q : Int) ∈ (sg'.adjacency.getD p #[]).toList.take
          ((sg'.n_plateaus.getD p 0).toNat + k) ∧
        sg'.cost.getD q 0 = min (sg'.cost.getD p 0) (c.densOf q) ∧
        c.costOf q < sg'.cost.getD q 0 ∧
        sg'.idx_nodes.toList.idxOf (p : Int) < sg'.idx_nodes.toList.idxOf (q : Int) ∧
        sg'.root.getD q 0 = sg'.root.getD p 0 ∧
        sg'.cluster_label.getD q 0 = sg'.cluster_label.getD p 0 :=
  uns_lift hr h hn hlong (fun _ hr' q hq p hp => by
    obtain ⟨a1, a2, a3, -, a5, a6, a7, a8, a9, -⟩ := out_link hr' h q hq p hp
    exact ⟨a1, a2, a3, out_link_take hr' h q hq p hp, a5, a6, a7, a8, a9⟩)

/-- every sample hangs, through the returned `pred` array, below a root `ρ` (`pred[ρ] = NIL`);
its `root` field is `ρ` and its `cluster_label` is that of `ρ`. -/
theorem c13_gen_uns_reaches_root (hr : RelK true sg c) (h : c.Ready true (-top) k)
    (hn : 0 < c.n) (hlong : ∀ i, i < c.n → c.nplat.getD i 0 + k ≤ (c.adjOf i).length) :
    ∃ sg', uns_clustering top sg (k : Int) = some (sg', ()) ∧
      ∀ t, t < c.n → ∃ ρ, ρ < c.n ∧ predAt sg'.pred ρ = none ∧ AncA sg'.pred ρ t ∧
        sg'.root.getD t 0 = (ρ : Int) ∧
        sg'.cluster_label.getD t 0 = sg'.cluster_label.getD ρ 0 :=
  uns_lift hr h hn hlong (fun _ hr' => out_reaches hr' h)

/-- the returned cost of a sample never exceeds the density of its (returned) root, which is a
sample position. -/
theorem c13_gen_uns_root_bound (hr : RelK true sg c) (h : c.Ready true (-top) k) (hn : 0 < c.n)
    (hlong : ∀ i, i < c.n → c.nplat.getD i 0 + k ≤ (c.adjOf i).length) :
    ∃ sg', uns_clustering top sg (k : Int) = some (sg', ()) ∧
      ∀ t, t < c.n → 0 ≤ sg'.root.getD t 0 ∧ sg'.root.getD t 0 < (c.n : Int) ∧
        sg'.cost.getD t 0 ≤ c.densOf (sg'.root.getD t 0).toNat :=
  uns_lift hr h hn hlong (fun _ hr' t ht =>
    ⟨(out_root_lt hr' h t ht).1, (out_root_lt hr' h t ht).2.1, out_root_bound hr' h t ht⟩)

/-- every sample ends with a cost strictly above its input cost. -/
theorem c13_gen_uns_cost_gt (hr : RelK true sg c) (h : c.Ready true (-top) k) (hn : 0 < c.n)
    (hlong : ∀ i, i < c.n → c.nplat.getD i 0 + k ≤ (c.adjOf i).length) :
    ∃ sg', uns_clustering top sg (k : Int) = some (sg', ()) ∧
      ∀ t, t < c.n → c.costOf t < sg'.cost.getD t 0 :=
  uns_lift hr h hn hlong (fun _ hr' => out_cost_gt hr' h)

/-- when the input costs are at least `density - 1` (as `calculate_pdf` leaves them), no sample's
density exceeds the density of its returned root by one or more. -/
theorem c13_gen_uns_density_gap (hr : RelK true sg c) (h : c.Ready true (-top) k)
    (hn : 0 < c.n) (hlong : ∀ i, i < c.n → c.nplat.getD i 0 + k ≤ (c.adjOf i).length)
    (hpdf : ∀ i, i < c.n → c.densOf i - 1 ≤ c.costOf i) :
    ∃ sg', uns_clustering top sg (k : Int) = some (sg', ()) ∧
      ∀ t, t < c.n → c.densOf t - 1 < c.densOf (sg'.root.getD t 0).toNat :=
  uns_lift hr h hn hlong (fun _ hr' => out_density_gap hr' h hpdf)

/-- the returned `n_clusters` is the number of roots (`pred = NIL`), and the roots'
`cluster_label`s, listed in removal order (`idx_nodes`), are `0, 1, …, n_clusters-1`. -/
theorem c13_gen_uns_ids (hr : RelK true sg c) (h : c.Ready true (-top) k) (hn : 0 < c.n)
    (hlong : ∀ i, i < c.n → c.nplat.getD i 0 + k ≤ (c.adjOf i).length) :
    ∃ sg', uns_clustering top sg (k : Int) = some (sg', ()) ∧
      ∃ (m : Nat) (ord : List Nat), sg'.n_clusters = (m : Int) ∧
        m = ((List.range c.n).filter (fun t => predAt sg'.pred t == none)).length ∧
        sg'.idx_nodes.toList = ord.map (fun (x : Nat) => (x : Int)) ∧
        ((ord.filter (fun t => predAt sg'.pred t == none)).map
            (fun t => sg'.cluster_label.getD t 0)) =
          (List.range m).map (fun (x : Nat) => (x : Int)) :=
  uns_lift hr h hn hlong (fun _ hr' => out_ids hr' h)

end uns

/-! ## non-vacuity: the four-sample demo of `Props/C13.lean` as a flattened subgraph -/

/-- `c13Demo` as the real code stores it (`NIL = -1`). -/
def c13DemoSG : KSG :=
  { n_nodes := 4, trained := false, idx_nodes := #[], n_clusters := 0,
    adjacency := #[#[1], #[2], #[1], #[2]], density := #[5, 5, 3, 2], cost := #[4, 4, 2, 1],
    pred := #[-1, -1, -1, -1], root := #[0, 0, 0, 0], label := #[7, 7, 8, 9],
    predicted_label := #[0, 0, 0, 0], n_plateaus := #[0, 0, 0, 0],
    cluster_label := #[0, 0, 0, 0] }

/-- the flattened demo represents `c13Demo` (both readings of `lab`). -/
theorem c13DemoSG_rel (u : Bool) : RelK u c13DemoSG c13Demo := by
  refine ⟨rfl, rfl, rfl, rfl, rfl, rfl, rfl, rfl, rfl, rfl, rfl, ?_, ?_, ?_, ?_, ?_, ?_, ?_, ?_, ?_,
    by simp [c13DemoSG, c13Demo]⟩
  all_goals first
    | (intro i hi
       have hi' : i < 4 := hi
       match i, hi' with
       | 0, _ | 1, _ | 2, _ | 3, _ => decide)
    | (intro _ i hi
       have hi' : i < 4 := hi
       match i, hi' with
       | 0, _ | 1, _ | 2, _ | 3, _ => decide)

/-- the demo input satisfies the hypotheses of the theorems above (copy of the anonymous
`example` of `Props/C13.lean`). -/
theorem c13Demo_ready (unsup : Bool) : c13Demo.Ready unsup (-100) 1 := by
  refine ⟨⟨rfl, rfl, rfl, rfl, rfl, rfl, rfl, rfl, ?_⟩, ?_, ?_, ?_, rfl⟩
  · intro i hi j hj
    have hi' : i < 4 := hi
    match i, hi' with
    | 0, _ | 1, _ | 2, _ | 3, _ =>
      simp only [c13Demo, Clu.adjOf, Array.getD_eq_getD_getElem?] at hj
      simp at hj
      subst hj
      exact ⟨by decide, by decide⟩
  · intro i hi
    have hi' : i < 4 := hi
    match i, hi' with
    | 0, _ | 1, _ | 2, _ | 3, _ => decide
  · intro i hi
    have hi' : i < 4 := hi
    match i, hi' with
    | 0, _ | 1, _ | 2, _ | 3, _ => decide
  · intro _ i hi
    have hi' : i < 4 := hi
    match i, hi' with
    | 0, _ | 1, _ | 2, _ | 3, _ => decide

/-- the same with `k = 0`, the value the KNN-supervised method runs the model with. -/
theorem c13Demo_ready0 : c13Demo.Ready false (-100) 0 :=
  ⟨(c13Demo_ready false).wf, (c13Demo_ready false).below, (c13Demo_ready false).sentinel,
    (fun hu => by cases hu), (c13Demo_ready false).fresh⟩

/-- every demo list holds the `n_plateaus + 1` entries `_clustering(1)` reads. -/
theorem c13Demo_long :
    ∀ i, i < c13Demo.n → c13Demo.nplat.getD i 0 + 1 ≤ (c13Demo.adjOf i).length := by
  intro i hi
  have hi' : i < 4 := hi
  match i, hi' with
  | 0, _ | 1, _ | 2, _ | 3, _ => decide

/-- `c13_gen_uns_ids` applies to the demo. -/
example : ∃ sg', uns_clustering 100 c13DemoSG ((1 : Nat) : Int) = some (sg', ()) ∧
      ∃ (m : Nat) (ord : List Nat), sg'.n_clusters = (m : Int) ∧
        m = ((List.range c13Demo.n).filter (fun t => predAt sg'.pred t == none)).length ∧
        sg'.idx_nodes.toList = ord.map (fun (x : Nat) => (x : Int)) ∧
        ((ord.filter (fun t => predAt sg'.pred t == none)).map
            (fun t => sg'.cluster_label.getD t 0)) =
          (List.range m).map (fun (x : Nat) => (x : Int)) :=
  c13_gen_uns_ids 100 c13DemoSG c13Demo 1 (c13DemoSG_rel true) (c13Demo_ready true) (by decide)
    c13Demo_long

/-- `c13_gen_knn_forced` applies to the demo. -/
example : ∃ sg', knn_clustering 100 c13DemoSG true = some (sg', ()) ∧
      ∀ t, t < c13Demo.n → sg'.predicted_label.getD t 0 = c13DemoSG.label.getD t 0 ∧
        sg'.predicted_label.getD t 0 = sg'.label.getD t 0 :=
  c13_gen_knn_forced 100 c13DemoSG c13Demo (c13DemoSG_rel false) c13Demo_ready0 (by decide)

/-- on the demo the translated `UnsupervisedOPF._clustering(1)` returns two clusters `{0,1,2}`
(root `0`, chain `2 → 1 → 0`) and `{3}`, removal order `0 1 2 3`. -/
theorem c13_gen_demo_uns :
    ∃ sg', uns_clustering 100 c13DemoSG ((1 : Nat) : Int) = some (sg', ()) ∧
      sg'.n_clusters = 2 ∧ sg'.idx_nodes = #[0, 1, 2, 3] ∧
      sg'.pred.getD 0 0 = -1 ∧ sg'.pred.getD 1 0 = 0 ∧ sg'.pred.getD 2 0 = 1 ∧
      sg'.pred.getD 3 0 = -1 ∧ sg'.cost.getD 2 0 = 3 ∧
      sg'.cluster_label.getD 2 0 = 0 ∧ sg'.cluster_label.getD 3 0 = 1 := by
  obtain ⟨sg', e, r⟩ := c13_gen_uns_clustering 100 c13DemoSG c13Demo 1 (c13DemoSG_rel true)
    (c13Demo_ready true).wf (by decide) c13Demo_long
  have hv : (clusterRun true false 100 (-100) 1 c13Demo).n = 4 ∧
      (clusterRun true false 100 (-100) 1 c13Demo).nclusters = 2 ∧
      (clusterRun true false 100 (-100) 1 c13Demo).order = #[0, 1, 2, 3] ∧
      (clusterRun true false 100 (-100) 1 c13Demo).predOf 0 = none ∧
      (clusterRun true false 100 (-100) 1 c13Demo).predOf 1 = some 0 ∧
      (clusterRun true false 100 (-100) 1 c13Demo).predOf 2 = some 1 ∧
      (clusterRun true false 100 (-100) 1 c13Demo).predOf 3 = none ∧
      (clusterRun true false 100 (-100) 1 c13Demo).costOf 2 = 3 ∧
      (clusterRun true false 100 (-100) 1 c13Demo).labOf 2 = 0 ∧
      (clusterRun true false 100 (-100) 1 c13Demo).labOf 3 = 1 := by decide +kernel
  obtain ⟨hn, v1, v2, v3, v4, v5, v6, v7, v8, v9⟩ := hv
  have lt : ∀ i, i < 4 → i < (clusterRun true false 100 (-100) 1 c13Demo).n :=
    fun i hi => by rw [hn]; exact hi
  refine ⟨sg', e, ?_, ?_, ?_, ?_, ?_, ?_, ?_, ?_, ?_⟩
  · rw [r.nclusters, v1]; rfl
  · rw [r.order, v2]; simp
  · rw [getD_of_getElem? (r.pred 0 (lt 0 (by decide))), v3]; rfl
  · rw [getD_of_getElem? (r.pred 1 (lt 1 (by decide))), v4]; rfl
  · rw [getD_of_getElem? (r.pred 2 (lt 2 (by decide))), v5]; rfl
  · rw [getD_of_getElem? (r.pred 3 (lt 3 (by decide))), v6]; rfl
  · rw [getD_of_getElem? (r.cost 2 (lt 2 (by decide))), v7]
  · rw [getD_of_getElem? (r.lab_uns rfl 2 (lt 2 (by decide))), v8]; rfl
  · rw [getD_of_getElem? (r.lab_uns rfl 3 (lt 3 (by decide))), v9]; rfl

end Opf.GenCompose
