/-
C11 (training-order independence) — END TO END for the translated code: on tie-free data the translations of
`SupervisedOPF.fit` and `SupervisedOPF.predict` (`Gen/FitImp.lean`, `Gen/PredImp.lean`), started from the translated
constructor's state, give the SAME SAMPLES the same cost and the same assigned label whether the training set is listed
as `(w, lab)` or in another order `(w' a b = w (σ a) (σ b), lab'[a] = lab[σ a])`, and return the same predictions for
tie-free queries (the query distances listed in the corresponding order).

Composition of `c03_gen_master` (refinement) with `c11_perm_exec` (Props/C11Perm.lean) and `fitHyp_of_tieFree`.
STATEMENTS ARE FIXED (DESIGN §2.1b); helper lemmas live in Lemmas/C11GenPermLemmas.lean.
-/
import OpfVerif.Props.C04Gen
import OpfVerif.Props.C11Perm
import OpfVerif.Lemmas.C11GenPermLemmas
namespace Opf.C11GenPerm
open Opf Opf.Gen Opf.Gen.SupImp Opf.SupRefine Opf.FitCompose Opf.GenCompose

/-- a query whose distances to the training samples are positive, pairwise distinct and distinct from every training
distance (so that `max (cost t) (d t)` has a unique minimiser class). -/
def TieFreeQ (w : Nat → Nat → Int) (n : Nat) (d : Nat → Int) : Prop :=
  (∀ s, s < n → 0 < d s) ∧ (∀ s t, s < n → t < n → s ≠ t → d s ≠ d t) ∧
  (∀ s p q, s < n → p < n → q < n → p ≠ q → d s ≠ w p q)

/-- **C11, permutation clause, on the translated source.** -/
theorem c11_gen_permuted (W W' WQ WQ' : Int → Int → Option Int) (w w' : Nat → Nat → Int) (top : Int)
    (lab lab' : Array Nat) (σ τ : Nat → Nat) (psg0 : SG) (ds : List (Nat → Int))
    (H : TieFree w top lab) (hσ : IsRenaming lab.size σ τ) (hsize : lab'.size = lab.size)
    (hw : ∀ a b, a < lab.size → b < lab.size → w' a b = w (σ a) (σ b))
    (hlab : ∀ a, a < lab.size → lab'.getD a 0 = lab.getD (σ a) 0)
    (hW : WAgree lab.size W w) (hW' : WAgree lab'.size W' w')
    (hds : ∀ d ∈ ds, TieFreeQ w lab.size d)
    (hq : QuerySG psg0 ds.length)
    (hWQ : WQAgree lab.size WQ ds) (hWQ' : WQAgree lab'.size WQ' (ds.map (fun d a => d (σ a)))) :
    ∃ sg1 sg1' p sg2 sg2' p',
      fit W top (initSG lab) = some (sg1, ()) ∧ predict WQ sg1 psg0 = some (sg1', p) ∧
      fit W' top (initSG lab') = some (sg2, ()) ∧ predict WQ' sg2 psg0 = some (sg2', p') ∧
      (∀ t, t < lab.size → sg2.cost[t]? = sg1.cost[σ t]? ∧ sg2.predicted_label[t]? = sg1.predicted_label[σ t]?) ∧
      p' = p := by
  have HF := Opf.C04Gen.fitHyp_of_tieFree w top lab H
  have H' := H.rename hσ hsize hw hlab
  have HF' := Opf.C04Gen.fitHyp_of_tieFree w' top lab' H'
  obtain ⟨sg1, sg1', p, he, hp, r, _, hpreds⟩ :=
    c03_gen_master W WQ w top (initSG lab) lab psg0 ds (c01_gen_initSG lab) hW HF hq hWQ
  obtain ⟨sg2, sg2', p', he', hp', r', _, hpreds'⟩ :=
    c03_gen_master W' WQ' w' top (initSG lab') lab' psg0 (ds.map (fun d a => d (σ a)))
      (c01_gen_initSG lab') hW' HF' (by rw [List.length_map]; exact hq) hWQ'
  have hn : (fitRun w top false lab.size lab).f.n = lab.size := fitRun_n HF false
  have hn' : (fitRun w' top false lab'.size lab').f.n = lab'.size := fitRun_n HF' false
  obtain ⟨hfields, hpred⟩ := c11_perm_exec w w' top lab lab' σ τ H hσ hsize hw hlab
  refine ⟨sg1, sg1', p, sg2, sg2', p', he, hp, he', hp', ?_, ?_⟩
  · intro t ht
    have ht' : t < lab'.size := by rw [hsize]; exact ht
    have hσt : σ t < lab.size := hσ.lt ht
    rw [r'.cost t (by rw [hn']; exact ht'), r'.plabel t (by rw [hn']; exact ht'),
      r.cost _ (by rw [hn]; exact hσt), r.plabel _ (by rw [hn]; exact hσt),
      (hfields t ht).1, (hfields t ht).2]
    exact ⟨rfl, rfl⟩
  · rw [hpreds, hpreds', predictBatch_labels, predictBatch_labels, List.map_map]
    congr 1
    apply List.map_congr_left
    intro d hd
    obtain ⟨h1, h2, h3⟩ := hds d hd
    obtain ⟨ro, ro', e1, e2, e3⟩ := hpred d h1 h2 h3
    simp only [Function.comp]
    rw [e1, e2]
    simp [e3]

/-! ### non-vacuity: the tie-free demo of `Props/C04Gen.lean` (samples at 0, 1, 5 with classes 1, 1, 2) listed in the
reverse order (`σ` exchanges positions 0 and 2). -/

def demoσ : Nat → Nat := fun x => if x = 0 then 2 else if x = 2 then 0 else x

theorem demoσ_renaming : IsRenaming (#[1, 1, 2] : Array Nat).size demoσ demoσ := by
  have h3 : ∀ p, p < (#[1, 1, 2] : Array Nat).size → p = 0 ∨ p = 1 ∨ p = 2 := by intro p hp; simp at hp; omega
  constructor <;> intro x hx <;> rcases h3 x hx with rfl | rfl | rfl <;> decide

example : ∃ sg1 sg1' p sg2 sg2' p',
    fit demoW 100 (initSG #[1, 1, 2]) = some (sg1, ()) ∧
    predict (fun _ _ => none) sg1 (querySG 0) = some (sg1', p) ∧
    fit (fun a b => some (c15_demo_w (demoσ a.toNat) (demoσ b.toNat))) 100 (initSG #[2, 1, 1]) = some (sg2, ()) ∧
    predict (fun _ _ => none) sg2 (querySG 0) = some (sg2', p') ∧
    (∀ t, t < 3 → sg2.cost[t]? = sg1.cost[demoσ t]? ∧ sg2.predicted_label[t]? = sg1.predicted_label[demoσ t]?) ∧
    p' = p :=
  c11_gen_permuted demoW _ _ _ c15_demo_w (fun a b => c15_demo_w (demoσ a) (demoσ b)) 100 #[1, 1, 2] #[2, 1, 1]
    demoσ demoσ (querySG 0) [] C04Gen.demo_tieFree demoσ_renaming rfl (fun _ _ _ _ => rfl)
    (by
      intro a ha
      have : a = 0 ∨ a = 1 ∨ a = 2 := by simp at ha; omega
      rcases this with rfl | rfl | rfl <;> decide)
    c01_gen_demo_hyps.2.1 (fun a b _ _ => by simp)
    (by intro d hd; cases hd) (c03_gen_query_hyps 3 []).1
    (by intro i hi; cases hi) (by intro i hi; cases hi)

end Opf.C11GenPerm
