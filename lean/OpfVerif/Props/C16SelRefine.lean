/-
C16 — the selection loops AS WRITTEN IN /repo (translated statement by statement: `Gen/SelImp.lean`) compute
`selectMaxAcc` / `selectMinCut` over the criterion values they observe, and the final model is built with the
selected `k` — for every behaviour of the methods they call (`SelOps`), every `max_k`, `min_k`, every state.

STATEMENTS ARE FIXED (DESIGN §2.1b); helper lemmas live in Lemmas/SelRefine.lean.
-/
import OpfVerif.Gen.SelImp
import OpfVerif.Lemmas.SelRefine
import OpfVerif.Props.C16

namespace Opf.C16Sel
open Opf Opf.Sel Opf.Gen.SelImp Opf.SelRefine
variable {σ : Type}

/-- translated `KNNSupervisedOPF._learn` = its specification (every candidate 1..max_k evaluated in order by
`knnCandidate`, the kept `k` is `selectMaxAcc` of the observed accuracies; `none` = an exception, in particular
`UnboundLocalError` when no accuracy exceeds the start value). -/
theorem knn_learn_refines (ops : SelOps σ) (top negOne zero : Int) (s0 : σ) :
    knn_learn ops top negOne zero s0 = knnLearnSpec ops negOne s0 := by
  rw [knn_learn_eq]
  unfold knnLearnSpec Py.forRange
  simp only [Option.bind_eq_bind, Option.pure_def]
  cases h0 : ops.new_subgraph s0 with
  | none => rfl
  | some s1 =>
    simp only [Option.bind_some]
    have hk : ∀ s : σ, ops.max_k s + 1 - 1 = ops.max_k s := fun s => by omega
    simp only [knn_loop ops (knnBody ops) (knnBody_spec ops), hk, knnGuard, knn_learn_tail]
    by_cases hp : ops.pre_computed_distance s1 = true
    · simp only [hp, if_true, Bool.true_and]
      split <;> simp
    · simp [hp]

/-- translated `KNNSupervisedOPF.fit` = `_learn`, then the final model built from the `best_k` it stored. -/
theorem knn_fit_refines (ops : SelOps σ) (top negOne zero : Int) (s0 : σ) :
    knn_fit ops top negOne zero s0 = (knnLearnSpec ops negOne s0).bind (knnBuild ops) := by
  unfold knn_fit
  rw [knn_learn_refines]
  simp only [Option.bind_eq_bind]
  cases knnLearnSpec ops negOne s0 with
  | none => rfl
  | some s1 =>
    simp only [Option.bind_some, knnBuild, Option.bind_eq_bind]

/-- translated `UnsupervisedOPF._best_minimum_cut` = its specification. -/
theorem uns_bmc_refines (ops : SelOps σ) (top negOne zero : Int) (s : σ) (min_k max_k : Int) :
    uns_best_minimum_cut ops top negOne zero s min_k max_k = unsBmcSpec ops top zero s min_k max_k := by
  rw [uns_bmc_eq]
  unfold unsBmcSpec Py.forRange
  simp only [Option.bind_eq_bind, Option.pure_def]
  cases h0 : ops.create_arcs s max_k with
  | none => rfl
  | some r0 =>
    obtain ⟨s1, md⟩ := r0
    simp only [Option.bind_some]
    have hl := uns_loop ops md zero min_k (unsBody ops md zero min_k) (unsBody_spec ops md zero min_k)
      (max_k + 1 - min_k).toNat 0 s1 top none 0
    simp only [Nat.zero_add, Option.map_none, Int.natCast_zero, Int.add_zero] at hl
    rw [hl]
    cases h1 : unsTrace ops md zero (max_k + 1 - min_k).toNat min_k top s1 with
    | none => rfl
    | some r1 =>
      obtain ⟨s2, ev⟩ := r1
      simp only [Option.bind_some, unsOut, selectMinCut_eq]
      cases h2 : ops.destroy_arcs s2 with
      | none => rfl
      | some s3 =>
        simp only [Option.bind_some]
        cases (List.foldl (cutStep zero) (top, none, 0, 0) ev).2.1 with
        | none => rfl
        | some i =>
          simp only [Option.map_some, Option.bind_some]
          simp

/-- translated `UnsupervisedOPF.fit` = its specification. -/
theorem uns_fit_refines (ops : SelOps σ) (top negOne zero : Int) (s0 : σ) :
    uns_fit ops top negOne zero s0 = unsFitSpec ops top zero s0 := by
  unfold uns_fit unsFitSpec
  simp only [uns_bmc_refines, Option.bind_eq_bind]

/-- the trace of `_learn` observes exactly one accuracy per candidate. -/
theorem knnTrace_length (ops : SelOps σ) (m : Nat) (s s' : σ) (accs : List Int)
    (h : knnTrace ops m s = some (s', accs)) : accs.length = m := by
  exact SelRefine.knnTrace_length ops m s s' accs h

/-- every cut in the trace of `_best_minimum_cut` was consulted by `selectMinCut`, the trace is no longer than the
candidate range, and it is shorter only after a cut of exactly `zero`. -/
theorem unsTrace_evaluated (ops : SelOps σ) (md : Array Int) (top zero : Int) (c : Nat) (k0 : Int) (s s' : σ)
    (ev : List Int) (h : unsTrace ops md zero c k0 top s = some (s', ev)) :
    (selectMinCut top zero 0 ev).2 = ev.length ∧ ev.length ≤ c ∧ (ev.length < c → top = zero ∨ zero ∈ ev) := by
  have := unsTrace_eval_gen ops md zero c k0 top s s' ev none 0 0 h
  rw [selectMinCut_eq]
  simpa using this

/-- **C16, KNN-supervised clause, on the translated source.** Whenever translated `fit` returns, the `k` it kept is
the SMALLEST `k` in `1..max_k` whose validation accuracy is highest among ALL candidates (accuracies exceed the start
value `-1.0`: C20 `c20_acc_range`), that `k` is what `_learn` stores, and the final model is `knnBuild` from that
state. -/
theorem c16_knn_fit_selects (ops : SelOps σ) (top negOne zero : Int) (s0 s' : σ)
    (hacc : ∀ p a, ops.opf_accuracy p = some a → negOne < a)
    (h : knn_fit ops top negOne zero s0 = some s') :
    ∃ s1 s2 s3 accs k, ops.new_subgraph s0 = some s1 ∧
      knnTrace ops (ops.max_k s1).toNat s1 = some (s2, accs) ∧ accs.length = (ops.max_k s1).toNat ∧
      selectMaxAcc negOne accs = some k ∧ 1 ≤ k ∧ k ≤ accs.length ∧
      (∀ j, 1 ≤ j → j ≤ accs.length → accs[j-1]! ≤ accs[k-1]!) ∧
      (∀ j, 1 ≤ j → j < k → accs[j-1]! < accs[k-1]!) ∧
      ops.set_best_k s2 (k : Int) = some s3 ∧ knnBuild ops s3 = some s' := by
  rw [knn_fit_refines] at h
  unfold knnLearnSpec at h
  simp only [Option.bind_eq_bind] at h
  cases h0 : ops.new_subgraph s0 with
  | none => simp [h0] at h
  | some s1 =>
  simp only [h0, Option.bind_some] at h
  by_cases hg : knnGuard ops s1 = true
  · simp [hg] at h
  · simp only [hg] at h
    cases h1 : knnTrace ops (ops.max_k s1).toNat s1 with
    | none => simp [h1] at h
    | some r1 =>
    obtain ⟨s2, accs⟩ := r1
    simp only [h1, Option.bind_some] at h
    cases h2 : selectMaxAcc negOne accs with
    | none => simp [h2] at h
    | some k =>
    simp only [h2, Option.bind_some] at h
    cases h3 : ops.set_best_k s2 (k : Int) with
    | none => simp [h3] at h
    | some s3 =>
    simp only [h3] at h
    have hlen := SelRefine.knnTrace_length ops _ _ _ _ h1
    have hne : accs ≠ [] := by
      intro he; subst he; simp [selectMaxAcc] at h2
    have hstart : ∀ a ∈ accs, negOne < a := by
      intro a ha
      obtain ⟨p, hp⟩ := knnTrace_acc ops _ _ _ _ h1 a ha
      exact hacc p a hp
    obtain ⟨k', hk', hk1, hk2, hk3, hk4⟩ := c16_knn_select negOne accs hne hstart
    rw [h2] at hk'
    obtain rfl := Option.some.inj hk'
    exact ⟨s1, s2, s3, accs, k, rfl, h1, hlen, h2, hk1, hk2, hk3, hk4, h3, h⟩

/-- **C16, unsupervised clause, on the translated source.** Whenever translated `fit` returns, the kept `k` is
`min_k + i` where `i` is the FIRST position of the lowest cut among the evaluated candidates; the evaluated candidates
are a prefix of `min_k..max_k` that is proper only after a cut of exactly 0; and the final clustering is made with that
`k` (arcs re-created and densities recomputed with it, then `_clustering(best_k)` on the state whose `best_k` was set
to it). -/
theorem c16_uns_fit_selects (ops : SelOps σ) (top negOne zero : Int) (s0 s' : σ)
    (hcut : ∀ s k c, ops.normalized_cut s k = some c → zero ≤ c ∧ c < top)
    (h : uns_fit ops top negOne zero s0 = some s') :
    ∃ s1 s2 md s3 ev i s4 s5 s6 md' s7 s8, ops.new_subgraph s0 = some s1 ∧
      ops.create_arcs s1 (ops.max_k s1) = some (s2, md) ∧
      unsTrace ops md zero (ops.max_k s1 + 1 - ops.min_k s1).toNat (ops.min_k s1) top s2 = some (s3, ev) ∧
      ev.length ≤ (ops.max_k s1 + 1 - ops.min_k s1).toNat ∧
      (selectMinCut top zero 0 ev).1 = some i ∧ i < ev.length ∧
      (∀ c ∈ ev, ev[i]! ≤ c) ∧ (∀ j, j < i → ev[i]! < ev[j]!) ∧
      (ev.length < (ops.max_k s1 + 1 - ops.min_k s1).toNat → ev[i]! = zero) ∧
      ops.destroy_arcs s3 = some s4 ∧ ops.set_best_k s4 (ops.min_k s1 + (i : Int)) = some s5 ∧
      ops.create_arcs s5 (ops.min_k s1 + (i : Int)) = some (s6, md') ∧
      ops.calculate_pdf s6 (ops.min_k s1 + (i : Int)) = some s7 ∧
      ops.uns_clustering s7 (ops.get_best_k s7) = some s8 ∧ ops.set_trained s8 true = some s' := by
  rw [uns_fit_refines] at h
  unfold unsFitSpec unsBmcSpec at h
  simp only [Option.bind_eq_bind] at h
  cases h0 : ops.new_subgraph s0 with
  | none => simp [h0] at h
  | some s1 =>
  simp only [h0, Option.bind_some] at h
  cases h1 : ops.create_arcs s1 (ops.max_k s1) with
  | none => simp [h1] at h
  | some r1 =>
  obtain ⟨s2, md⟩ := r1
  simp only [h1, Option.bind_some] at h
  cases h2 : unsTrace ops md zero (ops.max_k s1 + 1 - ops.min_k s1).toNat (ops.min_k s1) top s2 with
  | none => simp [h2] at h
  | some r2 =>
  obtain ⟨s3, ev⟩ := r2
  simp only [h2, Option.bind_some] at h
  cases h3 : ops.destroy_arcs s3 with
  | none => simp [h3] at h
  | some s4 =>
  simp only [h3, Option.bind_some] at h
  cases h4 : (selectMinCut top zero 0 ev).1 with
  | none => simp [h4] at h
  | some i =>
  simp only [h4, Option.bind_some] at h
  cases h5 : ops.set_best_k s4 (ops.min_k s1 + (i : Int)) with
  | none => simp [h5] at h
  | some s5 =>
  simp only [h5, Option.bind_some] at h
  cases h6 : ops.create_arcs s5 (ops.min_k s1 + (i : Int)) with
  | none => simp [h6] at h
  | some r6 =>
  obtain ⟨s6, md'⟩ := r6
  simp only [h6, Option.bind_some] at h
  cases h7 : ops.calculate_pdf s6 (ops.min_k s1 + (i : Int)) with
  | none => simp [h7] at h
  | some s7 =>
  simp only [h7, Option.bind_some] at h
  cases h8 : ops.uns_clustering s7 (ops.get_best_k s7) with
  | none => simp [h8] at h
  | some s8 =>
  simp only [h8, Option.bind_some] at h
  obtain ⟨e1, e2, e3⟩ := unsTrace_evaluated ops md top zero _ _ _ _ _ h2
  have hne : ev ≠ [] := by
    intro he; subst he; simp [selectMinCut] at h4
  have hall : ∀ c ∈ ev, zero ≤ c ∧ c < top := by
    intro c hc
    obtain ⟨s, k, hk⟩ := unsTrace_cut ops md zero _ _ _ _ _ _ h2 c hc
    exact hcut s k c hk
  obtain ⟨k, hk, _, hk2, _, _, _, hk6, hk7, _⟩ := c16_unsup_select top zero 0 ev hne hall
  rw [h4] at hk
  obtain rfl := Option.some.inj hk
  rw [e1] at hk2 hk6
  rw [List.take_length] at hk6
  simp only [Nat.sub_zero] at hk6 hk7
  have hi : i < ev.length := by omega
  refine ⟨s1, s2, md, s3, ev, i, s4, s5, s6, md', s7, s8, rfl, h1, h2, e2, h4, hi, hk6,
    fun j hj => hk7 j (Nat.zero_le j) hj, ?_, h3, h5, h6, h7, h8, h⟩
  intro hlt
  have hmem : ev[i]! ∈ ev := by
    rw [getElem!_pos ev i hi]; exact List.getElem_mem hi
  rcases e3 hlt with htz | hz
  · have := hall _ hmem; omega
  · have h1 := hk6 zero hz
    have h2 := (hall _ hmem).1
    omega

/-! ## non-vacuity: a concrete object on which both translated `fit`s return, with the hypotheses of the two
end-to-end theorems satisfied (accuracies 5, 9, 9, 3 above the start value -1; cuts 7, 4, 0, 1 within [0, 1000)). The
state is the log of the calls made (one code per call) and the stored `best_k`. -/

def demoOps (mk Mk : Int) : SelOps (List Int × Int) where
  new_subgraph := fun s => some (s.1 ++ [1], s.2)
  pre_computed_distance := fun _ => true
  pre_shape0 := fun _ => 3
  pre_shape1 := fun _ => 3
  n_nodes := fun _ => 3
  min_k := fun _ => mk
  max_k := fun _ => Mk
  get_best_k := fun s => s.2
  set_best_k := fun s k => if k < 0 then none else some (s.1 ++ [20 + k], k)
  set_density := fun s d => some (s.1 ++ [d], s.2)
  set_trained := fun s _ => some (s.1 ++ [3], s.2)
  create_arcs := fun s k => some ((s.1 ++ [40 + k], s.2), #[100, 200, 300, 400])
  calculate_pdf := fun s k => some (s.1 ++ [50 + k], s.2)
  destroy_arcs := fun s => some (s.1 ++ [6], s.2)
  knn_clustering := fun s b => some (s.1 ++ [if b then 71 else 70], s.2)
  uns_clustering := fun s k => some (s.1 ++ [80 + k], s.2)
  predict_val := fun s => some ((s.1 ++ [9], s.2), #[s.2])
  opf_accuracy := fun p => do let k ← p[0]?; (#[5, 9, 9, 3] : Array Int)[(k - 1).toNat]?
  normalized_cut := fun _ k => (#[7, 4, 0, 1] : Array Int)[(k - 1).toNat]?

/-- KNN: candidates 1..4 with accuracies 5, 9, 9, 3 — `k = 2` (the first 9) is kept and the final model is built with it. -/
example : knn_fit (demoOps 1 4) 1000 (-1) 0 ([], 0) =
    some ([1, 21, 41, 51, 70, 9, 6, 22, 42, 52, 70, 9, 6, 23, 43, 53, 70, 9, 6, 24, 44, 54, 70, 9, 6,
           22, 42, 52, 71, 6, 3], 2) := by
  rw [knn_fit_refines]; decide +kernel

example : ∀ p a, (demoOps 1 4).opf_accuracy p = some a → (-1 : Int) < a := by
  intro p a h
  simp only [demoOps] at h
  cases hp : p[0]? with
  | none => simp [hp] at h
  | some k =>
    simp only [hp, Option.bind_eq_bind, Option.bind_some] at h
    have : a ∈ (#[5, 9, 9, 3] : Array Int) := Array.mem_of_getElem? h
    simp at this; omega

/-- unsupervised: candidates 1..4, cuts 7, 4, 0 — the search stops after the exact 0 at `k = 3` (candidate 4 is never
evaluated) and the final clustering uses `k = 3`. -/
example : uns_fit (demoOps 1 4) 1000 (-1) 0 ([], 0) =
    some ([1, 44, 100, 21, 51, 81, 200, 22, 52, 82, 300, 23, 53, 83, 6, 23, 43, 53, 83, 3], 3) := by
  rw [uns_fit_refines]; decide +kernel

end Opf.C16Sel
