/-
C05 — the indexed heap is a correct priority queue for every operation sequence.

Property theorems only (helper lemmas live in `OpfVerif/Lemmas/Heap.lean`).  They are about the
model `Opf.Heap` of `opfython/core/heap.py` (L0), for every capacity, both policies, every cost
assignment (ties included) and every finite history of operations that respects the contract the
property states: `insert` of WHITE (never queued) identifiers, `update` that does not worsen a
queued element's cost.
-/
import OpfVerif.Lemmas.Heap
namespace Opf.Heap

/-- the freshly constructed heap is well formed and empty. -/
theorem c05_inv_init (size : Nat) (isMax : Bool) (top : Int) :
    Inv (init size isMax top) ∧ ∀ x, ¬ Queued (init size isMax top) x :=
  ⟨inv_init size isMax top, fun x hx => by
    have := init_colorOf size isMax top x
    unfold Queued at hx
    rw [this] at hx
    exact absurd hx.2 (by decide)⟩

/-- `insert` on a full heap reports failure and changes nothing. -/
theorem c05_insert_full (h : Heap) (x : Nat) (hfull : h.cnt = h.size) :
    h.insert x = (h, false) := insert_full h x hfull

/-- `remove` on an empty heap reports failure and changes nothing. -/
theorem c05_remove_empty (h : Heap) (hempty : h.cnt = 0) :
    h.remove = (h, none) := remove_empty h hempty

/-- `insert` of a WHITE identifier succeeds (a well-formed heap holding a WHITE id is not full),
queues exactly that identifier and keeps the invariant. -/
theorem c05_insert (h : Heap) (x : Nat) (hinv : Inv h) (hx : x < h.size) (hw : h.colorOf x = WHITE) :
    (h.insert x).2 = true ∧ Inv (h.insert x).1 ∧
    (h.insert x).1.colorOf x = GRAY ∧
    (∀ y, y ≠ x → (h.insert x).1.colorOf y = h.colorOf y) ∧
    (∀ y, (h.insert x).1.costOf y = h.costOf y) ∧
    (h.insert x).1.cnt = h.cnt + 1 := insert_spec h x hinv hx hw

/-- `remove` on a non-empty heap returns a queued element whose cost is extremal among all
queued elements, turns it BLACK, dequeues exactly it and keeps the invariant. -/
theorem c05_remove_extremal (h : Heap) (hinv : Inv h) (hne : 0 < h.cnt) :
    ∃ x, (h.remove).2 = some x ∧ Queued h x ∧
      (∀ y, Queued h y → better h.isMax (h.costOf y) (h.costOf x) = false) ∧
      Inv (h.remove).1 ∧
      (h.remove).1.colorOf x = BLACK ∧
      (∀ y, y ≠ x → (h.remove).1.colorOf y = h.colorOf y) ∧
      (∀ y, (h.remove).1.costOf y = h.costOf y) ∧
      (h.remove).1.cnt = h.cnt - 1 := remove_spec h hinv hne

/-- `update` with a cost that does not worsen a queued element (any cost for a WHITE or BLACK
one) sets the cost, queues a WHITE element, and keeps the invariant. -/
theorem c05_update (h : Heap) (x : Nat) (c : Int) (hinv : Inv h) (hx : x < h.size)
    (hcontract : h.colorOf x = GRAY → better h.isMax (h.costOf x) c = false) :
    Inv (h.update x c) ∧ (h.update x c).costOf x = c ∧
    (∀ y, y ≠ x → (h.update x c).costOf y = h.costOf y) ∧
    (h.update x c).colorOf x = (if h.colorOf x = WHITE then GRAY else h.colorOf x) ∧
    (∀ y, y ≠ x → (h.update x c).colorOf y = h.colorOf y) := update_spec h x c hinv hx hcontract

/-- emptiness and fullness are reported truthfully. -/
theorem c05_truthful (h : Heap) (hinv : Inv h) :
    (h.isEmpty = true ↔ ∀ x, ¬ Queued h x) ∧
    (h.isFull = true ↔ ∀ x, x < h.size → Queued h x) := truthful h hinv

/-! ### histories (vocabulary in `Model/HeapSpec.lean`) -/

/-- the invariant holds in every reachable state. -/
theorem c05_reachable_inv (size : Nat) (isMax : Bool) (top : Int) (ops : List Op)
    (hl : LegalRun (init size isMax top) ops) : Inv (run (init size isMax top) ops).1 :=
  run_inv _ ops (inv_init size isMax top) hl

/-- over any legal history no identifier is returned twice, every returned identifier had been
queued, and if the history leaves the heap empty then every identifier that was ever queued has
been returned exactly once (`colorOf x ≠ WHITE` ⇔ it was queued at some point). -/
theorem c05_exactly_once (size : Nat) (isMax : Bool) (top : Int) (ops : List Op)
    (hl : LegalRun (init size isMax top) ops) :
    let r := run (init size isMax top) ops
    (returned r.2).Nodup ∧
    (∀ x, x ∈ returned r.2 ↔ (x < size ∧ r.1.colorOf x = BLACK)) ∧
    (r.1.isEmpty = true → ∀ x, x < size → r.1.colorOf x ≠ WHITE → x ∈ returned r.2) :=
  run_exactly_once size isMax top ops hl

/-- a failed operation (insert on a full heap, remove on an empty one) leaves the heap exactly as
it was; `run` being a function of the state, all later behaviour is unaffected. -/
theorem c05_fail_unaffected (h : Heap) (op : Op) (hinv : Inv h) (hl : Legal h op)
    (hfail : (step h op).2 = .fail) (rest : List Op) :
    (step h op).1 = h ∧ run (step h op).1 rest = run h rest := fail_unaffected h op hinv hl hfail rest

/-- non-vacuity: a 9-operation history with tied costs on a capacity-3 min-heap is legal, drains
the heap, and returns the three identifiers in cost order. -/
example :
    let ops := [Op.ins 2 5, .ins 0 5, .upd 1 7, .insraw 1, .upd 1 5, .rem, .upd 0 3, .rem, .rem, .rem]
    LegalRun (init 3 false 100) ops ∧
    (run (init 3 false 100) ops).2 =
      [.ok, .ok, .ok, .fail, .ok, .removed 2, .ok, .removed 0, .removed 1, .fail] := by
  decide +kernel

end Opf.Heap
