/-
C17 — `SupervisedOPF.learn` for EVERY `n_iterations` (also `≤ 0`, where only convergence ends the loop and the
translated `while True` may not terminate): whenever the translated method RETURNS, it returns what the specification
returns for some number of iterations, the samples are conserved and the first best classifier is kept.  Complements
`Props/C17LearnRefine.lean` (which shows termination and equality for `1 ≤ n_iterations`).

STATEMENTS ARE FIXED (DESIGN §2.1b); helper lemmas live in Lemmas/LearnAny.lean.
-/
import OpfVerif.Props.C17LearnRefine
import OpfVerif.Lemmas.LearnAny

namespace Opf.C17Learn
open Opf Opf.LearnSpec Opf.Gen
variable {σ β ρ : Type}

/-- `learnSpec` with the iteration budget of `run` made explicit. -/
def learnSpecFuel (ops : LearnOps σ β ρ) (proto negOne zero small : Int) (s : σ) (rng : ρ) (d : Data β) (n : Int)
    (fuel : Nat) : Option (σ × ρ × Data β) := do
  let (tr, rng, d) ← run ops proto small n fuel 0 zero s rng d
  let b ← bestIter negOne (tr.map (·.2))
  let best ← tr[b]?
  let last ← tr.getLast?
  let s ← ops.restore last.1 best.1
  pure (s, rng, d)

/-- partial correctness for every `n`: a returned result is the specification's for some budget. -/
theorem learn_refines_any (ops : LearnOps σ β ρ) (proto negOne zero small : Int) (s : σ) (rng : ρ)
    (Xt : Array β) (Yt : Array Int) (Xv : Array β) (Yv : Array Int) (n : Int)
    (r : σ × ρ × Array β × Array Int × Array β × Array Int)
    (h : LearnImp.learn ops proto negOne zero small s rng Xt Yt Xv Yv n = some r) :
    ∃ fuel, (learnSpecFuel ops proto negOne zero small s rng { Xt := Xt, Yt := Yt, Xv := Xv, Yv := Yv } n fuel).map flat
      = some r := by
  rw [LearnRefine.learn_eq] at h
  cases hw : Py.whileM LearnRefine.outerCond (LearnRefine.outerBody ops proto small n)
      (s, rng, negOne, Xt, Xv, Yt, Yv, zero, (0 : Int), (none : Option σ), (none : Option Int), true) with
  | none => rw [hw] at h; cases h
  | some res =>
    rw [hw] at h
    simp only [Option.bind_some, Option.some.injEq] at h
    obtain ⟨fuel, r1, hr, hpr⟩ := (LearnAny.loop_post ops proto small n _ _ hw s rng negOne
      { Xt := Xt, Yt := Yt, Xv := Xv, Yv := Yv } zero 0 none none true rfl).2 rfl rfl
    refine ⟨fuel, ?_⟩
    have key : learnSpecFuel ops proto negOne zero small s rng { Xt := Xt, Yt := Yt, Xv := Xv, Yv := Yv } n fuel =
        (run ops proto small n fuel 0 zero s rng { Xt := Xt, Yt := Yt, Xv := Xv, Yv := Yv }).bind
          (LearnRefine.finishAcc ops negOne none) := by
      simp only [learnSpecFuel, Option.bind_eq_bind, Option.pure_def]
      exact LearnAny.specFuel_eq ops negOne _
    rw [key, ← LearnRefine.runAcc_eq, hr, ← h, hpr]
    rfl

/-- … and conversely a specification run that returns is what the translated method returns. -/
theorem learn_refines_any_conv (ops : LearnOps σ β ρ) (proto negOne zero small : Int) (s : σ) (rng : ρ)
    (Xt : Array β) (Yt : Array Int) (Xv : Array β) (Yv : Array Int) (n : Int) (fuel : Nat)
    (r : σ × ρ × Data β)
    (h : learnSpecFuel ops proto negOne zero small s rng { Xt := Xt, Yt := Yt, Xv := Xv, Yv := Yv } n fuel = some r) :
    LearnImp.learn ops proto negOne zero small s rng Xt Yt Xv Yv n = some (flat r) := by
  have key : learnSpecFuel ops proto negOne zero small s rng { Xt := Xt, Yt := Yt, Xv := Xv, Yv := Yv } n fuel =
      (run ops proto small n fuel 0 zero s rng { Xt := Xt, Yt := Yt, Xv := Xv, Yv := Yv }).bind
        (LearnRefine.finishAcc ops negOne none) := by
    simp only [learnSpecFuel, Option.bind_eq_bind, Option.pure_def]
    exact LearnAny.specFuel_eq ops negOne _
  rw [key, ← LearnRefine.runAcc_eq] at h
  rw [LearnRefine.learn_eq]
  exact LearnAny.loop_of_runAcc ops proto small n fuel 0 zero s rng { Xt := Xt, Yt := Yt, Xv := Xv, Yv := Yv }
    negOne none none r rfl h

/-- **C17, conservation clause, every `n_iterations`.** -/
theorem c17_learn_conserves_any (ops : LearnOps σ β ρ) (proto negOne zero small : Int) (s s' : σ) (rng rng' : ρ)
    (Xt Xt' : Array β) (Yt Yt' : Array Int) (Xv Xv' : Array β) (Yv Yv' : Array Int) (n : Int)
    (hst : Xt.size = Yt.size) (hsv : Xv.size = Yv.size)
    (h : LearnImp.learn ops proto negOne zero small s rng Xt Yt Xv Yv n = some (s', rng', Xt', Yt', Xv', Yv')) :
    Xt'.size = Xt.size ∧ Yt'.size = Yt.size ∧ Xv'.size = Xv.size ∧ Yv'.size = Yv.size ∧
      (pairs { Xt := Xt', Yt := Yt', Xv := Xv', Yv := Yv' }).Perm (pairs { Xt := Xt, Yt := Yt, Xv := Xv, Yv := Yv }) := by
  obtain ⟨fuel, hf⟩ := learn_refines_any ops proto negOne zero small s rng Xt Yt Xv Yv n _ h
  cases hs : learnSpecFuel ops proto negOne zero small s rng { Xt := Xt, Yt := Yt, Xv := Xv, Yv := Yv } n fuel with
  | none => rw [hs] at hf; cases hf
  | some r =>
    obtain ⟨s1, rng1, d1⟩ := r
    rw [hs] at hf
    simp only [Option.map_some, flat, Option.some.injEq, Prod.mk.injEq] at hf
    obtain ⟨rfl, rfl, rfl, rfl, rfl, rfl⟩ := hf
    simp only [learnSpecFuel, Option.bind_eq_bind, Option.pure_def] at hs
    obtain ⟨tr, b, best, last, hrun, _⟩ := LearnAny.finish_some ops negOne _ _ _ _ hs
    exact LearnRefine.run_cons ops proto small n _ _ _ _ _ _ _ _ _ ⟨hst, hsv⟩ hrun

/-- **C17, best-model clause, every `n_iterations`.** -/
theorem c17_learn_keeps_best_any (ops : LearnOps σ β ρ) (proto negOne zero small : Int) (s s' : σ) (rng rng' : ρ)
    (Xt Xt' : Array β) (Yt Yt' : Array Int) (Xv Xv' : Array β) (Yv Yv' : Array Int) (n : Int)
    (h : LearnImp.learn ops proto negOne zero small s rng Xt Yt Xv Yv n = some (s', rng', Xt', Yt', Xv', Yv')) :
    ∃ fuel tr d' b best last,
      run ops proto small n fuel 0 zero s rng { Xt := Xt, Yt := Yt, Xv := Xv, Yv := Yv } = some (tr, rng', d') ∧
      1 ≤ tr.length ∧
      bestIter negOne (tr.map (·.2)) = some b ∧ tr[b]? = some best ∧ tr.getLast? = some last ∧
      ops.restore last.1 best.1 = some s' ∧ negOne < best.2 ∧
      (∀ x ∈ tr, x.2 ≤ best.2) ∧ (∀ j, j < b → ∀ x, tr[j]? = some x → x.2 < best.2) := by
  obtain ⟨fuel, hf⟩ := learn_refines_any ops proto negOne zero small s rng Xt Yt Xv Yv n _ h
  cases hs : learnSpecFuel ops proto negOne zero small s rng { Xt := Xt, Yt := Yt, Xv := Xv, Yv := Yv } n fuel with
  | none => rw [hs] at hf; cases hf
  | some r =>
    obtain ⟨s1, rng1, d1⟩ := r
    rw [hs] at hf
    simp only [Option.map_some, flat, Option.some.injEq, Prod.mk.injEq] at hf
    obtain ⟨rfl, rfl, _⟩ := hf
    simp only [learnSpecFuel, Option.bind_eq_bind, Option.pure_def] at hs
    obtain ⟨tr, b, best, last, hrun, hb, hbest, hlast, hrest⟩ := LearnAny.finish_some ops negOne _ _ _ _ hs
    obtain ⟨hl1, _⟩ := LearnRefine.run_length ops proto small n _ _ _ _ _ _ _ _ _ hrun
    obtain ⟨f1, f2, f3⟩ := LearnRefine.best_facts negOne tr b best hb hbest
    exact ⟨fuel, tr, d1, b, best, last, hrun, hl1, hb, hbest, hlast, hrest, f1, f2, f3⟩

end Opf.C17Learn
