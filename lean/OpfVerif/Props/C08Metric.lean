/-
C08 (metric part) — the TRIANGLE INEQUALITY for the 13 true metrics of
`opfython/math/distance.py`, stated on the real semantics (`S.evalR`) of the generated bodies
(`Gen.body_<f>`).  IEEE rounding is not modelled (see `Lemmas/ExprReal.lean`).
Non-negativity of the non-syntactically-non-negative bodies lives in `Props/C08Nonneg.lean`.
-/
import OpfVerif.Lemmas.ExprReal
import OpfVerif.Gen.Distance
import Mathlib.Analysis.InnerProductSpace.PiL2
import Mathlib.Analysis.SpecialFunctions.Log.Basic
import Mathlib.Order.ConditionallyCompleteLattice.Finset
namespace Opf
open scoped BigOperators

/-! ### scalar / vector lemmas -/

private theorem abs_sub_tri (a b c : ℝ) : |a - c| ≤ |a - b| + |b - c| := abs_sub_le a b c

private theorem sum_abs_sub_tri {n} (u v w : Fin n → ℝ) :
    ∑ i, |u i - w i| ≤ ∑ i, |u i - v i| + ∑ i, |v i - w i| := by
  rw [← Finset.sum_add_distrib]
  exact Finset.sum_le_sum fun i _ => abs_sub_le _ _ _

/-- L² triangle inequality on `Fin n → ℝ`. -/
private theorem l2_tri {n} (a b c : Fin n → ℝ) :
    Real.sqrt (∑ i, (a i - c i) ^ 2) ≤
      Real.sqrt (∑ i, (a i - b i) ^ 2) + Real.sqrt (∑ i, (b i - c i) ^ 2) := by
  have h := dist_triangle (WithLp.toLp 2 a : EuclideanSpace ℝ (Fin n)) (WithLp.toLp 2 b)
    (WithLp.toLp 2 c)
  simpa [EuclideanSpace.dist_eq, Real.dist_eq, sq_abs] using h

private theorem log_one_add_subadd {a b : ℝ} (ha : 0 ≤ a) (hb : 0 ≤ b) :
    Real.log (1 + (a + b)) ≤ Real.log (1 + a) + Real.log (1 + b) := by
  rw [← Real.log_mul (by positivity) (by positivity)]
  apply Real.log_le_log (by positivity)
  nlinarith [mul_nonneg ha hb]

private theorem log_one_add_tri {r p q : ℝ} (hr : 0 ≤ r) (hp : 0 ≤ p) (hq : 0 ≤ q) (h : r ≤ p + q) :
    Real.log (1 + r) ≤ Real.log (1 + p) + Real.log (1 + q) :=
  le_trans (Real.log_le_log (by positivity) (by linarith)) (log_one_add_subadd hp hq)

/-! ### term-wise metrics -/

theorem c08_triangle_manhattan {n} (u v w : Fin n → ℝ) :
    Gen.body_manhattan_distance.evalR u w ≤
      Gen.body_manhattan_distance.evalR u v + Gen.body_manhattan_distance.evalR v w := by
  simp only [Gen.body_manhattan_distance, S.evalR, V.evalR]
  exact sum_abs_sub_tri u v w

theorem c08_triangle_gower {n} (u v w : Fin n → ℝ) :
    Gen.body_gower_distance.evalR u w ≤
      Gen.body_gower_distance.evalR u v + Gen.body_gower_distance.evalR v w := by
  simp only [Gen.body_gower_distance, S.evalR, V.evalR]
  rw [← add_div]
  exact div_le_div_of_nonneg_right (sum_abs_sub_tri u v w) (Nat.cast_nonneg n)

theorem c08_triangle_non_intersection {n} (u v w : Fin n → ℝ) :
    Gen.body_non_intersection_distance.evalR u w ≤
      Gen.body_non_intersection_distance.evalR u v +
        Gen.body_non_intersection_distance.evalR v w := by
  simp only [Gen.body_non_intersection_distance, S.evalR, V.evalR]
  rw [← mul_add]
  apply mul_le_mul_of_nonneg_left (sum_abs_sub_tri u v w)
  simp only [litR]; norm_num

theorem c08_triangle_chebyshev {n} (u v w : Fin n → ℝ) :
    Gen.body_chebyshev_distance.evalR u w ≤
      Gen.body_chebyshev_distance.evalR u v + Gen.body_chebyshev_distance.evalR v w := by
  simp only [Gen.body_chebyshev_distance, S.evalR, V.evalR]
  rcases Nat.eq_zero_or_pos n with h0 | hpos
  · subst h0
    simp [Real.iSup_of_isEmpty]
  · have : Nonempty (Fin n) := ⟨⟨0, hpos⟩⟩
    apply ciSup_le
    intro i
    have h1 : |u i - v i| ≤ ⨆ j, |u j - v j| :=
      le_ciSup (f := fun j => |u j - v j|) (Finite.bddAbove_range _) i
    have h2 : |v i - w i| ≤ ⨆ j, |v j - w j| :=
      le_ciSup (f := fun j => |v j - w j|) (Finite.bddAbove_range _) i
    linarith [abs_sub_le (u i) (v i) (w i)]

theorem c08_triangle_hamming {n} (u v w : Fin n → ℝ) :
    Gen.body_hamming_distance.evalR u w ≤
      Gen.body_hamming_distance.evalR u v + Gen.body_hamming_distance.evalR v w := by
  simp only [Gen.body_hamming_distance, S.evalR, V.evalR]
  rw [← Finset.sum_add_distrib]
  apply Finset.sum_le_sum
  intro i _
  by_cases h1 : u i = v i <;> by_cases h2 : v i = w i <;> by_cases h3 : u i = w i <;>
    simp_all

theorem c08_triangle_lorentzian {n} (u v w : Fin n → ℝ) :
    Gen.body_lorentzian_distance.evalR u w ≤
      Gen.body_lorentzian_distance.evalR u v + Gen.body_lorentzian_distance.evalR v w := by
  simp only [Gen.body_lorentzian_distance, S.evalR, V.evalR]
  rw [← Finset.sum_add_distrib]
  apply Finset.sum_le_sum
  intro i _
  have h1 : litR 1 0 = 1 := by simp [litR]
  rw [h1]
  exact log_one_add_tri (abs_nonneg _) (abs_nonneg _) (abs_nonneg _) (abs_sub_le _ _ _)

/-! ### Euclidean-type metrics -/

theorem c08_triangle_euclidean {n} (u v w : Fin n → ℝ) :
    Gen.body_euclidean_distance.evalR u w ≤
      Gen.body_euclidean_distance.evalR u v + Gen.body_euclidean_distance.evalR v w := by
  simp only [Gen.body_euclidean_distance, S.evalR, V.evalR]
  exact l2_tri u v w

theorem c08_triangle_average_euclidean {n} (u v w : Fin n → ℝ) :
    Gen.body_average_euclidean_distance.evalR u w ≤
      Gen.body_average_euclidean_distance.evalR u v +
        Gen.body_average_euclidean_distance.evalR v w := by
  simp only [Gen.body_average_euclidean_distance, S.evalR, V.evalR]
  have hn : (0 : ℝ) ≤ (n : ℝ) := Nat.cast_nonneg n
  simp only [Real.sqrt_div' _ hn]
  rw [← add_div]
  exact div_le_div_of_nonneg_right (l2_tri u v w) (Real.sqrt_nonneg _)

theorem c08_triangle_matusita {n} (u v w : Fin n → ℝ) :
    Gen.body_matusita_distance.evalR u w ≤
      Gen.body_matusita_distance.evalR u v + Gen.body_matusita_distance.evalR v w := by
  simp only [Gen.body_matusita_distance, S.evalR, V.evalR]
  exact l2_tri (fun i => Real.sqrt (u i)) (fun i => Real.sqrt (v i)) (fun i => Real.sqrt (w i))

theorem c08_triangle_hellinger {n} (u v w : Fin n → ℝ) :
    Gen.body_hellinger_distance.evalR u w ≤
      Gen.body_hellinger_distance.evalR u v + Gen.body_hellinger_distance.evalR v w := by
  simp only [Gen.body_hellinger_distance, S.evalR, V.evalR]
  have h2 : litR 2 0 = 2 := by simp [litR]
  simp only [h2, ← Finset.mul_sum, Real.sqrt_mul (by norm_num : (0 : ℝ) ≤ 2)]
  rw [← mul_add]
  exact mul_le_mul_of_nonneg_left
    (l2_tri (fun i => Real.sqrt (u i)) (fun i => Real.sqrt (v i)) (fun i => Real.sqrt (w i)))
    (Real.sqrt_nonneg _)

theorem c08_triangle_log_euclidean {n} (u v w : Fin n → ℝ) :
    Gen.body_log_euclidean_distance.evalR u w ≤
      Gen.body_log_euclidean_distance.evalR u v + Gen.body_log_euclidean_distance.evalR v w := by
  simp only [Gen.body_log_euclidean_distance, S.evalR, V.evalR]
  have h1 : litR 1 0 = 1 := by simp [litR]
  have h5 : (0 : ℝ) ≤ litR 1 5 := by simp only [litR]; norm_num
  rw [h1, ← mul_add]
  apply mul_le_mul_of_nonneg_left _ h5
  simp only [add_comm _ (1 : ℝ)]
  exact log_one_add_tri (Real.sqrt_nonneg _) (Real.sqrt_nonneg _) (Real.sqrt_nonneg _)
    (l2_tri u v w)

/-! ### canberra and soergel (positive orthant) -/

private theorem canberra_scalar {a b c : ℝ} (ha : 0 < a) (hb : 0 < b) (hc : 0 < c) :
    |a - c| / (a + c) ≤ |a - b| / (a + b) + |b - c| / (b + c) := by
  have hab : 0 < a + b := by positivity
  have hbc : 0 < b + c := by positivity
  have hac : 0 < a + c := by positivity
  rw [div_add_div _ _ (ne_of_gt hab) (ne_of_gt hbc), div_le_div_iff₀ hac (by positivity)]
  rcases le_total a b with h1 | h1 <;> rcases le_total b c with h2 | h2 <;>
    rcases le_total a c with h3 | h3 <;>
    simp only [abs_of_nonneg, abs_of_nonpos, sub_nonneg, sub_nonpos, h1, h2, h3] <;>
    nlinarith [mul_pos ha hb, mul_pos hb hc, mul_pos ha hc, mul_pos (mul_pos ha hb) hc,
      mul_nonneg (mul_nonneg (sub_nonneg.2 h1) (sub_nonneg.2 h2)) (sub_nonneg.2 h3),
      mul_nonneg (sub_nonneg.2 h1) (sub_nonneg.2 h2),
      mul_nonneg (sub_nonneg.2 h1) (sub_nonneg.2 h3),
      mul_nonneg (sub_nonneg.2 h2) (sub_nonneg.2 h3)]

private theorem steinhaus_scalar {a b c p q r : ℝ} (ha : 0 < a) (hb : 0 < b) (hc : 0 < c)
    (hp : 0 ≤ p) (hq : 0 ≤ q) (hr : 0 ≤ r) (h : r ≤ p + q) (h1 : b ≤ a + p) (h2 : b ≤ c + q) :
    r / (a + c + r) ≤ p / (a + b + p) + q / (b + c + q) := by
  calc r / (a + c + r) ≤ (p + q) / (a + c + (p + q)) := by
        rw [div_le_div_iff₀ (by positivity) (by positivity)]
        nlinarith [mul_le_mul_of_nonneg_right h (by positivity : (0 : ℝ) ≤ a + c)]
    _ = p / (a + c + (p + q)) + q / (a + c + (p + q)) := add_div _ _ _
    _ ≤ p / (a + b + p) + q / (b + c + q) :=
        add_le_add (div_le_div_of_nonneg_left hp (by positivity) (by linarith))
          (div_le_div_of_nonneg_left hq (by positivity) (by linarith))

theorem c08_triangle_canberra {n} (u v w : Fin n → ℝ)
    (hu : ∀ i, 0 < u i) (hv : ∀ i, 0 < v i) (hw : ∀ i, 0 < w i) :
    Gen.body_canberra_distance.evalR u w ≤
      Gen.body_canberra_distance.evalR u v + Gen.body_canberra_distance.evalR v w := by
  simp only [Gen.body_canberra_distance, S.evalR, V.evalR]
  rw [← Finset.sum_add_distrib]
  apply Finset.sum_le_sum
  intro i _
  rw [abs_of_pos (hu i), abs_of_pos (hv i), abs_of_pos (hw i)]
  exact canberra_scalar (hu i) (hv i) (hw i)

private theorem sum_max_eq {n} (u w : Fin n → ℝ) :
    ∑ i, max (u i) (w i) = (∑ i, u i + ∑ i, w i + ∑ i, |u i - w i|) / 2 := by
  rw [← Finset.sum_add_distrib, ← Finset.sum_add_distrib, Finset.sum_div]
  apply Finset.sum_congr rfl
  intro i _
  rcases le_total (u i) (w i) with h | h
  · rw [max_eq_right h, abs_of_nonpos (sub_nonpos.2 h)]; ring
  · rw [max_eq_left h, abs_of_nonneg (sub_nonneg.2 h)]; ring

private theorem sum_le_sum_add_abs {n} (u v : Fin n → ℝ) :
    ∑ i, v i ≤ ∑ i, u i + ∑ i, |u i - v i| := by
  rw [← Finset.sum_add_distrib]
  apply Finset.sum_le_sum
  intro i _
  linarith [neg_abs_le (u i - v i)]

theorem c08_triangle_soergel {n} (u v w : Fin n → ℝ) (hn : 0 < n)
    (hu : ∀ i, 0 < u i) (hv : ∀ i, 0 < v i) (hw : ∀ i, 0 < w i) :
    Gen.body_soergel_distance.evalR u w ≤
      Gen.body_soergel_distance.evalR u v + Gen.body_soergel_distance.evalR v w := by
  simp only [Gen.body_soergel_distance, S.evalR, V.evalR]
  have : Nonempty (Fin n) := ⟨⟨0, hn⟩⟩
  have ha : 0 < ∑ i, u i := Finset.sum_pos (fun i _ => hu i) Finset.univ_nonempty
  have hb : 0 < ∑ i, v i := Finset.sum_pos (fun i _ => hv i) Finset.univ_nonempty
  have hc : 0 < ∑ i, w i := Finset.sum_pos (fun i _ => hw i) Finset.univ_nonempty
  have hp : 0 ≤ ∑ i, |u i - v i| := Finset.sum_nonneg fun i _ => abs_nonneg _
  have hq : 0 ≤ ∑ i, |v i - w i| := Finset.sum_nonneg fun i _ => abs_nonneg _
  have hr : 0 ≤ ∑ i, |u i - w i| := Finset.sum_nonneg fun i _ => abs_nonneg _
  have h1 := sum_le_sum_add_abs u v
  have h2 : ∑ i, v i ≤ ∑ i, w i + ∑ i, |v i - w i| := by
    have := sum_le_sum_add_abs w v
    simpa only [abs_sub_comm] using this
  have key := steinhaus_scalar ha hb hc hp hq hr (sum_abs_sub_tri u v w) h1 h2
  rw [sum_max_eq, sum_max_eq, sum_max_eq]
  simp only [div_div_eq_mul_div]
  have e : ∀ x y : ℝ, x * 2 / y = 2 * (x / y) := fun x y => by ring
  rw [e, e, e, ← mul_add]
  exact mul_le_mul_of_nonneg_left key (by norm_num)
end Opf
