/-
C10 — the file round trip of a pre-computed matrix, writer against reader: `pre_compute_distance` (`Gen/PrecompImp.lean`) chooses its
delimiter from the extension of the output file; `OPF._read_distances` (`Gen/ReadDistImp.lean`, regenerated from
`opfython/core/opf.py` by `tools/translate_conv.py`) sends the file to a loader by the same extension; the loaders' `np.loadtxt`
keywords are in `Gen/LoaderKw.lean`.  For both supported extensions the delimiter written is the delimiter read, `ndmin = 2` keeps a
one-sample matrix two-dimensional, every other extension raises, a loader that failed (`None`) raises, and the loaded array is
stored unchanged as `pre_distances`.  (What the matrix contains is `Props/C10Refine`; that every arc weight is then looked up in it
with the right orientation is `Props/C10`, `C10Gen`.)  The text round trip `np.savetxt` → `np.loadtxt` itself is library behaviour
(DESIGN §6), sampled by the `precomp` stream.
-/
import OpfVerif.Gen.ReadDistImp
import OpfVerif.Gen.PrecompImp
import OpfVerif.Gen.LoaderKw
namespace Opf.C10Load
open Opf Opf.Gen

/-- the `if … elif … else` chain of `_read_distances`: the first matching extension wins. -/
def loaderFor (ext : String) : Option String := (ReadDistImp.dispatch.find? (fun p => p.1 == ext)).map (·.2)

/-- `delimiter=` of the `np.loadtxt` call inside a loader. -/
def loaderDelim : String → Option String
  | "load_csv" => some LoaderKw.load_csv_delim
  | "load_txt" => some LoaderKw.load_txt_delim
  | _ => none

theorem c10_gen_read_dispatch :
    ReadDistImp.dispatch = [("csv", "load_csv"), ("txt", "load_txt")] ∧ ReadDistImp.else_raises = true ∧
    ReadDistImp.extension_expr = "PATH.split('.')[-1]" := by
  refine ⟨?_, ?_, ?_⟩ <;> decide +kernel

/-- WRITER = READER: for every extension `_read_distances` accepts, the delimiter `pre_compute_distance` writes under that
extension is the one the loader it is sent to reads with. -/
theorem c10_gen_delimiter_pairing (ext loader : String) (h : loaderFor ext = some loader) :
    loaderDelim loader = some (PrecompImp.delimiterFor ext) := by
  have hd : ReadDistImp.dispatch = [("csv", "load_csv"), ("txt", "load_txt")] := by decide +kernel
  have hc : LoaderKw.load_csv_delim = "," := by decide +kernel
  have ht : LoaderKw.load_txt_delim = " " := by decide +kernel
  unfold loaderFor at h
  rw [hd] at h
  by_cases h1 : ext = "csv"
  · subst h1
    have : loader = "load_csv" := by simpa [List.find?] using h.symm
    subst this
    simp [loaderDelim, PrecompImp.delimiterFor, hc]
  · by_cases h2 : ext = "txt"
    · subst h2
      have : loader = "load_txt" := by simpa [List.find?] using h.symm
      subst this
      simp [loaderDelim, PrecompImp.delimiterFor, ht]
    · have e1 : ("csv" == ext) = false := by simpa [beq_eq_false_iff_ne] using fun hh => h1 hh.symm
      have e2 : ("txt" == ext) = false := by simpa [beq_eq_false_iff_ne] using fun hh => h2 hh.symm
      simp [List.find?, e1, e2] at h

/-- non-vacuity of the pairing: both supported extensions are accepted. -/
theorem c10_gen_read_accepts : loaderFor "csv" = some "load_csv" ∧ loaderFor "txt" = some "load_txt" := by
  refine ⟨?_, ?_⟩ <;> decide +kernel

/-- any other extension raises (`ArgumentError`). -/
theorem c10_gen_read_else (ext : String) (h1 : ext ≠ "csv") (h2 : ext ≠ "txt") :
    loaderFor ext = none ∧ ReadDistImp.else_raises = true := by
  refine ⟨?_, by decide⟩
  have hd : ReadDistImp.dispatch = [("csv", "load_csv"), ("txt", "load_txt")] := by decide +kernel
  have e1 : ("csv" == ext) = false := by simpa [beq_eq_false_iff_ne] using fun h => h1 h.symm
  have e2 : ("txt" == ext) = false := by simpa [beq_eq_false_iff_ne] using fun h => h2 h.symm
  simp [loaderFor, hd, List.find?, e1, e2]

/-- a one-row matrix stays two-dimensional, and what was loaded is stored as it is (no transposition, slicing or copy with another
dtype between the file and `pre_distances`); a failed load raises. -/
theorem c10_gen_read_after :
    LoaderKw.load_csv_ndmin = 2 ∧ LoaderKw.load_txt_ndmin = 2 ∧
    ReadDistImp.after = "if DATA is None:\n    raise e.ValueError('Pre-computed distances could not been properly loaded')\nself.pre_distances = DATA" := by
  refine ⟨?_, ?_, ?_⟩ <;> decide +kernel

end Opf.C10Load
