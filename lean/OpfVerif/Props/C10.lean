/-
C10 — pre-computed distances are equivalent to computing the metric on the fly.

(1) Model level: the executable models access distances only through a weight function of node
positions; a pre-computed matrix `M` holding `d (D a) (D b)` for the whole data set, looked up through
the index arrays, IS that function, so training and prediction coincide (`c10_fit_eq`, `c10_predict_eq`).
(2) Source level (regenerated on every run): every place where the library chooses between
`pre_distances[A.idx][B.idx]` and `distance_fn(A.features, B.features)` uses the same two nodes in the
same order on both branches (`c10_sites_wellformed`), and the only unguarded evaluation is
`get_distances` (`c10_unguarded`), which by design always evaluates the metric.
The text round-trip of the file (`np.savetxt` / `np.loadtxt`, "%.18e") is a library fact validated
bit-for-bit by the `precomp` stream, not proved.
-/
import OpfVerif.Model.Forest
import OpfVerif.Gen.DistanceSites
namespace Opf

/-- the weight function seen through index arrays: node `p` of the subset is sample `I p` of the data set. -/
def lookup (M : Nat → Nat → Int) (I : Nat → Nat) : Nat → Nat → Int := fun p q => M (I p) (I q)

/-- if the file holds the metric on every ordered pair of the data set, the looked-up weights are
the metric on the subset's own features (`X = D ∘ I`), for asymmetric metrics too. -/
theorem c10_weights_agree {β : Type} (d : β → β → Int) (D : Nat → β) (M : Nat → Nat → Int) (I : Nat → Nat)
    (hM : ∀ a b, M a b = d (D a) (D b)) :
    lookup M I = fun p q => d (D (I p)) (D (I q)) := by
  funext p q
  simp [lookup, hM]

/-- hence supervised / semi-supervised training through the file equals training on the fly:
same prototypes, costs, predecessors, labels and conquest order. -/
theorem c10_fit_eq {β : Type} (d : β → β → Int) (D : Nat → β) (M : Nat → Nat → Int) (I : Nat → Nat)
    (hM : ∀ a b, M a b = d (D a) (D b)) (top : Int) (semi : Bool) (nLab : Nat) (lab : Array Nat) :
    fitRun (lookup M I) top semi nLab lab = fitRun (fun p q => d (D (I p)) (D (I q))) top semi nLab lab := by
  rw [c10_weights_agree d D M I hM]

/-- and prediction through `pre_distances[train.idx][test.idx]` equals evaluating `d(train, test)`. -/
theorem c10_predict_eq {β : Type} (d : β → β → Int) (D : Nat → β) (M : Nat → Nat → Int) (I Iq : Nat → Nat)
    (hM : ∀ a b, M a b = d (D a) (D b)) (f : Forest) (nq : Nat) :
    predictBatch f ((List.range nq).map (fun i => fun t => M (I t) (Iq i))) =
    predictBatch f ((List.range nq).map (fun i => fun t => d (D (I t)) (D (Iq i)))) := by
  simp [hM]

/-- every lookup site pairs `pre_distances[A.idx][B.idx]` with `distance_fn(A.features, B.features)`:
same nodes, same order, same target variable. -/
theorem c10_sites_wellformed : Gen.distanceSites.all (fun s => s.2.2.2) = true ∧ Gen.distanceSites.length = 10 := by
  decide

/-- orientation per site: training and the supervised scan are train-first, the k-NN scans query-first. -/
theorem c10_site_orientation :
    Gen.distanceSites.map (fun s => (s.2.1, s.2.2.1)) =
      [("pred_subgraph.nodes[i].idx", "self.subgraph.nodes[j].idx"),
       ("self.subgraph.nodes[p].idx", "self.subgraph.nodes[q].idx"),
       ("self.subgraph.nodes[p].idx", "self.subgraph.nodes[q].idx"),
       ("self.subgraph.nodes[p].idx", "self.subgraph.nodes[q].idx"),
       ("self.subgraph.nodes[k].idx", "pred_subgraph.nodes[i].idx"),
       ("self.subgraph.nodes[l].idx", "pred_subgraph.nodes[i].idx"),
       ("self.subgraph.nodes[i].idx", "self.subgraph.nodes[j].idx"),
       ("pred_subgraph.nodes[i].idx", "self.subgraph.nodes[j].idx"),
       ("self.nodes[i].idx", "self.nodes[j].idx"),
       ("self.nodes[i].idx", "self.nodes[j].idx")] := by decide

/-- the only evaluation of the metric outside a guarded site is `get_distances`. -/
theorem c10_unguarded : Gen.unguardedDistanceCalls = ["opfython/core/opf.py:get_distances"] := by decide

end Opf
