/-
The state every translated `fit` starts from is what the translated CONSTRUCTOR `Subgraph(X, Y, I)` builds
(`Gen/BuildImp.lean`: `Subgraph.__init__` + `_build` + the defaults and setter guards of `Node.__init__`): for every
non-empty label vector it is exactly `initSG lab` (Props/C01Gen.lean), which represents the fresh forest
(`c01_gen_initSG : RelF (initSG lab) (Forest.init lab)`) — so the hypothesis `RelF sg0 (Forest.init lab)` of every
end-to-end theorem (`C01Gen`, `C02Gen`, `C03Gen`, `C04Gen`, `C09Gen`, `C10Gen`, `C11Gen`, `C15Gen`, `C17Gen`) is discharged by
the constructor as written in /repo.

STATEMENTS ARE FIXED (DESIGN §2.1b); helper lemmas live in Lemmas/BuildRefine.lean.
-/
import OpfVerif.Gen.BuildImp
import OpfVerif.Props.C01Gen
import OpfVerif.Lemmas.BuildRefine
namespace Opf.C01Build
open Opf Opf.Gen Opf.Gen.SupImp Opf.SupRefine Opf.FitCompose Opf.GenCompose

/-- labels as the constructor receives them. -/
def labelsInt (lab : Array Nat) : Array Int := lab.map (fun (x : Nat) => (x : Int))

/-- without an index array. -/
theorem build_none (lab : Array Nat) (hne : 0 < lab.size) :
    BuildImp.build (labelsInt lab) none = some (initSG lab) := by
  have hf := BuildRefine.fold_ok lab none (fun k hk sg =>
    BuildRefine.body_none_ok _ k (lab[k] : Int) (by simp [hk]) (by omega) sg) lab.size (Nat.le_refl _)
  have hsz : (labelsInt lab).size = lab.size := by simp [labelsInt]
  rw [BuildRefine.build_eq, hsz]
  unfold labelsInt
  rw [hf, BuildRefine.stateAt_size]
  have hn : ¬ (lab = #[]) := by
    intro h; rw [h] at hne; simp at hne
  simp [initSG, hn]

/-- with an index array of non-negative identifiers, at least one per sample. -/
theorem build_some (lab : Array Nat) (hne : 0 < lab.size) (J : Array Int) (hsz : lab.size ≤ J.size)
    (hpos : ∀ i (hi : i < lab.size), 0 ≤ J[i]'(Nat.lt_of_lt_of_le hi hsz)) :
    BuildImp.build (labelsInt lab) (some J) = some (initSG lab) := by
  have hf := BuildRefine.fold_ok lab (some J) (fun k hk sg =>
    BuildRefine.body_some_ok _ J k (lab[k] : Int) (J[k]'(Nat.lt_of_lt_of_le hk hsz)) (by simp [hk]) (by omega)
      (by simp [Nat.lt_of_lt_of_le hk hsz]) (hpos k hk) sg) lab.size (Nat.le_refl _)
  have hsz : (labelsInt lab).size = lab.size := by simp [labelsInt]
  rw [BuildRefine.build_eq, hsz]
  unfold labelsInt
  rw [hf, BuildRefine.stateAt_size]
  have hn : ¬ (lab = #[]) := by
    intro h; rw [h] at hne; simp at hne
  simp [initSG, hn]

/-- an empty subgraph raises (`self.nodes[0]`), a negative label raises (`Node.label` setter), a negative identifier
raises (`Node.idx` setter). -/
theorem build_empty (I : Option (Array Int)) : BuildImp.build #[] I = none := by
  rw [BuildRefine.build_eq]
  simp [BuildRefine.sg0]

theorem build_negative_label (Y : Array Int) (I : Option (Array Int)) (h : ∃ y ∈ Y, y < 0) :
    BuildImp.build Y I = none := by
  obtain ⟨y, hy, hneg⟩ := h
  obtain ⟨k, hk, rfl⟩ := Array.mem_iff_getElem.1 hy
  rw [BuildRefine.build_eq]
  rw [BuildRefine.foldlM_none _ (List.range Y.size) k (List.mem_range.2 hk)
    (fun s => BuildRefine.body_neg Y I k Y[k] (by simp [hk]) hneg s)]
  rfl

/-- **C01 from the constructor**: `Subgraph(X, Y)` then `fit`, both as translated from /repo. -/
theorem c01_gen_from_constructor (W : Int → Int → Option Int) (w : Nat → Nat → Int) (top : Int) (lab : Array Nat)
    (hW : WAgree lab.size W w) (H : FitHyp w top lab.size lab) :
    ∃ sg0 sg', BuildImp.build (labelsInt lab) none = some sg0 ∧ fit W top sg0 = some (sg', ()) ∧
      sg'.trained = true ∧ RelF sg' (fitRun w top false lab.size lab).f := by
  obtain ⟨sg', h1, h2, h3⟩ := c01_gen_master W w top (initSG lab) lab (c01_gen_initSG lab) hW H
  exact ⟨initSG lab, sg', build_none lab H.nLab_pos, h1, h2, h3⟩

end Opf.C01Build
