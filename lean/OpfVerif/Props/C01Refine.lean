/-
C01 — refinement: the STATEMENT-BY-STATEMENT TRANSLATION of `SupervisedOPF.fit`
(`Gen/FitImp.lean`, regenerated from the source on every run by `tools/translate_fn.py`, calling the
translations of `_find_prototypes` and `Heap`) refines the executable model `fitRun` about which
`Props/C01Exec.lean` speaks: for EVERY training-set size, label vector and weight function (ties
included) the translated code raises nothing (no `IndexError`, no setter `ValueError`), all its
loops terminate, and it leaves in `Node.pred / cost / predicted_label / status` and
`Subgraph.idx_nodes` exactly the model's values.  Assumed rather than proved (DESIGN §6): the
translator's reading of Python; the arc weight as a function `W` of the two node positions.
Property theorems only; helper lemmas live in the `Lemmas/` file imported below.
-/
import OpfVerif.Lemmas.SupRefineFit
namespace Opf.SupRefine
open Opf Opf.Gen Opf.Gen.SupImp

theorem c01_gen_fit (W : Int → Int → Option Int) (w : Nat → Nat → Int) (top : Int)
    (sg0 : SG) (lab : Array Nat) (hr : RelF sg0 (Forest.init lab)) (hn : 0 < lab.size)
    (hW : WAgree lab.size W w) :
    ∃ sg', fit W top sg0 = some (sg', ()) ∧ sg'.trained = true ∧
      RelF sg' (fitRun w top false lab.size lab).f :=
  fit_refines W w top sg0 lab hr hn hW

/-- an empty training set: `Heap(0)` raises in `_find_prototypes`. -/
theorem c01_gen_fit_empty (W : Int → Int → Option Int) (top : Int) (sg0 : SG)
    (h0 : sg0.n_nodes = 0) : fit W top sg0 = none :=
  fit_empty W top sg0 h0

end Opf.SupRefine
