/-
C20 — refinement: the STATEMENT-BY-STATEMENT TRANSLATION of `normalize` (`Gen/NormImp.lean`, regenerated from
`opfython/math/general.py` on every run by `tools/translate_meas.py`; numpy's `axis=0` reductions and row broadcasting read by
`Model/PyNorm.lean`, the reductions `np.mean` / `np.std` themselves being PARAMETERS `MEAN`, `STD`) computes, for every
rectangular non-empty matrix over any number type, entry `(i, j)` as `(a[i][j] − MEAN(column j)) / STD(column j)`: the mean and the
deviation of the element's OWN column, every column treated alike.  Instantiated with the real mean and the population standard
deviation this is the model `normalizeColG` column by column, so `c20_normalize`, `c20_normalize_mean_zero`, `c20_normalize_var_one`
(Props/C20.lean) speak about the translated code.  Floating-point `np.mean` / `np.std` (pairwise summation, rounding) are sampled by
the `measures` stream.
Property theorems only; helper lemmas live in `Lemmas/NormRefine.lean`.
-/
import OpfVerif.Lemmas.NormRefine
namespace Opf.NormRefine
open Opf Opf.Gen Opf.Measures

theorem c20_gen_normalize {α : Type} [Inhabited α] [Sub α] [Div α] (MEAN STD : List α → α)
    (array : Array (Array α)) (c : Nat) (hne : array.size ≠ 0) (hrect : ∀ r ∈ array, r.size = c) :
    NormImp.normalize MEAN STD array =
      some (array.map (fun r => (Array.range c).map (fun j =>
        (r.getD j default - MEAN (Py.col array j)) / STD (Py.col array j)))) :=
  normalize_refines MEAN STD array c hne hrect

/-- column by column: the output column is the input column shifted by ITS mean and scaled by ITS deviation. -/
theorem c20_gen_normalize_column {α : Type} [Inhabited α] [Sub α] [Div α] (MEAN STD : List α → α)
    (array out : Array (Array α)) (c j : Nat) (hne : array.size ≠ 0) (hrect : ∀ r ∈ array, r.size = c) (hj : j < c)
    (h : NormImp.normalize MEAN STD array = some out) :
    Py.col out j = (Py.col array j).map (fun v => (v - MEAN (Py.col array j)) / STD (Py.col array j)) :=
  normalize_column MEAN STD array out c j hne hrect hj h

/-- a ragged or empty "matrix" is outside the reading (the translated function does not return). -/
theorem c20_gen_normalize_ragged {α : Type} [Inhabited α] [Sub α] [Div α] (MEAN STD : List α → α)
    (array : Array (Array α)) (h : Py.ncols array = none) : NormImp.normalize MEAN STD array = none :=
  normalize_ragged MEAN STD array h

/-- at `ℝ`, with the arithmetic mean and the population standard deviation: every output column is the model's `normalizeColG` of
the input column — the object of `c20_normalize*`. -/
theorem c20_gen_normalize_real (array out : Array (Array ℝ)) (c j : Nat) (hne : array.size ≠ 0)
    (hrect : ∀ r ∈ array, r.size = c) (hj : j < c)
    (h : NormImp.normalize meanR stdR array = some out) :
    Py.col out j = normalizeColG (fun k : Nat => (k : ℝ)) 0 Real.sqrt (Py.col array j) :=
  normalize_real array out c j hne hrect hj h

example : NormImp.normalize (α := Int) (fun l => l.foldl (· + ·) 0 / l.length) (fun _ => 2) #[#[1, 10], #[3, 30]] =
    some #[#[-1 / 2, -10 / 2], #[1 / 2, 10 / 2]] := by decide +kernel

end Opf.NormRefine
