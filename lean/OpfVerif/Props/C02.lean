/-
C02 — prototypes are exactly the class-boundary endpoints of a minimum spanning tree.

Theorems about EVERY lawful run of the Prim semantics of `Model/PrimSpec.lean`: any number of
samples, any symmetric weights below `top`, every pattern of ties, any labelling.
"Minimum spanning tree" is expressed through the two classical characterisations that do not
need sums: the cut property (`c02_cut`: each tree arc is a lightest arc across the cut at the
moment it is added) and the cycle property (`c02_cycle`: no non-tree arc is lighter than a tree arc
on the cycle it closes — Tarjan's red rule).  For pairwise-distinct weights the tree is shown equal
to the order-free set `MstArc` (`c02_unique`), hence unique, and so is the prototype set.
-/
import OpfVerif.Lemmas.Prim
namespace Opf.PrimInst

variable (I : PrimInst)

theorem c02_progress (hg : I.Good) (s : PState) (hr : Reach I s) (hnf : ¬ I.Final s) :
    ∃ s', I.Step s s' := prim_progress I hg s hr hnf

/-- the predecessor links of a finished run form a spanning tree rooted at sample 0: the removal
order lists every sample once, starts with 0, and every other sample's predecessor was removed
earlier. -/
theorem c02_spanning (hg : I.Good) (s : PState) (hr : Reach I s) (hf : I.Final s) :
    s.order.Nodup ∧ (∀ t, t ∈ s.order ↔ t < I.n) ∧ s.order.length = I.n ∧
    s.order.head? = some 0 ∧ s.pred 0 = none ∧
    (∀ t, t < I.n → t ≠ 0 → ∃ p, s.pred t = some p ∧ p < I.n ∧ s.order.idxOf p < s.order.idxOf t) :=
  prim_spanning I hg s hr hf

/-- cut property: the arc `(pred v, v)` is a lightest arc between the samples removed before `v`
and the others. -/
theorem c02_cut (hg : I.Good) (s : PState) (hr : Reach I s) (hf : I.Final s)
    (u v : Nat) (hv : v < I.n) (hp : s.pred v = some u) (a b : Nat) (ha : a < I.n) (hb : b < I.n)
    (hab : s.order.idxOf a < s.order.idxOf v) (hvb : s.order.idxOf v ≤ s.order.idxOf b) :
    I.w u v ≤ I.w a b := prim_cut I hg s hr hf u v hv hp a b ha hb hab hvb

/-- cycle property: if the tree arc `(pc, c)` lies on the tree path between `u` and `v` (`c` is an
ancestor-or-self of exactly one of them) then it is no heavier than the arc `{u, v}`. -/
theorem c02_cycle (hg : I.Good) (s : PState) (hr : Reach I s) (hf : I.Final s)
    (c pc u v : Nat) (hu : u < I.n) (hv : v < I.n) (hpc : s.pred c = some pc)
    (hcu : Anc s c u) (hcv : ¬ Anc s c v) : I.w pc c ≤ I.w u v :=
  prim_cycle I hg s hr hf c pc u v hu hv hpc hcu hcv

/-- a sample is flagged prototype exactly when it is an endpoint of a tree arc joining samples of
different classes. -/
theorem c02_prototypes (hg : I.Good) (s : PState) (hr : Reach I s) (hf : I.Final s) (v : Nat)
    (hv : v < I.n) :
    s.proto v = true ↔ ∃ u, u < I.n ∧ TreeArc s u v ∧ I.lam u ≠ I.lam v :=
  prim_prototypes I hg s hr hf v hv

/-- with at least two classes every class present contributes a prototype. -/
theorem c02_every_class (hg : I.Good) (s : PState) (hr : Reach I s) (hf : I.Final s)
    (h2 : ∃ a b, a < I.n ∧ b < I.n ∧ I.lam a ≠ I.lam b) (a : Nat) (ha : a < I.n) :
    ∃ p, p < I.n ∧ s.proto p = true ∧ I.lam p = I.lam a :=
  prim_every_class I hg s hr hf h2 a ha

/-- pairwise-distinct weights: the tree arcs are exactly the order-free `MstArc`s … -/
theorem c02_tree_eq_mst (hg : I.Good) (hd : I.Distinct) (s : PState) (hr : Reach I s) (hf : I.Final s)
    (u v : Nat) (hu : u < I.n) (hv : v < I.n) : TreeArc s u v ↔ I.MstArc u v :=
  prim_tree_eq_mst I hg hd s hr hf u v hu hv

/-- … hence any two finished runs (whatever their tie-breaking) select the same tree and the same
prototypes. -/
theorem c02_unique (hg : I.Good) (hd : I.Distinct) (s₁ s₂ : PState)
    (h₁ : Reach I s₁) (f₁ : I.Final s₁) (h₂ : Reach I s₂) (f₂ : I.Final s₂) :
    (∀ u v, u < I.n → v < I.n → (TreeArc s₁ u v ↔ TreeArc s₂ u v)) ∧
    (∀ v, v < I.n → s₁.proto v = s₂.proto v) := prim_unique I hg hd s₁ s₂ h₁ f₁ h₂ f₂

end Opf.PrimInst
