/-
C12 — END TO END for the translated code: the statement-by-statement translation of
`KNNSubgraph.create_arcs` (`Gen/ArcsImp.lean`) leaves the k-nearest-neighbour graph in the arrays
it returns.

Composition of the refinement theorem `c12_gen_create_arcs` (`Props/C12Refine.lean`: the translated
code computes what the executable model `createArcs` computes) with the model-level theorems of
`Props/C12Arcs.lean` (`c12_sizes`, `c12_adjacency`, `c12_radius`, `c12_nplat`, `c12_rank_maxima`,
`c12_bound`) and the order facts of `Lemmas/GenCompose2.lean`.  Every theorem below speaks about
`create_arcs W top tiny one sg k` itself, the subgraph `sg'` and the array `max_distances` (`md`) it
returns; the hypotheses are about the INPUTS only:

* `hwf : ArcsWF sg n` — the object handed to `create_arcs` has `n` nodes, its `adjacency`, `radius`,
  `n_plateaus` arrays have `n` entries, adjacency entries are node ids (`≥ 0`), plateau counts are
  `≥ 0` (`c12_gen_freshASG` exhibits one for every `n`).  Fresh or RE-USED: nothing is assumed of the
  lists' contents, of `radius`, or of `density`;
* `hW : WAgree n W w` — the arc-weight oracle returns `w a b` on node positions `a, b < n`;
* `hw : ∀ i j, i < n → j < n → w i j < top` — no distance between two nodes reaches `FLOAT_MAX`
  (the sentinel of the scan).
`k : Nat` is arbitrary (`k = 0` and `k > n-1` included); `tiny`/`one` are the encodings of the
literals `0.00001`/`1`.  No hypothesis mentions a model state.

Reading conventions: `sg'.adjacency.getD i #[]` is `Node.adjacency` of node `i` as an array of ints,
`adjInt nb` the list of naturals `nb` stored as such an array; `nbrAt sg' i l` is the node stored at
position `l` of that list; `IsKNearest (w i) cand m nb` (`Lemmas/GenCompose2.lean`) says `nb` lists
the `m` candidates first in the order "ascending `w i ·`, ties by index" (`IsKNearest.unique`: this
determines `nb`); `foldl max a l` is the running maximum from `a` (`foldl_max_spec`).
Property theorems only; helpers are in `Lemmas/GenCompose2.lean`.
-/
import OpfVerif.Props.C12Refine
import OpfVerif.Props.C12Arcs
import OpfVerif.Lemmas.GenCompose2
namespace Opf.GenCompose2
open Opf Opf.Gen Opf.Gen.ArcsImp Opf.ArcsRefine

variable (W : Int → Int → Option Int) (w : Nat → Nat → Int) (top tiny one : Int) (sg : ASG) (n k : Nat)

/-- **Master lemma (all of C12 about one run).** `create_arcs(k)` raises nothing and terminates; the
object it returns is again well formed; for every node `i` there is a list `nb i` of nodes such that
* `nb i` is THE list of the `min k (n-1)` nearest OTHER nodes of `i`, nearest first, ties by index;
* `adjacency[i]` is `nb i` followed by whatever the list held before the call (new arcs PREPENDED);
* `radius[i]` is the running maximum from 0 of the distances to `nb i`; `n_plateaus[i] = 0`;
`max_distances` has `k` entries, entry `l` being the running maximum from 0, over all nodes, of the
distance to their `l`-th new neighbour (0 for a node with fewer); `density` is the running maximum of
ALL new arc distances starting from the PRIOR `density`, replaced by `one` when below `tiny`.
The theorems after it unfold it field by field. -/
theorem c12_gen_master (hwf : ArcsWF sg n) (hW : WAgree n W w)
    (hw : ∀ i j, i < n → j < n → w i j < top) :
    ∃ sg' md, create_arcs W top tiny one sg (k : Int) = some (sg', md) ∧ ArcsWF sg' n ∧
      ∃ nb : Nat → List Nat,
        (∀ i, i < n →
          IsKNearest (w i) (fun j => j < n ∧ j ≠ i) (min k (n - 1)) (nb i) ∧
          sg'.adjacency.getD i #[] = adjInt (nb i) ++ sg.adjacency.getD i #[] ∧
          sg'.radius.getD i 0 = ((nb i).map (w i)).foldl max 0 ∧
          sg'.n_plateaus.getD i 0 = 0) ∧
        md.size = k ∧
        (∀ l, l < k → md.getD l 0 =
          ((List.range n).map (fun i => ((nb i).map (w i)).getD l 0)).foldl max 0) ∧
        sg'.density =
          (let b := ((List.range n).flatMap (fun i => (nb i).map (w i))).foldl max sg.density
           if b < tiny then one else b) := by
  -- total weight function agreeing with `w` on node positions and below `top` everywhere
  let w' : Nat → Nat → Int := fun i j => if i < n ∧ j < n then w i j else top - 1
  have hw' : ∀ i j, w' i j < top := by
    intro i j
    show (if i < n ∧ j < n then w i j else top - 1) < top
    split
    · rename_i h; exact hw i j h.1 h.2
    · omega
  have hww : ∀ i j, i < n → j < n → w' i j = w i j := by
    intro i j hi hj
    show (if i < n ∧ j < n then w i j else top - 1) = w i j
    rw [if_pos ⟨hi, hj⟩]
  have hW' : WAgree (absA sg n).n W w' := by
    intro a b ha hb
    rw [hW a b ha hb, hww a b ha hb]
  have hr := relA_abs hwf
  obtain ⟨sg', md, he, r, hmd⟩ := c12_gen_create_arcs W w' top tiny one sg (absA sg n) k hr hW'
  have g1 := hr.gsz_adj
  have g2 := hr.gsz_radius
  have g3 := hr.gsz_nplat
  have hsz := c12_sizes w' top tiny one k (absA sg n) hw' g1 g2 g3
  have hn' : (createArcs w' top tiny one k (absA sg n)).1.n = n := hsz.1
  have hwf' : ArcsWF sg' n := by
    have := wf_of_relA r
    rw [hn'] at this
    exact this
  -- the model's lists
  let nb : Nat → List Nat := fun i => (kNearest k (w' i) ((List.range n).filter (· ≠ i))).map (·.2)
  have hK : ∀ i, i < n → IsKNearest (w i) (fun j => j < n ∧ j ≠ i) (min k (n - 1)) (nb i) := by
    intro i hi
    have h := isKNearest_kNearest k (w' i) _ (others_sorted n i)
    rw [length_others hi] at h
    have h2 : IsKNearest (w' i) (fun j => j < n ∧ j ≠ i) (min k (n - 1)) (nb i) :=
      ⟨h.length_eq, fun j hj => mem_others.mp (h.mem_cand j hj), h.nodup, h.sorted,
        fun j hj hn t ht => h.nearest j (mem_others.mpr hj) hn t ht⟩
    exact h2.congr (fun j hj => hww i j hi hj.1)
  have hD : ∀ i, i < n →
      (kNearest k (w' i) ((List.range n).filter (· ≠ i))).map (·.1) = (nb i).map (w i) := by
    intro i hi
    rw [kNearest_map_fst]
    refine List.map_congr_left ?_
    intro t ht
    exact hww i t hi ((hK i hi).mem_cand t ht).1
  refine ⟨sg', md, he, hwf', nb, ?_, ?_, ?_, ?_⟩
  · intro i hi
    have hi' : i < (createArcs w' top tiny one k (absA sg n)).1.n := by rw [hn']; exact hi
    refine ⟨hK i hi, ?_, ?_, ?_⟩
    · rw [ra_adj r hi', c12_adjacency w' top tiny one k (absA sg n) hw' g1 g2 g3 i hi, adjInt_append,
        absA_adj hwf hi]
      rfl
    · rw [ra_radius r hi', c12_radius w' top tiny one k (absA sg n) hw' g1 g2 g3 i hi]
      show List.foldl max 0 ((kNearest k (w' i) ((List.range n).filter (· ≠ i))).map (·.1)) = _
      rw [hD i hi]
    · rw [ra_nplat r hi', c12_nplat w' top tiny one k (absA sg n) hw' g1 g2 g3 i hi]
      rfl
  · rw [hmd]
    exact (c12_rank_maxima w' top tiny one k (absA sg n) hw' g1 g2 g3).1
  · intro l hl
    rw [hmd, (c12_rank_maxima w' top tiny one k (absA sg n) hw' g1 g2 g3).2 l hl]
    show List.foldl max 0 ((List.range n).map (fun i =>
      ((kNearest k (w' i) ((List.range n).filter (· ≠ i))).map (·.1)).getD l 0)) = _
    congr 1
    refine List.map_congr_left ?_
    intro i hi
    rw [hD i (List.mem_range.mp hi)]
  · rw [r.bound, c12_bound w' top tiny one k (absA sg n) hw' g1 g2 g3]
    show (let b := ((List.range n).flatMap (fun i =>
        (kNearest k (w' i) ((List.range n).filter (· ≠ i))).map (·.1))).foldl max sg.density
      if b < tiny then one else b) = _
    have : (List.range n).flatMap (fun i =>
        (kNearest k (w' i) ((List.range n).filter (· ≠ i))).map (·.1)) =
        (List.range n).flatMap (fun i => (nb i).map (w i)) :=
      List.flatMap_congr (fun i hi => hD i (List.mem_range.mp hi))
    rw [this]

/-- **Frame.** `create_arcs(k)` raises nothing and terminates for every `k`; it keeps the number of
nodes and the sizes of `adjacency`, `radius`, `n_plateaus` (and leaves node ids / counts
non-negative, so it can be called again on its result), and returns `k` maxima. -/
theorem c12_gen_frame (hwf : ArcsWF sg n) (hW : WAgree n W w)
    (hw : ∀ i j, i < n → j < n → w i j < top) :
    ∃ sg' md, create_arcs W top tiny one sg (k : Int) = some (sg', md) ∧
      sg'.n_nodes = (n : Int) ∧ sg'.adjacency.size = n ∧ sg'.radius.size = n ∧
      sg'.n_plateaus.size = n ∧ md.size = k ∧ ArcsWF sg' n := by
  obtain ⟨sg', md, he, hwf', nb, _, hm, _, _⟩ := c12_gen_master W w top tiny one sg n k hwf hW hw
  exact ⟨sg', md, he, hwf'.n_eq, hwf'.sz_adj, hwf'.sz_radius, hwf'.sz_nplat, hm, hwf'⟩

/-- **Adjacency (fresh or re-used subgraph).** After `create_arcs(k)` the adjacency list of every
node `i` is: a list `nb` of `min k (n-1)` pairwise distinct OTHER nodes, in ascending order of
`w i ·` with equal distances in ascending index, such that every other node NOT listed comes after
every listed one in that order (in particular is at least as far) — followed by the entries the list
held before the call, unchanged. -/
theorem c12_gen_adjacency (hwf : ArcsWF sg n) (hW : WAgree n W w)
    (hw : ∀ i j, i < n → j < n → w i j < top) :
    ∃ sg' md, create_arcs W top tiny one sg (k : Int) = some (sg', md) ∧
      ∀ i, i < n → ∃ nb : List Nat,
        sg'.adjacency.getD i #[] = adjInt nb ++ sg.adjacency.getD i #[] ∧
        nb.length = min k (n - 1) ∧ nb.Nodup ∧ (∀ j, j ∈ nb → j < n ∧ j ≠ i) ∧
        nb.Pairwise (fun a b => w i a < w i b ∨ (w i a = w i b ∧ a < b)) ∧
        (nb.map (w i)).Pairwise (· ≤ ·) ∧
        (∀ j, j < n → j ≠ i → j ∉ nb → ∀ t, t ∈ nb →
          w i t < w i j ∨ (w i t = w i j ∧ t < j)) ∧
        (∀ j, j < n → j ≠ i → j ∉ nb → ∀ t, t ∈ nb → w i t ≤ w i j) := by
  obtain ⟨sg', md, he, _, nb, hnode, _⟩ := c12_gen_master W w top tiny one sg n k hwf hW hw
  refine ⟨sg', md, he, fun i hi => ?_⟩
  obtain ⟨hk, ha, _, _⟩ := hnode i hi
  exact ⟨nb i, ha, hk.length_eq, hk.nodup, hk.mem_cand, hk.sorted, hk.dist_sorted,
    fun j hj hji hn t ht => hk.nearest j ⟨hj, hji⟩ hn t ht,
    fun j hj hji hn t ht => hk.smallest j ⟨hj, hji⟩ hn t ht⟩

/-- **Adjacency, position by position.** The first `min k (n-1)` positions of `adjacency[i]` after
the call hold the new neighbours: other nodes, position `l` before position `l'` means nearer (or
equally near and smaller index), and a node that stands at none of these positions comes after all
of them in that order. -/
theorem c12_gen_adjacency_at (hwf : ArcsWF sg n) (hW : WAgree n W w)
    (hw : ∀ i j, i < n → j < n → w i j < top) :
    ∃ sg' md, create_arcs W top tiny one sg (k : Int) = some (sg', md) ∧
      ∀ i, i < n →
        (sg'.adjacency.getD i #[]).size = min k (n - 1) + (sg.adjacency.getD i #[]).size ∧
        (∀ l, l < min k (n - 1) → nbrAt sg' i l < n ∧ nbrAt sg' i l ≠ i ∧
          (sg'.adjacency.getD i #[]).getD l 0 = (nbrAt sg' i l : Int)) ∧
        (∀ l l', l < l' → l' < min k (n - 1) →
          w i (nbrAt sg' i l) < w i (nbrAt sg' i l') ∨
          (w i (nbrAt sg' i l) = w i (nbrAt sg' i l') ∧ nbrAt sg' i l < nbrAt sg' i l')) ∧
        (∀ j, j < n → j ≠ i → (∀ l, l < min k (n - 1) → nbrAt sg' i l ≠ j) →
          ∀ l, l < min k (n - 1) →
            w i (nbrAt sg' i l) < w i j ∨ (w i (nbrAt sg' i l) = w i j ∧ nbrAt sg' i l < j)) := by
  obtain ⟨sg', md, he, _, nb, hnode, _⟩ := c12_gen_master W w top tiny one sg n k hwf hW hw
  refine ⟨sg', md, he, fun i hi => ?_⟩
  obtain ⟨hk, ha, _, _⟩ := hnode i hi
  have hat : ∀ l, l < min k (n - 1) → nbrAt sg' i l = (nb i).getD l 0 ∧ (nb i).getD l 0 ∈ nb i := by
    intro l hl
    have hl' : l < (nb i).length := by rw [hk.length_eq]; exact hl
    refine ⟨nbrAt_new ha hl', ?_⟩
    rw [List.getD_eq_getElem?_getD, List.getElem?_eq_getElem hl']
    exact List.getElem_mem hl'
  refine ⟨?_, ?_, ?_, ?_⟩
  · rw [ha, Array.size_append, adjInt_size, hk.length_eq]
  · intro l hl
    obtain ⟨e, hm⟩ := hat l hl
    have hl' : l < (nb i).length := by rw [hk.length_eq]; exact hl
    refine ⟨by rw [e]; exact (hk.mem_cand _ hm).1, by rw [e]; exact (hk.mem_cand _ hm).2, ?_⟩
    have hs : l < (adjInt (nb i)).size := by rw [adjInt_size]; exact hl'
    rw [e, ha, Array.getD_eq_getD_getElem?, Array.getElem?_append_left hs]
    unfold adjInt
    simp [List.getD_eq_getElem?_getD, hl']
  · intro l l' hll hl'
    have hl : l < min k (n - 1) := by omega
    rw [(hat l hl).1, (hat l' hl').1]
    have h1 : l < (nb i).length := by rw [hk.length_eq]; exact hl
    have h2 : l' < (nb i).length := by rw [hk.length_eq]; exact hl'
    have := List.pairwise_iff_getElem.mp hk.sorted l l' h1 h2 hll
    rw [List.getD_eq_getElem?_getD, List.getD_eq_getElem?_getD, List.getElem?_eq_getElem h1,
      List.getElem?_eq_getElem h2]
    exact this
  · intro j hj hji hnot l hl
    have hjn : j ∉ nb i := by
      intro hmem
      obtain ⟨l0, h0, e0⟩ := List.getElem_of_mem hmem
      have h0' : l0 < min k (n - 1) := by rw [← hk.length_eq]; exact h0
      apply hnot l0 h0'
      rw [(hat l0 h0').1, List.getD_eq_getElem?_getD, List.getElem?_eq_getElem h0]
      exact e0
    obtain ⟨e, hm⟩ := hat l hl
    rw [e]
    exact hk.nearest j ⟨hj, hji⟩ hjn _ hm

/-- **Radius and plateau count.** After the call `radius[i]` bounds the distance to every new
neighbour of `i`, is `≥ 0`, and is 0 or the distance to one of them (the running maximum from 0);
`n_plateaus[i]` is 0. -/
theorem c12_gen_radius (hwf : ArcsWF sg n) (hW : WAgree n W w)
    (hw : ∀ i j, i < n → j < n → w i j < top) :
    ∃ sg' md, create_arcs W top tiny one sg (k : Int) = some (sg', md) ∧
      ∀ i, i < n →
        0 ≤ sg'.radius.getD i 0 ∧
        (∀ l, l < min k (n - 1) → w i (nbrAt sg' i l) ≤ sg'.radius.getD i 0) ∧
        (sg'.radius.getD i 0 = 0 ∨
          ∃ l, l < min k (n - 1) ∧ sg'.radius.getD i 0 = w i (nbrAt sg' i l)) ∧
        sg'.n_plateaus.getD i 0 = 0 := by
  obtain ⟨sg', md, he, _, nb, hnode, _⟩ := c12_gen_master W w top tiny one sg n k hwf hW hw
  refine ⟨sg', md, he, fun i hi => ?_⟩
  obtain ⟨hk, ha, hr, hp⟩ := hnode i hi
  obtain ⟨s1, s2, s3⟩ := foldl_max_spec 0 ((nb i).map (w i))
  rw [← hr] at s1 s2 s3
  refine ⟨s1, ?_, ?_, hp⟩
  · intro l hl
    have hl' : l < (nb i).length := by rw [hk.length_eq]; exact hl
    rw [nbrAt_new ha hl', List.getD_eq_getElem?_getD, List.getElem?_eq_getElem hl']
    exact s2 _ (List.mem_map_of_mem (List.getElem_mem hl'))
  · rcases s3 with h | h
    · exact Or.inl h
    · right
      obtain ⟨t, ht, e⟩ := List.mem_map.mp h
      obtain ⟨l, hl, el⟩ := List.getElem_of_mem ht
      refine ⟨l, by rw [← hk.length_eq]; exact hl, ?_⟩
      rw [nbrAt_new ha hl, List.getD_eq_getElem?_getD, List.getElem?_eq_getElem hl, el]
      exact e.symm

/-- **Radius, non-negative distances.** When distances are `≥ 0` (as every distance of the library
is) and a node has a neighbour at all (`0 < k`, `1 < n`), `radius[i]` is exactly the distance to its
LAST new neighbour, i.e. to the `min k (n-1)`-th nearest other node — the largest listed distance;
with no neighbour (`k = 0` or `n = 1`) it is 0. -/
theorem c12_gen_radius_last (hwf : ArcsWF sg n) (hW : WAgree n W w)
    (hw : ∀ i j, i < n → j < n → w i j < top) (hnn : ∀ i j, i < n → j < n → 0 ≤ w i j) :
    ∃ sg' md, create_arcs W top tiny one sg (k : Int) = some (sg', md) ∧
      ∀ i, i < n →
        (0 < min k (n - 1) → sg'.radius.getD i 0 = w i (nbrAt sg' i (min k (n - 1) - 1))) ∧
        (min k (n - 1) = 0 → sg'.radius.getD i 0 = 0) := by
  obtain ⟨sg', md, he, _, nb, hnode, _⟩ := c12_gen_master W w top tiny one sg n k hwf hW hw
  refine ⟨sg', md, he, fun i hi => ?_⟩
  obtain ⟨hk, ha, hr, _⟩ := hnode i hi
  constructor
  · intro hpos
    have hlen : 0 < (nb i).length := by rw [hk.length_eq]; exact hpos
    have hne : nb i ≠ [] := List.ne_nil_of_length_pos hlen
    have hne' : (nb i).map (w i) ≠ [] := by simpa using hne
    have hl' : min k (n - 1) - 1 < (nb i).length := by rw [hk.length_eq]; omega
    rw [hr, foldl_max_sorted_last 0 _ hk.dist_sorted hne', List.getLast_map,
      nbrAt_new ha hl', List.getLast_eq_getElem, List.getD_eq_getElem?_getD,
      List.getElem?_eq_getElem hl']
    · congr 2
      rw [hk.length_eq]
    · intro x hx
      obtain ⟨t, ht, rfl⟩ := List.mem_map.mp hx
      exact hnn i t hi (hk.mem_cand t ht).1
  · intro h0
    have : nb i = [] := List.eq_nil_of_length_eq_zero (by rw [hk.length_eq]; exact h0)
    rw [hr, this]
    rfl

/-- **`max_distances`.** The returned array has `k` entries.  For a rank `l` that every node has
(`l < min k (n-1)`), `max_distances[l]` bounds the distance from every node to its `l`-th new
neighbour, is `≥ 0`, and is 0 or attained by some node; for the ranks no node has
(`min k (n-1) ≤ l < k`, i.e. `k > n-1`) it stays 0. -/
theorem c12_gen_max_distances (hwf : ArcsWF sg n) (hW : WAgree n W w)
    (hw : ∀ i j, i < n → j < n → w i j < top) :
    ∃ sg' md, create_arcs W top tiny one sg (k : Int) = some (sg', md) ∧ md.size = k ∧
      (∀ l, l < min k (n - 1) →
        0 ≤ md.getD l 0 ∧
        (∀ i, i < n → w i (nbrAt sg' i l) ≤ md.getD l 0) ∧
        (md.getD l 0 = 0 ∨ ∃ i, i < n ∧ md.getD l 0 = w i (nbrAt sg' i l))) ∧
      (∀ l, min k (n - 1) ≤ l → l < k → md.getD l 0 = 0) := by
  obtain ⟨sg', md, he, _, nb, hnode, hsz, hmd, _⟩ := c12_gen_master W w top tiny one sg n k hwf hW hw
  refine ⟨sg', md, he, hsz, ?_, ?_⟩
  · intro l hl
    have hlk : l < k := by omega
    have hval : ∀ i, i < n → ((nb i).map (w i)).getD l 0 = w i (nbrAt sg' i l) := by
      intro i hi
      obtain ⟨hk, ha, _, _⟩ := hnode i hi
      have hl' : l < (nb i).length := by rw [hk.length_eq]; exact hl
      rw [nbrAt_new ha hl']
      simp [List.getD_eq_getElem?_getD, hl']
    obtain ⟨s1, s2, s3⟩ := foldl_max_spec 0 ((List.range n).map (fun i => ((nb i).map (w i)).getD l 0))
    rw [← hmd l hlk] at s1 s2 s3
    refine ⟨s1, ?_, ?_⟩
    · intro i hi
      rw [← hval i hi]
      exact s2 _ (List.mem_map.mpr ⟨i, List.mem_range.mpr hi, rfl⟩)
    · rcases s3 with h | h
      · exact Or.inl h
      · right
        obtain ⟨i, hi, e⟩ := List.mem_map.mp h
        have hi' := List.mem_range.mp hi
        exact ⟨i, hi', by rw [← hval i hi', e]⟩
  · intro l hl hlk
    rw [hmd l hlk]
    have hz : ∀ x ∈ (List.range n).map (fun i => ((nb i).map (w i)).getD l 0), x = 0 := by
      intro x hx
      obtain ⟨i, hi, rfl⟩ := List.mem_map.mp hx
      have hlen := (hnode i (List.mem_range.mp hi)).1.length_eq
      have hnone : (nb i)[l]? = none := List.getElem?_eq_none (by rw [hlen]; exact hl)
      simp [List.getD_eq_getElem?_getD, hnone]
    rcases foldl_max_attained ((List.range n).map (fun i => ((nb i).map (w i)).getD l 0)) 0 with h | h
    · exact h
    · exact hz _ h

/-- **`max_distances`, non-negative distances.** With distances `≥ 0`, `max_distances[l]` is exactly
the MAXIMUM over all nodes of the distance to their `l`-th nearest other node: an upper bound that
some node attains. -/
theorem c12_gen_max_distances_attained (hwf : ArcsWF sg n) (hW : WAgree n W w)
    (hw : ∀ i j, i < n → j < n → w i j < top) (hnn : ∀ i j, i < n → j < n → 0 ≤ w i j) :
    ∃ sg' md, create_arcs W top tiny one sg (k : Int) = some (sg', md) ∧
      ∀ l, l < min k (n - 1) →
        (∀ i, i < n → w i (nbrAt sg' i l) ≤ md.getD l 0) ∧
        ∃ i, i < n ∧ md.getD l 0 = w i (nbrAt sg' i l) := by
  obtain ⟨sg', md, he, _, nb, hnode, hsz, hmd, _⟩ := c12_gen_master W w top tiny one sg n k hwf hW hw
  refine ⟨sg', md, he, ?_⟩
  intro l hl
  have hlk : l < k := by omega
  have hn0 : 0 < n := by omega
  have hval : ∀ i, i < n → ((nb i).map (w i)).getD l 0 = w i (nbrAt sg' i l) ∧ nbrAt sg' i l < n := by
    intro i hi
    obtain ⟨hk, ha, _, _⟩ := hnode i hi
    have hl' : l < (nb i).length := by rw [hk.length_eq]; exact hl
    rw [nbrAt_new ha hl']
    refine ⟨by simp [List.getD_eq_getElem?_getD, hl'], ?_⟩
    rw [List.getD_eq_getElem?_getD, List.getElem?_eq_getElem hl']
    exact (hk.mem_cand _ (List.getElem_mem hl')).1
  obtain ⟨s1, s2, s3⟩ := foldl_max_spec 0 ((List.range n).map (fun i => ((nb i).map (w i)).getD l 0))
  rw [← hmd l hlk] at s1 s2 s3
  have hub : ∀ i, i < n → w i (nbrAt sg' i l) ≤ md.getD l 0 := by
    intro i hi
    rw [← (hval i hi).1]
    exact s2 _ (List.mem_map.mpr ⟨i, List.mem_range.mpr hi, rfl⟩)
  refine ⟨hub, ?_⟩
  rcases s3 with h | h
  · refine ⟨0, hn0, ?_⟩
    have a := hub 0 hn0
    have b := hnn 0 (nbrAt sg' 0 l) hn0 (hval 0 hn0).2
    omega
  · obtain ⟨i, hi, e⟩ := List.mem_map.mp h
    have hi' := List.mem_range.mp hi
    exact ⟨i, hi', by rw [← (hval i hi').1, e]⟩

/-- **Density bound (running bound, fresh or re-used).** There is a value `b` with
`density = (if b < tiny then one else b)` after the call, where `b` is the running maximum of all new
arc distances starting from the PRIOR `density`: `b` is at least the prior `density` and at least
every new arc distance, and is the prior `density` or one of the new arc distances. -/
theorem c12_gen_density (hwf : ArcsWF sg n) (hW : WAgree n W w)
    (hw : ∀ i j, i < n → j < n → w i j < top) :
    ∃ sg' md, create_arcs W top tiny one sg (k : Int) = some (sg', md) ∧
      ∃ b, sg'.density = (if b < tiny then one else b) ∧ sg.density ≤ b ∧
        (∀ i l, i < n → l < min k (n - 1) → w i (nbrAt sg' i l) ≤ b) ∧
        (b = sg.density ∨ ∃ i l, i < n ∧ l < min k (n - 1) ∧ b = w i (nbrAt sg' i l)) := by
  obtain ⟨sg', md, he, _, nb, hnode, _, _, hb⟩ := c12_gen_master W w top tiny one sg n k hwf hW hw
  refine ⟨sg', md, he, _, hb, ?_⟩
  obtain ⟨s1, s2, s3⟩ :=
    foldl_max_spec sg.density ((List.range n).flatMap (fun i => (nb i).map (w i)))
  refine ⟨s1, ?_, ?_⟩
  · intro i l hi hl
    obtain ⟨hk, ha, _, _⟩ := hnode i hi
    have hl' : l < (nb i).length := by rw [hk.length_eq]; exact hl
    apply s2
    rw [List.mem_flatMap]
    refine ⟨i, List.mem_range.mpr hi, ?_⟩
    rw [nbrAt_new ha hl', List.getD_eq_getElem?_getD, List.getElem?_eq_getElem hl']
    exact List.mem_map_of_mem (List.getElem_mem hl')
  · rcases s3 with h | h
    · exact Or.inl h
    · right
      obtain ⟨i, hi, hx⟩ := List.mem_flatMap.mp h
      have hi' := List.mem_range.mp hi
      obtain ⟨hk, ha, _, _⟩ := hnode i hi'
      obtain ⟨t, ht, e⟩ := List.mem_map.mp hx
      obtain ⟨l, hl, el⟩ := List.getElem_of_mem ht
      refine ⟨i, l, hi', by rw [← hk.length_eq]; exact hl, ?_⟩
      rw [nbrAt_new ha hl, List.getD_eq_getElem?_getD, List.getElem?_eq_getElem hl, el]
      exact e.symm

/-! ### the FRESH subgraph: no prior arcs, `density = 0` -/

/-- **Fresh subgraph, everything at once.** On a subgraph whose adjacency lists are empty and whose
`density` is 0, after `create_arcs(k)`, for every node `i < n`:
`adjacency[i]` lists exactly `min k (n-1)` pairwise distinct other nodes, in ascending order of
`w i ·` (ties by ascending index); every node not listed comes after every listed one in that order,
so is at least as far; `radius[i]` is the running maximum from 0 of the listed distances;
`n_plateaus[i] = 0`. -/
theorem c12_gen_fresh (hwf : ArcsWF sg n) (hfresh : ∀ i, i < n → sg.adjacency.getD i #[] = #[])
    (hW : WAgree n W w) (hw : ∀ i j, i < n → j < n → w i j < top) :
    ∃ sg' md, create_arcs W top tiny one sg (k : Int) = some (sg', md) ∧
      ∀ i, i < n → ∃ nb : List Nat,
        sg'.adjacency.getD i #[] = adjInt nb ∧
        nb.length = min k (n - 1) ∧ nb.Nodup ∧ (∀ j, j ∈ nb → j < n ∧ j ≠ i) ∧
        nb.Pairwise (fun a b => w i a < w i b ∨ (w i a = w i b ∧ a < b)) ∧
        (∀ j, j < n → j ≠ i → j ∉ nb → ∀ t, t ∈ nb →
          w i t < w i j ∨ (w i t = w i j ∧ t < j)) ∧
        (∀ j, j < n → j ≠ i → j ∉ nb → ∀ t, t ∈ nb → w i t ≤ w i j) ∧
        sg'.radius.getD i 0 = (nb.map (w i)).foldl max 0 ∧
        (∀ t, t ∈ nb → w i t ≤ sg'.radius.getD i 0) ∧
        sg'.n_plateaus.getD i 0 = 0 := by
  obtain ⟨sg', md, he, _, nb, hnode, _⟩ := c12_gen_master W w top tiny one sg n k hwf hW hw
  refine ⟨sg', md, he, fun i hi => ?_⟩
  obtain ⟨hk, ha, hr, hp⟩ := hnode i hi
  rw [hfresh i hi, Array.append_empty] at ha
  refine ⟨nb i, ha, hk.length_eq, hk.nodup, hk.mem_cand, hk.sorted,
    fun j hj hji hn t ht => hk.nearest j ⟨hj, hji⟩ hn t ht,
    fun j hj hji hn t ht => hk.smallest j ⟨hj, hji⟩ hn t ht, hr, ?_, hp⟩
  intro t ht
  rw [hr]
  exact foldl_max_mem_le _ 0 _ (List.mem_map_of_mem ht)

/-- **Fresh subgraph, the adjacency list is exactly the `min k (n-1)` listed nodes** (no other entry):
its length is `min k (n-1)`. -/
theorem c12_gen_fresh_size (hwf : ArcsWF sg n) (hfresh : ∀ i, i < n → sg.adjacency.getD i #[] = #[])
    (hW : WAgree n W w) (hw : ∀ i j, i < n → j < n → w i j < top) :
    ∃ sg' md, create_arcs W top tiny one sg (k : Int) = some (sg', md) ∧
      ∀ i, i < n → (sg'.adjacency.getD i #[]).size = min k (n - 1) := by
  obtain ⟨sg', md, he, h⟩ := c12_gen_adjacency_at W w top tiny one sg n k hwf hW hw
  refine ⟨sg', md, he, fun i hi => ?_⟩
  rw [(h i hi).1, hfresh i hi]
  rfl

/-- **Fresh subgraph, density bound.** With `density = 0` before the call: `density` afterwards is
`b`, or the literal `one` when `b` is below the literal `tiny`, where `b ≥ 0` bounds every arc
distance and is 0 or the distance of some arc — the largest arc when distances are `≥ 0`. -/
theorem c12_gen_fresh_density (hwf : ArcsWF sg n) (hd : sg.density = 0)
    (hW : WAgree n W w) (hw : ∀ i j, i < n → j < n → w i j < top) :
    ∃ sg' md, create_arcs W top tiny one sg (k : Int) = some (sg', md) ∧
      ∃ b, sg'.density = (if b < tiny then one else b) ∧ 0 ≤ b ∧
        (∀ i l, i < n → l < min k (n - 1) → w i (nbrAt sg' i l) ≤ b) ∧
        (b = 0 ∨ ∃ i l, i < n ∧ l < min k (n - 1) ∧ b = w i (nbrAt sg' i l)) := by
  obtain ⟨sg', md, he, b, h1, h2, h3, h4⟩ := c12_gen_density W w top tiny one sg n k hwf hW hw
  rw [hd] at h2 h4
  exact ⟨sg', md, he, b, h1, h2, h3, h4⟩

/-- **Determinism / exact value.** The adjacency list written for node `i` is the model's reference
list `kNearest k (w i) (others of i)` (stable insertion sort of the other nodes by distance, first
`k`), prepended to the prior list — the closed form from which concrete instances are computed. -/
theorem c12_gen_adjacency_eq (hwf : ArcsWF sg n) (hW : WAgree n W w)
    (hw : ∀ i j, i < n → j < n → w i j < top) :
    ∃ sg' md, create_arcs W top tiny one sg (k : Int) = some (sg', md) ∧
      ∀ i, i < n → sg'.adjacency.getD i #[] =
        adjInt ((kNearest k (w i) ((List.range n).filter (· ≠ i))).map (·.2)) ++
          sg.adjacency.getD i #[] := by
  obtain ⟨sg', md, he, _, nb, hnode, _⟩ := c12_gen_master W w top tiny one sg n k hwf hW hw
  refine ⟨sg', md, he, fun i hi => ?_⟩
  obtain ⟨hk, ha, _, _⟩ := hnode i hi
  have h := isKNearest_kNearest k (w i) _ (others_sorted n i)
  rw [length_others hi] at h
  have h2 : IsKNearest (w i) (fun j => j < n ∧ j ≠ i) (min k (n - 1))
      ((kNearest k (w i) ((List.range n).filter (· ≠ i))).map (·.2)) :=
    ⟨h.length_eq, fun j hj => mem_others.mp (h.mem_cand j hj), h.nodup, h.sorted,
      fun j hj hn t ht => h.nearest j (mem_others.mpr hj) hn t ht⟩
  rw [ha, hk.unique h2]

/-! ### non-vacuity -/

/-- the fresh `KNNSubgraph` of `n` nodes, flattened. -/
def freshASG (n : Nat) : ASG where
  n_nodes := (n : Int)
  trained := false
  idx_nodes := #[]
  density := 0
  adjacency := Array.replicate n #[]
  radius := Array.replicate n 0
  n_plateaus := Array.replicate n 0

/-- for EVERY `n` the hypotheses on the subgraph are met by `freshASG n`. -/
theorem c12_gen_freshASG (n : Nat) :
    ArcsWF (freshASG n) n ∧ (∀ i, i < n → (freshASG n).adjacency.getD i #[] = #[]) ∧
      (freshASG n).density = 0 := by
  have hadj : ∀ i, i < n → (freshASG n).adjacency.getD i #[] = #[] := by
    intro i hi
    simp [freshASG, Array.getD_eq_getD_getElem?, hi]
  refine ⟨⟨rfl, by simp [freshASG], by simp [freshASG], by simp [freshASG], ?_, ?_⟩, hadj, rfl⟩
  · intro i hi z hz
    rw [hadj i hi] at hz
    simp at hz
  · intro i hi
    simp [freshASG, Array.getD_eq_getD_getElem?, hi]

/-- the weight oracle of the demo: the 4-node matrix `c12ExampleW` of `Props/C12Arcs.lean`. -/
def demoW12 : Int → Int → Option Int := fun a b => some (c12ExampleW a.toNat b.toNat)

/-- the demo instance meets the hypotheses on the oracle and the weights (all 16 entries are in
`[0, 100)`). -/
theorem c12_gen_demo_hyps : WAgree 4 demoW12 c12ExampleW ∧
    (∀ i j, i < 4 → j < 4 → c12ExampleW i j < 100) ∧
    (∀ i j, i < 4 → j < 4 → 0 ≤ c12ExampleW i j) := by
  refine ⟨fun a b _ _ => by simp [demoW12], ?_, ?_⟩ <;>
  · intro i j hi hj
    have hi' : i = 0 ∨ i = 1 ∨ i = 2 ∨ i = 3 := by omega
    have hj' : j = 0 ∨ j = 1 ∨ j = 2 ∨ j = 3 := by omega
    rcases hi' with rfl | rfl | rfl | rfl <;> rcases hj' with rfl | rfl | rfl | rfl <;> decide

/-- hence the theorems above fire: the translated `create_arcs(2)` on the fresh 4-node subgraph
returns, and the lists it leaves are the concrete ones (closed form evaluated by `decide`; the loops
of the translation are least fixed points the kernel does not unfold). -/
example : ∃ sg' md, create_arcs demoW12 100 1 10 (freshASG 4) (2 : Nat) = some (sg', md) ∧
    sg'.adjacency.getD 0 #[] = #[2, 1] ∧ sg'.adjacency.getD 1 #[] = #[2, 3] ∧
    sg'.adjacency.getD 2 #[] = #[0, 1] ∧ sg'.adjacency.getD 3 #[] = #[1, 0] := by
  obtain ⟨sg', md, he, h⟩ := c12_gen_adjacency_eq demoW12 c12ExampleW 100 1 10 (freshASG 4) 4 2
    (c12_gen_freshASG 4).1 c12_gen_demo_hyps.1 c12_gen_demo_hyps.2.1
  have hf := (c12_gen_freshASG 4).2.1
  refine ⟨sg', md, he, ?_, ?_, ?_, ?_⟩
  · rw [h 0 (by decide), hf 0 (by decide)]; decide
  · rw [h 1 (by decide), hf 1 (by decide)]; decide
  · rw [h 2 (by decide), hf 2 (by decide)]; decide
  · rw [h 3 (by decide), hf 3 (by decide)]; decide

/-- and the distance-side theorem on the same instance: both ranks exist (`min 2 3 = 2`), so each
`max_distances[l]` is attained by some node and bounds all nodes. -/
example : ∃ sg' md, create_arcs demoW12 100 1 10 (freshASG 4) (2 : Nat) = some (sg', md) ∧
    ∀ l, l < 2 → (∀ i, i < 4 → c12ExampleW i (nbrAt sg' i l) ≤ md.getD l 0) ∧
      ∃ i, i < 4 ∧ md.getD l 0 = c12ExampleW i (nbrAt sg' i l) :=
  c12_gen_max_distances_attained demoW12 c12ExampleW 100 1 10 (freshASG 4) 4 2
    (c12_gen_freshASG 4).1 c12_gen_demo_hyps.1 c12_gen_demo_hyps.2.1 c12_gen_demo_hyps.2.2

end Opf.GenCompose2
