/-
C16 — the selection loops of `KNNSupervisedOPF._learn` (`selectMaxAcc`) and
`UnsupervisedOPF._best_minimum_cut` (`selectMinCut`), model section L7 of `OpfVerif/Model/Knn.lean`.

(a) `c16_knn_select`: with `start` strictly below every accuracy the loop returns the SMALLEST `k`
    whose accuracy is highest; `c16_knn_none_iff`: nothing is selected iff no accuracy exceeds `start`
    (the repaired defect: `start = 0` and all accuracies `0`).
(b) `c16_unsup_select`: the smallest `k` with the lowest cut among the evaluated candidates, the
    evaluated candidates being a non-empty prefix; evaluation stops early only after a cut of exactly
    `zero` and nothing is evaluated after the first `zero` (`c16_unsup_stop_at_zero`,
    `c16_unsup_stop_first_zero`).
-/
import OpfVerif.Model.Knn
namespace Opf

/-! ## (a) `_learn` -/


def accStep (st : Int × Option Nat × Nat) (a : Int) : Int × Option Nat × Nat :=
  if a > st.1 then (a, some st.2.2, st.2.2 + 1) else (st.1, st.2.1, st.2.2 + 1)

theorem selectMaxAcc_eq (start : Int) (accs : List Int) :
    selectMaxAcc start accs = (accs.foldl accStep (start, none, 1)).2.1 := rfl

structure AccInv (start : Int) (l : List Int) (st : Int × Option Nat × Nat) : Prop where
  idx : st.2.2 = l.length + 1
  ub : ∀ a ∈ l, a ≤ st.1
  cases : (st.2.1 = none ∧ st.1 = start) ∨
    (∃ k, st.2.1 = some k ∧ 1 ≤ k ∧ k ≤ l.length ∧ l[k-1]? = some st.1 ∧ start < st.1 ∧
      ∀ j, 1 ≤ j → j < k → ∀ v, l[j-1]? = some v → v < st.1)

theorem AccInv.step {start : Int} {l : List Int} {st} (h : AccInv start l st) (a : Int) :
    AccInv start (l ++ [a]) (accStep st a) := by
  obtain ⟨m, b, i⟩ := st
  obtain ⟨hi, hub, hc⟩ := h
  simp only at hi hub hc
  unfold accStep
  by_cases hgt : a > m
  · simp only [hgt, if_true]
    refine ⟨by simp [hi], ?_, Or.inr ⟨l.length + 1, by simp [hi], by omega, by simp, by simp, ?_, ?_⟩⟩
    · intro x hx
      rcases List.mem_append.1 hx with hx | hx
      · have := hub x hx; omega
      · simp at hx; omega
    · rcases hc with ⟨_, rfl⟩ | ⟨k, _, _, _, _, hlt, _⟩ <;> omega
    · intro j h1 hj v hv
      have hjl : j - 1 < l.length := by omega
      rw [List.getElem?_append_left hjl] at hv
      have := hub v (List.mem_of_getElem? hv)
      simp only; omega
  · simp only [hgt, if_false]
    refine ⟨by simp [hi], ?_, ?_⟩
    · intro x hx
      rcases List.mem_append.1 hx with hx | hx
      · exact hub x hx
      · simp at hx; simp only; omega
    · rcases hc with hn | ⟨k, hb, h1, hk, hget, hlt, hfirst⟩
      · exact Or.inl hn
      · refine Or.inr ⟨k, hb, h1, by simp; omega, ?_, hlt, ?_⟩
        · rw [List.getElem?_append_left (by omega)]; exact hget
        · intro j hj1 hjk v hv
          rw [List.getElem?_append_left (by omega)] at hv
          exact hfirst j hj1 hjk v hv

theorem AccInv.fold {start : Int} (l : List Int) : ∀ (pre : List Int) st, AccInv start pre st →
    AccInv start (pre ++ l) (l.foldl accStep st) := by
  induction l with
  | nil => intro pre st h; simpa using h
  | cons a l ih =>
    intro pre st h
    rw [List.append_cons, List.foldl_cons]
    exact ih _ _ (h.step a)

theorem accInv_run (start : Int) (accs : List Int) :
    AccInv start accs (accs.foldl accStep (start, none, 1)) := by
  have := AccInv.fold (start := start) accs [] (start, none, 1)
    ⟨by simp, by simp, Or.inl ⟨rfl, rfl⟩⟩
  simpa using this

theorem c16_knn_none_iff (start : Int) (accs : List Int) :
    selectMaxAcc start accs = none ↔ ∀ a ∈ accs, a ≤ start := by
  rw [selectMaxAcc_eq]
  obtain ⟨_, hub, hc⟩ := accInv_run start accs
  constructor
  · intro hn
    rcases hc with ⟨_, hs⟩ | ⟨k, hb, _⟩
    · intro a ha; have := hub a ha; omega
    · rw [hn] at hb; cases hb
  · intro hall
    rcases hc with ⟨hn, _⟩ | ⟨k, hb, _, _, hget, hlt, _⟩
    · exact hn
    · have := hall _ (List.mem_of_getElem? hget); omega

theorem c16_knn_select (start : Int) (accs : List Int) (hne : accs ≠ [])
    (hstart : ∀ a ∈ accs, start < a) :
    ∃ k, selectMaxAcc start accs = some k ∧ 1 ≤ k ∧ k ≤ accs.length ∧
      (∀ j, 1 ≤ j → j ≤ accs.length → accs[j-1]! ≤ accs[k-1]!) ∧
      (∀ j, 1 ≤ j → j < k → accs[j-1]! < accs[k-1]!) := by
  have hnn : selectMaxAcc start accs ≠ none := by
    intro h
    rw [c16_knn_none_iff] at h
    obtain ⟨a, l⟩ := List.exists_cons_of_ne_nil hne
    obtain ⟨l, rfl⟩ := l
    have := h a (by simp); have := hstart a (by simp); omega
  rw [selectMaxAcc_eq] at hnn ⊢
  obtain ⟨_, hub, hc⟩ := accInv_run start accs
  rcases hc with ⟨hn, _⟩ | ⟨k, hb, h1, hk, hget, hlt, hfirst⟩
  · exact absurd hn hnn
  · refine ⟨k, hb, h1, hk, ?_, ?_⟩
    · intro j hj1 hjl
      have hj : j - 1 < accs.length := by omega
      simp only [List.getElem!_eq_getElem?_getD, hget, Option.getD_some]
      rw [List.getElem?_eq_getElem hj, Option.getD_some]
      exact hub _ (List.getElem_mem hj)
    · intro j hj1 hjk
      have hj : j - 1 < accs.length := by omega
      simp only [List.getElem!_eq_getElem?_getD, hget, Option.getD_some]
      rw [List.getElem?_eq_getElem hj, Option.getD_some]
      exact hfirst j hj1 hjk _ (List.getElem?_eq_getElem hj)


/-! ## (b) `_best_minimum_cut` -/


abbrev CutSt := Int × Option Nat × Nat × Nat

def cutStep (zero : Int) (st : CutSt) (c : Int) : CutSt :=
  if st.1 ≠ zero then
    (if c < st.1 then (c, some st.2.2.1, st.2.2.1 + 1, st.2.2.2 + 1)
     else (st.1, st.2.1, st.2.2.1 + 1, st.2.2.2 + 1))
  else (st.1, st.2.1, st.2.2.1 + 1, st.2.2.2)

theorem selectMinCut_eq (top zero : Int) (minK : Nat) (cuts : List Int) :
    selectMinCut top zero minK cuts =
      ((cuts.foldl (cutStep zero) (top, none, minK, 0)).2.1,
       (cuts.foldl (cutStep zero) (top, none, minK, 0)).2.2.2) := rfl

/-- ghost step: additionally records the cut values that are actually evaluated. -/
def cutStepG (zero : Int) (g : CutSt × List Int) (c : Int) : CutSt × List Int :=
  (cutStep zero g.1 c, if g.1.1 ≠ zero then g.2 ++ [c] else g.2)

/-- the list of cut values `_best_minimum_cut` evaluates (ghost instrumentation of `selectMinCut`). -/
def selectMinCutEvaluated (top zero : Int) (minK : Nat) (cuts : List Int) : List Int :=
  (cuts.foldl (cutStepG zero) ((top, none, minK, 0), [])).2

theorem cutStepG_fst (zero : Int) (cuts : List Int) : ∀ g : CutSt × List Int,
    (cuts.foldl (cutStepG zero) g).1 = cuts.foldl (cutStep zero) g.1 := by
  induction cuts with
  | nil => intro g; rfl
  | cons c cs ih => intro g; simp only [List.foldl_cons]; rw [ih]; rfl

structure CutInv (top zero : Int) (minK : Nat) (l : List Int) (g : CutSt × List Int) : Prop where
  idx : g.1.2.2.1 = minK + l.length
  mle : g.1.2.2.2 ≤ l.length
  ev : g.2 = l.take g.1.2.2.2
  full : g.1.1 ≠ zero → g.1.2.2.2 = l.length
  nz : ∀ i, i + 1 < g.1.2.2.2 → ∀ v, l[i]? = some v → v ≠ zero
  lb : ∀ c ∈ l.take g.1.2.2.2, g.1.1 ≤ c
  ge : zero ≤ g.1.1
  cases : (g.1.2.1 = none ∧ g.1.1 = top ∧ l = []) ∨
    (∃ k, g.1.2.1 = some k ∧ minK ≤ k ∧ k < minK + g.1.2.2.2 ∧ l[k - minK]? = some g.1.1 ∧
      ∀ j, minK ≤ j → j < k → ∀ v, l[j - minK]? = some v → g.1.1 < v)

theorem CutInv.step {top zero : Int} {minK : Nat} {l : List Int} {g}
    (h : CutInv top zero minK l g) (a : Int) (hpos : zero < top) (ha0 : zero ≤ a) (hat : a < top) :
    CutInv top zero minK (l ++ [a]) (cutStepG zero g a) := by
  obtain ⟨⟨mn, b, i, m⟩, ev⟩ := g
  obtain ⟨hi, hm, hev, hfull, hnz, hlb, hge, hc⟩ := h
  simp only at hi hm hev hfull hnz hlb hge hc
  unfold cutStepG cutStep
  by_cases hz : mn ≠ zero
  · have hml : m = l.length := hfull hz
    subst hml
    rw [List.take_length] at hlb hev
    simp only [hz, if_true, ne_eq, not_false_eq_true]
    have hmem : ∀ i v, l[i]? = some v → mn ≤ v := fun i v hv => hlb v (List.mem_of_getElem? hv)
    have htake : (l ++ [a]).take (l.length + 1) = l ++ [a] :=
      List.take_of_length_le (by simp)
    by_cases hlt : a < mn
    · simp only [hlt, if_true]
      refine ⟨?_, ?_, ?_, ?_, ?_, ?_, ?_, Or.inr ⟨minK + l.length, ?_, ?_, ?_, ?_, ?_⟩⟩ <;> (try dsimp only)
      · simp [hi]; omega
      · simp
      · rw [htake, hev]
      · simp
      · intro i hil v hv
        rw [List.getElem?_append_left (by omega)] at hv
        have := hmem i v hv; omega
      · intro c hc'
        rw [htake] at hc'
        rcases List.mem_append.1 hc' with hc' | hc'
        · have := hlb c hc'; omega
        · simp at hc'; omega
      · exact ha0
      · simp [hi]
      · omega
      · omega
      · simp
      · intro j hj1 hj2 v hv
        rw [List.getElem?_append_left (by omega)] at hv
        have := hmem _ v hv; omega
    · simp only [hlt, if_false]
      refine ⟨?_, ?_, ?_, ?_, ?_, ?_, ?_, ?_⟩ <;> (try dsimp only)
      · simp [hi]; omega
      · simp
      · rw [htake, hev]
      · simp
      · intro i hil v hv
        rw [List.getElem?_append_left (by omega)] at hv
        have := hmem i v hv; omega
      · intro c hc'
        rw [htake] at hc'
        rcases List.mem_append.1 hc' with hc' | hc'
        · exact hlb c hc'
        · simp at hc'; omega
      · exact hge
      · rcases hc with ⟨_, ht, _⟩ | ⟨k, hb, hk1, hk2, hget, hfirst⟩
        · omega
        · refine Or.inr ⟨k, hb, hk1, by omega, ?_, ?_⟩
          · rw [List.getElem?_append_left (by omega)]; exact hget
          · intro j hj1 hj2 v hv
            rw [List.getElem?_append_left (by omega)] at hv
            exact hfirst j hj1 hj2 v hv
  · have hz' : mn = zero := by simpa using hz
    simp only [hz, if_false]
    have htake : (l ++ [a]).take m = l.take m := List.take_append_of_le_length hm
    refine ⟨?_, ?_, ?_, ?_, ?_, ?_, ?_, ?_⟩ <;> (try dsimp only)
    · simp [hi]; omega
    · simp; omega
    · rw [htake]; exact hev
    · exact fun h => absurd hz' h
    · intro i hil v hv
      rw [List.getElem?_append_left (by omega)] at hv
      exact hnz i hil v hv
    · intro c hc'
      rw [htake] at hc'
      exact hlb c hc'
    · exact hge
    · rcases hc with ⟨_, ht, _⟩ | ⟨k, hb, hk1, hk2, hget, hfirst⟩
      · omega
      · refine Or.inr ⟨k, hb, hk1, hk2, ?_, ?_⟩
        · rw [List.getElem?_append_left (by omega)]; exact hget
        · intro j hj1 hj2 v hv
          rw [List.getElem?_append_left (by omega)] at hv
          exact hfirst j hj1 hj2 v hv

theorem CutInv.fold {top zero : Int} {minK : Nat} (hpos : zero < top) (l : List Int) :
    ∀ (pre : List Int) g, (∀ c ∈ l, zero ≤ c ∧ c < top) → CutInv top zero minK pre g →
    CutInv top zero minK (pre ++ l) (l.foldl (cutStepG zero) g) := by
  induction l with
  | nil => intro pre g _ h; simpa using h
  | cons a l ih =>
    intro pre g hall h
    rw [List.append_cons, List.foldl_cons]
    have ha := hall a (by simp)
    exact ih _ _ (fun c hc => hall c (by simp [hc])) (h.step a hpos ha.1 ha.2)

theorem cutInv_run {top zero : Int} (minK : Nat) (cuts : List Int) (hpos : zero < top)
    (hall : ∀ c ∈ cuts, zero ≤ c ∧ c < top) :
    CutInv top zero minK cuts (cuts.foldl (cutStepG zero) ((top, none, minK, 0), [])) := by
  have := CutInv.fold (minK := minK) hpos cuts [] ((top, none, minK, 0), []) hall
    ⟨by simp, by simp, by simp, by simp, by simp, by simp, by simp only; omega, Or.inl ⟨rfl, rfl, rfl⟩⟩
  simpa using this


private theorem getBang_of_getElem? {l : List Int} {i : Nat} {v : Int} (h : l[i]? = some v) :
    l[i]! = v := by
  simp [List.getElem!_eq_getElem?_getD, h]

private theorem getElem?_of_lt {l : List Int} {i : Nat} (h : i < l.length) : l[i]? = some l[i]! := by
  simp [List.getElem!_eq_getElem?_getD, List.getElem?_eq_getElem h]

/-- `_best_minimum_cut` returns the SMALLEST `k` attaining the lowest cut among the evaluated
candidates; the evaluated candidates are exactly a prefix `cuts.take m` (`m ≥ 1`); evaluation stops
early only after a cut of exactly `zero`. -/
theorem c16_unsup_select (top zero : Int) (minK : Nat) (cuts : List Int) (hne : cuts ≠ [])
    (hall : ∀ c ∈ cuts, zero ≤ c ∧ c < top) :
    ∃ k, (selectMinCut top zero minK cuts).1 = some k ∧
      minK ≤ k ∧ k < minK + (selectMinCut top zero minK cuts).2 ∧
      (selectMinCut top zero minK cuts).2 ≤ cuts.length ∧
      1 ≤ (selectMinCut top zero minK cuts).2 ∧
      selectMinCutEvaluated top zero minK cuts = cuts.take (selectMinCut top zero minK cuts).2 ∧
      (∀ c ∈ cuts.take (selectMinCut top zero minK cuts).2, cuts[k - minK]! ≤ c) ∧
      (∀ j, minK ≤ j → j < k → cuts[k - minK]! < cuts[j - minK]!) ∧
      ((selectMinCut top zero minK cuts).2 < cuts.length → cuts[k - minK]! = zero) := by
  have hpos : zero < top := by
    obtain ⟨a, l, rfl⟩ := List.exists_cons_of_ne_nil hne
    have := hall a (by simp); omega
  have hinv := cutInv_run minK cuts hpos hall
  have hfst := cutStepG_fst zero cuts ((top, none, minK, 0), [])
  rw [selectMinCut_eq]
  unfold selectMinCutEvaluated
  dsimp only at hfst ⊢
  rw [← hfst]
  generalize cuts.foldl (cutStepG zero) ((top, none, minK, 0), []) = g at hinv
  obtain ⟨⟨mn, b, i, m⟩, ev⟩ := g
  obtain ⟨hi, hm, hev, hfull, hnz, hlb, hge, hc⟩ := hinv
  dsimp only at hi hm hev hfull hnz hlb hge hc ⊢
  rcases hc with ⟨_, _, hnil⟩ | ⟨k, hb, hk1, hk2, hget, hfirst⟩
  · exact absurd hnil hne
  · have hgb := getBang_of_getElem? hget
    refine ⟨k, hb, hk1, hk2, hm, by omega, hev, ?_, ?_, ?_⟩
    · rw [hgb]; exact hlb
    · intro j hj1 hj2
      rw [hgb]
      have hjl : j - minK < cuts.length := by omega
      exact hfirst j hj1 hj2 _ (getElem?_of_lt hjl)
    · intro hlt
      rw [hgb]
      by_cases hnz' : mn = zero
      · exact hnz'
      · have := hfull hnz'; omega

/-- once a cut of exactly `zero` has been evaluated no later candidate is evaluated. -/
theorem c16_unsup_stop_at_zero (top zero : Int) (minK : Nat) (cuts : List Int)
    (hall : ∀ c ∈ cuts, zero ≤ c ∧ c < top) (i : Nat)
    (hi : i < (selectMinCut top zero minK cuts).2) (hz : cuts[i]! = zero) :
    (selectMinCut top zero minK cuts).2 = i + 1 := by
  by_cases hne : cuts = []
  · subst hne; simp [selectMinCut] at hi
  have hpos : zero < top := by
    obtain ⟨a, l, rfl⟩ := List.exists_cons_of_ne_nil hne
    have := hall a (by simp); omega
  have hinv := cutInv_run minK cuts hpos hall
  have hfst := cutStepG_fst zero cuts ((top, none, minK, 0), [])
  rw [selectMinCut_eq] at hi ⊢
  dsimp only at hfst hi ⊢
  rw [← hfst] at hi ⊢
  generalize cuts.foldl (cutStepG zero) ((top, none, minK, 0), []) = g at hinv hi
  obtain ⟨⟨mn, b, i', m⟩, ev⟩ := g
  obtain ⟨_, hm, _, _, hnz, _, _, _⟩ := hinv
  dsimp only at hm hnz hi ⊢
  by_cases hcon : m = i + 1
  · exact hcon
  · have h1 : i + 1 < m := by omega
    have hil : i < cuts.length := by omega
    exact absurd hz (hnz i h1 _ (getElem?_of_lt hil))

/-- the same with the first index of `zero` made explicit. -/
theorem c16_unsup_stop_first_zero (top zero : Int) (minK : Nat) (cuts : List Int)
    (hall : ∀ c ∈ cuts, zero ≤ c ∧ c < top)
    (hex : ∃ i, i < (selectMinCut top zero minK cuts).2 ∧ cuts[i]! = zero) :
    (selectMinCut top zero minK cuts).2 = cuts.idxOf zero + 1 := by
  obtain ⟨i, hi, hz⟩ := hex
  have hm := c16_unsup_stop_at_zero top zero minK cuts hall i hi hz
  rw [hm]
  have hmle : (selectMinCut top zero minK cuts).2 ≤ cuts.length := by
    by_cases hne : cuts = []
    · subst hne; simp [selectMinCut] at hi
    · obtain ⟨k, _, _, _, h, _⟩ := c16_unsup_select top zero minK cuts hne hall
      exact h
  have hil : i < cuts.length := by omega
  have hmem : zero ∈ cuts := by
    have := getElem?_of_lt hil
    rw [hz] at this
    exact List.mem_of_getElem? this
  have hidx : cuts.idxOf zero < cuts.length := List.idxOf_lt_length_iff.2 hmem
  have hzat : cuts[cuts.idxOf zero]! = zero := by
    have h1 : (cuts[cuts.idxOf zero] == zero) = true :=
      List.findIdx_getElem (p := fun x => x == zero) (xs := cuts) (w := hidx)
    have h2 := getElem?_of_lt hidx
    rw [List.getElem?_eq_getElem hidx] at h2
    have h3 : cuts[cuts.idxOf zero] = zero := eq_of_beq h1
    rw [← Option.some.inj h2]; exact h3
  have hle : cuts.idxOf zero ≤ i := by
    apply Classical.byContradiction
    intro hgt
    have hlt : i < cuts.findIdx (fun x => x == zero) := by
      show i < cuts.idxOf zero; omega
    have h1 := List.not_of_lt_findIdx hlt
    have h2 := getElem?_of_lt hil
    rw [List.getElem?_eq_getElem hil, hz] at h2
    have h3 : cuts[i] = zero := Option.some.inj h2
    simp [h3] at h1
  have := c16_unsup_stop_at_zero top zero minK cuts hall (cuts.idxOf zero) (by omega) hzat
  omega

/-! ### non-vacuity -/

example : selectMaxAcc (-1) [3, 5, 5, 2] = some 2 := by decide
example : selectMaxAcc (-1) [0, 0] = some 1 := by decide
example : selectMaxAcc 0 [0, 0] = none := by decide
example : selectMinCut 100 0 2 [7, 3, 3, 9] = (some 3, 4) := by decide
example : selectMinCut 100 0 2 [7, 0, 3, 0] = (some 3, 2) := by decide
example : selectMinCutEvaluated 100 0 2 [7, 0, 3, 0] = [7, 0] := by decide
example : ∀ c ∈ [7, 0, 3, 0], (0 : Int) ≤ c ∧ c < 100 := by decide

end Opf
