/-
C08 — axiom table, part 3 (D): every distance body vanishes on identical vectors of its domain
(`gaussian`, a similarity, takes the value 1 instead).
Every statement carries the hypothesis of the identifier's domain in the fixed axiom table
(`real`: none, `nonneg`: `0 ≤ u i`, `pos`: `0 < u i`, `prob`: `0 < u i` and `∑ u = 1`; plus `0 < n`
where a denominator is a sum over the coordinates).  A hypothesis bound as `_hu` / `_hn` is not
used by the proof: the numerator is already 0 and `ℝ`'s division is total (`0 / a = 0` for every
`a`), so in the real semantics the hypothesis only serves to keep the Python expression defined.
-/
import OpfVerif.Lemmas.ExprReal
import OpfVerif.Gen.Distance
import Mathlib.Tactic.Ring
import Mathlib.Tactic.Linarith
import Mathlib.Tactic.Positivity
namespace Opf
open scoped BigOperators



private theorem litR_zero : litR 0 0 = 0 := by simp [litR]
private theorem litR_one : litR 1 0 = 1 := by simp [litR]
private theorem litR_two : litR 2 0 = 2 := by simp [litR]

private theorem sumsq_pos {n : Nat} (u : Fin n → ℝ) (hu : ∀ i, 0 < u i) (hn : 0 < n) :
    0 < ∑ i, u i ^ 2 := by
  have : Nonempty (Fin n) := ⟨⟨0, hn⟩⟩
  exact Finset.sum_pos (fun i _ => pow_pos (hu i) 2) Finset.univ_nonempty

private theorem log_two_mul_div {a : ℝ} (ha : 0 < a) : Real.log (2 * a / (a + a)) = 0 := by
  rw [← two_mul, div_self (by positivity), Real.log_one]

theorem c08_self_additive_symmetric {n : Nat} (u : Fin n → ℝ) (_hu : ∀ i, 0 < u i) :
    Gen.body_additive_symmetric_distance.evalR u u = 0 := by
  simp [Gen.body_additive_symmetric_distance, S.evalR, V.evalR, litR]

theorem c08_self_average_euclidean {n : Nat} (u : Fin n → ℝ) :
    Gen.body_average_euclidean_distance.evalR u u = 0 := by
  simp [Gen.body_average_euclidean_distance, S.evalR, V.evalR]

theorem c08_self_bhattacharyya {n : Nat} (u : Fin n → ℝ) (hu : (∀ i, 0 < u i) ∧ ∑ i, u i = 1) :
    Gen.body_bhattacharyya_distance.evalR u u = 0 := by
  have h : ∀ i, Real.sqrt (u i * u i) = u i := fun i => Real.sqrt_mul_self (hu.1 i).le
  simp only [Gen.body_bhattacharyya_distance, S.evalR, V.evalR, h, hu.2, Real.log_one, neg_zero]

theorem c08_self_bray_curtis {n : Nat} (u : Fin n → ℝ) (_hu : ∀ i, 0 < u i) (_hn : 0 < n) :
    Gen.body_bray_curtis_distance.evalR u u = 0 := by
  simp [Gen.body_bray_curtis_distance, S.evalR, V.evalR]

theorem c08_self_canberra {n : Nat} (u : Fin n → ℝ) (_hu : ∀ i, 0 < u i) :
    Gen.body_canberra_distance.evalR u u = 0 := by
  simp [Gen.body_canberra_distance, S.evalR, V.evalR]

theorem c08_self_chebyshev {n : Nat} (u : Fin n → ℝ) :
    Gen.body_chebyshev_distance.evalR u u = 0 := by
  simp [Gen.body_chebyshev_distance, S.evalR, V.evalR]

theorem c08_self_chi_squared {n : Nat} (u : Fin n → ℝ) (_hu : ∀ i, 0 < u i) :
    Gen.body_chi_squared_distance.evalR u u = 0 := by
  simp [Gen.body_chi_squared_distance, S.evalR, V.evalR, litR]

theorem c08_self_chord {n : Nat} (u : Fin n → ℝ) (hu : ∀ i, 0 < u i) (hn : 0 < n) :
    Gen.body_chord_distance.evalR u u = 0 := by
  have h := sumsq_pos u hu hn
  simp only [Gen.body_chord_distance, S.evalR, V.evalR, Real.mul_self_sqrt h.le]
  simp only [← sq, div_self h.ne', mul_one, sub_self, max_self, litR_zero, Real.sqrt_zero]

theorem c08_self_clark {n : Nat} (u : Fin n → ℝ) (_hu : ∀ i, 0 < u i) :
    Gen.body_clark_distance.evalR u u = 0 := by
  simp [Gen.body_clark_distance, S.evalR, V.evalR]

theorem c08_self_cosine {n : Nat} (u : Fin n → ℝ) (hu : ∀ i, 0 < u i) (hn : 0 < n) :
    Gen.body_cosine_distance.evalR u u = 0 := by
  have h := sumsq_pos u hu hn
  simp only [Gen.body_cosine_distance, S.evalR, V.evalR, Real.mul_self_sqrt h.le]
  simp only [← sq, div_self h.ne', litR_one, sub_self]

theorem c08_self_dice {n : Nat} (u : Fin n → ℝ) (hu : ∀ i, 0 < u i) (hn : 0 < n) :
    Gen.body_dice_distance.evalR u u = 0 := by
  have h := sumsq_pos u hu hn
  simp only [Gen.body_dice_distance, S.evalR, V.evalR, litR_two, litR_one, ← sq, ← two_mul]
  rw [div_self (mul_ne_zero two_ne_zero h.ne'), sub_self]

theorem c08_self_divergence {n : Nat} (u : Fin n → ℝ) (_hu : ∀ i, 0 < u i) :
    Gen.body_divergence_distance.evalR u u = 0 := by
  simp [Gen.body_divergence_distance, S.evalR, V.evalR, litR]

theorem c08_self_euclidean {n : Nat} (u : Fin n → ℝ) :
    Gen.body_euclidean_distance.evalR u u = 0 := by
  simp [Gen.body_euclidean_distance, S.evalR, V.evalR]

theorem c08_self_gaussian {n : Nat} (u : Fin n → ℝ) :
    Gen.body_gaussian_distance.evalR u u = 1 := by
  simp [Gen.body_gaussian_distance, S.evalR, V.evalR, litR]

theorem c08_self_gower {n : Nat} (u : Fin n → ℝ) :
    Gen.body_gower_distance.evalR u u = 0 := by
  simp [Gen.body_gower_distance, S.evalR, V.evalR]

theorem c08_self_hamming {n : Nat} (u : Fin n → ℝ) :
    Gen.body_hamming_distance.evalR u u = 0 := by
  simp [Gen.body_hamming_distance, S.evalR, V.evalR]

theorem c08_self_hassanat {n : Nat} (u : Fin n → ℝ) :
    Gen.body_hassanat_distance.evalR u u = 0 := by
  simp only [Gen.body_hassanat_distance, S.evalR, V.evalR, min_self, max_self, litR_one]
  refine Finset.sum_eq_zero fun i _ => ?_
  split
  · rw [div_self (by positivity), sub_self]
  · rw [div_self, sub_self]
    rw [abs_of_neg (by linarith)]
    linarith

theorem c08_self_hellinger {n : Nat} (u : Fin n → ℝ) (_hu : ∀ i, 0 ≤ u i) :
    Gen.body_hellinger_distance.evalR u u = 0 := by
  simp [Gen.body_hellinger_distance, S.evalR, V.evalR, litR]

theorem c08_self_jaccard {n : Nat} (u : Fin n → ℝ) (_hu : ∀ i, 0 < u i) (_hn : 0 < n) :
    Gen.body_jaccard_distance.evalR u u = 0 := by
  simp [Gen.body_jaccard_distance, S.evalR, V.evalR]

theorem c08_self_jeffreys {n : Nat} (u : Fin n → ℝ) (_hu : ∀ i, 0 < u i) :
    Gen.body_jeffreys_distance.evalR u u = 0 := by
  simp [Gen.body_jeffreys_distance, S.evalR, V.evalR]

theorem c08_self_jensen {n : Nat} (u : Fin n → ℝ) (_hu : ∀ i, 0 < u i) :
    Gen.body_jensen_distance.evalR u u = 0 := by
  simp [Gen.body_jensen_distance, S.evalR, V.evalR, litR]

theorem c08_self_jensen_shannon {n : Nat} (u : Fin n → ℝ) (hu : ∀ i, 0 < u i) :
    Gen.body_jensen_shannon_distance.evalR u u = 0 := by
  simp only [Gen.body_jensen_shannon_distance, S.evalR, V.evalR, litR_two, log_two_mul_div (hu _),
    mul_zero, Finset.sum_const_zero, add_zero]

theorem c08_self_k_divergence {n : Nat} (u : Fin n → ℝ) (hu : (∀ i, 0 < u i) ∧ ∑ i, u i = 1) :
    Gen.body_k_divergence_distance.evalR u u = 0 := by
  simp only [Gen.body_k_divergence_distance, S.evalR, V.evalR, litR_two, log_two_mul_div (hu.1 _),
    mul_zero, Finset.sum_const_zero]

theorem c08_self_kulczynski {n : Nat} (u : Fin n → ℝ) (_hu : ∀ i, 0 < u i) (_hn : 0 < n) :
    Gen.body_kulczynski_distance.evalR u u = 0 := by
  simp [Gen.body_kulczynski_distance, S.evalR, V.evalR]

theorem c08_self_kullback_leibler {n : Nat} (u : Fin n → ℝ) (_hu : (∀ i, 0 < u i) ∧ ∑ i, u i = 1) :
    Gen.body_kullback_leibler_distance.evalR u u = 0 := by
  simp [Gen.body_kullback_leibler_distance, S.evalR, V.evalR]

theorem c08_self_log_euclidean {n : Nat} (u : Fin n → ℝ) :
    Gen.body_log_euclidean_distance.evalR u u = 0 := by
  simp [Gen.body_log_euclidean_distance, S.evalR, V.evalR, litR]

theorem c08_self_log_squared_euclidean {n : Nat} (u : Fin n → ℝ) :
    Gen.body_log_squared_euclidean_distance.evalR u u = 0 := by
  simp [Gen.body_log_squared_euclidean_distance, S.evalR, V.evalR, litR]

theorem c08_self_lorentzian {n : Nat} (u : Fin n → ℝ) :
    Gen.body_lorentzian_distance.evalR u u = 0 := by
  simp [Gen.body_lorentzian_distance, S.evalR, V.evalR, litR]

theorem c08_self_manhattan {n : Nat} (u : Fin n → ℝ) :
    Gen.body_manhattan_distance.evalR u u = 0 := by
  simp [Gen.body_manhattan_distance, S.evalR, V.evalR]

theorem c08_self_matusita {n : Nat} (u : Fin n → ℝ) (_hu : ∀ i, 0 ≤ u i) :
    Gen.body_matusita_distance.evalR u u = 0 := by
  simp [Gen.body_matusita_distance, S.evalR, V.evalR]

theorem c08_self_max_symmetric {n : Nat} (u : Fin n → ℝ) (_hu : ∀ i, 0 < u i) :
    Gen.body_max_symmetric_distance.evalR u u = 0 := by
  simp [Gen.body_max_symmetric_distance, S.evalR, V.evalR]

theorem c08_self_mean_censored_euclidean {n : Nat} (u : Fin n → ℝ) (_hu : ∀ i, 0 < u i) (_hn : 0 < n) :
    Gen.body_mean_censored_euclidean_distance.evalR u u = 0 := by
  simp [Gen.body_mean_censored_euclidean_distance, S.evalR, V.evalR, litR]

theorem c08_self_min_symmetric {n : Nat} (u : Fin n → ℝ) (_hu : ∀ i, 0 < u i) :
    Gen.body_min_symmetric_distance.evalR u u = 0 := by
  simp [Gen.body_min_symmetric_distance, S.evalR, V.evalR]

theorem c08_self_neyman {n : Nat} (u : Fin n → ℝ) (_hu : ∀ i, 0 < u i) :
    Gen.body_neyman_distance.evalR u u = 0 := by
  simp [Gen.body_neyman_distance, S.evalR, V.evalR]

theorem c08_self_non_intersection {n : Nat} (u : Fin n → ℝ) :
    Gen.body_non_intersection_distance.evalR u u = 0 := by
  simp [Gen.body_non_intersection_distance, S.evalR, V.evalR, litR]

theorem c08_self_pearson {n : Nat} (u : Fin n → ℝ) (_hu : ∀ i, 0 < u i) :
    Gen.body_pearson_distance.evalR u u = 0 := by
  simp [Gen.body_pearson_distance, S.evalR, V.evalR]

theorem c08_self_sangvi {n : Nat} (u : Fin n → ℝ) (_hu : ∀ i, 0 < u i) :
    Gen.body_sangvi_distance.evalR u u = 0 := by
  simp [Gen.body_sangvi_distance, S.evalR, V.evalR, litR]

theorem c08_self_soergel {n : Nat} (u : Fin n → ℝ) (_hu : ∀ i, 0 < u i) (_hn : 0 < n) :
    Gen.body_soergel_distance.evalR u u = 0 := by
  simp [Gen.body_soergel_distance, S.evalR, V.evalR]

theorem c08_self_squared {n : Nat} (u : Fin n → ℝ) (_hu : ∀ i, 0 < u i) :
    Gen.body_squared_distance.evalR u u = 0 := by
  simp [Gen.body_squared_distance, S.evalR, V.evalR]

theorem c08_self_squared_chord {n : Nat} (u : Fin n → ℝ) (_hu : ∀ i, 0 ≤ u i) :
    Gen.body_squared_chord_distance.evalR u u = 0 := by
  simp [Gen.body_squared_chord_distance, S.evalR, V.evalR]

theorem c08_self_squared_euclidean {n : Nat} (u : Fin n → ℝ) :
    Gen.body_squared_euclidean_distance.evalR u u = 0 := by
  simp [Gen.body_squared_euclidean_distance, S.evalR, V.evalR]

theorem c08_self_statistic {n : Nat} (u : Fin n → ℝ) (_hu : ∀ i, 0 < u i) :
    Gen.body_statistic_distance.evalR u u = 0 := by
  simp [Gen.body_statistic_distance, S.evalR, V.evalR, litR]

theorem c08_self_topsoe {n : Nat} (u : Fin n → ℝ) (hu : ∀ i, 0 < u i) :
    Gen.body_topsoe_distance.evalR u u = 0 := by
  simp only [Gen.body_topsoe_distance, S.evalR, V.evalR, litR_two, log_two_mul_div (hu _),
    mul_zero, Finset.sum_const_zero, add_zero]

theorem c08_self_vicis_symmetric1 {n : Nat} (u : Fin n → ℝ) (_hu : ∀ i, 0 < u i) :
    Gen.body_vicis_symmetric1_distance.evalR u u = 0 := by
  simp [Gen.body_vicis_symmetric1_distance, S.evalR, V.evalR]

theorem c08_self_vicis_symmetric2 {n : Nat} (u : Fin n → ℝ) (_hu : ∀ i, 0 < u i) :
    Gen.body_vicis_symmetric2_distance.evalR u u = 0 := by
  simp [Gen.body_vicis_symmetric2_distance, S.evalR, V.evalR]

theorem c08_self_vicis_symmetric3 {n : Nat} (u : Fin n → ℝ) (_hu : ∀ i, 0 < u i) :
    Gen.body_vicis_symmetric3_distance.evalR u u = 0 := by
  simp [Gen.body_vicis_symmetric3_distance, S.evalR, V.evalR]

theorem c08_self_vicis_wave_hedges {n : Nat} (u : Fin n → ℝ) (_hu : ∀ i, 0 < u i) :
    Gen.body_vicis_wave_hedges_distance.evalR u u = 0 := by
  simp [Gen.body_vicis_wave_hedges_distance, S.evalR, V.evalR]

end Opf
