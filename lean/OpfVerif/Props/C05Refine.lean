/-
C05 — refinement: the STATEMENT-BY-STATEMENT TRANSLATION of `opfython/core/heap.py`
(`Gen/HeapImp.lean`, regenerated from the source on every run by `tools/translate_imp.py`)
refines the hand-written model `Opf.Heap` on which the theorems of `Props/C05.lean` are proved.

What this adds to C05: the tie between the heap model and the source is no longer only sampled
by the correspondence stream; it is a theorem about the translator's output.  In particular, for
every capacity, both policies, every cost assignment and every history within C05's contract:

* no translated operation raises (no `IndexError` from any list access, negative indices included,
  no `ValueError` from the `last` setter) and every `while` loop / recursion terminates
  (`… = some _` in the `Option` semantics of `Model/PyPrelude.lean`);
* the values returned by the translated `insert` / `remove` are those of the model;
* the abstraction relation `Rel` is re-established, so the statements of `Props/C05.lean` transfer
  to the translated source (`c05_gen_*` below).

`Rel` ignores exactly what the real code never reads on these operations: `p[k]` for
`k > last` and `pos[x]` of a non-queued `x` beyond "it is -1 or 0" (the value `update` passes to
`go_up` on a BLACK identifier).
Property theorems only; helper lemmas live in `Lemmas/HeapRefine.lean`.
-/
import OpfVerif.Lemmas.HeapRefine
namespace Opf.HeapRefine
open Opf Opf.Heap Opf.Gen.HeapImp

/-- the constructor: a positive capacity and a legal policy give an object related to the model's
initial state. -/
theorem c05_gen_init (size : Nat) (hs : 0 < size) (isMax : Bool) (top : Int) :
    ∃ g, Obj.init (size : Int) (polOf isMax) top = some g ∧ Rel g (Heap.init size isMax top) :=
  init_refines size hs isMax top

/-- the constructor rejects what the setters reject (`ValueError`): capacity < 1, unknown policy. -/
theorem c05_gen_init_rejects (size : Int) (pol : String) (top : Int)
    (h : size < 1 ∨ (pol ≠ "min" ∧ pol ≠ "max")) : Obj.init size pol top = none :=
  init_rejects size pol top h

/-- `insert(x)` within the contract (WHITE identifier, or a full heap). -/
theorem c05_gen_insert (g : Obj) (h : Heap) (hr : Rel g h) (hinv : Inv h) (x : Nat)
    (hx : x < h.size) (hw : h.colorOf x = WHITE ∨ h.cnt = h.size) :
    ∃ g', Obj.insert g (x : Int) = some (g', (h.insert x).2) ∧ Rel g' (h.insert x).1 :=
  insert_refines g h hr hinv x hx hw

/-- `remove()`: the identifier of the model, or `False` on an empty heap. -/
theorem c05_gen_remove (g : Obj) (h : Heap) (hr : Rel g h) (hinv : Inv h) :
    ∃ g', Obj.remove g = some (g', retOf (h.remove).2) ∧ Rel g' (h.remove).1 :=
  remove_refines g h hr hinv

/-- `update(x, c)` for any identifier in range: WHITE (inserted), GRAY (sifted up from its
position) and BLACK (`go_up(pos[x])` with `pos[x] ∈ {-1, 0}` does nothing). -/
theorem c05_gen_update (g : Obj) (h : Heap) (hr : Rel g h) (hinv : Inv h) (x : Nat) (c : Int)
    (hx : x < h.size) :
    ∃ g', Obj.update g (x : Int) c = some (g', ()) ∧ Rel g' (h.update x c) :=
  update_refines g h hr hinv x c hx

/-- one operation of a history (vocabulary of `Model/HeapSpec.lean`). -/
theorem c05_gen_step (g : Obj) (h : Heap) (hr : Rel g h) (hinv : Inv h) (op : Op)
    (hl : Legal h op) :
    ∃ g', gstep g op = some (g', liftOut (step h op).2) ∧ Rel g' (step h op).1 :=
  step_refines g h hr hinv op hl

/-- EVERY legal history: the translated code runs to completion without raising, produces the
model's outputs, and ends related to the model's final state. -/
theorem c05_gen_run (size : Nat) (hs : 0 < size) (isMax : Bool) (top : Int) (ops : List Op)
    (hl : LegalRun (Heap.init size isMax top) ops) :
    ∃ g g', Obj.init (size : Int) (polOf isMax) top = some g ∧
      grun g ops = some (g', ((run (Heap.init size isMax top) ops).2).map liftOut) ∧
      Rel g' (run (Heap.init size isMax top) ops).1 :=
  run_refines size hs isMax top ops hl

/-- C05's headline transferred to the translated source: over any legal history the identifiers
returned by the translated `remove` are pairwise distinct, each is an identifier in range that is
BLACK in the translated object's own `color` list, and if the history leaves the translated object
empty (`last = -1`) every identifier whose colour is not WHITE has been returned. -/
theorem c05_gen_exactly_once (size : Nat) (hs : 0 < size) (isMax : Bool) (top : Int) (ops : List Op)
    (hl : LegalRun (Heap.init size isMax top) ops) :
    ∃ g g' outs, Obj.init (size : Int) (polOf isMax) top = some g ∧ grun g ops = some (g', outs) ∧
      (greturned outs).Nodup ∧
      (∀ p, p ∈ greturned outs ↔ (0 ≤ p ∧ p < (size : Int) ∧ Py.idx g'.color p = some 2)) ∧
      (g'.last = -1 → ∀ p, 0 ≤ p → p < (size : Int) → Py.idx g'.color p ≠ some 0 →
        p ∈ greturned outs) :=
  gen_exactly_once size hs isMax top ops hl

/-- the translated `remove` returns a queued identifier of extremal cost (read off the translated
object's own lists). -/
theorem c05_gen_remove_extremal (g : Obj) (h : Heap) (hr : Rel g h) (hinv : Inv h) (hne : 0 < h.cnt) :
    ∃ g' p, Obj.remove g = some (g', Sum.inl p) ∧ 0 ≤ p ∧ p < g.size ∧
      Py.idx g.color p = some 1 ∧
      ∀ q cq cp, 0 ≤ q → q < g.size → Py.idx g.color q = some 1 →
        Py.idx g.cost q = some cq → Py.idx g.cost p = some cp →
        (if g.policy = "min" then cp ≤ cq else cq ≤ cp) :=
  gen_remove_extremal g h hr hinv hne

/-- non-vacuity: a 10-operation history with tied costs is within the contract, so the translated
code runs it without raising and returns these outputs (the loops of the translation are least
fixed points, which the kernel does not unfold by evaluation: the instance goes through
`c05_gen_run`, the model side is evaluated by `decide +kernel`). -/
example :
    let ops := [Op.ins 2 5, .ins 0 5, .upd 1 7, .insraw 1, .upd 1 5, .rem, .upd 0 3, .rem, .rem, .rem]
    ∃ g g', Obj.init 3 "min" 100 = some g ∧ grun g ops = some (g',
      [.ok, .ok, .ok, .fail, .ok, .removed 2, .ok, .removed 0, .removed 1, .fail]) := by
  intro ops
  have hl : LegalRun (Heap.init 3 false 100) ops := by decide +kernel
  obtain ⟨g, g', e, e', _⟩ := c05_gen_run 3 (by decide) false 100 ops hl
  have ho : ((run (Heap.init 3 false 100) ops).2).map liftOut =
      [.ok, .ok, .ok, .fail, .ok, .removed 2, .ok, .removed 0, .removed 1, .fail] := by
    decide +kernel
  rw [ho] at e'
  exact ⟨g, g', e, e'⟩

end Opf.HeapRefine
