/-
C17 (iterations of `learn`) — structural facts about the termination rule `learnIterations`
(`Model/Learn.lean`; compared with the number of iterations the real `learn` executes): it runs at least
one iteration when an accuracy is available, never more than there are accuracies, and — started at
iteration 0 with `n_iterations ≥ 1` — never more than `n_iterations`.  (The threshold test is on
`Float`, which is opaque to the logic; these bounds hold whatever it answers.)
-/
import OpfVerif.Model.Learn
namespace Opf

theorem c17_iters_le_length (nIter : Nat) (prev : Float) (t : Nat) (accs : List Float) :
    learnIterations nIter prev t accs ≤ t + accs.length := by
  induction accs generalizing prev t with
  | nil => simp [learnIterations]
  | cons a rest ih =>
    unfold learnIterations
    split
    · simp only [List.length_cons]; omega
    · have := ih a (t + 1)
      simp only [List.length_cons]; omega

theorem c17_iters_pos (nIter : Nat) (prev : Float) (t : Nat) (a : Float) (rest : List Float) :
    t + 1 ≤ learnIterations nIter prev t (a :: rest) := by
  induction rest generalizing prev t a with
  | nil =>
    unfold learnIterations
    split
    · exact Nat.le_refl _
    · simp [learnIterations]
  | cons b rest ih =>
    unfold learnIterations
    split
    · exact Nat.le_refl _
    · have := ih a (t + 1) b
      omega

theorem c17_iters_le_nIter (nIter : Nat) (prev : Float) (t : Nat) (accs : List Float) (h : t < nIter) :
    learnIterations nIter prev t accs ≤ nIter := by
  induction accs generalizing prev t with
  | nil => simp [learnIterations]; omega
  | cons a rest ih =>
    unfold learnIterations
    split
    · omega
    · rename_i hc
      simp only [Bool.or_eq_true, beq_iff_eq, not_or] at hc
      exact ih a (t + 1) (by omega)

end Opf
