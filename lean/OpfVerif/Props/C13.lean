/-
C13 — the density clustering of `UnsupervisedOPF._clustering` / `KNNSupervisedOPF._clustering`
(executable model `Opf.clusterRun`, `Model/Knn.lean` §L5, running on the max-heap model L0):
plateau symmetrisation is sound, the competition removes every sample exactly once and leaves an
optimum-path forest on the symmetrised k-NN graph whose roots carry their density, whose arcs
record `cost q = min (cost (pred q)) (dens q)`, and whose labels/roots are constant along the
chains; cluster identifiers (unsupervised) are `0 … nclusters-1` in removal order of the roots;
with forced prototypes (KNN-supervised) every training sample keeps its own true label (the KNN
clause of C04); `propagate_labels` writes the true label of the root.

Property theorems only (helper lemmas: `OpfVerif/Lemmas/Cluster.lean`).  Vocabulary:
`Clu.WF`, `Clu.nbrs`, `Clu.Chain` (`Model/KnnSpec.lean`); `Clu.sym unsup k c` is the input after
the symmetrisation pass of the chosen variant (`symUns k c` / `symKnn c`); `Clu.Ready` bundles the
hypotheses: `c.WF`, `cost i < dens i`, `negTop < cost i`, (unsupervised) `k ≤ |adj i|`, and
`c.order = #[]` so that `order` of the result is exactly this run's removal order.
-/
import OpfVerif.Lemmas.Cluster
namespace Opf

open Cluster

/-! ### S: symmetrisation -/

/-- KNN-supervised variant: every arc after symmetrisation is a k-NN arc or the reverse of a k-NN
arc between two samples of equal density. -/
theorem c13_sym_sound_knn (c : Clu) (w : c.WF) :
    ∀ i, i < c.n → ∀ j, j ∈ (symKnn c).adjOf i →
      j ∈ c.adjOf i ∨ (i ∈ c.adjOf j ∧ c.densOf i = c.densOf j) :=
  fun i _ j hj => (symKnn_inv w).snd i j hj

/-- unsupervised variant (as written in the source), provided every list holds the `k` entries
the scan reads. -/
theorem c13_sym_sound_uns (k : Nat) (c : Clu) (w : c.WF)
    (hlen : ∀ i, i < c.n → k ≤ (c.adjOf i).length) :
    ∀ i, i < c.n → ∀ j, j ∈ (symUns k c).adjOf i →
      j ∈ c.adjOf i ∨ (i ∈ c.adjOf j ∧ c.densOf i = c.densOf j) :=
  fun i _ j hj => (symUns_inv w hlen).snd i j hj

/-- both variants at once, in the form used below. -/
theorem c13_sym_sound (unsup : Bool) (k : Nat) (c : Clu) (w : c.WF)
    (hlen : unsup = true → ∀ i, i < c.n → k ≤ (c.adjOf i).length) :
    ∀ i, i < c.n → ∀ j, j ∈ (c.sym unsup k).adjOf i →
      j ∈ c.adjOf i ∨ (i ∈ c.adjOf j ∧ c.densOf i = c.densOf j) :=
  fun i _ j hj => (sym_inv w hlen).snd i j hj

/-- symmetrisation never drops an arc. -/
theorem c13_sym_keeps (unsup : Bool) (k : Nat) (c : Clu) (w : c.WF)
    (hlen : unsup = true → ∀ i, i < c.n → k ≤ (c.adjOf i).length) :
    ∀ i j, j ∈ c.adjOf i → j ∈ (c.sym unsup k).adjOf i :=
  fun i j hj => (sym_inv w hlen).mono i j hj

/-- symmetrisation changes `adj` (and `nplat`) only and preserves well-formedness. -/
theorem c13_sym_frame (unsup : Bool) (k : Nat) (c : Clu) (w : c.WF)
    (hlen : unsup = true → ∀ i, i < c.n → k ≤ (c.adjOf i).length) :
    (c.sym unsup k).n = c.n ∧ (c.sym unsup k).dens = c.dens ∧ (c.sym unsup k).cost = c.cost ∧
    (c.sym unsup k).pred = c.pred ∧ (c.sym unsup k).root = c.root ∧ (c.sym unsup k).lab = c.lab ∧
    (c.sym unsup k).tlabel = c.tlabel ∧ (c.sym unsup k).order = c.order ∧
    (c.sym unsup k).nclusters = c.nclusters ∧ (c.sym unsup k).WF := by
  have s := sym_inv w hlen
  have f := s.frame
  exact ⟨f.n, f.dens, f.cost, f.pred, f.root, f.lab, f.tlabel, f.order, f.nclusters, s.wf w⟩

/-- the KNN-supervised symmetrisation does not touch `nplat`. -/
theorem c13_sym_nplat_knn (c : Clu) : (symKnn c).nplat = c.nplat := symKnn_nplat c

/-- KNN-supervised variant, completeness: on a plateau every k-NN arc gets its reverse. -/
theorem c13_sym_complete_knn (c : Clu) (w : c.WF) :
    ∀ i j, i < c.n → j ∈ c.adjOf i → c.densOf i = c.densOf j → i ∈ (symKnn c).adjOf j :=
  fun _ _ hi hj hd => symKnn_complete w hi hj hd

/-! ### F: the forest -/

section Forest
variable (unsup force : Bool) (top negTop : Int) (k : Nat) (c : Clu)

/-- `n`, `dens`, `tlabel` are not changed by `clusterRun`; `adj`, `nplat` are those of the
symmetrised input; the result is well formed. -/
theorem c13_unchanged (h : c.Ready unsup negTop k) :
    (clusterRun unsup force top negTop k c).n = c.n ∧
    (clusterRun unsup force top negTop k c).dens = c.dens ∧
    (clusterRun unsup force top negTop k c).tlabel = c.tlabel ∧
    (clusterRun unsup force top negTop k c).adj = (c.sym unsup k).adj ∧
    (clusterRun unsup force top negTop k c).nplat = (c.sym unsup k).nplat ∧
    (clusterRun unsup force top negTop k c).WF := by
  obtain ⟨s, F⟩ := run_spec (force := force) (top := top) h
  have f := s.frame
  exact ⟨F.n.trans f.n, F.dens.trans f.dens, F.tlabel.trans f.tlabel, F.adj, F.nplat, F.wf⟩

/-- every sample is removed exactly once. -/
theorem c13_order (h : c.Ready unsup negTop k) :
    (clusterRun unsup force top negTop k c).order.toList.Nodup ∧
    ∀ t, t ∈ (clusterRun unsup force top negTop k c).order.toList ↔ t < c.n := by
  obtain ⟨s, F⟩ := run_spec (force := force) (top := top) h
  exact ⟨F.nd, fun t => by rw [F.mem, s.frame.n]⟩

/-- a root carries its density and is its own root. -/
theorem c13_root_cost (h : c.Ready unsup negTop k) :
    ∀ t, t < c.n → (clusterRun unsup force top negTop k c).predOf t = none →
      (clusterRun unsup force top negTop k c).costOf t = c.densOf t ∧
      (clusterRun unsup force top negTop k c).rootOf t = t := by
  obtain ⟨s, F⟩ := run_spec (force := force) (top := top) h
  intro t ht hp
  have := F.rootc t (s.frame.n ▸ ht) hp
  rwa [s.frame.densOf] at this

/-- a conquered sample `q` with `pred q = some p`: `p` is a sample, `q` is one of the neighbours the
competition visits from `p` in the symmetrised graph, its cost is `min (cost p) (dens q)` and
strictly above its initial cost, `p` was removed before `q`, root and label are inherited, and
with forced prototypes `p` and `q` have the same true label. -/
theorem c13_link (h : c.Ready unsup negTop k) :
    ∀ q, q < c.n → ∀ p, (clusterRun unsup force top negTop k c).predOf q = some p →
      p < c.n ∧ q ∈ (c.sym unsup k).nbrs unsup k p ∧
      (clusterRun unsup force top negTop k c).costOf q =
        min ((clusterRun unsup force top negTop k c).costOf p) (c.densOf q) ∧
      c.costOf q < (clusterRun unsup force top negTop k c).costOf q ∧
      (clusterRun unsup force top negTop k c).order.toList.idxOf p <
        (clusterRun unsup force top negTop k c).order.toList.idxOf q ∧
      (clusterRun unsup force top negTop k c).rootOf q =
        (clusterRun unsup force top negTop k c).rootOf p ∧
      (clusterRun unsup force top negTop k c).labOf q =
        (clusterRun unsup force top negTop k c).labOf p ∧
      (force = true → c.tlabelOf p = c.tlabelOf q) := by
  obtain ⟨s, F⟩ := run_spec (force := force) (top := top) h
  intro q hq p hp
  have := F.link q (s.frame.n ▸ hq) p hp
  rwa [s.frame.densOf, s.frame.costOf, s.frame.tlabelOf, s.frame.tlabelOf, s.frame.n] at this

/-- every sample hangs, through a `pred` chain, below a root; its `root` field is that root and
its label is the root's label. -/
theorem c13_reaches_root (h : c.Ready unsup negTop k) :
    ∀ t, t < c.n → ∃ ρ, ρ < c.n ∧ (clusterRun unsup force top negTop k c).predOf ρ = none ∧
      Clu.Chain (clusterRun unsup force top negTop k c) ρ t ∧
      (clusterRun unsup force top negTop k c).rootOf t = ρ ∧
      (clusterRun unsup force top negTop k c).labOf t =
        (clusterRun unsup force top negTop k c).labOf ρ := by
  obtain ⟨s, F⟩ := run_spec (force := force) (top := top) h
  intro t ht
  have := F.reaches t (s.frame.n ▸ ht)
  rwa [s.frame.n] at this

/-- the root of a chain is unique (`pred` is a function): holds for every `Clu`. -/
theorem c13_root_unique (r : Clu) (ρ ρ' t : Nat) (h1 : Clu.Chain r ρ t) (h2 : Clu.Chain r ρ' t)
    (hρ : r.predOf ρ = none) (hρ' : r.predOf ρ' = none) : ρ = ρ' :=
  chain_root_unique h1 h2 hρ hρ'

/-- the cost of a sample never exceeds the density of its root. -/
theorem c13_root_bound (h : c.Ready unsup negTop k) :
    ∀ t, t < c.n → (clusterRun unsup force top negTop k c).costOf t ≤
      c.densOf ((clusterRun unsup force top negTop k c).rootOf t) := by
  obtain ⟨s, F⟩ := run_spec (force := force) (top := top) h
  intro t ht
  have := F.root_bound t (s.frame.n ▸ ht)
  rwa [s.frame.densOf] at this

/-- every sample ends strictly above its initial cost. -/
theorem c13_cost_gt (h : c.Ready unsup negTop k) :
    ∀ t, t < c.n → c.costOf t < (clusterRun unsup force top negTop k c).costOf t := by
  obtain ⟨s, F⟩ := run_spec (force := force) (top := top) h
  intro t ht
  have hb : ∀ i, i < (c.sym unsup k).n → (c.sym unsup k).costOf i < (c.sym unsup k).densOf i :=
    fun i hi => by rw [s.frame.costOf, s.frame.densOf]; exact h.below i (s.frame.n ▸ hi)
  have := F.cost_gt hb t (s.frame.n ▸ ht)
  rwa [s.frame.costOf] at this

/-- when the initial costs are the densities minus one (`calculate_pdf`), no sample's density
exceeds the density of its root by one or more. -/
theorem c13_density_gap (h : c.Ready unsup negTop k)
    (hpdf : ∀ i, i < c.n → c.densOf i - 1 ≤ c.costOf i) :
    ∀ t, t < c.n → c.densOf t - 1 <
      c.densOf ((clusterRun unsup force top negTop k c).rootOf t) := by
  intro t ht
  have h1 := c13_cost_gt unsup force top negTop k c h t ht
  have h2 := c13_root_bound unsup force top negTop k c h t ht
  have h3 := hpdf t ht
  omega

/-- unsupervised variant: `nclusters` is the number of roots, and the roots' cluster identifiers
are `0, 1, …, nclusters-1` in removal order. -/
theorem c13_ids_unsup (h : c.Ready unsup negTop k) (hu : unsup = true) :
    (clusterRun unsup force top negTop k c).nclusters =
      ((List.range c.n).filter
        (fun t => (clusterRun unsup force top negTop k c).predOf t == none)).length ∧
    ((clusterRun unsup force top negTop k c).order.toList.filter
        (fun t => (clusterRun unsup force top negTop k c).predOf t == none)).map
      (clusterRun unsup force top negTop k c).labOf =
      List.range (clusterRun unsup force top negTop k c).nclusters := by
  obtain ⟨s, F⟩ := run_spec (force := force) (top := top) h
  refine ⟨?_, F.ids hu⟩
  have := F.count hu
  rwa [s.frame.n] at this

/-- KNN-supervised variant: a root takes its own true label. -/
theorem c13_labels_knn (h : c.Ready unsup negTop k) (hu : unsup = false) :
    ∀ t, t < c.n → (clusterRun unsup force top negTop k c).predOf t = none →
      (clusterRun unsup force top negTop k c).labOf t = c.tlabelOf t := by
  obtain ⟨s, F⟩ := run_spec (force := force) (top := top) h
  intro t ht hp
  have := F.knn hu t (s.frame.n ▸ ht) hp
  rwa [s.frame.tlabelOf] at this

/-- KNN-supervised variant with forced prototypes: every training sample receives its own true
label (the KNN clause of C04). -/
theorem c13_knn_forced (h : c.Ready unsup negTop k) (hu : unsup = false) (hf : force = true) :
    ∀ t, t < c.n → (clusterRun unsup force top negTop k c).labOf t = c.tlabelOf t := by
  obtain ⟨s, F⟩ := run_spec (force := force) (top := top) h
  intro t ht
  have := F.forced hu hf t (s.frame.n ▸ ht)
  rwa [s.frame.tlabelOf] at this

/-- `propagate_labels` writes, for every sample, the true label of its root. -/
theorem c13_propagate (h : c.Ready unsup negTop k) :
    ∀ t, t < c.n → (propagateLabels (clusterRun unsup force top negTop k c)).getD t 0 =
      c.tlabelOf ((clusterRun unsup force top negTop k c).rootOf t) := by
  obtain ⟨s, F⟩ := run_spec (force := force) (top := top) h
  intro t ht
  rw [propagate_getD _ t (by rw [F.n, s.frame.n]; exact ht)]
  unfold Clu.tlabelOf
  rw [F.tlabel, s.frame.tlabel]

end Forest

/-! ### non-vacuity: four samples, a plateau `{0, 1}` and an isolated minimum -/

/-- densities `5 5 3 2`, costs `dens - 1`, 1-NN arcs `0→1, 1→2, 2→1, 3→2`, true labels `7 7 8 9`. -/
def c13Demo : Clu :=
  { n := 4, adj := #[[1], [2], [1], [2]], nplat := #[0, 0, 0, 0], dens := #[5, 5, 3, 2],
    cost := #[4, 4, 2, 1], pred := #[none, none, none, none], root := #[0, 0, 0, 0],
    lab := #[0, 0, 0, 0], tlabel := #[7, 7, 8, 9], order := #[], nclusters := 0 }

/-- both symmetrisations add the reverse arc `1→0` of the plateau; the unsupervised competition
finds the two clusters `{0,1,2}` (root `0`) and `{3}` with identifiers `0, 1`; the KNN-supervised
competition gives the roots their true labels and, with forced prototypes, every sample its own. -/
example :
    (symKnn c13Demo).adj = #[[1], [0, 2], [1], [2]] ∧
    (symUns 1 c13Demo).adj = #[[1], [0, 2], [1], [2]] ∧ (symUns 1 c13Demo).nplat = #[0, 1, 0, 0] ∧
    (clusterRun true false 100 (-100) 1 c13Demo).order = #[0, 1, 2, 3] ∧
    (clusterRun true false 100 (-100) 1 c13Demo).pred = #[none, some 0, some 1, none] ∧
    (clusterRun true false 100 (-100) 1 c13Demo).root = #[0, 0, 0, 3] ∧
    (clusterRun true false 100 (-100) 1 c13Demo).cost = #[5, 5, 3, 2] ∧
    (clusterRun true false 100 (-100) 1 c13Demo).lab = #[0, 0, 0, 1] ∧
    (clusterRun true false 100 (-100) 1 c13Demo).nclusters = 2 ∧
    (clusterRun false false 100 (-100) 1 c13Demo).lab = #[7, 7, 7, 9] ∧
    (clusterRun false true 100 (-100) 1 c13Demo).lab = #[7, 7, 8, 9] ∧
    (clusterRun false true 100 (-100) 1 c13Demo).pred = #[none, some 0, none, none] ∧
    propagateLabels (clusterRun false false 100 (-100) 1 c13Demo) = #[7, 7, 7, 9] := by
  decide +kernel

/-- the demo input satisfies the hypotheses of the theorems above (both variants). -/
example (unsup : Bool) : c13Demo.Ready unsup (-100) 1 := by
  refine ⟨⟨rfl, rfl, rfl, rfl, rfl, rfl, rfl, rfl, ?_⟩, ?_, ?_, ?_, rfl⟩
  · intro i hi j hj
    have hi' : i < 4 := hi
    match i, hi' with
    | 0, _ | 1, _ | 2, _ | 3, _ =>
      simp only [c13Demo, Clu.adjOf, Array.getD_eq_getD_getElem?] at hj
      simp at hj
      subst hj
      exact ⟨by decide, by decide⟩
  · intro i hi
    have hi' : i < 4 := hi
    match i, hi' with
    | 0, _ | 1, _ | 2, _ | 3, _ => decide
  · intro i hi
    have hi' : i < 4 := hi
    match i, hi' with
    | 0, _ | 1, _ | 2, _ | 3, _ => decide
  · intro _ i hi
    have hi' : i < 4 := hi
    match i, hi' with
    | 0, _ | 1, _ | 2, _ | 3, _ => decide

end Opf
