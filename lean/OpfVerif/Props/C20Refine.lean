/-
C20 — the COUNTING part of the evaluation measures AS WRITTEN IN /repo (translated statement by statement:
`Gen/MeasImp.lean`, numpy reading `Model/PyMeas.lean`) computes exactly the tables the model `Model/Measures.lean`
is written over — class count, confusion counts, false positives / false negatives per class, class sizes — for every
label and prediction vector; and the float tails are the texts the model's arithmetic (`opfAccuracyG`, `perLabelG`,
`purityG`) was written for.  With `Props/C20.lean` (formula, range, `= 1` iff correct, recall, purity) this carries the
C20 theorems to the translated source, the float rounding of the tail excepted (sampled by the `measures` stream).

STATEMENTS ARE FIXED (DESIGN §2.1b); helper lemmas live in Lemmas/MeasRefine.lean.
-/
import OpfVerif.Gen.MeasImp
import OpfVerif.Model.Measures
import OpfVerif.Lemmas.MeasRefine

namespace Opf.C20Refine
open Opf Opf.Gen

/-- a vector of class identifiers as numpy sees it. -/
def natArr (l : List Nat) : Array Int := (l.map Int.ofNat).toArray

/-- translated `confusion_matrix` = `confusion`: a `nClass × nClass` table whose entry `[a][b]` counts the samples of
true class `a` predicted `b` — whenever the predictions index the table (`< nClass labels`). -/
theorem confusion_refines (labels preds : List Nat) (hl : labels.length = preds.length) (hne : labels ≠ [])
    (hp : ∀ p ∈ preds, p < nClass labels) :
    MeasImp.confusion_matrix (natArr labels) (natArr preds) = some ((confusion labels preds).map natArr).toArray :=
  MeasRefine.confusion_refines labels preds hl hne hp

/-- … and it raises (`ValueError` of `np.max`) on empty labels, (`IndexError`) on a prediction beyond the table. -/
theorem confusion_raises_empty (preds : List Nat) : MeasImp.confusion_matrix (natArr []) (natArr preds) = none :=
  MeasRefine.confusion_raises_empty preds

theorem confusion_raises_beyond (labels preds : List Nat) (hl : labels.length = preds.length)
    (hp : ∃ p ∈ preds, nClass labels ≤ p) :
    MeasImp.confusion_matrix (natArr labels) (natArr preds) = none :=
  MeasRefine.confusion_raises_beyond labels preds hl hp

/-- translated `opf_accuracy`, counting part: the table is sized by the largest label OR prediction (`nClassAcc`),
`counts[c]` is the size of class `c`, `errors[c] = [false positives of c, false negatives of c]` — for EVERY
prediction vector of the right length (no range condition). -/
theorem accuracy_counts_refines (labels preds : List Nat) (hl : labels.length = preds.length) (hne : labels ≠ []) :
    MeasImp.opf_accuracy (natArr labels) (natArr preds) =
      some (natArr ((List.range (nClassAcc labels preds)).map (classCount labels)),
            ((List.range (nClassAcc labels preds)).map (fun c => natArr [falsePos labels preds c, falseNeg labels preds c])).toArray,
            (nClassAcc labels preds : Int)) :=
  MeasRefine.accuracy_counts_refines labels preds hl hne

/-- translated `opf_accuracy_per_label`, counting part: `errors[c]` = false negatives of class `c`, `counts` = what
`np.unique` returns. -/
theorem per_label_counts_refines (labels preds : List Nat) (hl : labels.length = preds.length) (hne : labels ≠ []) :
    MeasImp.opf_accuracy_per_label (natArr labels) (natArr preds) =
      some (Py.uniqueCounts (natArr labels), natArr ((List.range (nClass labels)).map (falseNeg labels preds))) := by
  have _ := hl  -- the length hypothesis is not needed: `zip` stops at the shorter vector
  exact MeasRefine.per_label_counts_refines labels preds hne

/-- when every class `0..K-1` occurs among the labels (the domain of the property), `np.unique`'s counts line up with
the classes: entry `c` is the size of class `c`. -/
theorem uniqueCounts_all_present (labels : List Nat) (hall : ∀ c, c < nClass labels → c ∈ labels) :
    Py.uniqueCounts (natArr labels) = natArr ((List.range (nClass labels)).map (classCount labels)) :=
  MeasRefine.uniqueCounts_all_present labels hall

/-- translated `purity`: numerator = Σ over predicted groups of the largest class count in the group (the very
expression `purityG` divides), denominator = number of samples. -/
theorem purity_counts_refines (labels preds : List Nat) (hl : labels.length = preds.length) (hne : labels ≠ [])
    (hp : ∀ p ∈ preds, p < nClass labels) :
    MeasImp.purity (natArr labels) (natArr preds) =
      some (((((List.range (nClass labels)).map (fun b => ((List.range (nClass labels)).map
              (fun a => ((confusion labels preds).getD a []).getD b 0)).foldl max 0)).foldl (· + ·) 0 : Nat) : Int),
            (labels.length : Int)) :=
  MeasRefine.purity_counts_refines labels preds hl hne hp

/-- the class sizes add up to the number of samples (`np.nansum(counts)` of the tail is `N`). -/
theorem counts_sum (labels preds : List Nat) :
    ((List.range (nClassAcc labels preds)).map (classCount labels)).foldl (· + ·) 0 = labels.length :=
  MeasRefine.counts_sum labels preds

/-! ### the float tails, as written in /repo, are the texts the model arithmetic mirrors -/

theorem confusion_tail_eq : MeasImp.confusion_matrix_tail = "return c_matrix" := by decide +kernel
theorem accuracy_tail_eq : MeasImp.opf_accuracy_tail =
    "errors[:, 1] /= counts\nerrors[:, 0] /= np.nansum(counts) - counts\nerrors = np.nansum(errors, axis=1)\naccuracy = 1 - np.sum(errors) / (2 * n_class)\nreturn accuracy" := by
  decide +kernel
theorem per_label_tail_eq : MeasImp.opf_accuracy_per_label_tail = "errors /= counts\naccuracy = 1 - errors\nreturn accuracy" := by
  decide +kernel
theorem purity_tail_eq : MeasImp.purity_tail = "<numerator> / <denominator>" := by decide +kernel

/-- `normalize` as written: column mean, POPULATION standard deviation (`np.std`, `ddof = 0`), `(value - mean) / std` — the
text the model `normalizeColG` (and the theorems `c20_normalize*` of Props/C20.lean) mirror column by column. -/
theorem normalize_body_eq : MeasImp.normalize_body =
    "mean = np.mean(array, axis=0)\nstd = np.std(array, axis=0)\nnorm_array = (array - mean) / std\nreturn norm_array" := by
  decide +kernel

/-! ### non-vacuity -/
example : MeasImp.confusion_matrix (natArr [0, 0, 1, 1, 2, 2, 2]) (natArr [0, 1, 1, 1, 2, 0, 2]) =
    some #[#[1, 1, 0], #[0, 2, 0], #[1, 0, 2]] := by
  rw [confusion_refines [0, 0, 1, 1, 2, 2, 2] [0, 1, 1, 1, 2, 0, 2] rfl (by decide) (by decide)]; decide +kernel
example : MeasImp.opf_accuracy (natArr [0, 2, 2]) (natArr [0, 2, 1]) =
    some (#[1, 0, 2], #[#[0, 0], #[1, 0], #[0, 1]], 3) := by
  rw [accuracy_counts_refines [0, 2, 2] [0, 2, 1] rfl (by decide)]; decide +kernel

end Opf.C20Refine
