/-
C09 (batch = pointwise, no dependence on history) — END TO END for the translated supervised code: after the translation
of `SupervisedOPF.fit` (`Gen/FitImp.lean`), the translation of `SupervisedOPF.predict` (`Gen/PredImp.lean`)

* returns for query `i` of a batch exactly what it returns for that query presented ALONE (`c09_gen_sup_alone`);
* returns the same predictions whether it is called on the freshly fitted classifier or on the classifier as an EARLIER
  `predict` call (any batch) left it (`c09_gen_sup_after_history`) — the relevance marks that call set are the only thing
  `predict` changes and it never reads them.

(The KNN-supervised / unsupervised counterpart is `c14_gen_knn_pointwise` in `Props/C14Gen.lean`.)
Composition of `c03_gen_master`, `c03_gen_predict` with `c09_sup_pointwise`, `c09_sup_model_unchanged`.
STATEMENTS ARE FIXED (DESIGN §2.1b); helper lemmas live in Lemmas/C09GenLemmas.lean.
-/
import OpfVerif.Props.C03Gen
import OpfVerif.Props.C09
import OpfVerif.Lemmas.C09GenLemmas
namespace Opf.C09Gen
open Opf Opf.Gen Opf.Gen.SupImp Opf.SupRefine Opf.FitCompose Opf.GenCompose

/-- a batch against each of its samples alone. -/
theorem c09_gen_sup_alone (W WQ : Int → Int → Option Int) (w : Nat → Nat → Int) (top : Int)
    (sg0 psg0 : SG) (lab : Array Nat) (ds : List (Nat → Int))
    (hr : RelF sg0 (Forest.init lab)) (hW : WAgree lab.size W w) (H : FitHyp w top lab.size lab)
    (hq : QuerySG psg0 ds.length) (hWQ : WQAgree lab.size WQ ds) :
    ∃ sg1 sg2 preds, fit W top sg0 = some (sg1, ()) ∧ predict WQ sg1 psg0 = some (sg2, preds) ∧
      preds.size = ds.length ∧
      ∀ (i : Nat) (hi : i < ds.length) (WQi : Int → Int → Option Int) (psgi : SG),
        QuerySG psgi 1 → WQAgree lab.size WQi [ds[i]] →
        ∃ sgi pi, predict WQi sg1 psgi = some (sgi, pi) ∧ pi = #[preds.getD i 0] := by
  obtain ⟨sg1, he, ht, r⟩ := c01_gen_master W w top sg0 lab hr hW H
  obtain ⟨hs, hn, hos, hol, hc⟩ := fitRun_predict_ready H false
  have hfn := fitRun_n H false
  obtain ⟨sg2, preds, hp, _, hpreds⟩ := C09GenLemmas.predict_on_agree WQ sg1 _ _ r (C09GenLemmas.agreeBut_refl _) hs ht hn
    hos hol hc psg0 ds hq (by rw [hfn]; exact hWQ)
  refine ⟨sg1, sg2, preds, he, hp, ?_, ?_⟩
  · rw [hpreds, labelsInt_size, List.length_map]
  · intro i hi WQi psgi hqi hWQi
    obtain ⟨sgi, pi, hpi, _, hpie⟩ := C09GenLemmas.predict_on_agree WQi sg1 _ _ r (C09GenLemmas.agreeBut_refl _) hs ht hn
      hos hol hc psgi [ds[i]] hqi (by rw [hfn]; exact hWQi)
    refine ⟨sgi, pi, hpi, ?_⟩
    rw [hpie, hpreds]
    exact C09GenLemmas.labelsInt_single _ ds i hi

/-- the same batch on the fitted classifier and on the classifier after an earlier `predict` call. -/
theorem c09_gen_sup_after_history (W WQ0 WQ : Int → Int → Option Int) (w : Nat → Nat → Int) (top : Int)
    (sg0 psg0 psg : SG) (lab : Array Nat) (ds0 ds : List (Nat → Int))
    (hr : RelF sg0 (Forest.init lab)) (hW : WAgree lab.size W w) (H : FitHyp w top lab.size lab)
    (hq0 : QuerySG psg0 ds0.length) (hWQ0 : WQAgree lab.size WQ0 ds0)
    (hq : QuerySG psg ds.length) (hWQ : WQAgree lab.size WQ ds) :
    ∃ sg1 sg2 p0 sgA pA sgB pB, fit W top sg0 = some (sg1, ()) ∧
      predict WQ0 sg1 psg0 = some (sg2, p0) ∧
      predict WQ sg1 psg = some (sgA, pA) ∧ predict WQ sg2 psg = some (sgB, pB) ∧ pB = pA ∧
      sg2.pred = sg1.pred ∧ sg2.status = sg1.status ∧ sg2.cost = sg1.cost ∧
      sg2.predicted_label = sg1.predicted_label ∧ sg2.label = sg1.label ∧ sg2.idx_nodes = sg1.idx_nodes := by
  obtain ⟨sg1, he, ht, r⟩ := c01_gen_master W w top sg0 lab hr hW H
  obtain ⟨hs, hn, hos, hol, hc⟩ := fitRun_predict_ready H false
  have hfn := fitRun_n H false
  obtain ⟨sg2, p0, hp0, r2, _⟩ := C09GenLemmas.predict_on_agree WQ0 sg1 _ _ r (C09GenLemmas.agreeBut_refl _) hs ht hn
    hos hol hc psg0 ds0 hq0 (by rw [hfn]; exact hWQ0)
  obtain ⟨sgA, pA, hpA, _, hA⟩ := C09GenLemmas.predict_on_agree WQ sg1 _ _ r (C09GenLemmas.agreeBut_refl _) hs ht hn
    hos hol hc psg ds hq (by rw [hfn]; exact hWQ)
  have ht2 : sg2.trained = true := (C09GenLemmas.predict_trained WQ0 sg1 psg0 sg2 p0 hp0).trans ht
  have ha := predictBatch_fields (fitRun w top false lab.size lab).f ds0
  obtain ⟨sgB, pB, hpB, _, hB⟩ := C09GenLemmas.predict_on_agree WQ sg2 _ _ r2 ha hs ht2 hn
    hos hol hc psg ds hq (by rw [hfn]; exact hWQ)
  obtain ⟨_, f2, f3, f4, f5, f6, f7⟩ := relF_agree r r2 ha
  exact ⟨sg1, sg2, p0, sgA, pA, sgB, pB, he, hp0, hpA, hpB, by rw [hB, hA], f3, f4, f2, f5, f6, f7⟩

/-! ### non-vacuity: both theorems fire on the demo of `Props/C01Gen.lean` / `Props/C03Gen.lean`. -/

example : ∃ sg1 sg2 preds, fit demoW 100 (initSG #[1, 1, 2]) = some (sg1, ()) ∧
    predict demoWQ sg1 (querySG demoQ.length) = some (sg2, preds) ∧ preds.size = demoQ.length ∧
    ∀ (i : Nat) (hi : i < demoQ.length) (WQi : Int → Int → Option Int) (psgi : SG),
      QuerySG psgi 1 → WQAgree (#[1, 1, 2] : Array Nat).size WQi [demoQ[i]] →
      ∃ sgi pi, predict WQi sg1 psgi = some (sgi, pi) ∧ pi = #[preds.getD i 0] :=
  c09_gen_sup_alone demoW demoWQ c15_demo_w 100 _ _ #[1, 1, 2] demoQ
    c01_gen_demo_hyps.1 c01_gen_demo_hyps.2.1 c01_gen_demo_hyps.2.2
    (c03_gen_query_hyps 3 demoQ).1 (c03_gen_query_hyps 3 demoQ).2

example : ∃ sg1 sg2 p0 sgA pA sgB pB, fit demoW 100 (initSG #[1, 1, 2]) = some (sg1, ()) ∧
    predict demoWQ sg1 (querySG demoQ.length) = some (sg2, p0) ∧
    predict demoWQ sg1 (querySG demoQ.length) = some (sgA, pA) ∧
    predict demoWQ sg2 (querySG demoQ.length) = some (sgB, pB) ∧ pB = pA ∧
    sg2.pred = sg1.pred ∧ sg2.status = sg1.status ∧ sg2.cost = sg1.cost ∧
    sg2.predicted_label = sg1.predicted_label ∧ sg2.label = sg1.label ∧ sg2.idx_nodes = sg1.idx_nodes :=
  c09_gen_sup_after_history demoW demoWQ demoWQ c15_demo_w 100 _ _ _ #[1, 1, 2] demoQ demoQ
    c01_gen_demo_hyps.1 c01_gen_demo_hyps.2.1 c01_gen_demo_hyps.2.2
    (c03_gen_query_hyps 3 demoQ).1 (c03_gen_query_hyps 3 demoQ).2
    (c03_gen_query_hyps 3 demoQ).1 (c03_gen_query_hyps 3 demoQ).2

end Opf.C09Gen
