/-
C15 — semi-supervised training (`SemiSupervisedOPF.fit`), and the fit-level form of C01/C02 for the
executable model `fitRun` (`SupervisedOPF.fit` is `semi = false`, `nLab = lab.size`).

Setting (`FitHyp w top nLab lab`, defined in `Lemmas/FitCompose.lean`): `n = lab.size` samples, the
first `nLab` of them labeled (`0 < nLab ≤ n`; `lab` = their labels followed by one `0` per unlabeled
sample), weights symmetric on the labeled prefix, `0 ≤ w p q < top` for all samples, `0 < top`, and at
least two classes among the labeled samples.  `fitPrim w top nLab lab` is the forest left by prototype
selection, `fitInst w top nLab lab = compInstOf w top (fitPrim …)` the competition instance over ALL
`n` samples whose seeds are the prototypes and whose seed labels are the true labels.

Every statement below is for an arbitrary `semi`, so it covers both models; the `c01_fit_…` /
`c02_fit_…` corollaries spell out the supervised case.  Statements only — proofs are in
`Lemmas/FitCompose.lean`.
-/
import OpfVerif.Lemmas.FitCompose
namespace Opf
open FitCompose

variable {w : Nat → Nat → Int} {top : Int} {nLab : Nat} {lab : Array Nat}

/-! ### 1. the fresh forest and prototype selection -/

/-- the forest `fit` starts from has consistent sizes, no predecessor, no prototype, empty order. -/
theorem c15_init_fresh (lab : Array Nat) :
    (Forest.init lab).Sized ∧
    (∀ x, (Forest.init lab).predOf x = none ∧ (Forest.init lab).isProto x = false) ∧
    (Forest.init lab).order = #[] :=
  ⟨init_sized lab, init_fresh lab, init_order lab⟩

/-- prototype selection is a lawful finished run of Prim's algorithm on the labeled prefix (so every
C02 theorem applies to `s'`); it leaves the unlabeled samples, the labels and the (empty) conquest
order untouched. -/
theorem c15_prototypes_lawful (H : FitHyp w top nLab lab) :
    ∃ s', (primInstOf w top nLab (Forest.init lab)).Reach s' ∧
      (primInstOf w top nLab (Forest.init lab)).Final s' ∧
      (primRun w top nLab (Forest.init lab)).h.isEmpty = true ∧
      (∀ x, x < nLab → (fitPrim w top nLab lab).predOf x = s'.pred x ∧
                        (fitPrim w top nLab lab).isProto x = s'.proto x) ∧
      (∀ x, nLab ≤ x → (fitPrim w top nLab lab).predOf x = none ∧
                        (fitPrim w top nLab lab).isProto x = false) ∧
      (fitPrim w top nLab lab).label = lab ∧
      (fitPrim w top nLab lab).plabel = (Forest.init lab).plabel ∧
      (fitPrim w top nLab lab).order = #[] ∧
      (fitPrim w top nLab lab).n = lab.size ∧
      (fitPrim w top nLab lab).Sized :=
  prim_lawful H

/-- prototypes = endpoints of the arcs of the recorded spanning tree that join different classes. -/
theorem c15_prototypes_iff (H : FitHyp w top nLab lab) (v : Nat) (hv : v < nLab) :
    (fitPrim w top nLab lab).isProto v = true ↔
      ∃ u, u < nLab ∧
        ((fitPrim w top nLab lab).predOf v = some u ∨ (fitPrim w top nLab lab).predOf u = some v) ∧
        lab.getD u 0 ≠ lab.getD v 0 :=
  prim_prototypes_iff H v hv

/-! ### 2. prototypes are chosen from the labeled samples only, and there is one -/

theorem c15_prototypes_labeled (H : FitHyp w top nLab lab) :
    (∃ p, p < nLab ∧ (fitPrim w top nLab lab).isProto p = true) ∧
    (∀ a, a < nLab → ∃ p, p < nLab ∧ (fitPrim w top nLab lab).isProto p = true ∧
        lab.getD p 0 = lab.getD a 0) ∧
    (∀ x, nLab ≤ x → (fitPrim w top nLab lab).isProto x = false) :=
  ⟨prim_has_proto H, prim_every_class H, fun x hx => ((prim_lawful H).choose_spec.2.2.2.2.1 x hx).2⟩

/-- hence the competition instance meets the hypotheses of C01. -/
theorem c15_comp_good (H : FitHyp w top nLab lab) : (fitInst w top nLab lab).Good := comp_good H

/-! ### 3. the competition conquers every sample, labeled or not -/

/-- the competition is a lawful finished run of the relational semantics on all `n` samples (so
every C01 theorem applies to `s'`), and the recorded fields are those of `s'`. -/
theorem c15_lawful (H : FitHyp w top nLab lab) (semi : Bool) :
    ∃ s', (fitInst w top nLab lab).Reach (fitPrim w top nLab lab).predOf
            (fitPrim w top nLab lab).plabelOf s' ∧
      (fitInst w top nLab lab).Final s' ∧
      (fitRun w top semi nLab lab).h.isEmpty = true ∧
      (fitRun w top semi nLab lab).f.order.toList = s'.order ∧
      (∀ x, x < lab.size → (fitRun w top semi nLab lab).f.costOf x = s'.cost x ∧
                            (fitRun w top semi nLab lab).f.predOf x = s'.pred x ∧
                            (fitRun w top semi nLab lab).f.plabelOf x = s'.lab x) ∧
      (fitRun w top semi nLab lab).f.proto = (fitPrim w top nLab lab).proto ∧
      (fitRun w top semi nLab lab).f.n = lab.size :=
  fit_lawful H semi

/-- the queue ends empty and the conquest order lists each of the `n` samples exactly once, in
non-decreasing recorded cost (the hypothesis `OrderSorted` of C03). -/
theorem c15_all_conquered (H : FitHyp w top nLab lab) (semi : Bool) :
    (fitRun w top semi nLab lab).h.isEmpty = true ∧
    (fitRun w top semi nLab lab).f.order.toList.Nodup ∧
    (∀ t, t ∈ (fitRun w top semi nLab lab).f.order.toList ↔ t < lab.size) ∧
    (fitRun w top semi nLab lab).f.order.size = lab.size ∧
    (fitRun w top semi nLab lab).f.order.toList.Pairwise
      (fun a b => (fitRun w top semi nLab lab).f.costOf a ≤ (fitRun w top semi nLab lab).f.costOf b) :=
  ⟨(fit_lawful H semi).choose_spec.2.2.1, fit_order H semi⟩

/-- the recorded cost of every sample is attained by a path from a prototype and no path through
the `n` samples (labeled and unlabeled alike) does better. -/
theorem c15_cost_optimal (H : FitHyp w top nLab lab) (semi : Bool) (t : Nat) (ht : t < lab.size) :
    (fitInst w top nLab lab).PathCost t ((fitRun w top semi nLab lab).f.costOf t) ∧
    ∀ c, (fitInst w top nLab lab).PathCost t c → (fitRun w top semi nLab lab).f.costOf t ≤ c :=
  fit_cost_optimal H semi t ht

/-- following `pred` from any sample reaches a prototype — a LABELED sample — and the sample's
predicted label is that prototype's true label. -/
theorem c15_label (H : FitHyp w top nLab lab) (semi : Bool) (t : Nat) (ht : t < lab.size) :
    ∃ r, r < nLab ∧ (fitPrim w top nLab lab).isProto r = true ∧
      Anc (fitRun w top semi nLab lab).f r t ∧
      (fitRun w top semi nLab lab).f.plabelOf t = lab.getD r 0 :=
  fit_forest H semi t ht

/-- prototypes keep cost 0, no predecessor and their own (true) label. -/
theorem c15_prototypes (H : FitHyp w top nLab lab) (semi : Bool) (r : Nat)
    (hp : (fitPrim w top nLab lab).isProto r = true) :
    r < nLab ∧ (fitRun w top semi nLab lab).f.isProto r = true ∧
    (fitRun w top semi nLab lab).f.costOf r = 0 ∧
    (fitRun w top semi nLab lab).f.predOf r = none ∧
    (fitRun w top semi nLab lab).f.plabelOf r = lab.getD r 0 :=
  fit_seeds H semi r hp

/-- every other sample has a predecessor conquered earlier, cost `max(cost pred, w pred t)` and the
predecessor's label. -/
theorem c15_link (H : FitHyp w top nLab lab) (semi : Bool) (t : Nat) (ht : t < lab.size)
    (hnp : (fitPrim w top nLab lab).isProto t = false) :
    ∃ p, (fitRun w top semi nLab lab).f.predOf t = some p ∧ p < lab.size ∧ p ≠ t ∧
      (fitRun w top semi nLab lab).f.costOf t =
        max ((fitRun w top semi nLab lab).f.costOf p) (w p t) ∧
      (fitRun w top semi nLab lab).f.plabelOf t = (fitRun w top semi nLab lab).f.plabelOf p ∧
      (fitRun w top semi nLab lab).f.order.toList.idxOf p <
        (fitRun w top semi nLab lab).f.order.toList.idxOf t :=
  fit_link H semi t ht hnp

/-! ### 4. the true-label overwrite is the only effect of `semi` -/

/-- for ALL inputs the semi-supervised and the supervised competition end with the same heap and
forests that agree on every field except `label`; in particular with an empty unlabeled set
(`nLab = lab.size`) semi-supervised training returns the supervised forest. -/
theorem c15_empty (w : Nat → Nat → Int) (top : Int) (nLab : Nat) (lab : Array Nat) :
    (fitRun w top true nLab lab).f.n = (fitRun w top false nLab lab).f.n ∧
    (fitRun w top true nLab lab).f.pred = (fitRun w top false nLab lab).f.pred ∧
    (fitRun w top true nLab lab).f.proto = (fitRun w top false nLab lab).f.proto ∧
    (fitRun w top true nLab lab).f.ncost = (fitRun w top false nLab lab).f.ncost ∧
    (fitRun w top true nLab lab).f.plabel = (fitRun w top false nLab lab).f.plabel ∧
    (fitRun w top true nLab lab).f.order = (fitRun w top false nLab lab).f.order ∧
    (fitRun w top true nLab lab).f.relevant = (fitRun w top false nLab lab).f.relevant :=
  let h := (fitRun_semi_irrelevant w top nLab lab).2
  ⟨h.n, h.pred, h.proto, h.ncost, h.plabel, h.order, h.relevant⟩

theorem c15_empty_supervised (w : Nat → Nat → Int) (top : Int) (lab : Array Nat) :
    (fitRun w top true lab.size lab).h = (fitRun w top false lab.size lab).h ∧
    EqExceptLabel (fitRun w top true lab.size lab).f (fitRun w top false lab.size lab).f :=
  fitRun_semi_irrelevant w top lab.size lab

/-- the supervised competition never writes `label`. -/
theorem c15_supervised_label (w : Nat → Nat → Int) (top : Int) (f : Forest) :
    (competeRun w top false f).f.label = f.label := competeRun_false_label w top f

/-! ### C01 / C02 for the executable supervised model (`semi = false`, `nLab = lab.size`) -/

theorem c02_fit_prototypes (H : FitHyp w top lab.size lab) (v : Nat) (hv : v < lab.size) :
    (fitPrim w top lab.size lab).isProto v = true ↔
      ∃ u, u < lab.size ∧
        ((fitPrim w top lab.size lab).predOf v = some u ∨
         (fitPrim w top lab.size lab).predOf u = some v) ∧
        lab.getD u 0 ≠ lab.getD v 0 :=
  prim_prototypes_iff H v hv

theorem c02_fit_every_class (H : FitHyp w top lab.size lab) (a : Nat) (ha : a < lab.size) :
    ∃ p, p < lab.size ∧ (fitPrim w top lab.size lab).isProto p = true ∧
      lab.getD p 0 = lab.getD a 0 :=
  prim_every_class H a ha

theorem c01_fit_cost_optimal (H : FitHyp w top lab.size lab) (t : Nat) (ht : t < lab.size) :
    (fitInst w top lab.size lab).PathCost t ((fitRun w top false lab.size lab).f.costOf t) ∧
    ∀ c, (fitInst w top lab.size lab).PathCost t c →
      (fitRun w top false lab.size lab).f.costOf t ≤ c :=
  fit_cost_optimal H false t ht

theorem c01_fit_forest (H : FitHyp w top lab.size lab) (t : Nat) (ht : t < lab.size) :
    ∃ r, r < lab.size ∧ (fitPrim w top lab.size lab).isProto r = true ∧
      Anc (fitRun w top false lab.size lab).f r t ∧
      (fitRun w top false lab.size lab).f.plabelOf t = lab.getD r 0 :=
  fit_forest H false t ht

theorem c01_fit_order (H : FitHyp w top lab.size lab) :
    (fitRun w top false lab.size lab).f.order.toList.Nodup ∧
    (∀ t, t ∈ (fitRun w top false lab.size lab).f.order.toList ↔ t < lab.size) ∧
    (fitRun w top false lab.size lab).f.order.size = lab.size ∧
    OrderSorted (fitRun w top false lab.size lab).f :=
  fit_order H false

theorem c01_fit_seeds (H : FitHyp w top lab.size lab) (r : Nat)
    (hp : (fitPrim w top lab.size lab).isProto r = true) :
    r < lab.size ∧ (fitRun w top false lab.size lab).f.isProto r = true ∧
    (fitRun w top false lab.size lab).f.costOf r = 0 ∧
    (fitRun w top false lab.size lab).f.predOf r = none ∧
    (fitRun w top false lab.size lab).f.plabelOf r = lab.getD r 0 :=
  fit_seeds H false r hp

/-! ### non-vacuity: a concrete semi-supervised instance -/

/-- 3 labeled samples (classes 1, 1, 2) on a line at 0, 1, 5 and one unlabeled sample at 6. -/
def c15_demo_w (p q : Nat) : Int :=
  let pos : Nat → Int := fun i => if i = 0 then 0 else if i = 1 then 1 else if i = 2 then 5 else 6
  if pos p ≤ pos q then pos q - pos p else pos p - pos q

theorem c15_demo_hyp : FitHyp c15_demo_w 100 3 #[1, 1, 2, 0] := by
  refine ⟨by decide, by decide, ?_, ?_, ?_, by decide, ⟨0, 2, by decide, by decide, by decide⟩⟩
  · intro p q hp hq
    have hp' : p = 0 ∨ p = 1 ∨ p = 2 := by omega
    have hq' : q = 0 ∨ q = 1 ∨ q = 2 := by omega
    rcases hp' with rfl | rfl | rfl <;> rcases hq' with rfl | rfl | rfl <;> decide
  · intro p q hp hq
    have hp' : p = 0 ∨ p = 1 ∨ p = 2 ∨ p = 3 := by simp at hp; omega
    have hq' : q = 0 ∨ q = 1 ∨ q = 2 ∨ q = 3 := by simp at hq; omega
    rcases hp' with rfl | rfl | rfl | rfl <;> rcases hq' with rfl | rfl | rfl | rfl <;> decide
  · intro p q hp hq
    have hp' : p = 0 ∨ p = 1 ∨ p = 2 ∨ p = 3 := by simp at hp; omega
    have hq' : q = 0 ∨ q = 1 ∨ q = 2 ∨ q = 3 := by simp at hq; omega
    rcases hp' with rfl | rfl | rfl | rfl <;> rcases hq' with rfl | rfl | rfl | rfl <;> decide

end Opf
