/-
C01 — supervised training yields an optimum-path forest under the max-arc cost.

Theorems about EVERY lawful run (`CompInst.Reach` … `CompInst.Final`) of the competition
semantics of `Model/CompeteSpec.lean`, for every number of nodes, every weight function with
`0 ≤ w < top` (symmetry is not needed), every non-empty seed set, every labelling and every way
of breaking ties among queued nodes of equal cost.  `Props/C01Exec.lean` shows that the executable
model of `fit` (which drives the heap model and is compared with the real code on every run) is
such a lawful run.  "≥ 2 classes" enters through C02: it makes the prototype (seed) set non-empty.
-/
import OpfVerif.Lemmas.Compete
namespace Opf.CompInst

variable (I : CompInst) (pred0 : Nat → Option Nat) (lab0 : Nat → Nat)

/-- the loop cannot get stuck: in a reachable state that still has a queued node a lawful step
exists; and it cannot run forever: the order never repeats a node, so at most `n` steps happen. -/
theorem c01_progress (hg : I.Good) (s : AState) (hr : Reach I pred0 lab0 s) (hnf : ¬ I.Final s) :
    ∃ s', I.Step s s' := compete_progress I pred0 lab0 hg s hr hnf

theorem c01_bounded (hg : I.Good) (s : AState) (hr : Reach I pred0 lab0 s) :
    s.order.Nodup ∧ (∀ t, t ∈ s.order → t < I.n) ∧ s.order.length ≤ I.n :=
  compete_bounded I pred0 lab0 hg s hr

/-- when the loop ends every node has been conquered (is BLACK). -/
theorem c01_all_conquered (hg : I.Good) (s : AState) (hr : Reach I pred0 lab0 s) (hf : I.Final s) :
    ∀ t, t < I.n → s.color t = BLACK := compete_all_black I pred0 lab0 hg s hr hf

/-- the recorded cost of every node is the smallest, over all paths from any seed through the
complete graph, of the largest arc weight on the path: it is attained by a path and no path does
better. -/
theorem c01_cost_optimal (hg : I.Good) (s : AState) (hr : Reach I pred0 lab0 s) (hf : I.Final s)
    (t : Nat) (ht : t < I.n) :
    I.PathCost t (s.cost t) ∧ ∀ c, I.PathCost t c → s.cost t ≤ c :=
  compete_cost_optimal I pred0 lab0 hg s hr hf t ht

/-- seeds (prototypes) keep cost 0, no predecessor and their own label. -/
theorem c01_seeds (hg : I.Good) (s : AState) (hr : Reach I pred0 lab0 s) (t : Nat) (ht : t < I.n)
    (hs : I.seed t = true) : s.cost t = 0 ∧ s.pred t = none ∧ s.lab t = I.lam t :=
  compete_seeds I pred0 lab0 hg s hr t ht hs

/-- every other node has a predecessor that was conquered earlier, and
`cost(child) = max(cost(parent), d(parent, child))`, label copied from the parent. -/
theorem c01_link (hg : I.Good) (s : AState) (hr : Reach I pred0 lab0 s) (hf : I.Final s)
    (t : Nat) (ht : t < I.n) (hs : I.seed t = false) :
    ∃ p, s.pred t = some p ∧ p < I.n ∧ p ≠ t ∧ s.cost t = max (s.cost p) (I.w p t) ∧
      s.lab t = s.lab p ∧ s.order.idxOf p < s.order.idxOf t :=
  compete_link I pred0 lab0 hg s hr hf t ht hs

/-- following predecessor links from any node reaches a seed (no cycling: each link strictly
decreases the position in the conquest order, `c01_link`), and the node's assigned label is the
true label of the seed reached. -/
theorem c01_forest (hg : I.Good) (s : AState) (hr : Reach I pred0 lab0 s) (hf : I.Final s)
    (t : Nat) (ht : t < I.n) :
    ∃ r, r < I.n ∧ I.seed r = true ∧ Chain s r t ∧ s.lab t = I.lam r :=
  compete_forest I pred0 lab0 hg s hr hf t ht

/-- the conquest order lists every node exactly once, in non-decreasing cost. -/
theorem c01_order (hg : I.Good) (s : AState) (hr : Reach I pred0 lab0 s) (hf : I.Final s) :
    s.order.Nodup ∧ (∀ t, t ∈ s.order ↔ t < I.n) ∧ s.order.length = I.n ∧
    s.order.Pairwise (fun a b => s.cost a ≤ s.cost b) :=
  compete_order I pred0 lab0 hg s hr hf

/-- guard made explicit: with an empty seed set (a single-class training set, C02) nothing is
ever queued, the initial state is already final and the order stays empty. -/
theorem c01_no_seed (hns : ∀ x, x < I.n → I.seed x = false) :
    I.Final (I.init pred0 lab0) ∧ (I.init pred0 lab0).order = [] :=
  compete_no_seed I pred0 lab0 hns

end Opf.CompInst
