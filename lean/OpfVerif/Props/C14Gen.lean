/-
C14 / C09 — END TO END for the translated code: the statement-by-statement translations of
`KNNSupervisedOPF.predict` and `UnsupervisedOPF.predict` (`Gen/KnnPredImp.lean`) label every query of
a batch with the label (and cluster) of the FIRST maximiser of `min(cost, density)` among its
`best_k` nearest training samples, and the result for a query depends on that query alone.

Composition of the refinement theorems `c14_gen_knn_predict` / `c14_gen_uns_predict`
(`Props/C14Refine.lean`: the translated code computes the model `chosen`) with the model-level
theorems of `Props/C14.lean` / `Lemmas/Scan.lean` (`c14_queryNeighbours_def`, `validSlots_scan` — which
is `c14_neighbours` without its unused `0 < k` —, `c12_scan_buffer`, `knnArgmax_fold` — the lemma behind
`c14_argmax`, used directly so that the case "no neighbour beats the initial cost" is covered too) and
the order facts of `Lemmas/GenCompose2.lean`.  Every theorem speaks about `knn_predict …` /
`uns_predict …` itself and the arrays it returns; hypotheses are about the INPUTS only:

* `hr : RelT sg n k cost lab clu` — the trained subgraph has `n` nodes, `best_k = k`, and `cost x`,
  `lab x`, `clu x` are what its `cost`, `predicted_label`, `cluster_label` arrays hold at `x < n`
  (`c14_gen_relT_read` builds these readings from the arrays of any well-formed `sg`);
* `hq : RelQ psg0 ds.length` — the query subgraph has one node per query;
* `hW : QWAgree n QW ds` — the oracle returns `ds[i] t`, the distance from query `i` to training
  sample `t < n`;
* `hlt` — no query-to-sample distance reaches `FLOAT_MAX` (`top`, the sentinel of the scan);
* `h999` — the one fact used about the uninterpreted float operations `fo`: `1000.0 - 1 = 999.0`.
No hypothesis mentions a model state.

Vocabulary: `IsKNearest (ds[i]) (· < n) (min k n) nb` (`Lemmas/GenCompose2.lean`): `nb` lists the
`min k n` training samples first in the order "ascending distance from the query, ties by index"
(this determines `nb`: `IsKNearest.unique`); `qDens fo top eps sg n k dist nb` is the density of the
query — `queryDensityG` at the carrier `FSym fo` (float operations UNINTERPRETED) over the `k` slot
distances: those of `nb`, followed by `k - min k n` copies of `FLOAT_MAX` when `k > n` (the source
sums the sentinel slots too; `c14_gen_qDens_le`: none when `k ≤ n`); `FirstMax val nb t`: `t` is the
first entry of `nb` at which `val` is largest.
Property theorems only; shared helpers are in `Lemmas/GenCompose2.lean`, the ones about `chosen` in
the namespace `C14G` below.
-/
import OpfVerif.Props.C14
import OpfVerif.Props.C14Refine
import OpfVerif.Props.C12Arcs
import OpfVerif.Lemmas.GenCompose2
namespace Opf.GenCompose2
open Opf Opf.Gen Opf.Gen.KnnPredImp Opf.KnnPredRefine

/-! ### vocabulary -/

/-- the density `predict` computes for a query whose `k` slot distances are `dists`. -/
def qDensity (fo : Py.FOps) (eps : Int) (k : Nat) (constant minD maxD : Int) (dists : List Int) : Int :=
  (queryDensityG (α := FSym fo) ⟨0⟩ (FSym.ofInt fo 1) (FSym.ofInt fo 1000) ⟨eps⟩ ⟨minD⟩ ⟨maxD⟩
    (FSym.ofInt fo (k : Int)) (dists.map (fun d => (⟨fo.exp (fo.div (-d) constant)⟩ : FSym fo)))).val

/-- `t` is the FIRST entry of `nb` at which `val` is largest. -/
def FirstMax (val : Nat → Int) (nb : List Nat) (t : Nat) : Prop :=
  ∃ pre post, nb = pre ++ t :: post ∧ (∀ x, x ∈ nb → val x ≤ val t) ∧ (∀ x, x ∈ pre → val x < val t)

/-- a first maximiser is a member. -/
theorem FirstMax.mem {val : Nat → Int} {nb : List Nat} {t : Nat} (h : FirstMax val nb t) : t ∈ nb := by
  obtain ⟨pre, post, e, _, _⟩ := h
  rw [e]; simp

/-- the density `predict` computes for the query with distances `dist` whose nearest training samples
are `nb`: over the distances of `nb`, then `k - min k n` sentinel slots. -/
def qDens (fo : Py.FOps) (top eps : Int) (sg : QSG) (n k : Nat) (dist : Nat → Int) (nb : List Nat) : Int :=
  qDensity fo eps k sg.constant sg.min_density sg.max_density
    (nb.map dist ++ List.replicate (k - min k n) top)

namespace C14G

/-! ### helpers about the one-query model `chosen` -/

/-- the training samples are scanned in ascending index. -/
theorem range_sorted (n : Nat) : (List.range n).Pairwise (· < ·) := List.pairwise_lt_range

/-- the distances in the first `k` slots of the query buffer -/
theorem query_take_dists (k n : Nat) (top : Int) (dist : Nat → Int) (hlt : ∀ j, j < n → dist j < top) :
    ((queryNeighbours k n top dist).toList.take k).map (·.1) =
      ((kNearest k dist (List.range n)).map (·.2)).map dist ++ List.replicate (k - min k n) top := by
  have hb := (c12_scan_buffer k top dist (List.range n) (fun j hj => hlt j (List.mem_range.mp hj))).2
  rw [c14_queryNeighbours_def, hb, ← kNearest_map_fst, List.take_append, List.map_append]
  congr 1
  rw [length_stableSort, List.length_range, List.take_replicate, List.map_replicate]
  congr 1
  omega

/-- `chosen` reads the distance function at the training samples `t < n` only. -/
theorem chosen_congr (fo : Py.FOps) (top negTop eps : Int) (k n : Nat) (cost : Nat → Int)
    (c minD maxD : Int) (dist dist' : Nat → Int) (h : ∀ t, t < n → dist t = dist' t) :
    chosen fo top negTop eps k n cost c minD maxD dist =
      chosen fo top negTop eps k n cost c minD maxD dist' := by
  unfold chosen
  rw [c14_queryNeighbours_def, c14_queryNeighbours_def,
    scan_congr k top dist dist' (List.range n) (fun j hj => h j (List.mem_range.mp hj))]

/-- the two outcomes of the one-query model, in the vocabulary of the end-to-end theorems: no
neighbour beats the initial cost `negTop` and nothing is chosen, or the FIRST maximiser of
`min(cost, density)` over the `min k n` nearest samples is chosen and beats `negTop`. -/
theorem chosen_cases (fo : Py.FOps) (top negTop eps : Int) (k n : Nat) (cost : Nat → Int)
    (c minD maxD : Int) (dist : Nat → Int) (hlt : ∀ j, j < n → dist j < top) :
    ∃ nb, IsKNearest dist (· < n) (min k n) nb ∧
      ((chosen fo top negTop eps k n cost c minD maxD dist = none ∧
          ∀ x, x ∈ nb → min (cost x)
            (qDensity fo eps k c minD maxD (nb.map dist ++ List.replicate (k - min k n) top)) ≤ negTop) ∨
       ∃ t, chosen fo top negTop eps k n cost c minD maxD dist = some t ∧
          FirstMax (fun x => min (cost x)
            (qDensity fo eps k c minD maxD (nb.map dist ++ List.replicate (k - min k n) top))) nb t ∧
          negTop < min (cost t)
            (qDensity fo eps k c minD maxD (nb.map dist ++ List.replicate (k - min k n) top))) := by
  refine ⟨(kNearest k dist (List.range n)).map (·.2), ?_, ?_⟩
  · have h := isKNearest_kNearest k dist (List.range n) (range_sorted n)
    rw [List.length_range] at h
    exact ⟨h.length_eq, fun j hj => List.mem_range.mp (h.mem_cand j hj), h.nodup, h.sorted,
      fun j hj hn t ht => h.nearest j (List.mem_range.mpr hj) hn t ht⟩
  · have hd : chosen fo top negTop eps k n cost c minD maxD dist =
        (knnArgmax negTop cost (qDensity fo eps k c minD maxD
          (((kNearest k dist (List.range n)).map (·.2)).map dist ++ List.replicate (k - min k n) top))
          (kNearest k dist (List.range n))).1 := by
      unfold chosen qDensity
      simp only []
      rw [c14_queryNeighbours_def,
        validSlots_scan k top dist (List.range n) (fun j hj => hlt j (List.mem_range.mp hj)),
        ← c14_queryNeighbours_def, ← query_take_dists k n top dist hlt,
        List.map_map]
      rfl
    rw [hd]
    generalize qDensity fo eps k c minD maxD _ = dens
    unfold knnArgmax
    rcases knnArgmax_fold cost dens (kNearest k dist (List.range n)) (none, negTop) with
      ⟨h1, h2⟩ | ⟨pre, s, post, h1, h2, h3, h4, h5⟩
    · left
      refine ⟨by rw [h1], ?_⟩
      intro x hx
      obtain ⟨s, hs, rfl⟩ := List.mem_map.mp hx
      exact h2 s hs
    · right
      refine ⟨s.2, by rw [h2], ⟨pre.map (·.2), post.map (·.2), by rw [h1]; simp, ?_, ?_⟩, h3⟩
      · intro x hx
        obtain ⟨s', hs', rfl⟩ := List.mem_map.mp hx
        exact h4 s' hs'
      · intro x hx
        obtain ⟨s', hs', rfl⟩ := List.mem_map.mp hx
        exact h5 s' hs'

end C14G
open C14G

/-! ### `KNNSupervisedOPF.predict` -/

section knn
variable (fo : Py.FOps) (QW : Int → Int → Option Int) (top eps : Int)
  (h999 : fo.sub (fo.ofInt 1000) (fo.ofInt 1) = fo.ofInt 999)
  (sg psg0 : QSG) (n k : Nat) (cost : Nat → Int) (lab clu : Nat → Nat)
  (hr : RelT sg n k cost lab clu) (ds : List (Nat → Int)) (hq : RelQ psg0 ds.length)
  (hW : QWAgree n QW ds)
include h999 hr hq hW

/-- **Every case.** The translated `predict` raises nothing, terminates, returns the trained
subgraph unchanged and one label per query.  For query `i` let `nb` be its `min k n` nearest
training samples among ALL `n` (ascending distance, ties by index; every sample not listed comes
after every listed one) and `dens` its density over those slots.  Then EITHER some neighbour's
`min(cost, dens)` exceeds the initial cost `FLOAT_MAX * -1`, and the label returned is that of the
FIRST neighbour (in the order of `nb`) at which `min(cost, dens)` is largest; OR none does and the
entry of the query subgraph is left as it was. -/
theorem c14_gen_knn_predict_cases (hlt : ∀ (i : Nat) (hi : i < ds.length) (t : Nat), t < n → ds[i] t < top) :
    ∃ preds, knn_predict QW fo top eps sg psg0 = some (sg, preds) ∧ preds.size = ds.length ∧
      ∀ (i : Nat) (hi : i < ds.length), ∃ nb : List Nat,
        IsKNearest (ds[i]) (· < n) (min k n) nb ∧
        ((∃ t, FirstMax (fun x => min (cost x) (qDens fo top eps sg n k (ds[i]) nb)) nb t ∧
            fo.mul top (fo.ofInt (-1)) < min (cost t) (qDens fo top eps sg n k (ds[i]) nb) ∧
            preds[i]? = some (lab t : Int)) ∨
         ((∀ x, x ∈ nb → min (cost x) (qDens fo top eps sg n k (ds[i]) nb) ≤ fo.mul top (fo.ofInt (-1))) ∧
            preds[i]? = psg0.predicted_label[i]?)) := by
  obtain ⟨preds, he, hs, hp⟩ := c14_gen_knn_predict fo QW top eps h999 sg psg0 n k cost lab clu hr ds hq hW
  refine ⟨preds, he, hs, fun i hi => ?_⟩
  obtain ⟨nb, hk, hc⟩ := chosen_cases fo top (fo.mul top (fo.ofInt (-1))) eps k n cost sg.constant
    sg.min_density sg.max_density (ds[i]) (hlt i hi)
  refine ⟨nb, hk, ?_⟩
  have hpi := hp i hi
  rcases hc with ⟨hnone, hall⟩ | ⟨t, hsome, hfm, hgt⟩
  · right
    rw [hnone] at hpi
    exact ⟨hall, hpi⟩
  · left
    rw [hsome] at hpi
    exact ⟨t, hfm, hgt, hpi⟩

/-- **The label of a query.** With at least one neighbour (`0 < k`, `0 < n`), every training cost
and the query density above the initial cost `FLOAT_MAX * -1`: the label the translated `predict`
returns for query `i` is the label of a training node `t` that (a) is among the `min k n` nearest
of ALL `n` training samples — every sample not among them is at least as far (indeed later in the
order distance-then-index) — and (b) maximises `min(cost t', density)` among those neighbours,
being the FIRST maximiser in neighbour order. -/
theorem c14_gen_knn_predict_label (hlt : ∀ (i : Nat) (hi : i < ds.length) (t : Nat), t < n → ds[i] t < top)
    (hk : 0 < k) (hn : 0 < n)
    (hcost : ∀ t, t < n → fo.mul top (fo.ofInt (-1)) < cost t)
    (hdens : ∀ (i : Nat) (hi : i < ds.length) (nb : List Nat), IsKNearest (ds[i]) (· < n) (min k n) nb →
      fo.mul top (fo.ofInt (-1)) < qDens fo top eps sg n k (ds[i]) nb) :
    ∃ preds, knn_predict QW fo top eps sg psg0 = some (sg, preds) ∧ preds.size = ds.length ∧
      ∀ (i : Nat) (hi : i < ds.length), ∃ (nb : List Nat) (t : Nat),
        preds[i]? = some (lab t : Int) ∧ t ∈ nb ∧ t < n ∧
        nb.length = min k n ∧ nb.Nodup ∧ (∀ x, x ∈ nb → x < n) ∧
        nb.Pairwise (fun a b => ds[i] a < ds[i] b ∨ (ds[i] a = ds[i] b ∧ a < b)) ∧
        (∀ j, j < n → j ∉ nb → ∀ x, x ∈ nb → ds[i] x < ds[i] j ∨ (ds[i] x = ds[i] j ∧ x < j)) ∧
        (∀ j, j < n → j ∉ nb → ∀ x, x ∈ nb → ds[i] x ≤ ds[i] j) ∧
        (∀ x, x ∈ nb → min (cost x) (qDens fo top eps sg n k (ds[i]) nb) ≤
          min (cost t) (qDens fo top eps sg n k (ds[i]) nb)) ∧
        (∃ pre post, nb = pre ++ t :: post ∧ ∀ x, x ∈ pre →
          min (cost x) (qDens fo top eps sg n k (ds[i]) nb) <
            min (cost t) (qDens fo top eps sg n k (ds[i]) nb)) := by
  obtain ⟨preds, he, hs, hp⟩ :=
    c14_gen_knn_predict_cases fo QW top eps h999 sg psg0 n k cost lab clu hr ds hq hW hlt
  refine ⟨preds, he, hs, fun i hi => ?_⟩
  obtain ⟨nb, hK, hc⟩ := hp i hi
  rcases hc with ⟨t, hfm, _, hl⟩ | ⟨hall, _⟩
  · obtain ⟨pre, post, e, hmax, hfirst⟩ := hfm
    have htm : t ∈ nb := by rw [e]; simp
    exact ⟨nb, t, hl, htm, hK.mem_cand t htm, hK.length_eq, hK.nodup, hK.mem_cand, hK.sorted,
      hK.nearest, hK.smallest, hmax, pre, post, e, hfirst⟩
  · exfalso
    have hlen : 0 < nb.length := by rw [hK.length_eq]; omega
    obtain ⟨x, hx⟩ := List.exists_mem_of_length_pos hlen
    have a := hall x hx
    have b := hcost x (hK.mem_cand x hx)
    have c := hdens i hi nb hK
    omega

/-- **C09 for the KNN-supervised model: the answer for a query depends on that query alone.**
Two batches (any lengths, any oracles, any query subgraphs) on the same trained subgraph: if the
query at position `i` of the first and the query at position `j` of the second are at the same
distance from every training sample, then either both receive the label of the same training node,
or both entries are left as their query subgraphs had them.  (The buffers are shared across the
queries of a batch in the source; nothing of another query is ever read.) -/
theorem c14_gen_knn_pointwise (QW' : Int → Int → Option Int) (psg0' : QSG) (ds' : List (Nat → Int))
    (hq' : RelQ psg0' ds'.length) (hW' : QWAgree n QW' ds')
    (i j : Nat) (hi : i < ds.length) (hj : j < ds'.length)
    (hag : ∀ t, t < n → ds[i] t = ds'[j] t) :
    ∃ preds preds', knn_predict QW fo top eps sg psg0 = some (sg, preds) ∧
      knn_predict QW' fo top eps sg psg0' = some (sg, preds') ∧
      ((∃ t, preds[i]? = some (lab t : Int) ∧ preds'[j]? = some (lab t : Int)) ∨
       (preds[i]? = psg0.predicted_label[i]? ∧ preds'[j]? = psg0'.predicted_label[j]?)) := by
  obtain ⟨preds, he, _, hp⟩ := c14_gen_knn_predict fo QW top eps h999 sg psg0 n k cost lab clu hr ds hq hW
  obtain ⟨preds', he', _, hp'⟩ :=
    c14_gen_knn_predict fo QW' top eps h999 sg psg0' n k cost lab clu hr ds' hq' hW'
  refine ⟨preds, preds', he, he', ?_⟩
  have h1 := hp i hi
  have h2 := hp' j hj
  rw [← chosen_congr fo top _ eps k n cost _ _ _ (ds[i]) (ds'[j]) hag] at h2
  cases hc : chosen fo top (fo.mul top (fo.ofInt (-1))) eps k n cost sg.constant sg.min_density
      sg.max_density (ds[i]) with
  | none => rw [hc] at h1 h2; exact Or.inr ⟨h1, h2⟩
  | some t => rw [hc] at h1 h2; exact Or.inl ⟨t, h1, h2⟩

/-- C09, as an equation: if moreover the two query subgraphs hold the same value at the two
positions (e.g. both are freshly built), the two outputs are EQUAL. -/
theorem c14_gen_knn_pointwise_eq (QW' : Int → Int → Option Int) (psg0' : QSG) (ds' : List (Nat → Int))
    (hq' : RelQ psg0' ds'.length) (hW' : QWAgree n QW' ds')
    (i j : Nat) (hi : i < ds.length) (hj : j < ds'.length)
    (hag : ∀ t, t < n → ds[i] t = ds'[j] t)
    (h0 : psg0.predicted_label[i]? = psg0'.predicted_label[j]?) :
    ∃ preds preds', knn_predict QW fo top eps sg psg0 = some (sg, preds) ∧
      knn_predict QW' fo top eps sg psg0' = some (sg, preds') ∧ preds[i]? = preds'[j]? := by
  obtain ⟨preds, preds', he, he', h⟩ := c14_gen_knn_pointwise fo QW top eps h999 sg psg0 n k cost lab
    clu hr ds hq hW QW' psg0' ds' hq' hW' i j hi hj hag
  refine ⟨preds, preds', he, he', ?_⟩
  rcases h with ⟨t, a, b⟩ | ⟨a, b⟩
  · rw [a, b]
  · rw [a, b, h0]

end knn

/-! ### `UnsupervisedOPF.predict` -/

section uns
variable (fo : Py.FOps) (QW : Int → Int → Option Int) (top eps : Int)
  (h999 : fo.sub (fo.ofInt 1000) (fo.ofInt 1) = fo.ofInt 999)
  (sg psg0 : QSG) (n k : Nat) (cost : Nat → Int) (lab clu : Nat → Nat)
  (hr : RelT sg n k cost lab clu) (ht : sg.trained = true)
  (ds : List (Nat → Int)) (hq : RelQ psg0 ds.length) (hW : QWAgree n QW ds)
include h999 hr ht hq hW

/-- **Every case (unsupervised).** As `c14_gen_knn_predict_cases`, with initial cost `-FLOAT_MAX`;
the translated `predict` returns TWO arrays, the predicted labels and the clusters, and both entries
of a query come from the same training node (or are both left untouched). -/
theorem c14_gen_uns_predict_cases (hlt : ∀ (i : Nat) (hi : i < ds.length) (t : Nat), t < n → ds[i] t < top) :
    ∃ preds clusters, uns_predict QW fo top eps sg psg0 = some (sg, (preds, clusters)) ∧
      preds.size = ds.length ∧ clusters.size = ds.length ∧
      ∀ (i : Nat) (hi : i < ds.length), ∃ nb : List Nat,
        IsKNearest (ds[i]) (· < n) (min k n) nb ∧
        ((∃ t, FirstMax (fun x => min (cost x) (qDens fo top eps sg n k (ds[i]) nb)) nb t ∧
            -top < min (cost t) (qDens fo top eps sg n k (ds[i]) nb) ∧
            preds[i]? = some (lab t : Int) ∧ clusters[i]? = some (clu t : Int)) ∨
         ((∀ x, x ∈ nb → min (cost x) (qDens fo top eps sg n k (ds[i]) nb) ≤ -top) ∧
            preds[i]? = psg0.predicted_label[i]? ∧ clusters[i]? = psg0.cluster_label[i]?)) := by
  obtain ⟨preds, clusters, he, hs, hs', hp⟩ :=
    c14_gen_uns_predict fo QW top eps h999 sg psg0 n k cost lab clu hr ht ds hq hW
  refine ⟨preds, clusters, he, hs, hs', fun i hi => ?_⟩
  obtain ⟨nb, hk, hc⟩ := chosen_cases fo top (-top) eps k n cost sg.constant
    sg.min_density sg.max_density (ds[i]) (hlt i hi)
  refine ⟨nb, hk, ?_⟩
  have hpi := hp i hi
  rcases hc with ⟨hnone, hall⟩ | ⟨t, hsome, hfm, hgt⟩
  · right
    rw [hnone] at hpi
    exact ⟨hall, hpi.1, hpi.2⟩
  · left
    rw [hsome] at hpi
    exact ⟨t, hfm, hgt, hpi.1, hpi.2⟩

/-- **The label and cluster of a query (unsupervised).** With `0 < k`, `0 < n`, every training cost
and the query density above `-FLOAT_MAX`: label and cluster returned for query `i` are those of ONE
training node `t` that is among the `min k n` nearest of all `n` training samples and is the FIRST
maximiser of `min(cost t', density)` among them in neighbour order. -/
theorem c14_gen_uns_predict_label (hlt : ∀ (i : Nat) (hi : i < ds.length) (t : Nat), t < n → ds[i] t < top)
    (hk : 0 < k) (hn : 0 < n)
    (hcost : ∀ t, t < n → -top < cost t)
    (hdens : ∀ (i : Nat) (hi : i < ds.length) (nb : List Nat), IsKNearest (ds[i]) (· < n) (min k n) nb →
      -top < qDens fo top eps sg n k (ds[i]) nb) :
    ∃ preds clusters, uns_predict QW fo top eps sg psg0 = some (sg, (preds, clusters)) ∧
      preds.size = ds.length ∧ clusters.size = ds.length ∧
      ∀ (i : Nat) (hi : i < ds.length), ∃ (nb : List Nat) (t : Nat),
        preds[i]? = some (lab t : Int) ∧ clusters[i]? = some (clu t : Int) ∧ t ∈ nb ∧ t < n ∧
        nb.length = min k n ∧ nb.Nodup ∧ (∀ x, x ∈ nb → x < n) ∧
        nb.Pairwise (fun a b => ds[i] a < ds[i] b ∨ (ds[i] a = ds[i] b ∧ a < b)) ∧
        (∀ j, j < n → j ∉ nb → ∀ x, x ∈ nb → ds[i] x < ds[i] j ∨ (ds[i] x = ds[i] j ∧ x < j)) ∧
        (∀ j, j < n → j ∉ nb → ∀ x, x ∈ nb → ds[i] x ≤ ds[i] j) ∧
        (∀ x, x ∈ nb → min (cost x) (qDens fo top eps sg n k (ds[i]) nb) ≤
          min (cost t) (qDens fo top eps sg n k (ds[i]) nb)) ∧
        (∃ pre post, nb = pre ++ t :: post ∧ ∀ x, x ∈ pre →
          min (cost x) (qDens fo top eps sg n k (ds[i]) nb) <
            min (cost t) (qDens fo top eps sg n k (ds[i]) nb)) := by
  obtain ⟨preds, clusters, he, hs, hs', hp⟩ :=
    c14_gen_uns_predict_cases fo QW top eps h999 sg psg0 n k cost lab clu hr ht ds hq hW hlt
  refine ⟨preds, clusters, he, hs, hs', fun i hi => ?_⟩
  obtain ⟨nb, hK, hc⟩ := hp i hi
  rcases hc with ⟨t, hfm, _, hl, hcl⟩ | ⟨hall, _⟩
  · obtain ⟨pre, post, e, hmax, hfirst⟩ := hfm
    have htm : t ∈ nb := by rw [e]; simp
    exact ⟨nb, t, hl, hcl, htm, hK.mem_cand t htm, hK.length_eq, hK.nodup, hK.mem_cand, hK.sorted,
      hK.nearest, hK.smallest, hmax, pre, post, e, hfirst⟩
  · exfalso
    have hlen : 0 < nb.length := by rw [hK.length_eq]; omega
    obtain ⟨x, hx⟩ := List.exists_mem_of_length_pos hlen
    have a := hall x hx
    have b := hcost x (hK.mem_cand x hx)
    have c := hdens i hi nb hK
    omega

/-- **C09 for the unsupervised model.** If query `i` of one batch and query `j` of another are at
the same distance from every training sample, then either both receive label AND cluster of the same
training node, or both pairs of entries are left as their query subgraphs had them. -/
theorem c14_gen_uns_pointwise (QW' : Int → Int → Option Int) (psg0' : QSG) (ds' : List (Nat → Int))
    (hq' : RelQ psg0' ds'.length) (hW' : QWAgree n QW' ds')
    (i j : Nat) (hi : i < ds.length) (hj : j < ds'.length)
    (hag : ∀ t, t < n → ds[i] t = ds'[j] t) :
    ∃ preds clusters preds' clusters',
      uns_predict QW fo top eps sg psg0 = some (sg, (preds, clusters)) ∧
      uns_predict QW' fo top eps sg psg0' = some (sg, (preds', clusters')) ∧
      ((∃ t, preds[i]? = some (lab t : Int) ∧ preds'[j]? = some (lab t : Int) ∧
          clusters[i]? = some (clu t : Int) ∧ clusters'[j]? = some (clu t : Int)) ∨
       (preds[i]? = psg0.predicted_label[i]? ∧ preds'[j]? = psg0'.predicted_label[j]? ∧
          clusters[i]? = psg0.cluster_label[i]? ∧ clusters'[j]? = psg0'.cluster_label[j]?)) := by
  obtain ⟨preds, clusters, he, _, _, hp⟩ :=
    c14_gen_uns_predict fo QW top eps h999 sg psg0 n k cost lab clu hr ht ds hq hW
  obtain ⟨preds', clusters', he', _, _, hp'⟩ :=
    c14_gen_uns_predict fo QW' top eps h999 sg psg0' n k cost lab clu hr ht ds' hq' hW'
  refine ⟨preds, clusters, preds', clusters', he, he', ?_⟩
  have h1 := hp i hi
  have h2 := hp' j hj
  rw [← chosen_congr fo top _ eps k n cost _ _ _ (ds[i]) (ds'[j]) hag] at h2
  cases hc : chosen fo top (-top) eps k n cost sg.constant sg.min_density sg.max_density (ds[i]) with
  | none => rw [hc] at h1 h2; exact Or.inr ⟨h1.1, h2.1, h1.2, h2.2⟩
  | some t => rw [hc] at h1 h2; exact Or.inl ⟨t, h1.1, h2.1, h1.2, h2.2⟩

/-- C09 (unsupervised), as equations: with equal prior entries at the two positions both outputs
are EQUAL. -/
theorem c14_gen_uns_pointwise_eq (QW' : Int → Int → Option Int) (psg0' : QSG) (ds' : List (Nat → Int))
    (hq' : RelQ psg0' ds'.length) (hW' : QWAgree n QW' ds')
    (i j : Nat) (hi : i < ds.length) (hj : j < ds'.length)
    (hag : ∀ t, t < n → ds[i] t = ds'[j] t)
    (h0 : psg0.predicted_label[i]? = psg0'.predicted_label[j]?)
    (h0' : psg0.cluster_label[i]? = psg0'.cluster_label[j]?) :
    ∃ preds clusters preds' clusters',
      uns_predict QW fo top eps sg psg0 = some (sg, (preds, clusters)) ∧
      uns_predict QW' fo top eps sg psg0' = some (sg, (preds', clusters')) ∧
      preds[i]? = preds'[j]? ∧ clusters[i]? = clusters'[j]? := by
  obtain ⟨preds, clusters, preds', clusters', he, he', h⟩ := c14_gen_uns_pointwise fo QW top eps h999 sg
    psg0 n k cost lab clu hr ht ds hq hW QW' psg0' ds' hq' hW' i j hi hj hag
  refine ⟨preds, clusters, preds', clusters', he, he', ?_⟩
  rcases h with ⟨t, a, b, c, d⟩ | ⟨a, b, c, d⟩
  · rw [a, b, c, d]; exact ⟨rfl, rfl⟩
  · rw [a, b, c, d, h0, h0']; exact ⟨rfl, rfl⟩

end uns

/-! ### the density when `k ≤ n`, and the readings of a trained subgraph -/

/-- with `k ≤ n` (as after training: `best_k ≤ max_k < n`) there is no sentinel slot: the density is
`queryDensityG` over exactly the `k` neighbour distances. -/
theorem c14_gen_qDens_le (fo : Py.FOps) (top eps : Int) (sg : QSG) (n k : Nat) (dist : Nat → Int)
    (nb : List Nat) (hkn : k ≤ n) :
    qDens fo top eps sg n k dist nb =
      (queryDensityG (α := FSym fo) ⟨0⟩ (FSym.ofInt fo 1) (FSym.ofInt fo 1000) ⟨eps⟩ ⟨sg.min_density⟩
        ⟨sg.max_density⟩ (FSym.ofInt fo (k : Int))
        ((nb.map dist).map (fun d => (⟨fo.exp (fo.div (-d) sg.constant)⟩ : FSym fo)))).val := by
  unfold qDens qDensity
  have : k - min k n = 0 := by omega
  rw [this, List.replicate_zero, List.append_nil]

/-- every trained subgraph with `n` nodes, `best_k = k`, arrays of `n` entries and non-negative
labels / clusters satisfies `RelT` with the readings of its own arrays. -/
theorem c14_gen_relT_read (sg : QSG) (n k : Nat) (h1 : sg.n_nodes = (n : Int)) (h2 : sg.best_k = (k : Int))
    (h3 : sg.cost.size = n) (h4 : sg.predicted_label.size = n) (h5 : sg.cluster_label.size = n)
    (h6 : ∀ x, x < n → 0 ≤ sg.predicted_label.getD x 0) (h7 : ∀ x, x < n → 0 ≤ sg.cluster_label.getD x 0) :
    RelT sg n k (fun x => sg.cost.getD x 0) (fun x => (sg.predicted_label.getD x 0).toNat)
      (fun x => (sg.cluster_label.getD x 0).toNat) := by
  refine ⟨h1, h2, h3, h4, h5, ?_, ?_, ?_⟩
  · intro x hx
    have hxs : x < sg.cost.size := by rw [h3]; exact hx
    simp [Array.getD_eq_getD_getElem?, hxs]
  · intro x hx
    have hxs : x < sg.predicted_label.size := by rw [h4]; exact hx
    have h := h6 x hx
    simp only [Array.getD_eq_getD_getElem?, Array.getElem?_eq_getElem hxs, Option.getD_some] at h ⊢
    congr 1
    omega
  · intro x hx
    have hxs : x < sg.cluster_label.size := by rw [h5]; exact hx
    have h := h7 x hx
    simp only [Array.getD_eq_getD_getElem?, Array.getElem?_eq_getElem hxs, Option.getD_some] at h ⊢
    congr 1
    omega

/-! ### non-vacuity -/

/-- float operations of the demo (any would do; only `h999` is used). -/
def demoFo : Py.FOps where
  add := (· + ·)
  sub := (· - ·)
  mul := (· * ·)
  div := Int.tdiv
  exp := id
  ofInt := id

/-- a trained subgraph with three nodes and `best_k = 2`. -/
def demoSG : QSG where
  n_nodes := 3
  trained := true
  idx_nodes := #[]
  best_k := 2
  constant := 1
  min_density := 0
  max_density := 10
  cost := #[5, 7, 6]
  predicted_label := #[1, 1, 2]
  cluster_label := #[0, 0, 1]

/-- the query subgraph built from `m` queries. -/
def demoQ (m : Nat) : QSG where
  n_nodes := (m : Int)
  trained := false
  idx_nodes := #[]
  best_k := 0
  constant := 0
  min_density := 0
  max_density := 0
  cost := Array.replicate m 0
  predicted_label := Array.replicate m 0
  cluster_label := Array.replicate m 0

/-- distances of two queries to the three training samples. -/
def demoQ0 : Nat → Int := fun t => [3, 1, 2].getD t 0
def demoQ1 : Nat → Int := fun t => [0, 4, 4].getD t 0

/-- the oracle of a batch. -/
def demoQW (ds : List (Nat → Int)) : Int → Int → Option Int :=
  fun a b => some ((ds.getD a.toNat (fun _ => 0)) b.toNat)

/-- the demo oracle agrees with the distance functions of its batch. -/
theorem demoQW_agree (ds : List (Nat → Int)) (n : Nat) : QWAgree n (demoQW ds) ds := by
  intro i hi j _
  simp [demoQW, List.getD_eq_getElem?_getD, hi]

/-- the demo query subgraph has one node per query. -/
theorem demoQ_rel (m : Nat) : RelQ (demoQ m) m := ⟨rfl, by simp [demoQ], by simp [demoQ]⟩

/-- the demo trained subgraph is well formed (through `c14_gen_relT_read`). -/
theorem demoSG_rel : RelT demoSG 3 2 (fun x => demoSG.cost.getD x 0)
    (fun x => (demoSG.predicted_label.getD x 0).toNat) (fun x => (demoSG.cluster_label.getD x 0).toNat) := by
  refine c14_gen_relT_read demoSG 3 2 rfl rfl rfl rfl rfl ?_ ?_ <;>
  · intro x hx
    have hx' : x = 0 ∨ x = 1 ∨ x = 2 := by omega
    rcases hx' with rfl | rfl | rfl <;> decide

/-- the hypotheses are satisfiable and the theorems fire: the batch `[q0, q1]` and the batch `[q1]`
both run, and `q1` receives the same answer at position 1 of the first as at position 0 of the
second (C09), although the scan buffers of the first batch were used by `q0` before. -/
example : ∃ preds preds',
    knn_predict (demoQW [demoQ0, demoQ1]) demoFo 100 1 demoSG (demoQ 2) = some (demoSG, preds) ∧
    knn_predict (demoQW [demoQ1]) demoFo 100 1 demoSG (demoQ 1) = some (demoSG, preds') ∧
    preds[1]? = preds'[0]? :=
  c14_gen_knn_pointwise_eq demoFo (demoQW [demoQ0, demoQ1]) 100 1 rfl demoSG (demoQ 2) 3 2 _ _ _
    demoSG_rel [demoQ0, demoQ1] (demoQ_rel 2) (demoQW_agree _ 3) (demoQW [demoQ1]) (demoQ 1) [demoQ1]
    (demoQ_rel 1) (demoQW_agree _ 3) 1 0 (by decide) (by decide) (fun _ _ => rfl) (by decide)

/-- and the neighbour theorem on the same batch: each query gets a neighbour list meeting the
description (distances `3,1,2` and `0,4,4` are below `FLOAT_MAX = 100`). -/
example : ∃ preds, knn_predict (demoQW [demoQ0, demoQ1]) demoFo 100 1 demoSG (demoQ 2) = some (demoSG, preds) ∧
    preds.size = 2 ∧
    ∀ (i : Nat) (hi : i < 2), ∃ nb : List Nat, IsKNearest ([demoQ0, demoQ1][i]) (· < 3) 2 nb := by
  have hlt : ∀ (i : Nat) (hi : i < [demoQ0, demoQ1].length) (t : Nat), t < 3 → [demoQ0, demoQ1][i] t < 100 := by
    intro i hi t ht
    have hi' : i = 0 ∨ i = 1 := by simp at hi; omega
    have ht' : t = 0 ∨ t = 1 ∨ t = 2 := by omega
    rcases hi' with rfl | rfl <;> rcases ht' with rfl | rfl | rfl <;> simp [demoQ0, demoQ1]
  obtain ⟨preds, he, hs, hp⟩ := c14_gen_knn_predict_cases demoFo (demoQW [demoQ0, demoQ1]) 100 1 rfl demoSG
    (demoQ 2) 3 2 _ _ _ demoSG_rel [demoQ0, demoQ1] (demoQ_rel 2) (demoQW_agree _ 3) hlt
  refine ⟨preds, he, hs, fun i hi => ?_⟩
  obtain ⟨nb, hk, _⟩ := hp i hi
  exact ⟨nb, hk⟩

end Opf.GenCompose2
