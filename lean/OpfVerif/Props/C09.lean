/-
C09 — a sample's prediction does not depend on its position in the batch, on the other samples of
the batch, or on earlier calls of `predict`.

Supervised model (`predictBatch`, L3): the only field `predict` writes is `relevant`, which
`predictOne` never reads; so every label of every batch of a whole HISTORY of calls is the label
`predictOne` computes on the ORIGINAL forest.
KNN-supervised / unsupervised models (L6): the per-sample function `knnPredictOne` takes no index
argument (the repaired defect F3 was an `if j != i` on the batch position) and the model is not
modified, so the batch is a `map`.
-/
import OpfVerif.Lemmas.Predict
import OpfVerif.Model.Knn
namespace Opf

/-! ### supervised model -/

/-- the `i`-th label of a batch is `predictOne` of the `i`-th sample on the forest as it was before
the call. -/
theorem c09_sup_pointwise (f : Forest) (ds : List (Nat → Int)) :
    (predictBatch f ds).2 = ds.map (fun d => (predictOne f d).map (·.label)) :=
  predictBatch_labels f ds

/-- `predict` leaves every field but `relevant` unchanged. -/
theorem c09_sup_model_unchanged (f : Forest) (ds : List (Nat → Int)) :
    let g := (predictBatch f ds).1
    g.n = f.n ∧ g.pred = f.pred ∧ g.proto = f.proto ∧ g.ncost = f.ncost ∧ g.plabel = f.plabel ∧
      g.label = f.label ∧ g.order = f.order :=
  predictBatch_fields f ds

/-- a history of `predict` calls: each batch is predicted on the forest left by the previous call;
returns the final forest and the labels of every call. -/
def predictHistory (f : Forest) (bs : List (List (Nat → Int))) : Forest × List (List (Option Nat)) :=
  bs.foldl (fun (acc : Forest × List (List (Option Nat))) ds =>
    ((predictBatch acc.1 ds).1, acc.2 ++ [(predictBatch acc.1 ds).2])) (f, [])

theorem predictHistory_aux (f : Forest) (bs : List (List (Nat → Int))) :
    ∀ (g : Forest) (acc : List (List (Option Nat))), AgreeBut g f →
      AgreeBut (bs.foldl (fun (acc : Forest × List (List (Option Nat))) ds =>
        ((predictBatch acc.1 ds).1, acc.2 ++ [(predictBatch acc.1 ds).2])) (g, acc)).1 f ∧
      (bs.foldl (fun (acc : Forest × List (List (Option Nat))) ds =>
        ((predictBatch acc.1 ds).1, acc.2 ++ [(predictBatch acc.1 ds).2])) (g, acc)).2 =
        acc ++ bs.map (fun ds => ds.map (fun d => (predictOne f d).map (·.label))) := by
  induction bs with
  | nil => intro g acc hg; exact ⟨hg, by simp⟩
  | cons ds bs ih =>
    intro g acc hg
    obtain ⟨h1, h2, h3, h4, h5, h6, h7⟩ := hg
    obtain ⟨k1, k2, k3, k4, k5, k6, k7⟩ := predictBatch_fields g ds
    have hstep : AgreeBut (predictBatch g ds).1 f :=
      ⟨k1.trans h1, k2.trans h2, k3.trans h3, k4.trans h4, k5.trans h5, k6.trans h6, k7.trans h7⟩
    have hlab : (predictBatch g ds).2 = ds.map (fun d => (predictOne f d).map (·.label)) := by
      rw [predictBatch_labels]
      apply List.map_congr_left
      intro d _
      rw [predictOne_congr g f d h7 h4 h5]
    rw [List.foldl_cons]
    obtain ⟨i1, i2⟩ := ih (predictBatch g ds).1 (acc ++ [(predictBatch g ds).2]) hstep
    refine ⟨i1, ?_⟩
    rw [i2, hlab, List.map_cons, List.append_assoc, List.singleton_append]

/-- over any history of calls the model fields stay fixed and every label of every batch is the one
`predictOne` computes on the ORIGINAL forest. -/
theorem c09_sup_history (f : Forest) (bs : List (List (Nat → Int))) :
    (let g := (predictHistory f bs).1
     g.n = f.n ∧ g.pred = f.pred ∧ g.proto = f.proto ∧ g.ncost = f.ncost ∧ g.plabel = f.plabel ∧
       g.label = f.label ∧ g.order = f.order) ∧
    (predictHistory f bs).2 = bs.map (fun ds => ds.map (fun d => (predictOne f d).map (·.label))) := by
  obtain ⟨h1, h2⟩ := predictHistory_aux f bs f [] ⟨rfl, rfl, rfl, rfl, rfl, rfl, rfl⟩
  refine ⟨h1, ?_⟩
  unfold predictHistory
  rw [h2, List.nil_append]

/-- in particular the same sample receives the same label in whatever batch, at whatever position
and after whatever earlier calls it is presented. -/
theorem c09_sup_position_free (f : Forest) (bs : List (List (Nat → Int))) (b i : Nat)
    (ds : List (Nat → Int)) (d : Nat → Int) (hb : bs[b]? = some ds) (hi : ds[i]? = some d) :
    ((predictHistory f bs).2[b]?).bind (·[i]?) = some ((predictOne f d).map (·.label)) := by
  rw [(c09_sup_history f bs).2]
  simp [hb, hi]

/-! ### KNN-supervised and unsupervised models -/

/-- what `predict` reads of a trained KNN-supervised / unsupervised model: `k`, the training size,
the encodings of `±FLOAT_MAX`, node costs, and the two label fields (`predicted_label` /
`cluster_label`) that are copied from the winning neighbour. -/
structure KnnModel where
  (k n : Nat)
  (top negTop : Int)
  (cost : Nat → Int)
  (lab clu : Nat → Nat)

/-- prediction of one query with (encoded) density `density` and distances `dist j` to the training
samples; `(0, 0)` (the label fields' defaults) when there is no valid neighbour. -/
def knnPredictOne (M : KnnModel) (density : Int) (dist : Nat → Int) : Nat × Nat :=
  match (knnArgmax M.negTop M.cost density
      (validSlots M.k M.top (queryNeighbours M.k M.n M.top dist))).1 with
  | none => (0, 0)
  | some j => (M.lab j, M.clu j)

def knnPredictBatch (M : KnnModel) (qs : List (Int × (Nat → Int))) : List (Nat × Nat) :=
  qs.map (fun q => knnPredictOne M q.1 q.2)

theorem c09_knn_pointwise (M : KnnModel) (qs : List (Int × (Nat → Int))) (i : Nat) :
    (knnPredictBatch M qs)[i]? = (qs[i]?).map (fun q => knnPredictOne M q.1 q.2) := by
  unfold knnPredictBatch
  exact List.getElem?_map

theorem c09_knn_length (M : KnnModel) (qs : List (Int × (Nat → Int))) :
    (knnPredictBatch M qs).length = qs.length := by
  unfold knnPredictBatch
  exact List.length_map _

theorem c09_knn_perm (M : KnnModel) (qs qs' : List (Int × (Nat → Int))) (h : qs.Perm qs') :
    (knnPredictBatch M qs).Perm (knnPredictBatch M qs') := by
  unfold knnPredictBatch
  exact h.map _

theorem c09_knn_append (M : KnnModel) (a b : List (Int × (Nat → Int))) :
    knnPredictBatch M (a ++ b) = knnPredictBatch M a ++ knnPredictBatch M b := by
  unfold knnPredictBatch
  exact List.map_append

/-! ### non-vacuity -/

/-- training samples at 0, 10, 11 with labels 1, 2, 2; `k = 1`. -/
def c09_demo_model : KnnModel :=
  { k := 1, n := 3, top := 1000, negTop := -1000, cost := fun j => if j = 0 then 5 else 7,
    lab := fun j => if j = 0 then 1 else 2, clu := fun j => j }

def c09_demo_q (x : Int) : Int × (Nat → Int) :=
  (9, fun j => let p : Int := if j = 0 then 0 else if j = 1 then 10 else 11
               if p ≤ x then x - p else p - x)

example : knnPredictBatch c09_demo_model [c09_demo_q 1, c09_demo_q 12] = [(1, 0), (2, 2)] := by decide
example : knnPredictBatch c09_demo_model [c09_demo_q 12, c09_demo_q 1] = [(2, 2), (1, 0)] := by decide

end Opf
