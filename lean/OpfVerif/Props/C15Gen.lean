/-
C15 — END TO END for the translated code: the statement-by-statement translation of
`SemiSupervisedOPF.fit` (`Gen/SemiImp.lean`) chooses its prototypes among the LABELED samples only
and then lets labeled and unlabeled samples compete in one optimum-path forest; every sample,
labeled or not, ends with the true label of the labeled prototype at the root of its tree.

Composition of the refinement theorem `c15_gen_fit` (`Props/C15Refine.lean`) with the model-level
theorems of `Props/C15.lean`.  Every theorem speaks about `SemiImp.fit W top sg0 nU` and the arrays
of the subgraph `sg'` it returns (`n = labL.size + nU` nodes: the labeled samples first, then the
`nU` unlabeled ones).  Hypotheses, on the inputs only:

* `hr : RelF sg0 (Forest.init labL)` — the subgraph handed to `fit` is the fresh one built from the
  labeled samples (the translated code appends the unlabeled nodes itself);
* `hW : WAgree (labL.size + nU) W w` — the arc-weight oracle returns `w a b` on node positions;
* `H : SemiHyp w top labL nU` — at least one labeled sample, `w` symmetric on the labeled samples,
  `0 ≤ w p q < top` on all samples, `0 < top`, at least two classes among the labeled samples.

Reading conventions as in `Props/C01Gen.lean`.  Property theorems only.
-/
import OpfVerif.Props.C15Refine
import OpfVerif.Props.C15
import OpfVerif.Props.C01Gen
import OpfVerif.Props.C03Refine
namespace Opf.GenCompose
open Opf Opf.Gen Opf.Gen.SupImp Opf.SupRefine Opf.FitCompose

/-- hypotheses of a semi-supervised fit, on the inputs: labels `labL` of the labeled samples,
`nU` unlabeled samples, weights `w` over all `labL.size + nU` positions. -/
structure SemiHyp (w : Nat → Nat → Int) (top : Int) (labL : Array Nat) (nU : Nat) : Prop where
  labeled_pos : 0 < labL.size
  symm : ∀ p q, p < labL.size → q < labL.size → w p q = w q p
  w_nonneg : ∀ p q, p < labL.size + nU → q < labL.size + nU → 0 ≤ w p q
  w_lt_top : ∀ p q, p < labL.size + nU → q < labL.size + nU → w p q < top
  top_pos : 0 < top
  two_classes : ∃ a b, a < labL.size ∧ b < labL.size ∧ labL.getD a 0 ≠ labL.getD b 0

/-- the label vector of the model: the labeled samples' labels, then one 0 per unlabeled sample. -/
abbrev semiLab (labL : Array Nat) (nU : Nat) : Array Nat := labL ++ Array.replicate nU 0

theorem semiLab_size (labL : Array Nat) (nU : Nat) : (semiLab labL nU).size = labL.size + nU := by
  simp [semiLab]

theorem semiLab_getD (labL : Array Nat) (nU : Nat) (x : Nat) (hx : x < labL.size) :
    (semiLab labL nU).getD x 0 = labL.getD x 0 := by
  simp [semiLab, Array.getD_eq_getD_getElem?, Array.getElem?_append_left hx]

theorem SemiHyp.fitHyp {w : Nat → Nat → Int} {top : Int} {labL : Array Nat} {nU : Nat}
    (H : SemiHyp w top labL nU) : FitHyp w top labL.size (semiLab labL nU) := by
  obtain ⟨a, b, ha, hb, hab⟩ := H.two_classes
  refine ⟨H.labeled_pos, by rw [semiLab_size]; omega, H.symm, ?_, ?_, H.top_pos,
    ⟨a, b, ha, hb, by rw [semiLab_getD _ _ _ ha, semiLab_getD _ _ _ hb]; exact hab⟩⟩
  · intro p q hp hq
    rw [semiLab_size] at hp hq
    exact H.w_nonneg p q hp hq
  · intro p q hp hq
    rw [semiLab_size] at hp hq
    exact H.w_lt_top p q hp hq

variable (W : Int → Int → Option Int) (w : Nat → Nat → Int) (top : Int) (sg0 : SG)
  (labL : Array Nat) (nU : Nat)

/-- `SemiSupervisedOPF.fit` terminates without raising, marks the classifier trained, and the
returned subgraph represents the model forest (master lemma; unfolded below). -/
theorem c15_gen_master (hr : RelF sg0 (Forest.init labL)) (hW : WAgree (labL.size + nU) W w)
    (H : SemiHyp w top labL nU) :
    ∃ sg', SemiImp.fit W top sg0 (nU : Int) = some (sg', ()) ∧ sg'.trained = true ∧
      RelF sg' (fitRun w top true labL.size (semiLab labL nU)).f :=
  c15_gen_fit W w top sg0 labL nU hr H.labeled_pos hW

/-- **Frame and prototypes among the labeled samples only.** `fit` raises nothing and terminates;
the returned subgraph has `labL.size + nU` nodes (the unlabeled samples were appended); `status`
holds only 0 and 1, and it is 1 only on LABELED samples: no unlabeled sample is a prototype; every
class present among the labeled samples has a prototype. -/
theorem c15_gen_frame (hr : RelF sg0 (Forest.init labL)) (hW : WAgree (labL.size + nU) W w)
    (H : SemiHyp w top labL nU) :
    ∃ sg', SemiImp.fit W top sg0 (nU : Int) = some (sg', ()) ∧ sg'.trained = true ∧
      sg'.n_nodes = ((labL.size + nU : Nat) : Int) ∧ sg'.pred.size = labL.size + nU ∧
      sg'.status.size = labL.size + nU ∧ sg'.cost.size = labL.size + nU ∧
      sg'.predicted_label.size = labL.size + nU ∧ sg'.label.size = labL.size + nU ∧
      (∀ t, t < labL.size + nU → sg'.status.getD t 0 = 0 ∨ sg'.status.getD t 0 = 1) ∧
      (∀ t, t < labL.size + nU → sg'.status.getD t 0 = 1 → t < labL.size) ∧
      (∀ a, a < labL.size → ∃ p, p < labL.size ∧ sg'.status.getD p 0 = 1 ∧
        labL.getD p 0 = labL.getD a 0) := by
  obtain ⟨sg', he, ht, r⟩ := c15_gen_master W w top sg0 labL nU hr hW H
  have hsz := semiLab_size labL nU
  obtain ⟨h1, h2, h3, h4, h5, h6, _⟩ := fo_sizes H.fitHyp r
  rw [hsz] at h1 h2 h3 h4 h5 h6
  refine ⟨sg', he, ht, h1, h2, h3, h4, h5, h6, ?_, ?_, ?_⟩
  · intro t ht
    exact fo_status_01 H.fitHyp r (by rw [hsz]; exact ht)
  · intro t ht hs
    exact (fo_seeds H.fitHyp r t (by rw [hsz]; exact ht) hs).1
  · intro a ha
    obtain ⟨p, hp, hs, hl⟩ := fo_classes H.fitHyp r a ha
    exact ⟨p, hp, hs, by rw [← semiLab_getD labL nU p hp, ← semiLab_getD labL nU a ha]; exact hl⟩

/-- **Optimum costs over labeled and unlabeled samples alike.** `Node.cost` of every sample `t` is
the smallest, over all paths from a prototype to `t` through ALL `labL.size + nU` samples, of the
largest arc weight on the path. -/
theorem c15_gen_cost_optimal (hr : RelF sg0 (Forest.init labL)) (hW : WAgree (labL.size + nU) W w)
    (H : SemiHyp w top labL nU) :
    ∃ sg', SemiImp.fit W top sg0 (nU : Int) = some (sg', ()) ∧
      ∀ t, t < labL.size + nU →
        (outInst w top (semiLab labL nU) sg'.status).PathCost t (sg'.cost.getD t 0) ∧
        ∀ c, (outInst w top (semiLab labL nU) sg'.status).PathCost t c → sg'.cost.getD t 0 ≤ c := by
  obtain ⟨sg', he, _, r⟩ := c15_gen_master W w top sg0 labL nU hr hW H
  exact ⟨sg', he, fun t ht => fo_cost_optimal H.fitHyp r t (by rw [semiLab_size]; exact ht)⟩

/-- **Costs are finite.** Every sample, labeled or not, ends with a cost in `[0, FLOAT_MAX)`. -/
theorem c15_gen_cost_bounds (hr : RelF sg0 (Forest.init labL)) (hW : WAgree (labL.size + nU) W w)
    (H : SemiHyp w top labL nU) :
    ∃ sg', SemiImp.fit W top sg0 (nU : Int) = some (sg', ()) ∧
      ∀ t, t < labL.size + nU → 0 ≤ sg'.cost.getD t 0 ∧ sg'.cost.getD t 0 < top := by
  obtain ⟨sg', he, _, r⟩ := c15_gen_master W w top sg0 labL nU hr hW H
  exact ⟨sg', he, fun t ht => fo_cost_bounds H.fitHyp r t (by rw [semiLab_size]; exact ht)⟩

/-- **Every sample is conquered.** `idx_nodes` lists each of the `labL.size + nU` samples exactly
once, in non-decreasing `Node.cost`. -/
theorem c15_gen_order (hr : RelF sg0 (Forest.init labL)) (hW : WAgree (labL.size + nU) W w)
    (H : SemiHyp w top labL nU) :
    ∃ sg', SemiImp.fit W top sg0 (nU : Int) = some (sg', ()) ∧
      ∃ ord : List Nat, sg'.idx_nodes.toList = ord.map (fun (x : Nat) => (x : Int)) ∧ ord.Nodup ∧
        (∀ t, t ∈ ord ↔ t < labL.size + nU) ∧ ord.length = labL.size + nU ∧
        ord.Pairwise (fun a b => sg'.cost.getD a 0 ≤ sg'.cost.getD b 0) := by
  obtain ⟨sg', he, _, r⟩ := c15_gen_master W w top sg0 labL nU hr hW H
  obtain ⟨ord, h1, h2, h3, h4, h5⟩ := fo_order H.fitHyp r
  rw [semiLab_size] at h4
  exact ⟨sg', he, ord, h1, h2, fun t => by rw [h3, semiLab_size], h4, h5⟩

/-- **Prototypes.** A sample whose `status` is 1 is labeled, keeps cost 0, has no predecessor and
is assigned its own true label. -/
theorem c15_gen_prototypes (hr : RelF sg0 (Forest.init labL)) (hW : WAgree (labL.size + nU) W w)
    (H : SemiHyp w top labL nU) :
    ∃ sg', SemiImp.fit W top sg0 (nU : Int) = some (sg', ()) ∧
      ∀ t, t < labL.size + nU → sg'.status.getD t 0 = 1 →
        t < labL.size ∧ sg'.cost.getD t 0 = 0 ∧ sg'.pred.getD t (-1) = -1 ∧
        sg'.predicted_label.getD t 0 = (labL.getD t 0 : Int) := by
  obtain ⟨sg', he, _, r⟩ := c15_gen_master W w top sg0 labL nU hr hW H
  refine ⟨sg', he, fun t ht hs => ?_⟩
  obtain ⟨h1, h2, h3, h4⟩ := fo_seeds H.fitHyp r t (by rw [semiLab_size]; exact ht) hs
  exact ⟨h1, h2, h3, by rw [h4, semiLab_getD labL nU t h1]⟩

/-- **Link equation.** Every other sample `t` (labeled or unlabeled) has a predecessor `p` that
was conquered earlier, `cost[t] = max(cost[p], w(p, t))`, and `t` carries the predicted label of
`p`. -/
theorem c15_gen_link (hr : RelF sg0 (Forest.init labL)) (hW : WAgree (labL.size + nU) W w)
    (H : SemiHyp w top labL nU) :
    ∃ sg', SemiImp.fit W top sg0 (nU : Int) = some (sg', ()) ∧
      ∀ t, t < labL.size + nU → sg'.status.getD t 0 ≠ 1 →
        ∃ p, p < labL.size + nU ∧ p ≠ t ∧ sg'.pred.getD t (-1) = (p : Int) ∧
          sg'.cost.getD t 0 = max (sg'.cost.getD p 0) (w p t) ∧
          sg'.predicted_label.getD t 0 = sg'.predicted_label.getD p 0 ∧
          sg'.idx_nodes.toList.idxOf (p : Int) < sg'.idx_nodes.toList.idxOf (t : Int) := by
  obtain ⟨sg', he, _, r⟩ := c15_gen_master W w top sg0 labL nU hr hW H
  refine ⟨sg', he, fun t ht hs => ?_⟩
  obtain ⟨p, hp, h⟩ := fo_link H.fitHyp r t (by rw [semiLab_size]; exact ht) hs
  rw [semiLab_size] at hp
  exact ⟨p, hp, h⟩

/-- **Labels come from labeled prototypes.** Following `Node.pred` from ANY sample `t`, labeled or
unlabeled, reaches a prototype `r` which is a LABELED sample, and the label `fit` assigns to `t`
is the true label of `r`. -/
theorem c15_gen_label (hr : RelF sg0 (Forest.init labL)) (hW : WAgree (labL.size + nU) W w)
    (H : SemiHyp w top labL nU) :
    ∃ sg', SemiImp.fit W top sg0 (nU : Int) = some (sg', ()) ∧
      ∀ t, t < labL.size + nU → ∃ r, r < labL.size ∧ sg'.status.getD r 0 = 1 ∧
        AncA sg'.pred r t ∧ sg'.predicted_label.getD t 0 = (labL.getD r 0 : Int) := by
  obtain ⟨sg', he, _, r⟩ := c15_gen_master W w top sg0 labL nU hr hW H
  refine ⟨sg', he, fun t ht => ?_⟩
  obtain ⟨rt, h1, h2, h3, h4⟩ := fo_forest H.fitHyp r t (by rw [semiLab_size]; exact ht)
  exact ⟨rt, h1, h2, h3, by rw [h4, semiLab_getD labL nU rt h1]⟩

/-- **Prediction with the semi-supervised classifier** (`SemiSupervisedOPF` inherits `predict`):
after the semi-supervised `fit`, `predict` raises nothing and returns for every query the predicted
label of THE conqueror — the first node, in conquest order, minimising `max (cost t) (d t)` over all
labeled and unlabeled training samples — which is the true label of a LABELED prototype. -/
theorem c15_gen_predict (WQ : Int → Int → Option Int) (psg0 : SG) (ds : List (Nat → Int))
    (hr : RelF sg0 (Forest.init labL)) (hW : WAgree (labL.size + nU) W w)
    (H : SemiHyp w top labL nU) (hq : QuerySG psg0 ds.length)
    (hWQ : WQAgree (labL.size + nU) WQ ds) :
    ∃ sg1 sg2 preds, SemiImp.fit W top sg0 (nU : Int) = some (sg1, ()) ∧
      predict WQ sg1 psg0 = some (sg2, preds) ∧ preds.size = ds.length ∧
      ∀ i (hi : i < ds.length), ∃ c r, IsConq sg1 (labL.size + nU) ds[i] c ∧
        preds.getD i 0 = sg1.predicted_label.getD c 0 ∧ r < labL.size ∧
        sg1.status.getD r 0 = 1 ∧ AncA sg1.pred r c ∧ preds.getD i 0 = (labL.getD r 0 : Int) := by
  obtain ⟨sg1, he, ht, r⟩ := c15_gen_master W w top sg0 labL nU hr hW H
  have hsz := semiLab_size labL nU
  obtain ⟨hs, hn, hos, hol, hc⟩ := fitRun_predict_ready H.fitHyp true
  obtain ⟨sg2, preds, hp, _, hpreds, _⟩ := c03_gen_predict WQ sg1 _ r hs ht hn hos hol hc psg0 ds hq
    (by rw [fitRun_n H.fitHyp true, hsz]; exact hWQ)
  refine ⟨sg1, sg2, preds, he, hp, ?_, fun i hi => ?_⟩
  · rw [hpreds, labelsInt_size, predictBatch_labels, List.length_map]
  · obtain ⟨ro, hro, hconq, hlab⟩ := predictOne_isConq H.fitHyp r ds[i]
    obtain ⟨rt, h1, h2, h3, h4⟩ := fo_forest H.fitHyp r ro.conq hconq.1
    have hget : preds.getD i 0 = (ro.label : Int) := by
      rw [hpreds]
      apply labelsInt_getD _ i (by rw [predictBatch_labels, List.length_map]; exact hi)
      simp only [predictBatch_labels, List.getElem_map, hro, Option.map_some]
    rw [hsz] at hconq
    exact ⟨ro.conq, rt, hconq, by rw [hget, hlab], h1, h2, h3,
      by rw [hget, hlab, h4, semiLab_getD labL nU rt h1]⟩

/-! ### non-vacuity -/

/-- the instance of `Props/C15.lean`: 3 labeled samples (classes 1, 1, 2) on a line at 0, 1, 5 and
one unlabeled sample at 6 satisfy all hypotheses. -/
example :
    RelF (initSG #[1, 1, 2]) (Forest.init #[1, 1, 2]) ∧
    WAgree ((#[1, 1, 2] : Array Nat).size + 1) (fun a b => some (c15_demo_w a.toNat b.toNat))
      c15_demo_w ∧
    SemiHyp c15_demo_w 100 #[1, 1, 2] 1 := by
  have H := c15_demo_hyp
  refine ⟨c01_gen_initSG _, fun a b _ _ => by simp, ⟨by decide, H.symm, H.w_nonneg, H.w_lt_top,
    by decide, ⟨0, 2, by decide, by decide, by decide⟩⟩⟩

end Opf.GenCompose
