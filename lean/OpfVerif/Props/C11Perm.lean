/-
C11 (order independence) — on tie-free data the result of training and prediction does not depend
on the tie-breaking of the heaps nor on the order in which the training samples are listed.

All statements are about EVERY finished lawful run of the relational semantics of prototype
selection (`Model/PrimSpec.lean`) and of the competition (`Model/CompeteSpec.lean`); they follow
from the order-free characterisations of C02 (`MstArc`) and C01 (`PathCost`), which are shown to
be equivariant under renaming of the samples (`Lemmas/Determinacy.lean`).

 a. determinacy inside one instance: prototypes, costs, labels (`c11_det_*`);
 b. a renaming `σ` (with inverse `τ`, `IsRenaming n σ τ`) of the samples: the renamed instance
    `IP.rename σ` lists sample `σ a` at position `a`.  Finished runs on the renamed instance flag
    the same SAMPLES as prototypes (although Prim now starts from sample `σ 0`), give them the same
    costs and the same labels (`c11_perm_*`);
 c. tie-free queries: all exhaustive minimisers of `max (cost t) (d t)` carry the same label
    (`c11_predict_unique`), hence (C03: `predict` returns the label of an exhaustive minimiser) the
    predicted label is the same for the original and the renamed training set (`c11_perm_predict`);
    `c11_perm_exec` is the same statement for the executable models `fitRun` and `predictOne`.

The theorems of (b) are stated for the literal `rename` and, more generally (suffix `'`), for any
instance that agrees with it on the samples `< n` (`Renames σ I I'`) — which is what the
executable-level statement needs.
-/
import OpfVerif.Lemmas.Determinacy
namespace Opf

open PrimInst CompInst

/-! ### a. determinacy within one instance -/

/-- any two finished lawful Prim runs (whatever their tie-breaking) select the same tree and the
same prototypes. -/
theorem c11_det_prototypes (I : PrimInst) (hg : I.Good) (hd : I.Distinct) (s₁ s₂ : PState)
    (h₁ : PrimInst.Reach I s₁) (f₁ : I.Final s₁) (h₂ : PrimInst.Reach I s₂) (f₂ : I.Final s₂) :
    (∀ u v, u < I.n → v < I.n → (TreeArc s₁ u v ↔ TreeArc s₂ u v)) ∧
    (∀ v, v < I.n → s₁.proto v = s₂.proto v) := c02_unique I hg hd s₁ s₂ h₁ f₁ h₂ f₂

/-- any two finished lawful competition runs of the same instance (whatever their tie-breaking and
whatever was in `pred`/`lab` before) end with the same costs: both are the minimum of the same set
of path costs. -/
theorem c11_det_cost (I : CompInst) (hg : I.Good) {pred0₁ pred0₂ : Nat → Option Nat}
    {lab0₁ lab0₂ : Nat → Nat} (s₁ s₂ : AState)
    (h₁ : CompInst.Reach I pred0₁ lab0₁ s₁) (f₁ : I.Final s₁)
    (h₂ : CompInst.Reach I pred0₂ lab0₂ s₂) (f₂ : I.Final s₂) (t : Nat) (ht : t < I.n) :
    s₁.cost t = s₂.cost t := by
  have o₁ := c01_cost_optimal I pred0₁ lab0₁ hg s₁ h₁ f₁ t ht
  have o₂ := c01_cost_optimal I pred0₂ lab0₂ hg s₂ h₂ f₂ t ht
  exact Int.le_antisymm (o₁.2 _ o₂.1) (o₂.2 _ o₁.1)

section setting

variable {IP IP' : PrimInst} {sP sP' sP₁ sP₂ : PState} {IC IC' IC₁ IC₂ : CompInst}
  {pred0 pred0' pred0₁ pred0₂ : Nat → Option Nat} {lab0 lab0' lab0₁ lab0₂ : Nat → Nat}
  {sC sC' sC₁ sC₂ : AState} {σ τ : Nat → Nat}

/-- two complete trainings (prototype selection + competition, each with its own tie-breaking) of
the same tie-free training set end with the same costs … -/
theorem c11_det_cost_setting (R₁ : ResubSetting IP sP₁ IC₁ pred0₁ lab0₁ sC₁)
    (R₂ : ResubSetting IP sP₂ IC₂ pred0₂ lab0₂ sC₂) (t : Nat) (ht : t < IP.n) :
    sC₁.cost t = sC₂.cost t := by
  have hσ := IsRenaming.refl IP.n
  have h : PrimInst.Renames id IP IP := ⟨rfl, fun _ _ _ _ => rfl, fun _ _ => rfl⟩
  have hC := ResubSetting.renames hσ h R₂ R₁
  exact hC.cost_eq (R₂.hn ▸ hσ) R₂.goodC R₁.goodC R₂.reachC R₂.finalC R₁.reachC R₁.finalC
    (by rw [R₂.hn]; exact ht)

/-- … and the same assigned labels (the true ones). -/
theorem c11_det_labels (R₁ : ResubSetting IP sP₁ IC₁ pred0₁ lab0₁ sC₁)
    (R₂ : ResubSetting IP sP₂ IC₂ pred0₂ lab0₂ sC₂) (t : Nat) (ht : t < IP.n) :
    sC₁.lab t = sC₂.lab t := by
  rw [c04_train_labels R₁ t ht, c04_train_labels R₂ t ht]

/-! ### b. renaming of the samples -/

/-- `Conn` is equivariant. -/
theorem c11_perm_conn (I : PrimInst) (hσ : IsRenaming I.n σ τ) (θ : Int) (u v : Nat)
    (hu : u < I.n) (hv : v < I.n) : Conn (I.rename σ) θ u v ↔ Conn I θ (σ u) (σ v) :=
  (renames_rename I σ).conn_iff hσ hu hv

/-- the order-free minimum spanning tree is equivariant. -/
theorem c11_perm_mst (I : PrimInst) (hσ : IsRenaming I.n σ τ) (u v : Nat)
    (hu : u < I.n) (hv : v < I.n) : MstArc (I.rename σ) u v ↔ MstArc I (σ u) (σ v) :=
  (PrimInst.renames_rename I σ).mstArc_iff hσ hu hv

theorem c11_perm_good (I : PrimInst) (hσ : IsRenaming I.n σ τ) (hg : I.Good) : (I.rename σ).Good :=
  (PrimInst.renames_rename I σ).good hσ rfl hg

theorem c11_perm_distinct (I : PrimInst) (hσ : IsRenaming I.n σ τ) (hd : I.Distinct) :
    (I.rename σ).Distinct := (PrimInst.renames_rename I σ).distinct hσ hd

/-- the set of path costs is equivariant. -/
theorem c11_perm_pathCost (I : CompInst) (hσ : IsRenaming I.n σ τ) (t : Nat) (ht : t < I.n)
    (c : Int) : PathCost (I.rename σ) t c ↔ PathCost I (σ t) c :=
  (CompInst.renames_rename I σ).pathCost_iff hσ ht

theorem c11_perm_goodC (I : CompInst) (hσ : IsRenaming I.n σ τ) (hg : I.Good) : (I.rename σ).Good :=
  (CompInst.renames_rename I σ).good hσ rfl hg

/-- the same samples are prototypes, whatever the order of the training set: position `v` of the
renamed training set is flagged iff sample `σ v` is flagged in the original one. -/
theorem c11_perm_prototypes (I : PrimInst) (hσ : IsRenaming I.n σ τ) (hg : I.Good) (hd : I.Distinct)
    (s s' : PState) (hr : PrimInst.Reach I s) (hf : I.Final s)
    (hr' : PrimInst.Reach (I.rename σ) s') (hf' : (I.rename σ).Final s') :
    (∀ u v, u < I.n → v < I.n → (TreeArc s' u v ↔ TreeArc s (σ u) (σ v))) ∧
    (∀ v, v < I.n → s'.proto v = s.proto (σ v)) :=
  have h := PrimInst.renames_rename I σ
  have hg' := c11_perm_good I hσ hg
  have hd' := c11_perm_distinct I hσ hd
  ⟨fun _ _ hu hv => h.treeArc_iff hσ hg hd hg' hd' hr hf hr' hf' hu hv,
   fun _ hv => h.proto_eq hσ hg hd hg' hd' hr hf hr' hf' hv⟩

/-- general form: `I'` agrees with `I.rename σ` on the samples. -/
theorem c11_perm_prototypes' {I I' : PrimInst} (hσ : IsRenaming I.n σ τ)
    (h : PrimInst.Renames σ I I') (hg : I.Good) (hd : I.Distinct) (hg' : I'.Good)
    (s s' : PState) (hr : PrimInst.Reach I s) (hf : I.Final s)
    (hr' : PrimInst.Reach I' s') (hf' : I'.Final s') (v : Nat) (hv : v < I.n) :
    s'.proto v = s.proto (σ v) :=
  h.proto_eq hσ hg hd hg' (h.distinct hσ hd) hr hf hr' hf' hv

/-- the optimum-path costs are the same for the same samples. -/
theorem c11_perm_cost (I : CompInst) (hσ : IsRenaming I.n σ τ) (hg : I.Good)
    (s s' : AState) (hr : CompInst.Reach I pred0 lab0 s) (hf : I.Final s)
    (hr' : CompInst.Reach (I.rename σ) pred0' lab0' s') (hf' : (I.rename σ).Final s')
    (t : Nat) (ht : t < I.n) : s'.cost t = s.cost (σ t) :=
  (CompInst.renames_rename I σ).cost_eq hσ hg (c11_perm_goodC I hσ hg) hr hf hr' hf' ht

/-- both phases: train on a tie-free training set and on the same set listed in another order
(`R'` is a setting over `IP.rename σ`; its competition is seeded with the prototypes found by ITS
Prim run, which starts from sample `σ 0`).  Costs are the same for the same samples. -/
theorem c11_perm_cost_setting' (hσ : IsRenaming IP.n σ τ) (h : PrimInst.Renames σ IP IP')
    (R : ResubSetting IP sP IC pred0 lab0 sC) (R' : ResubSetting IP' sP' IC' pred0' lab0' sC')
    (t : Nat) (ht : t < IP.n) : sC'.cost t = sC.cost (σ t) :=
  (ResubSetting.renames hσ h R R').cost_eq (R.hn ▸ hσ) R.goodC R'.goodC R.reachC R.finalC
    R'.reachC R'.finalC (by rw [R.hn]; exact ht)

theorem c11_perm_cost_setting (hσ : IsRenaming IP.n σ τ)
    (R : ResubSetting IP sP IC pred0 lab0 sC)
    (R' : ResubSetting (IP.rename σ) sP' IC' pred0' lab0' sC')
    (t : Nat) (ht : t < IP.n) : sC'.cost t = sC.cost (σ t) :=
  c11_perm_cost_setting' hσ (PrimInst.renames_rename IP σ) R R' t ht

/-- assigned labels are the same for the same samples. -/
theorem c11_perm_labels' (h : PrimInst.Renames σ IP IP')
    (R : ResubSetting IP sP IC pred0 lab0 sC) (R' : ResubSetting IP' sP' IC' pred0' lab0' sC')
    (t : Nat) (ht : t < IP.n) (hσt : σ t < IP.n) : sC'.lab t = sC.lab (σ t) := by
  rw [c04_train_labels R' t (by rw [h.hn]; exact ht), c04_train_labels R (σ t) hσt, h.hlam t ht]

theorem c11_perm_labels (hσ : IsRenaming IP.n σ τ)
    (R : ResubSetting IP sP IC pred0 lab0 sC)
    (R' : ResubSetting (IP.rename σ) sP' IC' pred0' lab0' sC')
    (t : Nat) (ht : t < IP.n) : sC'.lab t = sC.lab (σ t) :=
  c11_perm_labels' (PrimInst.renames_rename IP σ) R R' t ht (hσ.lt ht)

/-! ### c. predictions for tie-free queries -/

/-- query distances without ties: positive, pairwise distinct over the training samples, and
different from every training distance. -/
structure TieFreeQuery (IP : PrimInst) (d : Nat → Int) : Prop where
  pos : ∀ s, s < IP.n → 0 < d s
  inj : ∀ s t, s < IP.n → t < IP.n → s ≠ t → d s ≠ d t
  off : ∀ s p q, s < IP.n → p < IP.n → q < IP.n → p ≠ q → d s ≠ IP.w p q

/-- all exhaustive minimisers of the prediction rule carry the same label. -/
theorem c11_predict_unique (R : ResubSetting IP sP IC pred0 lab0 sC) (d : Nat → Int)
    (hd : TieFreeQuery IP d) (s t : Nat) (hs : s < IP.n) (ht : t < IP.n)
    (hmin_s : ∀ x, x < IP.n → max (sC.cost s) (d s) ≤ max (sC.cost x) (d x))
    (hmin_t : ∀ x, x < IP.n → max (sC.cost t) (d t) ≤ max (sC.cost x) (d x)) :
    sC.lab s = sC.lab t := by
  by_cases hst : s = t
  · rw [hst]
  have hne := hd.inj s t hs ht hst
  have e1 := hmin_s t ht
  have e2 := hmin_t s hs
  have hcs := R.cost_nonneg s
  have hct := R.cost_nonneg t
  have hps := hd.pos s hs
  have hpt := hd.pos t ht
  -- the common value is attained through the cost, not through the query distance
  have h1 : d s < sC.cost s := by
    by_contra hn
    have hc : sC.cost t = d s := by omega
    obtain ⟨p, q, hp, hq, hpq, hw⟩ := R.cost_weight ht (by omega)
    exact hd.off s p q hs hp hq hpq (by omega)
  have h2 : d t < sC.cost t := by
    by_contra hn
    have hc : sC.cost s = d t := by omega
    obtain ⟨p, q, hp, hq, hpq, hw⟩ := R.cost_weight hs (by omega)
    exact hd.off t p q ht hp hq hpq (by omega)
  have he : sC.cost s = sC.cost t := by omega
  rw [c04_train_labels R s hs, c04_train_labels R t ht]
  exact R.same_cost_same_label hs ht he (by omega)

/-- a tie-free query stays tie-free when the training set is renamed. -/
theorem TieFreeQuery.rename (hσ : IsRenaming IP.n σ τ) (h : PrimInst.Renames σ IP IP')
    {d : Nat → Int} (hd : TieFreeQuery IP d) : TieFreeQuery IP' (fun a => d (σ a)) where
  pos := by
    intro s hs; rw [h.hn] at hs; exact hd.pos _ (hσ.lt hs)
  inj := by
    intro s t hs ht hst
    rw [h.hn] at hs ht
    exact hd.inj _ _ (hσ.lt hs) (hσ.lt ht) (hσ.ne hs ht hst)
  off := by
    intro s p q hs hp hq hpq
    rw [h.hn] at hs hp hq
    rw [h.hw p q hp hq]
    exact hd.off _ _ _ (hσ.lt hs) (hσ.lt hp) (hσ.lt hq) (hσ.ne hp hq hpq)

/-- the predicted label of a tie-free query does not depend on the order of the training set (nor
on any tie-breaking): ANY exhaustive minimiser `s` for the original training and ANY exhaustive
minimiser `s'` for the renamed training (with the query distances renamed accordingly) carry the
same label.  By C03 (`c03_label_exhaustive`) the label returned by `predict` is that of an
exhaustive minimiser. -/
theorem c11_perm_predict' (hσ : IsRenaming IP.n σ τ) (h : PrimInst.Renames σ IP IP')
    (R : ResubSetting IP sP IC pred0 lab0 sC) (R' : ResubSetting IP' sP' IC' pred0' lab0' sC')
    (d : Nat → Int) (hd : TieFreeQuery IP d) (s s' : Nat) (hs : s < IP.n) (hs' : s' < IP.n)
    (hmin : ∀ x, x < IP.n → max (sC.cost s) (d s) ≤ max (sC.cost x) (d x))
    (hmin' : ∀ x, x < IP.n → max (sC'.cost s') (d (σ s')) ≤ max (sC'.cost x) (d (σ x))) :
    sC'.lab s' = sC.lab s := by
  rw [c11_perm_labels' h R R' s' hs' (hσ.lt hs')]
  refine c11_predict_unique R d hd (σ s') s (hσ.lt hs') hs ?_ hmin
  intro x hx
  have := hmin' (τ x) (hσ.inv_lt hx)
  rw [c11_perm_cost_setting' hσ h R R' s' hs', c11_perm_cost_setting' hσ h R R' _ (hσ.inv_lt hx),
    hσ.right_inv hx] at this
  exact this

theorem c11_perm_predict (hσ : IsRenaming IP.n σ τ)
    (R : ResubSetting IP sP IC pred0 lab0 sC)
    (R' : ResubSetting (IP.rename σ) sP' IC' pred0' lab0' sC')
    (d : Nat → Int) (hd : TieFreeQuery IP d) (s s' : Nat) (hs : s < IP.n) (hs' : s' < IP.n)
    (hmin : ∀ x, x < IP.n → max (sC.cost s) (d s) ≤ max (sC.cost x) (d x))
    (hmin' : ∀ x, x < IP.n → max (sC'.cost s') (d (σ s')) ≤ max (sC'.cost x) (d (σ x))) :
    sC'.lab s' = sC.lab s :=
  c11_perm_predict' hσ (PrimInst.renames_rename IP σ) R R' d hd s s' hs hs' hmin hmin'

/-- in particular (σ = id): two trainings of the same tie-free set, with whatever tie-breaking,
predict the same label for a tie-free query. -/
theorem c11_det_predict (R₁ : ResubSetting IP sP₁ IC₁ pred0₁ lab0₁ sC₁)
    (R₂ : ResubSetting IP sP₂ IC₂ pred0₂ lab0₂ sC₂)
    (d : Nat → Int) (hd : TieFreeQuery IP d) (s₁ s₂ : Nat) (h₁ : s₁ < IP.n) (h₂ : s₂ < IP.n)
    (hmin₁ : ∀ x, x < IP.n → max (sC₁.cost s₁) (d s₁) ≤ max (sC₁.cost x) (d x))
    (hmin₂ : ∀ x, x < IP.n → max (sC₂.cost s₂) (d s₂) ≤ max (sC₂.cost x) (d x)) :
    sC₂.lab s₂ = sC₁.lab s₁ :=
  c11_perm_predict' (σ := id) (IsRenaming.refl IP.n) ⟨rfl, fun _ _ _ _ => rfl, fun _ _ => rfl⟩
    R₁ R₂ d hd s₁ s₂ h₁ h₂ hmin₁ hmin₂

end setting

/-! ### executable level -/

/-- the hypotheses of C04's executable statement are inherited by the renamed data. -/
theorem TieFree.rename {w w' : Nat → Nat → Int} {top : Int} {lab lab' : Array Nat} {σ τ : Nat → Nat}
    (H : TieFree w top lab) (hσ : IsRenaming lab.size σ τ) (hsize : lab'.size = lab.size)
    (hw : ∀ a b, a < lab.size → b < lab.size → w' a b = w (σ a) (σ b))
    (hlab : ∀ a, a < lab.size → lab'.getD a 0 = lab.getD (σ a) 0) : TieFree w' top lab' where
  symm := by
    intro p q hp hq
    rw [hsize] at hp hq
    rw [hw p q hp hq, hw q p hq hp]; exact H.symm _ _ (hσ.lt hp) (hσ.lt hq)
  lt_top := by
    intro p q hp hq
    rw [hsize] at hp hq
    rw [hw p q hp hq]; exact H.lt_top _ _ (hσ.lt hp) (hσ.lt hq)
  pos := by
    intro p q hp hq hpq
    rw [hsize] at hp hq
    rw [hw p q hp hq]; exact H.pos _ _ (hσ.lt hp) (hσ.lt hq) (hσ.ne hp hq hpq)
  diag := by
    intro p hp
    rw [hsize] at hp
    rw [hw p p hp hp]; exact H.diag _ (hσ.lt hp)
  distinct := by
    intro a b c d ha hb hc hd hab hcd he
    rw [hsize] at ha hb hc hd
    rw [hw a b ha hb, hw c d hc hd] at he
    rcases H.distinct _ _ _ _ (hσ.lt ha) (hσ.lt hb) (hσ.lt hc) (hσ.lt hd) (hσ.ne ha hb hab)
      (hσ.ne hc hd hcd) he with ⟨h1, h2⟩ | ⟨h1, h2⟩
    · exact Or.inl ⟨hσ.inj ha hc h1, hσ.inj hb hd h2⟩
    · exact Or.inr ⟨hσ.inj ha hd h1, hσ.inj hb hc h2⟩
  two := by
    obtain ⟨a, b, ha, hb, hab⟩ := H.two
    refine ⟨τ a, τ b, by rw [hsize]; exact hσ.inv_lt ha, by rw [hsize]; exact hσ.inv_lt hb, ?_⟩
    rw [hlab _ (hσ.inv_lt ha), hlab _ (hσ.inv_lt hb), hσ.right_inv ha, hσ.right_inv hb]
    exact hab

/-- C03 for a forest that records the final state of a setting: `predictOne` succeeds and returns
the label of an exhaustive minimiser of the abstract state. -/
theorem c11_exec_minimiser {IP : PrimInst} {sP : PState} {IC : CompInst} {pred0 : Nat → Option Nat}
    {lab0 : Nat → Nat} {sC : AState} (R : ResubSetting IP sP IC pred0 lab0 sC) (f : Forest)
    (hfn : f.n = IP.n) (hord : f.order.toList = sC.order)
    (hfields : ∀ x, x < IP.n → f.costOf x = sC.cost x ∧ f.plabelOf x = sC.lab x) (d : Nat → Int) :
    ∃ r t, predictOne f d = some r ∧ t < IP.n ∧ r.label = sC.lab t ∧
      ∀ x, x < IP.n → max (sC.cost t) (d t) ≤ max (sC.cost x) (d x) := by
  obtain ⟨_, hmem, _, hpw⟩ := CompInst.c01_order IC pred0 lab0 R.goodC sC R.reachC R.finalC
  have hmem' : ∀ x, x ∈ sC.order ↔ x < IP.n := by intro x; rw [hmem, R.hn]
  have hsorted : OrderSorted f := by
    unfold OrderSorted
    rw [hord]
    refine hpw.imp_of_mem ?_
    intro a b ha hb hab
    rw [(hfields a ((hmem' a).1 ha)).1, (hfields b ((hmem' b).1 hb)).1]
    exact hab
  have hall : ∀ x, x < f.n → x ∈ f.order.toList := by
    intro x hx; rw [hord, hmem']; rw [hfn] at hx; exact hx
  cases hpr : predictOne f d with
  | none =>
    have := (c03_none_iff _ _).1 hpr
    have h2 := hall 0 (by rw [hfn]; exact R.goodP.n_pos)
    rw [this] at h2; cases h2
  | some r =>
    obtain ⟨t', ht', hlab', hmin⟩ := c03_label_exhaustive _ _ hsorted hall r hpr
    have ht'n : t' < IP.n := by rw [hord] at ht'; exact (hmem' t').1 ht'
    refine ⟨r, t', rfl, ht'n, by rw [hlab', (hfields t' ht'n).2], ?_⟩
    intro x hx
    have := hmin x (by rw [hfn]; exact hx)
    rw [(hfields t' ht'n).1, (hfields x hx).1] at this
    exact this

/-- executable level: `fit` (`fitRun`: the models of `_find_prototypes` and of the competition,
driving the heap model) on tie-free data `(w, lab)` and on the same data listed in another order
(`w' a b = w (σ a) (σ b)`, `lab'[a] = lab[σ a]`) records the same cost and the same assigned label
for the same samples, and `predict` (`predictOne`) returns the same label for every tie-free query
(`d' a = d (σ a)`). -/
theorem c11_perm_exec (w w' : Nat → Nat → Int) (top : Int) (lab lab' : Array Nat) (σ τ : Nat → Nat)
    (H : TieFree w top lab) (hσ : IsRenaming lab.size σ τ) (hsize : lab'.size = lab.size)
    (hw : ∀ a b, a < lab.size → b < lab.size → w' a b = w (σ a) (σ b))
    (hlab : ∀ a, a < lab.size → lab'.getD a 0 = lab.getD (σ a) 0) :
    (∀ t, t < lab.size →
      (fitRun w' top false lab'.size lab').f.costOf t
        = (fitRun w top false lab.size lab).f.costOf (σ t) ∧
      (fitRun w' top false lab'.size lab').f.plabelOf t
        = (fitRun w top false lab.size lab).f.plabelOf (σ t)) ∧
    ∀ d : Nat → Int, (∀ s, s < lab.size → 0 < d s) →
      (∀ s t, s < lab.size → t < lab.size → s ≠ t → d s ≠ d t) →
      (∀ s p q, s < lab.size → p < lab.size → q < lab.size → p ≠ q → d s ≠ w p q) →
      ∃ r r', predictOne (fitRun w top false lab.size lab).f d = some r ∧
        predictOne (fitRun w' top false lab'.size lab').f (fun a => d (σ a)) = some r' ∧
        r'.label = r.label := by
  have H' := H.rename hσ hsize hw hlab
  obtain ⟨IP, sP, IC, pred0, lab0, sC, R, hn, hwP, hlam, hfn, hord, hfields⟩ :=
    fitRun_resub w top lab H
  obtain ⟨IP', sP', IC', pred0', lab0', sC', R', hn', hwP', hlam', hfn', hord', hfields'⟩ :=
    fitRun_resub w' top lab' H'
  have hσP : IsRenaming IP.n σ τ := by rw [hn]; exact hσ
  have hren : PrimInst.Renames σ IP IP' := by
    refine ⟨by rw [hn', hn, hsize], ?_, ?_⟩
    · intro a b ha hb
      rw [hn] at ha hb
      rw [hwP', hwP]; exact hw a b ha hb
    · intro a ha
      rw [hn] at ha
      rw [hlam', hlam]; exact hlab a ha
  refine ⟨?_, ?_⟩
  · intro t ht
    have htP : t < IP.n := by rw [hn]; exact ht
    have ht' : t < lab'.size := by rw [hsize]; exact ht
    rw [(hfields' t ht').1, (hfields' t ht').2, (hfields _ (hσ.lt ht)).1, (hfields _ (hσ.lt ht)).2]
    exact ⟨c11_perm_cost_setting' hσP hren R R' t htP,
      c11_perm_labels' hren R R' t htP (hσP.lt htP)⟩
  · intro d hpos hinj hoff
    have hd : TieFreeQuery IP d := by
      refine ⟨?_, ?_, ?_⟩
      · intro s hs; rw [hn] at hs; exact hpos s hs
      · intro s t hs ht; rw [hn] at hs ht; exact hinj s t hs ht
      · intro s p q hs hp hq; rw [hn] at hs hp hq; rw [hwP]; exact hoff s p q hs hp hq
    obtain ⟨r, t, hr, ht, hl, hmin⟩ := c11_exec_minimiser R _ (by rw [hfn, hn]) hord
      (fun x hx => hfields x (by rw [← hn]; exact hx)) d
    obtain ⟨r', t', hr', ht', hl', hmin'⟩ := c11_exec_minimiser R' _ (by rw [hfn', hn']) hord'
      (fun x hx => hfields' x (by rw [← hn']; exact hx)) (fun a => d (σ a))
    rw [hren.hn] at ht'
    refine ⟨r, r', hr, hr', ?_⟩
    rw [hl, hl']
    exact c11_perm_predict' hσP hren R R' d hd t t' ht ht' hmin
      (fun x hx => hmin' x (by rw [hren.hn]; exact hx))

/-! ### non-vacuity -/

/-- the hypotheses of `c11_perm_exec` are satisfiable: the 4-sample tie-free instance of C04 listed
in reverse order, and a tie-free query. -/
example :
    let σ : Nat → Nat := fun x => 3 - x
    let w' : Nat → Nat → Int := fun a b => c04W (σ a) (σ b)
    let d : Nat → Int := fun s => 7 + 2 * s
    (∀ t, t < 4 →
      (fitRun w' 10 false 4 #[1, 1, 0, 0]).f.costOf t
        = (fitRun c04W 10 false 4 #[0, 0, 1, 1]).f.costOf (σ t) ∧
      (fitRun w' 10 false 4 #[1, 1, 0, 0]).f.plabelOf t
        = (fitRun c04W 10 false 4 #[0, 0, 1, 1]).f.plabelOf (σ t)) ∧
    ∃ r r', predictOne (fitRun c04W 10 false 4 #[0, 0, 1, 1]).f d = some r ∧
      predictOne (fitRun w' 10 false 4 #[1, 1, 0, 0]).f (fun a => d (σ a)) = some r' ∧
      r'.label = r.label := by
  intro σ w' d
  have hσ : IsRenaming 4 σ σ := ⟨fun x hx => by simp only [σ]; omega, fun x hx => by simp only [σ]; omega⟩
  have hlab : ∀ a, a < 4 → (#[1, 1, 0, 0] : Array Nat).getD a 0 = (#[0, 0, 1, 1] : Array Nat).getD (σ a) 0 := by
    decide
  have h := c11_perm_exec c04W w' 10 #[0, 0, 1, 1] #[1, 1, 0, 0] σ σ c04_demo_tiefree hσ rfl
    (fun _ _ _ _ => rfl) hlab
  refine ⟨h.1, h.2 d ?_ ?_ ?_⟩
  · intro s _; simp only [d]; omega
  · intro s t _ _ hst; simp only [d]; omega
  · have : ∀ s, s < 4 → ∀ p, p < 4 → ∀ q, q < 4 → p ≠ q → d s ≠ c04W p q := by decide
    exact fun s p q hs hp hq => this s hs p hp q hq

/-- the relational statements apply to the demo setting of C04. -/
example (s t : Nat) (hs : s < 4) (ht : t < 4) (he : c04SC.cost s = c04SC.cost t)
    (hpos : 0 < c04SC.cost s) : c04IP.lam s = c04IP.lam t :=
  c04_demo_setting.same_cost_same_label hs ht he hpos

end Opf
