/-
C19 — a saved and re-loaded model behaves identically to the original.

What a theorem can carry here: (1) every observation the properties make of a fitted model is a
FUNCTION of its state record (the executable models take the forest / clustering state and the
weight function as their only inputs: `c19_state_determines_*` are congruences), and (2) the source of
`load`/`save` (regenerated effect table): `load` performs exactly one write, `self.__dict__.update(…)`,
and `save` performs none.  That pickle reproduces the state (floats, numpy arrays, the numba
dispatcher pickled by reference) is runtime behaviour outside any model; the `persist` stream
establishes "equal state" by deep comparison for every model kind × metric × configuration, and
predictions by direct comparison.  C19 is therefore partial by nature (DESIGN §4 C19).
-/
import OpfVerif.Model.Forest
import OpfVerif.Model.Knn
import OpfVerif.Gen.Effects
import OpfVerif.Gen.PersistText
namespace Opf

/-- equal forest state ⇒ equal predictions and relevance marks, for every batch. -/
theorem c19_state_determines_predict (f g : Forest) (h : f = g) (ds : List (Nat → Int)) :
    predictBatch f ds = predictBatch g ds := by rw [h]

/-- equal clustering state ⇒ equal neighbour selection and arg-max in KNN/unsupervised prediction. -/
theorem c19_state_determines_knn (k n : Nat) (top negTop : Int) (cost cost' : Nat → Int) (hc : cost = cost')
    (density : Int) (dist : Nat → Int) :
    knnArgmax negTop cost density (validSlots k top (queryNeighbours k n top dist)) =
    knnArgmax negTop cost' density (validSlots k top (queryNeighbours k n top dist)) := by rw [hc]

/-- `load` writes the receiver exactly once, through `self.__dict__.update`. -/
theorem c19_load_replaces :
    (Gen.stores.filter (fun s => s.1 == "opfython/core/opf.py:OPF.load")).map (fun s => (s.2.1, s.2.2.1)) =
      [("self", "self.__dict__.update")] := by decide

/-- `save` writes nothing (neither the receiver nor anything else). -/
theorem c19_save_readonly :
    (Gen.stores.filter (fun s => s.1 == "opfython/core/opf.py:OPF.save")) = [] := by decide

/-- `save` as written: the whole object, and nothing else, goes through `pickle.dump` into the file named by the caller
(opened for writing in binary mode; no directory handling, no copy of the object, no post-processing). -/
theorem c19_save_body : Gen.PersistText.save_body =
    "(self, file_name)\nwith open(file_name, 'wb') as dest_file:\n    pickle.dump(self, dest_file)" := by decide +kernel

/-- `load` as written: one `pickle.load` of the named file and one `__dict__.update` with everything the loaded object
carries — no attribute is re-derived, filtered or defaulted afterwards. -/
theorem c19_load_body : Gen.PersistText.load_body =
    "(self, file_name)\nwith open(file_name, 'rb') as origin_file:\n    opf = pickle.load(origin_file)\n    self.__dict__.update(opf.__dict__)" := by
  decide +kernel

/-- no class of the package customises pickling or copying (`__getstate__`, `__setstate__`, `__reduce__`, …): what is
saved is the object's `__dict__` as Python's default protocol takes it. -/
theorem c19_no_pickle_hooks : Gen.PersistText.pickle_hooks = [] := by decide

/-- no class of the package defines a data attribute at class level (nor `__slots__`): every attribute an instance has was
assigned through `self` and therefore lives in its `__dict__` — the only thing `save` pickles and `load` copies
(`c19_save_body`, `c19_load_body`).  A setting kept as a class-level default would silently stay behind in the receiving object. -/
theorem c19_state_in_dict : Gen.PersistText.class_data_attrs = [] := by decide

/-- every path through a model's `__init__` creates the SAME instance attributes: whichever way the saved model and the receiving model
were constructed (with or without a pre-computed distance file), the saved `__dict__` has every key the receiver's has, so
`__dict__.update` overwrites all of the receiver's own settings and none of them survives into the loaded model. -/
theorem c19_init_paths_same_attrs :
    ∀ e ∈ Gen.PersistText.init_branches, e.2.1 = e.2.2 := by decide

/-- non-vacuity: the branch on `pre_computed_distance` in `OPF.__init__` is among them, and both sides set the flag and the matrix. -/
theorem c19_init_branch_opf :
    ∃ e ∈ Gen.PersistText.init_branches, e.2.1 = ["pre_computed_distance", "pre_distances"] ∧ e.2.2 = ["pre_computed_distance", "pre_distances"] := by
  decide

end Opf
