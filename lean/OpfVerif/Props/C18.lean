/-
C18 — splitting, merging, parsing and converting (model section L9, `OpfVerif/Model/Stream.lean`;
Python: `opfython/stream/splitter.py`, `stream/parser.py`, `utils/converter.py`).

(a) `split` / `split_with_index` / `merge`
    `c18_split_sizes`      the two index sets have `halt` and `n - halt` elements;
    `c18_split_partition`  together they are a permutation of `0..n-1`, each without repetition and
                           disjoint; `c18_split_exactly_one`: every sample index lies in exactly one;
    `c18_split_own`        every output sample carries its own row, label and original index
                           (`c18_split_own_get`: elementwise form);
    `c18_split_fun`        the result is a function of `(X, Y, perm, halt)`;
    `c18_merge_inv`        merging the two parts gives back the original (row, label) pairs up to order.
(b) `parse_loader`
    `c18_parse_accepts_iff` labels accepted iff the SET of labels is exactly `{0,…,K-1}` for some `K`;
    `c18_parse_cols`, `c18_parse_rejects_negative`, `c18_parse_rejects_gap`.
(c) OPF binary format
    `c18_decode_encode`    decoding an encoded file returns identifiers, 0-based labels and the
                           float32 bit patterns exactly.
-/
import OpfVerif.Model.Stream
import Mathlib.Data.List.Perm.Basic
import Mathlib.Data.List.Range
import Mathlib.Data.List.Sort
namespace Opf

/-! ## (a) split / merge -/

theorem perm_range_length {perm : List Nat} {n : Nat} (hp : perm.Perm (List.range n)) :
    perm.length = n := by
  rw [hp.length_eq, List.length_range]

theorem c18_split_sizes (perm : List Nat) (n halt : Nat) (hp : perm.Perm (List.range n))
    (hh : halt ≤ n) :
    (splitIdx perm halt).1.length = halt ∧ (splitIdx perm halt).2.length = n - halt := by
  have hl := perm_range_length hp
  simp only [splitIdx, List.length_take, List.length_drop, hl]
  exact ⟨by omega, trivial⟩

theorem splitIdx_append (perm : List Nat) (halt : Nat) :
    (splitIdx perm halt).1 ++ (splitIdx perm halt).2 = perm := by
  simp [splitIdx]

/-- the two index lists together are a permutation of `0..n-1`; each has no repetition and no index
occurs in both. (`halt ≤ n` is not needed.) -/
theorem c18_split_partition (perm : List Nat) (n halt : Nat) (hp : perm.Perm (List.range n)) :
    ((splitIdx perm halt).1 ++ (splitIdx perm halt).2).Perm (List.range n) ∧
    (splitIdx perm halt).1.Nodup ∧ (splitIdx perm halt).2.Nodup ∧
    (∀ i, i ∈ (splitIdx perm halt).1 → i ∉ (splitIdx perm halt).2) := by
  have hnd : ((splitIdx perm halt).1 ++ (splitIdx perm halt).2).Nodup := by
    rw [splitIdx_append]; exact (List.Perm.nodup_iff hp).2 List.nodup_range
  rw [List.nodup_append] at hnd
  refine ⟨by rw [splitIdx_append]; exact hp, hnd.1, hnd.2.1, ?_⟩
  intro i h1 h2
  exact hnd.2.2 i h1 i h2 rfl

/-- every sample index `< n` occurs in exactly one of the two sets, and nothing else occurs. -/
theorem c18_split_exactly_one (perm : List Nat) (n halt : Nat) (hp : perm.Perm (List.range n))
    (i : Nat) :
    (i < n ↔ (i ∈ (splitIdx perm halt).1 ∨ i ∈ (splitIdx perm halt).2)) ∧
    ¬ (i ∈ (splitIdx perm halt).1 ∧ i ∈ (splitIdx perm halt).2) := by
  obtain ⟨hperm, _, _, hdis⟩ := c18_split_partition perm n halt hp
  refine ⟨?_, fun h => hdis i h.1 h.2⟩
  rw [← List.mem_append, hperm.mem_iff, List.mem_range]

/-- each output sample is the row / label found at its original index, and the third component
is that index list. -/
theorem c18_split_own {β : Type} [Inhabited β] (X : List β) (Y : List Nat) (perm : List Nat)
    (halt : Nat) :
    let r := splitRun X Y perm halt
    r.1.2.2 = (splitIdx perm halt).1 ∧ r.2.2.2 = (splitIdx perm halt).2 ∧
    r.1.1 = r.1.2.2.map (X.getD · default) ∧ r.1.2.1 = r.1.2.2.map (Y.getD · default) ∧
    r.2.1 = r.2.2.2.map (X.getD · default) ∧ r.2.2.1 = r.2.2.2.map (Y.getD · default) ∧
    r.1.1.length = r.1.2.2.length ∧ r.1.2.1.length = r.1.2.2.length ∧
    r.2.1.length = r.2.2.2.length ∧ r.2.2.1.length = r.2.2.2.length := by
  simp [splitRun, gather]

/-- elementwise form, with genuine (bounds-checked) indexing on the originals: the `k`-th sample of
either output set is `X[I[k]]` with label `Y[I[k]]`. -/
theorem c18_split_own_get {β : Type} [Inhabited β] (X : List β) (Y : List Nat) (perm : List Nat)
    (n halt : Nat) (hp : perm.Perm (List.range n)) (hX : X.length = n) (hY : Y.length = n) :
    let r := splitRun X Y perm halt
    (∀ k, k < r.1.2.2.length → ∃ i, r.1.2.2[k]? = some i ∧ i < n ∧
        r.1.1[k]? = X[i]? ∧ r.1.2.1[k]? = Y[i]? ∧ X[i]?.isSome ∧ Y[i]?.isSome) ∧
    (∀ k, k < r.2.2.2.length → ∃ i, r.2.2.2[k]? = some i ∧ i < n ∧
        r.2.1[k]? = X[i]? ∧ r.2.2.1[k]? = Y[i]? ∧ X[i]?.isSome ∧ Y[i]?.isSome) := by
  have key : ∀ I : List Nat, (∀ i ∈ I, i ∈ perm) → ∀ k, k < I.length → ∃ i, I[k]? = some i ∧ i < n ∧
      (gather X I)[k]? = X[i]? ∧ (gather Y I)[k]? = Y[i]? ∧ X[i]?.isSome ∧ Y[i]?.isSome := by
    intro I hI k hk
    have hin : I[k] < n := by
      have := hp.mem_iff.1 (hI _ (List.getElem_mem hk)); simpa using this
    refine ⟨I[k], List.getElem?_eq_getElem hk, hin, ?_, ?_, ?_, ?_⟩
    · simp [gather, List.getElem?_eq_getElem hk, List.getD_eq_getElem?_getD,
        List.getElem?_eq_getElem (hX ▸ hin : I[k] < X.length)]
    · simp [gather, List.getElem?_eq_getElem hk, List.getD_eq_getElem?_getD,
        List.getElem?_eq_getElem (hY ▸ hin : I[k] < Y.length)]
    · simp [hX, hin]
    · simp [hY, hin]
  exact ⟨key _ (fun i hi => List.mem_of_mem_take hi), key _ (fun i hi => List.mem_of_mem_drop hi)⟩

/-- the result is determined by `(X, Y, perm, halt)` (no hidden state). -/
theorem c18_split_fun {β : Type} [Inhabited β] (X X' : List β) (Y Y' : List Nat) (perm perm' : List Nat)
    (halt halt' : Nat) (hX : X = X') (hY : Y = Y') (hp : perm = perm') (hh : halt = halt') :
    splitRun X Y perm halt = splitRun X' Y' perm' halt' := by
  subst hX hY hp hh; rfl

theorem range_map_getD_zip {β : Type} [Inhabited β] (X : List β) (Y : List Nat) (n : Nat)
    (hX : X.length = n) (hY : Y.length = n) :
    (List.range n).map (fun i => (X.getD i default, Y.getD i default)) = X.zip Y := by
  apply List.ext_getElem
  · simp [hX, hY]
  · intro k h1 h2
    have hk : k < n := by simpa using h1
    simp [List.getD_eq_getElem?_getD, List.getElem?_eq_getElem (hX ▸ hk : k < X.length),
      List.getElem?_eq_getElem (hY ▸ hk : k < Y.length)]

/-- what `merge` produces after `split`: the samples listed in the order of the permutation. -/
theorem merge_split_eq {β : Type} [Inhabited β] (X : List β) (Y : List Nat) (perm : List Nat)
    (halt : Nat) :
    let r := splitRun X Y perm halt
    let m := mergeRun r.1.1 r.2.1 r.1.2.1 r.2.2.1
    m.1.zip m.2 = perm.map (fun i => (X.getD i default, Y.getD i default)) := by
  simp only [splitRun, mergeRun, gather, splitIdx, ← List.map_append, List.take_append_drop]
  rw [List.zip_map']

/-- split followed by merge gives back the original samples (row paired with its label) up to order.
(`halt ≤ n` is not needed.) -/
theorem c18_merge_inv {β : Type} [Inhabited β] (X : List β) (Y : List Nat) (perm : List Nat)
    (n halt : Nat) (hp : perm.Perm (List.range n)) (hX : X.length = n) (hY : Y.length = n) :
    let r := splitRun X Y perm halt
    let m := mergeRun r.1.1 r.2.1 r.1.2.1 r.2.2.1
    (m.1.zip m.2).Perm (X.zip Y) := by
  intro r m
  show (m.1.zip m.2).Perm (X.zip Y)
  rw [show m.1.zip m.2 = _ from merge_split_eq X Y perm halt, ← range_map_getD_zip X Y n hX hY]
  exact hp.map _

/-! ## (b) parse_loader -/

/-- the order-preserving de-duplication inside `uniqueSorted`. -/
def dedupFold (l : List Int) : List Int :=
  l.foldl (fun acc v => if acc.contains v then acc else acc ++ [v]) []

theorem dedupFold_aux (l : List Int) : ∀ acc : List Int, acc.Nodup →
    (l.foldl (fun acc v => if acc.contains v then acc else acc ++ [v]) acc).Nodup ∧
    ∀ v, v ∈ l.foldl (fun acc v => if acc.contains v then acc else acc ++ [v]) acc ↔ (v ∈ acc ∨ v ∈ l) := by
  induction l with
  | nil => intro acc h; simp [h]
  | cons a l ih =>
    intro acc h
    rw [List.foldl_cons]
    by_cases hc : acc.contains a = true
    · rw [if_pos hc]
      obtain ⟨h1, h2⟩ := ih acc h
      refine ⟨h1, fun v => ?_⟩
      rw [h2 v, List.mem_cons]
      have : a ∈ acc := by simpa using hc
      constructor
      · rintro (h | h)
        · exact Or.inl h
        · exact Or.inr (Or.inr h)
      · rintro (h | rfl | h)
        · exact Or.inl h
        · exact Or.inl this
        · exact Or.inr h
    · rw [if_neg hc]
      have hna : a ∉ acc := by simpa using hc
      have hnd : (acc ++ [a]).Nodup := by
        rw [List.nodup_append]
        refine ⟨h, by simp, ?_⟩
        intro x hx y hy; simp at hy; subst hy; rintro rfl; exact hna hx
      obtain ⟨h1, h2⟩ := ih (acc ++ [a]) hnd
      refine ⟨h1, fun v => ?_⟩
      rw [h2 v]
      simp only [List.mem_append, List.mem_cons, List.not_mem_nil, or_false, or_assoc]

theorem dedupFold_nodup (l : List Int) : (dedupFold l).Nodup := (dedupFold_aux l [] List.nodup_nil).1

theorem mem_dedupFold (l : List Int) (v : Int) : v ∈ dedupFold l ↔ v ∈ l := by
  rw [dedupFold, (dedupFold_aux l [] List.nodup_nil).2 v]; simp

/-- `np.unique`: same elements as the input. -/
theorem mem_uniqueSorted (l : List Int) (v : Int) : v ∈ uniqueSorted l ↔ v ∈ l := by
  show v ∈ (dedupFold l).mergeSort _ ↔ _
  rw [List.mem_mergeSort, mem_dedupFold]

/-- `np.unique`: strictly increasing. -/
theorem uniqueSorted_sorted (l : List Int) : (uniqueSorted l).Pairwise (· < ·) := by
  have hle : ((dedupFold l).mergeSort (fun a b => decide (a ≤ b))).Pairwise
      (fun a b => decide (a ≤ b) = true) :=
    List.pairwise_mergeSort (le := fun a b : Int => decide (a ≤ b))
      (by intro a b c; simp only [decide_eq_true_eq]; omega)
      (by intro a b; simp only [Bool.or_eq_true, decide_eq_true_eq]; omega) _
  have hnd : ((dedupFold l).mergeSort (fun a b => decide (a ≤ b))).Nodup :=
    (List.Perm.nodup_iff (List.mergeSort_perm _ _)).2 (dedupFold_nodup l)
  show ((dedupFold l).mergeSort (fun a b => decide (a ≤ b))).Pairwise (· < ·)
  have := hle.and hnd
  refine this.imp ?_
  intro a b h
  simp only [decide_eq_true_eq] at h
  omega

theorem mem_range_map_ofNat (K : Nat) (v : Int) :
    v ∈ (List.range K).map Int.ofNat ↔ (0 ≤ v ∧ v < K) := by
  simp only [List.mem_map, List.mem_range]
  constructor
  · rintro ⟨a, ha, rfl⟩
    simp only [Int.ofNat_eq_natCast]; omega
  · rintro ⟨h0, hK⟩
    refine ⟨v.toNat, by omega, ?_⟩
    simp only [Int.ofNat_eq_natCast]; omega

theorem range_map_ofNat_sorted (K : Nat) : ((List.range K).map Int.ofNat).Pairwise (· < ·) := by
  rw [List.pairwise_map]
  refine List.pairwise_lt_range.imp ?_
  intro a b h
  simp only [Int.ofNat_eq_natCast]; omega

/-- a strictly increasing integer list equals `[0, …, m-1]` (`m` its length) iff its element set is
`{0, …, K-1}` for some `K`. -/
theorem sorted_eq_range_iff (s : List Int) (hs : s.Pairwise (· < ·)) :
    s = (List.range s.length).map Int.ofNat ↔ ∃ K : Nat, ∀ v : Int, v ∈ s ↔ (0 ≤ v ∧ v < K) := by
  constructor
  · intro h
    refine ⟨s.length, fun v => ?_⟩
    rw [← mem_range_map_ofNat, ← h]
  · rintro ⟨K, hK⟩
    have heq : s = (List.range K).map Int.ofNat :=
      hs.eq_of_mem_iff (range_map_ofNat_sorted K) (fun a => by rw [hK a, mem_range_map_ofNat])
    have hlen : s.length = K := by rw [heq]; simp
    rw [hlen]; exact heq

theorem parseAccept_iff_eq (labels : List Int) :
    parseAccept labels = true ↔
      uniqueSorted labels = (List.range (uniqueSorted labels).length).map Int.ofNat := by
  simp [parseAccept]

/-- the labels are accepted iff the set of labels is exactly `{0, …, K-1}` for some `K`
(`K = 0` for no labels at all). -/
theorem c18_parse_accepts_iff (labels : List Int) :
    parseAccept labels = true ↔ ∃ K : Nat, ∀ v : Int, v ∈ labels ↔ (0 ≤ v ∧ v < K) := by
  rw [parseAccept_iff_eq, sorted_eq_range_iff _ (uniqueSorted_sorted labels)]
  simp only [mem_uniqueSorted]

/-- on acceptance the number of classes is the number of distinct labels. -/
theorem c18_parse_accepts_classes (labels : List Int) (K : Nat)
    (hK : ∀ v : Int, v ∈ labels ↔ (0 ≤ v ∧ v < K)) : (uniqueSorted labels).length = K := by
  have heq : uniqueSorted labels = (List.range K).map Int.ofNat :=
    (uniqueSorted_sorted labels).eq_of_mem_iff (range_map_ofNat_sorted K)
      (fun a => by rw [mem_uniqueSorted, hK a, mem_range_map_ofNat])
  rw [heq]; simp

theorem c18_parse_cols {β : Type} [Inhabited β] (rows : List (List β)) :
    parseCols rows = (rows.map (·.drop 2), rows.map (·.getD 1 default)) := rfl

theorem c18_parse_rejects_negative (labels : List Int) (h : ∃ v ∈ labels, v < 0) :
    parseAccept labels = false := by
  rw [← Bool.not_eq_true, c18_parse_accepts_iff]
  rintro ⟨K, hK⟩
  obtain ⟨v, hv, hneg⟩ := h
  have := (hK v).1 hv
  omega

/-- a missing value below a present label is rejected. -/
theorem c18_parse_rejects_gap (labels : List Int) (g v : Int) (hg0 : 0 ≤ g) (hgv : g < v)
    (hv : v ∈ labels) (hg : g ∉ labels) : parseAccept labels = false := by
  rw [← Bool.not_eq_true, c18_parse_accepts_iff]
  rintro ⟨K, hK⟩
  have := (hK v).1 hv
  exact hg ((hK g).2 ⟨hg0, by omega⟩)

/-! ## (c) binary format -/

theorem umod256_getElem (x : BitVec 32) (i : Nat) (hi : i < 32) :
    (x % 256#32)[i] = (decide (i < 8) && x[i]) := by
  rw [← BitVec.getLsbD_eq_getElem, ← BitVec.getLsbD_eq_getElem, BitVec.getLsbD, BitVec.toNat_umod]
  show (x.toNat % 2 ^ 8).testBit i = _
  rw [Nat.testBit_mod_two_pow]
  rfl

/-- reading four little-endian bytes gives back the word. -/
theorem le32_enc32 (u : UInt32) (rest : List UInt8) : le32 (enc32 u ++ rest) = some (u, rest) := by
  simp only [enc32, le32, List.cons_append, List.nil_append]
  congr 2
  apply UInt32.eq_of_toBitVec_eq
  simp
  ext i hi
  simp [umod256_getElem]
  rw [← BitVec.getLsbD_eq_getElem]
  by_cases h1 : i < 8
  · have : i < 16 := by omega
    have : i < 24 := by omega
    simp [*]
  · have e1 : 8 + (i - 8) = i := by omega
    by_cases h2 : i < 16
    · have : i - 8 < 8 := by omega
      have : i < 24 := by omega
      simp [*]
    · have e2 : 16 + (i - 16) = i := by omega
      have : ¬ (i - 8 < 8) := by omega
      by_cases h3 : i < 24
      · have : i - 16 < 8 := by omega
        simp [*]
      · have e3 : 24 + (i - 24) = i := by omega
        have : ¬ (i - 16 < 8) := by omega
        have : i - 24 < 8 := by omega
        simp [*]

/-- two's complement round trip on the `int32` range. -/
theorem toInt32_ofInt32 (i : Int) (h : -2^31 ≤ i ∧ i < 2^31) : toInt32 (ofInt32 i) = i := by
  unfold toInt32 ofInt32
  have : (UInt32.ofNat (i % 4294967296).toNat).toNat = (i % 4294967296).toNat := by
    rw [UInt32.toNat_ofNat']
    omega
  rw [this]
  split <;> omega

theorem readWords_enc (ws : List UInt32) (rest : List UInt8) :
    readWords ws.length (ws.flatMap enc32 ++ rest) = some (ws, rest) := by
  induction ws with
  | nil => rfl
  | cons w ws ih =>
    rw [List.flatMap_cons, List.append_assoc, List.length_cons, readWords, le32_enc32]
    simp only [ih]

theorem readWords_enc' (k : Nat) (ws : List UInt32) (rest : List UInt8) (hk : ws.length = k) :
    readWords k (ws.flatMap enc32 ++ rest) = some (ws, rest) := by
  subst hk; exact readWords_enc ws rest

theorem readSamples_enc (d : Nat) (ss : List OpfSample) (rest : List UInt8)
    (hd : ∀ s ∈ ss, s.feats.length = d)
    (hid : ∀ s ∈ ss, -2^31 ≤ s.id ∧ s.id < 2^31)
    (hlab : ∀ s ∈ ss, -2^31 ≤ s.label + 1 ∧ s.label + 1 < 2^31) :
    readSamples d ss.length
      (ss.flatMap (fun s => enc32 (ofInt32 s.id) ++ enc32 (ofInt32 (s.label + 1)) ++
        s.feats.flatMap enc32) ++ rest) = some ss := by
  induction ss with
  | nil => rfl
  | cons s ss ih =>
    have hw : ∀ tail : List UInt8,
        readWords (2 + d) ((enc32 (ofInt32 s.id) ++ enc32 (ofInt32 (s.label + 1)) ++
          s.feats.flatMap enc32) ++ tail) =
        some (ofInt32 s.id :: ofInt32 (s.label + 1) :: s.feats, tail) := by
      intro tail
      have := readWords_enc' (2 + d) (ofInt32 s.id :: ofInt32 (s.label + 1) :: s.feats) tail
        (by simp [hd s (List.mem_cons_self)]; omega)
      simpa [List.flatMap_cons, List.append_assoc] using this
    rw [List.flatMap_cons, List.append_assoc, List.length_cons, readSamples, hw]
    simp only
    rw [ih (fun x hx => hd x (List.mem_cons_of_mem _ hx))
      (fun x hx => hid x (List.mem_cons_of_mem _ hx))
      (fun x hx => hlab x (List.mem_cons_of_mem _ hx))]
    simp only
    rw [toInt32_ofInt32 _ (hid s List.mem_cons_self), toInt32_ofInt32 _ (hlab s List.mem_cons_self)]
    congr 2
    cases s; simp

/-- decoding an encoded file recovers identifiers, labels (stored 1-based, returned 0-based) and
the float32 payload bit patterns exactly. (`hdd`/`hlen` only need `< 2^32`; the `int32` header of
the Python writer is what motivates `2^31`.) -/
theorem c18_decode_encode (nClasses d : Nat) (ss : List OpfSample)
    (hd : ∀ s ∈ ss, s.feats.length = d) (hlen : ss.length < 2^31) (hdd : d < 2^31)
    (hid : ∀ s ∈ ss, -2^31 ≤ s.id ∧ s.id < 2^31)
    (hlab : ∀ s ∈ ss, -2^31 ≤ s.label + 1 ∧ s.label + 1 < 2^31) :
    decodeOpf (encodeOpf nClasses d ss) = some ss := by
  have hh := readWords_enc' 3 [UInt32.ofNat ss.length, UInt32.ofNat nClasses, UInt32.ofNat d]
    (ss.flatMap (fun s => enc32 (ofInt32 s.id) ++ enc32 (ofInt32 (s.label + 1)) ++
        s.feats.flatMap enc32)) rfl
  simp only [List.flatMap_cons, List.flatMap_nil, List.append_nil, List.append_assoc] at hh
  unfold decodeOpf encodeOpf
  simp only [List.append_assoc]
  rw [hh]
  simp only
  have h1 : (UInt32.ofNat d).toNat = d := by rw [UInt32.toNat_ofNat']; omega
  have h2 : (UInt32.ofNat ss.length).toNat = ss.length := by rw [UInt32.toNat_ofNat']; omega
  rw [h1, h2]
  have := readSamples_enc d ss [] hd hid hlab
  simpa using this

/-! ## non-vacuity -/

example : splitRun ["a", "b", "c", "d"] [0, 1, 0, 1] [2, 0, 3, 1] 3 =
    ((["c", "a", "d"], [0, 0, 1], [2, 0, 3]), (["b"], [1], [1])) := by decide
example : mergeRun ["c", "a", "d"] ["b"] [0, 0, 1] [1] = (["c", "a", "d", "b"], [0, 0, 1, 1]) := by
  decide
example : ([2, 0, 3, 1] : List Nat).Perm (List.range 4) := by decide
example : parseAccept [1, 0, 2, 1, 0] = true :=
  (c18_parse_accepts_iff _).2 ⟨3, fun v => by simp; omega⟩
example : parseAccept [] = true := (c18_parse_accepts_iff _).2 ⟨0, fun v => by simp⟩
example : parseAccept [1, 2, 3] = false :=
  c18_parse_rejects_gap _ 0 1 (by decide) (by decide) (by decide) (by decide)
example : parseAccept [0, 2] = false :=
  c18_parse_rejects_gap _ 1 2 (by decide) (by decide) (by decide) (by decide)
example : parseAccept [0, -1, 1] = false := c18_parse_rejects_negative _ ⟨-1, by decide, by decide⟩
example : uniqueSorted [3, 1, 3, 0, 1] = [0, 1, 3] :=
  (uniqueSorted_sorted _).eq_of_mem_iff (by decide) (fun v => by rw [mem_uniqueSorted]; simp; omega)
example : parseCols [[7, 1, 10, 11], [8, 0, 20, 21]] = ([[10, 11], [20, 21]], [1, 0]) := by decide
example : enc32 0x01020304 = [4, 3, 2, 1] := by decide
example : toInt32 (ofInt32 (-5)) = -5 := by decide
example : decodeOpf (encodeOpf 2 2 [⟨0, 1, [0x3F800000, 0]⟩, ⟨-7, 0, [1, 2]⟩]) =
    some [⟨0, 1, [0x3F800000, 0]⟩, ⟨-7, 0, [1, 2]⟩] := by decide
example : decodeOpf [1, 0, 0] = none := by decide

end Opf
