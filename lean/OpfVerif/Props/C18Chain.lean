/-
C18 — the chain binary file → converter → (text file) → `parse_loader`, composed on the TRANSLATED code: for a well-formed OPF
file whose 1-based labels cover `1..K`, the rows the translated `opf2txt` / `opf2csv` decode (and `load_json ∘ opf2json` rebuild),
handed to the translated `parse_loader`, give back the float32 payload of every sample (bit patterns, in order) as features and
`label − 1` as labels; a file whose labels leave a gap is rejected by `parse_loader`.
The rows cross from `Gen/ConvImp` (ints and binary32 patterns) to `Gen/ParseImp` (a matrix of numbers) through `encS`: identifiers and
labels as themselves, a binary32 value as its bit pattern — legitimate because `parse_loader` only MOVES the feature columns
(`c18_gen_parse_returns`) and binary32 → text → binary64 is injective on non-NaN values; that crossing (`np.savetxt` → `np.loadtxt`,
`json.dump` → `json.load`) is the library round trip sampled by the `stream` correspondence (DESIGN §6).
-/
import OpfVerif.Lemmas.C18ChainLemmas
namespace Opf.C18Chain
open Opf Opf.Gen Opf.ConvRefine Opf.ParseRefine

/-! `encS` (a decoded value as the number `parse_loader` sees: ints as themselves, a binary32 value as its bit pattern) and
`asMatrix` (the rows a converter wrote, as the matrix a loader hands to `parse_loader`) are defined in
`Lemmas/C18ChainLemmas.lean`. -/

theorem c18_gen_chain (nClasses d : Nat) (ss : List OpfSample)
    (hd : ∀ s ∈ ss, s.feats.length = d) (hlen : ss.length < 2^31) (hdd : d < 2^31)
    (hid : ∀ s ∈ ss, -2^31 ≤ s.id ∧ s.id < 2^31)
    (hlab : ∀ s ∈ ss, -2^31 ≤ s.label + 1 ∧ s.label + 1 < 2^31)
    (hK : ∃ K : Nat, ∀ v : Int, v ∈ ss.map (·.label) ↔ (0 ≤ v ∧ v < K)) :
    (ConvImp.opf2txt (encodeOpf nClasses d ss)).bind (fun rows => ParseImp.parse_loader (asMatrix rows)) =
      some ((ss.map (fun s => (s.feats.map (fun b => (b.toNat : Int))).toArray)).toArray, (ss.map (·.label)).toArray) := by
  rw [(c18_gen_conv_roundtrip nClasses d ss hd hlen hdd hid hlab).1, Option.bind_some]
  exact parse_rows_accept ss hK

/-- the same through `.csv` and through `.json` (`opf2json` then `load_json`). -/
theorem c18_gen_chain_csv_json (nClasses d : Nat) (ss : List OpfSample)
    (hd : ∀ s ∈ ss, s.feats.length = d) (hlen : ss.length < 2^31) (hdd : d < 2^31)
    (hid : ∀ s ∈ ss, -2^31 ≤ s.id ∧ s.id < 2^31)
    (hlab : ∀ s ∈ ss, -2^31 ≤ s.label + 1 ∧ s.label + 1 < 2^31)
    (hK : ∃ K : Nat, ∀ v : Int, v ∈ ss.map (·.label) ↔ (0 ≤ v ∧ v < K)) :
    (ConvImp.opf2csv (encodeOpf nClasses d ss)).bind (fun rows => ParseImp.parse_loader (asMatrix rows)) =
      some ((ss.map (fun s => (s.feats.map (fun b => (b.toNat : Int))).toArray)).toArray, (ss.map (·.label)).toArray) ∧
    (((ConvImp.opf2json (encodeOpf nClasses d ss)).bind ConvImp.load_json).bind
        (fun rows => ParseImp.parse_loader (asMatrix rows))) =
      some ((ss.map (fun s => (s.feats.map (fun b => (b.toNat : Int))).toArray)).toArray, (ss.map (·.label)).toArray) := by
  obtain ⟨_, hcsv, hjson⟩ := c18_gen_conv_roundtrip nClasses d ss hd hlen hdd hid hlab
  rw [hcsv, hjson, Option.bind_some]
  exact ⟨parse_rows_accept ss hK, parse_rows_accept ss hK⟩

/-- labels that are not `{0,…,K-1}` after the shift are rejected, whatever the format. -/
theorem c18_gen_chain_rejects (nClasses d : Nat) (ss : List OpfSample)
    (hd : ∀ s ∈ ss, s.feats.length = d) (hlen : ss.length < 2^31) (hdd : d < 2^31)
    (hid : ∀ s ∈ ss, -2^31 ≤ s.id ∧ s.id < 2^31)
    (hlab : ∀ s ∈ ss, -2^31 ≤ s.label + 1 ∧ s.label + 1 < 2^31)
    (hK : ¬ ∃ K : Nat, ∀ v : Int, v ∈ ss.map (·.label) ↔ (0 ≤ v ∧ v < K)) :
    (ConvImp.opf2txt (encodeOpf nClasses d ss)).bind (fun rows => ParseImp.parse_loader (asMatrix rows)) = none := by
  rw [(c18_gen_conv_roundtrip nClasses d ss hd hlen hdd hid hlab).1, Option.bind_some]
  exact parse_rows_reject ss hK

/-! non-vacuity: a three-sample, two-class file through the whole translated chain -/
example :
    (ConvImp.opf2txt (encodeOpf 2 2 [⟨5, 1, [0x3f800000, 0xbf800000]⟩, ⟨16777217, 0, [0x7f800000, 1]⟩, ⟨-3, 1, [0, 0]⟩])).bind
      (fun rows => ParseImp.parse_loader (asMatrix rows)) =
    some (#[#[0x3f800000, 0xbf800000], #[0x7f800000, 1], #[0, 0]], #[1, 0, 1]) := by decide +kernel

end Opf.C18Chain
