/-
C03 (end to end) — prediction with the executable fitted model: for every data set satisfying
`FitHyp` (≥ 2 classes among the labeled samples, symmetric weights on them, `0 ≤ w < top`), supervised or
semi-supervised, and every query distance vector `d`, the scan on the forest produced by `fitRun` succeeds
and returns the assigned label of a training sample that minimises `max (cost t) (d t)` over ALL `n` samples.
Composition of `c15_all_conquered` (the conquest order of the executable fit is a cost-sorted
permutation of all samples) with `c03_label_exhaustive`.
-/
import OpfVerif.Props.C03
import OpfVerif.Props.C15
namespace Opf

theorem c03_fit_predict (w : Nat → Nat → Int) (top : Int) (nLab : Nat) (lab : Array Nat)
    (H : FitHyp w top nLab lab) (semi : Bool) (d : Nat → Int) :
    ∃ r, predictOne (fitRun w top semi nLab lab).f d = some r ∧
      ∃ t, t < lab.size ∧ r.label = (fitRun w top semi nLab lab).f.plabelOf t ∧
        ∀ s, s < lab.size →
          max ((fitRun w top semi nLab lab).f.costOf t) (d t) ≤ max ((fitRun w top semi nLab lab).f.costOf s) (d s) := by
  obtain ⟨_, _, hmem, hsize, hsorted⟩ := c15_all_conquered H semi
  have hsort : OrderSorted (fitRun w top semi nLab lab).f := hsorted
  -- the order is not empty: it contains node 0 (nLab > 0)
  have h0 : 0 ∈ (fitRun w top semi nLab lab).f.order.toList := (hmem 0).2 (Nat.lt_of_lt_of_le H.nLab_pos H.nLab_le)
  have hne : predictOne (fitRun w top semi nLab lab).f d ≠ none := by
    intro hnone
    have := (c03_none_iff _ d).1 hnone
    rw [this] at h0
    exact absurd h0 (by simp)
  obtain ⟨r, hr⟩ := Option.ne_none_iff_exists'.1 hne
  refine ⟨r, hr, ?_⟩
  -- `Forest.n` of the fitted forest: every node below it is in the order
  have hall : ∀ t, t < (fitRun w top semi nLab lab).f.n → t ∈ (fitRun w top semi nLab lab).f.order.toList := by
    intro t ht
    have hn : (fitRun w top semi nLab lab).f.n = lab.size := (c15_lawful H semi).choose_spec.2.2.2.2.2.2
    exact (hmem t).2 (hn ▸ ht)
  obtain ⟨t, htmem, hlab, hmin⟩ := c03_label_exhaustive _ d hsort hall r hr
  have hn : (fitRun w top semi nLab lab).f.n = lab.size := (c15_lawful H semi).choose_spec.2.2.2.2.2.2
  exact ⟨t, (hmem t).1 htmem, hlab, fun s hs => hmin s (hn ▸ hs)⟩

end Opf
