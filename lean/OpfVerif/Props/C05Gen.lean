/-
C05 — END TO END for the translated code, the part `Props/C05Refine.lean` does not state: the
statement-by-statement translation of `opfython/core/heap.py` (`Gen/HeapImp.lean`) reports emptiness
and fullness truthfully, and its failing operations change nothing.

Composition of `Props/C05Refine.lean` (`c05_gen_run`: every legal history runs on the translated
object and ends related, by `Rel`, to the model's final state) with `Props/C05.lean`
(`c05_truthful`, `c05_reachable_inv`, `c05_insert_full`, `c05_remove_empty`).  Every theorem speaks
about the translated `Obj.is_empty` / `Obj.is_full` / `Obj.insert` / `Obj.remove` and the fields of
the translated object (`color`, `last`, `size`); "queued" is read off the object's own `color` list
(`Py.idx g.color p = some 1`, GRAY).  Already in `C05Refine.lean` and NOT restated: the per-operation
refinements, `c05_gen_run`, `c05_gen_exactly_once`, `c05_gen_remove_extremal`.

Hypotheses: for the history theorems only the inputs `size > 0`, the policy, `top` and a history
within C05's contract (`LegalRun`, as in `c05_gen_run`); for the single-state theorems an object `g`
standing for a well-formed model heap (`Rel g h`, `Inv h`), or — for the two failure theorems — just
the object's own `last`/`size` fields.
Property theorems only.
-/
import OpfVerif.Props.C05
import OpfVerif.Props.C05Refine
namespace Opf.HeapRefine
open Opf Opf.Heap Opf.Gen.HeapImp

/-- the translated `is_empty` never raises and returns the model's answer. -/
theorem c05_gen_is_empty (g : Obj) (h : Heap) (hr : Rel g h) : Obj.is_empty g = some h.isEmpty := by
  have hl := hr.last
  unfold Obj.is_empty Heap.isEmpty
  by_cases hc : h.cnt = 0
  · have : g.last = -1 := by omega
    simp [this, hc]
  · have : ¬ g.last = -1 := by omega
    simp [this, hc]

/-- the translated `is_full` never raises and returns the model's answer. -/
theorem c05_gen_is_full (g : Obj) (h : Heap) (hr : Rel g h) : Obj.is_full g = some h.isFull := by
  have hl := hr.last
  have hs := hr.size
  unfold Obj.is_full Heap.isFull
  by_cases hc : h.cnt = h.size
  · have : g.last = g.size - 1 := by omega
    simp [this, hc]
  · have : ¬ g.last = g.size - 1 := by omega
    simp [this, hc]

/-- **Truthful, one state.** On a translated object standing for a well-formed heap, `is_empty`
answers `True` exactly when NO identifier `0 ≤ p < size` is GRAY (queued) in the object's own
`color` list, and `is_full` answers `True` exactly when EVERY identifier is. -/
theorem c05_gen_truthful_state (g : Obj) (h : Heap) (hr : Rel g h) (hinv : Inv h) :
    ∃ be bf, Obj.is_empty g = some be ∧ Obj.is_full g = some bf ∧
      (be = true ↔ ∀ p : Int, 0 ≤ p → p < g.size → Py.idx g.color p ≠ some 1) ∧
      (bf = true ↔ ∀ p : Int, 0 ≤ p → p < g.size → Py.idx g.color p = some 1) := by
  obtain ⟨t1, t2⟩ := c05_truthful h hinv
  have hcol : ∀ x, x < h.size → (Py.idx g.color (x : Int) = some 1 ↔ Queued h x) := by
    intro x hx
    rw [hr.idx_color hx]
    unfold Queued
    constructor
    · intro e
      have := Option.some.inj e
      exact ⟨hx, by show h.colorOf x = 1; omega⟩
    · rintro ⟨_, e⟩
      rw [e]; rfl
  have hs := hr.size
  refine ⟨_, _, c05_gen_is_empty g h hr, c05_gen_is_full g h hr, ?_, ?_⟩
  · rw [t1]
    constructor
    · intro hq p h0 h1
      obtain ⟨x, rfl⟩ := Int.eq_ofNat_of_zero_le h0
      have hx : x < h.size := by omega
      rw [Ne, hcol x hx]
      exact hq x
    · intro hq x hx
      have hxs : x < h.size := hx.1
      exact (hq (x : Int) (by omega) (by omega)) ((hcol x hxs).2 hx)
  · rw [t2]
    constructor
    · intro hq p h0 h1
      obtain ⟨x, rfl⟩ := Int.eq_ofNat_of_zero_le h0
      have hx : x < h.size := by omega
      exact (hcol x hx).2 (hq x hx)
    · intro hq x hx
      exact (hcol x hx).1 (hq (x : Int) (by omega) (by omega))

/-- **Truthful after every legal history.** Construct the translated heap, run ANY history within
C05's contract on it: the run raises nothing, and afterwards the translated `is_empty` / `is_full`
answer truthfully about the translated object's own `color` list — empty iff no identifier in
`0 … size-1` is queued (GRAY), full iff all of them are. -/
theorem c05_gen_truthful (size : Nat) (hs : 0 < size) (isMax : Bool) (top : Int) (ops : List Op)
    (hl : LegalRun (Heap.init size isMax top) ops) :
    ∃ g g' outs be bf, Obj.init (size : Int) (polOf isMax) top = some g ∧
      grun g ops = some (g', outs) ∧ g'.size = (size : Int) ∧
      Obj.is_empty g' = some be ∧ Obj.is_full g' = some bf ∧
      (be = true ↔ ∀ p : Int, 0 ≤ p → p < (size : Int) → Py.idx g'.color p ≠ some 1) ∧
      (bf = true ↔ ∀ p : Int, 0 ≤ p → p < (size : Int) → Py.idx g'.color p = some 1) := by
  obtain ⟨g, g', e, e', r'⟩ := c05_gen_run size hs isMax top ops hl
  have hinv := c05_reachable_inv size isMax top ops hl
  have hsz : (run (Heap.init size isMax top) ops).1.size = size :=
    (run_colors _ ops (inv_init size isMax top) hl).1
  obtain ⟨be, bf, h1, h2, h3, h4⟩ := c05_gen_truthful_state g' _ r' hinv
  have hgs : g'.size = (size : Int) := by rw [r'.size, hsz]
  rw [hgs] at h3 h4
  exact ⟨g, g', _, be, bf, e, e', hgs, h1, h2, h3, h4⟩

/-- **Failed insert, on the object alone.** On ANY translated object whose `last` is `size - 1`
(what `is_full` tests) `insert(p)` — for any `p`, in range or not — raises nothing, returns `False`
and the object itself, field for field. -/
theorem c05_gen_insert_full_obj (g : Obj) (p : Int) (hfull : g.last = g.size - 1) :
    Obj.insert g p = some (g, false) := by
  unfold Obj.insert Obj.is_full
  simp [hfull]

/-- **Failed remove, on the object alone.** On ANY translated object whose `last` is `-1` (what
`is_empty` tests) `remove()` raises nothing, returns `False` and the object itself. -/
theorem c05_gen_remove_empty_obj (g : Obj) (hempty : g.last = -1) :
    Obj.remove g = some (g, Sum.inr false) := by
  unfold Obj.remove Obj.is_empty
  simp [hempty]

/-- what a `True` from the translated `is_full` means for the object's fields. -/
theorem c05_gen_is_full_true (g : Obj) (h : Obj.is_full g = some true) : g.last = g.size - 1 := by
  unfold Obj.is_full at h
  by_cases hc : g.last = g.size - 1
  · exact hc
  · simp [hc] at h

/-- what a `True` from the translated `is_empty` means for the object's fields. -/
theorem c05_gen_is_empty_true (g : Obj) (h : Obj.is_empty g = some true) : g.last = -1 := by
  unfold Obj.is_empty at h
  by_cases hc : g.last = -1
  · exact hc
  · simp [hc] at h

/-- **`c05_insert_full` transferred.** If the translated object stands for a FULL model heap, the
translated `insert` returns `False` and the object unchanged — exactly as the model's `insert`
returns `(h, false)` — so the two are still related. -/
theorem c05_gen_insert_full (g : Obj) (h : Heap) (hr : Rel g h) (hfull : h.cnt = h.size) (x : Nat) :
    Obj.insert g (x : Int) = some (g, (h.insert x).2) ∧ (h.insert x).1 = h ∧ (h.insert x).2 = false ∧
      Rel g (h.insert x).1 := by
  have hm := c05_insert_full h x hfull
  have hl := hr.last
  have hs := hr.size
  rw [hm]
  exact ⟨c05_gen_insert_full_obj g x (by omega), rfl, rfl, hr⟩

/-- **`c05_remove_empty` transferred.** If the translated object stands for an EMPTY model heap, the
translated `remove` returns `False` and the object unchanged, as the model's returns `(h, none)`. -/
theorem c05_gen_remove_empty (g : Obj) (h : Heap) (hr : Rel g h) (hempty : h.cnt = 0) :
    Obj.remove g = some (g, retOf (h.remove).2) ∧ (h.remove).1 = h ∧ (h.remove).2 = none ∧
      Rel g (h.remove).1 := by
  have hm := c05_remove_empty h hempty
  have hl := hr.last
  rw [hm]
  exact ⟨c05_gen_remove_empty_obj g (by omega), rfl, rfl, hr⟩

/-- **Failures after every legal history.** After ANY history within the contract: if the translated
`is_full` answers `True`, every identifier is queued and `insert(p)` (any `p`) returns `False`
leaving the object unchanged; if the translated `is_empty` answers `True`, no identifier is queued
and `remove()` returns `False` leaving the object unchanged. -/
theorem c05_gen_failures (size : Nat) (hs : 0 < size) (isMax : Bool) (top : Int) (ops : List Op)
    (hl : LegalRun (Heap.init size isMax top) ops) :
    ∃ g g' outs, Obj.init (size : Int) (polOf isMax) top = some g ∧ grun g ops = some (g', outs) ∧
      (Obj.is_full g' = some true →
        (∀ p : Int, 0 ≤ p → p < (size : Int) → Py.idx g'.color p = some 1) ∧
        ∀ p : Int, Obj.insert g' p = some (g', false)) ∧
      (Obj.is_empty g' = some true →
        (∀ p : Int, 0 ≤ p → p < (size : Int) → Py.idx g'.color p ≠ some 1) ∧
        Obj.remove g' = some (g', Sum.inr false)) := by
  obtain ⟨g, g', outs, be, bf, e, e', _, h1, h2, h3, h4⟩ := c05_gen_truthful size hs isMax top ops hl
  refine ⟨g, g', outs, e, e', ?_, ?_⟩
  · intro hf
    have hlast := c05_gen_is_full_true g' hf
    rw [h2] at hf
    have hb : bf = true := Option.some.inj hf
    exact ⟨h4.1 hb, fun p => c05_gen_insert_full_obj g' p hlast⟩
  · intro hf
    have hlast := c05_gen_is_empty_true g' hf
    rw [h1] at hf
    have hb : be = true := Option.some.inj hf
    exact ⟨h3.1 hb, c05_gen_remove_empty_obj g' hlast⟩

/-- non-vacuity: after filling a capacity-2 heap (a history within the contract; the model side is
evaluated by `decide +kernel`, the translated side follows from `c05_gen_failures`) the translated
`is_full` does answer `True`, so a further `insert` returns the object unchanged. -/
example : ∃ g g' outs, Obj.init 2 "min" 100 = some g ∧
    grun g [Op.ins 1 5, .ins 0 5] = some (g', outs) ∧ Obj.is_full g' = some true ∧
    ∀ p : Int, Obj.insert g' p = some (g', false) := by
  have hl : LegalRun (Heap.init 2 false 100) [Op.ins 1 5, .ins 0 5] := by decide +kernel
  obtain ⟨g, g', e, e', r'⟩ := c05_gen_run 2 (by decide) false 100 _ hl
  have hfull : (run (Heap.init 2 false 100) [Op.ins 1 5, .ins 0 5]).1.isFull = true := by
    decide +kernel
  have hf : Obj.is_full g' = some true := by rw [c05_gen_is_full g' _ r', hfull]
  exact ⟨g, g', _, e, e', hf, fun p => c05_gen_insert_full_obj g' p (c05_gen_is_full_true g' hf)⟩

end Opf.HeapRefine
