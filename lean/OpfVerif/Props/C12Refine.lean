/-
C12 — refinement: the STATEMENT-BY-STATEMENT TRANSLATION of `KNNSubgraph.create_arcs` and
`Subgraph.destroy_arcs` (`Gen/ArcsImp.lean`, regenerated from the source on every run by
`tools/translate_fn.py`) refines the executable models `createArcs` / `destroyArcs` about which
`Props/C12Arcs.lean` speaks: the two parallel numpy buffers (`distances`, `neighbours_idx` — the
latter is NOT reset between nodes, stale entries are never read), the insertion scan with its
`while` bubble, the descending slot loop updating radius / per-rank maxima / running density bound
/ adjacency, and the final `< 0.00001 → 1` fallback.  For every subgraph (fresh or re-used),
every `k ≥ 0` (also `k > n-1`) and every weight function (weights equal to `FLOAT_MAX` included)
the translated code raises nothing, terminates, returns the model's `max_distances` and leaves the
model's state.  Property theorems only; helper lemmas live in `Lemmas/ArcsRefine.lean`.
-/
import OpfVerif.Lemmas.ArcsRefine
namespace Opf.ArcsRefine
open Opf Opf.Gen Opf.Gen.ArcsImp

theorem c12_gen_create_arcs (W : Int → Int → Option Int) (w : Nat → Nat → Int) (top tiny one : Int)
    (sg : ASG) (g : KnnSub) (k : Nat) (hr : RelA sg g) (hW : WAgree g.n W w) :
    ∃ sg' md, create_arcs W top tiny one sg (k : Int) = some (sg', md) ∧
      RelA sg' (createArcs w top tiny one k g).1 ∧ md = (createArcs w top tiny one k g).2 :=
  create_arcs_refines W w top tiny one sg g k hr hW

theorem c12_gen_destroy_arcs (sg : ASG) (g : KnnSub) (hr : RelA sg g) :
    ∃ sg', destroy_arcs sg = some (sg', ()) ∧ RelA sg' (destroyArcs g) :=
  destroy_arcs_refines sg g hr

end Opf.ArcsRefine
