/-
C02 — refinement: the STATEMENT-BY-STATEMENT TRANSLATION of `SupervisedOPF._find_prototypes`
(`Gen/SupImp.lean`, regenerated from the source on every run by `tools/translate_fn.py`, calling
the translation of `Heap` in `Gen/HeapImp.lean`) refines the executable model `primRun` about
which `Props/C02Exec.lean`, `C02.lean`, `C02Weight*.lean` speak: for EVERY training-set size, label
vector and weight function (ties included) the translated code raises nothing, its loops
terminate, and it leaves in `Node.pred / cost / status` exactly the model's values.  What is
assumed rather than proved is listed in DESIGN §6 (the translator's reading of Python; the arc
weight as a function `W` of the two node positions).
Property theorems only; helper lemmas live in the `Lemmas/` file imported below.
-/
import OpfVerif.Lemmas.SupRefine
namespace Opf.SupRefine
open Opf Opf.Gen Opf.Gen.SupImp

theorem c02_gen_find_prototypes (W : Int → Int → Option Int) (w : Nat → Nat → Int) (top : Int)
    (sg : SG) (f : Forest) (hr : RelF sg f) (hs : f.Sized) (hn : 0 < f.n) (hW : WAgree f.n W w) :
    ∃ sg', find_prototypes W top sg = some (sg', ()) ∧ RelF sg' (primRun w top f.n f).f :=
  find_prototypes_refines W w top sg f hr hs hn hW

end Opf.SupRefine
