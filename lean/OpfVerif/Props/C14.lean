/-
C14 — prediction of the KNN-supervised / unsupervised models: the neighbour scan of a query over
ALL training samples, and the arg-max of `min(cost nb, density)` over the valid slots.
Property theorems only; the proofs live in `OpfVerif/Lemmas/Scan.lean`.
-/
import OpfVerif.Lemmas.Scan
namespace Opf

/-- the query scan ranges over every training sample `0..n-1`. -/
theorem c14_queryNeighbours_def (k n : Nat) (top : Int) (dist : Nat → Int) :
    queryNeighbours k n top dist = scan k top dist (List.range n) := rfl

/-- the valid neighbour slots of a query are its `k` nearest training samples among ALL of
`0..n-1`, ascending distance, ties by index. (`_hk` is not used.) -/
theorem c14_neighbours (k : Nat) (_hk : 0 < k) (n : Nat) (top : Int) (dist : Nat → Int)
    (hlt : ∀ j, j < n → dist j < top) :
    validSlots k top (queryNeighbours k n top dist) = kNearest k dist (List.range n) :=
  validSlots_scan k top dist (List.range n) (fun j hj => hlt j (List.mem_range.mp hj))

/-- consequences: `min k n` neighbours, all `< n`, pairwise distinct, every training sample left
out at least as far as every neighbour kept. -/
theorem c14_neighbours_props (k : Nat) (hk : 0 < k) (n : Nat) (top : Int) (dist : Nat → Int)
    (hlt : ∀ j, j < n → dist j < top) :
    (validSlots k top (queryNeighbours k n top dist)).length = min k n ∧
    (∀ s ∈ validSlots k top (queryNeighbours k n top dist), s.2 < n ∧ s.1 = dist s.2) ∧
    ((validSlots k top (queryNeighbours k n top dist)).map (·.2)).Nodup ∧
    (∀ j, j < n → j ∉ (validSlots k top (queryNeighbours k n top dist)).map (·.2) →
      ∀ s ∈ validSlots k top (queryNeighbours k n top dist), s.1 ≤ dist j) := by
  rw [c14_neighbours k hk n top dist hlt]
  refine ⟨by rw [length_kNearest, List.length_range], ?_, nodup_kNearest k dist _ List.nodup_range, ?_⟩
  · intro s hs
    have := mem_kNearest hs
    exact ⟨List.mem_range.mp this.1, this.2⟩
  · intro j hj hnot
    exact kNearest_smallest k dist _ j (List.mem_range.mpr hj) hnot

theorem c14_argmax_nil (negTop : Int) (cost : Nat → Int) (density : Int) :
    knnArgmax negTop cost density [] = (none, negTop) := rfl

/-- the arg-max picks the FIRST slot attaining the largest `min (cost nb) density`. -/
theorem c14_argmax (negTop : Int) (cost : Nat → Int) (density : Int) (slots : List Slot)
    (hne : slots ≠ []) (hgt : ∀ s ∈ slots, negTop < min (cost s.2) density) :
    ∃ s ∈ slots,
      (knnArgmax negTop cost density slots).1 = some s.2 ∧
      (knnArgmax negTop cost density slots).2 = min (cost s.2) density ∧
      (∀ t ∈ slots, min (cost t.2) density ≤ min (cost s.2) density) ∧
      (∃ pre post, slots = pre ++ s :: post ∧
        ∀ t ∈ pre, min (cost t.2) density < min (cost s.2) density) := by
  rcases knnArgmax_fold cost density slots (none, negTop) with ⟨_, h2⟩ | ⟨pre, s, post, h1, h2, _, h4, h5⟩
  · cases slots with
    | nil => exact absurd rfl hne
    | cons x rest =>
      have a := h2 x List.mem_cons_self
      have b := hgt x List.mem_cons_self
      simp only at a
      omega
  · refine ⟨s, by rw [h1]; simp, ?_, ?_, h4, pre, post, h1, h5⟩
    · unfold knnArgmax; rw [h2]
    · unfold knnArgmax; rw [h2]

/-- non-vacuity: costs `3,7,7,5` (by node id), density 6 ⇒ values `3,6,6,5`; the first of the two
maximisers (node 11) wins. -/
example : knnArgmax (-1000) (fun j => [3, 7, 7, 5].getD (j - 10) 0) 6 [(1, 10), (2, 11), (3, 12), (4, 13)]
    = (some 11, 6) := by decide

end Opf
