/-
C18 — refinement: the STATEMENT-BY-STATEMENT TRANSLATION of `parse_loader` (`Gen/ParseImp.lean`, regenerated from
`opfython/stream/parser.py` on every run by `tools/translate_conv.py`: `data[:, 2:]`, `data[:, 1]`, `np.unique(…,
return_counts=True)`, `np.array_equal(labels, np.arange(len(labels)))`, `raise`, `Y.astype(int)`) computes exactly
`parseCols` and accepts exactly when `parseAccept` does — so the theorems of `Props/C18.lean` (accepted iff the SET of labels is
`{0,…,K-1}`) hold of the translated code: the column layout is id, label, features; a gap or a negative label raises.
Integer-valued matrices (a non-integral label makes `np.unique` differ from `arange`: checked directly by the harness).
Property theorems only; helper lemmas live in `Lemmas/ParseRefine.lean`.
-/
import OpfVerif.Lemmas.ParseRefine
namespace Opf.ParseRefine
open Opf Opf.Gen

theorem c18_gen_parse (data : Array (Array Int)) (h : ∀ row ∈ data, 2 ≤ row.size) :
    ParseImp.parse_loader data =
      if parseAccept (labelCol data) then
        some (data.map (fun r => r.extract 2 r.size), (labelCol data).toArray)
      else none := parse_loader_refines data h

/-- a row without a label column raises (`IndexError`), it is not silently dropped. -/
theorem c18_gen_parse_short_row (data : Array (Array Int)) (h : ∃ row ∈ data, row.size < 2) :
    ParseImp.parse_loader data = none := parse_loader_short_row data h

/-- the translated `parse_loader` returns iff the set of labels is `{0,…,K-1}` for some `K`. -/
theorem c18_gen_parse_accepts_iff (data : Array (Array Int)) (h : ∀ row ∈ data, 2 ≤ row.size) :
    (ParseImp.parse_loader data).isSome ↔ ∃ K : Nat, ∀ v : Int, v ∈ labelCol data ↔ (0 ≤ v ∧ v < K) := by
  rw [c18_gen_parse data h, ← c18_parse_accepts_iff]
  split <;> simp_all

/-- what it returns: the feature columns and the label column of every row, in order. -/
theorem c18_gen_parse_returns (data : Array (Array Int)) (X : Array (Array Int)) (Y : Array Int)
    (h : ∀ row ∈ data, 2 ≤ row.size) (hr : ParseImp.parse_loader data = some (X, Y)) :
    X = data.map (fun r => r.extract 2 r.size) ∧ Y.toList = labelCol data := by
  rw [c18_gen_parse data h] at hr
  split at hr
  · cases hr; simp
  · cases hr

/-- the handler, as written: only `TypeError` (a non-array argument) is swallowed; the `ValueError` of the label check and an
`IndexError` propagate. -/
theorem c18_gen_parse_handler :
    ParseImp.parse_loader_except = "TypeError" ∧ ParseImp.parse_loader_handler = "return (None, None)" := by
  refine ⟨?_, ?_⟩ <;> decide +kernel

example : ParseImp.parse_loader #[#[7, 1, 10, 11], #[8, 0, 20, 21], #[9, 1, 30, 31]] =
    some (#[#[10, 11], #[20, 21], #[30, 31]], #[1, 0, 1]) := by decide +kernel
example : ParseImp.parse_loader #[#[7, 2, 10], #[8, 0, 20]] = none := by decide +kernel
example : ParseImp.parse_loader #[#[7, -1, 10], #[8, 0, 20], #[8, 1, 20]] = none := by decide +kernel
example : ParseImp.parse_loader #[#[7, 0, 10], #[8]] = none := by decide +kernel

end Opf.ParseRefine
