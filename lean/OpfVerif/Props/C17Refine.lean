/-
C17 — refinement: the translation of `Subgraph.mark_nodes` (`Gen/SupImp.lean`) refines the
model `markNodes` of `Props/C17.lean`: on any predecessor chain that reaches a root the `while`
loop terminates, raises nothing and flags exactly the nodes the model flags (the ancestors of the
conqueror, the conqueror included).
Property theorems only; helper lemmas live in the `Lemmas/` file imported below.
-/
import OpfVerif.Lemmas.SupRefine
namespace Opf.SupRefine
open Opf Opf.Gen Opf.Gen.SupImp

theorem c17_gen_mark_nodes (sg : SG) (f : Forest) (hr : RelF sg f) (hs : f.Sized)
    (k i : Nat) (hi : i < f.n) (hc : ChainOk f k i) :
    ∃ sg', mark_nodes sg (i : Int) = some (sg', ()) ∧ RelF sg' (markNodes f (k + 1) i) :=
  mark_nodes_refines sg f hr hs k i hi hc

end Opf.SupRefine
