/-
C11 (monotone re-scaling of the metric) — END TO END for the translated code: the translations of
`SupervisedOPF.fit` and `SupervisedOPF.predict` (`Gen/FitImp.lean`, `Gen/PredImp.lean`), run once with an arc-weight
oracle that returns `w p q` and once with one that returns `φ (w p q)` for a strictly increasing `φ` with `φ 0 = 0`
(the same sentinel `FLOAT_MAX = top` on both sides, as in the real code; `M` bounds the weights, `M < top`,
`φ M < top`), both terminate without raising and leave the SAME prototypes, predecessors, assigned labels and conquest
order, costs mapped by `φ`, and return the SAME predictions and relevance marks for queries re-scaled in the same way.

Composition of `c03_gen_master` (refinement of fit ∘ predict) with `c11_map_fit_fixed_top` (equivariance of the models).
STATEMENTS ARE FIXED (DESIGN §2.1b); helper lemmas live in Lemmas/C11GenLemmas.lean.
-/
import OpfVerif.Props.C03Gen
import OpfVerif.Props.C11Map
import OpfVerif.Lemmas.C11GenLemmas
namespace Opf.C11Gen
open Opf Opf.Gen Opf.Gen.SupImp Opf.SupRefine Opf.FitCompose Opf.GenCompose

variable {φ : Int → Int}

/-- the hypotheses on the inputs of `fit` carry over to the re-scaled weights. -/
theorem fitHyp_rescaled (hφ : ∀ a b, a < b → φ a < φ b) (h0 : φ 0 = 0) (w : Nat → Nat → Int) (top M : Int)
    (hw : ∀ p q, w p q ≤ M) (ht' : φ M < top) (nLab : Nat) (lab : Array Nat) (H : FitHyp w top nLab lab) :
    FitHyp (fun p q => φ (w p q)) top nLab lab := by
  refine ⟨H.nLab_pos, H.nLab_le, fun p q hp hq => ?_, fun p q hp hq => ?_, fun p q _ _ => ?_,
    H.top_pos, H.two_classes⟩
  · show φ (w p q) = φ (w q p)
    rw [H.symm p q hp hq]
  · show 0 ≤ φ (w p q)
    have h := C11GenLemmas.mono_le hφ (H.w_nonneg p q hp hq)
    rwa [h0] at h
  · show φ (w p q) < top
    exact Int.lt_of_le_of_lt (C11GenLemmas.mono_le hφ (hw p q)) ht'

/-- **C11, re-scaling clause, on the translated source.** -/
theorem c11_gen_rescaled (hφ : ∀ a b, a < b → φ a < φ b) (h0 : φ 0 = 0)
    (W1 W2 WQ1 WQ2 : Int → Int → Option Int) (w : Nat → Nat → Int) (top M : Int)
    (hM : 0 ≤ M) (hw : ∀ p q, w p q ≤ M) (ht : M < top) (ht' : φ M < top)
    (sg0 psg0 : SG) (lab : Array Nat) (ds : List (Nat → Int))
    (hr : RelF sg0 (Forest.init lab)) (H : FitHyp w top lab.size lab)
    (hW1 : WAgree lab.size W1 w) (hW2 : WAgree lab.size W2 (fun p q => φ (w p q)))
    (hq : QuerySG psg0 ds.length)
    (hWQ1 : WQAgree lab.size WQ1 ds) (hWQ2 : WQAgree lab.size WQ2 (ds.map (fun d t => φ (d t))))
    (hds : ∀ d ∈ ds, ∀ t, d t ≤ M) :
    ∃ sg1 sg1' p1 sg2 sg2' p2,
      fit W1 top sg0 = some (sg1, ()) ∧ predict WQ1 sg1 psg0 = some (sg1', p1) ∧
      fit W2 top sg0 = some (sg2, ()) ∧ predict WQ2 sg2 psg0 = some (sg2', p2) ∧
      sg2.status = sg1.status ∧ sg2.pred = sg1.pred ∧ sg2.predicted_label = sg1.predicted_label ∧
      sg2.idx_nodes = sg1.idx_nodes ∧
      (∀ x : Nat, x < lab.size → ∀ c, sg1.cost[x]? = some c → c ≤ M → sg2.cost[x]? = some (φ c)) ∧
      p2 = p1 ∧ sg2'.relevant = sg1'.relevant := by
  have H2 := fitHyp_rescaled hφ h0 w top M hw ht' lab.size lab H
  obtain ⟨sg1, sg1', p1, e1, e1', r1, r1', hp1⟩ :=
    c03_gen_master W1 WQ1 w top sg0 lab psg0 ds hr hW1 H hq hWQ1
  obtain ⟨sg2, sg2', p2, e2, e2', r2, r2', hp2⟩ :=
    c03_gen_master W2 WQ2 (fun p q => φ (w p q)) top sg0 lab psg0 (ds.map (fun d t => φ (d t)))
      hr hW2 H2 (by rw [List.length_map]; exact hq) hWQ2
  obtain ⟨m1, m2, m3, _, m5, m6, m7⟩ :=
    c11_map_fit_fixed_top hφ h0 w top M hM hw ht ht' false lab.size lab
  obtain ⟨m8, m9⟩ := m7 ds hds
  have n1 := fitRun_n H false
  have n2 := fitRun_n H2 false
  have hn : (fitRun (fun p q => φ (w p q)) top false lab.size lab).f.n
      = (fitRun w top false lab.size lab).f.n := by rw [n1, n2]
  have hn' : (predictBatch (fitRun (fun p q => φ (w p q)) top false lab.size lab).f
        (ds.map (fun d t => φ (d t)))).1.n
      = (predictBatch (fitRun w top false lab.size lab).f ds).1.n := by
    rw [(predictBatch_fields _ _).1, (predictBatch_fields _ _).1, hn]
  refine ⟨sg1, sg1', p1, sg2, sg2', p2, e1, e1', e2, e2',
    C11GenLemmas.status_eq r1 r2 hn m1, C11GenLemmas.pred_eq r1 r2 hn m2,
    C11GenLemmas.plabel_eq r1 r2 hn m3, C11GenLemmas.order_eq r1 r2 m5, ?_, ?_,
    C11GenLemmas.relevant_eq r1' r2' hn' m9⟩
  · intro x hx c hc hcM
    have hx1 : x < (fitRun w top false lab.size lab).f.n := by rw [n1]; exact hx
    have hx2 : x < (fitRun (fun p q => φ (w p q)) top false lab.size lab).f.n := by
      rw [n2]; exact hx
    rw [r1.cost x hx1] at hc
    have hc' : (fitRun w top false lab.size lab).f.costOf x = c := Option.some.inj hc
    rw [r2.cost x hx2, m6 x (by rw [hc']; exact hcM), hc']
  · rw [hp2, hp1, m8]

/-! ### non-vacuity: the demo of `Props/C01Gen.lean` (three samples on a line at 0, 1, 5, classes 1, 1, 2), `φ x = 2x`,
weights bounded by `M = 6 < 100`, two bounded queries. -/

def demoQ2 : List (Nat → Int) := [fun t => if t < 3 then (t : Int) + 1 else 0, fun _ => 2]

theorem demo_w_le (p q : Nat) : c15_demo_w p q ≤ 6 := by
  unfold c15_demo_w
  by_cases h0 : p = 0 <;> by_cases h1 : p = 1 <;> by_cases h2 : p = 2 <;>
  by_cases g0 : q = 0 <;> by_cases g1 : q = 1 <;> by_cases g2 : q = 2 <;> simp [h0, h1, h2, g0, g1, g2]

example : ∃ sg1 sg1' p1 sg2 sg2' p2,
    fit demoW 100 (initSG #[1, 1, 2]) = some (sg1, ()) ∧
    predict (fun l i => some ((demoQ2.getD i.toNat (fun _ => 0)) l.toNat)) sg1 (querySG demoQ2.length) = some (sg1', p1) ∧
    fit (fun a b => some (2 * c15_demo_w a.toNat b.toNat)) 100 (initSG #[1, 1, 2]) = some (sg2, ()) ∧
    predict (fun l i => some (((demoQ2.map (fun d t => 2 * d t)).getD i.toNat (fun _ => 0)) l.toNat)) sg2
      (querySG demoQ2.length) = some (sg2', p2) ∧
    sg2.status = sg1.status ∧ sg2.pred = sg1.pred ∧ sg2.predicted_label = sg1.predicted_label ∧
    sg2.idx_nodes = sg1.idx_nodes ∧
    (∀ x : Nat, x < 3 → ∀ c, sg1.cost[x]? = some c → c ≤ 6 → sg2.cost[x]? = some (2 * c)) ∧
    p2 = p1 ∧ sg2'.relevant = sg1'.relevant := by
  have hq := c03_gen_query_hyps 3 demoQ2
  have hq2 := c03_gen_query_hyps 3 (demoQ2.map (fun d t => 2 * d t))
  exact c11_gen_rescaled (φ := fun x => 2 * x) (fun a b h => by omega) (by decide) demoW _ _ _ c15_demo_w 100 6
    (by decide) demo_w_le (by decide) (by decide) _ _ #[1, 1, 2] demoQ2
    c01_gen_demo_hyps.1 c01_gen_demo_hyps.2.2 c01_gen_demo_hyps.2.1 (fun a b _ _ => by simp)
    hq.1 hq.2 hq2.2 (by
      intro d hd t
      simp only [demoQ2, List.mem_cons, List.mem_nil_iff, or_false] at hd
      rcases hd with rfl | rfl
      · dsimp only; split <;> omega
      · show (2 : Int) ≤ 6; decide)

end Opf.C11Gen
