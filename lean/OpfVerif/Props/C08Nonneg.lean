/-
C08 (metric part) — NON-NEGATIVITY of the distance bodies whose generated term is not
syntactically non-negative (`S.safeNonneg` fails because of a `log`, `sub` or `neg`), stated on
the real semantics (`S.evalR`).  IEEE rounding is not modelled (see `Lemmas/ExprReal.lean`).
Hypotheses: none for the `log(1+·)` family, hassanat, cosine and dice (they hold for all real
vectors); positive orthant for the entropy family; probability vectors for kullback_leibler,
k_divergence and bhattacharyya (the `_of_le` variants only need `∑ v ≤ ∑ u`).
-/
import OpfVerif.Lemmas.ExprReal
import OpfVerif.Gen.Distance
import Mathlib.Analysis.SpecialFunctions.Log.Basic
import Mathlib.Analysis.MeanInequalities
namespace Opf
open scoped BigOperators

/-! ### scalar lemmas -/

private theorem litR_one : litR 1 0 = 1 := by simp [litR]
private theorem litR_two : litR 2 0 = 2 := by simp [litR]
private theorem litR_half : litR 5 (-1) = 1 / 2 := by simp only [litR]; norm_num
private theorem litR_1e5_nonneg : (0 : ℝ) ≤ litR 1 5 := by simp only [litR]; norm_num

/-- Gibbs' term inequality: `a - b ≤ a · log (a / b)` for `a, b > 0`. -/
private theorem gibbs_term {a b : ℝ} (ha : 0 < a) (hb : 0 < b) : a - b ≤ a * Real.log (a / b) := by
  have h := Real.log_le_sub_one_of_pos (div_pos hb ha)
  have e : Real.log (a / b) = -Real.log (b / a) := by
    rw [← Real.log_inv, inv_div]
  rw [e]
  have h' : a * Real.log (b / a) ≤ a * (b / a - 1) := mul_le_mul_of_nonneg_left h ha.le
  have e2 : a * (b / a - 1) = b - a := by field_simp
  linarith

/-- `a · log (2a / (a + b)) ≥ (a - b) / 2` for `a, b > 0`. -/
private theorem gibbs_mid {a b : ℝ} (ha : 0 < a) (hb : 0 < b) :
    (a - b) / 2 ≤ a * Real.log (2 * a / (a + b)) := by
  have h := gibbs_term ha (by positivity : 0 < (a + b) / 2)
  have e : a / ((a + b) / 2) = 2 * a / (a + b) := by field_simp
  rw [e] at h
  linarith

private theorem jeffreys_term {a b : ℝ} (ha : 0 < a) (hb : 0 < b) :
    0 ≤ (a - b) * Real.log (a / b) := by
  rcases le_total b a with h | h
  · exact mul_nonneg (sub_nonneg.2 h) (Real.log_nonneg ((one_le_div hb).2 h))
  · exact mul_nonneg_of_nonpos_of_nonpos (sub_nonpos.2 h)
      (Real.log_nonpos (div_pos ha hb).le ((div_le_one hb).2 h))

/-- the Jensen term is half the Topsøe term. -/
private theorem jensen_term_eq {a b : ℝ} (ha : 0 < a) (hb : 0 < b) :
    (a * Real.log a + b * Real.log b) / 2 - (a + b) / 2 * Real.log ((a + b) / 2) =
      (a * Real.log (2 * a / (a + b)) + b * Real.log (2 * b / (a + b))) / 2 := by
  have hab : 0 < a + b := by positivity
  have e1 : 2 * a / (a + b) = a / ((a + b) / 2) := by field_simp
  have e2 : 2 * b / (a + b) = b / ((a + b) / 2) := by field_simp
  rw [e1, e2, Real.log_div ha.ne' (by positivity), Real.log_div hb.ne' (by positivity)]
  ring

private theorem jensen_term_nonneg {a b : ℝ} (ha : 0 < a) (hb : 0 < b) :
    0 ≤ (a * Real.log a + b * Real.log b) / 2 - (a + b) / 2 * Real.log ((a + b) / 2) := by
  rw [jensen_term_eq ha hb]
  have h1 := gibbs_mid ha hb
  have h2 := gibbs_mid hb ha
  rw [add_comm b a] at h2
  linarith

private theorem hassanat_term (a b : ℝ) :
    0 ≤ (if 0 ≤ min a b then 1 - (1 + min a b) / (1 + max a b)
          else 1 - (1 + min a b + |min a b|) / (1 + max a b + |min a b|)) := by
  have hmM : min a b ≤ max a b := min_le_max
  split_ifs with h
  · have hpos : 0 < 1 + max a b := by linarith
    rw [sub_nonneg, div_le_one hpos]
    linarith
  · rw [not_le] at h
    rw [abs_of_neg h]
    have hpos : 0 < 1 + max a b + -min a b := by linarith
    rw [sub_nonneg, div_le_one hpos]
    linarith

private theorem sum_mid_nonneg {n} (u v : Fin n → ℝ) (hu : ∀ i, 0 < u i) (hv : ∀ i, 0 < v i) :
    (∑ i, u i - ∑ i, v i) / 2 ≤ ∑ i, u i * Real.log (2 * u i / (u i + v i)) := by
  rw [← Finset.sum_sub_distrib, Finset.sum_div]
  exact Finset.sum_le_sum fun i _ => gibbs_mid (hu i) (hv i)

/-! ### logarithmic Euclidean family (all real vectors) -/

theorem c08_nonneg_log_euclidean {n} (u v : Fin n → ℝ) :
    0 ≤ Gen.body_log_euclidean_distance.evalR u v := by
  simp only [Gen.body_log_euclidean_distance, S.evalR, V.evalR, litR_one]
  apply mul_nonneg litR_1e5_nonneg
  apply Real.log_nonneg
  linarith [Real.sqrt_nonneg (∑ i, (u i - v i) ^ 2)]

theorem c08_nonneg_log_squared_euclidean {n} (u v : Fin n → ℝ) :
    0 ≤ Gen.body_log_squared_euclidean_distance.evalR u v := by
  simp only [Gen.body_log_squared_euclidean_distance, S.evalR, V.evalR, litR_one]
  apply mul_nonneg litR_1e5_nonneg
  apply Real.log_nonneg
  have : 0 ≤ ∑ i, (u i - v i) ^ 2 := Finset.sum_nonneg fun i _ => sq_nonneg _
  linarith

theorem c08_nonneg_lorentzian {n} (u v : Fin n → ℝ) :
    0 ≤ Gen.body_lorentzian_distance.evalR u v := by
  simp only [Gen.body_lorentzian_distance, S.evalR, V.evalR, litR_one]
  apply Finset.sum_nonneg
  intro i _
  apply Real.log_nonneg
  linarith [abs_nonneg (u i - v i)]

/-! ### hassanat (all real vectors) -/

theorem c08_nonneg_hassanat {n} (u v : Fin n → ℝ) :
    0 ≤ Gen.body_hassanat_distance.evalR u v := by
  simp only [Gen.body_hassanat_distance, S.evalR, V.evalR, litR_one]
  exact Finset.sum_nonneg fun i _ => hassanat_term (u i) (v i)

/-! ### cosine, dice (all real vectors: Cauchy–Schwarz) -/

theorem c08_nonneg_cosine {n} (u v : Fin n → ℝ) :
    0 ≤ Gen.body_cosine_distance.evalR u v := by
  simp only [Gen.body_cosine_distance, S.evalR, V.evalR, litR_one]
  rw [sub_nonneg]
  apply div_le_one_of_le₀
  · exact Real.sum_mul_le_sqrt_mul_sqrt Finset.univ u v
  · exact mul_nonneg (Real.sqrt_nonneg _) (Real.sqrt_nonneg _)

theorem c08_nonneg_dice {n} (u v : Fin n → ℝ) :
    0 ≤ Gen.body_dice_distance.evalR u v := by
  simp only [Gen.body_dice_distance, S.evalR, V.evalR, litR_one, litR_two]
  rw [sub_nonneg]
  apply div_le_one_of_le₀
  · rw [Finset.mul_sum, ← Finset.sum_add_distrib]
    apply Finset.sum_le_sum
    intro i _
    nlinarith [sq_nonneg (u i - v i)]
  · exact add_nonneg (Finset.sum_nonneg fun i _ => sq_nonneg _)
      (Finset.sum_nonneg fun i _ => sq_nonneg _)

/-! ### entropy family (positive orthant) -/

theorem c08_nonneg_jeffreys {n} (u v : Fin n → ℝ) (hu : ∀ i, 0 < u i) (hv : ∀ i, 0 < v i) :
    0 ≤ Gen.body_jeffreys_distance.evalR u v := by
  simp only [Gen.body_jeffreys_distance, S.evalR, V.evalR]
  exact Finset.sum_nonneg fun i _ => jeffreys_term (hu i) (hv i)

/-- Gibbs' inequality; only `∑ v ≤ ∑ u` is used of the normalisation. -/
theorem c08_nonneg_kullback_leibler_of_le {n} (u v : Fin n → ℝ) (hu : ∀ i, 0 < u i)
    (hv : ∀ i, 0 < v i) (hs : ∑ i, v i ≤ ∑ i, u i) :
    0 ≤ Gen.body_kullback_leibler_distance.evalR u v := by
  simp only [Gen.body_kullback_leibler_distance, S.evalR, V.evalR]
  have h : ∑ i, (u i - v i) ≤ ∑ i, u i * Real.log (u i / v i) :=
    Finset.sum_le_sum fun i _ => gibbs_term (hu i) (hv i)
  rw [Finset.sum_sub_distrib] at h
  linarith

theorem c08_nonneg_kullback_leibler {n} (u v : Fin n → ℝ) (hu : ∀ i, 0 < u i)
    (hv : ∀ i, 0 < v i) (hsu : ∑ i, u i = 1) (hsv : ∑ i, v i = 1) :
    0 ≤ Gen.body_kullback_leibler_distance.evalR u v :=
  c08_nonneg_kullback_leibler_of_le u v hu hv (by rw [hsu, hsv])

theorem c08_nonneg_k_divergence_of_le {n} (u v : Fin n → ℝ) (hu : ∀ i, 0 < u i)
    (hv : ∀ i, 0 < v i) (hs : ∑ i, v i ≤ ∑ i, u i) :
    0 ≤ Gen.body_k_divergence_distance.evalR u v := by
  simp only [Gen.body_k_divergence_distance, S.evalR, V.evalR, litR_two]
  have h := sum_mid_nonneg u v hu hv
  linarith

theorem c08_nonneg_k_divergence {n} (u v : Fin n → ℝ) (hu : ∀ i, 0 < u i)
    (hv : ∀ i, 0 < v i) (hsu : ∑ i, u i = 1) (hsv : ∑ i, v i = 1) :
    0 ≤ Gen.body_k_divergence_distance.evalR u v :=
  c08_nonneg_k_divergence_of_le u v hu hv (by rw [hsu, hsv])

theorem c08_nonneg_topsoe {n} (u v : Fin n → ℝ) (hu : ∀ i, 0 < u i) (hv : ∀ i, 0 < v i) :
    0 ≤ Gen.body_topsoe_distance.evalR u v := by
  simp only [Gen.body_topsoe_distance, S.evalR, V.evalR, litR_two]
  have h1 := sum_mid_nonneg u v hu hv
  have h2 := sum_mid_nonneg v u hv hu
  simp only [add_comm (v _) (u _)] at h2
  linarith

theorem c08_nonneg_jensen_shannon {n} (u v : Fin n → ℝ) (hu : ∀ i, 0 < u i)
    (hv : ∀ i, 0 < v i) : 0 ≤ Gen.body_jensen_shannon_distance.evalR u v := by
  have h := c08_nonneg_topsoe u v hu hv
  simp only [Gen.body_topsoe_distance, S.evalR, V.evalR] at h
  simp only [Gen.body_jensen_shannon_distance, S.evalR, V.evalR, litR_half]
  exact mul_nonneg (by norm_num) h

theorem c08_nonneg_jensen {n} (u v : Fin n → ℝ) (hu : ∀ i, 0 < u i) (hv : ∀ i, 0 < v i) :
    0 ≤ Gen.body_jensen_distance.evalR u v := by
  simp only [Gen.body_jensen_distance, S.evalR, V.evalR, litR_half, litR_two]
  apply mul_nonneg (by norm_num)
  exact Finset.sum_nonneg fun i _ => jensen_term_nonneg (hu i) (hv i)

/-! ### bhattacharyya (probability vectors; only `u, v ≥ 0` and `∑ u + ∑ v ≤ 2` are used) -/

private theorem sqrt_mul_le_half_add {a b : ℝ} (ha : 0 ≤ a) (hb : 0 ≤ b) :
    Real.sqrt (a * b) ≤ (a + b) / 2 := by
  rw [Real.sqrt_le_iff]
  constructor
  · positivity
  · nlinarith [sq_nonneg (a - b)]

theorem c08_nonneg_bhattacharyya {n} (u v : Fin n → ℝ) (hu : ∀ i, 0 < u i)
    (hv : ∀ i, 0 < v i) (hsu : ∑ i, u i = 1) (hsv : ∑ i, v i = 1) :
    0 ≤ Gen.body_bhattacharyya_distance.evalR u v := by
  simp only [Gen.body_bhattacharyya_distance, S.evalR, V.evalR]
  rw [neg_nonneg]
  apply Real.log_nonpos (Finset.sum_nonneg fun i _ => Real.sqrt_nonneg _)
  have h : ∑ i, Real.sqrt (u i * v i) ≤ ∑ i, (u i + v i) / 2 :=
    Finset.sum_le_sum fun i _ => sqrt_mul_le_half_add (hu i).le (hv i).le
  rw [← Finset.sum_div, Finset.sum_add_distrib, hsu, hsv] at h
  linarith

end Opf
