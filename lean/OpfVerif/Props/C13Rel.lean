/-
C13 (relational tier) — the density clustering of `UnsupervisedOPF._clustering` /
`KNNSupervisedOPF._clustering`, for EVERY lawful run.

Theorems about every run (`CluInst.Reach` … `CluInst.Final`) of the semantics of
`Model/ClusterSpec.lean`: any number of samples, any neighbour lists without self-loops (entries may
repeat), any densities with `negTop < cost0 i < dens i`, both variants (`unsup`), with or without
forced prototypes (`force`), any initial labels `lab0`, and every way of breaking ties among queued
samples of equal (maximum) cost.  The conclusions are those of the exec-level `Props/C13.lean` §F (which
fixes the tie-breaking of the real max-heap); `Lemmas/ClusterRel.lean` also proves the executable
acceptance test `runPicksClu` sound (`runPicksClu_reach`, `isFinal_final`), so an observed removal order
that passes it is such a run.

Property theorems only (helpers and the non-vacuity example: `OpfVerif/Lemmas/ClusterRel.lean`).
-/
import OpfVerif.Lemmas.ClusterRel
namespace Opf.CluInst

variable (I : CluInst) (lab0 : Nat → Nat)

/-- the loop cannot get stuck: in a reachable state that still has a queued sample a lawful step
exists … -/
theorem c13r_progress (hg : I.Good) (s : DState) (hr : Reach I lab0 s) (hnf : ¬ I.Final s) :
    ∃ s', I.Step s s' := clu_progress I lab0 hg s hr hnf

/-- … and it cannot run forever: the order never repeats a sample, so at most `n` steps happen. -/
theorem c13r_bounded (hg : I.Good) (s : DState) (hr : Reach I lab0 s) :
    s.order.Nodup ∧ (∀ t, t ∈ s.order → t < I.n) ∧ s.order.length ≤ I.n :=
  clu_bounded I lab0 hg s hr

/-- every sample is removed exactly once. -/
theorem c13r_order (hg : I.Good) (s : DState) (hr : Reach I lab0 s) (hf : I.Final s) :
    s.order.Nodup ∧ (∀ t, t ∈ s.order ↔ t < I.n) := clu_order I lab0 hg s hr hf

/-- when the loop ends every sample is BLACK. -/
theorem c13r_all_black (hg : I.Good) (s : DState) (hr : Reach I lab0 s) (hf : I.Final s) :
    ∀ t, t < I.n → s.color t = BLACK := clu_all_black I lab0 hg s hr hf

/-- a root carries its density and is its own root. -/
theorem c13r_root_cost (hg : I.Good) (s : DState) (hr : Reach I lab0 s) (hf : I.Final s) :
    ∀ t, t < I.n → s.pred t = none → s.cost t = I.dens t ∧ s.root t = t :=
  clu_root_cost I lab0 hg s hr hf

/-- a conquered sample `q` with `pred q = some p`: `p` is a sample, `q` is one of the neighbours
visited from `p`, its cost is `min (cost p) (dens q)` and strictly above its initial cost, `p` was
removed before `q`, root and label are inherited, and with forced prototypes `p` and `q` have the
same true label. -/
theorem c13r_link (hg : I.Good) (s : DState) (hr : Reach I lab0 s) (hf : I.Final s) :
    ∀ q, q < I.n → ∀ p, s.pred q = some p →
      p < I.n ∧ q ∈ I.nbrs p ∧ s.cost q = min (s.cost p) (I.dens q) ∧ I.cost0 q < s.cost q ∧
      s.order.idxOf p < s.order.idxOf q ∧ s.root q = s.root p ∧ s.lab q = s.lab p ∧
      (I.force = true → I.tlabel p = I.tlabel q) := clu_link I lab0 hg s hr hf

/-- every sample hangs, through a `pred` chain, below a root; its `root` field is that root and its
label is the root's label. -/
theorem c13r_reaches_root (hg : I.Good) (s : DState) (hr : Reach I lab0 s) (hf : I.Final s) :
    ∀ t, t < I.n → ∃ ρ, ρ < I.n ∧ s.pred ρ = none ∧ DChain s ρ t ∧ s.root t = ρ ∧
      s.lab t = s.lab ρ := clu_reaches_root I lab0 hg s hr hf

/-- the root of a chain is unique (`pred` is a function): holds for every state. -/
theorem c13r_root_unique (s : DState) (ρ ρ' t : Nat) (h1 : DChain s ρ t) (h2 : DChain s ρ' t)
    (hρ : s.pred ρ = none) (hρ' : s.pred ρ' = none) : ρ = ρ' :=
  dchain_root_unique h1 h2 hρ hρ'

/-- the cost of a sample never exceeds the density of its root (in every reachable state). -/
theorem c13r_root_bound (hg : I.Good) (s : DState) (hr : Reach I lab0 s) :
    ∀ t, t < I.n → s.cost t ≤ I.dens (s.root t) := clu_root_bound I lab0 hg s hr

/-- every sample ends strictly above its initial cost. -/
theorem c13r_cost_gt (hg : I.Good) (s : DState) (hr : Reach I lab0 s) (hf : I.Final s) :
    ∀ t, t < I.n → I.cost0 t < s.cost t := clu_cost_gt I lab0 hg s hr hf

/-- when the initial costs are the densities minus one (`calculate_pdf`), no sample's density
exceeds the density of its root by one or more. -/
theorem c13r_density_gap (hg : I.Good) (s : DState) (hr : Reach I lab0 s) (hf : I.Final s)
    (hpdf : ∀ i, i < I.n → I.dens i - 1 ≤ I.cost0 i) :
    ∀ t, t < I.n → I.dens t - 1 < I.dens (s.root t) := by
  intro t ht
  have h1 := c13r_cost_gt I lab0 hg s hr hf t ht
  have h2 := c13r_root_bound I lab0 hg s hr t ht
  have h3 := hpdf t ht
  omega

/-- unsupervised variant: the number of identifiers handed out is the number of roots, and the
roots' cluster identifiers are `0, 1, …, next-1` in removal order. -/
theorem c13r_ids_unsup (hg : I.Good) (s : DState) (hr : Reach I lab0 s) (hf : I.Final s)
    (hu : I.unsup = true) :
    s.next = ((List.range I.n).filter (fun t => s.pred t == none)).length ∧
    (s.order.filter (fun t => s.pred t == none)).map s.lab = List.range s.next :=
  clu_ids_unsup I lab0 hg s hr hf hu

/-- KNN-supervised variant: a root takes its own true label. -/
theorem c13r_labels_knn (hg : I.Good) (s : DState) (hr : Reach I lab0 s) (hf : I.Final s)
    (hu : I.unsup = false) : ∀ t, t < I.n → s.pred t = none → s.lab t = I.tlabel t :=
  clu_labels_knn I lab0 hg s hr hf hu

/-- KNN-supervised variant with forced prototypes: every training sample receives its own true
label (the KNN clause of C04). -/
theorem c13r_knn_forced (hg : I.Good) (s : DState) (hr : Reach I lab0 s) (hf : I.Final s)
    (hu : I.unsup = false) (hfo : I.force = true) : ∀ t, t < I.n → s.lab t = I.tlabel t :=
  clu_knn_forced I lab0 hg s hr hf hu hfo

end Opf.CluInst
