/-
C10 — refinement: the translation of `pre_compute_distance` (`Gen/PrecompImp.lean`, regenerated from
`opfython/math/general.py` on every run by `tools/translate_np.py`) hands `np.savetxt` a matrix whose row
`i`, column `j` is the registered metric on the ORDERED pair (row `i`, row `j`) of the data — every pair,
the diagonal included, nothing mirrored — and writes it with a comma delimiter exactly for `.csv` files
(what `load_csv` parses; defect F4).  Together with `Props/C10.lean` (the models are congruent in the weight
function; every lookup site reads `pre_distances[A.idx][B.idx]` for the same two nodes in the same order
as the metric call) this is C10's equivalence.  Helper lemmas live in `Lemmas/PrecompRefine.lean`.
-/
import OpfVerif.Lemmas.PrecompRefine
namespace Opf.PrecompRefine
open Opf Opf.Gen Opf.Gen.PrecompImp

theorem c10_gen_pre_compute (W : Int → Int → Option Int) (w : Nat → Nat → Int) (n : Nat)
    (hW : ∀ a b : Nat, a < n → b < n → W (a : Int) (b : Int) = some (w a b)) :
    ∃ M, pre_compute_distance W (n : Int) = some M ∧ M.size = n ∧
      ∀ i, i < n → ∃ row, M[i]? = some row ∧ row.size = n ∧ ∀ j, j < n → row[j]? = some (w i j) :=
  pre_compute_refines W w n hW

theorem c10_gen_delimiter : delimiterExpr = "',' if output.split('.')[-1] == 'csv' else ' '" :=
  delimiter_expr

end Opf.PrecompRefine
