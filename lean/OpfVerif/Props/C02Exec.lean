/-
C02 (executable side) — the executable model of `_find_prototypes` (`Opf.primRun`, driving the
heap model L0, compared with the real code on every run) is a lawful run of the relational Prim
semantics; hence the C02 theorems apply to the predecessors and prototype flags it records.
-/
import OpfVerif.Lemmas.PrimExec
import OpfVerif.Lemmas.Lawful
import OpfVerif.Props.C02
namespace Opf

/-- on a fresh forest (no predecessors, no prototypes) `primRun` replays as a lawful run: some
sequence of picks is accepted step by step by `runPicks`, ends with an empty queue, and the
recorded predecessors and prototype flags of the first `nLab` nodes are those of the final abstract
state; nodes beyond `nLab` (the unlabeled ones of the semi-supervised model) are untouched. -/
theorem c02_exec (w : Nat → Nat → Int) (top : Int) (nLab : Nat) (f : Forest)
    (hs : f.Sized) (hn : nLab ≤ f.n)
    (hfresh : ∀ x, f.predOf x = none ∧ f.isProto x = false)
    (hg : (primInstOf w top nLab f).Good) :
    ∃ picks s', (primInstOf w top nLab f).runPicks (primInstOf w top nLab f).init picks = some s' ∧
      (primInstOf w top nLab f).isFinal s' = true ∧
      (primRun w top nLab f).h.isEmpty = true ∧
      (∀ x, x < nLab → (primRun w top nLab f).f.predOf x = s'.pred x ∧
                        (primRun w top nLab f).f.isProto x = s'.proto x) ∧
      (∀ x, nLab ≤ x → (primRun w top nLab f).f.predOf x = none ∧
                        (primRun w top nLab f).f.isProto x = false) ∧
      (primRun w top nLab f).f.label = f.label ∧ (primRun w top nLab f).f.plabel = f.plabel ∧
      (primRun w top nLab f).f.order = f.order ∧ (primRun w top nLab f).f.n = f.n ∧
      (primRun w top nLab f).f.Sized :=
  primRun_lawful w top nLab f hs hn hfresh hg

end Opf
