/-
C04 — zero resubstitution error on tie-free data.

Setting (`ResubSetting`, `Lemmas/Resub.lean`): a finished lawful run `sP` of prototype selection
(Prim + flagging, C02) on an instance `IP` whose pairwise distances are distinct and positive, and
a finished lawful run `sC` of the competition (C01) on the instance `IC` with the same samples,
weights and labels whose seeds are the prototypes flagged by `sP`.  Every tie-breaking of both
heaps is covered.  Then no sample of another class can conquer — or even tie for — a training
sample, every training sample is assigned its own label, and the exhaustive minimisers of the
prediction rule for a training sample used as query all carry its label.
-/
import OpfVerif.Lemmas.Resub
import OpfVerif.Props.C03
namespace Opf

open PrimInst CompInst

variable {IP : PrimInst} {sP : PState} {IC : CompInst} {pred0 : Nat → Option Nat}
  {lab0 : Nat → Nat} {sC : AState}

/-- a sample `s` of another class can never conquer `t`, nor tie with the conqueror of `t`: what
it offers, `max (cost s) (w s t)`, is strictly worse than the final cost of `t`. -/
theorem c04_other_class_strict (R : ResubSetting IP sP IC pred0 lab0 sC) (s t : Nat)
    (hs : s < IP.n) (ht : t < IP.n) (_hst : s ≠ t) (hlam : IP.lam s ≠ IP.lam t) :
    sC.cost t < max (sC.cost s) (IP.w s t) :=
  R.other_class_strict hs ht hlam

/-- every arc of the optimum-path forest joins samples of the same class. -/
theorem c04_no_cross_arc (R : ResubSetting IP sP IC pred0 lab0 sC) (t : Nat) (ht : t < IP.n)
    (x : Nat) (hx : sC.pred t = some x) : IP.lam x = IP.lam t := by
  have htC : t < IC.n := by rw [R.hn]; exact ht
  cases hseed : IC.seed t with
  | true =>
    have := (c01_seeds IC pred0 lab0 R.goodC sC R.reachC t htC hseed).2.1
    rw [this] at hx; cases hx
  | false =>
    obtain ⟨p, hp, hpn, _, hcost, _, _⟩ :=
      c01_link IC pred0 lab0 R.goodC sC R.reachC R.finalC t htC hseed
    rw [hx] at hp; cases hp
    by_contra hne
    have := R.other_class_strict (by rw [← R.hn]; exact hpn) ht hne
    rw [R.hw] at hcost
    omega

/-- zero resubstitution error, training side: every training sample ends with its own true
label as assigned label. -/
theorem c04_train_labels (R : ResubSetting IP sP IC pred0 lab0 sC) (t : Nat) (ht : t < IP.n) :
    sC.lab t = IP.lam t := by
  suffices h : ∀ m t, sC.order.idxOf t = m → t < IP.n → sC.lab t = IP.lam t from h _ t rfl ht
  intro m
  induction m using Nat.strongRecOn with
  | _ m ih =>
    intro t hm ht
    have htC : t < IC.n := by rw [R.hn]; exact ht
    cases hseed : IC.seed t with
    | true =>
      rw [(c01_seeds IC pred0 lab0 R.goodC sC R.reachC t htC hseed).2.2, R.hlam]
    | false =>
      obtain ⟨p, hp, hpn, _, _, hlab, hlt⟩ :=
        c01_link IC pred0 lab0 R.goodC sC R.reachC R.finalC t htC hseed
      have hpP : p < IP.n := by rw [← R.hn]; exact hpn
      rw [hlab, ih (sC.order.idxOf p) (by omega) p rfl hpP]
      exact c04_no_cross_arc R t ht p hp

/-- zero resubstitution error, prediction side: take training sample `t` as the query (distance
0 to itself, the training distance to every other sample).  Every sample `s` that does at least
as well as `t` itself under the prediction rule `max (cost s) (d s)` — in particular every
exhaustive minimiser, hence (C03, `c03_label_exhaustive`) the sample whose label `predict`
returns — carries the true label of `t`. -/
theorem c04_predict_train (R : ResubSetting IP sP IC pred0 lab0 sC) (t : Nat) (ht : t < IP.n)
    (s : Nat) (hs : s < IP.n)
    (hle : max (sC.cost s) (if s = t then 0 else IP.w s t) ≤ max (sC.cost t) 0) :
    sC.lab s = IP.lam t := by
  by_cases hst : s = t
  · subst hst; exact c04_train_labels R s hs
  · rw [if_neg hst] at hle
    by_cases hlam : IP.lam s = IP.lam t
    · rw [c04_train_labels R s hs, hlam]
    · have := R.other_class_strict hs ht hlam
      have := R.cost_nonneg t
      omega

/-- executable level: `fit` (the models `primRun` + `competeRun` driving the heap model) followed
by `predict` (`predictOne`) on tie-free data — symmetric, pairwise distinct, positive distances
below `top` (`TieFree`), at least two classes — reproduces every training label: the label
assigned to training sample `t` during training is `lab[t]`, and classifying `t` itself (distance
0 to itself, the training distance to the others) returns `lab[t]`.  Whatever the tie-breaking of
the heap: the statement goes through the relational theorems above. -/
theorem c04_exec (w : Nat → Nat → Int) (top : Int) (lab : Array Nat) (H : TieFree w top lab)
    (t : Nat) (ht : t < lab.size) :
    (fitRun w top false lab.size lab).f.plabelOf t = lab[t] ∧
    (predictOne (fitRun w top false lab.size lab).f (fun s => if s = t then 0 else w s t)).map
      (·.label) = some lab[t] := by
  obtain ⟨IP, sP, IC, pred0, lab0, sC, R, hn, hw, hlam, hfn, hord, hfields⟩ :=
    fitRun_resub w top lab H
  have htP : t < IP.n := by rw [hn]; exact ht
  have hlabt : IP.lam t = lab[t] := by rw [hlam]; simp [ht]
  refine ⟨by rw [(hfields t ht).2, c04_train_labels R t htP, hlabt], ?_⟩
  obtain ⟨_, hmem, _, hpw⟩ := CompInst.c01_order IC pred0 lab0 R.goodC sC R.reachC R.finalC
  have hmem' : ∀ x, x ∈ sC.order ↔ x < lab.size := by
    intro x; rw [hmem, R.hn, hn]
  have hsorted : OrderSorted (fitRun w top false lab.size lab).f := by
    unfold OrderSorted
    rw [hord]
    refine hpw.imp_of_mem ?_
    intro a b ha hb hab
    rw [(hfields a ((hmem' a).1 ha)).1, (hfields b ((hmem' b).1 hb)).1]
    exact hab
  have hall : ∀ x, x < (fitRun w top false lab.size lab).f.n →
      x ∈ (fitRun w top false lab.size lab).f.order.toList := by
    intro x hx; rw [hord, hmem']; rw [hfn] at hx; exact hx
  cases hpr : predictOne (fitRun w top false lab.size lab).f (fun s => if s = t then 0 else w s t) with
  | none =>
    have := (c03_none_iff _ _).1 hpr
    have h2 := hall t (by rw [hfn]; exact ht)
    rw [this] at h2; cases h2
  | some r =>
    obtain ⟨t', ht', hlab', hmin⟩ := c03_label_exhaustive _ _ hsorted hall r hpr
    have ht'n : t' < lab.size := by rw [hord] at ht'; exact (hmem' t').1 ht'
    have h := hmin t (by rw [hfn]; exact ht)
    simp only [if_true] at h
    rw [(hfields t' ht'n).1, (hfields t ht).1, ← hw] at h
    have := c04_predict_train R t htP t' (by rw [hn]; exact ht'n) h
    simp only [Option.map_some, Option.some.injEq]
    rw [hlab', (hfields t' ht'n).2, this, hlabt]

/-! ### non-vacuity -/

/-- the hypotheses of the relational theorems are satisfiable: a 4-sample tie-free instance with
both finished lawful runs (`c04_demo_setting`); there the prototypes are 1 and 2, and the theorems
give what direct evaluation of the final state shows. -/
example : ResubSetting c04IP c04SP c04IC c04SP.pred (fun _ => 0) c04SC ∧
    c04SP.order = [0, 1, 2, 3] ∧ c04SC.order = [1, 2, 0, 3] ∧
    (∀ t, t < 4 → c04SP.proto t = (t == 1 || t == 2)) ∧
    (∀ t, t < 4 → c04SC.lab t = c04IP.lam t) ∧ c04SC.cost 0 = 1 ∧ c04SC.cost 3 = 2 :=
  ⟨c04_demo_setting, by decide, by decide, by decide, by decide, by decide, by decide⟩

example (t : Nat) (ht : t < 4) : c04SC.lab t = c04IP.lam t :=
  c04_train_labels c04_demo_setting t ht

/-- the hypotheses of the executable-level statement are satisfiable, and it yields the training
labels of that instance. -/
example (t : Nat) (ht : t < 4) :
    (fitRun c04W 10 false 4 #[0, 0, 1, 1]).f.plabelOf t = #[0, 0, 1, 1][t] ∧
    (predictOne (fitRun c04W 10 false 4 #[0, 0, 1, 1]).f (fun s => if s = t then 0 else c04W s t)).map
      (·.label) = some #[0, 0, 1, 1][t] :=
  c04_exec c04W 10 #[0, 0, 1, 1] c04_demo_tiefree t ht

end Opf
