/-
C20 — the evaluation measures of `opfython/math/general.py` (`confusion_matrix`, `opf_accuracy`,
`opf_accuracy_per_label`, `purity`, `normalize`), model `OpfVerif/Model/Measures.lean`, instantiated
at `ℚ` (`cast k = (k : ℚ)`, `zero = 0`, `one = 1`); `normalize` over any field, then `ℝ`/`Real.sqrt`.

Domain `Measures.Dom K labels preds`: equal lengths, `1 ≤ K`, every label and prediction `< K`, every
class `< K` present among the labels.

* `c20_nclass`            both class counts (`nClass`, `nClassAcc`) are `K`;
* `c20_nanDiv_total`      a zero denominator of the error table has a zero numerator (numpy: only
                          `0/0 = nan` occurs and `nansum` drops it, never `x/0 = inf`);
* `c20_acc_formula`       `2 ≤ K`: no denominator is zero and
                          `acc = 1 - 1/(2K) · Σ_c (FP c / (N - n_c) + FN c / n_c)`;
                          `c20_acc_formula_all` is the same equation for every `K ≥ 1` (in `ℚ`,
                          `x / 0 = 0` coincides with the dropped `0/0` terms);
* `c20_acc_K1`            one class: accuracy `1`;
* `c20_acc_range`         `0 ≤ acc ≤ 1`;
* `c20_acc_one_iff`       `acc = 1 ↔ preds = labels`;
* `c20_confusion`         shape, entries and total of the confusion matrix;
* `c20_per_label_recall`  entry `c` is `1 - FN c / n_c = TP c / n_c`;
* `c20_purity_range`, `c20_purity_one_iff`;
* `c20_normalize_field`, `c20_normalize`, `c20_normalize_rat`
  (+ `c20_normalize_mean_zero`, `c20_normalize_var_one`);
* non-vacuity examples at the end (values checked against the Python code).
-/
import OpfVerif.Lemmas.Measures
import Mathlib.Analysis.Real.Sqrt
namespace Opf
open Measures

/-! ## instantiation at ℚ -/

abbrev opfAccuracyQ (labels preds : List Nat) : ℚ :=
  opfAccuracyG (fun k : Nat => (k : ℚ)) 0 1 labels preds
abbrev perLabelQ (labels preds : List Nat) : List ℚ :=
  perLabelG (fun k : Nat => (k : ℚ)) 1 labels preds
abbrev purityQ (labels preds : List Nat) : ℚ :=
  purityG (fun k : Nat => (k : ℚ)) 0 labels preds

/-! ## 1. class counts -/

theorem c20_nclass {K : Nat} {labels preds : List Nat} (h : Dom K labels preds) :
    nClass labels = K ∧ nClassAcc labels preds = K := by
  have h1 := foldl_max_dom h.pos h.lab_lt h.lab_all
  have h2 : preds.foldl max 0 ≤ K - 1 :=
    foldl_max_le_acc preds 0 _ (Nat.zero_le _) (fun x hx => by have := h.pred_lt x hx; omega)
  have := h.pos
  constructor
  · unfold nClass; omega
  · unfold nClassAcc; rw [h1, max_eq_left h2]; omega

/-- A zero denominator of the error table comes with a zero numerator: `nanDiv` only ever drops
`0/0`; no `x/0` with `x ≠ 0` (numpy `inf`) can occur.  Needs only equal lengths. -/
theorem c20_nanDiv_total {labels preds : List Nat} (hl : labels.length = preds.length) (c : Nat) :
    (labels.length - classCount labels c = 0 → falsePos labels preds c = 0) ∧
    (classCount labels c = 0 → falseNeg labels preds c = 0) := by
  have h1 := falsePos_le hl c
  have h2 := falseNeg_le hl c
  constructor <;> intro h <;> omega

/-! ## 2. the accuracy formula -/

namespace Measures

/-- the error term of class `c` -/
def errTerm (labels preds : List Nat) (c : Nat) : ℚ :=
  (falsePos labels preds c : ℚ) / ((labels.length : ℚ) - (classCount labels c : ℚ)) +
  (falseNeg labels preds c : ℚ) / (classCount labels c : ℚ)

theorem opfAccuracyQ_eq {K : Nat} {labels preds : List Nat} (h : Dom K labels preds) :
    opfAccuracyQ labels preds
      = 1 - (∑ c ∈ Finset.range K, errTerm labels preds c) / (2 * (K : ℚ)) := by
  unfold opfAccuracyQ opfAccuracyG
  simp only [(c20_nclass h).2, nanDiv_rat]
  rw [foldl_add_eq_sum, sum_map_range]
  congr 2
  · apply Finset.sum_congr rfl
    intro c _
    unfold errTerm
    rw [Nat.cast_sub (classCount_le labels c)]
  · push_cast; ring

theorem errTerm_bounds {labels preds : List Nat} (hl : labels.length = preds.length) (c : Nat) :
    (0 ≤ (falsePos labels preds c : ℚ) / ((labels.length : ℚ) - (classCount labels c : ℚ)) ∧
      (falsePos labels preds c : ℚ) / ((labels.length : ℚ) - (classCount labels c : ℚ)) ≤ 1) ∧
    (0 ≤ (falseNeg labels preds c : ℚ) / (classCount labels c : ℚ) ∧
      (falseNeg labels preds c : ℚ) / (classCount labels c : ℚ) ≤ 1) := by
  have h1 : (falsePos labels preds c : ℚ) ≤ ((labels.length - classCount labels c : ℕ) : ℚ) := by
    exact_mod_cast falsePos_le hl c
  rw [Nat.cast_sub (classCount_le labels c)] at h1
  have h2 : (falseNeg labels preds c : ℚ) ≤ (classCount labels c : ℚ) := by
    exact_mod_cast falseNeg_le hl c
  have h3 : (0 : ℚ) ≤ (falsePos labels preds c : ℚ) := Nat.cast_nonneg _
  have h4 : (0 : ℚ) ≤ (falseNeg labels preds c : ℚ) := Nat.cast_nonneg _
  refine ⟨⟨div_nonneg h3 (le_trans h3 h1), div_le_one_of_le₀ h1 (le_trans h3 h1)⟩,
    ⟨div_nonneg h4 (le_trans h4 h2), div_le_one_of_le₀ h2 (le_trans h4 h2)⟩⟩

theorem errTerm_nonneg {labels preds : List Nat} (hl : labels.length = preds.length) (c : Nat) :
    0 ≤ errTerm labels preds c := by
  have := errTerm_bounds hl c; unfold errTerm; linarith [this.1.1, this.2.1]

theorem errTerm_le_two {labels preds : List Nat} (hl : labels.length = preds.length) (c : Nat) :
    errTerm labels preds c ≤ 2 := by
  have := errTerm_bounds hl c; unfold errTerm; linarith [this.1.2, this.2.2]

theorem falseNeg_self (labels : List Nat) (c : Nat) : falseNeg labels labels c = 0 := by
  rw [falseNeg, countPairs_eq_countP, List.countP_eq_zero]
  intro x hx; simp [mem_zip_self hx]

theorem falsePos_self (labels : List Nat) (c : Nat) : falsePos labels labels c = 0 := by
  rw [falsePos, countPairs_eq_countP, List.countP_eq_zero]
  intro x hx; simp [mem_zip_self hx]

theorem preds_eq_of_falseNeg {K : Nat} {labels preds : List Nat} (h : Dom K labels preds)
    (h0 : ∀ c, c < K → falseNeg labels preds c = 0) : preds = labels := by
  apply eq_of_zip_diag h.len
  intro x hx
  by_contra hne
  have hlt := h.lab_lt x.1 (List.of_mem_zip hx).1
  have := h0 x.1 hlt
  rw [falseNeg, countPairs_eq_countP, List.countP_eq_zero] at this
  exact this x hx (by simp [hne])

theorem dom_one_preds_eq {labels preds : List Nat} (h : Dom 1 labels preds) : preds = labels := by
  apply eq_of_zip_diag h.len
  intro x hx
  have h1 := h.lab_lt x.1 (List.of_mem_zip hx).1
  have h2 := h.pred_lt x.2 (List.of_mem_zip hx).2
  omega

end Measures

/-- For `2 ≤ K` every class is present and is not everything: no denominator vanishes. -/
theorem c20_denoms {K : Nat} {labels preds : List Nat} (h : Dom K labels preds) (hK : 2 ≤ K)
    {c : Nat} (hc : c < K) :
    0 < classCount labels c ∧ classCount labels c < labels.length := by
  refine ⟨classCount_pos (h.lab_all c hc), ?_⟩
  by_cases h0 : c = 0
  · exact classCount_lt (h.lab_all 1 (by omega)) (by omega)
  · exact classCount_lt (h.lab_all 0 (by omega)) (by omega)

/-- The formula in the form valid for every `K ≥ 1` (for `K = 1` the `0/0` terms dropped by `nanDiv`
are `0` in `ℚ` as well). -/
theorem c20_acc_formula_all {K : Nat} {labels preds : List Nat} (h : Dom K labels preds) :
    opfAccuracyQ labels preds
      = 1 - (1 / (2 * (K : ℚ))) * ∑ c ∈ Finset.range K,
          ((falsePos labels preds c : ℚ) / ((labels.length : ℚ) - (classCount labels c : ℚ)) +
           (falseNeg labels preds c : ℚ) / (classCount labels c : ℚ)) := by
  rw [opfAccuracyQ_eq h]; unfold errTerm; ring

theorem c20_acc_formula {K : Nat} {labels preds : List Nat} (h : Dom K labels preds) (hK : 2 ≤ K) :
    (∀ c, c < K → (classCount labels c : ℚ) ≠ 0 ∧
        (labels.length : ℚ) - (classCount labels c : ℚ) ≠ 0) ∧
    opfAccuracyQ labels preds
      = 1 - (1 / (2 * (K : ℚ))) * ∑ c ∈ Finset.range K,
          ((falsePos labels preds c : ℚ) / ((labels.length : ℚ) - (classCount labels c : ℚ)) +
           (falseNeg labels preds c : ℚ) / (classCount labels c : ℚ)) := by
  refine ⟨?_, c20_acc_formula_all h⟩
  intro c hc
  obtain ⟨h1, h2⟩ := c20_denoms h hK hc
  have h1q : (0 : ℚ) < (classCount labels c : ℚ) := by exact_mod_cast h1
  have h2q : (classCount labels c : ℚ) < (labels.length : ℚ) := by exact_mod_cast h2
  exact ⟨h1q.ne', by linarith⟩

/-! ## 3. range -/

theorem c20_acc_range {K : Nat} {labels preds : List Nat} (h : Dom K labels preds) :
    0 ≤ opfAccuracyQ labels preds ∧ opfAccuracyQ labels preds ≤ 1 := by
  rw [opfAccuracyQ_eq h]
  have hK : (0 : ℚ) < 2 * (K : ℚ) := by have := h.pos; positivity
  have h0 : 0 ≤ ∑ c ∈ Finset.range K, errTerm labels preds c :=
    Finset.sum_nonneg (fun c _ => errTerm_nonneg h.len c)
  have h2 : ∑ c ∈ Finset.range K, errTerm labels preds c ≤ 2 * (K : ℚ) := by
    calc _ ≤ ∑ _c ∈ Finset.range K, (2 : ℚ) := Finset.sum_le_sum (fun c _ => errTerm_le_two h.len c)
      _ = 2 * (K : ℚ) := by simp [mul_comm]
  constructor
  · rw [sub_nonneg, div_le_one hK]; exact h2
  · have := div_nonneg h0 hK.le; linarith

/-! ## 4. accuracy one ↔ every prediction correct -/

theorem c20_acc_one_iff {K : Nat} {labels preds : List Nat} (h : Dom K labels preds) :
    opfAccuracyQ labels preds = 1 ↔ preds = labels := by
  rw [opfAccuracyQ_eq h]
  have hK : (0 : ℚ) < 2 * (K : ℚ) := by have := h.pos; positivity
  constructor
  · intro he
    have hs : ∑ c ∈ Finset.range K, errTerm labels preds c = 0 := by
      have : (∑ c ∈ Finset.range K, errTerm labels preds c) / (2 * (K : ℚ)) = 0 := by linarith
      rcases div_eq_zero_iff.1 this with h1 | h1
      · exact h1
      · exact absurd h1 hK.ne'
    rw [Finset.sum_eq_zero_iff_of_nonneg (fun c _ => errTerm_nonneg h.len c)] at hs
    apply preds_eq_of_falseNeg h
    intro c hc
    have hc0 := hs c (Finset.mem_range.2 hc)
    have hb := errTerm_bounds h.len c
    unfold errTerm at hc0
    have h2 : (falseNeg labels preds c : ℚ) / (classCount labels c : ℚ) = 0 := by
      linarith [hb.1.1, hb.2.1]
    have hpos : (0 : ℚ) < (classCount labels c : ℚ) := by
      exact_mod_cast classCount_pos (h.lab_all c hc)
    rcases div_eq_zero_iff.1 h2 with h3 | h3
    · exact_mod_cast h3
    · exact absurd h3 hpos.ne'
  · intro he
    rw [he]
    have : ∑ c ∈ Finset.range K, errTerm labels labels c = 0 := by
      apply Finset.sum_eq_zero
      intro c _; unfold errTerm; rw [falseNeg_self, falsePos_self]; simp
    rw [this]; simp

theorem c20_acc_K1 {labels preds : List Nat} (h : Dom 1 labels preds) :
    opfAccuracyQ labels preds = 1 := (c20_acc_one_iff h).2 (dom_one_preds_eq h)

/-! ## 5. confusion matrix -/

namespace Measures

/-- entry `[a][b]` of the confusion matrix as a count -/
def cm (labels preds : List Nat) (a b : Nat) : Nat :=
  countPairs (fun l p => l == a && p == b) labels preds

/-- column `b` sums to the number of samples predicted `b` -/
theorem cm_col_sum {K : Nat} {labels preds : List Nat} (h : Dom K labels preds) (b : Nat) :
    ∑ a ∈ Finset.range K, cm labels preds a b = (labels.zip preds).countP (fun lp => lp.2 == b) := by
  simp only [cm, countPairs_eq_countP]
  exact sum_countP_fiber K (fun lp : Nat × Nat => lp.1) (fun lp => lp.2 == b) _
    (fun x hx => h.lab_lt x.1 (List.of_mem_zip hx).1)

theorem cm_total {K : Nat} {labels preds : List Nat} (h : Dom K labels preds) :
    ∑ b ∈ Finset.range K, ∑ a ∈ Finset.range K, cm labels preds a b = labels.length := by
  simp only [cm_col_sum h]
  have := sum_countP_fiber K (fun lp : Nat × Nat => lp.2) (fun _ => true) (labels.zip preds)
    (fun x hx => h.pred_lt x.2 (List.of_mem_zip hx).2)
  simp only [Bool.and_true] at this
  rw [this, List.countP_true, List.length_zip, ← h.len, Nat.min_self]

theorem confusion_entry (labels preds : List Nat) {a b : Nat} (ha : a < nClass labels)
    (hb : b < nClass labels) :
    ((confusion labels preds).getD a []).getD b 0 = cm labels preds a b := by
  simp [confusion, List.getD_eq_getElem?_getD, ha, hb, cm]

end Measures

/-- `nClass labels` rows of `nClass labels` entries; entry `[a][b]` counts the samples of true class
`a` predicted `b`; under `Dom` the entries add up to the number of samples. -/
theorem c20_confusion (labels preds : List Nat) :
    (confusion labels preds).length = nClass labels ∧
    (∀ row ∈ confusion labels preds, row.length = nClass labels) ∧
    (∀ a b, a < nClass labels → b < nClass labels →
      ((confusion labels preds).getD a []).getD b 0
        = countPairs (fun l p => l == a && p == b) labels preds) ∧
    (∀ K, Dom K labels preds →
      ((confusion labels preds).map List.sum).sum = labels.length) := by
  refine ⟨by simp [confusion], ?_, fun a b ha hb => confusion_entry labels preds ha hb, ?_⟩
  · intro row hrow
    simp only [confusion, List.mem_map] at hrow
    obtain ⟨a, _, rfl⟩ := hrow
    simp
  · intro K h
    simp only [confusion, (c20_nclass h).1, List.map_map]
    rw [nat_sum_map_range]
    simp only [Function.comp, nat_sum_map_range]
    rw [Finset.sum_comm]
    exact cm_total h

/-! ## 6. per-label accuracy = recall -/

theorem Measures.classCount_split {labels preds : List Nat} (hl : labels.length = preds.length)
    (c : Nat) : classCount labels c = falseNeg labels preds c + cm labels preds c c := by
  rw [classCount_eq_zip hl, falseNeg, cm, countPairs_eq_countP, countPairs_eq_countP]
  apply countP_split
  intro x _
  obtain ⟨l, p⟩ := x
  by_cases h1 : l = c
  · subst h1
    by_cases h2 : p = l
    · subst h2; simp
    · simp [h2, Ne.symm h2]
  · have : (l == c) = false := by simpa using h1
    simp [this]

theorem c20_per_label_recall {K : Nat} {labels preds : List Nat} (h : Dom K labels preds) :
    ∀ c, c < K →
      (perLabelQ labels preds)[c]?
        = some (1 - (falseNeg labels preds c : ℚ) / (classCount labels c : ℚ)) ∧
      1 - (falseNeg labels preds c : ℚ) / (classCount labels c : ℚ)
        = (countPairs (fun l p => l == c && p == c) labels preds : ℚ)
            / (classCount labels c : ℚ) := by
  intro c hc
  constructor
  · simp [perLabelQ, perLabelG, (c20_nclass h).1, hc]
  · have hpos : (0 : ℚ) < (classCount labels c : ℚ) := by
      exact_mod_cast classCount_pos (h.lab_all c hc)
    have hs : (classCount labels c : ℚ)
        = (falseNeg labels preds c : ℚ) + (cm labels preds c c : ℚ) := by
      exact_mod_cast classCount_split h.len c
    unfold cm at hs
    field_simp
    linarith

/-! ## 7. purity -/

namespace Measures

/-- largest entry of column `b` of the confusion matrix -/
def colMax (labels preds : List Nat) (K b : Nat) : Nat := maxOver (fun a => cm labels preds a b) K

theorem purityQ_eq {K : Nat} {labels preds : List Nat} (h : Dom K labels preds) :
    purityQ labels preds
      = ((∑ b ∈ Finset.range K, colMax labels preds K b : ℕ) : ℚ) / (labels.length : ℚ) := by
  have hK := (c20_nclass h).1
  unfold purityQ purityG
  simp only [hK, List.map_map]
  rw [foldl_add_eq_sum, sum_map_range, Nat.cast_sum]
  congr 1
  apply Finset.sum_congr rfl
  intro b hb
  simp only [Function.comp, colMax, maxOver]
  congr 2
  apply List.map_congr_left
  intro a ha
  exact confusion_entry labels preds (by rw [hK]; exact List.mem_range.1 ha)
    (by rw [hK]; exact Finset.mem_range.1 hb)

theorem length_pos_of_dom {K : Nat} {labels preds : List Nat} (h : Dom K labels preds) :
    0 < labels.length := List.length_pos_of_mem (h.lab_all 0 h.pos)

theorem colMax_sum_le {K : Nat} {labels preds : List Nat} (h : Dom K labels preds) :
    ∑ b ∈ Finset.range K, colMax labels preds K b ≤ labels.length := by
  rw [← cm_total h]
  exact Finset.sum_le_sum (fun b _ => maxOver_le_sum _ K)

theorem cm_pos_lt {K : Nat} {labels preds : List Nat} (h : Dom K labels preds) {a b : Nat}
    (hp : 0 < cm labels preds a b) : a < K := by
  rw [cm, countPairs_eq_countP, List.countP_pos_iff] at hp
  obtain ⟨x, hx, hpx⟩ := hp
  simp only [Bool.and_eq_true, beq_iff_eq] at hpx
  rw [← hpx.1]; exact h.lab_lt x.1 (List.of_mem_zip hx).1

end Measures

theorem c20_purity_range {K : Nat} {labels preds : List Nat} (h : Dom K labels preds) :
    0 < purityQ labels preds ∧ purityQ labels preds ≤ 1 := by
  rw [purityQ_eq h]
  have hN := length_pos_of_dom h
  have hNq : (0 : ℚ) < (labels.length : ℚ) := by exact_mod_cast hN
  constructor
  · apply div_pos _ hNq
    have : 0 < ∑ b ∈ Finset.range K, colMax labels preds K b := by
      by_contra h0
      have h0 : ∑ b ∈ Finset.range K, colMax labels preds K b = 0 := by omega
      rw [Finset.sum_eq_zero_iff] at h0
      have : ∑ b ∈ Finset.range K, ∑ a ∈ Finset.range K, cm labels preds a b = 0 := by
        apply Finset.sum_eq_zero; intro b hb
        apply Finset.sum_eq_zero; intro a ha
        have h1 := le_maxOver (fun a => cm labels preds a b) (Finset.mem_range.1 ha)
        have h2 := h0 b hb
        unfold colMax at h2
        omega
      rw [cm_total h] at this; omega
    exact_mod_cast this
  · rw [div_le_one hNq]
    exact_mod_cast colMax_sum_le h

/-- purity is `1` exactly when every predicted group contains samples of a single true class -/
theorem c20_purity_one_iff {K : Nat} {labels preds : List Nat} (h : Dom K labels preds) :
    purityQ labels preds = 1 ↔
      ∀ b, b < K → ∀ a a',
        0 < countPairs (fun l p => l == a && p == b) labels preds →
        0 < countPairs (fun l p => l == a' && p == b) labels preds → a = a' := by
  rw [purityQ_eq h]
  have hN := length_pos_of_dom h
  have hNq : (0 : ℚ) < (labels.length : ℚ) := by exact_mod_cast hN
  rw [div_eq_one_iff_eq hNq.ne']
  have step1 : ((∑ b ∈ Finset.range K, colMax labels preds K b : ℕ) : ℚ) = (labels.length : ℚ) ↔
      ∑ b ∈ Finset.range K, colMax labels preds K b
        = ∑ b ∈ Finset.range K, ∑ a ∈ Finset.range K, cm labels preds a b := by
    rw [cm_total h]; exact Nat.cast_inj
  have step2 := Finset.sum_eq_sum_iff_of_le (s := Finset.range K)
    (f := fun b => colMax labels preds K b)
    (g := fun b => ∑ a ∈ Finset.range K, cm labels preds a b) (fun b _ => maxOver_le_sum _ K)
  rw [step1, step2]
  constructor
  · intro he b hb a a' hp hp'
    have := (maxOver_eq_sum_iff (fun a => cm labels preds a b) K).1 (he b (Finset.mem_range.2 hb))
    exact this a (cm_pos_lt h hp) a' (cm_pos_lt h hp') hp hp'
  · intro hu b hb
    apply (maxOver_eq_sum_iff (fun a => cm labels preds a b) K).2
    intro a _ a' _ hp hp'
    exact hu b (Finset.mem_range.1 hb) a a' hp hp'

/-! ## 8. normalize -/

/-- `normalize` on one column over any field, `sqrt` abstract: `(v - mean) / sqrt var` with
`mean = Σ col / n` and the population variance `var = Σ (v - mean)² / n`. -/
theorem c20_normalize_field {α : Type} [Field α] (sqrt : α → α) (col : List α) :
    normalizeColG (fun k : Nat => (k : α)) 0 sqrt col
      = col.map (fun v => (v - col.sum / (col.length : α)) /
          sqrt ((col.map (fun w => (w - col.sum / (col.length : α)) ^ 2)).sum
                  / (col.length : α))) := by
  unfold normalizeColG
  simp only [← List.sum_eq_foldl, ← sq]

theorem c20_normalize (col : List ℝ) :
    normalizeColG (fun k : Nat => (k : ℝ)) 0 Real.sqrt col
      = (let n : ℝ := (col.length : ℝ)
         let mean := col.sum / n
         let var := (col.map (fun v => (v - mean) ^ 2)).sum / n
         col.map (fun v => (v - mean) / Real.sqrt var)) :=
  c20_normalize_field Real.sqrt col

theorem c20_normalize_rat (sqrt : ℚ → ℚ) (col : List ℚ) :
    normalizeColG (fun k : Nat => (k : ℚ)) 0 sqrt col
      = (let n : ℚ := (col.length : ℚ)
         let mean := col.sum / n
         let var := (col.map (fun v => (v - mean) ^ 2)).sum / n
         col.map (fun v => (v - mean) / sqrt var)) :=
  c20_normalize_field sqrt col

/-- the normalized column has mean `0` (its sum is `0`) -/
theorem c20_normalize_mean_zero (col : List ℝ) :
    (normalizeColG (fun k : Nat => (k : ℝ)) 0 Real.sqrt col).sum = 0 := by
  rw [c20_normalize_field, sum_map_sub_div]
  rcases col with _ | ⟨x, xs⟩
  · simp
  · have hn : ((x :: xs).length : ℝ) ≠ 0 := by
      simp only [List.length_cons]; exact_mod_cast Nat.succ_ne_zero xs.length
    rw [mul_div_cancel₀ _ hn, sub_self, zero_div]

/-- … and, when the population variance is positive, population variance `1` -/
theorem c20_normalize_var_one (col : List ℝ)
    (hv : 0 < (col.map (fun w => (w - col.sum / (col.length : ℝ)) ^ 2)).sum / (col.length : ℝ)) :
    ((normalizeColG (fun k : Nat => (k : ℝ)) 0 Real.sqrt col).map (fun u => u ^ 2)).sum
      / (col.length : ℝ) = 1 := by
  rw [c20_normalize_field, List.map_map]
  simp only [Function.comp_def]
  rw [sum_map_sq_div, Real.sq_sqrt hv.le, div_right_comm, div_self hv.ne']

/-! ## 9. non-vacuity: 3 classes, 7 samples (values agree with the Python code) -/

theorem c20_example_dom : Dom 3 [0, 0, 1, 1, 2, 2, 2] [0, 1, 1, 1, 2, 0, 2] :=
  ⟨by decide, by decide, by decide, by decide, by decide⟩

example : opfAccuracyQ [0, 0, 1, 1, 2, 2, 2] [0, 1, 1, 1, 2, 0, 2] = 143 / 180 := by
  decide +kernel
example : confusion [0, 0, 1, 1, 2, 2, 2] [0, 1, 1, 1, 2, 0, 2] = [[1, 1, 0], [0, 2, 0], [1, 0, 2]] := by
  decide
example : perLabelQ [0, 0, 1, 1, 2, 2, 2] [0, 1, 1, 1, 2, 0, 2] = [1 / 2, 1, 2 / 3] := by
  decide +kernel
example : purityQ [0, 0, 1, 1, 2, 2, 2] [0, 1, 1, 1, 2, 0, 2] = 5 / 7 := by
  decide +kernel
/-- the formula evaluated on the example -/
example :
    1 - (1 / (2 * ((3 : ℕ) : ℚ))) * ∑ c ∈ Finset.range 3,
      ((falsePos [0, 0, 1, 1, 2, 2, 2] [0, 1, 1, 1, 2, 0, 2] c : ℚ) /
          ((([0, 0, 1, 1, 2, 2, 2] : List Nat).length : ℚ)
            - (classCount [0, 0, 1, 1, 2, 2, 2] c : ℚ)) +
        (falseNeg [0, 0, 1, 1, 2, 2, 2] [0, 1, 1, 1, 2, 0, 2] c : ℚ) /
          (classCount [0, 0, 1, 1, 2, 2, 2] c : ℚ)) = 143 / 180 := by
  rw [← (c20_acc_formula c20_example_dom (by decide)).2]; decide +kernel
/-- one class: accuracy and purity `1` -/
example : Dom 1 [0, 0, 0] [0, 0, 0] := ⟨by decide, by decide, by decide, by decide, by decide⟩
example : opfAccuracyQ [0, 0, 0] [0, 0, 0] = 1 := by decide +kernel
/-- a pure but wrong clustering (groups renamed): purity `1`, accuracy `< 1` -/
example : purityQ [0, 0, 1, 1, 2, 2, 2] [1, 1, 2, 2, 0, 0, 0] = 1 := by decide +kernel
example : opfAccuracyQ [0, 0, 1, 1, 2, 2, 2] [1, 1, 2, 2, 0, 0, 0] = 1 / 4 := by decide +kernel

end Opf
