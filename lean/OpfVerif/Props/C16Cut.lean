/-
C16 (cut) — `UnsupervisedOPF._normalized_cut` (`opfython/models/unsupervised.py`), model `cutSums` /
`normalizedCutG` (section `Cut` at the end of `OpfVerif/Model/Knn.lean`), instantiated at `ℝ`
(`cutSumsR`, `normalizedCutR`; the `Float` instance of the same text is the one compared with the code).

The visited arcs are `ncArcs adj nplat k n` = for `i < n`, the first `nplat[i] + k` entries of `adj[i]`.

(1) `c16_cut_sums_size`, `c16_cut_sums_nonneg`   both arrays have `nclusters` cells, all `≥ 0`;
(2) `c16_cut_eq_sum`, `c16_cut_range`            `cut = Σ_{l<nclusters} [0 < i+e] e/(i+e)`, `0 ≤ cut ≤ nclusters`;
(3) `c16_cut_zero_iff`, `c16_cut_external_zero_iff`, `c16_cut_zero_iff_arcs`
        `cut = 0` iff every external sum is `0` iff no visited arc of positive length leaves its
        cluster (the last step, direction `→`, needs the cluster ids in range);
(4) `c16_cut_internal_eq`, `c16_cut_external_eq`  for `l < nclusters` the cells are the sums of
        `1 / dist i j` over the visited arcs with `0 < dist i j`, `clu i = l` and `clu j = l`
        (resp. `clu j ≠ l`); generic accumulator lemmas `ncFold_fst`, `ncFold_snd`;
(5) concrete 4-node examples.
-/
import OpfVerif.Model.Knn
import Mathlib.Data.Real.Basic
import Mathlib.Algebra.BigOperators.Group.List.Basic
import Mathlib.Algebra.Order.BigOperators.Group.List
import Mathlib.Tactic.Linarith
import Mathlib.Tactic.Positivity
import Mathlib.Tactic.NormNum
namespace Opf

noncomputable abbrev cutSumsR (dist : Nat → Nat → ℝ) (adj : Array (List Nat)) (nplat : Array Nat)
    (k : Nat) (clu : Nat → Nat) (n nclusters : Nat) : Array ℝ × Array ℝ :=
  @cutSums ℝ _ _ _ (Classical.decRel _) 0 1 dist adj nplat k clu n nclusters

noncomputable abbrev normalizedCutR (dist : Nat → Nat → ℝ) (adj : Array (List Nat))
    (nplat : Array Nat) (k : Nat) (clu : Nat → Nat) (n nclusters : Nat) : ℝ :=
  @normalizedCutG ℝ _ _ _ (Classical.decRel _) 0 1 dist adj nplat k clu n nclusters

/-- the arcs visited by `_normalized_cut`, in visiting order. -/
def ncArcs (adj : Array (List Nat)) (nplat : Array Nat) (k n : Nat) : List (Nat × Nat) :=
  (List.range n).flatMap (fun i => ((adj.getD i []).take (nplat.getD i 0 + k)).map (fun j => (i, j)))

theorem mem_ncArcs {adj : Array (List Nat)} {nplat : Array Nat} {k n : Nat} {p : Nat × Nat} :
    p ∈ ncArcs adj nplat k n ↔ p.1 < n ∧ p.2 ∈ (adj.getD p.1 []).take (nplat.getD p.1 0 + k) := by
  obtain ⟨i, j⟩ := p
  simp only [ncArcs, List.mem_flatMap, List.mem_range, List.mem_map, Prod.mk.injEq]
  constructor
  · rintro ⟨a, ha, b, hb, rfl, rfl⟩; exact ⟨ha, hb⟩
  · rintro ⟨h1, h2⟩; exact ⟨i, h1, j, h2, rfl, rfl⟩

/-- one arc of the accumulation loop. -/
noncomputable def ncStep (dist : Nat → Nat → ℝ) (clu : Nat → Nat) (acc : Array ℝ × Array ℝ)
    (p : Nat × Nat) : Array ℝ × Array ℝ :=
  @ite _ (0 < dist p.1 p.2) (Classical.decRel _ _ _)
    (if clu p.1 = clu p.2 then
      (acc.1.setIfInBounds (clu p.1) (acc.1.getD (clu p.1) 0 + 1 / dist p.1 p.2), acc.2)
     else (acc.1, acc.2.setIfInBounds (clu p.1) (acc.2.getD (clu p.1) 0 + 1 / dist p.1 p.2)))
    acc

theorem cutSumsR_eq_foldl (dist : Nat → Nat → ℝ) (adj : Array (List Nat)) (nplat : Array Nat)
    (k : Nat) (clu : Nat → Nat) (n nclusters : Nat) :
    cutSumsR dist adj nplat k clu n nclusters =
      (ncArcs adj nplat k n).foldl (ncStep dist clu)
        (Array.replicate nclusters 0, Array.replicate nclusters 0) := by
  unfold cutSumsR cutSums ncArcs
  rw [List.foldl_flatMap]
  simp only [List.foldl_map]
  rfl


/-! ### one step -/

theorem getD_setIfInBounds_real (a : Array ℝ) (i l : Nat) (v : ℝ) :
    (a.setIfInBounds i v).getD l 0 = if i = l ∧ l < a.size then v else a.getD l 0 := by
  simp only [Array.getD_eq_getD_getElem?, Array.getElem?_setIfInBounds]
  split_ifs <;> simp_all

/-- weight of an arc. -/
noncomputable def ncW (dist : Nat → Nat → ℝ) (p : Nat × Nat) : ℝ := 1 / dist p.1 p.2

/-- the arc counts for the internal sum of cluster `l`. -/
def IntArc (dist : Nat → Nat → ℝ) (clu : Nat → Nat) (l : Nat) (p : Nat × Nat) : Prop :=
  0 < dist p.1 p.2 ∧ clu p.1 = l ∧ clu p.2 = l

/-- the arc counts for the external sum of cluster `l`. -/
def ExtArc (dist : Nat → Nat → ℝ) (clu : Nat → Nat) (l : Nat) (p : Nat × Nat) : Prop :=
  0 < dist p.1 p.2 ∧ clu p.1 = l ∧ clu p.2 ≠ l

noncomputable instance IntArc.dec (dist : Nat → Nat → ℝ) (clu : Nat → Nat) (l : Nat) :
    DecidablePred (IntArc dist clu l) :=
  fun p => inferInstanceAs (Decidable (0 < dist p.1 p.2 ∧ clu p.1 = l ∧ clu p.2 = l))

noncomputable instance ExtArc.dec (dist : Nat → Nat → ℝ) (clu : Nat → Nat) (l : Nat) :
    DecidablePred (ExtArc dist clu l) :=
  fun p => inferInstanceAs (Decidable (0 < dist p.1 p.2 ∧ clu p.1 = l ∧ clu p.2 ≠ l))

theorem ncStep_size (dist : Nat → Nat → ℝ) (clu : Nat → Nat) (acc : Array ℝ × Array ℝ)
    (p : Nat × Nat) :
    (ncStep dist clu acc p).1.size = acc.1.size ∧ (ncStep dist clu acc p).2.size = acc.2.size := by
  unfold ncStep
  split_ifs <;> simp

theorem ncStep_fst (dist : Nat → Nat → ℝ) (clu : Nat → Nat) (acc : Array ℝ × Array ℝ)
    (p : Nat × Nat) (l : Nat) [Decidable (IntArc dist clu l p)] (hl : l < acc.1.size) :
    (ncStep dist clu acc p).1.getD l 0 =
      acc.1.getD l 0 + if IntArc dist clu l p then ncW dist p else 0 := by
  unfold ncStep ncW
  by_cases hd : 0 < dist p.1 p.2
  · rw [if_pos hd]
    by_cases hc : clu p.1 = clu p.2
    · rw [if_pos hc]
      simp only [getD_setIfInBounds_real]
      by_cases h1 : clu p.1 = l
      · have h2 : clu p.2 = l := hc ▸ h1
        rw [if_pos ⟨h1, hl⟩, if_pos (show IntArc dist clu l p from ⟨hd, h1, h2⟩), h1]
      · rw [if_neg (fun h => h1 h.1), if_neg (fun h : IntArc dist clu l p => h1 h.2.1), add_zero]
    · rw [if_neg hc]
      by_cases h1 : clu p.1 = l
      · rw [if_neg (fun h : IntArc dist clu l p => hc (h.2.1.trans h.2.2.symm)), add_zero]
      · rw [if_neg (fun h : IntArc dist clu l p => h1 h.2.1), add_zero]
  · rw [if_neg hd, if_neg (fun h : IntArc dist clu l p => hd h.1), add_zero]

theorem ncStep_snd (dist : Nat → Nat → ℝ) (clu : Nat → Nat) (acc : Array ℝ × Array ℝ)
    (p : Nat × Nat) (l : Nat) [Decidable (ExtArc dist clu l p)] (hl : l < acc.2.size) :
    (ncStep dist clu acc p).2.getD l 0 =
      acc.2.getD l 0 + if ExtArc dist clu l p then ncW dist p else 0 := by
  unfold ncStep ncW
  by_cases hd : 0 < dist p.1 p.2
  · rw [if_pos hd]
    by_cases hc : clu p.1 = clu p.2
    · rw [if_pos hc, if_neg (fun h : ExtArc dist clu l p => h.2.2 (hc ▸ h.2.1)), add_zero]
    · rw [if_neg hc]
      simp only [getD_setIfInBounds_real]
      by_cases h1 : clu p.1 = l
      · have h2 : clu p.2 ≠ l := fun h => hc (h1.trans h.symm)
        rw [if_pos ⟨h1, hl⟩, if_pos (show ExtArc dist clu l p from ⟨hd, h1, h2⟩), h1]
      · rw [if_neg (fun h => h1 h.1), if_neg (fun h : ExtArc dist clu l p => h1 h.2.1), add_zero]
  · rw [if_neg hd, if_neg (fun h : ExtArc dist clu l p => hd h.1), add_zero]

/-! ### the fold -/

theorem ncFold_size (dist : Nat → Nat → ℝ) (clu : Nat → Nat) (L : List (Nat × Nat)) :
    ∀ acc : Array ℝ × Array ℝ,
      (L.foldl (ncStep dist clu) acc).1.size = acc.1.size ∧
      (L.foldl (ncStep dist clu) acc).2.size = acc.2.size := by
  induction L with
  | nil => intro acc; exact ⟨rfl, rfl⟩
  | cons p L ih =>
    intro acc
    rw [List.foldl_cons]
    have h := ncStep_size dist clu acc p
    exact ⟨(ih _).1.trans h.1, (ih _).2.trans h.2⟩

/-- generic accumulator lemma: after folding the arcs `L` from `acc`, each internal cell is its
initial value plus the sum of `1/dist` over the arcs of `L` counted for it. -/
theorem ncFold_fst (dist : Nat → Nat → ℝ) (clu : Nat → Nat) (l : Nat)
    [DecidablePred (IntArc dist clu l)] (L : List (Nat × Nat)) :
    ∀ (acc : Array ℝ × Array ℝ), l < acc.1.size →
      (L.foldl (ncStep dist clu) acc).1.getD l 0 =
        acc.1.getD l 0 + ((L.filter (fun p => decide (IntArc dist clu l p))).map (ncW dist)).sum := by
  induction L with
  | nil => intro acc _; simp
  | cons p L ih =>
    intro acc hl
    rw [List.foldl_cons, ih _ (by rw [(ncStep_size dist clu acc p).1]; exact hl),
      ncStep_fst dist clu acc p l hl, List.filter_cons]
    by_cases h : IntArc dist clu l p
    · simp [h, add_assoc]
    · simp [h]

theorem ncFold_snd (dist : Nat → Nat → ℝ) (clu : Nat → Nat) (l : Nat)
    [DecidablePred (ExtArc dist clu l)] (L : List (Nat × Nat)) :
    ∀ (acc : Array ℝ × Array ℝ), l < acc.2.size →
      (L.foldl (ncStep dist clu) acc).2.getD l 0 =
        acc.2.getD l 0 + ((L.filter (fun p => decide (ExtArc dist clu l p))).map (ncW dist)).sum := by
  induction L with
  | nil => intro acc _; simp
  | cons p L ih =>
    intro acc hl
    rw [List.foldl_cons, ih _ (by rw [(ncStep_size dist clu acc p).2]; exact hl),
      ncStep_snd dist clu acc p l hl, List.filter_cons]
    by_cases h : ExtArc dist clu l p
    · simp [h, add_assoc]
    · simp [h]


/-! ### the sums -/

section Main
variable (dist : Nat → Nat → ℝ) (adj : Array (List Nat)) (nplat : Array Nat) (k : Nat)
  (clu : Nat → Nat) (n nclusters : Nat)

theorem c16_cut_sums_size :
    (cutSumsR dist adj nplat k clu n nclusters).1.size = nclusters ∧
    (cutSumsR dist adj nplat k clu n nclusters).2.size = nclusters := by
  rw [cutSumsR_eq_foldl]
  have h := ncFold_size dist clu (ncArcs adj nplat k n)
    (Array.replicate nclusters 0, Array.replicate nclusters 0)
  simpa using h

/-- (4) `internal[l]` is the sum of `1 / dist i j` over the visited arcs `(i, j)` of positive length
with both ends in cluster `l`. -/
theorem c16_cut_internal_eq (l : Nat) (hl : l < nclusters) :
    (cutSumsR dist adj nplat k clu n nclusters).1.getD l 0 =
      (((ncArcs adj nplat k n).filter
          (fun p => decide (0 < dist p.1 p.2 ∧ clu p.1 = l ∧ clu p.2 = l))).map
        (fun p => 1 / dist p.1 p.2)).sum := by
  rw [cutSumsR_eq_foldl]
  have h := ncFold_fst dist clu l (ncArcs adj nplat k n)
    (Array.replicate nclusters 0, Array.replicate nclusters 0) (by simpa using hl)
  have h0 : (Array.replicate nclusters (0 : ℝ), Array.replicate nclusters (0 : ℝ)).1.getD l 0 = 0 := by
    simp [Array.getD_eq_getD_getElem?, hl]
  rw [h, h0, zero_add]
  rfl


/-- (4) `external[l]` is the sum of `1 / dist i j` over the visited arcs `(i, j)` of positive length
that start in cluster `l` and end outside it. -/
theorem c16_cut_external_eq (l : Nat) (hl : l < nclusters) :
    (cutSumsR dist adj nplat k clu n nclusters).2.getD l 0 =
      (((ncArcs adj nplat k n).filter
          (fun p => decide (0 < dist p.1 p.2 ∧ clu p.1 = l ∧ clu p.2 ≠ l))).map
        (fun p => 1 / dist p.1 p.2)).sum := by
  rw [cutSumsR_eq_foldl]
  have h := ncFold_snd dist clu l (ncArcs adj nplat k n)
    (Array.replicate nclusters 0, Array.replicate nclusters 0) (by simpa using hl)
  have h0 : (Array.replicate nclusters (0 : ℝ), Array.replicate nclusters (0 : ℝ)).2.getD l 0 = 0 := by
    simp [Array.getD_eq_getD_getElem?, hl]
  rw [h, h0, zero_add]
  rfl

theorem getD_eq_zero_of_size_le (a : Array ℝ) (l : Nat) (h : a.size ≤ l) : a.getD l 0 = 0 := by
  simp [Array.getD_eq_getD_getElem?, Array.getElem?_eq_none h]

/-- (1) both sums are non-negative in every cell (cells outside the arrays read as `0`). -/
theorem c16_cut_sums_nonneg (l : Nat) :
    0 ≤ (cutSumsR dist adj nplat k clu n nclusters).1.getD l 0 ∧
    0 ≤ (cutSumsR dist adj nplat k clu n nclusters).2.getD l 0 := by
  by_cases hl : l < nclusters
  · rw [c16_cut_internal_eq _ _ _ _ _ _ _ l hl, c16_cut_external_eq _ _ _ _ _ _ _ l hl]
    constructor <;>
    · apply List.sum_nonneg
      intro x hx
      simp only [List.mem_map, List.mem_filter, decide_eq_true_eq] at hx
      obtain ⟨p, ⟨_, hd, _⟩, rfl⟩ := hx
      exact le_of_lt (one_div_pos.mpr hd)
  · have hs := c16_cut_sums_size dist adj nplat k clu n nclusters
    rw [getD_eq_zero_of_size_le _ l (by omega), getD_eq_zero_of_size_le _ l (by omega)]
    exact ⟨le_refl _, le_refl _⟩

/-! ### the cut -/

/-- the term of cluster `l` in the cut. -/
noncomputable def ncTerm (s : Array ℝ × Array ℝ) (l : Nat) : ℝ :=
  @ite _ (0 < s.1.getD l 0 + s.2.getD l 0) (Classical.decRel _ _ _)
    (s.2.getD l 0 / (s.1.getD l 0 + s.2.getD l 0)) 0

theorem ncCutFold (s : Array ℝ × Array ℝ) (L : List Nat) : ∀ c : ℝ,
    L.foldl (fun cut l =>
      @ite _ (0 < s.1.getD l 0 + s.2.getD l 0) (Classical.decRel _ _ _)
        (cut + s.2.getD l 0 / (s.1.getD l 0 + s.2.getD l 0)) cut) c =
      c + (L.map (ncTerm s)).sum := by
  induction L with
  | nil => intro c; simp
  | cons l L ih =>
    intro c
    rw [List.foldl_cons, ih, List.map_cons, List.sum_cons, ← add_assoc]
    congr 1
    unfold ncTerm
    split_ifs <;> simp

/-- the cut is the sum over the clusters of `external / (internal + external)` (0 when the total is
not positive). -/
theorem c16_cut_eq_sum :
    normalizedCutR dist adj nplat k clu n nclusters =
      ((List.range nclusters).map (ncTerm (cutSumsR dist adj nplat k clu n nclusters))).sum := by
  have h := ncCutFold (cutSumsR dist adj nplat k clu n nclusters) (List.range nclusters) 0
  rw [zero_add] at h
  exact h

theorem ncTerm_bounds (s : Array ℝ × Array ℝ) (l : Nat) (h1 : 0 ≤ s.1.getD l 0)
    (h2 : 0 ≤ s.2.getD l 0) : 0 ≤ ncTerm s l ∧ ncTerm s l ≤ 1 := by
  unfold ncTerm
  split_ifs with h
  · exact ⟨div_nonneg h2 (le_of_lt h), (div_le_one h).mpr (by linarith)⟩
  · exact ⟨le_refl _, zero_le_one⟩

theorem ncTerm_eq_zero_iff (s : Array ℝ × Array ℝ) (l : Nat) (h1 : 0 ≤ s.1.getD l 0)
    (h2 : 0 ≤ s.2.getD l 0) : ncTerm s l = 0 ↔ s.2.getD l 0 = 0 := by
  unfold ncTerm
  split_ifs with h
  · rw [div_eq_zero_iff]
    constructor
    · rintro (h' | h')
      · exact h'
      · exact absurd h' (ne_of_gt h)
    · exact Or.inl
  · constructor
    · intro _; linarith
    · intro _; rfl

/-- (2) `0 ≤ cut ≤ nclusters`. -/
theorem c16_cut_range :
    0 ≤ normalizedCutR dist adj nplat k clu n nclusters ∧
    normalizedCutR dist adj nplat k clu n nclusters ≤ nclusters := by
  rw [c16_cut_eq_sum]
  have hb := fun l => ncTerm_bounds (cutSumsR dist adj nplat k clu n nclusters) l
    (c16_cut_sums_nonneg dist adj nplat k clu n nclusters l).1
    (c16_cut_sums_nonneg dist adj nplat k clu n nclusters l).2
  constructor
  · apply List.sum_nonneg
    intro x hx
    obtain ⟨l, _, rfl⟩ := List.mem_map.mp hx
    exact (hb l).1
  · have := List.sum_le_card_nsmul
      ((List.range nclusters).map (ncTerm (cutSumsR dist adj nplat k clu n nclusters))) 1
      (by
        intro x hx
        obtain ⟨l, _, rfl⟩ := List.mem_map.mp hx
        exact (hb l).2)
    simpa using this

/-- (3) the cut is exactly `0` iff every external sum is `0`. -/
theorem c16_cut_zero_iff :
    normalizedCutR dist adj nplat k clu n nclusters = 0 ↔
      ∀ l < nclusters, (cutSumsR dist adj nplat k clu n nclusters).2.getD l 0 = 0 := by
  rw [c16_cut_eq_sum]
  have hn := c16_cut_sums_nonneg dist adj nplat k clu n nclusters
  have hb := fun l => ncTerm_bounds (cutSumsR dist adj nplat k clu n nclusters) l (hn l).1 (hn l).2
  have hz := fun l => ncTerm_eq_zero_iff (cutSumsR dist adj nplat k clu n nclusters) l
    (hn l).1 (hn l).2
  constructor
  · intro h l hl
    rw [← hz]
    refine List.all_zero_of_le_zero_le_of_sum_eq_zero ?_ h (List.mem_map.mpr ⟨l, List.mem_range.mpr hl, rfl⟩)
    intro x hx
    obtain ⟨l', _, rfl⟩ := List.mem_map.mp hx
    exact (hb l').1
  · intro h
    apply List.sum_eq_zero
    intro x hx
    obtain ⟨l, hl, rfl⟩ := List.mem_map.mp hx
    exact (hz l).mpr (h l (List.mem_range.mp hl))

/-- (3) every external sum is `0` iff no visited arc of positive length leaves its cluster.  The
direction `→` uses that cluster ids are in range. -/
theorem c16_cut_external_zero_iff (hclu : ∀ i < n, clu i < nclusters) :
    (∀ l < nclusters, (cutSumsR dist adj nplat k clu n nclusters).2.getD l 0 = 0) ↔
      ∀ i < n, ∀ j ∈ (adj.getD i []).take (nplat.getD i 0 + k), 0 < dist i j → clu i = clu j := by
  constructor
  · intro h i hi j hj hd
    by_contra hne
    have hl := hclu i hi
    have h0 := h (clu i) hl
    rw [c16_cut_external_eq _ _ _ _ _ _ _ _ hl] at h0
    have hmem : (1 / dist i j) ∈ (((ncArcs adj nplat k n).filter
          (fun p => decide (0 < dist p.1 p.2 ∧ clu p.1 = clu i ∧ clu p.2 ≠ clu i))).map
        (fun p => 1 / dist p.1 p.2)) := by
      refine List.mem_map.mpr ⟨(i, j), ?_, rfl⟩
      rw [List.mem_filter, decide_eq_true_eq]
      exact ⟨mem_ncArcs.mpr ⟨hi, hj⟩, hd, rfl, fun h => hne h.symm⟩
    have hle := List.single_le_sum (by
      intro x hx
      simp only [List.mem_map, List.mem_filter, decide_eq_true_eq] at hx
      obtain ⟨p, ⟨_, hd, _⟩, rfl⟩ := hx
      exact le_of_lt (one_div_pos.mpr hd)) _ hmem
    have := one_div_pos.mpr hd
    linarith
  · intro h l hl
    rw [c16_cut_external_eq _ _ _ _ _ _ _ _ hl]
    have : (ncArcs adj nplat k n).filter
        (fun p => decide (0 < dist p.1 p.2 ∧ clu p.1 = l ∧ clu p.2 ≠ l)) = [] := by
      rw [List.filter_eq_nil_iff]
      intro p hp
      rw [decide_eq_true_eq]
      rintro ⟨hd, h1, h2⟩
      obtain ⟨hi, hj⟩ := mem_ncArcs.mp hp
      exact h2 ((h p.1 hi p.2 hj hd).symm.trans h1)
    rw [this]
    simp

/-- the cut is exactly `0` iff no visited arc of positive length leaves its cluster. -/
theorem c16_cut_zero_iff_arcs (hclu : ∀ i < n, clu i < nclusters) :
    normalizedCutR dist adj nplat k clu n nclusters = 0 ↔
      ∀ i < n, ∀ j ∈ (adj.getD i []).take (nplat.getD i 0 + k), 0 < dist i j → clu i = clu j :=
  (c16_cut_zero_iff dist adj nplat k clu n nclusters).trans
    (c16_cut_external_zero_iff dist adj nplat k clu n nclusters hclu)

end Main

/-! ### (5) concrete graphs -/

/-- 4 nodes, clusters `{0,1}` and `{2,3}`, distance 1 inside a cluster and 2 across, `k = 2`, one
plateau neighbour at node 0 and a self-arc (distance 0, skipped) at node 1: `cut = 1/3 + 1/3`. -/
example : normalizedCutR (fun i j => if i = j then 0 else if i / 2 = j / 2 then 1 else 2)
    #[[1, 2, 3], [1, 0, 2], [3, 1, 0], [2, 0, 1]] #[1, 0, 0, 0] 2 (fun i => i / 2) 4 2 = 2 / 3 := by
  simp [normalizedCutR, normalizedCutG, cutSums, List.range, List.range.loop]
  norm_num


/-- the two sums of the same graph: `internal = [2, 2]`, `external = [1, 1]`. -/
example :
    let s := cutSumsR (fun i j => if i = j then 0 else if i / 2 = j / 2 then 1 else 2)
      #[[1, 2, 3], [1, 0, 2], [3, 1, 0], [2, 0, 1]] #[1, 0, 0, 0] 2 (fun i => i / 2) 4 2
    (s.1.getD 0 0, s.1.getD 1 0, s.2.getD 0 0, s.2.getD 1 0) = (2, 2, 1, 1) := by
  simp [cutSumsR, cutSums, List.range, List.range.loop]
  norm_num

/-- with one neighbour per node every visited arc stays in its cluster: the cut is `0`, by evaluation
and by `c16_cut_zero_iff_arcs`. -/
example : normalizedCutR (fun i j => if i = j then 0 else if i / 2 = j / 2 then 1 else 2)
    #[[1, 2, 3], [0, 2, 3], [3, 1, 0], [2, 0, 1]] #[0, 0, 0, 0] 1 (fun i => i / 2) 4 2 = 0 := by
  simp [normalizedCutR, normalizedCutG, cutSums, List.range, List.range.loop]

/-- the hypotheses of `c16_cut_zero_iff_arcs` are satisfiable with a non-zero cut: on the first graph
some visited arc of positive length leaves its cluster. -/
example : ¬ ∀ i < 4, ∀ j ∈ ((#[[1, 2, 3], [1, 0, 2], [3, 1, 0], [2, 0, 1]] : Array (List Nat)).getD i []).take
      ((#[1, 0, 0, 0] : Array Nat).getD i 0 + 2),
    0 < (fun i j : Nat => if i = j then (0 : ℝ) else if i / 2 = j / 2 then 1 else 2) i j →
      (fun i => i / 2) i = (fun i => i / 2) j := by
  rw [← c16_cut_zero_iff_arcs _ _ _ _ _ _ 2 (by intro i hi; show i / 2 < 2; omega)]
  have h : normalizedCutR (fun i j => if i = j then 0 else if i / 2 = j / 2 then 1 else 2)
      #[[1, 2, 3], [1, 0, 2], [3, 1, 0], [2, 0, 1]] #[1, 0, 0, 0] 2 (fun i => i / 2) 4 2 = 2 / 3 := by
    simp [normalizedCutR, normalizedCutG, cutSums, List.range, List.range.loop]
    norm_num
  rw [h]
  norm_num

end Opf
