/-
C01 (executable side) — the executable model of the competition phase of `fit`
(`Opf.competeRun`, which drives the heap model L0 and is compared with the real code on every
run of the check) is a lawful run of the relational semantics, so every C01 theorem applies to
the costs, predecessors, labels and conquest order it records (`Node.cost`, `Node.pred`,
`Node.predicted_label`, `Subgraph.idx_nodes`).
-/
import OpfVerif.Lemmas.CompeteExec
import OpfVerif.Lemmas.Lawful
import OpfVerif.Props.C01
namespace Opf

/-- the competition on the forest left by prototype selection replays as a lawful run: the
conquest order it records is accepted step by step (`runPicks`: each removed node was queued and
of minimum cost), the run ends with an empty queue, and the recorded per-node fields are those of
the final abstract state. -/
theorem c01_exec (w : Nat → Nat → Int) (top : Int) (semi : Bool) (f : Forest)
    (hs : f.Sized) (ho : f.order = #[]) (hg : (compInstOf w top f).Good) :
    ∃ s', (compInstOf w top f).runPicks ((compInstOf w top f).init f.predOf f.plabelOf)
            (competeRun w top semi f).f.order.toList = some s' ∧
      (compInstOf w top f).isFinal s' = true ∧
      (competeRun w top semi f).h.isEmpty = true ∧
      (competeRun w top semi f).f.order.toList = s'.order ∧
      (∀ x, x < f.n → (competeRun w top semi f).f.costOf x = s'.cost x ∧
                       (competeRun w top semi f).f.predOf x = s'.pred x ∧
                       (competeRun w top semi f).f.plabelOf x = s'.lab x) ∧
      (competeRun w top semi f).f.proto = f.proto ∧ (competeRun w top semi f).f.n = f.n :=
  competeRun_lawful w top semi f hs ho hg

/-- consequence: the costs recorded by the executable model are optimum max-arc path costs. -/
theorem c01_exec_cost_optimal (w : Nat → Nat → Int) (top : Int) (semi : Bool) (f : Forest)
    (hs : f.Sized) (ho : f.order = #[]) (hg : (compInstOf w top f).Good) (t : Nat) (ht : t < f.n) :
    (compInstOf w top f).PathCost t ((competeRun w top semi f).f.costOf t) ∧
    ∀ c, (compInstOf w top f).PathCost t c → (competeRun w top semi f).f.costOf t ≤ c := by
  obtain ⟨s', hrun, hfin, _, _, hfields, _, _⟩ := c01_exec w top semi f hs ho hg
  have hreach := CompInst.runPicks_reach _ f.predOf f.plabelOf _ CompInst.Reach.init _ s' hrun
  have hfinal := CompInst.isFinal_final _ s' hfin
  have := CompInst.c01_cost_optimal _ f.predOf f.plabelOf hg s' hreach hfinal t ht
  rw [(hfields t ht).1]
  exact this

/-- consequence: the conquest order recorded by the executable model lists every node exactly
once in non-decreasing recorded cost — the hypothesis `OrderSorted` of C03. -/
theorem c01_exec_order (w : Nat → Nat → Int) (top : Int) (semi : Bool) (f : Forest)
    (hs : f.Sized) (ho : f.order = #[]) (hg : (compInstOf w top f).Good) :
    (competeRun w top semi f).f.order.toList.Nodup ∧
    (∀ t, t ∈ (competeRun w top semi f).f.order.toList ↔ t < f.n) ∧
    (competeRun w top semi f).f.order.toList.Pairwise
      (fun a b => (competeRun w top semi f).f.costOf a ≤ (competeRun w top semi f).f.costOf b) := by
  obtain ⟨s', hrun, hfin, _, hord, hfields, _, _⟩ := c01_exec w top semi f hs ho hg
  have hreach := CompInst.runPicks_reach _ f.predOf f.plabelOf _ CompInst.Reach.init _ s' hrun
  have hfinal := CompInst.isFinal_final _ s' hfin
  obtain ⟨hnd, hmem, _, hsorted⟩ := CompInst.c01_order _ f.predOf f.plabelOf hg s' hreach hfinal
  rw [hord]
  refine ⟨hnd, hmem, ?_⟩
  refine hsorted.imp_of_mem ?_
  intro a b ha hb hab
  have ha' : a < f.n := (hmem a).1 ha
  have hb' : b < f.n := (hmem b).1 hb
  rw [(hfields a ha').1, (hfields b hb').1]
  exact hab

end Opf
