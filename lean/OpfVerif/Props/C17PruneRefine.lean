/-
C17 — `SupervisedOPF.prune` AS WRITTEN IN /repo (translated statement by statement: `Gen/PruneImp.lean`, with `fit`,
`predict`, `opf_accuracy`, the relevance flags and the node count ARBITRARY):

* `prune_refines`      the translated method computes `PruneSpec.pruneSpec`;
* `keep_eq_filter`     one round keeps exactly the (row, label) pairs whose flag is set — the model `pruneFilter` of C17;
* `c17_prune_sublist`  the training set `prune` ends with is a SUB-LIST of the original (rows and labels together, order
                       kept, labels intact), whatever the called methods do.

STATEMENTS ARE FIXED (DESIGN §2.1b); helper lemmas live in Lemmas/PruneRefine.lean.
-/
import OpfVerif.Gen.PruneImp
import OpfVerif.Lemmas.PruneRefine
import OpfVerif.Props.C17

namespace Opf.C17Prune
open Opf Opf.PruneSpec Opf.Gen
variable {σ β : Type}

theorem prune_refines (ops : PruneOps σ β) (irr : Int) (s : σ) (Xt : Array β) (Yt : Array Int) (Xv : Array β)
    (Yv : Array Int) (n : Int) :
    PruneImp.prune ops irr s () Xt Yt Xv Yv n = pruneSpec ops irr s Xt Yt Xv Yv n := by
  exact PruneRefine.prune_refines' ops irr s Xt Yt Xv Yv n

/-- one round keeps exactly the (row, label) pairs whose flag is set — `pruneFilter` of the pairs, rows and labels
together. -/
theorem keep_eq_filter (irr : Int) (flags : Array Int) (X X' : Array β) (Y Y' : Array Int)
    (hsz : X.size = Y.size) (h : keep irr flags X Y = some (X', Y')) :
    X'.size = Y'.size ∧
      X'.toList.zip Y'.toList =
        pruneFilter (fun j => flags.getD j irr != irr) (X.toList.zip Y.toList) := by
  exact PruneRefine.keep_spec irr flags X X' Y Y' hsz h

theorem keep_sublist (irr : Int) (flags : Array Int) (X X' : Array β) (Y Y' : Array Int)
    (hsz : X.size = Y.size) (h : keep irr flags X Y = some (X', Y')) :
    X'.size = Y'.size ∧ (X'.toList.zip Y'.toList).Sublist (X.toList.zip Y.toList) := by
  exact PruneRefine.keep_sub irr flags X X' Y Y' hsz h

/-- **C17, pruning clause, on the translated source.** -/
theorem c17_prune_sublist (ops : PruneOps σ β) (irr : Int) (s s' : σ) (Xt Xt' : Array β) (Yt Yt' : Array Int)
    (Xv : Array β) (Yv : Array Int) (n : Int) (hsz : Xt.size = Yt.size)
    (h : PruneImp.prune ops irr s () Xt Yt Xv Yv n = some (s', Xt', Yt')) :
    Xt'.size = Yt'.size ∧ (Xt'.toList.zip Yt'.toList).Sublist (Xt.toList.zip Yt.toList) := by
  rw [prune_refines] at h
  exact PruneRefine.prune_sublist ops irr s s' Xt Xt' Yt Yt' Xv Yv n hsz h

/-! ## non-vacuity: a concrete object on which translated `prune` returns (two rounds; flags `[1, 0, 1, 1]` then
`[1, 1, 0]`, then `[0, 1]`): rows 1, 3, 4 survive the first round, rows 1, 3 the second. -/
def demoOps : PruneOps (List Nat) Nat where
  fit := fun s X _ => some (s ++ [X.size])
  predict := fun s X => some (s, X.map (fun x => ((x : Nat) : Int)))
  opf_accuracy := fun _ _ => some 5
  relevants := fun s => match s.length with | 1 => #[1, 0, 1, 1] | 2 => #[1, 1, 0] | _ => #[0, 1]
  n_nodes := fun s => s.length

example : PruneImp.prune demoOps 0 [] () #[1, 2, 3, 4] #[10, 20, 30, 40] #[7] #[1] 2 =
    some ([4, 3, 2], #[1, 3], #[10, 30]) := by
  rw [prune_refines]; decide +kernel

end Opf.C17Prune
