/-
C17 (relevance) — END TO END for the translated code: after the translation of
`SupervisedOPF.fit` and one pass of the translation of `SupervisedOPF.predict` (which calls the
translation of `Subgraph.mark_nodes` for every query), `Node.relevant` is 1 exactly on the
conquerors of the queries and their ancestors in the optimum-path forest — the samples `prune`
keeps.

Composition of `c01_gen_fit`, `c03_gen_predict`, `c17_gen_mark_nodes` (refinement) with
`c17_relevant` (`Props/C17.lean`) and the fit-level theorems.  The hypotheses `Forest.WF`, `Ranked`
and "no flag set" of `c17_relevant`, and `ChainOk` of the refinement theorems, are discharged from
the theorems about `fit`; what remains is on the inputs only (see `Props/C01Gen.lean`,
`Props/C03Gen.lean`).  `IsConq sg1 n d c`: `c` is the first minimiser of `max (cost t) (d t)` in
the conquest order; `AncA pred x c`: following the stored predecessors from `c` reaches `x`.
Property theorems only.
-/
import OpfVerif.Props.C03Gen
import OpfVerif.Props.C17
import OpfVerif.Props.C17Refine
namespace Opf.GenCompose
open Opf Opf.Gen Opf.Gen.SupImp Opf.SupRefine Opf.FitCompose

variable (W WQ : Int → Int → Option Int) (w : Nat → Nat → Int) (top : Int) (sg0 : SG)
  (lab : Array Nat) (psg0 : SG) (ds : List (Nat → Int))

/-- **Relevance after a prediction pass.** After `fit` and `predict` on the queries `ds`, the
flag `relevant[x]` of training node `x` is 1 if and only if `x` is the conqueror of some query or
an ancestor (through `Node.pred`) of the conqueror of some query; all other flags are 0. -/
theorem c17_gen_relevant (hr : RelF sg0 (Forest.init lab)) (hW : WAgree lab.size W w)
    (H : FitHyp w top lab.size lab) (hq : QuerySG psg0 ds.length)
    (hWQ : WQAgree lab.size WQ ds) :
    ∃ sg1 sg2 preds, fit W top sg0 = some (sg1, ()) ∧ predict WQ sg1 psg0 = some (sg2, preds) ∧
      sg2.relevant.size = lab.size ∧
      ∀ x, x < lab.size →
        (sg2.relevant.getD x 0 = 0 ∨ sg2.relevant.getD x 0 = 1) ∧
        (sg2.relevant.getD x 0 = 1 ↔
          ∃ i, ∃ hi : i < ds.length, ∃ c, IsConq sg1 lab.size ds[i] c ∧ AncA sg1.pred x c) := by
  obtain ⟨sg1, sg2, preds, he, hp, r, r2, _⟩ :=
    c03_gen_master W WQ w top sg0 lab psg0 ds hr hW H hq hWQ
  have hn := fitRun_n H false
  obtain ⟨hwf, hrk, h0⟩ := fitRun_wf_ranked H false
  have hn2 : (predictBatch (fitRun w top false lab.size lab).f ds).1.n = lab.size := by
    rw [(predictBatch_fields _ ds).1, hn]
  have hplt : ∀ x p, x < (fitRun w top false lab.size lab).f.n →
      (fitRun w top false lab.size lab).f.predOf x = some p →
      p < (fitRun w top false lab.size lab).f.n := fun x p _ hp => hwf.pred_lt x p hp
  have hmemI : ∀ t, t < lab.size → (t : Int) ∈ sg1.idx_nodes.toList := by
    intro t ht
    rw [rd_order r]
    exact List.mem_map.2 ⟨t, (fit_order H false).2.1 t |>.2 ht, rfl⟩
  refine ⟨sg1, sg2, preds, he, hp, by rw [r2.sz_relevant, hn2], fun x hx => ⟨?_, ?_⟩⟩
  · rw [rd_relevant r2 (by rw [hn2]; exact hx)]
    cases (predictBatch (fitRun w top false lab.size lab).f ds).1.relevant.getD x false <;> simp
  · rw [rd_relevant_iff r2 (by rw [hn2]; exact hx),
      c17_relevant _ _ hwf hrk h0 ds x (by rw [hn]; exact hx)]
    constructor
    · rintro ⟨d, hd, ro, hro, hanc⟩
      obtain ⟨i, hi, rfl⟩ := List.mem_iff_getElem.1 hd
      obtain ⟨ro', hro', hconq, _⟩ := predictOne_isConq H r ds[i]
      rw [hro] at hro'; cases hro'
      exact ⟨i, hi, ro.conq, hconq,
        (rd_anc r hplt x ro.conq (by rw [hn]; exact hconq.1)).2 hanc⟩
    · rintro ⟨i, hi, c, hc, hanc⟩
      obtain ⟨ro, hro, hconq, _⟩ := predictOne_isConq H r ds[i]
      have hcc : c = ro.conq := IsConq.unique hmemI hc hconq
      subst hcc
      exact ⟨ds[i], List.getElem_mem hi, ro, hro,
        (rd_anc r hplt x ro.conq (by rw [hn]; exact hconq.1)).1 hanc⟩

/-- **`mark_nodes` on a fitted subgraph.** After `fit`, a call `mark_nodes(i)` on any training
node `i` terminates without raising (the predecessor chain reaches a prototype) and sets
`relevant` to 1 exactly on `i` and its ancestors; it changes nothing else. -/
theorem c17_gen_mark_nodes_fit (hr : RelF sg0 (Forest.init lab)) (hW : WAgree lab.size W w)
    (H : FitHyp w top lab.size lab) (i : Nat) (hi : i < lab.size) :
    ∃ sg1 sg2, fit W top sg0 = some (sg1, ()) ∧ mark_nodes sg1 (i : Int) = some (sg2, ()) ∧
      (∀ x, x < lab.size → (sg2.relevant.getD x 0 = 1 ↔ AncA sg1.pred x i)) ∧
      sg2.cost = sg1.cost ∧ sg2.pred = sg1.pred ∧ sg2.status = sg1.status ∧
      sg2.predicted_label = sg1.predicted_label ∧ sg2.label = sg1.label ∧
      sg2.idx_nodes = sg1.idx_nodes := by
  obtain ⟨sg1, he, _, r⟩ := c01_gen_master W w top sg0 lab hr hW H
  have hn := fitRun_n H false
  obtain ⟨hs, hpos, _, _, hc⟩ := fitRun_predict_ready H false
  obtain ⟨hwf, hrk, h0⟩ := fitRun_wf_ranked H false
  have hi' : i < (fitRun w top false lab.size lab).f.n := by rw [hn]; exact hi
  obtain ⟨sg2, hm, r2⟩ := c17_gen_mark_nodes sg1 _ r hs
    ((fitRun w top false lab.size lab).f.n - 1) i hi' (hc i hi')
  have hk : (fitRun w top false lab.size lab).f.n - 1 + 1 = (fitRun w top false lab.size lab).f.n := by
    omega
  rw [hk] at r2
  obtain ⟨m1, m2, m3, m4, m5, m6, m7, _⟩ := markNodes_fields (fitRun w top false lab.size lab).f
    (fitRun w top false lab.size lab).f.n i
  have hplt : ∀ x p, x < (fitRun w top false lab.size lab).f.n →
      (fitRun w top false lab.size lab).f.predOf x = some p →
      p < (fitRun w top false lab.size lab).f.n := fun x p _ hp => hwf.pred_lt x p hp
  obtain ⟨_, a2, a3, a4, a5, a6, a7⟩ := relF_agree r r2 ⟨m1, m2, m3, m4, m5, m6, m7⟩
  refine ⟨sg1, sg2, he, hm, fun x hx => ?_, a2, a3, a4, a5, a6, a7⟩
  have hx' : x < (fitRun w top false lab.size lab).f.n := by rw [hn]; exact hx
  rw [rd_relevant_iff r2 (by rw [m1]; exact hx'), markNodes_relevant _ _ hwf hrk i hi' x hx', h0 x,
    rd_anc r hplt x i hi']
  simp

/-! ### non-vacuity -/

/-- the hypotheses are those of `Props/C03Gen.lean`; on its demo (two queries) the theorem fires. -/
example : ∃ sg1 sg2 preds, fit demoW 100 (initSG #[1, 1, 2]) = some (sg1, ()) ∧
    predict demoWQ sg1 (querySG demoQ.length) = some (sg2, preds) ∧
    sg2.relevant.size = 3 ∧
    ∀ x, x < 3 →
      (sg2.relevant.getD x 0 = 0 ∨ sg2.relevant.getD x 0 = 1) ∧
      (sg2.relevant.getD x 0 = 1 ↔
        ∃ i, ∃ hi : i < demoQ.length, ∃ c, IsConq sg1 3 demoQ[i] c ∧ AncA sg1.pred x c) :=
  c17_gen_relevant demoW demoWQ c15_demo_w 100 _ #[1, 1, 2] _ demoQ
    c01_gen_demo_hyps.1 c01_gen_demo_hyps.2.1 c01_gen_demo_hyps.2.2
    (c03_gen_query_hyps 3 demoQ).1 (c03_gen_query_hyps 3 demoQ).2

end Opf.GenCompose
