/-
C13 / C04 — refinement: the translations of `KNNSupervisedOPF._clustering(force_prototype)` and
`UnsupervisedOPF._clustering(k)` (`Gen/ClusImp.lean`) refine the model `clusterRun` about which
`Props/C13.lean`, `C13Rel.lean` and `C04.lean` speak: plateau symmetrisation (CPython's list
iterator over the live adjacency lists included), max-heap competition on densities, forced
prototypes.  For every well-formed clustering input the translated code raises nothing, all its
loops terminate, and it leaves exactly the model's state.
Property theorems only; helper lemmas live in the `Lemmas/` file imported below.
-/
import OpfVerif.Lemmas.ClusRefine
namespace Opf.ClusRefine
open Opf Opf.Gen Opf.Gen.ClusImp

theorem c13_gen_knn_clustering (top : Int) (sg : KSG) (c : Clu) (force : Bool)
    (hr : RelK false sg c) (hwf : c.WF) (hn : 0 < c.n) :
    ∃ sg', knn_clustering top sg force = some (sg', ()) ∧
      RelK false sg' (clusterRun false force top (-top) 0 c) :=
  knn_clustering_refines top sg c force hr hwf hn

theorem c13_gen_uns_clustering (top : Int) (sg : KSG) (c : Clu) (k : Nat)
    (hr : RelK true sg c) (hwf : c.WF) (hn : 0 < c.n)
    (hlong : ∀ i, i < c.n → c.nplat.getD i 0 + k ≤ (c.adjOf i).length) :
    ∃ sg', uns_clustering top sg (k : Int) = some (sg', ()) ∧
      RelK true sg' (clusterRun true false top (-top) k c) :=
  uns_clustering_refines top sg c k hr hwf hn hlong

end Opf.ClusRefine
