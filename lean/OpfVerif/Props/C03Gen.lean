/-
C03 — END TO END for the translated code: the translation of `SupervisedOPF.fit` followed by the
translation of `SupervisedOPF.predict` (`Gen/FitImp.lean`, `Gen/PredImp.lean`) returns, for every
query, the label of a training node that minimises `max (cost t) (d t)` over ALL training nodes.

Composition of `c01_gen_fit` and `c03_gen_predict` (refinement) with `Props/C03.lean` and the
fit-level theorems of `Props/C15.lean`.  The side conditions of `c03_gen_predict` (the conquest
order lists every node, every predecessor chain reaches a root — `ChainOk`) are DISCHARGED here
from the theorems about `fit` (`fitRun_predict_ready` in `Lemmas/GenCompose.lean`), not assumed.

Hypotheses, all on the inputs: those of `Props/C01Gen.lean` for `fit` (`RelF sg0 (Forest.init lab)`,
`WAgree lab.size W w`, `FitHyp w top lab.size lab`), and for `predict`: `QuerySG psg0 ds.length`
(the prediction subgraph has one node per query) and `WQAgree lab.size WQ ds` (the query-side
distance oracle returns `ds[i] t` for query `i` and training node `t`).
`IsConq sg1 n d c` (`Lemmas/GenCompose.lean`): `c < n` minimises `max (sg1.cost[t]) (d t)` over all
`t < n` and every node standing before `c` in `sg1.idx_nodes` offers strictly more.
Property theorems only.
-/
import OpfVerif.Props.C01Gen
import OpfVerif.Props.C03Refine
namespace Opf.GenCompose
open Opf Opf.Gen Opf.Gen.SupImp Opf.SupRefine Opf.FitCompose

variable (W WQ : Int → Int → Option Int) (w : Nat → Nat → Int) (top : Int) (sg0 : SG)
  (lab : Array Nat) (psg0 : SG) (ds : List (Nat → Int))

/-- `fit` then `predict` terminate without raising, and the two returned subgraphs represent the
model forests `fitRun` / `predictBatch` (master lemma for this file and `C17Gen`). -/
theorem c03_gen_master (hr : RelF sg0 (Forest.init lab)) (hW : WAgree lab.size W w)
    (H : FitHyp w top lab.size lab) (hq : QuerySG psg0 ds.length)
    (hWQ : WQAgree lab.size WQ ds) :
    ∃ sg1 sg2 preds, fit W top sg0 = some (sg1, ()) ∧ predict WQ sg1 psg0 = some (sg2, preds) ∧
      RelF sg1 (fitRun w top false lab.size lab).f ∧
      RelF sg2 (predictBatch (fitRun w top false lab.size lab).f ds).1 ∧
      preds = labelsInt (predictBatch (fitRun w top false lab.size lab).f ds).2 := by
  obtain ⟨sg1, he, ht, r⟩ := c01_gen_master W w top sg0 lab hr hW H
  obtain ⟨hs, hn, hos, hol, hc⟩ := fitRun_predict_ready H false
  obtain ⟨sg2, preds, hp, r2, hpreds, _⟩ := c03_gen_predict WQ sg1 _ r hs ht hn hos hol hc psg0 ds hq
    (by rw [fitRun_n H false]; exact hWQ)
  exact ⟨sg1, sg2, preds, he, hp, r, r2, hpreds⟩

/-- **Prediction = exhaustive minimum, first minimiser.** After `fit`, `predict` raises nothing and
terminates; it returns one label per query, and the label of query `i` is the predicted label of
THE conqueror of the query: the training node `c` that minimises `max (cost c) (d c)` over all
training nodes (the early exit of the scan loses nothing) and comes first in the conquest order
among the minimisers. -/
theorem c03_gen_predict_conqueror (hr : RelF sg0 (Forest.init lab)) (hW : WAgree lab.size W w)
    (H : FitHyp w top lab.size lab) (hq : QuerySG psg0 ds.length)
    (hWQ : WQAgree lab.size WQ ds) :
    ∃ sg1 sg2 preds, fit W top sg0 = some (sg1, ()) ∧ predict WQ sg1 psg0 = some (sg2, preds) ∧
      preds.size = ds.length ∧
      ∀ i (hi : i < ds.length), ∃ c, IsConq sg1 lab.size ds[i] c ∧
        preds.getD i 0 = sg1.predicted_label.getD c 0 := by
  obtain ⟨sg1, sg2, preds, he, hp, r, _, hpreds⟩ :=
    c03_gen_master W WQ w top sg0 lab psg0 ds hr hW H hq hWQ
  refine ⟨sg1, sg2, preds, he, hp, ?_, ?_⟩
  · rw [hpreds, labelsInt_size, predictBatch_labels, List.length_map]
  · intro i hi
    obtain ⟨ro, hro, hconq, hlab⟩ := predictOne_isConq H r ds[i]
    refine ⟨ro.conq, hconq, ?_⟩
    rw [hpreds, ← hlab]
    apply labelsInt_getD _ i (by rw [predictBatch_labels, List.length_map]; exact hi)
    simp only [predictBatch_labels, List.getElem_map, hro, Option.map_some]

/-- **Prediction = exhaustive minimum** (the statement of C03 on the returned arrays): the label
returned for query `i` is the label `fit` assigned to some training node `t` that minimises
`max (cost t) (d t)` over ALL training nodes — never a label the exhaustive scan could not return. -/
theorem c03_gen_predict_min (hr : RelF sg0 (Forest.init lab)) (hW : WAgree lab.size W w)
    (H : FitHyp w top lab.size lab) (hq : QuerySG psg0 ds.length)
    (hWQ : WQAgree lab.size WQ ds) :
    ∃ sg1 sg2 preds, fit W top sg0 = some (sg1, ()) ∧ predict WQ sg1 psg0 = some (sg2, preds) ∧
      preds.size = ds.length ∧
      ∀ i (hi : i < ds.length), ∃ t, t < lab.size ∧
        preds.getD i 0 = sg1.predicted_label.getD t 0 ∧
        ∀ s, s < lab.size →
          max (sg1.cost.getD t 0) (ds[i] t) ≤ max (sg1.cost.getD s 0) (ds[i] s) := by
  obtain ⟨sg1, sg2, preds, he, hp, hsz, hall⟩ :=
    c03_gen_predict_conqueror W WQ w top sg0 lab psg0 ds hr hW H hq hWQ
  refine ⟨sg1, sg2, preds, he, hp, hsz, fun i hi => ?_⟩
  obtain ⟨c, hc, hl⟩ := hall i hi
  exact ⟨c, hc.1, hl, hc.2.1⟩

/-- **The returned label is a training class.** The label returned for query `i` is the TRUE
label of a prototype `r` (a training node with `status = 1`), namely the root of the tree of the
optimum-path forest that contains the conqueror of the query. -/
theorem c03_gen_predict_class (hr : RelF sg0 (Forest.init lab)) (hW : WAgree lab.size W w)
    (H : FitHyp w top lab.size lab) (hq : QuerySG psg0 ds.length)
    (hWQ : WQAgree lab.size WQ ds) :
    ∃ sg1 sg2 preds, fit W top sg0 = some (sg1, ()) ∧ predict WQ sg1 psg0 = some (sg2, preds) ∧
      ∀ i (hi : i < ds.length), ∃ c r, IsConq sg1 lab.size ds[i] c ∧ r < lab.size ∧
        sg1.status.getD r 0 = 1 ∧ AncA sg1.pred r c ∧ preds.getD i 0 = (lab.getD r 0 : Int) := by
  obtain ⟨sg1, sg2, preds, he, hp, r, _, hpreds⟩ :=
    c03_gen_master W WQ w top sg0 lab psg0 ds hr hW H hq hWQ
  refine ⟨sg1, sg2, preds, he, hp, fun i hi => ?_⟩
  obtain ⟨ro, hro, hconq, hlab⟩ := predictOne_isConq H r ds[i]
  obtain ⟨rt, h1, h2, h3, h4⟩ := fo_forest H r ro.conq hconq.1
  refine ⟨ro.conq, rt, hconq, h1, h2, h3, ?_⟩
  rw [← h4, hpreds, ← hlab]
  apply labelsInt_getD _ i (by rw [predictBatch_labels, List.length_map]; exact hi)
  simp only [predictBatch_labels, List.getElem_map, hro, Option.map_some]

/-- **Frame.** A prediction pass changes no array of the trained subgraph except `relevant`:
costs, predecessors, prototype flags, labels and the conquest order are returned untouched. -/
theorem c03_gen_predict_frame (hr : RelF sg0 (Forest.init lab)) (hW : WAgree lab.size W w)
    (H : FitHyp w top lab.size lab) (hq : QuerySG psg0 ds.length)
    (hWQ : WQAgree lab.size WQ ds) :
    ∃ sg1 sg2 preds, fit W top sg0 = some (sg1, ()) ∧ predict WQ sg1 psg0 = some (sg2, preds) ∧
      sg2.n_nodes = sg1.n_nodes ∧ sg2.cost = sg1.cost ∧ sg2.pred = sg1.pred ∧
      sg2.status = sg1.status ∧ sg2.predicted_label = sg1.predicted_label ∧
      sg2.label = sg1.label ∧ sg2.idx_nodes = sg1.idx_nodes := by
  obtain ⟨sg1, sg2, preds, he, hp, r, r2, _⟩ :=
    c03_gen_master W WQ w top sg0 lab psg0 ds hr hW H hq hWQ
  exact ⟨sg1, sg2, preds, he, hp, relF_agree r r2 (predictBatch_fields _ ds)⟩

/-! ### non-vacuity -/

/-- the prediction subgraph `Subgraph(X_val)` builds for `m` queries, flattened (only the fields
`predict` reads matter). -/
def querySG (m : Nat) : SG :=
  { n_nodes := (m : Int), trained := false, idx_nodes := #[], pred := #[], relevant := #[],
    cost := #[], label := #[], status := #[], predicted_label := Array.replicate m 0 }

/-- the two `predict`-side hypotheses are satisfiable for every list of query distance vectors. -/
theorem c03_gen_query_hyps (n : Nat) (ds : List (Nat → Int)) :
    QuerySG (querySG ds.length) ds.length ∧
    WQAgree n (fun l i => some ((ds.getD i.toNat (fun _ => 0)) l.toNat)) ds := by
  refine ⟨⟨rfl, by simp [querySG]⟩, ?_⟩
  intro i hi l _
  simp [List.getD_eq_getElem?_getD, hi]

/-- two queries: at distances `t + 1` and `3 - t` from training node `t`. -/
def demoQ : List (Nat → Int) := [fun t => (t : Int) + 1, fun t => 3 - (t : Int)]

/-- the query-side oracle of the demo. -/
def demoWQ : Int → Int → Option Int :=
  fun l i => some ((demoQ.getD i.toNat (fun _ => 0)) l.toNat)

/-- the theorems fire on the demo of `Props/C01Gen.lean` with the two queries `demoQ`. -/
example : ∃ sg1 sg2 preds, fit demoW 100 (initSG #[1, 1, 2]) = some (sg1, ()) ∧
    predict demoWQ sg1 (querySG demoQ.length) = some (sg2, preds) ∧ preds.size = demoQ.length ∧
    ∀ i (hi : i < demoQ.length), ∃ c, IsConq sg1 3 demoQ[i] c ∧
      preds.getD i 0 = sg1.predicted_label.getD c 0 :=
  c03_gen_predict_conqueror demoW demoWQ c15_demo_w 100 _ #[1, 1, 2] _ demoQ
    c01_gen_demo_hyps.1 c01_gen_demo_hyps.2.1 c01_gen_demo_hyps.2.2
    (c03_gen_query_hyps 3 demoQ).1 (c03_gen_query_hyps 3 demoQ).2

end Opf.GenCompose
