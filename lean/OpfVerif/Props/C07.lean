/-
C07 — no call modifies caller data; results depend only on argument values.

Theorems over the translator's output (regenerated from /repo on every run):
 * `Gen/Decorator.lean` — the statements of `avoid_zero_division`'s wrapper that shift a parameter,
   each tagged in-place (`p += EPSILON`: a write through the caller's numpy buffer) or rebinding
   (`p = p + EPSILON`: a fresh array);
 * `Gen/Effects.lean` — every statement of every function of the library that writes through an
   object, with the root of its target (parameter / alias of a parameter / self / local).
The reading of Python semantics behind the tags (augmented assignment on an `ndarray` is in
place; `a[i] = …`, `a.fill(…)`, … write through `a`) is part of the trusted base and is validated by
the `dist`, `fit`, `knnmodel` streams, which hash every array they pass before and after each call.
-/
import OpfVerif.Gen.Decorator
import OpfVerif.Gen.Effects
namespace Opf

/-- model of one call through the wrapper: `args` are the caller's arrays; returns the arrays
passed on to the wrapped function and the caller's arrays after the call. -/
def wrapperCall (shifts : List (Nat × Bool)) (eps : Int) (args : List (List Int)) :
    List (List Int) × List (List Int) :=
  shifts.foldl (fun (st : List (List Int) × List (List Int)) s =>
      let shifted := (st.1.getD s.1 []).map (· + eps)
      (st.1.set s.1 shifted, if s.2 then st.2.set s.1 shifted else st.2)) (args, args)

/-- the wrapper as it is in the source never writes through a caller's array … -/
theorem c07_decorator_rebinds : Gen.decoratorShifts.all (fun s => !s.2) = true := by decide

/-- … hence for every argument list the caller's arrays are unchanged after the call, -/
theorem c07_decorator_pure (eps : Int) (args : List (List Int)) :
    (wrapperCall Gen.decoratorShifts eps args).2 = args := by
  have h : ∀ (shifts : List (Nat × Bool)), shifts.all (fun s => !s.2) = true →
      ∀ st : List (List Int) × List (List Int),
        (shifts.foldl (fun (st : List (List Int) × List (List Int)) s =>
          let shifted := (st.1.getD s.1 []).map (· + eps)
          (st.1.set s.1 shifted, if s.2 then st.2.set s.1 shifted else st.2)) st).2 = st.2 := by
    intro shifts
    induction shifts with
    | nil => intro _ st; rfl
    | cons s ss ih =>
      intro hall st
      simp only [List.all_cons, Bool.and_eq_true, Bool.not_eq_true'] at hall
      simp only [List.foldl_cons]
      rw [ih (by simpa using hall.2)]
      simp [hall.1]
  exact h _ c07_decorator_rebinds (args, args)

/-- … while the wrapped function does receive both arguments shifted by EPSILON. -/
theorem c07_decorator_shifts_both :
    Gen.decoratorShifts.map (·.1) = [0, 1] ∧ Gen.decoratorParams = 2 := by decide

/-- functions the properties themselves specify to write into their arguments: `learn` exchanges
rows between the caller's training and validation arrays (C17). -/
def specifiedToWrite : List String := ["opfython/models/supervised.py:SupervisedOPF.learn"]

/-- apart from those, no statement anywhere in the library writes through a parameter (or through a
local bound to a view of one): every store goes to the receiver or to an object created locally. -/
theorem c07_no_caller_stores :
    (Gen.stores.filter (fun s => (s.2.1 == "param" || s.2.1 == "alias") && !(specifiedToWrite.contains s.1))) = [] := by
  decide

/-- no function declares a `global`: no hidden module state that a call history could change. -/
theorem c07_no_global_state : Gen.globalDecls = 0 := by decide

/-- no class keeps a mutable container at class level: nothing a fit or predict writes can be shared
between instances (e.g. a cache filled by one model and read by another). -/
theorem c07_no_shared_class_state : Gen.classLevelMutables = [] := by decide

/-- no array is allocated uninitialised: no result can depend on what freed memory happened to hold. -/
theorem c07_no_uninitialised_memory : Gen.uninitialisedAllocs = [] := by decide

/-- no function is wrapped by a caching decorator: no result is served from what an earlier call (with
an equal path, size or argument) happened to compute. -/
theorem c07_no_memoised : Gen.memoised = [] := by decide

/-- non-vacuity: an in-place wrapper WOULD change the caller's array (this is the defect that was
repaired in /repo: `x += c.EPSILON`). -/
example : (wrapperCall [(0, true), (1, true)] 1 [[0, 5], [7]]).2 = [[1, 6], [8]] := by decide

end Opf
