/-
C18 — refinement: the STATEMENT-BY-STATEMENT TRANSLATION of `split`, `split_with_index` and `merge`
(`Gen/SplitImp.lean`, regenerated from `opfython/stream/splitter.py` on every run by
`tools/translate_np.py`: Python slices, numpy fancy indexing, `vstack`/`hstack`) computes exactly the models
`splitIdx` / `gather` / `mergeRun` about which `Props/C18.lean` speaks: ONE permutation drives the
feature rows, the labels and the returned indexes; the first set takes the first `halt` entries of the
permutation, the second the rest; merging stacks in matching order.  Assumed (DESIGN §6):
`np.random.permutation` under the given seed returns a permutation `PERM n` of the row positions, and
`int(len(X) * percentage)` is the oracle `HALT`.
Property theorems only; helper lemmas live in `Lemmas/SplitRefine.lean`.
-/
import OpfVerif.Lemmas.SplitRefine
namespace Opf.SplitRefine
open Opf Opf.Gen Opf.Gen.SplitImp

theorem c18_gen_split_with_index (PERM : Int → Option (Array Int)) (HALT : Int → Option Int)
    (X Y : Array Int) (perm : List Nat) (halt : Nat) (hsz : X.size = Y.size)
    (hP : PERM (X.size : Int) = some (castArr perm)) (hH : HALT (X.size : Int) = some (halt : Int))
    (hperm : ∀ i, i ∈ perm → i < X.size) :
    split_with_index PERM HALT X Y = some
      ((gather X.toList (splitIdx perm halt).1).toArray, (gather X.toList (splitIdx perm halt).2).toArray,
       (gather Y.toList (splitIdx perm halt).1).toArray, (gather Y.toList (splitIdx perm halt).2).toArray,
       castArr (splitIdx perm halt).1, castArr (splitIdx perm halt).2) :=
  split_with_index_refines PERM HALT X Y perm halt hsz hP hH hperm

theorem c18_gen_split (PERM : Int → Option (Array Int)) (HALT : Int → Option Int)
    (X Y : Array Int) (perm : List Nat) (halt : Nat) (hsz : X.size = Y.size)
    (hP : PERM (X.size : Int) = some (castArr perm)) (hH : HALT (X.size : Int) = some (halt : Int))
    (hperm : ∀ i, i ∈ perm → i < X.size) :
    split PERM HALT X Y = some
      ((gather X.toList (splitIdx perm halt).1).toArray, (gather X.toList (splitIdx perm halt).2).toArray,
       (gather Y.toList (splitIdx perm halt).1).toArray, (gather Y.toList (splitIdx perm halt).2).toArray) :=
  split_refines PERM HALT X Y perm halt hsz hP hH hperm

theorem c18_gen_split_size_error (PERM : Int → Option (Array Int)) (HALT : Int → Option Int) (X Y : Array Int)
    (h : X.size ≠ Y.size) : split PERM HALT X Y = none ∧ split_with_index PERM HALT X Y = none :=
  split_size_error PERM HALT X Y h

theorem c18_gen_merge (X1 X2 Y1 Y2 : Array Int) :
    merge X1 X2 Y1 Y2 =
      (if X1.size + X2.size = Y1.size + Y2.size then some (X1 ++ X2, Y1 ++ Y2) else none) :=
  merge_refines X1 X2 Y1 Y2

end Opf.SplitRefine
