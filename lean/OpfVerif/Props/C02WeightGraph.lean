/-
C02 (stretch), Mathlib form — the tree built by `_find_prototypes` weighs no more than any spanning
tree of the complete graph on the samples, "spanning tree" being Mathlib's `SimpleGraph.IsTree` on
the vertex type `Fin n`.  A thin wrapper around `c02_min_weight_arcs` (`Props/C02Weight.lean`).
-/
import OpfVerif.Props.C02Weight
import Mathlib.Combinatorics.SimpleGraph.Acyclic
import Mathlib.Data.Sym.Sym2.Order

namespace Opf.PrimInst
open Opf.MstWeight

/-- weight of the undirected arc `e` (read at its sorted endpoints). -/
def symW (I : PrimInst) (e : Sym2 (Fin I.n)) : Int := I.w e.inf.val e.sup.val

/-- for symmetric weights the orientation does not matter. -/
theorem symW_mk (I : PrimInst) (hg : I.Good) (a b : Fin I.n) : I.symW s(a, b) = I.w a.val b.val := by
  unfold symW
  rw [Sym2.inf_mk, Sym2.sup_mk]
  rcases le_total a b with h | h
  · rw [inf_eq_left.2 h, sup_eq_right.2 h]
  · rw [inf_eq_right.2 h, sup_eq_left.2 h]
    exact hg.symm _ _ b.2 a.2

open Classical in
/-- total weight of a graph on the samples. -/
noncomputable def graphWeight (I : PrimInst) (T : SimpleGraph (Fin I.n)) : Int :=
  ∑ e ∈ T.edgeFinset, I.symW e

open Classical in
/-- **Minimum total weight, `SimpleGraph` form.** -/
theorem c02_min_weight_graph (I : PrimInst) (hg : I.Good) (s : PState) (hr : Reach I s)
    (hf : I.Final s) (T : SimpleGraph (Fin I.n)) (hT : T.IsTree) :
    I.primWeight s ≤ I.graphWeight T := by
  let E : List (Nat × Nat) := T.edgeFinset.toList.map (fun e => (e.inf.val, e.sup.val))
  have hmemE : ∀ a b : Fin I.n, T.Adj a b → a ≤ b → (a.val, b.val) ∈ E := by
    intro a b hab hle
    refine List.mem_map.2 ⟨s(a, b), Finset.mem_toList.2 (by simpa using hab), ?_⟩
    simp [inf_eq_left.2 hle, sup_eq_right.2 hle]
  have hE : IsSpanningArcs I.n E := by
    refine ⟨?_, ?_, ?_⟩
    · have := hT.card_edgeFinset
      simpa [E] using this
    · intro e he
      obtain ⟨e', _, rfl⟩ := List.mem_map.1 he
      exact ⟨e'.inf.2, e'.sup.2⟩
    · intro v hv
      have hreach := hT.connected.preconnected ⟨0, hg.n_pos⟩ ⟨v, hv⟩
      have hrt := (SimpleGraph.reachable_iff_reflTransGen _ _).1 hreach
      have hstep : ∀ a b : Fin I.n, T.Adj a b →
          Relation.ReflTransGen (ArcAdj E) a.val b.val := by
        intro a b hab
        rcases le_total a b with h | h
        · exact .single (Or.inl (hmemE a b hab h))
        · exact .single (Or.inr (hmemE b a hab.symm h))
      exact rtg_lift (fun a : Fin I.n => a.val) hstep hrt
  have hW : I.arcsWeight E = I.graphWeight T := by
    unfold arcsWeight graphWeight
    simp only [E, List.map_map]
    exact Finset.sum_map_toList _ _
  rw [← hW]
  exact c02_min_weight_arcs I hg s hr hf E hE

end Opf.PrimInst
