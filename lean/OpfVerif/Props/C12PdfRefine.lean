/-
C12 — refinement: the STATEMENT-BY-STATEMENT TRANSLATION of `KNNSubgraph.calculate_pdf`
(`Gen/PdfImp.lean`, regenerated from the source on every run) computes exactly the polymorphic
model `pdfG` about which `Props/C12Pdf.lean` speaks (constant = 2/9 of the bound, mean of the k exp
values over k+1, recorded minimum / maximum, affine map onto [1, MAX_DENSITY] or MAX_DENSITY when all
equal, cost = density - 1), instantiated with the UNINTERPRETED float operations `fo` — for every
meaning of `+ - * /`, `exp` and int→float conversion satisfying the two bridging equalities
`1000 - 1 = 999` (the source subtracts the ints before converting) and `0 - FLOAT_MAX = -FLOAT_MAX`
(the source negates exactly), both true of IEEE-754 binary64.
Property theorems only; helper lemmas live in `Lemmas/PdfRefine.lean`.
-/
import OpfVerif.Lemmas.PdfRefine
namespace Opf.PdfRefine
open Opf Opf.Gen Opf.Gen.PdfImp

theorem c12_gen_calculate_pdf (fo : Py.FOps) (W : Int → Int → Option Int) (w : Nat → Nat → Int) (top : Int)
    (sg : PSG) (n k : Nat) (adj : Array (List Nat)) (bound : Int)
    (h999 : fo.sub (fo.ofInt 1000) (fo.ofInt 1) = fo.ofInt 999) (hneg : fo.sub 0 top = -top)
    (hr : RelP sg n adj bound) (hn : 0 < n)
    (hW : ∀ a b : Nat, a < n → b < n → W (a : Int) (b : Int) = some (w a b))
    (hlong : ∀ i, i < n → k ≤ (adj.getD i []).length)
    (hadj : ∀ i, i < n → ∀ j, j ∈ adj.getD i [] → j < n) :
    ∃ sg', calculate_pdf W fo top sg (k : Int) = some (sg', ()) ∧
      sg'.constant = (modelOut fo w adj bound top k n).constant.val ∧
      sg'.min_density = (modelOut fo w adj bound top k n).minD.val ∧
      sg'.max_density = (modelOut fo w adj bound top k n).maxD.val ∧
      sg'.density = ((modelOut fo w adj bound top k n).density.map (·.val)).toArray ∧
      sg'.cost = ((modelOut fo w adj bound top k n).cost.map (·.val)).toArray ∧
      sg'.adjacency = sg.adjacency ∧ sg'.sg_density = sg.sg_density ∧ sg'.n_nodes = sg.n_nodes :=
  calculate_pdf_refines fo W w top sg n k adj bound h999 hneg hr hn hW hlong hadj

end Opf.PdfRefine
