/-
C12 / C14 (arithmetic part) — the density computation of `KNNSubgraph.calculate_pdf`, the cost
update of `KNNSubgraph.eliminate_maxima_height` and the query density of
`KNNSupervisedOPF.predict` / `UnsupervisedOPF.predict`.

The theorems below are properties of the POLYMORPHIC definitions `pdfG`, `queryDensityG`, `elimG`
of `OpfVerif/Model/Knn.lean` (section `Arith`) instantiated at the exact field `ℝ` (`pdfR`,
`queryDensityR`, `elimR`; the `<`-decision procedure is `Classical.decRel`, `==` is
`decide (a = b)` through `Classical.decEq ℝ`, the constants are `0 1 2 9` and `k + 1`).  The `Float`
instance of the SAME three definitions is what the driver runs and what is compared bit-for-bit with
numpy on the real code.  What is NOT modelled here: `exp` itself (the values `exp(-d/constant)` are
an input, `exps`), and IEEE-754 rounding (over `ℝ` the affine map hits `1` and `MAX_DENSITY` exactly
and is exactly monotone; over `Float` these are only what the bit-for-bit comparison observes).

Input convention: `exps[i]` lists the values `exp(-d(i,j)/constant)` for the neighbours `j` of sample
`i` in adjacency order; only the first `k` are used (`List.take k`), so the usual side condition
`k ≤ es.length` is not needed by any statement (when it holds, `take k` is exactly the `k` neighbours
the Python loop `for k in range(n_neighbours)` reads).
-/
import OpfVerif.Model.Knn
import Mathlib.Data.Real.Basic
import Mathlib.Tactic.Linarith
import Mathlib.Tactic.FieldSimp
import Mathlib.Tactic.Ring
import Mathlib.Tactic.NormNum
import Mathlib.Tactic.Positivity
import Mathlib.Algebra.BigOperators.Group.List.Basic
namespace Opf

/-! ### the instances at `ℝ` -/

/-- `==` on `ℝ` used by every `…R` definition below: `decide (a = b)` with the classical decision. -/
noncomputable abbrev beqR : BEq ℝ := @instBEqOfDecidableEq ℝ (Classical.decEq ℝ)

/-- `calculate_pdf` over `ℝ`: `pdfG` with constants `0 1 2 9`, `n_pdf = k + 1`. -/
noncomputable abbrev pdfR (maxDens top bound : ℝ) (k : ℕ) (exps : List (List ℝ)) : PdfOut ℝ :=
  @pdfG ℝ _ _ _ _ _ (Classical.decRel _) beqR 0 1 2 9 maxDens top bound k ((k : ℝ) + 1) exps

/-- query density of `predict` over `ℝ` (`k` = `best_k`, `eps` = `EPSILON`). -/
noncomputable abbrev queryDensityR (maxDens eps minD maxD : ℝ) (k : ℕ) (exps : List ℝ) : ℝ :=
  @queryDensityG ℝ _ _ _ _ 0 1 maxDens eps minD maxD (k : ℝ) exps

/-- `eliminate_maxima_height` on one node over `ℝ`. -/
noncomputable abbrev elimR (height density cost : ℝ) : ℝ :=
  @elimG ℝ _ _ (Classical.decRel _) 0 height density cost

/-- the pdf value of one sample: sum of its first `k` exp values divided by `k + 1`. -/
noncomputable def pdfOf (k : ℕ) (es : List ℝ) : ℝ := (es.take k).sum / ((k : ℝ) + 1)

/-- the affine min–max rescaling of `calculate_pdf`. -/
noncomputable def rescale (maxDens mn mx p : ℝ) : ℝ := (maxDens - 1) * (p - mn) / (mx - mn) + 1

/-! ### helper lemmas -/

theorem foldl_add_eq_sum (l : List ℝ) : l.foldl (· + ·) 0 = l.sum := by
  rw [List.sum_eq_foldl]

/-- the running min/max fold of `calculate_pdf` (strict comparisons). -/
noncomputable def mmFold (l : List ℝ) (ab : ℝ × ℝ) : ℝ × ℝ :=
  l.foldl (fun (m : ℝ × ℝ) p =>
    (@ite ℝ (p < m.1) (Classical.decRel _ p m.1) p m.1,
     @ite ℝ (m.2 < p) (Classical.decRel _ m.2 p) p m.2)) ab

theorem mmFold_spec (l : List ℝ) : ∀ a b : ℝ,
    ((mmFold l (a, b)).1 ≤ a ∧ (∀ p ∈ l, (mmFold l (a, b)).1 ≤ p) ∧
      ((mmFold l (a, b)).1 = a ∨ (mmFold l (a, b)).1 ∈ l)) ∧
    (b ≤ (mmFold l (a, b)).2 ∧ (∀ p ∈ l, p ≤ (mmFold l (a, b)).2) ∧
      ((mmFold l (a, b)).2 = b ∨ (mmFold l (a, b)).2 ∈ l)) := by
  induction l with
  | nil => intro a b; simp [mmFold]
  | cons x xs ih =>
    intro a b
    have e : mmFold (x :: xs) (a, b) =
        mmFold xs (@ite ℝ (x < a) (Classical.decRel _ x a) x a,
                   @ite ℝ (b < x) (Classical.decRel _ b x) x b) := by
      simp [mmFold]
    rw [e]
    have ha : ∀ a' : ℝ, a' = @ite ℝ (x < a) (Classical.decRel _ x a) x a →
        a' ≤ a ∧ a' ≤ x ∧ (a' = a ∨ a' = x) := by
      intro a' h; rw [h]; split_ifs with hx
      · exact ⟨hx.le, le_refl _, Or.inr rfl⟩
      · exact ⟨le_refl _, not_lt.1 hx, Or.inl rfl⟩
    have hb : ∀ b' : ℝ, b' = @ite ℝ (b < x) (Classical.decRel _ b x) x b →
        b ≤ b' ∧ x ≤ b' ∧ (b' = b ∨ b' = x) := by
      intro b' h; rw [h]; split_ifs with hx
      · exact ⟨hx.le, le_refl _, Or.inr rfl⟩
      · exact ⟨le_refl _, not_lt.1 hx, Or.inl rfl⟩
    generalize @ite ℝ (x < a) (Classical.decRel _ x a) x a = a' at ha ⊢
    generalize @ite ℝ (b < x) (Classical.decRel _ b x) x b = b' at hb ⊢
    obtain ⟨ha1, ha2, ha3⟩ := ha a' rfl
    obtain ⟨hb1, hb2, hb3⟩ := hb b' rfl
    obtain ⟨⟨h1, h2, h3⟩, ⟨g1, g2, g3⟩⟩ := ih a' b'
    refine ⟨⟨by linarith, ?_, ?_⟩, ⟨by linarith, ?_, ?_⟩⟩
    · intro p hp
      rcases List.mem_cons.1 hp with rfl | hp
      · linarith
      · exact h2 p hp
    · rcases h3 with h3 | h3
      · rcases ha3 with ha3 | ha3
        · left; rw [h3, ha3]
        · right; rw [h3, ha3]; exact List.mem_cons_self
      · right; exact List.mem_cons_of_mem _ h3
    · intro p hp
      rcases List.mem_cons.1 hp with rfl | hp
      · linarith
      · exact g2 p hp
    · rcases g3 with g3 | g3
      · rcases hb3 with hb3 | hb3
        · left; rw [g3, hb3]
        · right; rw [g3, hb3]; exact List.mem_cons_self
      · right; exact List.mem_cons_of_mem _ g3

/-- Unfolding of `pdfR` into its two branches, with `foldl (+) 0` replaced by `List.sum`. -/
theorem pdfR_unfold (maxDens top bound : ℝ) (k : ℕ) (exps : List (List ℝ)) :
    let o := pdfR maxDens top bound k exps
    let pdfs := exps.map (pdfOf k)
    let mm := mmFold pdfs (top, 0 - top)
    o.constant = 2 * bound / 9 ∧ o.pdf = pdfs ∧ o.minD = mm.1 ∧ o.maxD = mm.2 ∧
    ((mm.1 = mm.2 ∧ o.density = pdfs.map (fun _ => maxDens) ∧
        o.cost = pdfs.map (fun _ => maxDens - 1)) ∨
     (mm.1 ≠ mm.2 ∧ o.density = pdfs.map (rescale maxDens mm.1 mm.2) ∧
        o.cost = (pdfs.map (rescale maxDens mm.1 mm.2)).map (fun d => d - 1))) := by
  intro o pdfs mm
  have hp : exps.map (fun es => (es.take k).foldl (· + ·) 0 / ((k : ℝ) + 1)) = pdfs := by
    apply List.map_congr_left
    intro es _
    simp only [pdfOf, foldl_add_eq_sum]
  by_cases h : mm.1 = mm.2
  · have hb : (@BEq.beq ℝ beqR mm.1 mm.2) = true := by
      show decide (mm.1 = mm.2) = true
      exact decide_eq_true h
    have ho : o =
        { constant := 2 * bound / 9, minD := mm.1, maxD := mm.2, pdf := pdfs,
          density := pdfs.map (fun _ => maxDens), cost := pdfs.map (fun _ => maxDens - 1) } := by
      show pdfG _ _ _ _ _ _ _ _ _ _ = _
      unfold pdfG
      simp only [hp]
      exact if_pos hb
    rw [ho]
    exact ⟨rfl, rfl, rfl, rfl, Or.inl ⟨h, rfl, rfl⟩⟩
  · have hb : ¬ (@BEq.beq ℝ beqR mm.1 mm.2) = true := by
      show ¬ decide (mm.1 = mm.2) = true
      simpa using h
    have ho : o =
        { constant := 2 * bound / 9, minD := mm.1, maxD := mm.2, pdf := pdfs,
          density := pdfs.map (rescale maxDens mm.1 mm.2),
          cost := (pdfs.map (rescale maxDens mm.1 mm.2)).map (fun d => d - 1) } := by
      show pdfG _ _ _ _ _ _ _ _ _ _ = _
      unfold pdfG
      simp only [hp]
      exact if_neg hb
    rw [ho]
    exact ⟨rfl, rfl, rfl, rfl, Or.inr ⟨h, rfl, rfl⟩⟩

end Opf
