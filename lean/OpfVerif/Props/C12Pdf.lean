/-
C12 / C14 (arithmetic part) — the density computation of `KNNSubgraph.calculate_pdf`, the cost
update of `KNNSubgraph.eliminate_maxima_height` and the query density of
`KNNSupervisedOPF.predict` / `UnsupervisedOPF.predict`.

The theorems below are properties of the POLYMORPHIC definitions `pdfG`, `queryDensityG`, `elimG`
of `OpfVerif/Model/Knn.lean` (section `Arith`) instantiated at the exact field `ℝ` (`pdfR`,
`queryDensityR`, `elimR`; the `<`-decision procedure is `Classical.decRel`, `==` is
`decide (a = b)` through `Classical.decEq ℝ`, the constants are `0 1 2 9` and `k + 1`).  The `Float`
instance of the SAME three definitions is what the driver runs and what is compared bit-for-bit with
numpy on the real code.  What is NOT modelled here: `exp` itself (the values `exp(-d/constant)` are
an input, `exps`), and IEEE-754 rounding (over `ℝ` the affine map hits `1` and `MAX_DENSITY` exactly
and is exactly monotone; over `Float` these are only what the bit-for-bit comparison observes).

Input convention: `exps[i]` lists the values `exp(-d(i,j)/constant)` for the neighbours `j` of sample
`i` in adjacency order; only the first `k` are used (`List.take k`), so the usual side condition
`k ≤ es.length` is not needed by any statement (when it holds, `take k` is exactly the `k` neighbours
the Python loop `for k in range(n_neighbours)` reads).
-/
import OpfVerif.Model.Knn
import Mathlib.Data.Real.Basic
import Mathlib.Tactic.Linarith
import Mathlib.Tactic.FieldSimp
import Mathlib.Tactic.Ring
import Mathlib.Tactic.NormNum
import Mathlib.Tactic.Positivity
import Mathlib.Algebra.BigOperators.Group.List.Basic
namespace Opf

/-! ### the instances at `ℝ` -/

/-- `==` on `ℝ` used by every `…R` definition below: `decide (a = b)` with the classical decision. -/
noncomputable abbrev beqR : BEq ℝ := @instBEqOfDecidableEq ℝ (Classical.decEq ℝ)

/-- `calculate_pdf` over `ℝ`: `pdfG` with constants `0 1 2 9`, `n_pdf = k + 1`. -/
noncomputable abbrev pdfR (maxDens top bound : ℝ) (k : ℕ) (exps : List (List ℝ)) : PdfOut ℝ :=
  @pdfG ℝ _ _ _ _ _ (Classical.decRel _) beqR 0 1 2 9 maxDens top bound k ((k : ℝ) + 1) exps

/-- query density of `predict` over `ℝ` (`k` = `best_k`, `eps` = `EPSILON`). -/
noncomputable abbrev queryDensityR (maxDens eps minD maxD : ℝ) (k : ℕ) (exps : List ℝ) : ℝ :=
  @queryDensityG ℝ _ _ _ _ 0 1 maxDens eps minD maxD (k : ℝ) exps

/-- `eliminate_maxima_height` on one node over `ℝ`. -/
noncomputable abbrev elimR (height density cost : ℝ) : ℝ :=
  @elimG ℝ _ _ (Classical.decRel _) 0 height density cost

/-- the pdf value of one sample: sum of its first `k` exp values divided by `k + 1`. -/
noncomputable def pdfOf (k : ℕ) (es : List ℝ) : ℝ := (es.take k).sum / ((k : ℝ) + 1)

/-- the affine min–max rescaling of `calculate_pdf`. -/
noncomputable def rescale (maxDens mn mx p : ℝ) : ℝ := (maxDens - 1) * (p - mn) / (mx - mn) + 1

/-! ### helper lemmas -/

theorem foldl_add_eq_sum (l : List ℝ) : l.foldl (· + ·) 0 = l.sum := by
  rw [List.sum_eq_foldl]

/-- the running min/max fold of `calculate_pdf` (strict comparisons). -/
noncomputable def mmFold (l : List ℝ) (ab : ℝ × ℝ) : ℝ × ℝ :=
  l.foldl (fun (m : ℝ × ℝ) p =>
    (@ite ℝ (p < m.1) (Classical.decRel _ p m.1) p m.1,
     @ite ℝ (m.2 < p) (Classical.decRel _ m.2 p) p m.2)) ab

theorem mmFold_spec (l : List ℝ) : ∀ a b : ℝ,
    ((mmFold l (a, b)).1 ≤ a ∧ (∀ p ∈ l, (mmFold l (a, b)).1 ≤ p) ∧
      ((mmFold l (a, b)).1 = a ∨ (mmFold l (a, b)).1 ∈ l)) ∧
    (b ≤ (mmFold l (a, b)).2 ∧ (∀ p ∈ l, p ≤ (mmFold l (a, b)).2) ∧
      ((mmFold l (a, b)).2 = b ∨ (mmFold l (a, b)).2 ∈ l)) := by
  induction l with
  | nil => intro a b; simp [mmFold]
  | cons x xs ih =>
    intro a b
    have e : mmFold (x :: xs) (a, b) =
        mmFold xs (@ite ℝ (x < a) (Classical.decRel _ x a) x a,
                   @ite ℝ (b < x) (Classical.decRel _ b x) x b) := by
      simp [mmFold]
    rw [e]
    have ha : ∀ a' : ℝ, a' = @ite ℝ (x < a) (Classical.decRel _ x a) x a →
        a' ≤ a ∧ a' ≤ x ∧ (a' = a ∨ a' = x) := by
      intro a' h; rw [h]; split_ifs with hx
      · exact ⟨hx.le, le_refl _, Or.inr rfl⟩
      · exact ⟨le_refl _, not_lt.1 hx, Or.inl rfl⟩
    have hb : ∀ b' : ℝ, b' = @ite ℝ (b < x) (Classical.decRel _ b x) x b →
        b ≤ b' ∧ x ≤ b' ∧ (b' = b ∨ b' = x) := by
      intro b' h; rw [h]; split_ifs with hx
      · exact ⟨hx.le, le_refl _, Or.inr rfl⟩
      · exact ⟨le_refl _, not_lt.1 hx, Or.inl rfl⟩
    generalize @ite ℝ (x < a) (Classical.decRel _ x a) x a = a' at ha ⊢
    generalize @ite ℝ (b < x) (Classical.decRel _ b x) x b = b' at hb ⊢
    obtain ⟨ha1, ha2, ha3⟩ := ha a' rfl
    obtain ⟨hb1, hb2, hb3⟩ := hb b' rfl
    obtain ⟨⟨h1, h2, h3⟩, ⟨g1, g2, g3⟩⟩ := ih a' b'
    refine ⟨⟨by linarith, ?_, ?_⟩, ⟨by linarith, ?_, ?_⟩⟩
    · intro p hp
      rcases List.mem_cons.1 hp with rfl | hp
      · linarith
      · exact h2 p hp
    · rcases h3 with h3 | h3
      · rcases ha3 with ha3 | ha3
        · left; rw [h3, ha3]
        · right; rw [h3, ha3]; exact List.mem_cons_self
      · right; exact List.mem_cons_of_mem _ h3
    · intro p hp
      rcases List.mem_cons.1 hp with rfl | hp
      · linarith
      · exact g2 p hp
    · rcases g3 with g3 | g3
      · rcases hb3 with hb3 | hb3
        · left; rw [g3, hb3]
        · right; rw [g3, hb3]; exact List.mem_cons_self
      · right; exact List.mem_cons_of_mem _ g3

/-- Unfolding of `pdfR` into its two branches, with `foldl (+) 0` replaced by `List.sum`. -/
theorem pdfR_unfold (maxDens top bound : ℝ) (k : ℕ) (exps : List (List ℝ)) :
    let o := pdfR maxDens top bound k exps
    let pdfs := exps.map (pdfOf k)
    let mm := mmFold pdfs (top, 0 - top)
    o.constant = 2 * bound / 9 ∧ o.pdf = pdfs ∧ o.minD = mm.1 ∧ o.maxD = mm.2 ∧
    ((mm.1 = mm.2 ∧ o.density = pdfs.map (fun _ => maxDens) ∧
        o.cost = pdfs.map (fun _ => maxDens - 1)) ∨
     (mm.1 ≠ mm.2 ∧ o.density = pdfs.map (rescale maxDens mm.1 mm.2) ∧
        o.cost = (pdfs.map (rescale maxDens mm.1 mm.2)).map (fun d => d - 1))) := by
  intro o pdfs mm
  have hp : exps.map (fun es => (es.take k).foldl (· + ·) 0 / ((k : ℝ) + 1)) = pdfs := by
    apply List.map_congr_left
    intro es _
    simp only [pdfOf, foldl_add_eq_sum]
  by_cases h : mm.1 = mm.2
  · have hb : (@BEq.beq ℝ beqR mm.1 mm.2) = true := by
      show decide (mm.1 = mm.2) = true
      exact decide_eq_true h
    have ho : o =
        { constant := 2 * bound / 9, minD := mm.1, maxD := mm.2, pdf := pdfs,
          density := pdfs.map (fun _ => maxDens), cost := pdfs.map (fun _ => maxDens - 1) } := by
      show pdfG _ _ _ _ _ _ _ _ _ _ = _
      unfold pdfG
      simp only [hp]
      exact if_pos hb
    rw [ho]
    exact ⟨rfl, rfl, rfl, rfl, Or.inl ⟨h, rfl, rfl⟩⟩
  · have hb : ¬ (@BEq.beq ℝ beqR mm.1 mm.2) = true := by
      show ¬ decide (mm.1 = mm.2) = true
      simpa using h
    have ho : o =
        { constant := 2 * bound / 9, minD := mm.1, maxD := mm.2, pdf := pdfs,
          density := pdfs.map (rescale maxDens mm.1 mm.2),
          cost := (pdfs.map (rescale maxDens mm.1 mm.2)).map (fun d => d - 1) } := by
      show pdfG _ _ _ _ _ _ _ _ _ _ = _
      unfold pdfG
      simp only [hp]
      exact if_neg hb
    rw [ho]
    exact ⟨rfl, rfl, rfl, rfl, Or.inr ⟨h, rfl, rfl⟩⟩

/-- `pdfR_unfold` without `let`s. -/
theorem pdfR_unfold' (maxDens top bound : ℝ) (k : ℕ) (exps : List (List ℝ)) :
    (pdfR maxDens top bound k exps).constant = 2 * bound / 9 ∧
    (pdfR maxDens top bound k exps).pdf = exps.map (pdfOf k) ∧
    (pdfR maxDens top bound k exps).minD = (mmFold (exps.map (pdfOf k)) (top, 0 - top)).1 ∧
    (pdfR maxDens top bound k exps).maxD = (mmFold (exps.map (pdfOf k)) (top, 0 - top)).2 ∧
    (((mmFold (exps.map (pdfOf k)) (top, 0 - top)).1 = (mmFold (exps.map (pdfOf k)) (top, 0 - top)).2 ∧
        (pdfR maxDens top bound k exps).density = (exps.map (pdfOf k)).map (fun _ => maxDens) ∧
        (pdfR maxDens top bound k exps).cost = (exps.map (pdfOf k)).map (fun _ => maxDens - 1)) ∨
     ((mmFold (exps.map (pdfOf k)) (top, 0 - top)).1 ≠ (mmFold (exps.map (pdfOf k)) (top, 0 - top)).2 ∧
        (pdfR maxDens top bound k exps).density =
          (exps.map (pdfOf k)).map (rescale maxDens (mmFold (exps.map (pdfOf k)) (top, 0 - top)).1
            (mmFold (exps.map (pdfOf k)) (top, 0 - top)).2) ∧
        (pdfR maxDens top bound k exps).cost =
          ((exps.map (pdfOf k)).map (rescale maxDens (mmFold (exps.map (pdfOf k)) (top, 0 - top)).1
            (mmFold (exps.map (pdfOf k)) (top, 0 - top)).2)).map (fun d => d - 1))) :=
  pdfR_unfold maxDens top bound k exps

theorem rescale_strictMono {maxDens mn mx : ℝ} (hM : 1 < maxDens) (h : mn < mx) :
    StrictMono (rescale maxDens mn mx) := by
  intro p q hpq
  have h1 : 0 < maxDens - 1 := by linarith
  have h2 : 0 < mx - mn := by linarith
  have h3 : (maxDens - 1) * (p - mn) < (maxDens - 1) * (q - mn) :=
    mul_lt_mul_of_pos_left (by linarith) h1
  have h4 := div_lt_div_of_pos_right h3 h2
  unfold rescale
  linarith

theorem rescale_range {maxDens mn mx p : ℝ} (hM : 1 ≤ maxDens) (h : mn < mx) (h1 : mn ≤ p)
    (h2 : p ≤ mx) : 1 ≤ rescale maxDens mn mx p ∧ rescale maxDens mn mx p ≤ maxDens := by
  have hM' : 0 ≤ maxDens - 1 := by linarith
  have hd : 0 < mx - mn := by linarith
  unfold rescale
  constructor
  · have : 0 ≤ (maxDens - 1) * (p - mn) / (mx - mn) :=
      div_nonneg (mul_nonneg hM' (by linarith)) hd.le
    linarith
  · have : (maxDens - 1) * (p - mn) / (mx - mn) ≤ maxDens - 1 := by
      rw [div_le_iff₀ hd]
      exact mul_le_mul_of_nonneg_left (by linarith) hM'
    linarith

theorem rescale_min {maxDens mn mx : ℝ} : rescale maxDens mn mx mn = 1 := by
  simp [rescale]

theorem rescale_max {maxDens mn mx : ℝ} (h : mn ≠ mx) : rescale maxDens mn mx mx = maxDens := by
  have hd : mx - mn ≠ 0 := sub_ne_zero.2 (Ne.symm h)
  unfold rescale
  field_simp
  ring

/-! ### C12: `calculate_pdf` -/

section Props
variable (maxDens top bound : ℝ) (k : ℕ) (exps : List (List ℝ))

local notation "𝐨" => pdfR maxDens top bound k exps

/-- 1. `constant = 2 * density_bound / 9`. -/
theorem c12_pdf_constant : 𝐨.constant = 2 * bound / 9 :=
  (pdfR_unfold' maxDens top bound k exps).1

/-- 2. `pdf[i]` = (sum of the `k` exp values of sample `i`) / (k + 1). -/
theorem c12_pdf_values : 𝐨.pdf = exps.map (fun es => (es.take k).sum / ((k : ℝ) + 1)) :=
  (pdfR_unfold' maxDens top bound k exps).2.1

theorem c12_pdf_lengths :
    𝐨.pdf.length = exps.length ∧ 𝐨.density.length = exps.length ∧ 𝐨.cost.length = exps.length := by
  obtain ⟨_, hp, _, _, h | h⟩ := pdfR_unfold' maxDens top bound k exps
  · rw [hp, h.2.1, h.2.2]; simp
  · rw [hp, h.2.1, h.2.2]; simp

/-- 3. `min_density` / `max_density` are the minimum / maximum of the pdf values, provided there is
at least one sample and every pdf value lies strictly between `-top` and `top`
(`top` = `FLOAT_MAX`). -/
theorem c12_pdf_minmax (hne : exps ≠ [])
    (hb : ∀ es ∈ exps, -top < pdfOf k es ∧ pdfOf k es < top) :
    (∀ p ∈ 𝐨.pdf, 𝐨.minD ≤ p) ∧ 𝐨.minD ∈ 𝐨.pdf ∧ (∀ p ∈ 𝐨.pdf, p ≤ 𝐨.maxD) ∧ 𝐨.maxD ∈ 𝐨.pdf := by
  obtain ⟨_, hp, hmn, hmx, _⟩ := pdfR_unfold' maxDens top bound k exps
  rw [hp, hmn, hmx]
  obtain ⟨⟨_, h2, h3⟩, ⟨_, g2, g3⟩⟩ := mmFold_spec (exps.map (pdfOf k)) top (0 - top)
  obtain ⟨e, he⟩ := List.exists_mem_of_ne_nil exps hne
  have hmem : pdfOf k e ∈ exps.map (pdfOf k) := List.mem_map_of_mem he
  obtain ⟨hb1, hb2⟩ := hb e he
  refine ⟨h2, ?_, g2, ?_⟩
  · rcases h3 with h3 | h3
    · have := h2 _ hmem; rw [h3] at this; linarith
    · exact h3
  · rcases g3 with g3 | g3
    · have := g2 _ hmem; rw [g3] at this; linarith
    · exact g3

/-- 4. all pdf values equal: every density is `MAX_DENSITY`, every cost `MAX_DENSITY - 1`. -/
theorem c12_pdf_allequal (h : 𝐨.minD = 𝐨.maxD) :
    (∀ d ∈ 𝐨.density, d = maxDens) ∧ (∀ c ∈ 𝐨.cost, c = maxDens - 1) ∧
    𝐨.density.length = exps.length ∧ 𝐨.cost.length = exps.length := by
  obtain ⟨_, _, hmn, hmx, hc | hc⟩ := pdfR_unfold' maxDens top bound k exps
  · refine ⟨?_, ?_, (c12_pdf_lengths maxDens top bound k exps).2.1,
      (c12_pdf_lengths maxDens top bound k exps).2.2⟩
    · rw [hc.2.1]; intro d hd
      obtain ⟨_, _, rfl⟩ := List.mem_map.1 hd; rfl
    · rw [hc.2.2]; intro d hd
      obtain ⟨_, _, rfl⟩ := List.mem_map.1 hd; rfl
  · rw [hmn, hmx] at h; exact absurd h hc.1

/-- 5. otherwise: the affine min–max map onto `[1, MAX_DENSITY]`. -/
theorem c12_pdf_affine (h : 𝐨.minD ≠ 𝐨.maxD) :
    𝐨.density = 𝐨.pdf.map (fun p => (maxDens - 1) * (p - 𝐨.minD) / (𝐨.maxD - 𝐨.minD) + 1) := by
  obtain ⟨_, hp, hmn, hmx, hc | hc⟩ := pdfR_unfold' maxDens top bound k exps
  · rw [hmn, hmx] at h; exact absurd hc.1 h
  · rw [hp, hmn, hmx, hc.2.1]; rfl

theorem c12_pdf_affine' (h : 𝐨.minD ≠ 𝐨.maxD) :
    𝐨.density = 𝐨.pdf.map (rescale maxDens 𝐨.minD 𝐨.maxD) :=
  c12_pdf_affine maxDens top bound k exps h

theorem c12_pdf_const' (h : 𝐨.minD = 𝐨.maxD) : 𝐨.density = 𝐨.pdf.map (fun _ => maxDens) := by
  obtain ⟨_, hp, hmn, hmx, hc | hc⟩ := pdfR_unfold' maxDens top bound k exps
  · rw [hp, hc.2.1]
  · rw [hmn, hmx] at h; exact absurd h hc.1

/-- 6. initial cost = density − 1, in both branches. -/
theorem c12_pdf_cost : 𝐨.cost = 𝐨.density.map (· - 1) := by
  obtain ⟨_, _, _, _, hc | hc⟩ := pdfR_unfold' maxDens top bound k exps
  · rw [hc.2.1, hc.2.2]; simp [List.map_map]
  · rw [hc.2.1, hc.2.2]

/-- with at least one sample and the `top` bounds, `min_density ≤ max_density`. -/
theorem c12_pdf_min_le_max (hne : exps ≠ [])
    (hb : ∀ es ∈ exps, -top < pdfOf k es ∧ pdfOf k es < top) : 𝐨.minD ≤ 𝐨.maxD := by
  obtain ⟨h1, h2, h3, _⟩ := c12_pdf_minmax maxDens top bound k exps hne hb
  exact h3 _ h2

/-- every density lies in `[1, MAX_DENSITY]` (both branches). -/
theorem c12_pdf_range (hM : 1 ≤ maxDens) (hne : exps ≠ [])
    (hb : ∀ es ∈ exps, -top < pdfOf k es ∧ pdfOf k es < top) :
    ∀ d ∈ 𝐨.density, 1 ≤ d ∧ d ≤ maxDens := by
  intro d hd
  by_cases h : 𝐨.minD = 𝐨.maxD
  · rw [(c12_pdf_allequal maxDens top bound k exps h).1 d hd]
    exact ⟨hM, le_refl _⟩
  · obtain ⟨h1, _, h3, _⟩ := c12_pdf_minmax maxDens top bound k exps hne hb
    have hlt : 𝐨.minD < 𝐨.maxD :=
      lt_of_le_of_ne (c12_pdf_min_le_max maxDens top bound k exps hne hb) h
    rw [c12_pdf_affine' maxDens top bound k exps h] at hd
    obtain ⟨p, hp, rfl⟩ := List.mem_map.1 hd
    exact rescale_range hM hlt (h1 p hp) (h3 p hp)

/-- in the affine branch the sample(s) attaining the minimum get density exactly `1`. -/
theorem c12_pdf_min_to_one (h : 𝐨.minD ≠ 𝐨.maxD) (i : ℕ) (hi : i < 𝐨.pdf.length)
    (hi' : i < 𝐨.density.length) (hmin : 𝐨.pdf[i] = 𝐨.minD) : 𝐨.density[i] = 1 := by
  have e : 𝐨.density[i] = rescale maxDens 𝐨.minD 𝐨.maxD 𝐨.pdf[i] := by
    simp [c12_pdf_affine' maxDens top bound k exps h]
  rw [e, hmin, rescale_min]

/-- the sample(s) attaining the maximum get density exactly `MAX_DENSITY` (both branches). -/
theorem c12_pdf_max_to_maxdens (i : ℕ) (hi : i < 𝐨.pdf.length)
    (hi' : i < 𝐨.density.length) (hmax : 𝐨.pdf[i] = 𝐨.maxD) : 𝐨.density[i] = maxDens := by
  by_cases h : 𝐨.minD = 𝐨.maxD
  · exact (c12_pdf_allequal maxDens top bound k exps h).1 _ (List.getElem_mem hi')
  · have e : 𝐨.density[i] = rescale maxDens 𝐨.minD 𝐨.maxD 𝐨.pdf[i] := by
      simp [c12_pdf_affine' maxDens top bound k exps h]
    rw [e, hmax, rescale_max h]

/-- the density map preserves the order of the pdf values, index by index (both branches). -/
theorem c12_pdf_monotone (hM : 1 < maxDens) (hne : exps ≠ [])
    (hb : ∀ es ∈ exps, -top < pdfOf k es ∧ pdfOf k es < top)
    (i j : ℕ) (hi : i < 𝐨.pdf.length) (hi' : i < 𝐨.density.length)
    (hj : j < 𝐨.pdf.length) (hj' : j < 𝐨.density.length) :
    (𝐨.pdf[i] < 𝐨.pdf[j] → 𝐨.density[i] < 𝐨.density[j]) ∧
    (𝐨.pdf[i] = 𝐨.pdf[j] → 𝐨.density[i] = 𝐨.density[j]) := by
  by_cases h : 𝐨.minD = 𝐨.maxD
  · obtain ⟨h1, _, h3, _⟩ := c12_pdf_minmax maxDens top bound k exps hne hb
    have hall := (c12_pdf_allequal maxDens top bound k exps h).1
    constructor
    · intro hlt
      have := h1 _ (List.getElem_mem hi)
      have := h3 _ (List.getElem_mem hj)
      linarith
    · intro _
      rw [hall _ (List.getElem_mem hi'), hall _ (List.getElem_mem hj')]
  · have hlt : 𝐨.minD < 𝐨.maxD :=
      lt_of_le_of_ne (c12_pdf_min_le_max maxDens top bound k exps hne hb) h
    have ei : 𝐨.density[i] = rescale maxDens 𝐨.minD 𝐨.maxD 𝐨.pdf[i] := by
      simp [c12_pdf_affine' maxDens top bound k exps h]
    have ej : 𝐨.density[j] = rescale maxDens 𝐨.minD 𝐨.maxD 𝐨.pdf[j] := by
      simp [c12_pdf_affine' maxDens top bound k exps h]
    rw [ei, ej]
    exact ⟨fun hpq => rescale_strictMono hM hlt hpq, fun hpq => by rw [hpq]⟩

/-- in the affine branch the order is also reflected: densities compare exactly as pdf values. -/
theorem c12_pdf_monotone_iff (hM : 1 < maxDens) (hne : exps ≠ [])
    (hb : ∀ es ∈ exps, -top < pdfOf k es ∧ pdfOf k es < top) (h : 𝐨.minD ≠ 𝐨.maxD)
    (i j : ℕ) (hi : i < 𝐨.pdf.length) (hi' : i < 𝐨.density.length)
    (hj : j < 𝐨.pdf.length) (hj' : j < 𝐨.density.length) :
    𝐨.density[i] < 𝐨.density[j] ↔ 𝐨.pdf[i] < 𝐨.pdf[j] := by
  have hlt : 𝐨.minD < 𝐨.maxD :=
    lt_of_le_of_ne (c12_pdf_min_le_max maxDens top bound k exps hne hb) h
  have ei : 𝐨.density[i] = rescale maxDens 𝐨.minD 𝐨.maxD 𝐨.pdf[i] := by
    simp [c12_pdf_affine' maxDens top bound k exps h]
  have ej : 𝐨.density[j] = rescale maxDens 𝐨.minD 𝐨.maxD 𝐨.pdf[j] := by
    simp [c12_pdf_affine' maxDens top bound k exps h]
  rw [ei, ej]
  exact (rescale_strictMono hM hlt).lt_iff_lt

end Props

/-! ### C12: `eliminate_maxima_height` -/

/-- 7a. `height > 0`: new cost = `max(density - height, 0)`. -/
theorem c12_elim_pos {h : ℝ} (d c : ℝ) (hh : 0 < h) : elimR h d c = max (d - h) 0 := by
  show elimG _ _ _ _ = _
  unfold elimG
  rw [if_pos hh]
  by_cases hv : 0 < d - h
  · simp only [if_pos hv]; exact (max_eq_left hv.le).symm
  · simp only [if_neg hv]; exact (max_eq_right (not_lt.1 hv)).symm

/-- 7b. `height ≤ 0`: the cost is left as it is. -/
theorem c12_elim_nonpos {h : ℝ} (d c : ℝ) (hh : h ≤ 0) : elimR h d c = c := by
  show elimG _ _ _ _ = _
  unfold elimG
  rw [if_neg (not_lt.2 hh)]

/-! ### C14: density of a query in `predict` -/

/-- 8. mean of the `k` exp values (divided by `k`, not `k + 1`), min–max scaled with `+ EPSILON`
in the denominator. -/
theorem c14_query_density (maxDens eps minD maxD : ℝ) (k : ℕ) (exps : List ℝ) :
    queryDensityR maxDens eps minD maxD k exps =
      (maxDens - 1) * ((exps.sum / (k : ℝ)) - minD) / (maxD - minD + eps) + 1 := by
  show queryDensityG _ _ _ _ _ _ _ _ = _
  unfold queryDensityG
  rw [foldl_add_eq_sum]

/-! ### non-vacuity: a concrete 3-sample input -/

/-- 9. `k = 2`, `MAX_DENSITY = 1000`, `top = 10^6`, density bound `1`: the hypotheses of the
theorems above hold and the outputs are computed exactly (pdf `1/4, 1/6, 1/2`; the minimum goes to
`1`, the maximum to `1000`, the middle one to `999 * (1/4 - 1/6) / (1/2 - 1/6) + 1 = 1003/4`). -/
example :
    let exps : List (List ℝ) := [[1/2, 1/4], [1/4, 1/4], [1, 1/2]]
    let o := pdfR 1000 (10^6) 1 2 exps
    (1 : ℝ) < 1000 ∧ (0 : ℝ) < 10^6 ∧ exps ≠ [] ∧ (∀ es ∈ exps, 2 ≤ es.length) ∧
    (∀ es ∈ exps, -(10:ℝ)^6 < pdfOf 2 es ∧ pdfOf 2 es < (10:ℝ)^6) ∧
    o.constant = 2 / 9 ∧ o.pdf = [1/4, 1/6, 1/2] ∧ o.minD = 1/6 ∧ o.maxD = 1/2 ∧
    o.density = [1003/4, 1, 1000] ∧ o.cost = [999/4, 0, 999] ∧
    (∀ d ∈ o.density, 1 ≤ d ∧ d ≤ 1000) := by
  intro exps o
  have hne0 : exps ≠ [] := by simp [exps]
  have hb : ∀ es ∈ exps, -(10:ℝ)^6 < pdfOf 2 es ∧ pdfOf 2 es < (10:ℝ)^6 := by
    norm_num [exps, pdfOf]
  have hmm : mmFold (exps.map (pdfOf 2)) ((10:ℝ)^6, 0 - (10:ℝ)^6) = (1/6, 1/2) := by
    norm_num [exps, mmFold, pdfOf]
  obtain ⟨hc, hp, hmn, hmx, -⟩ := pdfR_unfold' 1000 (10^6) 1 2 exps
  rw [hmm] at hmn hmx
  have hmn' : o.minD = 1/6 := hmn
  have hmx' : o.maxD = 1/2 := hmx
  have hne : o.minD ≠ o.maxD := by rw [hmn', hmx']; norm_num
  have hp' : o.pdf = [1/4, 1/6, 1/2] := by
    show (pdfR 1000 (10^6) 1 2 exps).pdf = _
    rw [hp]; norm_num [exps, pdfOf]
  have hd : o.density = [1003/4, 1, 1000] := by
    rw [c12_pdf_affine _ _ _ _ _ hne, hmn', hmx', hp']
    norm_num
  refine ⟨by norm_num, by norm_num, hne0, by simp [exps], hb, ?_, hp', hmn', hmx', hd, ?_,
    c12_pdf_range 1000 (10^6) 1 2 exps (by norm_num) hne0 hb⟩
  · rw [hc]; norm_num
  · rw [c12_pdf_cost, hd]; norm_num

/-- the all-equal branch is reachable as well: two samples with the same pdf value. -/
example :
    let o := pdfR 1000 (10^6) 1 2 [[1/2, 1/4], [1/4, 1/2]]
    o.minD = o.maxD ∧ o.density = [1000, 1000] ∧ o.cost = [999, 999] := by
  intro o
  have hmm : mmFold (([[1/2, 1/4], [1/4, 1/2]] : List (List ℝ)).map (pdfOf 2))
      ((10:ℝ)^6, 0 - (10:ℝ)^6) = (1/4, 1/4) := by
    norm_num [mmFold, pdfOf]
  obtain ⟨-, hp, hmn, hmx, -⟩ := pdfR_unfold' 1000 (10^6) 1 2 [[1/2, 1/4], [1/4, 1/2]]
  rw [hmm] at hmn hmx
  have h : o.minD = o.maxD := hmn.trans hmx.symm
  have hd : o.density = [1000, 1000] := by
    rw [c12_pdf_const' _ _ _ _ _ h]
    show List.map _ (pdfR 1000 (10^6) 1 2 [[1/2, 1/4], [1/4, 1/2]]).pdf = _
    rw [hp]; simp
  refine ⟨h, hd, ?_⟩
  rw [c12_pdf_cost, hd]; norm_num

/-- `eliminate_maxima_height` and the query density on concrete numbers. -/
example : elimR 2 5 7 = 3 ∧ elimR 9 5 7 = 0 ∧ elimR 0 5 7 = 7 ∧ elimR (-1) 5 7 = 7 ∧
    queryDensityR 1000 (1/10) (1/6) (1/2) 2 [1/2, 1/4] =
      999 * (3/8 - 1/6) / (1/2 - 1/6 + 1/10) + 1 := by
  refine ⟨?_, ?_, ?_, ?_, ?_⟩
  · rw [c12_elim_pos _ _ (by norm_num)]; norm_num
  · rw [c12_elim_pos _ _ (by norm_num)]; norm_num
  · exact c12_elim_nonpos _ _ (le_refl _)
  · exact c12_elim_nonpos _ _ (by norm_num)
  · rw [c14_query_density]; norm_num

end Opf
