/-
C17 — `SupervisedOPF.learn` conserves samples, keeps the first best model; relevance after a
prediction pass; `prune` only discards (model section L8, `OpfVerif/Model/Learn.lean`, and
`OpfVerif/Lemmas/Predict.lean`; Python: `opfython/models/supervised.py` `learn`, `prune`, `predict`).

(a) `c17_swap_multiset`  the exchange loop keeps the multiset of samples of training ∪ validation
                         and both sizes (a sample = the pair (row, label));
(b) `c17_best_kept`      the kept model is that of the FIRST iteration attaining the highest validation
                         accuracy; `c17_best_none_iff`;
(c) `c17_relevant`       after a prediction pass exactly the conquerors and their ancestors are flagged;
    `c17_conqueror`, `c17_conqueror_min`, `c17_conqueror_first`;
(d) `c17_prune_sub`, `c17_prune_exact`  the kept samples are exactly those at relevant positions, in
                         order.
-/
import OpfVerif.Model.Learn
import OpfVerif.Lemmas.Predict
import Mathlib.Data.List.Perm.Basic
namespace Opf

/-! ## (a) the exchange loop -/

/-- one exchange `train[j] ↔ val[err]` is a transposition of the concatenation. -/
theorem swap_perm {β : Type} [Inhabited β] (train val : List β) (j err : Nat)
    (hj : j < train.length) (he : err < val.length) :
    (train.set j (val.getD err default) ++ val.set err (train.getD j default)).Perm (train ++ val) := by
  have hx : train.getD j default = train[j] := by
    simp [List.getD_eq_getElem?_getD, List.getElem?_eq_getElem hj]
  have hy : val.getD err default = val[err] := by
    simp [List.getD_eq_getElem?_getD, List.getElem?_eq_getElem he]
  rw [hx, hy, List.set_eq_take_append_cons_drop, List.set_eq_take_append_cons_drop, if_pos hj,
    if_pos he]
  have ht : train = train.take j ++ train[j] :: train.drop (j + 1) := by simp
  have hv : val = val.take err ++ val[err] :: val.drop (err + 1) := by simp
  generalize train.take j = A at *
  generalize train.drop (j + 1) = B at *
  generalize val.take err = C at *
  generalize val.drop (err + 1) = E at *
  generalize train[j] = x at *
  generalize val[err] = y at *
  rw [ht, hv]
  have h1 : (A ++ y :: B ++ (C ++ x :: E)).Perm (y :: x :: (A ++ B ++ (C ++ E))) := by
    refine (List.Perm.append List.perm_middle List.perm_middle).trans ?_
    simp only [List.cons_append]
    exact (List.perm_middle).cons y
  have h2 : (A ++ x :: B ++ (C ++ y :: E)).Perm (x :: y :: (A ++ B ++ (C ++ E))) := by
    refine (List.Perm.append List.perm_middle List.perm_middle).trans ?_
    simp only [List.cons_append]
    exact (List.perm_middle).cons x
  exact h1.trans ((List.Perm.swap x y _).trans h2.symm)

/-- invariant carried by the loop. -/
structure SwapInv {β : Type} (s s' : SwapSt β) : Prop where
  perm : (s'.train ++ s'.val).Perm (s.train ++ s.val)
  ltrain : s'.train.length = s.train.length
  lval : s'.val.length = s.val.length
  draws : ∀ j ∈ s'.draws, j ∈ s.draws

theorem SwapInv.refl {β : Type} (s : SwapSt β) : SwapInv s s :=
  ⟨List.Perm.refl _, rfl, rfl, fun _ h => h⟩

theorem SwapInv.trans {β : Type} {a b c : SwapSt β} (h1 : SwapInv a b) (h2 : SwapInv b c) :
    SwapInv a c :=
  ⟨h2.perm.trans h1.perm, h2.ltrain.trans h1.ltrain, h2.lval.trans h1.lval,
    fun j hj => h1.draws j (h2.draws j hj)⟩

theorem swapTry_inv {β : Type} [Inhabited β] (isProto : Nat → Bool) (err : Nat) :
    ∀ (ctr : Nat) (s : SwapSt β), err < s.val.length → (∀ j ∈ s.draws, j < s.train.length) →
      SwapInv s (swapTry isProto err ctr s) := by
  intro ctr
  induction ctr with
  | zero => intro s _ _; exact SwapInv.refl s
  | succ ctr ih =>
    intro s he hd
    unfold swapTry
    cases hdr : s.draws with
    | nil => exact SwapInv.refl s
    | cons j ds =>
      simp only
      have hj : j < s.train.length := hd j (by rw [hdr]; exact List.mem_cons_self)
      by_cases hp : (!isProto j) = true
      · rw [if_pos hp]
        exact ⟨swap_perm s.train s.val j err hj he, by simp, by simp,
          fun k hk => by rw [hdr]; exact List.mem_cons_of_mem _ hk⟩
      · rw [if_neg hp]
        have h0 : SwapInv s { s with draws := ds } :=
          ⟨List.Perm.refl _, rfl, rfl, fun k hk => by rw [hdr]; exact List.mem_cons_of_mem _ hk⟩
        exact h0.trans (ih { s with draws := ds } he
          (fun k hk => hd k (by rw [hdr]; exact List.mem_cons_of_mem _ hk)))

theorem swapLoop_inv {β : Type} [Inhabited β] (isProto : Nat → Bool) (errors : List Nat) :
    ∀ (s : SwapSt β), (∀ e ∈ errors, e < s.val.length) → (∀ j ∈ s.draws, j < s.train.length) →
      SwapInv s (swapLoop isProto errors s) := by
  induction errors with
  | nil => intro s _ _; exact SwapInv.refl s
  | cons e errors ih =>
    intro s herr hdraw
    have h1 := swapTry_inv isProto e s.nonProto s (herr e List.mem_cons_self) hdraw
    have h2 := ih (swapTry isProto e s.nonProto s)
      (fun x hx => by rw [h1.lval]; exact herr x (List.mem_cons_of_mem _ hx))
      (fun j hj => by rw [h1.ltrain]; exact hdraw j (h1.draws j hj))
    exact h1.trans h2

/-- exchanging never loses, duplicates or re-pairs a sample: the multiset of samples of
training ++ validation is unchanged, and so are both sizes. -/
theorem c17_swap_multiset {β : Type} [Inhabited β] (isProto : Nat → Bool) (errors : List Nat)
    (s : SwapSt β) (herr : ∀ e ∈ errors, e < s.val.length)
    (hdraw : ∀ j ∈ s.draws, j < s.train.length) :
    let s' := swapLoop isProto errors s
    (s'.train ++ s'.val).Perm (s.train ++ s.val) ∧ s'.train.length = s.train.length ∧
      s'.val.length = s.val.length := by
  have h := swapLoop_inv isProto errors s herr hdraw
  exact ⟨h.perm, h.ltrain, h.lval⟩

/-- only draws are consumed: what is left unread was there before. -/
theorem c17_swap_draws {β : Type} [Inhabited β] (isProto : Nat → Bool) (errors : List Nat)
    (s : SwapSt β) (herr : ∀ e ∈ errors, e < s.val.length)
    (hdraw : ∀ j ∈ s.draws, j < s.train.length) :
    ∀ j ∈ (swapLoop isProto errors s).draws, j ∈ s.draws :=
  (swapLoop_inv isProto errors s herr hdraw).draws

/-! ## (b) keep-the-best -/

def bestStep (st : Int × Option Nat × Nat) (a : Int) : Int × Option Nat × Nat :=
  if a > st.1 then (a, some st.2.2, st.2.2 + 1) else (st.1, st.2.1, st.2.2 + 1)

theorem bestIter_eq (start : Int) (accs : List Int) :
    bestIter start accs = (accs.foldl bestStep (start, none, 0)).2.1 := rfl

structure BestInv (start : Int) (l : List Int) (st : Int × Option Nat × Nat) : Prop where
  idx : st.2.2 = l.length
  ub : ∀ a ∈ l, a ≤ st.1
  cases : (st.2.1 = none ∧ st.1 = start) ∨
    (∃ k, st.2.1 = some k ∧ k < l.length ∧ l[k]? = some st.1 ∧ start < st.1 ∧
      ∀ j, j < k → ∀ v, l[j]? = some v → v < st.1)

theorem BestInv.step {start : Int} {l : List Int} {st} (h : BestInv start l st) (a : Int) :
    BestInv start (l ++ [a]) (bestStep st a) := by
  obtain ⟨m, b, i⟩ := st
  obtain ⟨hi, hub, hc⟩ := h
  simp only at hi hub hc
  unfold bestStep
  by_cases hgt : a > m
  · simp only [hgt, if_true]
    refine ⟨by simp [hi], ?_, Or.inr ⟨l.length, by simp [hi], by simp, by simp, ?_, ?_⟩⟩
    · intro x hx
      rcases List.mem_append.1 hx with hx | hx
      · have := hub x hx; omega
      · simp at hx; omega
    · rcases hc with ⟨_, rfl⟩ | ⟨k, _, _, _, hlt, _⟩ <;> omega
    · intro j hj v hv
      rw [List.getElem?_append_left hj] at hv
      have := hub v (List.mem_of_getElem? hv)
      simp only; omega
  · simp only [hgt, if_false]
    refine ⟨by simp [hi], ?_, ?_⟩
    · intro x hx
      rcases List.mem_append.1 hx with hx | hx
      · exact hub x hx
      · simp at hx; simp only; omega
    · rcases hc with hn | ⟨k, hb, hk, hget, hlt, hfirst⟩
      · exact Or.inl hn
      · refine Or.inr ⟨k, hb, by simp; omega, ?_, hlt, ?_⟩
        · rw [List.getElem?_append_left hk]; exact hget
        · intro j hjk v hv
          rw [List.getElem?_append_left (by omega)] at hv
          exact hfirst j hjk v hv

theorem BestInv.fold {start : Int} (l : List Int) : ∀ (pre : List Int) st, BestInv start pre st →
    BestInv start (pre ++ l) (l.foldl bestStep st) := by
  induction l with
  | nil => intro pre st h; simpa using h
  | cons a l ih =>
    intro pre st h
    rw [List.append_cons, List.foldl_cons]
    exact ih _ _ (h.step a)

theorem bestInv_run (start : Int) (accs : List Int) :
    BestInv start accs (accs.foldl bestStep (start, none, 0)) := by
  have := BestInv.fold (start := start) accs [] (start, none, 0)
    ⟨by simp, by simp, Or.inl ⟨rfl, rfl⟩⟩
  simpa using this

/-- no model is kept iff no accuracy exceeds `start`. -/
theorem c17_best_none_iff (start : Int) (accs : List Int) :
    bestIter start accs = none ↔ ∀ a ∈ accs, a ≤ start := by
  rw [bestIter_eq]
  obtain ⟨_, hub, hc⟩ := bestInv_run start accs
  constructor
  · intro hn
    rcases hc with ⟨_, hs⟩ | ⟨k, hb, _⟩
    · intro a ha; have := hub a ha; omega
    · rw [hn] at hb; cases hb
  · intro hall
    rcases hc with ⟨hn, _⟩ | ⟨k, hb, _, hget, hlt, _⟩
    · exact hn
    · have := hall _ (List.mem_of_getElem? hget); omega

/-- the kept model is that of the first iteration attaining the highest validation accuracy. -/
theorem c17_best_kept (start : Int) (accs : List Int) (hne : accs ≠ [])
    (hlt : ∀ a ∈ accs, start < a) :
    ∃ k, bestIter start accs = some k ∧ k < accs.length ∧
      (∀ j < accs.length, accs[j]! ≤ accs[k]!) ∧ (∀ j < k, accs[j]! < accs[k]!) := by
  have hnn : bestIter start accs ≠ none := by
    intro h
    rw [c17_best_none_iff] at h
    obtain ⟨a, l, rfl⟩ := List.exists_cons_of_ne_nil hne
    have := h a (by simp); have := hlt a (by simp); omega
  rw [bestIter_eq] at hnn ⊢
  obtain ⟨_, hub, hc⟩ := bestInv_run start accs
  rcases hc with ⟨hn, _⟩ | ⟨k, hb, hk, hget, _, hfirst⟩
  · exact absurd hn hnn
  · refine ⟨k, hb, hk, ?_, ?_⟩
    · intro j hj
      simp only [List.getElem!_eq_getElem?_getD, hget, Option.getD_some]
      rw [List.getElem?_eq_getElem hj, Option.getD_some]
      exact hub _ (List.getElem_mem hj)
    · intro j hjk
      have hj : j < accs.length := by omega
      simp only [List.getElem!_eq_getElem?_getD, hget, Option.getD_some]
      rw [List.getElem?_eq_getElem hj, Option.getD_some]
      exact hfirst j hjk _ (List.getElem?_eq_getElem hj)

/-- general form (no assumption on `start`): whenever a model is kept it is the first maximiser
and strictly better than `start`. -/
theorem c17_best_kept_gen (start : Int) (accs : List Int) (k : Nat) (hk : bestIter start accs = some k) :
    k < accs.length ∧ start < accs[k]! ∧
      (∀ j < accs.length, accs[j]! ≤ accs[k]!) ∧ (∀ j < k, accs[j]! < accs[k]!) := by
  rw [bestIter_eq] at hk
  obtain ⟨_, hub, hc⟩ := bestInv_run start accs
  rcases hc with ⟨hn, _⟩ | ⟨k', hb, hk', hget, hlt, hfirst⟩
  · rw [hn] at hk; cases hk
  · rw [hb] at hk; cases hk
    refine ⟨hk', ?_, ?_, ?_⟩
    · simp only [List.getElem!_eq_getElem?_getD, hget, Option.getD_some]; exact hlt
    · intro j hj
      simp only [List.getElem!_eq_getElem?_getD, hget, Option.getD_some]
      rw [List.getElem?_eq_getElem hj, Option.getD_some]
      exact hub _ (List.getElem_mem hj)
    · intro j hjk
      have hj : j < accs.length := by omega
      simp only [List.getElem!_eq_getElem?_getD, hget, Option.getD_some]
      rw [List.getElem?_eq_getElem hj, Option.getD_some]
      exact hfirst j hjk _ (List.getElem?_eq_getElem hj)

/-! ## (c) relevance -/

/-- after a prediction pass over a forest with no flag set, exactly the conquerors and their
ancestors (up to the prototype) are flagged. -/
theorem c17_relevant (f : Forest) (rank : Nat → Nat) (hwf : f.WF) (hr : Ranked f rank)
    (h0 : ∀ x, f.relevantOf x = false) (ds : List (Nat → Int)) :
    ∀ t, t < f.n → ((predictBatch f ds).1.relevantOf t = true ↔
      ∃ d ∈ ds, ∃ r, predictOne f d = some r ∧ Anc f t r.conq) := by
  intro t ht
  rw [predictBatch_relevant f rank hwf hr ds t ht]
  constructor
  · rintro (h | h)
    · rw [h0 t] at h; cases h
    · exact h
  · exact Or.inr

/-- the pass changes nothing but the relevance flags. -/
theorem c17_relevant_only (f : Forest) (ds : List (Nat → Int)) :
    AgreeBut (predictBatch f ds).1 f := predictBatch_fields f ds

/-- the conqueror is a node of the conquest order and the reported cost is its offer. -/
theorem c17_conqueror (f : Forest) (d : Nat → Int) (r : PredAcc) (h : predictOne f d = some r) :
    r.conq ∈ f.order.toList ∧ r.minCost = max (f.costOf r.conq) (d r.conq) ∧
      r.label = f.plabelOf r.conq :=
  predictOne_conq_mem f d r h

/-- with a cost-sorted conquest order the conqueror attains the minimum offer over the order … -/
theorem c17_conqueror_min (f : Forest) (d : Nat → Int) (hs : OrderSorted f) (r : PredAcc)
    (h : predictOne f d = some r) :
    ∀ t, t ∈ f.order.toList → max (f.costOf r.conq) (d r.conq) ≤ max (f.costOf t) (d t) := by
  intro t ht
  rw [← (predictOne_min f d hs r h).2.2.1]
  exact (predictOne_min f d hs r h).1 t ht

/-- … and it is the first node of the order attaining it. -/
theorem c17_conqueror_first (f : Forest) (d : Nat → Int) (hs : OrderSorted f) (r : PredAcc)
    (h : predictOne f d = some r) (pre post : List Nat)
    (hsplit : f.order.toList = pre ++ r.conq :: post) (hnd : f.order.toList.Nodup) :
    ∀ t, t ∈ pre → max (f.costOf r.conq) (d r.conq) < max (f.costOf t) (d t) := by
  intro t ht
  rw [← (predictOne_conq_mem f d r h).2.1]
  exact predictOne_first f d hs r h pre post hsplit hnd t ht

/-! ## (d) prune -/

theorem pruneFilter_eq_map {β : Type} (relevant : Nat → Bool) (samples : List β) :
    pruneFilter relevant samples =
      (((List.range samples.length).zip samples).filter (fun p => relevant p.1)).map Prod.snd := by
  unfold pruneFilter
  induction (List.range samples.length).zip samples with
  | nil => rfl
  | cons p l ih =>
    by_cases h : relevant p.1 = true
    · simp [h, ih]
    · simp [h, ih]

/-- pruning only discards: the kept samples are a subsequence (same order, same pairing). -/
theorem c17_prune_sub {β : Type} (relevant : Nat → Bool) (samples : List β) :
    (pruneFilter relevant samples).Sublist samples ∧
      ∀ x, x ∈ pruneFilter relevant samples → x ∈ samples := by
  have hs : (pruneFilter relevant samples).Sublist samples := by
    rw [pruneFilter_eq_map]
    have h1 : (((List.range samples.length).zip samples).filter (fun p => relevant p.1)).Sublist
        ((List.range samples.length).zip samples) := List.filter_sublist
    have h2 := h1.map Prod.snd
    rwa [List.map_snd_zip (by simp)] at h2
  exact ⟨hs, fun x hx => hs.subset hx⟩

theorem pruneFilter_aux {β : Type} (relevant : Nat → Bool) (l : List β) : ∀ k : Nat,
    ((List.range' k l.length).zip l).filterMap (fun p => if relevant p.1 then some p.2 else none) =
      ((List.range' k l.length).filter (fun i => relevant i)).filterMap (fun i => l[i - k]?) := by
  induction l with
  | nil => intro k; rfl
  | cons a l ih =>
    intro k
    have hcongr : ((List.range' (k + 1) l.length).filter (fun i => relevant i)).filterMap
          (fun i => (a :: l)[i - k]?) =
        ((List.range' (k + 1) l.length).filter (fun i => relevant i)).filterMap
          (fun i => l[i - (k + 1)]?) := by
      apply List.filterMap_congr
      intro i hi
      have hik : k + 1 ≤ i := (List.mem_range'_1.1 (List.mem_filter.1 hi).1).1
      have : i - k = (i - (k + 1)) + 1 := by omega
      rw [this, List.getElem?_cons_succ]
    rw [List.length_cons, List.range'_succ, List.zip_cons_cons, List.filterMap_cons, List.filter_cons]
    by_cases h : relevant k = true
    · simp only [h, if_true, List.filterMap_cons, Nat.sub_self, List.getElem?_cons_zero]
      rw [ih (k + 1), hcongr]
    · simp only [h, Bool.false_eq_true, ↓reduceIte]
      rw [ih (k + 1), hcongr]

/-- the kept samples are exactly those at relevant positions, in increasing position. -/
theorem c17_prune_exact {β : Type} (relevant : Nat → Bool) (samples : List β) :
    pruneFilter relevant samples =
      ((List.range samples.length).filter (fun i => relevant i)).filterMap (fun i => samples[i]?) := by
  have := pruneFilter_aux relevant samples 0
  simpa [pruneFilter, List.range_eq_range'] using this

/-- same, with default-valued indexing. -/
theorem c17_prune_exact_getD {β : Type} [Inhabited β] (relevant : Nat → Bool) (samples : List β) :
    pruneFilter relevant samples =
      ((List.range samples.length).filter (fun i => relevant i)).map (samples.getD · default) := by
  rw [c17_prune_exact, ← List.filterMap_eq_map]
  apply List.filterMap_congr
  intro i hi
  have hi' : i < samples.length := List.mem_range.1 (List.mem_filter.1 hi).1
  simp [List.getD_eq_getElem?_getD, List.getElem?_eq_getElem hi']

/-- number of kept samples = number of relevant positions; membership characterisation. -/
theorem c17_prune_length {β : Type} (relevant : Nat → Bool) (samples : List β) :
    (pruneFilter relevant samples).length =
      ((List.range samples.length).filter (fun i => relevant i)).length := by
  cases samples with
  | nil => rfl
  | cons a l =>
    have : Inhabited β := ⟨a⟩
    rw [c17_prune_exact_getD, List.length_map]

theorem c17_prune_mem {β : Type} (relevant : Nat → Bool) (samples : List β) (x : β) :
    x ∈ pruneFilter relevant samples ↔ ∃ i, relevant i = true ∧ samples[i]? = some x := by
  rw [c17_prune_exact, List.mem_filterMap]
  constructor
  · rintro ⟨i, hi, hx⟩
    exact ⟨i, (List.mem_filter.1 hi).2, hx⟩
  · rintro ⟨i, hr, hx⟩
    have hlt : i < samples.length := by
      rcases Nat.lt_or_ge i samples.length with h | h
      · exact h
      · rw [List.getElem?_eq_none h] at hx; cases hx
    exact ⟨i, List.mem_filter.2 ⟨List.mem_range.2 hlt, hr⟩, hx⟩

/-! ## non-vacuity -/

/-- draws 0 (a prototype, skipped), 2 (swapped with validation 1), 1 (swapped with validation 0) -/
example : (swapLoop (fun j => j == 0) [1, 0]
    ({ train := ["a", "b", "c"], val := ["x", "y"], nonProto := 2, draws := [0, 2, 1] } : SwapSt String)).train
      = ["a", "x", "y"] := by decide
example : (swapLoop (fun j => j == 0) [1, 0]
    ({ train := ["a", "b", "c"], val := ["x", "y"], nonProto := 2, draws := [0, 2, 1] } : SwapSt String)).val
      = ["b", "c"] := by decide
/-- the hypothesis on the draws is needed: an out-of-range draw loses a sample. -/
example : (swapLoop (fun _ => false) [0]
    ({ train := ["a"], val := ["x"], nonProto := 1, draws := [5] } : SwapSt String)).val = [""] := by
  decide
example : bestIter (-1) [3, 5, 5, 2] = some 1 := by decide
example : bestIter (-1) [0, 0] = some 0 := by decide
example : bestIter 7 [3, 5] = none := by decide
example : pruneFilter (fun i => i == 0 || i == 2) [("r0", 1), ("r1", 0), ("r2", 1)] =
    [("r0", 1), ("r2", 1)] := by decide

/-- chain 0 ← 1 ← 2 and an isolated root 3. -/
def c17_demo : Forest :=
  { n := 4, pred := #[none, some 0, some 1, none], proto := #[true, false, false, true],
    ncost := #[0, 2, 4, 0], plabel := #[0, 0, 0, 1], label := #[0, 0, 0, 1],
    order := #[0, 3, 1, 2], relevant := #[false, false, false, false] }

def c17_demo_d : Nat → Int := fun t => if t = 1 then 1 else 9

example : (predictOne c17_demo c17_demo_d).map (·.conq) = some 1 := by decide
example : (predictBatch c17_demo [c17_demo_d]).1.relevant = #[true, true, false, false] := by decide
example : OrderSorted c17_demo := by decide
example : ∀ x, x < 4 → c17_demo.relevantOf x = false := by decide

end Opf
