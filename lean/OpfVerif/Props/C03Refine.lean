/-
C03 / C09 / C17 — refinement: the translation of `SupervisedOPF.predict` (`Gen/PredImp.lean`)
refines the model `predictBatch` about which `Props/C03.lean`, `C03Fit.lean`, `C09.lean` and
`C17.lean` speak: on a trained classifier whose conquest order lists every node once and whose
predecessor chains reach a root (what `fit` leaves, by C01) the translated code raises nothing,
terminates, returns the model's labels sample by sample and leaves the model's relevance marks.
Property theorems only; helper lemmas live in the `Lemmas/` file imported below.
-/
import OpfVerif.Lemmas.SupRefinePredict
namespace Opf.SupRefine
open Opf Opf.Gen Opf.Gen.SupImp

theorem c03_gen_predict (WQ : Int → Int → Option Int) (sg : SG) (f : Forest) (hr : RelF sg f)
    (hs : f.Sized) (ht : sg.trained = true) (hn : 0 < f.n)
    (hos : f.order.size = f.n) (hol : ∀ x, x ∈ f.order.toList → x < f.n)
    (hc : ∀ i, i < f.n → ChainOk f (f.n - 1) i)
    (psg0 : SG) (ds : List (Nat → Int)) (hq : QuerySG psg0 ds.length) (hW : WQAgree f.n WQ ds) :
    ∃ sg' preds, predict WQ sg psg0 = some (sg', preds) ∧
      RelF sg' (predictBatch f ds).1 ∧ preds = labelsInt (predictBatch f ds).2 ∧
      (∀ o, o ∈ (predictBatch f ds).2 → o ≠ none) :=
  predict_refines WQ sg f hr hs ht hn hos hol hc psg0 ds hq hW

/-- an untrained classifier: `predict` raises (`BuildError`). -/
theorem c03_gen_predict_untrained (WQ : Int → Int → Option Int) (sg psg0 : SG)
    (ht : sg.trained = false) : predict WQ sg psg0 = none :=
  predict_untrained WQ sg psg0 ht

end Opf.SupRefine
