/-
C11 (registry) — the five Euclidean-family identifiers resolve to the five functions whose bodies
`Props/C11Family.lean` relates (table regenerated from the `DISTANCES` dict on every run).
-/
import OpfVerif.Gen.Distance
namespace Opf

theorem c11_family_registry :
    ["euclidean", "squared_euclidean", "average_euclidean", "log_euclidean", "log_squared_euclidean"].map
        (fun k => Gen.registry.lookup k) =
      [some "euclidean_distance", some "squared_euclidean_distance", some "average_euclidean_distance",
       some "log_euclidean_distance", some "log_squared_euclidean_distance"] ∧
    ["euclidean_distance", "squared_euclidean_distance", "average_euclidean_distance",
     "log_euclidean_distance", "log_squared_euclidean_distance"].all
        (fun f => (Gen.functions.find? (fun e => e.1 == f)).map (fun e => e.2.1) == some false) = true := by
  decide

end Opf
