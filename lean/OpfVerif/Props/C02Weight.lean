/-
C02 (stretch) — the tree built by `_find_prototypes` has MINIMUM TOTAL WEIGHT among all spanning
trees of the complete graph on the samples.

`Props/C02.lean` expresses minimality through the cut and cycle properties, which need no sums.
Here the classical consequence is proved with sums: for EVERY finished lawful run `s` of a `Good`
instance (any number of samples, any symmetric weights below `top`, any tie pattern, weights may be
negative) and EVERY spanning tree `T` of the complete graph on `0..n-1`,

    primWeight s ≤ weight T.

"Spanning tree" is taken in three interchangeable forms, each with its own theorem:
* `c02_min_weight_arcs` — an arc LIST with `n-1` arcs, endpoints below `n`, connecting every node to
  node 0 (the characterisation "connected with `n-1` arcs"; the most general form);
* `c02_min_weight`      — a PARENT FUNCTION rooted at 0 (`IsRootedTree`: `par 0 = none`, every other
  node has a parent below `n`, and some rank strictly decreases along parent links — i.e. no cycle);
* `c02_min_weight_run`  — the tree of any other finished lawful run (all runs weigh the same).
A fourth form, for Mathlib's `SimpleGraph.IsTree` on `Fin n`, is `c02_min_weight_graph` in
`Props/C02WeightGraph.lean` (separate module because of its heavier imports).

Proof: relabel the nodes by their position in the removal order of the run.  By the cut property
(`c02_cut`) the `k`-th Prim arc is no heavier than any arc `{a,b}` with `pos a < k ≤ pos b`, i.e. any
arc crossing the `k`-th of the nested cuts `{v_0..v_{k-1}} | {v_k..}`.  The combinatorial lemma
`MstWeight.nested_cut_bound` (contract the last node into its largest neighbour; induction on `n`)
then bounds the sum of the Prim arcs by the weight of `T`.
-/
import OpfVerif.Props.C02
import OpfVerif.Lemmas.MstWeight

namespace Opf.PrimInst
open Opf.MstWeight

/-! ### definitions -/

/-- total weight of the arcs `(par v, v)`, `v < n`, of a parent function. -/
def treeWeight (I : PrimInst) (par : Nat → Option Nat) : Int :=
  ((List.range I.n).filterMap (fun v => (par v).map (fun u => I.w u v))).sum

/-- total weight of the tree built by the run. -/
def primWeight (I : PrimInst) (s : PState) : Int := I.treeWeight s.pred

/-- total weight of an arc list. -/
def arcsWeight (I : PrimInst) (E : List (Nat × Nat)) : Int := (E.map (fun e => I.w e.1 e.2)).sum

/-- `u` and `v` are joined by an arc of `E`, in either orientation. -/
def ArcAdj (E : List (Nat × Nat)) (u v : Nat) : Prop := (u, v) ∈ E ∨ (v, u) ∈ E

/-- `E` is (the arc list of) a spanning tree of the complete graph on `0..n-1`: it has `n-1` arcs
between nodes below `n` and connects every node to node 0. -/
structure IsSpanningArcs (n : Nat) (E : List (Nat × Nat)) : Prop where
  card : E.length + 1 = n
  ends : ∀ e ∈ E, e.1 < n ∧ e.2 < n
  conn : ∀ v, v < n → Relation.ReflTransGen (ArcAdj E) 0 v

/-- `par` is a spanning tree on `0..n-1` rooted at node 0. -/
def IsRootedTree (n : Nat) (par : Nat → Option Nat) : Prop :=
  par 0 = none ∧ (∀ v, 0 < v → v < n → ∃ u, par v = some u ∧ u < n) ∧
  ∃ rank : Nat → Nat, ∀ v u, v < n → par v = some u → rank u < rank v

/-- the arcs `(par v, v)`, `v < n`. -/
def arcsOf (n : Nat) (par : Nat → Option Nat) : List (Nat × Nat) :=
  (List.range n).filterMap (fun v => (par v).map (fun u => (u, v)))

/-! ### list bookkeeping -/

theorem sum_filterMap_eq {α : Type} (f : α → Option Int) (l : List α) :
    (l.filterMap f).sum = (l.map (fun v => (f v).getD 0)).sum := by
  induction l with
  | nil => rfl
  | cons a l ih =>
    cases h : f a with
    | none => simp [h, ih]
    | some y => simp [h, ih]

theorem eq_map_getD_range (l : List Nat) :
    l = (List.range l.length).map (fun k => l.getD k 0) := by
  apply List.ext_getElem
  · simp
  · intro i h1 h2
    simp [List.getD_eq_getElem?_getD, h1]

theorem length_filterMap_all {α β : Type} (f : α → Option β) (l : List α)
    (h : ∀ a ∈ l, ∃ y, f a = some y) : (l.filterMap f).length = l.length := by
  induction l with
  | nil => rfl
  | cons a l ih =>
    obtain ⟨y, hy⟩ := h a (by simp)
    rw [List.filterMap_cons_some hy]
    simp [ih (fun b hb => h b (by simp [hb]))]

theorem arcsWeight_arcsOf (I : PrimInst) (par : Nat → Option Nat) :
    I.arcsWeight (arcsOf I.n par) = I.treeWeight par := by
  unfold arcsWeight arcsOf treeWeight
  rw [List.map_filterMap]
  congr 1
  apply List.filterMap_congr
  intro v _
  cases par v <;> rfl

/-- a rooted tree, as an arc list, is a spanning arc list. -/
theorem IsRootedTree.spanning {n : Nat} {par : Nat → Option Nat} (hn : 0 < n)
    (h : IsRootedTree n par) : IsSpanningArcs n (arcsOf n par) := by
  obtain ⟨h0, hpar, rank, hrank⟩ := h
  obtain ⟨m, rfl⟩ : ∃ m, n = m + 1 := ⟨n - 1, by omega⟩
  have hmemE : ∀ u v, v < m + 1 → par v = some u → (u, v) ∈ arcsOf (m + 1) par := by
    intro u v hv hp
    exact List.mem_filterMap.2 ⟨v, List.mem_range.2 hv, by simp [hp]⟩
  refine ⟨?_, ?_, ?_⟩
  · unfold arcsOf
    rw [List.range_succ_eq_map, List.filterMap_cons_none (by simp [h0])]
    rw [length_filterMap_all]
    · simp
    · intro a ha
      obtain ⟨k, hk, rfl⟩ := List.mem_map.1 ha
      obtain ⟨u, hu, _⟩ := hpar (k + 1) (by omega) (by have := List.mem_range.1 hk; omega)
      exact ⟨(u, k + 1), by simp [hu]⟩
  · intro e he
    obtain ⟨v, hv, hve⟩ := List.mem_filterMap.1 he
    have hv' := List.mem_range.1 hv
    cases hp : par v with
    | none => simp [hp] at hve
    | some u =>
      simp [hp] at hve
      subst hve
      have hv0 : 0 < v := by
        rcases Nat.eq_zero_or_pos v with h | h
        · subst h; rw [h0] at hp; cases hp
        · exact h
      obtain ⟨u', hu', hlt⟩ := hpar v hv0 hv'
      rw [hp] at hu'; cases hu'
      exact ⟨hlt, hv'⟩
  · -- every node reaches 0: induction on the rank
    have key : ∀ r v, rank v ≤ r → v < m + 1 →
        Relation.ReflTransGen (ArcAdj (arcsOf (m + 1) par)) 0 v := by
      intro r
      induction r with
      | zero =>
        intro v hr hv
        rcases Nat.eq_zero_or_pos v with h | h
        · subst h; exact .refl
        · obtain ⟨u, hu, _⟩ := hpar v h hv
          have := hrank v u hv hu; omega
      | succ r ih =>
        intro v hr hv
        rcases Nat.eq_zero_or_pos v with h | h
        · subst h; exact .refl
        · obtain ⟨u, hu, hun⟩ := hpar v h hv
          have := hrank v u hv hu
          exact (ih u (by omega) hun).tail (Or.inl (hmemE u v hv hu))
    intro v hv
    exact key (rank v) v (Nat.le_refl _) hv

/-! ### the theorems -/

variable (I : PrimInst)

/-- **Minimum total weight, arc-list form.**  The tree of a finished lawful run weighs no more than
any `n-1` arcs that connect the samples `0..n-1`. -/
theorem c02_min_weight_arcs (hg : I.Good) (s : PState) (hr : Reach I s) (hf : I.Final s)
    (E : List (Nat × Nat)) (hE : IsSpanningArcs I.n E) : I.primWeight s ≤ I.arcsWeight E := by
  obtain ⟨hnd, hmem, hlen, hhead, hp0, hpred⟩ := c02_spanning I hg s hr hf
  obtain ⟨m, hm⟩ : ∃ m, I.n = m + 1 := ⟨I.n - 1, by have := hg.n_pos; omega⟩
  -- positions in the removal order, Prim arc weights per node / per position
  let pos : Nat → Nat := fun v => s.order.idxOf v
  let g : Nat → Int := fun v => ((s.pred v).map (fun u => I.w u v)).getD 0
  let c : Nat → Int := fun k => g (s.order.getD k 0)
  have hpos0 : pos 0 = 0 := by
    show s.order.idxOf 0 = 0
    cases hs : s.order with
    | nil => rw [hs] at hhead; simp at hhead
    | cons a tl =>
      rw [hs] at hhead; simp at hhead; subst hhead
      exact List.idxOf_cons_self
  have hposlt : ∀ v, v < I.n → pos v < I.n := by
    intro v hv
    have : v ∈ s.order := (hmem v).2 hv
    have := List.idxOf_lt_length_iff.2 this
    rw [hlen] at this; exact this
  have hnode : ∀ k, k < I.n → ∃ v, v < I.n ∧ s.order.getD k 0 = v ∧ pos v = k := by
    intro k hk
    have hk' : k < s.order.length := by rw [hlen]; exact hk
    refine ⟨s.order[k], (hmem _).1 (List.getElem_mem hk'), ?_, ?_⟩
    · simp [List.getD_eq_getElem?_getD, hk']
    · exact List.get_idxOf hnd ⟨k, hk'⟩
  -- weight of the run's tree = c 1 + … + c m
  have hA : I.primWeight s = csum c m := by
    unfold primWeight treeWeight
    rw [sum_filterMap_eq]
    have hperm : (List.range I.n).Perm s.order :=
      (List.perm_ext_iff_of_nodup List.nodup_range hnd).2
        (fun a => by rw [List.mem_range, hmem])
    rw [(hperm.map _).sum_eq]
    show (s.order.map g).sum = csum c m
    conv_lhs => rw [eq_map_getD_range s.order]
    rw [List.map_map, hlen, hm, List.range_succ_eq_map, List.map_cons, List.sum_cons, List.map_map]
    have h0 : s.order.getD 0 0 = 0 := by
      obtain ⟨v, _, hv, hpv⟩ := hnode 0 hg.n_pos
      rw [hv]
      have := List.idxOf_inj (l := s.order) (x := v) (y := 0) ((hmem v).2 ‹_›)
      exact (this.1 (hpv.trans hpos0.symm))
    have hg0 : g 0 = 0 := by simp [g, hp0]
    simp only [Function.comp_def, h0, hg0, Int.zero_add]
    rfl
  -- the arcs of `E`, relabelled by position, with their weights
  let WE : List WEdge := E.map (fun e => (pos e.1, pos e.2, I.w e.1 e.2))
  have hC : wsum WE = I.arcsWeight E := by
    simp [wsum, WE, arcsWeight, List.map_map, Function.comp_def]
  have hB : csum c m ≤ wsum WE := by
    apply nested_cut_bound c m WE
    · have := hE.card; simp only [WE, List.length_map]; omega
    · intro e he
      obtain ⟨⟨a, b⟩, hab, rfl⟩ := List.mem_map.1 he
      have ⟨ha, hb⟩ := hE.ends _ hab
      have := hposlt a ha; have := hposlt b hb
      simp only; omega
    · intro e he k hk1 hk2
      obtain ⟨⟨a, b⟩, hab, rfl⟩ := List.mem_map.1 he
      have ⟨ha, hb⟩ := hE.ends _ hab
      simp only at ha hb hk1 hk2 ⊢
      have hpa := hposlt a ha; have hpb := hposlt b hb
      obtain ⟨v, hv, hgv, hpv⟩ := hnode k (by omega)
      have hv0 : v ≠ 0 := by
        intro h; subst h
        have : pos 0 = k := hpv
        omega
      obtain ⟨u, hu, _, _⟩ := hpred v hv hv0
      have hck : c k = I.w u v := by
        show g (s.order.getD k 0) = _
        rw [hgv]; simp [g, hu]
      rw [hck]
      rcases Nat.lt_or_ge (pos a) (pos b) with hlt | hge
      · exact c02_cut I hg s hr hf u v hv hu a b ha hb
          (by show pos a < pos v; omega) (by show pos v ≤ pos b; omega)
      · rw [hg.symm a b ha hb]
        exact c02_cut I hg s hr hf u v hv hu b a hb ha
          (by show pos b < pos v; omega) (by show pos v ≤ pos a; omega)
    · intro k hk
      obtain ⟨v, hv, _, hpv⟩ := hnode k (by omega)
      have hstep : ∀ a b, ArcAdj E a b → Relation.ReflTransGen (WAdj WE) (pos a) (pos b) := by
        intro a b hab
        rcases hab with h | h
        · exact .single ⟨I.w a b, Or.inl (List.mem_map.2 ⟨(a, b), h, rfl⟩)⟩
        · exact .single ⟨I.w b a, Or.inr (List.mem_map.2 ⟨(b, a), h, rfl⟩)⟩
      have := rtg_lift pos hstep (hE.conn v hv)
      rw [hpos0, hpv] at this
      exact this
  rw [hA, ← hC]
  exact hB

/-- **Minimum total weight, parent-function form.**  The tree of a finished lawful run weighs no
more than any spanning tree of the complete graph on the samples, given as a parent function
rooted at sample 0. -/
theorem c02_min_weight (hg : I.Good) (s : PState) (hr : Reach I s) (hf : I.Final s)
    (par : Nat → Option Nat) (hpar : IsRootedTree I.n par) :
    I.primWeight s ≤ I.treeWeight par := by
  rw [← arcsWeight_arcsOf]
  exact c02_min_weight_arcs I hg s hr hf _ (hpar.spanning hg.n_pos)

/-- the tree of a finished lawful run is itself a rooted spanning tree (rank = removal position). -/
theorem c02_pred_isRootedTree (hg : I.Good) (s : PState) (hr : Reach I s) (hf : I.Final s) :
    IsRootedTree I.n s.pred := by
  obtain ⟨_, _, _, _, hp0, hpred⟩ := c02_spanning I hg s hr hf
  refine ⟨hp0, fun v hv0 hv => ?_, fun v => s.order.idxOf v, fun v u hv hu => ?_⟩
  · obtain ⟨p, hp, hpn, _⟩ := hpred v hv (by omega)
    exact ⟨p, hp, hpn⟩
  · have hv0 : v ≠ 0 := by intro h; subst h; rw [hp0] at hu; cases hu
    obtain ⟨p, hp, _, hlt⟩ := hpred v hv hv0
    rw [hu] at hp; cases hp
    exact hlt

/-- so the minimum is attained, and all finished lawful runs — whatever their tie-breaking — build
trees of the same total weight. -/
theorem c02_min_weight_run (hg : I.Good) (s₁ s₂ : PState)
    (h₁ : Reach I s₁) (f₁ : I.Final s₁) (h₂ : Reach I s₂) (f₂ : I.Final s₂) :
    I.primWeight s₁ = I.primWeight s₂ :=
  Int.le_antisymm
    (c02_min_weight I hg s₁ h₁ f₁ s₂.pred (c02_pred_isRootedTree I hg s₂ h₂ f₂))
    (c02_min_weight I hg s₂ h₂ f₂ s₁.pred (c02_pred_isRootedTree I hg s₁ h₁ f₁))

end Opf.PrimInst
