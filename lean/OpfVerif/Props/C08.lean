/-
C08 — axiom table of the 47 distance functions, part 1: generic soundness of the syntactic
judgements of `Model/Expr.lean` under the real semantics (A), rounding-safety of every square
root (B) and non-negativity of the syntactically non-negative bodies (E).
Symmetry is in `Props/C08Symm.lean`, zero on identical vectors in `Props/C08Self.lean`.
All statements are about `Gen.body_<f>.evalR u v` for arbitrary vectors in the metric's domain
(so they apply to the `ε`-shifted arguments of the functions wrapped by `avoid_zero_division`).
-/
import OpfVerif.Lemmas.ExprReal
import OpfVerif.Gen.Distance
import Mathlib.Tactic.Ring
import Mathlib.Tactic.Linarith
import Mathlib.Tactic.Positivity
namespace Opf
open scoped BigOperators

/-! ### A. soundness of `safeNonneg`, semantics of `swapXY` -/

private theorem litR_nonneg {m e : Int} (h : 0 ≤ m) : 0 ≤ litR m e :=
  mul_nonneg (Int.cast_nonneg h) (zpow_nonneg (by norm_num) e)

theorem V.safeNonneg_sound {n : Nat} (pos : Bool) (u v : Fin n → ℝ)
    (hpos : pos = true → (∀ i, 0 ≤ u i) ∧ (∀ i, 0 ≤ v i))
    (e : V) (h : e.safeNonneg pos = true) (i : Fin n) : 0 ≤ e.evalR u v i := by
  induction e with
  | x => exact (hpos h).1 i
  | y => exact (hpos h).2 i
  | lit m e => exact litR_nonneg (by simpa [V.safeNonneg] using h)
  | add a b iha ihb =>
      simp only [V.safeNonneg, Bool.and_eq_true] at h
      exact add_nonneg (iha h.1) (ihb h.2)
  | sub a b _ _ => simp [V.safeNonneg] at h
  | mul a b iha ihb =>
      simp only [V.safeNonneg, Bool.and_eq_true] at h
      exact mul_nonneg (iha h.1) (ihb h.2)
  | div a b iha ihb =>
      simp only [V.safeNonneg, Bool.and_eq_true] at h
      exact div_nonneg (iha h.1) (ihb h.2)
  | sq a _ => exact sq_nonneg _
  | sqrt a _ => exact Real.sqrt_nonneg _
  | abs a _ => exact abs_nonneg _
  | log a _ => simp [V.safeNonneg] at h
  | min a b iha ihb =>
      simp only [V.safeNonneg, Bool.and_eq_true] at h
      exact le_min (iha h.1) (ihb h.2)
  | max a b iha ihb =>
      simp only [V.safeNonneg, Bool.or_eq_true] at h
      rcases h with h | h
      · exact le_max_of_le_left (iha h)
      · exact le_max_of_le_right (ihb h)
  | neInd a b _ _ =>
      simp only [V.evalR]
      split <;> norm_num
  | iteGe0 c a b _ iha ihb =>
      simp only [V.safeNonneg, Bool.and_eq_true] at h
      simp only [V.evalR]
      split
      · exact iha h.1
      · exact ihb h.2

theorem S.safeNonneg_sound {n : Nat} (pos : Bool) (u v : Fin n → ℝ)
    (hpos : pos = true → (∀ i, 0 ≤ u i) ∧ (∀ i, 0 ≤ v i))
    (e : S) (h : e.safeNonneg pos = true) : 0 ≤ e.evalR u v := by
  induction e with
  | lit m e => exact litR_nonneg (by simpa [S.safeNonneg] using h)
  | len => exact Nat.cast_nonneg n
  | sum w => exact Finset.sum_nonneg fun i _ => V.safeNonneg_sound pos u v hpos w h i
  | amax w => exact Real.iSup_nonneg fun i => V.safeNonneg_sound pos u v hpos w h i
  | add a b iha ihb =>
      simp only [S.safeNonneg, Bool.and_eq_true] at h
      exact add_nonneg (iha h.1) (ihb h.2)
  | sub a b _ _ => simp [S.safeNonneg] at h
  | mul a b iha ihb =>
      simp only [S.safeNonneg, Bool.and_eq_true] at h
      exact mul_nonneg (iha h.1) (ihb h.2)
  | div a b iha ihb =>
      simp only [S.safeNonneg, Bool.and_eq_true] at h
      exact div_nonneg (iha h.1) (ihb h.2)
  | neg a _ => simp [S.safeNonneg] at h
  | sq a _ => exact sq_nonneg _
  | sqrt a _ => exact Real.sqrt_nonneg _
  | log a _ => simp [S.safeNonneg] at h
  | exp a _ => exact (Real.exp_pos _).le
  | min a b iha ihb =>
      simp only [S.safeNonneg, Bool.and_eq_true] at h
      exact le_min (iha h.1) (ihb h.2)
  | max a b iha ihb =>
      simp only [S.safeNonneg, Bool.or_eq_true] at h
      rcases h with h | h
      · exact le_max_of_le_left (iha h)
      · exact le_max_of_le_right (ihb h)

theorem V.evalR_swapXY {n : Nat} (u v : Fin n → ℝ) (e : V) (i : Fin n) :
    e.swapXY.evalR u v i = e.evalR v u i := by
  induction e <;> simp only [V.swapXY, V.evalR, *]

theorem S.evalR_swapXY {n : Nat} (u v : Fin n → ℝ) (e : S) :
    e.swapXY.evalR u v = e.evalR v u := by
  induction e <;> simp only [S.swapXY, S.evalR, V.evalR_swapXY, *]

/-! ### B. every square root has a structurally non-negative argument
`pos = false` for the metrics whose domain is all of `ℝⁿ`, `true` for the others. -/

theorem c08_roundsafe_additive_symmetric : Gen.body_additive_symmetric_distance.sqrtArgsSafe true = true := by decide
theorem c08_roundsafe_average_euclidean : Gen.body_average_euclidean_distance.sqrtArgsSafe false = true := by decide
theorem c08_roundsafe_bhattacharyya : Gen.body_bhattacharyya_distance.sqrtArgsSafe true = true := by decide
theorem c08_roundsafe_bray_curtis : Gen.body_bray_curtis_distance.sqrtArgsSafe true = true := by decide
theorem c08_roundsafe_canberra : Gen.body_canberra_distance.sqrtArgsSafe true = true := by decide
theorem c08_roundsafe_chebyshev : Gen.body_chebyshev_distance.sqrtArgsSafe false = true := by decide
theorem c08_roundsafe_chi_squared : Gen.body_chi_squared_distance.sqrtArgsSafe true = true := by decide
theorem c08_roundsafe_chord : Gen.body_chord_distance.sqrtArgsSafe true = true := by decide
theorem c08_roundsafe_clark : Gen.body_clark_distance.sqrtArgsSafe true = true := by decide
theorem c08_roundsafe_cosine : Gen.body_cosine_distance.sqrtArgsSafe true = true := by decide
theorem c08_roundsafe_dice : Gen.body_dice_distance.sqrtArgsSafe true = true := by decide
theorem c08_roundsafe_divergence : Gen.body_divergence_distance.sqrtArgsSafe true = true := by decide
theorem c08_roundsafe_euclidean : Gen.body_euclidean_distance.sqrtArgsSafe false = true := by decide
theorem c08_roundsafe_gaussian : Gen.body_gaussian_distance.sqrtArgsSafe false = true := by decide
theorem c08_roundsafe_gower : Gen.body_gower_distance.sqrtArgsSafe false = true := by decide
theorem c08_roundsafe_hamming : Gen.body_hamming_distance.sqrtArgsSafe false = true := by decide
theorem c08_roundsafe_hassanat : Gen.body_hassanat_distance.sqrtArgsSafe false = true := by decide
theorem c08_roundsafe_hellinger : Gen.body_hellinger_distance.sqrtArgsSafe true = true := by decide
theorem c08_roundsafe_jaccard : Gen.body_jaccard_distance.sqrtArgsSafe true = true := by decide
theorem c08_roundsafe_jeffreys : Gen.body_jeffreys_distance.sqrtArgsSafe true = true := by decide
theorem c08_roundsafe_jensen : Gen.body_jensen_distance.sqrtArgsSafe true = true := by decide
theorem c08_roundsafe_jensen_shannon : Gen.body_jensen_shannon_distance.sqrtArgsSafe true = true := by decide
theorem c08_roundsafe_k_divergence : Gen.body_k_divergence_distance.sqrtArgsSafe true = true := by decide
theorem c08_roundsafe_kulczynski : Gen.body_kulczynski_distance.sqrtArgsSafe true = true := by decide
theorem c08_roundsafe_kullback_leibler : Gen.body_kullback_leibler_distance.sqrtArgsSafe true = true := by decide
theorem c08_roundsafe_log_euclidean : Gen.body_log_euclidean_distance.sqrtArgsSafe false = true := by decide
theorem c08_roundsafe_log_squared_euclidean : Gen.body_log_squared_euclidean_distance.sqrtArgsSafe false = true := by decide
theorem c08_roundsafe_lorentzian : Gen.body_lorentzian_distance.sqrtArgsSafe false = true := by decide
theorem c08_roundsafe_manhattan : Gen.body_manhattan_distance.sqrtArgsSafe false = true := by decide
theorem c08_roundsafe_matusita : Gen.body_matusita_distance.sqrtArgsSafe true = true := by decide
theorem c08_roundsafe_max_symmetric : Gen.body_max_symmetric_distance.sqrtArgsSafe true = true := by decide
theorem c08_roundsafe_mean_censored_euclidean : Gen.body_mean_censored_euclidean_distance.sqrtArgsSafe true = true := by decide
theorem c08_roundsafe_min_symmetric : Gen.body_min_symmetric_distance.sqrtArgsSafe true = true := by decide
theorem c08_roundsafe_neyman : Gen.body_neyman_distance.sqrtArgsSafe true = true := by decide
theorem c08_roundsafe_non_intersection : Gen.body_non_intersection_distance.sqrtArgsSafe false = true := by decide
theorem c08_roundsafe_pearson : Gen.body_pearson_distance.sqrtArgsSafe true = true := by decide
theorem c08_roundsafe_sangvi : Gen.body_sangvi_distance.sqrtArgsSafe true = true := by decide
theorem c08_roundsafe_soergel : Gen.body_soergel_distance.sqrtArgsSafe true = true := by decide
theorem c08_roundsafe_squared : Gen.body_squared_distance.sqrtArgsSafe true = true := by decide
theorem c08_roundsafe_squared_chord : Gen.body_squared_chord_distance.sqrtArgsSafe true = true := by decide
theorem c08_roundsafe_squared_euclidean : Gen.body_squared_euclidean_distance.sqrtArgsSafe false = true := by decide
theorem c08_roundsafe_statistic : Gen.body_statistic_distance.sqrtArgsSafe true = true := by decide
theorem c08_roundsafe_topsoe : Gen.body_topsoe_distance.sqrtArgsSafe true = true := by decide
theorem c08_roundsafe_vicis_symmetric1 : Gen.body_vicis_symmetric1_distance.sqrtArgsSafe true = true := by decide
theorem c08_roundsafe_vicis_symmetric2 : Gen.body_vicis_symmetric2_distance.sqrtArgsSafe true = true := by decide
theorem c08_roundsafe_vicis_symmetric3 : Gen.body_vicis_symmetric3_distance.sqrtArgsSafe true = true := by decide
theorem c08_roundsafe_vicis_wave_hedges : Gen.body_vicis_wave_hedges_distance.sqrtArgsSafe true = true := by decide

/-! ### E. non-negativity of the syntactically non-negative bodies -/

theorem S.nonneg_of_real {n : Nat} (e : S) (h : e.safeNonneg false = true) (u v : Fin n → ℝ) :
    0 ≤ e.evalR u v :=
  S.safeNonneg_sound false u v (fun h => absurd h (by decide)) e h

theorem S.nonneg_of_nonneg {n : Nat} (e : S) (h : e.safeNonneg true = true) (u v : Fin n → ℝ)
    (hu : ∀ i, 0 ≤ u i) (hv : ∀ i, 0 ≤ v i) : 0 ≤ e.evalR u v :=
  S.safeNonneg_sound true u v (fun _ => ⟨hu, hv⟩) e h

theorem c08_nonneg_additive_symmetric {n : Nat} (u v : Fin n → ℝ) (hu : ∀ i, 0 ≤ u i) (hv : ∀ i, 0 ≤ v i) :
    0 ≤ Gen.body_additive_symmetric_distance.evalR u v :=
  S.nonneg_of_nonneg _ (by decide) u v hu hv

theorem c08_nonneg_average_euclidean {n : Nat} (u v : Fin n → ℝ) :
    0 ≤ Gen.body_average_euclidean_distance.evalR u v :=
  S.nonneg_of_real _ (by decide) u v

theorem c08_nonneg_bray_curtis {n : Nat} (u v : Fin n → ℝ) (hu : ∀ i, 0 ≤ u i) (hv : ∀ i, 0 ≤ v i) :
    0 ≤ Gen.body_bray_curtis_distance.evalR u v :=
  S.nonneg_of_nonneg _ (by decide) u v hu hv

theorem c08_nonneg_canberra {n : Nat} (u v : Fin n → ℝ) (hu : ∀ i, 0 ≤ u i) (hv : ∀ i, 0 ≤ v i) :
    0 ≤ Gen.body_canberra_distance.evalR u v :=
  S.nonneg_of_nonneg _ (by decide) u v hu hv

theorem c08_nonneg_chebyshev {n : Nat} (u v : Fin n → ℝ) :
    0 ≤ Gen.body_chebyshev_distance.evalR u v :=
  S.nonneg_of_real _ (by decide) u v

theorem c08_nonneg_chi_squared {n : Nat} (u v : Fin n → ℝ) (hu : ∀ i, 0 ≤ u i) (hv : ∀ i, 0 ≤ v i) :
    0 ≤ Gen.body_chi_squared_distance.evalR u v :=
  S.nonneg_of_nonneg _ (by decide) u v hu hv

theorem c08_nonneg_chord {n : Nat} (u v : Fin n → ℝ) (hu : ∀ i, 0 ≤ u i) (hv : ∀ i, 0 ≤ v i) :
    0 ≤ Gen.body_chord_distance.evalR u v :=
  S.nonneg_of_nonneg _ (by decide) u v hu hv

theorem c08_nonneg_clark {n : Nat} (u v : Fin n → ℝ) (hu : ∀ i, 0 ≤ u i) (hv : ∀ i, 0 ≤ v i) :
    0 ≤ Gen.body_clark_distance.evalR u v :=
  S.nonneg_of_nonneg _ (by decide) u v hu hv

theorem c08_nonneg_divergence {n : Nat} (u v : Fin n → ℝ) (hu : ∀ i, 0 ≤ u i) (hv : ∀ i, 0 ≤ v i) :
    0 ≤ Gen.body_divergence_distance.evalR u v :=
  S.nonneg_of_nonneg _ (by decide) u v hu hv

theorem c08_nonneg_euclidean {n : Nat} (u v : Fin n → ℝ) :
    0 ≤ Gen.body_euclidean_distance.evalR u v :=
  S.nonneg_of_real _ (by decide) u v

theorem c08_nonneg_gaussian {n : Nat} (u v : Fin n → ℝ) :
    0 ≤ Gen.body_gaussian_distance.evalR u v :=
  S.nonneg_of_real _ (by decide) u v

theorem c08_nonneg_gower {n : Nat} (u v : Fin n → ℝ) :
    0 ≤ Gen.body_gower_distance.evalR u v :=
  S.nonneg_of_real _ (by decide) u v

theorem c08_nonneg_hamming {n : Nat} (u v : Fin n → ℝ) :
    0 ≤ Gen.body_hamming_distance.evalR u v :=
  S.nonneg_of_real _ (by decide) u v

theorem c08_nonneg_hellinger {n : Nat} (u v : Fin n → ℝ) (hu : ∀ i, 0 ≤ u i) (hv : ∀ i, 0 ≤ v i) :
    0 ≤ Gen.body_hellinger_distance.evalR u v :=
  S.nonneg_of_nonneg _ (by decide) u v hu hv

theorem c08_nonneg_kulczynski {n : Nat} (u v : Fin n → ℝ) (hu : ∀ i, 0 ≤ u i) (hv : ∀ i, 0 ≤ v i) :
    0 ≤ Gen.body_kulczynski_distance.evalR u v :=
  S.nonneg_of_nonneg _ (by decide) u v hu hv

theorem c08_nonneg_manhattan {n : Nat} (u v : Fin n → ℝ) :
    0 ≤ Gen.body_manhattan_distance.evalR u v :=
  S.nonneg_of_real _ (by decide) u v

theorem c08_nonneg_matusita {n : Nat} (u v : Fin n → ℝ) (hu : ∀ i, 0 ≤ u i) (hv : ∀ i, 0 ≤ v i) :
    0 ≤ Gen.body_matusita_distance.evalR u v :=
  S.nonneg_of_nonneg _ (by decide) u v hu hv

theorem c08_nonneg_max_symmetric {n : Nat} (u v : Fin n → ℝ) (hu : ∀ i, 0 ≤ u i) (hv : ∀ i, 0 ≤ v i) :
    0 ≤ Gen.body_max_symmetric_distance.evalR u v :=
  S.nonneg_of_nonneg _ (by decide) u v hu hv

theorem c08_nonneg_mean_censored_euclidean {n : Nat} (u v : Fin n → ℝ) (hu : ∀ i, 0 ≤ u i) (hv : ∀ i, 0 ≤ v i) :
    0 ≤ Gen.body_mean_censored_euclidean_distance.evalR u v :=
  S.nonneg_of_nonneg _ (by decide) u v hu hv

theorem c08_nonneg_min_symmetric {n : Nat} (u v : Fin n → ℝ) (hu : ∀ i, 0 ≤ u i) (hv : ∀ i, 0 ≤ v i) :
    0 ≤ Gen.body_min_symmetric_distance.evalR u v :=
  S.nonneg_of_nonneg _ (by decide) u v hu hv

theorem c08_nonneg_neyman {n : Nat} (u v : Fin n → ℝ) (hu : ∀ i, 0 ≤ u i) (hv : ∀ i, 0 ≤ v i) :
    0 ≤ Gen.body_neyman_distance.evalR u v :=
  S.nonneg_of_nonneg _ (by decide) u v hu hv

theorem c08_nonneg_non_intersection {n : Nat} (u v : Fin n → ℝ) :
    0 ≤ Gen.body_non_intersection_distance.evalR u v :=
  S.nonneg_of_real _ (by decide) u v

theorem c08_nonneg_pearson {n : Nat} (u v : Fin n → ℝ) (hu : ∀ i, 0 ≤ u i) (hv : ∀ i, 0 ≤ v i) :
    0 ≤ Gen.body_pearson_distance.evalR u v :=
  S.nonneg_of_nonneg _ (by decide) u v hu hv

theorem c08_nonneg_sangvi {n : Nat} (u v : Fin n → ℝ) (hu : ∀ i, 0 ≤ u i) (hv : ∀ i, 0 ≤ v i) :
    0 ≤ Gen.body_sangvi_distance.evalR u v :=
  S.nonneg_of_nonneg _ (by decide) u v hu hv

theorem c08_nonneg_soergel {n : Nat} (u v : Fin n → ℝ) (hu : ∀ i, 0 ≤ u i) (hv : ∀ i, 0 ≤ v i) :
    0 ≤ Gen.body_soergel_distance.evalR u v :=
  S.nonneg_of_nonneg _ (by decide) u v hu hv

theorem c08_nonneg_squared {n : Nat} (u v : Fin n → ℝ) (hu : ∀ i, 0 ≤ u i) (hv : ∀ i, 0 ≤ v i) :
    0 ≤ Gen.body_squared_distance.evalR u v :=
  S.nonneg_of_nonneg _ (by decide) u v hu hv

theorem c08_nonneg_squared_chord {n : Nat} (u v : Fin n → ℝ) (hu : ∀ i, 0 ≤ u i) (hv : ∀ i, 0 ≤ v i) :
    0 ≤ Gen.body_squared_chord_distance.evalR u v :=
  S.nonneg_of_nonneg _ (by decide) u v hu hv

theorem c08_nonneg_squared_euclidean {n : Nat} (u v : Fin n → ℝ) :
    0 ≤ Gen.body_squared_euclidean_distance.evalR u v :=
  S.nonneg_of_real _ (by decide) u v

theorem c08_nonneg_vicis_symmetric1 {n : Nat} (u v : Fin n → ℝ) (hu : ∀ i, 0 ≤ u i) (hv : ∀ i, 0 ≤ v i) :
    0 ≤ Gen.body_vicis_symmetric1_distance.evalR u v :=
  S.nonneg_of_nonneg _ (by decide) u v hu hv

theorem c08_nonneg_vicis_symmetric2 {n : Nat} (u v : Fin n → ℝ) (hu : ∀ i, 0 ≤ u i) (hv : ∀ i, 0 ≤ v i) :
    0 ≤ Gen.body_vicis_symmetric2_distance.evalR u v :=
  S.nonneg_of_nonneg _ (by decide) u v hu hv

theorem c08_nonneg_vicis_symmetric3 {n : Nat} (u v : Fin n → ℝ) (hu : ∀ i, 0 ≤ u i) (hv : ∀ i, 0 ≤ v i) :
    0 ≤ Gen.body_vicis_symmetric3_distance.evalR u v :=
  S.nonneg_of_nonneg _ (by decide) u v hu hv

theorem c08_nonneg_vicis_wave_hedges {n : Nat} (u v : Fin n → ℝ) (hu : ∀ i, 0 ≤ u i) (hv : ∀ i, 0 ≤ v i) :
    0 ≤ Gen.body_vicis_wave_hedges_distance.evalR u v :=
  S.nonneg_of_nonneg _ (by decide) u v hu hv


/-- extra (the judgement fails on the `sub` in the denominator): `∑u² + ∑v² − ∑uv ≥ 0` on all of
`ℝⁿ`, hence Jaccard is non-negative without any domain hypothesis. -/
theorem c08_nonneg_jaccard {n : Nat} (u v : Fin n → ℝ) :
    0 ≤ Gen.body_jaccard_distance.evalR u v := by
  simp only [Gen.body_jaccard_distance, S.evalR, V.evalR]
  refine div_nonneg (Finset.sum_nonneg fun i _ => sq_nonneg _) ?_
  rw [← Finset.sum_add_distrib, ← Finset.sum_sub_distrib]
  exact Finset.sum_nonneg fun i _ => by
    nlinarith [sq_nonneg (u i - v i), sq_nonneg (u i), sq_nonneg (v i)]

end Opf
