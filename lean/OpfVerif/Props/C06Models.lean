/-
C06 (models' `distance` option) — every model class hands its `distance` and
`pre_computed_distance` parameters unchanged to `OPF.__init__`, which resolves the function through
the registry (`c06_lookup`); table regenerated from the AST of opfython/models/*.py on every run.
-/
import OpfVerif.Gen.Registry
namespace Opf

theorem c06_models_forward :
    Gen.modelForwards.map (·.1) = ["knn_supervised.py:KNNSupervisedOPF", "semi_supervised.py:SemiSupervisedOPF",
      "supervised.py:SupervisedOPF", "unsupervised.py:UnsupervisedOPF"] ∧
    Gen.modelForwards.all (·.2) = true := by decide

end Opf
