/-
C06 — each of the 47 named metrics computes its published closed form.

What is proved.  The translator regenerates, from the Python AST of `opfython/math/distance.py`,
one deep-embedded term `Gen.body_<function>` per distance function together with the tables
`Gen.registry` (the `DISTANCES` dict), `Gen.functions` (decorator stack) and `Gen.bodies`.
`metricR id x y : Option ℝ` (in `Lemmas/GenLookup.lean`) is the real number denoted by
`DISTANCES[id](x, y)`: it resolves `id` through the registry, takes the generated body, and—when
the function is wrapped by `avoid_zero_division`—evaluates it on `x + ε`, `y + ε`.

 (1) For every identifier there is a hand-written closed form `cf_<identifier>` below, written in
     ordinary mathematical notation and transcribed from the published definitions (Cha 2007;
     Abu Alfeilat et al. 2019; the same table as `CLOSED[...]` in `harness/axioms.py`), *not*
     obtained by unfolding the generated term, and a theorem
       `c06_<identifier> : metricR "<identifier>" x y = some (cf_<identifier> x y)`
     (for a decorated metric: `… = some (cf_<identifier> (fun i => x i + epsR) (fun i => y i + epsR))`).
     If the Python source changes (a dropped `fabs`, a different constant, swapped operands, a
     lost decorator, a re-pointed registry entry), the regenerated term no longer reduces to the
     closed form and the corresponding theorem stops compiling.
 (2) Registry theorems: the identifiers accepted by the models (`Gen.whitelist`) are exactly the
     47 keys of the registry, without repetition, every one of them resolves to a function with a
     generated body, the models resolve the option through the registry, and the decorator shifts
     both parameters by `ε = 10⁻²⁰`.

What is not modelled.  The theorems are about the real-number meaning of the source expression
(`S.evalR`, `V.evalR`): IEEE-754 rounding, overflow, NaN propagation and numba's evaluation order
are outside this statement (the harness compares the floating-point values with the closed forms
evaluated in 60-digit decimal arithmetic).  Conventions of `ℝ` apply to the degenerate cases:
`a / 0 = 0`, `Real.log` and `Real.sqrt` are total, and `⨆` over an empty index is `0`.

The second half of the identifiers (`kulczynski` … `vicis_wave_hedges`) is in `Props/C06b.lean`.
-/
import OpfVerif.Lemmas.GenLookup
import Mathlib.Tactic.NormNum
namespace Opf
open scoped BigOperators

/-! ### reduction of `metricR` to the evaluation of the generated body -/

theorem c06_shifts : shiftsParam 0 = true ∧ shiftsParam 1 = true := by decide

theorem c06_eps : epsR = 1 / 10 ^ 20 := by
  norm_num [epsR, litR, Gen.decoratorEps]

/-- an undecorated function: the registered value is the body on the arguments themselves. -/
theorem metricR_plain {n : Nat} {id f : String} {b : S} {x y : Fin n → ℝ} {r : ℝ}
    (h1 : metricFn id = some f) (h2 : fnBody f = some b) (h3 : fnDecorated f = false)
    (h : b.evalR x y = r) : metricR id x y = some r := by
  simp [metricR, h1, h2, h3, h]

/-- a function wrapped by `avoid_zero_division`: the body on `x + ε`, `y + ε`. -/
theorem metricR_shift {n : Nat} {id f : String} {b : S} {x y : Fin n → ℝ}
    (cf : (Fin n → ℝ) → (Fin n → ℝ) → ℝ)
    (h1 : metricFn id = some f) (h2 : fnBody f = some b) (h3 : fnDecorated f = true)
    (h : ∀ x' y' : Fin n → ℝ, b.evalR x' y' = cf x' y') :
    metricR id x y = some (cf (fun i => x i + epsR) (fun i => y i + epsR)) := by
  simp only [metricR, h1, h2, h3, h, c06_shifts.1, c06_shifts.2, if_true]
  rfl

/-! ### evaluation rules of the expression language (the equations of `V.evalR`, `S.evalR`) -/

section EvalRules
variable {n : Nat} (x y : Fin n → ℝ) (i : Fin n)

@[simp] theorem V.evalR_x : V.evalR x y i .x = x i := rfl
@[simp] theorem V.evalR_y : V.evalR x y i .y = y i := rfl
@[simp] theorem V.evalR_lit (m e : Int) : V.evalR x y i (.lit m e) = litR m e := rfl
@[simp] theorem V.evalR_add (a b : V) : V.evalR x y i (.add a b) = a.evalR x y i + b.evalR x y i := rfl
@[simp] theorem V.evalR_sub (a b : V) : V.evalR x y i (.sub a b) = a.evalR x y i - b.evalR x y i := rfl
@[simp] theorem V.evalR_mul (a b : V) : V.evalR x y i (.mul a b) = a.evalR x y i * b.evalR x y i := rfl
@[simp] theorem V.evalR_div (a b : V) : V.evalR x y i (.div a b) = a.evalR x y i / b.evalR x y i := rfl
@[simp] theorem V.evalR_sq (a : V) : V.evalR x y i (.sq a) = (a.evalR x y i) ^ 2 := rfl
@[simp] theorem V.evalR_sqrt (a : V) : V.evalR x y i (.sqrt a) = Real.sqrt (a.evalR x y i) := rfl
@[simp] theorem V.evalR_abs (a : V) : V.evalR x y i (.abs a) = |a.evalR x y i| := rfl
@[simp] theorem V.evalR_log (a : V) : V.evalR x y i (.log a) = Real.log (a.evalR x y i) := rfl
@[simp] theorem V.evalR_min (a b : V) :
    V.evalR x y i (.min a b) = Min.min (a.evalR x y i) (b.evalR x y i) := rfl
@[simp] theorem V.evalR_max (a b : V) :
    V.evalR x y i (.max a b) = Max.max (a.evalR x y i) (b.evalR x y i) := rfl
@[simp] theorem V.evalR_neInd (a b : V) :
    V.evalR x y i (.neInd a b) = if a.evalR x y i ≠ b.evalR x y i then 1 else 0 := rfl
@[simp] theorem V.evalR_iteGe0 (c a b : V) :
    V.evalR x y i (.iteGe0 c a b)
      = if 0 ≤ c.evalR x y i then a.evalR x y i else b.evalR x y i := rfl

@[simp] theorem S.evalR_lit (m e : Int) : S.evalR x y (.lit m e) = litR m e := rfl
@[simp] theorem S.evalR_len : S.evalR x y .len = (n : ℝ) := rfl
@[simp] theorem S.evalR_sum (v : V) : S.evalR x y (.sum v) = ∑ i : Fin n, v.evalR x y i := rfl
@[simp] theorem S.evalR_amax (v : V) : S.evalR x y (.amax v) = ⨆ i : Fin n, v.evalR x y i := rfl
@[simp] theorem S.evalR_add (a b : S) : S.evalR x y (.add a b) = a.evalR x y + b.evalR x y := rfl
@[simp] theorem S.evalR_sub (a b : S) : S.evalR x y (.sub a b) = a.evalR x y - b.evalR x y := rfl
@[simp] theorem S.evalR_mul (a b : S) : S.evalR x y (.mul a b) = a.evalR x y * b.evalR x y := rfl
@[simp] theorem S.evalR_div (a b : S) : S.evalR x y (.div a b) = a.evalR x y / b.evalR x y := rfl
@[simp] theorem S.evalR_neg (a : S) : S.evalR x y (.neg a) = - a.evalR x y := rfl
@[simp] theorem S.evalR_sq (a : S) : S.evalR x y (.sq a) = (a.evalR x y) ^ 2 := rfl
@[simp] theorem S.evalR_sqrt (a : S) : S.evalR x y (.sqrt a) = Real.sqrt (a.evalR x y) := rfl
@[simp] theorem S.evalR_log (a : S) : S.evalR x y (.log a) = Real.log (a.evalR x y) := rfl
@[simp] theorem S.evalR_exp (a : S) : S.evalR x y (.exp a) = Real.exp (a.evalR x y) := rfl
@[simp] theorem S.evalR_min (a b : S) : S.evalR x y (.min a b) =
    Min.min (a.evalR x y) (b.evalR x y) := rfl
@[simp] theorem S.evalR_max (a b : S) : S.evalR x y (.max a b) =
    Max.max (a.evalR x y) (b.evalR x y) := rfl

end EvalRules

/-! ### the decimal literals occurring in the source -/

theorem litR_zero : litR 0 0 = 0 := by norm_num [litR]
theorem litR_one : litR 1 0 = 1 := by norm_num [litR]
theorem litR_two : litR 2 0 = 2 := by norm_num [litR]
theorem litR_neg_one : litR (-1) 0 = -1 := by norm_num [litR]
theorem litR_half : litR 5 (-1) = 1 / 2 := by norm_num [litR]
theorem litR_maxw : litR 1 5 = 100000 := by norm_num [litR]

/-- a sum of 0/1 indicators is the number of indices satisfying the predicate (whatever the
decidability instances are). -/
theorem sum_indicator_eq_card {n : Nat} (p : Fin n → Prop) {d1 d2 : DecidablePred p} :
    (∑ i, @ite ℝ (p i) (d1 i) 1 0) = ((@Finset.filter _ p d2 Finset.univ).card : ℝ) := by
  have : d1 = d2 := Subsingleton.elim _ _
  subst this; simp

/-! ### tactics: resolve the identifier, then rewrite with the evaluation rules only -/

/-- unfold the generated body `b` and the closed form `cf`, apply the evaluation rules of the
expression language and the literal table — nothing else (no arithmetic normalisation): what is
left, if anything, is the genuine difference in shape between source and textbook formula. -/
macro "c06_eval " b:ident cf:ident : tactic =>
  `(tactic| simp only [$b:ident, $cf:ident,
      V.evalR_x, V.evalR_y, V.evalR_lit, V.evalR_add, V.evalR_sub, V.evalR_mul, V.evalR_div,
      V.evalR_sq, V.evalR_sqrt, V.evalR_abs, V.evalR_log, V.evalR_min, V.evalR_max, V.evalR_neInd,
      V.evalR_iteGe0, S.evalR_lit, S.evalR_len, S.evalR_sum, S.evalR_amax, S.evalR_add,
      S.evalR_sub, S.evalR_mul, S.evalR_div, S.evalR_neg, S.evalR_sq, S.evalR_sqrt, S.evalR_log,
      S.evalR_exp, S.evalR_min, S.evalR_max,
      litR_zero, litR_one, litR_two, litR_neg_one, litR_half, litR_maxw])

/-- resolve an undecorated identifier; leaves `body.evalR x y = closed form`, evaluated. -/
macro "c06_plain " f:str b:ident cf:ident : tactic =>
  `(tactic| (refine metricR_plain (f := $f) (b := $b) (by decide) (by decide) (by decide) ?_
             c06_eval $b $cf))

/-- resolve a decorated identifier; leaves `body.evalR x y = closed form x y` for arbitrary
(already shifted) `x y`, evaluated. -/
macro "c06_shift " f:str b:ident cf:ident : tactic =>
  `(tactic| (refine metricR_shift $cf (f := $f) (b := $b) (by decide) (by decide) (by decide) ?_
             intro x y
             c06_eval $b $cf))

/-! ### registry -/

theorem c06_whitelist_card : Gen.whitelist.length = 47 ∧ Gen.whitelist.Nodup := by decide

/-- the keys of the registry, in order, are the whitelist of the models. -/
theorem registry_keys : Gen.registry.map (·.1) = Gen.whitelist := by decide

/-- the functions named by the registry, in order, are those with a generated body. -/
theorem registry_values : Gen.registry.map (·.2) = Gen.bodies.map (·.1) := by decide

theorem c06_registry_nodup : (Gen.registry.map (·.1)).Nodup := by
  rw [registry_keys]; exact c06_whitelist_card.2

theorem c06_registry_eq : ∀ k, k ∈ Gen.whitelist ↔ k ∈ Gen.registry.map (·.1) := by
  intro k; rw [registry_keys]

/-- a key of an association list is found by `lookup`, with a value of the list. -/
theorem lookup_of_mem_keys {α β : Type} [BEq α] [LawfulBEq α] (l : List (α × β)) (k : α)
    (h : k ∈ l.map (·.1)) : ∃ v, l.lookup k = some v ∧ v ∈ l.map (·.2) := by
  induction l with
  | nil => simp at h
  | cons p t ih =>
    obtain ⟨a, b⟩ := p
    by_cases hk : k = a
    · subst hk; exact ⟨b, by simp [List.lookup], by simp⟩
    · have hne : (k == a) = false := by simpa using hk
      have ht : k ∈ t.map (·.1) := by
        simp only [List.map_cons, List.mem_cons] at h
        exact h.resolve_left hk
      obtain ⟨v, hv, hm⟩ := ih ht
      exact ⟨v, by simp [List.lookup, hne, hv], by simp [hm]⟩

theorem c06_resolves : ∀ k, k ∈ Gen.whitelist → ∃ f b, metricFn k = some f ∧ fnBody f = some b := by
  intro k hk
  rw [← registry_keys] at hk
  obtain ⟨f, hf, hmem⟩ := lookup_of_mem_keys Gen.registry k hk
  rw [registry_values] at hmem
  obtain ⟨b, hb, _⟩ := lookup_of_mem_keys Gen.bodies f hmem
  exact ⟨f, b, hf, hb⟩

theorem c06_lookup : Gen.distanceFnLookup = "d.DISTANCES[distance]" := by decide

/-! ### closed forms, first half (`additive_symmetric` … `k_divergence`) -/

variable {n : Nat}

noncomputable def cf_additive_symmetric (x y : Fin n → ℝ) : ℝ :=
  2 * ∑ i, (x i - y i) ^ 2 * (x i + y i) / (x i * y i)

noncomputable def cf_average_euclidean (x y : Fin n → ℝ) : ℝ :=
  Real.sqrt ((∑ i, (x i - y i) ^ 2) / (n : ℝ))

noncomputable def cf_bhattacharyya (x y : Fin n → ℝ) : ℝ :=
  - Real.log (∑ i, Real.sqrt (x i * y i))

noncomputable def cf_bray_curtis (x y : Fin n → ℝ) : ℝ :=
  (∑ i, |x i - y i|) / (∑ i, (x i + y i))

noncomputable def cf_canberra (x y : Fin n → ℝ) : ℝ :=
  ∑ i, |x i - y i| / (|x i| + |y i|)

noncomputable def cf_chebyshev (x y : Fin n → ℝ) : ℝ :=
  ⨆ i, |x i - y i|

noncomputable def cf_chi_squared (x y : Fin n → ℝ) : ℝ :=
  1 / 2 * ∑ i, (x i - y i) ^ 2 / (x i + y i)

/-- the root is taken of `max 0 ·` (the library clamps the radicand). -/
noncomputable def cf_chord (x y : Fin n → ℝ) : ℝ :=
  Real.sqrt (max 0
    (2 - 2 * (∑ i, x i * y i) / (Real.sqrt (∑ i, x i ^ 2) * Real.sqrt (∑ i, y i ^ 2))))

noncomputable def cf_clark (x y : Fin n → ℝ) : ℝ :=
  Real.sqrt (∑ i, ((x i - y i) / |x i + y i|) ^ 2)

noncomputable def cf_cosine (x y : Fin n → ℝ) : ℝ :=
  1 - (∑ i, x i * y i) / (Real.sqrt (∑ i, x i ^ 2) * Real.sqrt (∑ i, y i ^ 2))

noncomputable def cf_dice (x y : Fin n → ℝ) : ℝ :=
  1 - 2 * (∑ i, x i * y i) / ((∑ i, x i ^ 2) + (∑ i, y i ^ 2))

noncomputable def cf_divergence (x y : Fin n → ℝ) : ℝ :=
  2 * ∑ i, (x i - y i) ^ 2 / (x i + y i) ^ 2

noncomputable def cf_euclidean (x y : Fin n → ℝ) : ℝ :=
  Real.sqrt (∑ i, (x i - y i) ^ 2)

/-- Gaussian kernel of the Euclidean distance with `γ = 1`. -/
noncomputable def cf_gaussian (x y : Fin n → ℝ) : ℝ :=
  Real.exp (- Real.sqrt (∑ i, (x i - y i) ^ 2))

noncomputable def cf_gower (x y : Fin n → ℝ) : ℝ :=
  (∑ i, |x i - y i|) / (n : ℝ)

/-- number of coordinates in which the vectors differ. -/
noncomputable def cf_hamming (x y : Fin n → ℝ) : ℝ :=
  ((Finset.univ.filter (fun i => x i ≠ y i)).card : ℝ)

/-- Hassanat's per-coordinate term. -/
noncomputable def hassanatTerm (a b : ℝ) : ℝ :=
  if 0 ≤ min a b then 1 - (1 + min a b) / (1 + max a b)
  else 1 - (1 + min a b + |min a b|) / (1 + max a b + |min a b|)

noncomputable def cf_hassanat (x y : Fin n → ℝ) : ℝ :=
  ∑ i, hassanatTerm (x i) (y i)

noncomputable def cf_hellinger (x y : Fin n → ℝ) : ℝ :=
  Real.sqrt (2 * ∑ i, (Real.sqrt (x i) - Real.sqrt (y i)) ^ 2)

noncomputable def cf_jaccard (x y : Fin n → ℝ) : ℝ :=
  (∑ i, (x i - y i) ^ 2) / ((∑ i, x i ^ 2) + (∑ i, y i ^ 2) - ∑ i, x i * y i)

noncomputable def cf_jeffreys (x y : Fin n → ℝ) : ℝ :=
  ∑ i, (x i - y i) * Real.log (x i / y i)

noncomputable def cf_jensen (x y : Fin n → ℝ) : ℝ :=
  1 / 2 * ∑ i, ((x i * Real.log (x i) + y i * Real.log (y i)) / 2
    - (x i + y i) / 2 * Real.log ((x i + y i) / 2))

noncomputable def cf_jensen_shannon (x y : Fin n → ℝ) : ℝ :=
  1 / 2 * ((∑ i, x i * Real.log (2 * x i / (x i + y i)))
    + ∑ i, y i * Real.log (2 * y i / (x i + y i)))

noncomputable def cf_k_divergence (x y : Fin n → ℝ) : ℝ :=
  ∑ i, x i * Real.log (2 * x i / (x i + y i))

/-! ### theorems, first half -/

theorem c06_additive_symmetric (x y : Fin n → ℝ) :
    metricR "additive_symmetric" x y
      = some (cf_additive_symmetric (fun i => x i + epsR) (fun i => y i + epsR)) := by
  c06_shift "additive_symmetric_distance" Gen.body_additive_symmetric_distance cf_additive_symmetric

theorem c06_average_euclidean (x y : Fin n → ℝ) :
    metricR "average_euclidean" x y = some (cf_average_euclidean x y) := by
  c06_plain "average_euclidean_distance" Gen.body_average_euclidean_distance cf_average_euclidean

theorem c06_bhattacharyya (x y : Fin n → ℝ) :
    metricR "bhattacharyya" x y
      = some (cf_bhattacharyya (fun i => x i + epsR) (fun i => y i + epsR)) := by
  c06_shift "bhattacharyya_distance" Gen.body_bhattacharyya_distance cf_bhattacharyya

theorem c06_bray_curtis (x y : Fin n → ℝ) :
    metricR "bray_curtis" x y
      = some (cf_bray_curtis (fun i => x i + epsR) (fun i => y i + epsR)) := by
  c06_shift "bray_curtis_distance" Gen.body_bray_curtis_distance cf_bray_curtis

theorem c06_canberra (x y : Fin n → ℝ) :
    metricR "canberra" x y
      = some (cf_canberra (fun i => x i + epsR) (fun i => y i + epsR)) := by
  c06_shift "canberra_distance" Gen.body_canberra_distance cf_canberra

theorem c06_chebyshev (x y : Fin n → ℝ) :
    metricR "chebyshev" x y = some (cf_chebyshev x y) := by
  c06_plain "chebyshev_distance" Gen.body_chebyshev_distance cf_chebyshev

theorem c06_chi_squared (x y : Fin n → ℝ) :
    metricR "chi_squared" x y
      = some (cf_chi_squared (fun i => x i + epsR) (fun i => y i + epsR)) := by
  c06_shift "chi_squared_distance" Gen.body_chi_squared_distance cf_chi_squared

theorem c06_chord (x y : Fin n → ℝ) :
    metricR "chord" x y
      = some (cf_chord (fun i => x i + epsR) (fun i => y i + epsR)) := by
  c06_shift "chord_distance" Gen.body_chord_distance cf_chord
  rw [max_comm, mul_div_assoc]

theorem c06_clark (x y : Fin n → ℝ) :
    metricR "clark" x y
      = some (cf_clark (fun i => x i + epsR) (fun i => y i + epsR)) := by
  c06_shift "clark_distance" Gen.body_clark_distance cf_clark

theorem c06_cosine (x y : Fin n → ℝ) :
    metricR "cosine" x y
      = some (cf_cosine (fun i => x i + epsR) (fun i => y i + epsR)) := by
  c06_shift "cosine_distance" Gen.body_cosine_distance cf_cosine

theorem c06_dice (x y : Fin n → ℝ) :
    metricR "dice" x y
      = some (cf_dice (fun i => x i + epsR) (fun i => y i + epsR)) := by
  c06_shift "dice_distance" Gen.body_dice_distance cf_dice

theorem c06_divergence (x y : Fin n → ℝ) :
    metricR "divergence" x y
      = some (cf_divergence (fun i => x i + epsR) (fun i => y i + epsR)) := by
  c06_shift "divergence_distance" Gen.body_divergence_distance cf_divergence

theorem c06_euclidean (x y : Fin n → ℝ) :
    metricR "euclidean" x y = some (cf_euclidean x y) := by
  c06_plain "euclidean_distance" Gen.body_euclidean_distance cf_euclidean

theorem c06_gaussian (x y : Fin n → ℝ) :
    metricR "gaussian" x y = some (cf_gaussian x y) := by
  c06_plain "gaussian_distance" Gen.body_gaussian_distance cf_gaussian
  rw [neg_one_mul]

theorem c06_gower (x y : Fin n → ℝ) :
    metricR "gower" x y = some (cf_gower x y) := by
  c06_plain "gower_distance" Gen.body_gower_distance cf_gower

theorem c06_hamming (x y : Fin n → ℝ) :
    metricR "hamming" x y = some (cf_hamming x y) := by
  c06_plain "hamming_distance" Gen.body_hamming_distance cf_hamming
  exact sum_indicator_eq_card _

theorem c06_hassanat (x y : Fin n → ℝ) :
    metricR "hassanat" x y
      = some (cf_hassanat (fun i => x i + epsR) (fun i => y i + epsR)) := by
  c06_shift "hassanat_distance" Gen.body_hassanat_distance cf_hassanat
  simp only [hassanatTerm]

theorem c06_hellinger (x y : Fin n → ℝ) :
    metricR "hellinger" x y = some (cf_hellinger x y) := by
  c06_plain "hellinger_distance" Gen.body_hellinger_distance cf_hellinger
  rw [Finset.mul_sum]

theorem c06_jaccard (x y : Fin n → ℝ) :
    metricR "jaccard" x y
      = some (cf_jaccard (fun i => x i + epsR) (fun i => y i + epsR)) := by
  c06_shift "jaccard_distance" Gen.body_jaccard_distance cf_jaccard

theorem c06_jeffreys (x y : Fin n → ℝ) :
    metricR "jeffreys" x y
      = some (cf_jeffreys (fun i => x i + epsR) (fun i => y i + epsR)) := by
  c06_shift "jeffreys_distance" Gen.body_jeffreys_distance cf_jeffreys

theorem c06_jensen (x y : Fin n → ℝ) :
    metricR "jensen" x y
      = some (cf_jensen (fun i => x i + epsR) (fun i => y i + epsR)) := by
  c06_shift "jensen_distance" Gen.body_jensen_distance cf_jensen

theorem c06_jensen_shannon (x y : Fin n → ℝ) :
    metricR "jensen_shannon" x y
      = some (cf_jensen_shannon (fun i => x i + epsR) (fun i => y i + epsR)) := by
  c06_shift "jensen_shannon_distance" Gen.body_jensen_shannon_distance cf_jensen_shannon

theorem c06_k_divergence (x y : Fin n → ℝ) :
    metricR "k_divergence" x y
      = some (cf_k_divergence (fun i => x i + epsR) (fun i => y i + epsR)) := by
  c06_shift "k_divergence_distance" Gen.body_k_divergence_distance cf_k_divergence

end Opf
