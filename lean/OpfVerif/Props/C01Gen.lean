/-
C01 — END TO END for the translated code: the statement-by-statement translation of
`SupervisedOPF.fit` (`Gen/FitImp.lean`, calling the translations of `_find_prototypes` and `Heap`)
leaves an optimum-path forest in the arrays it returns.

Composition of the refinement theorem `c01_gen_fit` (`Props/C01Refine.lean`: the translated code
computes what the executable model `fitRun` computes) with the model-level theorems of
`Props/C01.lean` / `C01Exec.lean` / `C15.lean` (through `Lemmas/FitCompose.lean`).  Every theorem
below speaks about `fit W top sg0` itself and the fields of the subgraph `sg'` it returns; the
hypotheses are about the INPUTS only:

* `hr : RelF sg0 (Forest.init lab)` — the subgraph handed to `fit` is a fresh one with `lab.size`
  nodes carrying the labels `lab` (`c01_gen_initSG` exhibits one for every `lab`);
* `hW : WAgree lab.size W w` — the arc-weight oracle returns `w a b` on node positions;
* `H : FitHyp w top lab.size lab` — at least one sample, `w` symmetric, `0 ≤ w p q < top`, `0 < top`,
  at least two classes (with a single class the real code leaves an empty forest: C01 `c01_no_seed`).

No hypothesis mentions a model state.  Reading conventions: `sg'.cost.getD t 0` is `Node.cost` of
node `t` (the array sizes are given by `c01_gen_frame`), `sg'.pred.getD t (-1)` is `Node.pred`
(`NIL = -1`), `predAt sg'.pred t` the same as an `Option Nat`, `outInst w top lab sg'.status` the
competition instance whose seeds are the nodes with `status = 1` (prototypes).
Property theorems only; helpers are in `Lemmas/GenCompose.lean`.
-/
import OpfVerif.Props.C01Refine
import OpfVerif.Props.C15
import OpfVerif.Lemmas.GenCompose
namespace Opf.GenCompose
open Opf Opf.Gen Opf.Gen.SupImp Opf.SupRefine Opf.FitCompose

variable (W : Int → Int → Option Int) (w : Nat → Nat → Int) (top : Int) (sg0 : SG) (lab : Array Nat)

/-- `fit` terminates without raising, marks the classifier trained, and everything the model-level
theorems say holds of the model forest that the returned subgraph represents (master lemma; the
theorems below unfold it field by field). -/
theorem c01_gen_master (hr : RelF sg0 (Forest.init lab)) (hW : WAgree lab.size W w)
    (H : FitHyp w top lab.size lab) :
    ∃ sg', fit W top sg0 = some (sg', ()) ∧ sg'.trained = true ∧
      RelF sg' (fitRun w top false lab.size lab).f :=
  c01_gen_fit W w top sg0 lab hr H.nLab_pos hW

/-- **Frame.** `fit` raises nothing and terminates; it sets `trained`, keeps the number of nodes
and the array sizes, leaves every true label and every relevance mark as it found them, and leaves
in `status` only the values 0 and 1. -/
theorem c01_gen_frame (hr : RelF sg0 (Forest.init lab)) (hW : WAgree lab.size W w)
    (H : FitHyp w top lab.size lab) :
    ∃ sg', fit W top sg0 = some (sg', ()) ∧ sg'.trained = true ∧
      sg'.n_nodes = (lab.size : Int) ∧ sg'.pred.size = lab.size ∧ sg'.status.size = lab.size ∧
      sg'.cost.size = lab.size ∧ sg'.predicted_label.size = lab.size ∧ sg'.label.size = lab.size ∧
      sg'.relevant.size = lab.size ∧
      (∀ t, t < lab.size → sg'.label.getD t 0 = (lab.getD t 0 : Int)) ∧
      (∀ t, t < lab.size → sg'.relevant.getD t 0 = 0) ∧
      (∀ t, t < lab.size → sg'.status.getD t 0 = 0 ∨ sg'.status.getD t 0 = 1) := by
  obtain ⟨sg', he, ht, r⟩ := c01_gen_master W w top sg0 lab hr hW H
  obtain ⟨h1, h2, h3, h4, h5, h6, h7⟩ := fo_sizes H r
  refine ⟨sg', he, ht, h1, h2, h3, h4, h5, h6, h7, ?_, fun t ht => fo_relevant H r ht,
    fun t ht => fo_status_01 H r ht⟩
  intro t ht
  rw [rd_label r (by rw [fitRun_n H false]; exact ht)]
  have hl : (fitRun w top false lab.size lab).f.label = lab := by
    rw [fitRun_eq, c15_supervised_label]
    exact (prim_lawful H).choose_spec.2.2.2.2.2.1
  unfold Forest.labelOf
  rw [hl]

/-- **(a) Optimum costs.** The cost `fit` leaves in `Node.cost` of every node `t` is the optimum
max-arc path cost: some path from a prototype (a node whose `status` is 1) to `t` through the
training nodes has largest arc weight `cost[t]` (0 for the trivial path), and no such path has a
smaller largest arc weight. -/
theorem c01_gen_cost_optimal (hr : RelF sg0 (Forest.init lab)) (hW : WAgree lab.size W w)
    (H : FitHyp w top lab.size lab) :
    ∃ sg', fit W top sg0 = some (sg', ()) ∧
      ∀ t, t < lab.size →
        (outInst w top lab sg'.status).PathCost t (sg'.cost.getD t 0) ∧
        ∀ c, (outInst w top lab sg'.status).PathCost t c → sg'.cost.getD t 0 ≤ c := by
  obtain ⟨sg', he, _, r⟩ := c01_gen_master W w top sg0 lab hr hW H
  exact ⟨sg', he, fun t ht => fo_cost_optimal H r t ht⟩

/-- **(a') Costs are finite.** Every node ends with a cost in `[0, FLOAT_MAX)`: no node is left
unreached (at `FLOAT_MAX`) by the competition. -/
theorem c01_gen_cost_bounds (hr : RelF sg0 (Forest.init lab)) (hW : WAgree lab.size W w)
    (H : FitHyp w top lab.size lab) :
    ∃ sg', fit W top sg0 = some (sg', ()) ∧
      ∀ t, t < lab.size → 0 ≤ sg'.cost.getD t 0 ∧ sg'.cost.getD t 0 < top := by
  obtain ⟨sg', he, _, r⟩ := c01_gen_master W w top sg0 lab hr hW H
  exact ⟨sg', he, fun t ht => fo_cost_bounds H r t ht⟩

/-- **(b) Conquest order.** `Subgraph.idx_nodes` after `fit` lists every node exactly once, in
non-decreasing `Node.cost` (the property the early exit of `predict` relies on). -/
theorem c01_gen_order (hr : RelF sg0 (Forest.init lab)) (hW : WAgree lab.size W w)
    (H : FitHyp w top lab.size lab) :
    ∃ sg', fit W top sg0 = some (sg', ()) ∧
      ∃ ord : List Nat, sg'.idx_nodes.toList = ord.map (fun (x : Nat) => (x : Int)) ∧ ord.Nodup ∧
        (∀ t, t ∈ ord ↔ t < lab.size) ∧ ord.length = lab.size ∧
        ord.Pairwise (fun a b => sg'.cost.getD a 0 ≤ sg'.cost.getD b 0) := by
  obtain ⟨sg', he, _, r⟩ := c01_gen_master W w top sg0 lab hr hW H
  exact ⟨sg', he, fo_order H r⟩

/-- (b), stated directly on the integers stored in `idx_nodes`: no repetition, exactly the
positions `0 … n-1`, `n` entries, sorted by the cost of the node they name. -/
theorem c01_gen_order_int (hr : RelF sg0 (Forest.init lab)) (hW : WAgree lab.size W w)
    (H : FitHyp w top lab.size lab) :
    ∃ sg', fit W top sg0 = some (sg', ()) ∧
      sg'.idx_nodes.toList.Nodup ∧
      (∀ z : Int, z ∈ sg'.idx_nodes.toList ↔ 0 ≤ z ∧ z < (lab.size : Int)) ∧
      sg'.idx_nodes.size = lab.size ∧
      sg'.idx_nodes.toList.Pairwise
        (fun a b => sg'.cost.getD a.toNat 0 ≤ sg'.cost.getD b.toNat 0) := by
  obtain ⟨sg', he, ord, ho, hnd, hmem, hlen, hsorted⟩ := c01_gen_order W w top sg0 lab hr hW H
  refine ⟨sg', he, ?_, ?_, ?_, ?_⟩
  · rw [ho]
    exact hnd.map (fun a b h => Int.ofNat.inj h)
  · intro z
    rw [ho, List.mem_map]
    constructor
    · rintro ⟨a, ha, rfl⟩
      have := (hmem a).1 ha
      omega
    · rintro ⟨h0, h1⟩
      exact ⟨z.toNat, (hmem _).2 (by omega), by omega⟩
  · rw [← Array.length_toList, ho, List.length_map, hlen]
  · rw [ho, List.pairwise_map]
    exact hsorted.imp (fun {a b} h => by simpa using h)

/-- **(c) Prototypes.** A node whose `status` is 1 after `fit` keeps cost 0, has no predecessor
(`pred = NIL = -1`) and is assigned its own true label. -/
theorem c01_gen_prototypes (hr : RelF sg0 (Forest.init lab)) (hW : WAgree lab.size W w)
    (H : FitHyp w top lab.size lab) :
    ∃ sg', fit W top sg0 = some (sg', ()) ∧
      ∀ t, t < lab.size → sg'.status.getD t 0 = 1 →
        sg'.cost.getD t 0 = 0 ∧ sg'.pred.getD t (-1) = -1 ∧
        sg'.predicted_label.getD t 0 = (lab.getD t 0 : Int) := by
  obtain ⟨sg', he, _, r⟩ := c01_gen_master W w top sg0 lab hr hW H
  exact ⟨sg', he, fun t ht hs => (fo_seeds H r t ht hs).2⟩

/-- (c) Every class of the training set contributes at least one prototype. -/
theorem c01_gen_every_class (hr : RelF sg0 (Forest.init lab)) (hW : WAgree lab.size W w)
    (H : FitHyp w top lab.size lab) :
    ∃ sg', fit W top sg0 = some (sg', ()) ∧
      ∀ a, a < lab.size → ∃ p, p < lab.size ∧ sg'.status.getD p 0 = 1 ∧
        lab.getD p 0 = lab.getD a 0 := by
  obtain ⟨sg', he, _, r⟩ := c01_gen_master W w top sg0 lab hr hW H
  exact ⟨sg', he, fun a ha => fo_classes H r a ha⟩

/-- **(c) Link equation.** Every node `t` that is not a prototype has a predecessor `p` (stored
in `Node.pred`), a different node that was conquered EARLIER (stands before `t` in `idx_nodes`);
`cost[t] = max(cost[p], w(p, t))`, and `t` carries the predicted label of `p`. -/
theorem c01_gen_link (hr : RelF sg0 (Forest.init lab)) (hW : WAgree lab.size W w)
    (H : FitHyp w top lab.size lab) :
    ∃ sg', fit W top sg0 = some (sg', ()) ∧
      ∀ t, t < lab.size → sg'.status.getD t 0 ≠ 1 →
        ∃ p, p < lab.size ∧ p ≠ t ∧ sg'.pred.getD t (-1) = (p : Int) ∧
          sg'.cost.getD t 0 = max (sg'.cost.getD p 0) (w p t) ∧
          sg'.predicted_label.getD t 0 = sg'.predicted_label.getD p 0 ∧
          sg'.idx_nodes.toList.idxOf (p : Int) < sg'.idx_nodes.toList.idxOf (t : Int) := by
  obtain ⟨sg', he, _, r⟩ := c01_gen_master W w top sg0 lab hr hW H
  exact ⟨sg', he, fun t ht hs => fo_link H r t ht hs⟩

/-- **Forest.** Following `Node.pred` from any node `t` reaches a prototype `r` (no cycle: each
link goes to an earlier position of `idx_nodes`), and the label `fit` assigns to `t` is the TRUE
label of that prototype. -/
theorem c01_gen_forest (hr : RelF sg0 (Forest.init lab)) (hW : WAgree lab.size W w)
    (H : FitHyp w top lab.size lab) :
    ∃ sg', fit W top sg0 = some (sg', ()) ∧
      ∀ t, t < lab.size → ∃ r, r < lab.size ∧ sg'.status.getD r 0 = 1 ∧ AncA sg'.pred r t ∧
        sg'.predicted_label.getD t 0 = (lab.getD r 0 : Int) := by
  obtain ⟨sg', he, _, r⟩ := c01_gen_master W w top sg0 lab hr hW H
  exact ⟨sg', he, fun t ht => fo_forest H r t ht⟩

/-- **All of C01 about one run.** The conjunction of the theorems above for the subgraph
returned by a single call (`fit` is a function, so this is the same `sg'` as everywhere else). -/
theorem c01_gen_fit_opf (hr : RelF sg0 (Forest.init lab)) (hW : WAgree lab.size W w)
    (H : FitHyp w top lab.size lab) :
    ∃ sg', fit W top sg0 = some (sg', ()) ∧ sg'.trained = true ∧
      (∀ t, t < lab.size →
        (outInst w top lab sg'.status).PathCost t (sg'.cost.getD t 0) ∧
        ∀ c, (outInst w top lab sg'.status).PathCost t c → sg'.cost.getD t 0 ≤ c) ∧
      (∃ ord : List Nat, sg'.idx_nodes.toList = ord.map (fun (x : Nat) => (x : Int)) ∧ ord.Nodup ∧
        (∀ t, t ∈ ord ↔ t < lab.size) ∧ ord.length = lab.size ∧
        ord.Pairwise (fun a b => sg'.cost.getD a 0 ≤ sg'.cost.getD b 0)) ∧
      (∀ t, t < lab.size → sg'.status.getD t 0 = 1 →
        sg'.cost.getD t 0 = 0 ∧ sg'.pred.getD t (-1) = -1 ∧
        sg'.predicted_label.getD t 0 = (lab.getD t 0 : Int)) ∧
      (∀ t, t < lab.size → sg'.status.getD t 0 ≠ 1 →
        ∃ p, p < lab.size ∧ p ≠ t ∧ sg'.pred.getD t (-1) = (p : Int) ∧
          sg'.cost.getD t 0 = max (sg'.cost.getD p 0) (w p t) ∧
          sg'.predicted_label.getD t 0 = sg'.predicted_label.getD p 0 ∧
          sg'.idx_nodes.toList.idxOf (p : Int) < sg'.idx_nodes.toList.idxOf (t : Int)) ∧
      (∀ t, t < lab.size → ∃ r, r < lab.size ∧ sg'.status.getD r 0 = 1 ∧ AncA sg'.pred r t ∧
        sg'.predicted_label.getD t 0 = (lab.getD r 0 : Int)) := by
  obtain ⟨sg', he, ht, r⟩ := c01_gen_master W w top sg0 lab hr hW H
  exact ⟨sg', he, ht, fun t ht => fo_cost_optimal H r t ht, fo_order H r,
    fun t ht hs => (fo_seeds H r t ht hs).2, fun t ht hs => fo_link H r t ht hs,
    fun t ht => fo_forest H r t ht⟩

/-! ### non-vacuity -/

/-- the fresh subgraph `Subgraph(X, Y)` builds for the labels `lab`, flattened. -/
def initSG (lab : Array Nat) : SG :=
  { n_nodes := (lab.size : Int), trained := false, idx_nodes := #[],
    pred := Array.replicate lab.size (-1), relevant := Array.replicate lab.size 0,
    cost := Array.replicate lab.size 0, label := lab.map (fun (x : Nat) => (x : Int)),
    status := Array.replicate lab.size 0, predicted_label := Array.replicate lab.size 0 }

/-- for EVERY label vector the hypothesis `RelF sg0 (Forest.init lab)` is met by `initSG lab`. -/
theorem c01_gen_initSG (lab : Array Nat) : RelF (initSG lab) (Forest.init lab) := by
  have hget : ∀ {α : Type} (v d : α) (x : Nat), x < lab.size →
      (Array.replicate lab.size v).getD x d = v := by
    intro α v d x hx
    simp [Array.getD_eq_getD_getElem?, hx]
  refine ⟨rfl, by simp [initSG, Forest.init], by simp [initSG, Forest.init],
    by simp [initSG, Forest.init], by simp [initSG, Forest.init], by simp [initSG, Forest.init],
    by simp [initSG, Forest.init], by simp [Forest.init], ?_, ?_, ?_, ?_, ?_, ?_,
    by simp [initSG, Forest.init]⟩
  · intro x hx
    have hx' : x < lab.size := hx
    rw [(init_fresh lab x).1]
    simp [initSG, hx', predInt]
  · intro x hx
    have hx' : x < lab.size := hx
    rw [(init_fresh lab x).2]
    simp [initSG, hx']
  · intro x hx
    have hx' : x < lab.size := hx
    simp [initSG, Forest.init, Forest.costOf, hx']
  · intro x hx
    have hx' : x < lab.size := hx
    simp [initSG, Forest.init, Forest.plabelOf, hx']
  · intro x hx
    have hx' : x < lab.size := hx
    simp [initSG, Forest.init, Forest.labelOf, hx']
  · intro x hx
    have hx' : x < lab.size := hx
    simp [initSG, Forest.init, hx']

/-- the weight oracle of the demo: `c15_demo_w` (distances on a line) on the positions. -/
def demoW : Int → Int → Option Int := fun a b => some (c15_demo_w a.toNat b.toNat)

/-- a concrete instance of all hypotheses: three samples on a line at 0, 1, 5 with classes
1, 1, 2. -/
theorem c01_gen_demo_hyps :
    RelF (initSG #[1, 1, 2]) (Forest.init #[1, 1, 2]) ∧
    WAgree (#[1, 1, 2] : Array Nat).size demoW c15_demo_w ∧
    FitHyp c15_demo_w 100 (#[1, 1, 2] : Array Nat).size #[1, 1, 2] := by
  refine ⟨c01_gen_initSG _, fun a b _ _ => by simp [demoW], ?_⟩
  refine ⟨by decide, by decide, ?_, ?_, ?_, by decide, ⟨0, 2, by decide, by decide, by decide⟩⟩
  · intro p q hp hq
    have hp' : p = 0 ∨ p = 1 ∨ p = 2 := by simp at hp; omega
    have hq' : q = 0 ∨ q = 1 ∨ q = 2 := by simp at hq; omega
    rcases hp' with rfl | rfl | rfl <;> rcases hq' with rfl | rfl | rfl <;> decide
  · intro p q hp hq
    have hp' : p = 0 ∨ p = 1 ∨ p = 2 := by simp at hp; omega
    have hq' : q = 0 ∨ q = 1 ∨ q = 2 := by simp at hq; omega
    rcases hp' with rfl | rfl | rfl <;> rcases hq' with rfl | rfl | rfl <;> decide
  · intro p q hp hq
    have hp' : p = 0 ∨ p = 1 ∨ p = 2 := by simp at hp; omega
    have hq' : q = 0 ∨ q = 1 ∨ q = 2 := by simp at hq; omega
    rcases hp' with rfl | rfl | rfl <;> rcases hq' with rfl | rfl | rfl <;> decide

/-- hence the theorems above fire on it: the translated `fit` on this training set returns a
trained subgraph whose conquest order is a cost-sorted enumeration of the three nodes. -/
example : ∃ sg', fit demoW 100 (initSG #[1, 1, 2]) = some (sg', ()) ∧
    ∃ ord : List Nat, sg'.idx_nodes.toList = ord.map (fun (x : Nat) => (x : Int)) ∧ ord.Nodup ∧
      (∀ t, t ∈ ord ↔ t < 3) ∧ ord.length = 3 ∧
      ord.Pairwise (fun a b => sg'.cost.getD a 0 ≤ sg'.cost.getD b 0) :=
  c01_gen_order demoW c15_demo_w 100 _ #[1, 1, 2] c01_gen_demo_hyps.1 c01_gen_demo_hyps.2.1
    c01_gen_demo_hyps.2.2

end Opf.GenCompose
