/-
C18 — refinement: the STATEMENT-BY-STATEMENT TRANSLATION of the reading part of `opf2txt`, `opf2csv`, `opf2json`
(`Gen/ConvImp.lean`, regenerated from `opfython/utils/converter.py` on every run by `tools/translate_conv.py`:
`struct.calcsize` / `struct.unpack` / `f.read`, the format string grown letter by letter, the record loop, the tuple and dict
displays) and of the record loop of `load_json` (`opfython/stream/loader.py`) computes exactly the decoder of `Model/Stream.lean`
about which `Props/C18.lean` speaks — for EVERY byte string: truncated files, trailing bytes, negative header fields
(`decodeOpfS`: Python unpacks the header with `i` letters, i.e. SIGNED, so a negative sample count gives no record and a negative
feature count the record format `<ii`).  Consequences: the three converters decode the same samples, `.json` written by `opf2json`
and read back by `load_json` gives the rows `opf2txt` / `opf2csv` write; on a well-formed file every identifier, every label
(stored 1-based, emitted 0-based) and every float32 payload (bit pattern) is recovered; the delimiters and keys used by the
writers are the ones the loaders read with.
Trusted (DESIGN §6): `Model/PyStruct.lean`; `np.savetxt` / `np.loadtxt` / `json.dump` / `json.load` as library round trips
of ints and binary32 values widened to binary64 (checked per case by the `stream` correspondence).
Property theorems only; helper lemmas live in `Lemmas/ConvRefine.lean`.
-/
import OpfVerif.Lemmas.ConvRefine
import OpfVerif.Gen.LoaderKw
namespace Opf.ConvRefine
open Opf Opf.Gen

theorem c18_gen_opf2txt (b : List UInt8) :
    ConvImp.opf2txt b = (decodeOpfS b).map (fun ss => (ss.map rowOf).toArray) := opf2txt_refines b

theorem c18_gen_opf2csv (b : List UInt8) :
    ConvImp.opf2csv b = (decodeOpfS b).map (fun ss => (ss.map rowOf).toArray) := opf2csv_refines b

theorem c18_gen_opf2json (b : List UInt8) :
    ConvImp.opf2json b = (decodeOpfS b).map (fun ss => (ss.map recOf).toArray) := opf2json_refines b

/-- `load_json` on what `opf2json` dumps gives the rows the text converters write. -/
theorem c18_gen_load_json (ss : List OpfSample) :
    ConvImp.load_json (ss.map recOf).toArray = some (ss.map rowOf).toArray := load_json_recOf ss

/-- the three formats carry the same rows, for every input file (also when it is malformed: all three raise together). -/
theorem c18_gen_three_formats_agree (b : List UInt8) :
    ConvImp.opf2csv b = ConvImp.opf2txt b ∧
    (ConvImp.opf2json b).bind ConvImp.load_json = ConvImp.opf2txt b := three_formats_agree b

/-- signed and unsigned readings of the header coincide below 2^31. -/
theorem c18_decodeOpfS_eq (nClasses d : Nat) (ss : List OpfSample) (hlen : ss.length < 2^31) (hdd : d < 2^31) :
    decodeOpfS (encodeOpf nClasses d ss) = decodeOpf (encodeOpf nClasses d ss) := decodeOpfS_encode nClasses d ss hlen hdd

/-- end to end on the translated converters: a well-formed OPF file gives back every sample. -/
theorem c18_gen_conv_roundtrip (nClasses d : Nat) (ss : List OpfSample)
    (hd : ∀ s ∈ ss, s.feats.length = d) (hlen : ss.length < 2^31) (hdd : d < 2^31)
    (hid : ∀ s ∈ ss, -2^31 ≤ s.id ∧ s.id < 2^31)
    (hlab : ∀ s ∈ ss, -2^31 ≤ s.label + 1 ∧ s.label + 1 < 2^31) :
    ConvImp.opf2txt (encodeOpf nClasses d ss) = some (ss.map rowOf).toArray ∧
    ConvImp.opf2csv (encodeOpf nClasses d ss) = some (ss.map rowOf).toArray ∧
    (ConvImp.opf2json (encodeOpf nClasses d ss)).bind ConvImp.load_json = some (ss.map rowOf).toArray :=
  conv_roundtrip nClasses d ss hd hlen hdd hid hlab

/-- a negative sample count (signed header) gives an empty dataset, not an error. -/
theorem c18_gen_negative_count (n c d : UInt32) (rest : List UInt8) (hn : toInt32 n ≤ 0) :
    ConvImp.opf2txt (enc32 n ++ enc32 c ++ enc32 d ++ rest) = some #[] := negative_count n c d rest hn

/-- writers and loaders agree on delimiters, `ndmin` keeps one-row files 2-D, and on the JSON keys. -/
theorem c18_gen_delims :
    ConvImp.opf2txt_delim = LoaderKw.load_txt_delim ∧ ConvImp.opf2csv_delim = LoaderKw.load_csv_delim ∧
    ConvImp.opf2txt_delim = " " ∧ ConvImp.opf2csv_delim = "," ∧
    LoaderKw.load_txt_ndmin = 2 ∧ LoaderKw.load_csv_ndmin = 2 ∧
    ConvImp.opf2json_top_key = ConvImp.load_json_top_key := by
  refine ⟨?_, ?_, ?_, ?_, ?_, ?_, ?_⟩ <;> decide +kernel

/-- the tails, as written: default output name from the input path, then ONE library call that writes the decoded rows. -/
theorem c18_gen_tails :
    ConvImp.opf2txt_tail = "if not output_file:\n    output_file = opf_path.split('.')[0] + '.txt'\nnp.savetxt(output_file, samples, delimiter=' ')" ∧
    ConvImp.opf2csv_tail = "if not output_file:\n    output_file = opf_path.split('.')[0] + '.csv'\nnp.savetxt(output_file, samples, delimiter=',')" ∧
    ConvImp.opf2json_tail = "if not output_file:\n    output_file = opf_path.split('.')[0] + '.json'\nwith open(output_file, 'w') as f:\n    j.dump(json, f)" ∧
    ConvImp.load_json_open = "with open(json_path) as f:\n    json_file = j.load(f)" := by
  refine ⟨?_, ?_, ?_, ?_⟩ <;> decide +kernel

/-! non-vacuity: a two-sample file with a negative identifier, decoded by the translated code -/
example :
    ConvImp.opf2txt (encodeOpf 2 2 [⟨-7, 0, [0x3f800000, 0xbf800000]⟩, ⟨16777217, 1, [0x7fc00000, 0]⟩]) =
      some #[#[.int (-7), .int 0, .f32 0x3f800000, .f32 0xbf800000], #[.int 16777217, .int 1, .f32 0x7fc00000, .f32 0]] := by
  decide +kernel

end Opf.ConvRefine
