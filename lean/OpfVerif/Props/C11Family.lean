/-
C11 (family) — the five Euclidean-family metrics are strictly increasing transforms of one another.

`E u v` is the real number denoted by the generated body of `euclidean_distance`.  The bodies of
`squared_euclidean_distance`, `average_euclidean_distance`, `log_euclidean_distance` and
`log_squared_euclidean_distance` (regenerated from the Python source on every run) are shown to be
`φ (E u v)` for the explicit transforms

  `φ₁ t = t ^ 2`,  `φ₂ t = t / √n`,  `φ₃ t = 100000 · log (t + 1)`,  `φ₄ t = 100000 · log (t ^ 2 + 1)`,

each of which vanishes at `0` and is strictly increasing on `[0, ∞)` (`φ₂` for `n > 0`).  Hence the
five metrics order all pairs of samples in the same way (`c11_family_order_*`): `<` and `=` between
two pair-distances are the same statement under each of the five metrics, which is all that the
order-driven training and prediction algorithms consult.

Real-number semantics (`S.evalR`); IEEE rounding is not modelled (see the header of `Props/C06.lean`).
-/
import OpfVerif.Lemmas.ExprReal
import OpfVerif.Gen.Distance
import Mathlib.Tactic.NormNum
import Mathlib.Tactic.Positivity
import Mathlib.Tactic.Linarith
namespace Opf
open scoped BigOperators

variable {n : Nat}

/-- the Euclidean distance as denoted by the generated body of `euclidean_distance`. -/
noncomputable def c11E (u v : Fin n → ℝ) : ℝ := Gen.body_euclidean_distance.evalR u v

local notation "E" => c11E

/-! ### the transforms -/

noncomputable def c11phi1 (t : ℝ) : ℝ := t ^ 2
noncomputable def c11phi2 (n : Nat) (t : ℝ) : ℝ := t / Real.sqrt n
noncomputable def c11phi3 (t : ℝ) : ℝ := 100000 * Real.log (t + 1)
noncomputable def c11phi4 (t : ℝ) : ℝ := 100000 * Real.log (t ^ 2 + 1)

theorem c11_phi1_zero : c11phi1 0 = 0 := by simp [c11phi1]
theorem c11_phi2_zero (n : Nat) : c11phi2 n 0 = 0 := by simp [c11phi2]
theorem c11_phi3_zero : c11phi3 0 = 0 := by simp [c11phi3]
theorem c11_phi4_zero : c11phi4 0 = 0 := by simp [c11phi4]

/-! ### the bodies are the transforms of `E` -/

theorem c11_family_E (u v : Fin n → ℝ) : E u v = Real.sqrt (∑ i, (u i - v i) ^ 2) := by
  simp [c11E, Gen.body_euclidean_distance, S.evalR, V.evalR]

theorem c11_family_sumsq_nonneg (u v : Fin n → ℝ) : 0 ≤ ∑ i, (u i - v i) ^ 2 :=
  Finset.sum_nonneg (fun _ _ => sq_nonneg _)

theorem c11_family_nonneg (u v : Fin n → ℝ) : 0 ≤ E u v := by
  rw [c11_family_E]; exact Real.sqrt_nonneg _

theorem c11_family_E_sq (u v : Fin n → ℝ) : (E u v) ^ 2 = ∑ i, (u i - v i) ^ 2 := by
  rw [c11_family_E, Real.sq_sqrt (c11_family_sumsq_nonneg u v)]

theorem c11_family_squared (u v : Fin n → ℝ) :
    Gen.body_squared_euclidean_distance.evalR u v = (E u v) ^ 2 := by
  rw [c11_family_E_sq]
  simp [Gen.body_squared_euclidean_distance, S.evalR, V.evalR]

/-- no hypothesis on `n` is needed: for `n = 0` both sides are `0` (`a / 0 = 0` in `ℝ`). -/
theorem c11_family_average (u v : Fin n → ℝ) :
    Gen.body_average_euclidean_distance.evalR u v = E u v / Real.sqrt n := by
  rw [c11_family_E, ← Real.sqrt_div' _ (Nat.cast_nonneg n)]
  simp [Gen.body_average_euclidean_distance, S.evalR, V.evalR]

theorem c11_family_average' (u v : Fin n → ℝ) :
    Gen.body_average_euclidean_distance.evalR u v = Real.sqrt ((E u v) ^ 2 / n) := by
  rw [c11_family_E_sq]
  simp [Gen.body_average_euclidean_distance, S.evalR, V.evalR]

theorem c11_family_log (u v : Fin n → ℝ) :
    Gen.body_log_euclidean_distance.evalR u v = 100000 * Real.log (E u v + 1) := by
  rw [c11_family_E]
  simp [Gen.body_log_euclidean_distance, S.evalR, V.evalR, litR]
  norm_num

theorem c11_family_log_squared (u v : Fin n → ℝ) :
    Gen.body_log_squared_euclidean_distance.evalR u v = 100000 * Real.log ((E u v) ^ 2 + 1) := by
  rw [c11_family_E_sq]
  simp [Gen.body_log_squared_euclidean_distance, S.evalR, V.evalR, litR]
  norm_num

/-- the four bodies as `φᵢ (E u v)`. -/
theorem c11_family_phi (u v : Fin n → ℝ) :
    Gen.body_squared_euclidean_distance.evalR u v = c11phi1 (E u v) ∧
    Gen.body_average_euclidean_distance.evalR u v = c11phi2 n (E u v) ∧
    Gen.body_log_euclidean_distance.evalR u v = c11phi3 (E u v) ∧
    Gen.body_log_squared_euclidean_distance.evalR u v = c11phi4 (E u v) :=
  ⟨c11_family_squared u v, c11_family_average u v, c11_family_log u v, c11_family_log_squared u v⟩

/-! ### strict monotonicity on `[0, ∞)` -/

theorem c11_family_strictMono_1 : StrictMonoOn c11phi1 (Set.Ici 0) := by
  intro a ha b _ hab
  exact pow_lt_pow_left₀ hab ha (by norm_num)

theorem c11_family_strictMono_2 (hn : 0 < n) : StrictMonoOn (c11phi2 n) (Set.Ici 0) := by
  intro a _ b _ hab
  have hs : 0 < Real.sqrt (n : ℝ) := Real.sqrt_pos.mpr (by exact_mod_cast hn)
  exact div_lt_div_of_pos_right hab hs

theorem c11_family_strictMono_3 : StrictMonoOn c11phi3 (Set.Ici 0) := by
  intro a ha b _ hab
  have ha' : (0 : ℝ) ≤ a := ha
  have h : Real.log (a + 1) < Real.log (b + 1) := Real.log_lt_log (by linarith) (by linarith)
  simp only [c11phi3]
  linarith

theorem c11_family_strictMono_4 : StrictMonoOn c11phi4 (Set.Ici 0) := by
  intro a ha b _ hab
  have ha' : (0 : ℝ) ≤ a := ha
  have h2 : a ^ 2 < b ^ 2 := pow_lt_pow_left₀ hab ha' (by norm_num)
  have h : Real.log (a ^ 2 + 1) < Real.log (b ^ 2 + 1) :=
    Real.log_lt_log (by positivity) (by linarith)
  simp only [c11phi4]
  linarith

/-! ### the five metrics induce the same ordering of all pairs -/

/-- a function strictly increasing on `[0, ∞)` preserves and reflects `<` and `=` there. -/
theorem c11_strictMonoOn_order {φ : ℝ → ℝ} (h : StrictMonoOn φ (Set.Ici 0)) {a b : ℝ}
    (ha : 0 ≤ a) (hb : 0 ≤ b) : (a < b ↔ φ a < φ b) ∧ (a = b ↔ φ a = φ b) :=
  ⟨(h.lt_iff_lt ha hb).symm, (h.injOn.eq_iff ha hb).symm⟩

theorem c11_family_order_squared (u v u' v' : Fin n → ℝ) :
    (E u v < E u' v' ↔ Gen.body_squared_euclidean_distance.evalR u v
        < Gen.body_squared_euclidean_distance.evalR u' v') ∧
    (E u v = E u' v' ↔ Gen.body_squared_euclidean_distance.evalR u v
        = Gen.body_squared_euclidean_distance.evalR u' v') := by
  rw [(c11_family_phi u v).1, (c11_family_phi u' v').1]
  exact c11_strictMonoOn_order c11_family_strictMono_1 (c11_family_nonneg u v) (c11_family_nonneg u' v')

theorem c11_family_order_average (hn : 0 < n) (u v u' v' : Fin n → ℝ) :
    (E u v < E u' v' ↔ Gen.body_average_euclidean_distance.evalR u v
        < Gen.body_average_euclidean_distance.evalR u' v') ∧
    (E u v = E u' v' ↔ Gen.body_average_euclidean_distance.evalR u v
        = Gen.body_average_euclidean_distance.evalR u' v') := by
  rw [(c11_family_phi u v).2.1, (c11_family_phi u' v').2.1]
  exact c11_strictMonoOn_order (c11_family_strictMono_2 hn) (c11_family_nonneg u v)
    (c11_family_nonneg u' v')

theorem c11_family_order_log (u v u' v' : Fin n → ℝ) :
    (E u v < E u' v' ↔ Gen.body_log_euclidean_distance.evalR u v
        < Gen.body_log_euclidean_distance.evalR u' v') ∧
    (E u v = E u' v' ↔ Gen.body_log_euclidean_distance.evalR u v
        = Gen.body_log_euclidean_distance.evalR u' v') := by
  rw [(c11_family_phi u v).2.2.1, (c11_family_phi u' v').2.2.1]
  exact c11_strictMonoOn_order c11_family_strictMono_3 (c11_family_nonneg u v) (c11_family_nonneg u' v')

theorem c11_family_order_log_squared (u v u' v' : Fin n → ℝ) :
    (E u v < E u' v' ↔ Gen.body_log_squared_euclidean_distance.evalR u v
        < Gen.body_log_squared_euclidean_distance.evalR u' v') ∧
    (E u v = E u' v' ↔ Gen.body_log_squared_euclidean_distance.evalR u v
        = Gen.body_log_squared_euclidean_distance.evalR u' v') := by
  rw [(c11_family_phi u v).2.2.2, (c11_family_phi u' v').2.2.2]
  exact c11_strictMonoOn_order c11_family_strictMono_4 (c11_family_nonneg u v) (c11_family_nonneg u' v')

/-- all four at once (`n > 0`, i.e. the samples have at least one feature; for `n = 0` every
distance is `0` and the first, third and fourth conjunct hold anyway). -/
theorem c11_family_order (hn : 0 < n) (u v u' v' : Fin n → ℝ) :
    ((E u v < E u' v' ↔ Gen.body_squared_euclidean_distance.evalR u v
        < Gen.body_squared_euclidean_distance.evalR u' v') ∧
     (E u v = E u' v' ↔ Gen.body_squared_euclidean_distance.evalR u v
        = Gen.body_squared_euclidean_distance.evalR u' v')) ∧
    ((E u v < E u' v' ↔ Gen.body_average_euclidean_distance.evalR u v
        < Gen.body_average_euclidean_distance.evalR u' v') ∧
     (E u v = E u' v' ↔ Gen.body_average_euclidean_distance.evalR u v
        = Gen.body_average_euclidean_distance.evalR u' v')) ∧
    ((E u v < E u' v' ↔ Gen.body_log_euclidean_distance.evalR u v
        < Gen.body_log_euclidean_distance.evalR u' v') ∧
     (E u v = E u' v' ↔ Gen.body_log_euclidean_distance.evalR u v
        = Gen.body_log_euclidean_distance.evalR u' v')) ∧
    ((E u v < E u' v' ↔ Gen.body_log_squared_euclidean_distance.evalR u v
        < Gen.body_log_squared_euclidean_distance.evalR u' v') ∧
     (E u v = E u' v' ↔ Gen.body_log_squared_euclidean_distance.evalR u v
        = Gen.body_log_squared_euclidean_distance.evalR u' v')) :=
  ⟨c11_family_order_squared u v u' v', c11_family_order_average hn u v u' v',
   c11_family_order_log u v u' v', c11_family_order_log_squared u v u' v'⟩

end Opf
