/-
C08 — "returns a finite number on its domain", real-number model: DEFINEDNESS of the 47 distance
bodies.  `Lemmas/ExprReal.lean` evaluates the generated terms with Lean's total operations
(`x / 0 = 0`, `Real.log` of a non-positive and `Real.sqrt` of a negative number are junk values).
Here: on the domain of the fixed axiom table (`TABLE` in `harness/axioms.py`) no metric ever
divides by zero, takes the logarithm of a non-positive number or the square root of a negative
number (`S.Defined`, `Lemmas/Defined.lean`), so the number `S.evalR` computes IS the mathematical
value of the numpy expression.  IEEE rounding / overflow is not modelled.

Hypotheses, on BOTH vectors: `real`: none; `nonneg`: `∀ i, 0 ≤ u i`; `pos` and `prob`: `∀ i, 0 < u i`
(the sum-to-one condition of `prob` is not needed for definedness); plus `hn : 0 < n` where a
denominator / logarithm argument is a sum over the coordinates or `x.shape[0]` — necessary, see
`c08_undefined_empty`.  A hypothesis bound as `_hu` / `_hv` is not used by the proof.
The table of extra hypotheses is at the end of the file.
-/
import OpfVerif.Lemmas.Defined
import OpfVerif.Gen.Distance
import Mathlib.Tactic.Positivity
import Mathlib.Tactic.Linarith
import Mathlib.Tactic.NormNum
import Mathlib.Algebra.Order.BigOperators.Ring.Finset
import Mathlib.Algebra.Order.BigOperators.Group.Finset
namespace Opf
open scoped BigOperators

set_option linter.unusedSimpArgs false

/-! ### scalar lemmas -/

private theorem litR_zero : litR 0 0 = 0 := by simp [litR]
private theorem litR_one : litR 1 0 = 1 := by simp [litR]
private theorem litR_two : litR 2 0 = 2 := by simp [litR]

private theorem sum_pos' {n : Nat} (hn : 0 < n) (f : Fin n → ℝ) (hf : ∀ i, 0 < f i) :
    0 < ∑ i, f i := by
  have : Nonempty (Fin n) := ⟨⟨0, hn⟩⟩
  exact Finset.sum_pos (fun i _ => hf i) Finset.univ_nonempty

private theorem sumsq_pos {n : Nat} (hn : 0 < n) (u : Fin n → ℝ) (hu : ∀ i, 0 < u i) :
    0 < ∑ i, u i ^ 2 := sum_pos' hn _ fun i => pow_pos (hu i) 2

private theorem sumsq_nonneg {n : Nat} (u : Fin n → ℝ) : 0 ≤ ∑ i, u i ^ 2 :=
  Finset.sum_nonneg fun _ _ => sq_nonneg _

private theorem sumsqsub_nonneg {n : Nat} (u v : Fin n → ℝ) : 0 ≤ ∑ i, (u i - v i) ^ 2 :=
  Finset.sum_nonneg fun _ _ => sq_nonneg _

private theorem natcast_ne_zero {n : Nat} (hn : 0 < n) : (n : ℝ) ≠ 0 :=
  Nat.cast_ne_zero.2 hn.ne'

/-- unfold the definedness judgement of a generated body down to its arithmetic side conditions. -/
local macro "unfold_defined" b:ident : tactic =>
  `(tactic| simp only [$b:ident, S.Defined, V.Defined, S.evalR, V.evalR, true_and, and_true,
      implies_true, litR_zero, litR_one, litR_two])

/-- coordinate-wise side conditions on the positive / non-negative orthant. -/
local macro "pointwise" hu:ident hv:ident : tactic =>
  `(tactic| (intro i; have hui := $hu i; have hvi := $hv i; and_intros <;> positivity))

theorem c08_defined_additive_symmetric {n : Nat} (u v : Fin n → ℝ)
    (hu : ∀ i, 0 < u i) (hv : ∀ i, 0 < v i) :
    Gen.body_additive_symmetric_distance.Defined u v := by
  unfold_defined Gen.body_additive_symmetric_distance
  pointwise hu hv

theorem c08_defined_average_euclidean {n : Nat} (u v : Fin n → ℝ) (hn : 0 < n) :
    Gen.body_average_euclidean_distance.Defined u v := by
  unfold_defined Gen.body_average_euclidean_distance
  exact ⟨natcast_ne_zero hn, div_nonneg (sumsqsub_nonneg u v) (Nat.cast_nonneg n)⟩

theorem c08_defined_bhattacharyya {n : Nat} (u v : Fin n → ℝ)
    (hu : ∀ i, 0 < u i) (hv : ∀ i, 0 < v i) (hn : 0 < n) :
    Gen.body_bhattacharyya_distance.Defined u v := by
  unfold_defined Gen.body_bhattacharyya_distance
  refine ⟨fun i => (mul_pos (hu i) (hv i)).le, sum_pos' hn _ fun i => ?_⟩
  exact Real.sqrt_pos.2 (mul_pos (hu i) (hv i))

theorem c08_defined_bray_curtis {n : Nat} (u v : Fin n → ℝ)
    (hu : ∀ i, 0 < u i) (hv : ∀ i, 0 < v i) (hn : 0 < n) :
    Gen.body_bray_curtis_distance.Defined u v := by
  unfold_defined Gen.body_bray_curtis_distance
  exact (sum_pos' hn _ fun i => add_pos (hu i) (hv i)).ne'

theorem c08_defined_canberra {n : Nat} (u v : Fin n → ℝ)
    (hu : ∀ i, 0 < u i) (hv : ∀ i, 0 < v i) :
    Gen.body_canberra_distance.Defined u v := by
  unfold_defined Gen.body_canberra_distance
  pointwise hu hv

theorem c08_defined_chebyshev {n : Nat} (u v : Fin n → ℝ) :
    Gen.body_chebyshev_distance.Defined u v := by
  unfold_defined Gen.body_chebyshev_distance

theorem c08_defined_chi_squared {n : Nat} (u v : Fin n → ℝ)
    (hu : ∀ i, 0 < u i) (hv : ∀ i, 0 < v i) :
    Gen.body_chi_squared_distance.Defined u v := by
  unfold_defined Gen.body_chi_squared_distance
  pointwise hu hv

theorem c08_defined_chord {n : Nat} (u v : Fin n → ℝ)
    (hu : ∀ i, 0 < u i) (hv : ∀ i, 0 < v i) (hn : 0 < n) :
    Gen.body_chord_distance.Defined u v := by
  unfold_defined Gen.body_chord_distance
  refine ⟨⟨⟨sumsq_nonneg u, sumsq_nonneg v⟩, ?_⟩, le_max_right _ _⟩
  exact (mul_pos (Real.sqrt_pos.2 (sumsq_pos hn u hu)) (Real.sqrt_pos.2 (sumsq_pos hn v hv))).ne'

theorem c08_defined_clark {n : Nat} (u v : Fin n → ℝ)
    (hu : ∀ i, 0 < u i) (hv : ∀ i, 0 < v i) :
    Gen.body_clark_distance.Defined u v := by
  unfold_defined Gen.body_clark_distance
  refine ⟨fun i => abs_ne_zero.2 (add_pos (hu i) (hv i)).ne', ?_⟩
  exact Finset.sum_nonneg fun i _ => sq_nonneg _

theorem c08_defined_cosine {n : Nat} (u v : Fin n → ℝ)
    (hu : ∀ i, 0 < u i) (hv : ∀ i, 0 < v i) (hn : 0 < n) :
    Gen.body_cosine_distance.Defined u v := by
  unfold_defined Gen.body_cosine_distance
  refine ⟨⟨sumsq_nonneg u, sumsq_nonneg v⟩, ?_⟩
  exact (mul_pos (Real.sqrt_pos.2 (sumsq_pos hn u hu)) (Real.sqrt_pos.2 (sumsq_pos hn v hv))).ne'

theorem c08_defined_dice {n : Nat} (u v : Fin n → ℝ)
    (hu : ∀ i, 0 < u i) (hv : ∀ i, 0 < v i) (hn : 0 < n) :
    Gen.body_dice_distance.Defined u v := by
  unfold_defined Gen.body_dice_distance
  exact (add_pos (sumsq_pos hn u hu) (sumsq_pos hn v hv)).ne'

theorem c08_defined_divergence {n : Nat} (u v : Fin n → ℝ)
    (hu : ∀ i, 0 < u i) (hv : ∀ i, 0 < v i) :
    Gen.body_divergence_distance.Defined u v := by
  unfold_defined Gen.body_divergence_distance
  pointwise hu hv

theorem c08_defined_euclidean {n : Nat} (u v : Fin n → ℝ) :
    Gen.body_euclidean_distance.Defined u v := by
  unfold_defined Gen.body_euclidean_distance
  exact sumsqsub_nonneg u v

theorem c08_defined_gaussian {n : Nat} (u v : Fin n → ℝ) :
    Gen.body_gaussian_distance.Defined u v := by
  unfold_defined Gen.body_gaussian_distance
  exact sumsqsub_nonneg u v

theorem c08_defined_gower {n : Nat} (u v : Fin n → ℝ) (hn : 0 < n) :
    Gen.body_gower_distance.Defined u v := by
  unfold_defined Gen.body_gower_distance
  exact natcast_ne_zero hn

theorem c08_defined_hamming {n : Nat} (u v : Fin n → ℝ) :
    Gen.body_hamming_distance.Defined u v := by
  unfold_defined Gen.body_hamming_distance

theorem c08_defined_hassanat {n : Nat} (u v : Fin n → ℝ) :
    Gen.body_hassanat_distance.Defined u v := by
  unfold_defined Gen.body_hassanat_distance
  intro i
  have hmM : min (u i) (v i) ≤ max (u i) (v i) := min_le_max
  refine ⟨fun h => ?_, fun h => ?_⟩
  · have : 0 < 1 + max (u i) (v i) := by linarith
    exact this.ne'
  · rw [not_le] at h
    rw [abs_of_neg h]
    have : 0 < 1 + max (u i) (v i) + -min (u i) (v i) := by linarith
    exact this.ne'

theorem c08_defined_hellinger {n : Nat} (u v : Fin n → ℝ)
    (hu : ∀ i, 0 ≤ u i) (hv : ∀ i, 0 ≤ v i) :
    Gen.body_hellinger_distance.Defined u v := by
  unfold_defined Gen.body_hellinger_distance
  refine ⟨fun i => ⟨hu i, hv i⟩, ?_⟩
  exact Finset.sum_nonneg fun i _ => mul_nonneg zero_le_two (sq_nonneg _)

theorem c08_defined_jaccard {n : Nat} (u v : Fin n → ℝ)
    (hu : ∀ i, 0 < u i) (hv : ∀ i, 0 < v i) (hn : 0 < n) :
    Gen.body_jaccard_distance.Defined u v := by
  unfold_defined Gen.body_jaccard_distance
  have h : 2 * ∑ i, u i * v i ≤ ∑ i, u i ^ 2 + ∑ i, v i ^ 2 := by
    rw [← Finset.sum_add_distrib, Finset.mul_sum]
    exact Finset.sum_le_sum fun i _ => by nlinarith [sq_nonneg (u i - v i)]
  have hp := add_pos (sumsq_pos hn u hu) (sumsq_pos hn v hv)
  have : 0 < ∑ i, u i ^ 2 + ∑ i, v i ^ 2 - ∑ i, u i * v i := by linarith
  exact this.ne'

theorem c08_defined_jeffreys {n : Nat} (u v : Fin n → ℝ)
    (hu : ∀ i, 0 < u i) (hv : ∀ i, 0 < v i) :
    Gen.body_jeffreys_distance.Defined u v := by
  unfold_defined Gen.body_jeffreys_distance
  pointwise hu hv

theorem c08_defined_jensen {n : Nat} (u v : Fin n → ℝ)
    (hu : ∀ i, 0 < u i) (hv : ∀ i, 0 < v i) :
    Gen.body_jensen_distance.Defined u v := by
  unfold_defined Gen.body_jensen_distance
  pointwise hu hv

theorem c08_defined_jensen_shannon {n : Nat} (u v : Fin n → ℝ)
    (hu : ∀ i, 0 < u i) (hv : ∀ i, 0 < v i) :
    Gen.body_jensen_shannon_distance.Defined u v := by
  unfold_defined Gen.body_jensen_shannon_distance
  constructor <;> pointwise hu hv

theorem c08_defined_k_divergence {n : Nat} (u v : Fin n → ℝ)
    (hu : ∀ i, 0 < u i) (hv : ∀ i, 0 < v i) :
    Gen.body_k_divergence_distance.Defined u v := by
  unfold_defined Gen.body_k_divergence_distance
  pointwise hu hv

theorem c08_defined_kulczynski {n : Nat} (u v : Fin n → ℝ)
    (hu : ∀ i, 0 < u i) (hv : ∀ i, 0 < v i) (hn : 0 < n) :
    Gen.body_kulczynski_distance.Defined u v := by
  unfold_defined Gen.body_kulczynski_distance
  exact (sum_pos' hn _ fun i => lt_min (hu i) (hv i)).ne'

theorem c08_defined_kullback_leibler {n : Nat} (u v : Fin n → ℝ)
    (hu : ∀ i, 0 < u i) (hv : ∀ i, 0 < v i) :
    Gen.body_kullback_leibler_distance.Defined u v := by
  unfold_defined Gen.body_kullback_leibler_distance
  pointwise hu hv

theorem c08_defined_log_euclidean {n : Nat} (u v : Fin n → ℝ) :
    Gen.body_log_euclidean_distance.Defined u v := by
  unfold_defined Gen.body_log_euclidean_distance
  refine ⟨sumsqsub_nonneg u v, ?_⟩
  linarith [Real.sqrt_nonneg (∑ i, (u i - v i) ^ 2)]

theorem c08_defined_log_squared_euclidean {n : Nat} (u v : Fin n → ℝ) :
    Gen.body_log_squared_euclidean_distance.Defined u v := by
  unfold_defined Gen.body_log_squared_euclidean_distance
  linarith [sumsqsub_nonneg u v]

theorem c08_defined_lorentzian {n : Nat} (u v : Fin n → ℝ) :
    Gen.body_lorentzian_distance.Defined u v := by
  unfold_defined Gen.body_lorentzian_distance
  intro i
  linarith [abs_nonneg (u i - v i)]

theorem c08_defined_manhattan {n : Nat} (u v : Fin n → ℝ) :
    Gen.body_manhattan_distance.Defined u v := by
  unfold_defined Gen.body_manhattan_distance

theorem c08_defined_matusita {n : Nat} (u v : Fin n → ℝ)
    (hu : ∀ i, 0 ≤ u i) (hv : ∀ i, 0 ≤ v i) :
    Gen.body_matusita_distance.Defined u v := by
  unfold_defined Gen.body_matusita_distance
  refine ⟨fun i => ⟨hu i, hv i⟩, ?_⟩
  exact Finset.sum_nonneg fun i _ => sq_nonneg _

theorem c08_defined_max_symmetric {n : Nat} (u v : Fin n → ℝ)
    (hu : ∀ i, 0 < u i) (hv : ∀ i, 0 < v i) :
    Gen.body_max_symmetric_distance.Defined u v := by
  unfold_defined Gen.body_max_symmetric_distance
  exact ⟨fun i => (hu i).ne', fun i => (hv i).ne'⟩

theorem c08_defined_mean_censored_euclidean {n : Nat} (u v : Fin n → ℝ)
    (hu : ∀ i, 0 < u i) (hv : ∀ i, 0 < v i) (hn : 0 < n) :
    Gen.body_mean_censored_euclidean_distance.Defined u v := by
  unfold_defined Gen.body_mean_censored_euclidean_distance
  have hind : ∀ i, (if u i + v i ≠ 0 then (1 : ℝ) else 0) = 1 := fun i =>
    if_pos (add_pos (hu i) (hv i)).ne'
  have hcount : 0 < ∑ i : Fin n, (if u i + v i ≠ 0 then (1 : ℝ) else 0) :=
    sum_pos' hn _ fun i => by rw [hind i]; exact one_pos
  exact ⟨hcount.ne', div_nonneg (sumsqsub_nonneg u v) hcount.le⟩

theorem c08_defined_min_symmetric {n : Nat} (u v : Fin n → ℝ)
    (hu : ∀ i, 0 < u i) (hv : ∀ i, 0 < v i) :
    Gen.body_min_symmetric_distance.Defined u v := by
  unfold_defined Gen.body_min_symmetric_distance
  exact ⟨fun i => (hu i).ne', fun i => (hv i).ne'⟩

theorem c08_defined_neyman {n : Nat} (u v : Fin n → ℝ)
    (hu : ∀ i, 0 < u i) (_hv : ∀ i, 0 < v i) :
    Gen.body_neyman_distance.Defined u v := by
  unfold_defined Gen.body_neyman_distance
  exact fun i => (hu i).ne'

theorem c08_defined_non_intersection {n : Nat} (u v : Fin n → ℝ) :
    Gen.body_non_intersection_distance.Defined u v := by
  unfold_defined Gen.body_non_intersection_distance

theorem c08_defined_pearson {n : Nat} (u v : Fin n → ℝ)
    (_hu : ∀ i, 0 < u i) (hv : ∀ i, 0 < v i) :
    Gen.body_pearson_distance.Defined u v := by
  unfold_defined Gen.body_pearson_distance
  exact fun i => (hv i).ne'

theorem c08_defined_sangvi {n : Nat} (u v : Fin n → ℝ)
    (hu : ∀ i, 0 < u i) (hv : ∀ i, 0 < v i) :
    Gen.body_sangvi_distance.Defined u v := by
  unfold_defined Gen.body_sangvi_distance
  pointwise hu hv

theorem c08_defined_soergel {n : Nat} (u v : Fin n → ℝ)
    (hu : ∀ i, 0 < u i) (_hv : ∀ i, 0 < v i) (hn : 0 < n) :
    Gen.body_soergel_distance.Defined u v := by
  unfold_defined Gen.body_soergel_distance
  exact (sum_pos' hn _ fun i => lt_max_of_lt_left (hu i)).ne'

theorem c08_defined_squared {n : Nat} (u v : Fin n → ℝ)
    (hu : ∀ i, 0 < u i) (hv : ∀ i, 0 < v i) :
    Gen.body_squared_distance.Defined u v := by
  unfold_defined Gen.body_squared_distance
  pointwise hu hv

theorem c08_defined_squared_chord {n : Nat} (u v : Fin n → ℝ)
    (hu : ∀ i, 0 ≤ u i) (hv : ∀ i, 0 ≤ v i) :
    Gen.body_squared_chord_distance.Defined u v := by
  unfold_defined Gen.body_squared_chord_distance
  exact fun i => ⟨hu i, hv i⟩

theorem c08_defined_squared_euclidean {n : Nat} (u v : Fin n → ℝ) :
    Gen.body_squared_euclidean_distance.Defined u v := by
  unfold_defined Gen.body_squared_euclidean_distance

theorem c08_defined_statistic {n : Nat} (u v : Fin n → ℝ)
    (hu : ∀ i, 0 < u i) (hv : ∀ i, 0 < v i) :
    Gen.body_statistic_distance.Defined u v := by
  unfold_defined Gen.body_statistic_distance
  pointwise hu hv

theorem c08_defined_topsoe {n : Nat} (u v : Fin n → ℝ)
    (hu : ∀ i, 0 < u i) (hv : ∀ i, 0 < v i) :
    Gen.body_topsoe_distance.Defined u v := by
  unfold_defined Gen.body_topsoe_distance
  constructor <;> pointwise hu hv

theorem c08_defined_vicis_symmetric1 {n : Nat} (u v : Fin n → ℝ)
    (hu : ∀ i, 0 < u i) (hv : ∀ i, 0 < v i) :
    Gen.body_vicis_symmetric1_distance.Defined u v := by
  unfold_defined Gen.body_vicis_symmetric1_distance
  pointwise hu hv

theorem c08_defined_vicis_symmetric2 {n : Nat} (u v : Fin n → ℝ)
    (hu : ∀ i, 0 < u i) (hv : ∀ i, 0 < v i) :
    Gen.body_vicis_symmetric2_distance.Defined u v := by
  unfold_defined Gen.body_vicis_symmetric2_distance
  pointwise hu hv

theorem c08_defined_vicis_symmetric3 {n : Nat} (u v : Fin n → ℝ)
    (hu : ∀ i, 0 < u i) (hv : ∀ i, 0 < v i) :
    Gen.body_vicis_symmetric3_distance.Defined u v := by
  unfold_defined Gen.body_vicis_symmetric3_distance
  pointwise hu hv

theorem c08_defined_vicis_wave_hedges {n : Nat} (u v : Fin n → ℝ)
    (hu : ∀ i, 0 < u i) (hv : ∀ i, 0 < v i) :
    Gen.body_vicis_wave_hedges_distance.Defined u v := by
  unfold_defined Gen.body_vicis_wave_hedges_distance
  pointwise hu hv

/-- on the `prob` domain of the table (`0 < u i`, `∑ u = 1`) the extra `0 < n` is automatic. -/
theorem c08_defined_bhattacharyya_prob {n : Nat} (u v : Fin n → ℝ)
    (hu : (∀ i, 0 < u i) ∧ ∑ i, u i = 1) (hv : (∀ i, 0 < v i) ∧ ∑ i, v i = 1) :
    Gen.body_bhattacharyya_distance.Defined u v := by
  rcases Nat.eq_zero_or_pos n with rfl | hn
  · have := hu.2
    simp at this
  · exact c08_defined_bhattacharyya u v hu.1 hv.1 hn

/-! ### the extra hypothesis `0 < n` is necessary: on empty vectors the denominator (resp. the
argument of the logarithm) is an empty sum, i.e. `0` -/

theorem c08_undefined_empty (u v : Fin 0 → ℝ) :
    ¬ Gen.body_average_euclidean_distance.Defined u v ∧
    ¬ Gen.body_bhattacharyya_distance.Defined u v ∧
    ¬ Gen.body_bray_curtis_distance.Defined u v ∧
    ¬ Gen.body_chord_distance.Defined u v ∧
    ¬ Gen.body_cosine_distance.Defined u v ∧
    ¬ Gen.body_dice_distance.Defined u v ∧
    ¬ Gen.body_gower_distance.Defined u v ∧
    ¬ Gen.body_jaccard_distance.Defined u v ∧
    ¬ Gen.body_kulczynski_distance.Defined u v ∧
    ¬ Gen.body_mean_censored_euclidean_distance.Defined u v ∧
    ¬ Gen.body_soergel_distance.Defined u v := by
  simp [Gen.body_average_euclidean_distance, Gen.body_bhattacharyya_distance,
    Gen.body_bray_curtis_distance, Gen.body_chord_distance, Gen.body_cosine_distance,
    Gen.body_dice_distance, Gen.body_gower_distance, Gen.body_jaccard_distance,
    Gen.body_kulczynski_distance, Gen.body_mean_censored_euclidean_distance,
    Gen.body_soergel_distance, S.Defined, V.Defined, S.evalR, V.evalR]

end Opf

/-
Extra hypotheses beyond the domain of the table (domain hypotheses are on both vectors):

identifier               domain  extra     side conditions discharged
additive_symmetric       pos     —         u·v ≠ 0
average_euclidean        real    0 < n     n ≠ 0, radicand ≥ 0
bhattacharyya            prob    0 < n     u·v ≥ 0, Σ√(u·v) > 0     (0 < n follows from Σu = 1: `_prob` variant)
bray_curtis              pos     0 < n     Σ(u+v) ≠ 0
canberra                 pos     —         |u|+|v| ≠ 0
chebyshev                real    —         (none)
chi_squared              pos     —         u+v ≠ 0
chord                    pos     0 < n     Σu², Σv² ≥ 0, √Σu²·√Σv² ≠ 0, max(·,0) ≥ 0
clark                    pos     —         |u+v| ≠ 0, radicand ≥ 0
cosine                   pos     0 < n     Σu², Σv² ≥ 0, √Σu²·√Σv² ≠ 0
dice                     pos     0 < n     Σu²+Σv² ≠ 0
divergence               pos     —         (u+v)² ≠ 0
euclidean                real    —         radicand ≥ 0
gaussian                 real    —         radicand ≥ 0
gower                    real    0 < n     n ≠ 0
hamming                  real    —         (none)
hassanat                 real    —         selected branch: 1+max ≠ 0 resp. 1+max+|min| ≠ 0
hellinger                nonneg  —         u, v ≥ 0, radicand ≥ 0
jaccard                  pos     0 < n     Σu²+Σv²−Σuv ≠ 0
jeffreys                 pos     —         v ≠ 0, u/v > 0
jensen                   pos     —         u, v > 0, 2 ≠ 0, (u+v)/2 > 0
jensen_shannon           pos     —         u+v ≠ 0, 2u/(u+v) > 0, 2v/(u+v) > 0
k_divergence             prob    —         u+v ≠ 0, 2u/(u+v) > 0
kulczynski               pos     0 < n     Σmin(u,v) ≠ 0
kullback_leibler         prob    —         v ≠ 0, u/v > 0
log_euclidean            real    —         radicand ≥ 0, √·+1 > 0
log_squared_euclidean    real    —         Σ(u−v)²+1 > 0
lorentzian               real    —         1+|u−v| > 0
manhattan                real    —         (none)
matusita                 nonneg  —         u, v ≥ 0, radicand ≥ 0
max_symmetric            pos     —         u ≠ 0, v ≠ 0
mean_censored_euclidean  pos     0 < n     count(u+v ≠ 0) = n ≠ 0, radicand ≥ 0
min_symmetric            pos     —         u ≠ 0, v ≠ 0
neyman                   pos     —         u ≠ 0                    (positivity of v unused)
non_intersection         real    —         (none)
pearson                  pos     —         v ≠ 0                    (positivity of u unused)
sangvi                   pos     —         u+v ≠ 0
soergel                  pos     0 < n     Σmax(u,v) ≠ 0            (positivity of v unused)
squared                  pos     —         u+v ≠ 0
squared_chord            nonneg  —         u, v ≥ 0
squared_euclidean        real    —         (none)
statistic                pos     —         2 ≠ 0, (u+v)/2 ≠ 0
topsoe                   pos     —         u+v ≠ 0, 2u/(u+v) > 0, 2v/(u+v) > 0
vicis_symmetric1         pos     —         min(u,v)² ≠ 0
vicis_symmetric2         pos     —         min(u,v) ≠ 0
vicis_symmetric3         pos     —         max(u,v) ≠ 0
vicis_wave_hedges        pos     —         min(u,v) ≠ 0

No identifier is undefined somewhere on its table domain once `0 < n` is granted; `0 < n` is
needed exactly for the 11 identifiers marked above (`c08_undefined_empty`).
-/
