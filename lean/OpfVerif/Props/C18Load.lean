/-
C18 — `Subgraph(from_file=…)`: the dispatch by file extension in `Subgraph._load` (`Gen/LoadImp.lean`, regenerated from
`opfython/core/subgraph.py` on every run by `tools/translate_conv.py`) against the writers of `opfython/utils/converter.py`
(`Gen/ConvImp.lean`): the file each converter writes under its DEFAULT name is handed to the loader that reads that format
(same delimiter, `ndmin = 2`, same JSON key), every other extension raises, and what the loader returns goes through
`parse_loader` and nothing else.  Together with `Props/C18ConvRefine` (what the converters decode, what `load_json` rebuilds)
and `Props/C18ParseRefine` (what `parse_loader` returns) this is the chain binary file → text/JSON file → `Subgraph` of the
property, up to the library round trips `np.savetxt`/`np.loadtxt`, `json.dump`/`json.load` (DESIGN §6; sampled by `stream`).
-/
import OpfVerif.Gen.LoadImp
import OpfVerif.Props.C18ConvRefine
namespace Opf.C18Load
open Opf Opf.Gen

/-- the `if … elif … else` chain: the first matching extension wins. -/
def loaderFor (ext : String) : Option String := (LoadImp.dispatch.find? (fun p => p.1 == ext)).map (·.2)

theorem c18_gen_dispatch_table :
    LoadImp.dispatch = [("csv", "load_csv"), ("txt", "load_txt"), ("json", "load_json")] ∧ LoadImp.else_raises = true ∧
    LoadImp.extension_expr = "PATH.split('.')[-1]" := by
  refine ⟨?_, ?_, ?_⟩ <;> decide +kernel

theorem c18_gen_dispatch :
    loaderFor "txt" = some "load_txt" ∧ loaderFor "csv" = some "load_csv" ∧ loaderFor "json" = some "load_json" := by
  refine ⟨?_, ?_, ?_⟩ <;> decide +kernel

/-- every other extension raises (`ArgumentError`): no silent fallback to some loader. -/
theorem c18_gen_dispatch_else (ext : String) (h1 : ext ≠ "csv") (h2 : ext ≠ "txt") (h3 : ext ≠ "json") :
    loaderFor ext = none ∧ LoadImp.else_raises = true := by
  refine ⟨?_, by decide⟩
  have hd : LoadImp.dispatch = [("csv", "load_csv"), ("txt", "load_txt"), ("json", "load_json")] := by decide +kernel
  have e1 : ("csv" == ext) = false := by simpa [beq_eq_false_iff_ne] using fun h => h1 h.symm
  have e2 : ("txt" == ext) = false := by simpa [beq_eq_false_iff_ne] using fun h => h2 h.symm
  have e3 : ("json" == ext) = false := by simpa [beq_eq_false_iff_ne] using fun h => h3 h.symm
  simp [loaderFor, hd, List.find?, e1, e2, e3]

/-- writer / reader pairing: the default output of each converter reaches the loader of its own format, which reads with the
delimiter (or key) the converter wrote with. -/
theorem c18_gen_writer_reader_pairing :
    (loaderFor (ConvImp.opf2txt_ext.drop 1).toString = some "load_txt" ∧ ConvImp.opf2txt_delim = LoaderKw.load_txt_delim) ∧
    (loaderFor (ConvImp.opf2csv_ext.drop 1).toString = some "load_csv" ∧ ConvImp.opf2csv_delim = LoaderKw.load_csv_delim) ∧
    (loaderFor (ConvImp.opf2json_ext.drop 1).toString = some "load_json" ∧ ConvImp.opf2json_top_key = ConvImp.load_json_top_key) := by
  refine ⟨⟨?_, ?_⟩, ⟨?_, ?_⟩, ⟨?_, ?_⟩⟩ <;> decide +kernel

/-- after the dispatch: one call of `parse_loader` on what the loader returned, whose pair is returned unchanged. -/
theorem c18_gen_load_after : LoadImp.after = "X, Y = p.parse_loader(DATA)\nreturn (X, Y)" := by decide +kernel

end Opf.C18Load
