/-
C12 — the k-nearest insertion scan and `create_arcs` (subgraphs/knn.py), on the executable model
`OpfVerif/Model/Knn.lean` against the reference `kNearest` of `OpfVerif/Model/KnnSpec.lean`.
Property theorems only; the proofs live in `OpfVerif/Lemmas/Scan.lean`.
-/
import OpfVerif.Lemmas.Scan
namespace Opf

/-! ### 1. the scan -/

/-- The first `k` slots that hold a real candidate are exactly the `k` nearest candidates, in
ascending distance, ties by scan position. (Holds for `k = 0` too; `_hk` is not used.) -/
theorem c12_scan (k : Nat) (_hk : 0 < k) (top : Int) (dist : Nat → Int) (cands : List Nat)
    (hlt : ∀ j, j ∈ cands → dist j < top) :
    validSlots k top (scan k top dist cands) = kNearest k dist cands :=
  validSlots_scan k top dist cands hlt

/-- The buffer itself: `k+1` slots, the first `k` being the stable sort of the candidates padded
with the sentinel `(top, 0)`; slot `k` is scratch. -/
theorem c12_scan_buffer (k : Nat) (top : Int) (dist : Nat → Int) (cands : List Nat)
    (hlt : ∀ j, j ∈ cands → dist j < top) :
    (scan k top dist cands).size = k + 1 ∧
      (scan k top dist cands).toList.take k =
        (stableSort dist cands ++ List.replicate k (top, 0)).take k :=
  scan_inv k top dist cands hlt

/-! ### 2. corollaries -/

theorem c12_scan_length (k : Nat) (hk : 0 < k) (top : Int) (dist : Nat → Int) (cands : List Nat)
    (hlt : ∀ j, j ∈ cands → dist j < top) :
    (validSlots k top (scan k top dist cands)).length = min k cands.length := by
  rw [c12_scan k hk top dist cands hlt, length_kNearest]

theorem c12_scan_sorted (k : Nat) (hk : 0 < k) (top : Int) (dist : Nat → Int) (cands : List Nat)
    (hlt : ∀ j, j ∈ cands → dist j < top) :
    ((validSlots k top (scan k top dist cands)).map (·.1)).Pairwise (· ≤ ·) := by
  rw [c12_scan k hk top dist cands hlt]
  exact sorted_kNearest k dist cands

theorem c12_scan_mem (k : Nat) (hk : 0 < k) (top : Int) (dist : Nat → Int) (cands : List Nat)
    (hlt : ∀ j, j ∈ cands → dist j < top) :
    ∀ s ∈ validSlots k top (scan k top dist cands), s.2 ∈ cands ∧ s.1 = dist s.2 := by
  rw [c12_scan k hk top dist cands hlt]
  intro s hs
  exact mem_kNearest hs

theorem c12_scan_nodup (k : Nat) (hk : 0 < k) (top : Int) (dist : Nat → Int) (cands : List Nat)
    (hlt : ∀ j, j ∈ cands → dist j < top) :
    cands.Nodup → ((validSlots k top (scan k top dist cands)).map (·.2)).Nodup := by
  rw [c12_scan k hk top dist cands hlt]
  exact nodup_kNearest k dist cands

/-- every candidate left out is at least as far as every neighbour kept (`Nodup` is not needed). -/
theorem c12_scan_smallest (k : Nat) (hk : 0 < k) (top : Int) (dist : Nat → Int) (cands : List Nat)
    (hlt : ∀ j, j ∈ cands → dist j < top) :
    cands.Nodup → ∀ j ∈ cands, j ∉ (validSlots k top (scan k top dist cands)).map (·.2) →
      ∀ s ∈ validSlots k top (scan k top dist cands), s.1 ≤ dist j := by
  rw [c12_scan k hk top dist cands hlt]
  intro _ j hj hnot
  exact kNearest_smallest k dist cands j hj hnot

/-! ### 3. `create_arcs` on an arbitrary (fresh or re-used) subgraph -/

section CreateArcs
variable (w : Nat → Nat → Int) (top tiny one : Int) (k : Nat) (g : KnnSub)
  (hw : ∀ i j, w i j < top)
  (h1 : g.adj.size = g.n) (h2 : g.radius.size = g.n) (h3 : g.nplat.size = g.n)
include hw h1 h2 h3

theorem c12_sizes :
    (createArcs w top tiny one k g).1.n = g.n ∧
    (createArcs w top tiny one k g).1.adj.size = g.n ∧
    (createArcs w top tiny one k g).1.radius.size = g.n ∧
    (createArcs w top tiny one k g).1.nplat.size = g.n := by
  have inv := arcs_inv w top k hw g h1 h2 h3 g.n (Nat.le_refl _)
  exact ⟨inv.n, inv.adj_size.trans h1, inv.radius_size.trans h2, inv.nplat_size.trans h3⟩

/-- new arcs are PREPENDED, nearest first, to whatever the list held. -/
theorem c12_adjacency : ∀ i, i < g.n →
    (createArcs w top tiny one k g).1.adj.getD i [] =
      (kNearest k (w i) ((List.range g.n).filter (· ≠ i))).map (·.2) ++ g.adj.getD i [] := by
  intro i hi
  have inv := arcs_inv w top k hw g h1 h2 h3 g.n (Nat.le_refl _)
  have := inv.adj i
  rw [if_pos hi] at this
  exact this

/-- radius = largest neighbour distance (0 when there is no neighbour). -/
theorem c12_radius : ∀ i, i < g.n →
    (createArcs w top tiny one k g).1.radius.getD i 0 =
      ((kNearest k (w i) ((List.range g.n).filter (· ≠ i))).map (·.1)).foldl max 0 := by
  intro i hi
  have inv := arcs_inv w top k hw g h1 h2 h3 g.n (Nat.le_refl _)
  have := inv.radius i
  rw [if_pos hi] at this
  exact this

theorem c12_nplat : ∀ i, i < g.n → (createArcs w top tiny one k g).1.nplat.getD i 0 = 0 := by
  intro i hi
  have inv := arcs_inv w top k hw g h1 h2 h3 g.n (Nat.le_refl _)
  have := inv.nplat i
  rw [if_pos hi] at this
  exact this

/-- `max_distances[l]` = maximum over all samples of the distance to their `l`-th neighbour
(0 for samples with fewer than `l+1` neighbours); no sign hypothesis needed. -/
theorem c12_rank_maxima :
    (createArcs w top tiny one k g).2.size = k ∧
    ∀ l, l < k → (createArcs w top tiny one k g).2.getD l 0 =
      ((List.range g.n).map (fun i =>
        ((kNearest k (w i) ((List.range g.n).filter (· ≠ i))).map (·.1)).getD l 0)).foldl max 0 := by
  have inv := arcs_inv w top k hw g h1 h2 h3 g.n (Nat.le_refl _)
  exact ⟨inv.maxd_size, inv.maxd⟩

/-- running maximum of all arc distances starting from the PRIOR bound, `one` when below `tiny`. -/
theorem c12_bound :
    (createArcs w top tiny one k g).1.bound =
      (let b := ((List.range g.n).flatMap (fun i =>
          (kNearest k (w i) ((List.range g.n).filter (· ≠ i))).map (·.1))).foldl max g.bound
       if b < tiny then one else b) := by
  have inv := arcs_inv w top k hw g h1 h2 h3 g.n (Nat.le_refl _)
  have hb := inv.bound
  unfold createArcs
  simp only []
  rw [hb]
  rfl

end CreateArcs

/-- the running maximum `foldl max a l` is the least upper bound of `a :: l`, attained. -/
theorem c12_foldl_max_spec (a : Int) (l : List Int) :
    a ≤ l.foldl max a ∧ (∀ x ∈ l, x ≤ l.foldl max a) ∧ (l.foldl max a = a ∨ l.foldl max a ∈ l) :=
  ⟨foldl_max_ge l a, foldl_max_mem_le l a, foldl_max_attained l a⟩

/-- on a fresh subgraph the adjacency list of `i` is exactly its `min k (n-1)` nearest other samples. -/
theorem c12_adjacency_fresh (w : Nat → Nat → Int) (top tiny one : Int) (k n : Nat)
    (hw : ∀ i j, w i j < top) : ∀ i, i < n →
    (createArcs w top tiny one k (KnnSub.fresh n)).1.adj.getD i [] =
        (kNearest k (w i) ((List.range n).filter (· ≠ i))).map (·.2) ∧
    ((createArcs w top tiny one k (KnnSub.fresh n)).1.adj.getD i []).length = min k (n - 1) := by
  intro i hi
  have h := c12_adjacency w top tiny one k (KnnSub.fresh n) hw (by simp [KnnSub.fresh])
    (by simp [KnnSub.fresh]) (by simp [KnnSub.fresh]) i hi
  have h0 : (KnnSub.fresh n).adj.getD i [] = [] := by
    simp [KnnSub.fresh, Array.getD_eq_getD_getElem?, hi]
  rw [h0, List.append_nil] at h
  have hn : (KnnSub.fresh n).n = n := rfl
  rw [hn] at h
  refine ⟨h, ?_⟩
  rw [h, List.length_map, length_kNearest]
  have hlen : ((List.range n).filter (· ≠ i)).length = n - 1 := by
    have he := List.Nodup.erase_eq_filter (List.nodup_range (n := n)) i
    have : ((List.range n).filter (· ≠ i)) = (List.range n).erase i := by
      rw [he]; congr 1; funext x; simp [bne]; rfl
    rw [this, List.length_erase_of_mem (List.mem_range.mpr hi), List.length_range]
  rw [hlen]

/-! ### 5. non-vacuity -/

/-- five candidates with tied distances `5,3,5,3,1`, `k = 2`: candidate 1 wins the tie with 3
(scan order); slot 2 is scratch. -/
example : scan 2 100 (fun j => [5, 3, 5, 3, 1].getD j 0) [0, 1, 2, 3, 4] = #[(1, 4), (3, 1), (3, 3)] := by
  decide

example : validSlots 2 100 (scan 2 100 (fun j => [5, 3, 5, 3, 1].getD j 0) [0, 1, 2, 3, 4])
    = [(1, 4), (3, 1)] := by decide

example : kNearest 2 (fun j => [5, 3, 5, 3, 1].getD j 0) [0, 1, 2, 3, 4] = [(1, 4), (3, 1)] := by decide

/-- all-tied prefix: the earliest candidates stay. -/
example : scan 2 100 (fun j => [4, 2, 2, 2, 4].getD j 0) [0, 1, 2, 3, 4] = #[(2, 1), (2, 2), (4, 4)] := by
  decide

/-- fewer candidates than slots: the sentinel padding remains and is filtered out. -/
example : scan 3 100 (fun j => [7, 6].getD j 0) [0, 1] = #[(6, 1), (7, 0), (100, 0), (100, 0)]
    ∧ validSlots 3 100 (scan 3 100 (fun j => [7, 6].getD j 0) [0, 1]) = [(6, 1), (7, 0)] := by
  decide

/-- the 4-node matrix used below. -/
def c12ExampleW : Nat → Nat → Int :=
  fun i j => ([[0, 3, 1, 3], [3, 0, 2, 2], [1, 2, 0, 5], [3, 2, 5, 0]].getD i []).getD j 0

/-- `create_arcs(2)` on a fresh 4-node subgraph (`tiny = 1`, `one = 10`). -/
example :
    let r := createArcs c12ExampleW 100 1 10 2 (KnnSub.fresh 4)
    r.1.adj = #[[2, 1], [2, 3], [0, 1], [1, 0]] ∧ r.1.radius = #[3, 2, 2, 3] ∧
      r.1.nplat = #[0, 0, 0, 0] ∧ r.1.bound = 3 ∧ r.2 = #[2, 3] := by
  decide

/-- the same call on a RE-USED subgraph: arcs are prepended, the bound starts from the prior one. -/
example :
    let r := createArcs c12ExampleW 100 1 10 2
      { n := 4, adj := #[[9], [], [8, 7], []], radius := #[50, 50, 50, 50], nplat := #[3, 3, 3, 3], bound := 4 }
    r.1.adj = #[[2, 1, 9], [2, 3], [0, 1, 8, 7], [1, 0]] ∧ r.1.radius = #[3, 2, 2, 3] ∧
      r.1.nplat = #[0, 0, 0, 0] ∧ r.1.bound = 4 ∧ r.2 = #[2, 3] := by
  decide

end Opf
