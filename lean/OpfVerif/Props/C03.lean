/-
C03 — supervised prediction equals the exhaustive minimum of max(cost, distance).

About the model `Opf.predictOne` (L3) of `SupervisedOPF.predict` (supervised.py:191-244, shared by
the semi-supervised classifier).  `d t` is the distance between training node `t` and the query.
The only hypothesis on the fitted forest is that its conquest order is sorted by cost — which
C01 (`c01_order`) establishes for every fitted forest.
-/
import OpfVerif.Lemmas.Predict
namespace Opf

/-- the value found by the scan is the minimum of `max (cost t) (d t)` over **all** nodes of the
conquest order (the early exit loses nothing), it is attained by the returned conqueror, and the
returned label is that conqueror's assigned label. -/
theorem c03_min (f : Forest) (d : Nat → Int) (hs : OrderSorted f) (r : PredAcc)
    (hr : predictOne f d = some r) :
    (∀ t, t ∈ f.order.toList → r.minCost ≤ max (f.costOf t) (d t)) ∧
    (r.conq ∈ f.order.toList ∧ r.minCost = max (f.costOf r.conq) (d r.conq) ∧
      r.label = f.plabelOf r.conq) := predictOne_min f d hs r hr

/-- "never returns a label that the exhaustive scan over every training sample could not return":
when the order lists every node `< n`, the returned label belongs to an exhaustive minimiser. -/
theorem c03_label_exhaustive (f : Forest) (d : Nat → Int) (hs : OrderSorted f)
    (hall : ∀ t, t < f.n → t ∈ f.order.toList) (r : PredAcc) (hr : predictOne f d = some r) :
    ∃ t, t ∈ f.order.toList ∧ r.label = f.plabelOf t ∧
      ∀ s, s < f.n → max (f.costOf t) (d t) ≤ max (f.costOf s) (d s) :=
  predictOne_exhaustive f d hs hall r hr

/-- the conqueror is the *first* minimiser in conquest order (ties go to the earlier node). -/
theorem c03_first (f : Forest) (d : Nat → Int) (hs : OrderSorted f) (r : PredAcc)
    (hr : predictOne f d = some r) (pre post : List Nat)
    (hsplit : f.order.toList = pre ++ r.conq :: post) (hnd : f.order.toList.Nodup) :
    ∀ t, t ∈ pre → r.minCost < max (f.costOf t) (d t) := predictOne_first f d hs r hr pre post hsplit hnd

/-- the scan fails only on an empty conquest order (untrained / single-class model). -/
theorem c03_none_iff (f : Forest) (d : Nat → Int) :
    predictOne f d = none ↔ f.order.toList = [] := predictOne_none_iff f d

/-- non-vacuity: a 4-node forest with tied costs; the early exit is taken. -/
example :
    let f : Forest := { n := 4, pred := #[none, some 0, none, some 2], proto := #[true, false, true, false],
                        ncost := #[0, 3, 0, 3], plabel := #[0, 0, 1, 1], label := #[0, 0, 1, 1],
                        order := #[0, 2, 1, 3], relevant := #[false, false, false, false] }
    OrderSorted f ∧ (predictOne f (fun t => [2, 5, 2, 1].getD t 0)).map (fun r => (r.minCost, r.conq, r.label)) = some (2, 0, 0) := by
  decide

end Opf
