/-
C08 — axiom table, part 2 (C): symmetry of the 42 distance bodies marked symmetric.
No domain hypothesis: the expressions are symmetric up to commutativity of `+ * min max`,
`|a - b| = |b - a|`, `(a - b)² = (b - a)²` and `log (b / a) = -log (a / b)` (Jeffreys).
-/
import OpfVerif.Lemmas.ExprReal
import OpfVerif.Gen.Distance
import Mathlib.Tactic.Ring
import Mathlib.Tactic.Linarith
import Mathlib.Tactic.NormNum
import Mathlib.Tactic.FinCases
namespace Opf
open scoped BigOperators

/-- normalise every commutative pattern in which `v` comes first into the one with `u` first. -/
local macro "symm_norm" u:ident v:ident : tactic => `(tactic|
  simp only [S.evalR, V.evalR, abs_sub_comm ($v _) ($u _), sub_sq_comm ($v _) ($u _),
    add_comm ($v _) ($u _), mul_comm ($v _) ($u _), min_comm ($v _) ($u _), max_comm ($v _) ($u _),
    add_comm |$v _| |$u _|, sub_sq_comm (Real.sqrt ($v _)) (Real.sqrt ($u _)),
    add_comm ($v _ * Real.log ($v _)) ($u _ * Real.log ($u _)), ne_comm (a := $v _) (b := $u _)])

theorem c08_symm_additive_symmetric {n : Nat} (u v : Fin n → ℝ) :
    Gen.body_additive_symmetric_distance.evalR u v = Gen.body_additive_symmetric_distance.evalR v u := by
  unfold Gen.body_additive_symmetric_distance
  symm_norm u v

theorem c08_symm_average_euclidean {n : Nat} (u v : Fin n → ℝ) :
    Gen.body_average_euclidean_distance.evalR u v = Gen.body_average_euclidean_distance.evalR v u := by
  unfold Gen.body_average_euclidean_distance
  symm_norm u v

theorem c08_symm_bhattacharyya {n : Nat} (u v : Fin n → ℝ) :
    Gen.body_bhattacharyya_distance.evalR u v = Gen.body_bhattacharyya_distance.evalR v u := by
  unfold Gen.body_bhattacharyya_distance
  symm_norm u v

theorem c08_symm_bray_curtis {n : Nat} (u v : Fin n → ℝ) :
    Gen.body_bray_curtis_distance.evalR u v = Gen.body_bray_curtis_distance.evalR v u := by
  unfold Gen.body_bray_curtis_distance
  symm_norm u v

theorem c08_symm_canberra {n : Nat} (u v : Fin n → ℝ) :
    Gen.body_canberra_distance.evalR u v = Gen.body_canberra_distance.evalR v u := by
  unfold Gen.body_canberra_distance
  symm_norm u v

theorem c08_symm_chebyshev {n : Nat} (u v : Fin n → ℝ) :
    Gen.body_chebyshev_distance.evalR u v = Gen.body_chebyshev_distance.evalR v u := by
  unfold Gen.body_chebyshev_distance
  symm_norm u v

theorem c08_symm_chi_squared {n : Nat} (u v : Fin n → ℝ) :
    Gen.body_chi_squared_distance.evalR u v = Gen.body_chi_squared_distance.evalR v u := by
  unfold Gen.body_chi_squared_distance
  symm_norm u v

theorem c08_symm_chord {n : Nat} (u v : Fin n → ℝ) :
    Gen.body_chord_distance.evalR u v = Gen.body_chord_distance.evalR v u := by
  unfold Gen.body_chord_distance
  symm_norm u v
  rw [mul_comm (Real.sqrt (∑ i, v i ^ 2))]

theorem c08_symm_clark {n : Nat} (u v : Fin n → ℝ) :
    Gen.body_clark_distance.evalR u v = Gen.body_clark_distance.evalR v u := by
  unfold Gen.body_clark_distance
  symm_norm u v
  congr 1
  refine Finset.sum_congr rfl fun i _ => ?_
  rw [div_pow, div_pow, sub_sq_comm]

theorem c08_symm_cosine {n : Nat} (u v : Fin n → ℝ) :
    Gen.body_cosine_distance.evalR u v = Gen.body_cosine_distance.evalR v u := by
  unfold Gen.body_cosine_distance
  symm_norm u v
  rw [mul_comm (Real.sqrt (∑ i, v i ^ 2))]

theorem c08_symm_dice {n : Nat} (u v : Fin n → ℝ) :
    Gen.body_dice_distance.evalR u v = Gen.body_dice_distance.evalR v u := by
  unfold Gen.body_dice_distance
  symm_norm u v
  rw [add_comm (∑ i, v i ^ 2)]

theorem c08_symm_divergence {n : Nat} (u v : Fin n → ℝ) :
    Gen.body_divergence_distance.evalR u v = Gen.body_divergence_distance.evalR v u := by
  unfold Gen.body_divergence_distance
  symm_norm u v

theorem c08_symm_euclidean {n : Nat} (u v : Fin n → ℝ) :
    Gen.body_euclidean_distance.evalR u v = Gen.body_euclidean_distance.evalR v u := by
  unfold Gen.body_euclidean_distance
  symm_norm u v

theorem c08_symm_gaussian {n : Nat} (u v : Fin n → ℝ) :
    Gen.body_gaussian_distance.evalR u v = Gen.body_gaussian_distance.evalR v u := by
  unfold Gen.body_gaussian_distance
  symm_norm u v

theorem c08_symm_gower {n : Nat} (u v : Fin n → ℝ) :
    Gen.body_gower_distance.evalR u v = Gen.body_gower_distance.evalR v u := by
  unfold Gen.body_gower_distance
  symm_norm u v

theorem c08_symm_hamming {n : Nat} (u v : Fin n → ℝ) :
    Gen.body_hamming_distance.evalR u v = Gen.body_hamming_distance.evalR v u := by
  unfold Gen.body_hamming_distance
  symm_norm u v
  congr

theorem c08_symm_hassanat {n : Nat} (u v : Fin n → ℝ) :
    Gen.body_hassanat_distance.evalR u v = Gen.body_hassanat_distance.evalR v u := by
  unfold Gen.body_hassanat_distance
  symm_norm u v
  congr

theorem c08_symm_hellinger {n : Nat} (u v : Fin n → ℝ) :
    Gen.body_hellinger_distance.evalR u v = Gen.body_hellinger_distance.evalR v u := by
  unfold Gen.body_hellinger_distance
  symm_norm u v

theorem c08_symm_jaccard {n : Nat} (u v : Fin n → ℝ) :
    Gen.body_jaccard_distance.evalR u v = Gen.body_jaccard_distance.evalR v u := by
  unfold Gen.body_jaccard_distance
  symm_norm u v
  rw [add_comm (∑ i, v i ^ 2)]

theorem c08_symm_jeffreys {n : Nat} (u v : Fin n → ℝ) :
    Gen.body_jeffreys_distance.evalR u v = Gen.body_jeffreys_distance.evalR v u := by
  unfold Gen.body_jeffreys_distance
  symm_norm u v
  refine Finset.sum_congr rfl fun i _ => ?_
  rw [← inv_div (u i) (v i), Real.log_inv]
  ring

theorem c08_symm_jensen {n : Nat} (u v : Fin n → ℝ) :
    Gen.body_jensen_distance.evalR u v = Gen.body_jensen_distance.evalR v u := by
  unfold Gen.body_jensen_distance
  symm_norm u v

theorem c08_symm_jensen_shannon {n : Nat} (u v : Fin n → ℝ) :
    Gen.body_jensen_shannon_distance.evalR u v = Gen.body_jensen_shannon_distance.evalR v u := by
  unfold Gen.body_jensen_shannon_distance
  symm_norm u v
  congr 1
  exact add_comm _ _

theorem c08_symm_kulczynski {n : Nat} (u v : Fin n → ℝ) :
    Gen.body_kulczynski_distance.evalR u v = Gen.body_kulczynski_distance.evalR v u := by
  unfold Gen.body_kulczynski_distance
  symm_norm u v

theorem c08_symm_log_euclidean {n : Nat} (u v : Fin n → ℝ) :
    Gen.body_log_euclidean_distance.evalR u v = Gen.body_log_euclidean_distance.evalR v u := by
  unfold Gen.body_log_euclidean_distance
  symm_norm u v

theorem c08_symm_log_squared_euclidean {n : Nat} (u v : Fin n → ℝ) :
    Gen.body_log_squared_euclidean_distance.evalR u v = Gen.body_log_squared_euclidean_distance.evalR v u := by
  unfold Gen.body_log_squared_euclidean_distance
  symm_norm u v

theorem c08_symm_lorentzian {n : Nat} (u v : Fin n → ℝ) :
    Gen.body_lorentzian_distance.evalR u v = Gen.body_lorentzian_distance.evalR v u := by
  unfold Gen.body_lorentzian_distance
  symm_norm u v

theorem c08_symm_manhattan {n : Nat} (u v : Fin n → ℝ) :
    Gen.body_manhattan_distance.evalR u v = Gen.body_manhattan_distance.evalR v u := by
  unfold Gen.body_manhattan_distance
  symm_norm u v

theorem c08_symm_matusita {n : Nat} (u v : Fin n → ℝ) :
    Gen.body_matusita_distance.evalR u v = Gen.body_matusita_distance.evalR v u := by
  unfold Gen.body_matusita_distance
  symm_norm u v

theorem c08_symm_max_symmetric {n : Nat} (u v : Fin n → ℝ) :
    Gen.body_max_symmetric_distance.evalR u v = Gen.body_max_symmetric_distance.evalR v u := by
  unfold Gen.body_max_symmetric_distance
  symm_norm u v
  exact max_comm _ _

theorem c08_symm_mean_censored_euclidean {n : Nat} (u v : Fin n → ℝ) :
    Gen.body_mean_censored_euclidean_distance.evalR u v = Gen.body_mean_censored_euclidean_distance.evalR v u := by
  unfold Gen.body_mean_censored_euclidean_distance
  symm_norm u v
  congr

theorem c08_symm_min_symmetric {n : Nat} (u v : Fin n → ℝ) :
    Gen.body_min_symmetric_distance.evalR u v = Gen.body_min_symmetric_distance.evalR v u := by
  unfold Gen.body_min_symmetric_distance
  symm_norm u v
  exact min_comm _ _

theorem c08_symm_non_intersection {n : Nat} (u v : Fin n → ℝ) :
    Gen.body_non_intersection_distance.evalR u v = Gen.body_non_intersection_distance.evalR v u := by
  unfold Gen.body_non_intersection_distance
  symm_norm u v

theorem c08_symm_sangvi {n : Nat} (u v : Fin n → ℝ) :
    Gen.body_sangvi_distance.evalR u v = Gen.body_sangvi_distance.evalR v u := by
  unfold Gen.body_sangvi_distance
  symm_norm u v

theorem c08_symm_soergel {n : Nat} (u v : Fin n → ℝ) :
    Gen.body_soergel_distance.evalR u v = Gen.body_soergel_distance.evalR v u := by
  unfold Gen.body_soergel_distance
  symm_norm u v

theorem c08_symm_squared {n : Nat} (u v : Fin n → ℝ) :
    Gen.body_squared_distance.evalR u v = Gen.body_squared_distance.evalR v u := by
  unfold Gen.body_squared_distance
  symm_norm u v

theorem c08_symm_squared_chord {n : Nat} (u v : Fin n → ℝ) :
    Gen.body_squared_chord_distance.evalR u v = Gen.body_squared_chord_distance.evalR v u := by
  unfold Gen.body_squared_chord_distance
  symm_norm u v

theorem c08_symm_squared_euclidean {n : Nat} (u v : Fin n → ℝ) :
    Gen.body_squared_euclidean_distance.evalR u v = Gen.body_squared_euclidean_distance.evalR v u := by
  unfold Gen.body_squared_euclidean_distance
  symm_norm u v

theorem c08_symm_topsoe {n : Nat} (u v : Fin n → ℝ) :
    Gen.body_topsoe_distance.evalR u v = Gen.body_topsoe_distance.evalR v u := by
  unfold Gen.body_topsoe_distance
  symm_norm u v
  exact add_comm _ _

theorem c08_symm_vicis_symmetric1 {n : Nat} (u v : Fin n → ℝ) :
    Gen.body_vicis_symmetric1_distance.evalR u v = Gen.body_vicis_symmetric1_distance.evalR v u := by
  unfold Gen.body_vicis_symmetric1_distance
  symm_norm u v

theorem c08_symm_vicis_symmetric2 {n : Nat} (u v : Fin n → ℝ) :
    Gen.body_vicis_symmetric2_distance.evalR u v = Gen.body_vicis_symmetric2_distance.evalR v u := by
  unfold Gen.body_vicis_symmetric2_distance
  symm_norm u v

theorem c08_symm_vicis_symmetric3 {n : Nat} (u v : Fin n → ℝ) :
    Gen.body_vicis_symmetric3_distance.evalR u v = Gen.body_vicis_symmetric3_distance.evalR v u := by
  unfold Gen.body_vicis_symmetric3_distance
  symm_norm u v

theorem c08_symm_vicis_wave_hedges {n : Nat} (u v : Fin n → ℝ) :
    Gen.body_vicis_wave_hedges_distance.evalR u v = Gen.body_vicis_wave_hedges_distance.evalR v u := by
  unfold Gen.body_vicis_wave_hedges_distance
  symm_norm u v

/-! ### the five bodies not marked symmetric are indeed not symmetric on their domain -/

theorem c08_asymm_neyman : ∃ u v : Fin 1 → ℝ, (∀ i, 0 < u i) ∧ (∀ i, 0 < v i) ∧
    Gen.body_neyman_distance.evalR u v ≠ Gen.body_neyman_distance.evalR v u := by
  refine ⟨fun _ => 1, fun _ => 2, fun _ => by norm_num, fun _ => by norm_num, ?_⟩
  simp only [Gen.body_neyman_distance, S.evalR, V.evalR, Fin.sum_univ_one]
  norm_num

theorem c08_asymm_pearson : ∃ u v : Fin 1 → ℝ, (∀ i, 0 < u i) ∧ (∀ i, 0 < v i) ∧
    Gen.body_pearson_distance.evalR u v ≠ Gen.body_pearson_distance.evalR v u := by
  refine ⟨fun _ => 1, fun _ => 2, fun _ => by norm_num, fun _ => by norm_num, ?_⟩
  simp only [Gen.body_pearson_distance, S.evalR, V.evalR, Fin.sum_univ_one]
  norm_num

theorem c08_asymm_statistic : ∃ u v : Fin 1 → ℝ, (∀ i, 0 < u i) ∧ (∀ i, 0 < v i) ∧
    Gen.body_statistic_distance.evalR u v ≠ Gen.body_statistic_distance.evalR v u := by
  refine ⟨fun _ => 1, fun _ => 2, fun _ => by norm_num, fun _ => by norm_num, ?_⟩
  simp only [Gen.body_statistic_distance, S.evalR, V.evalR, Fin.sum_univ_one, litR]
  norm_num

theorem c08_asymm_kullback_leibler : ∃ u v : Fin 2 → ℝ,
    ((∀ i, 0 < u i) ∧ ∑ i, u i = 1) ∧ ((∀ i, 0 < v i) ∧ ∑ i, v i = 1) ∧
    Gen.body_kullback_leibler_distance.evalR u v ≠ Gen.body_kullback_leibler_distance.evalR v u := by
  refine ⟨![1/2, 1/2], ![1/4, 3/4], ⟨?_, ?_⟩, ⟨?_, ?_⟩, ?_⟩
  · intro i; fin_cases i <;> norm_num
  · rw [Fin.sum_univ_two]; norm_num
  · intro i; fin_cases i <;> norm_num
  · rw [Fin.sum_univ_two]; norm_num
  simp only [Gen.body_kullback_leibler_distance, S.evalR, V.evalR, Fin.sum_univ_two,
    Matrix.cons_val_zero, Matrix.cons_val_one]
  norm_num
  rw [Real.log_div (by norm_num) (by norm_num), Real.log_div (by norm_num) (by norm_num),
    Real.log_div (by norm_num) (by norm_num), Real.log_one]
  have h : Real.log 243 < Real.log 256 := Real.log_lt_log (by norm_num) (by norm_num)
  rw [show (243 : ℝ) = 3 ^ 5 by norm_num, show (256 : ℝ) = 2 ^ 8 by norm_num,
    Real.log_pow, Real.log_pow] at h
  intro heq
  norm_num at h
  linarith

theorem c08_asymm_k_divergence : ∃ u v : Fin 2 → ℝ,
    ((∀ i, 0 < u i) ∧ ∑ i, u i = 1) ∧ ((∀ i, 0 < v i) ∧ ∑ i, v i = 1) ∧
    Gen.body_k_divergence_distance.evalR u v ≠ Gen.body_k_divergence_distance.evalR v u := by
  refine ⟨![1/2, 1/2], ![1/4, 3/4], ⟨?_, ?_⟩, ⟨?_, ?_⟩, ?_⟩
  · intro i; fin_cases i <;> norm_num
  · rw [Fin.sum_univ_two]; norm_num
  · intro i; fin_cases i <;> norm_num
  · rw [Fin.sum_univ_two]; norm_num
  simp only [Gen.body_k_divergence_distance, S.evalR, V.evalR, Fin.sum_univ_two,
    Matrix.cons_val_zero, Matrix.cons_val_one, litR]
  norm_num
  rw [Real.log_div (by norm_num) (by norm_num), Real.log_div (by norm_num) (by norm_num),
    Real.log_div (by norm_num) (by norm_num), Real.log_div (by norm_num) (by norm_num),
    show (4 : ℝ) = 2 ^ 2 by norm_num, show (6 : ℝ) = 2 * 3 by norm_num,
    Real.log_mul (by norm_num) (by norm_num), Real.log_pow]
  have h : Real.log 80 < Real.log 81 := Real.log_lt_log (by norm_num) (by norm_num)
  rw [show (80 : ℝ) = 2 ^ 4 * 5 by norm_num, show (81 : ℝ) = 3 ^ 4 by norm_num,
    Real.log_mul (by norm_num) (by norm_num), Real.log_pow, Real.log_pow] at h
  intro heq
  norm_num at h heq
  linarith
end Opf
