/-
C14 / C09 — refinement: the STATEMENT-BY-STATEMENT TRANSLATIONS of `KNNSupervisedOPF.predict` and
`UnsupervisedOPF.predict` (`Gen/KnnPredImp.lean`, regenerated from the source on every run) compute,
for every query of a batch independently, exactly the models about which `Props/C14.lean` speaks:
the `best_k` nearest among ALL training samples by the insertion scan (`queryNeighbours`; distance
from the QUERY to the training sample), the query density (`queryDensityG` with the UNINTERPRETED float
operations `fo`), and the label (and cluster) of the first maximiser of `min(cost, density)` among the
valid slots (`knnArgmax`).  The buffers are shared across queries in the source (`neighbours_idx` is not
reset): the theorem shows that nothing of an earlier query is ever read, which is C09's pointwise
claim for the density models.  Property theorems only; helper lemmas live in `Lemmas/KnnPredRefine.lean`.
-/
import OpfVerif.Lemmas.KnnPredRefine
namespace Opf.KnnPredRefine
open Opf Opf.Gen Opf.Gen.KnnPredImp

theorem c14_gen_knn_predict (fo : Py.FOps) (QW : Int → Int → Option Int) (top eps : Int)
    (h999 : fo.sub (fo.ofInt 1000) (fo.ofInt 1) = fo.ofInt 999)
    (sg psg0 : QSG) (n k : Nat) (cost : Nat → Int) (lab clu : Nat → Nat)
    (hr : RelT sg n k cost lab clu) (ds : List (Nat → Int)) (hq : RelQ psg0 ds.length) (hW : QWAgree n QW ds) :
    ∃ preds, knn_predict QW fo top eps sg psg0 = some (sg, preds) ∧ preds.size = ds.length ∧
      ∀ (i : Nat) (hi : i < ds.length),
        preds[i]? = (match chosen fo top (fo.mul top (fo.ofInt (-1))) eps k n cost sg.constant sg.min_density sg.max_density ds[i] with
                     | some t => some (lab t : Int)
                     | none => psg0.predicted_label[i]?) :=
  knn_predict_refines fo QW top eps h999 sg psg0 n k cost lab clu hr ds hq hW

theorem c14_gen_uns_predict (fo : Py.FOps) (QW : Int → Int → Option Int) (top eps : Int)
    (h999 : fo.sub (fo.ofInt 1000) (fo.ofInt 1) = fo.ofInt 999)
    (sg psg0 : QSG) (n k : Nat) (cost : Nat → Int) (lab clu : Nat → Nat)
    (hr : RelT sg n k cost lab clu) (ht : sg.trained = true)
    (ds : List (Nat → Int)) (hq : RelQ psg0 ds.length) (hW : QWAgree n QW ds) :
    ∃ preds clusters, uns_predict QW fo top eps sg psg0 = some (sg, (preds, clusters)) ∧
      preds.size = ds.length ∧ clusters.size = ds.length ∧
      ∀ (i : Nat) (hi : i < ds.length),
        (match chosen fo top (-top) eps k n cost sg.constant sg.min_density sg.max_density ds[i] with
         | some t => preds[i]? = some (lab t : Int) ∧ clusters[i]? = some (clu t : Int)
         | none => preds[i]? = psg0.predicted_label[i]? ∧ clusters[i]? = psg0.cluster_label[i]?) :=
  uns_predict_refines fo QW top eps h999 sg psg0 n k cost lab clu hr ht ds hq hW

theorem c14_gen_uns_predict_untrained (fo : Py.FOps) (QW : Int → Int → Option Int) (top eps : Int)
    (sg psg0 : QSG) (ht : sg.trained = false) : uns_predict QW fo top eps sg psg0 = none :=
  uns_predict_untrained fo QW top eps sg psg0 ht

end Opf.KnnPredRefine
