/-
C17 — `SupervisedOPF.learn` AS WRITTEN IN /repo (translated statement by statement: `Gen/LearnImp.lean`, with `fit`,
`predict`, `opf_accuracy`, the random draw, the status list, `np.fabs(a-b)` and the restoring assignment ARBITRARY):

* `learn_refines`         for `1 ≤ n_iterations` the translated method computes `LearnSpec.learnSpec` (it terminates
                          whenever the called methods return, within `n_iterations` iterations);
* `c17_learn_conserves`   it only EXCHANGES samples between the two sets: sizes unchanged, and the multiset of
                          (feature row, label) pairs over training ∪ validation is unchanged;
* `c17_learn_keeps_best`  the classifier left in the object is the one of the FIRST iteration attaining the highest
                          validation accuracy among the iterations executed.

STATEMENTS ARE FIXED (DESIGN §2.1b); helper lemmas live in Lemmas/LearnRefine.lean.
-/
import OpfVerif.Gen.LearnImp
import OpfVerif.Lemmas.LearnRefine
import OpfVerif.Props.C17

namespace Opf.C17Learn
open Opf Opf.LearnSpec Opf.Gen
variable {σ β ρ : Type}

/-- what `learn` hands back, as the tuple the translated code returns. -/
def flat (r : σ × ρ × Data β) : σ × ρ × Array β × Array Int × Array β × Array Int :=
  (r.1, r.2.1, r.2.2.Xt, r.2.2.Yt, r.2.2.Xv, r.2.2.Yv)

/-- the (feature row, label) pairs of both sets. -/
def pairs (d : Data β) : List (β × Int) := d.Xt.toList.zip d.Yt.toList ++ d.Xv.toList.zip d.Yv.toList

theorem learn_refines (ops : LearnOps σ β ρ) (proto negOne zero small : Int) (s : σ) (rng : ρ)
    (Xt : Array β) (Yt : Array Int) (Xv : Array β) (Yv : Array Int) (n : Int) (hn : 1 ≤ n) :
    LearnImp.learn ops proto negOne zero small s rng Xt Yt Xv Yv n =
      (learnSpec ops proto negOne zero small s rng { Xt := Xt, Yt := Yt, Xv := Xv, Yv := Yv } n).map flat := by
  rw [LearnRefine.learn_refines' ops proto negOne zero small s rng Xt Yt Xv Yv n hn]
  cases learnSpec ops proto negOne zero small s rng { Xt := Xt, Yt := Yt, Xv := Xv, Yv := Yv } n <;> rfl

/-- one exchange keeps the sizes and permutes the pairs. -/
theorem exchange_conserves (d d' : Data β) (j err : Int) (h : exchange d j err = some d')
    (hst : d.Xt.size = d.Yt.size) (hsv : d.Xv.size = d.Yv.size) :
    d'.Xt.size = d.Xt.size ∧ d'.Yt.size = d.Yt.size ∧ d'.Xv.size = d.Xv.size ∧ d'.Yv.size = d.Yv.size ∧
      (pairs d').Perm (pairs d) := by
  exact LearnRefine.exchange_conserves' d d' j err h hst hsv

/-- **C17, conservation clause, on the translated source.** -/
theorem c17_learn_conserves (ops : LearnOps σ β ρ) (proto negOne zero small : Int) (s s' : σ) (rng rng' : ρ)
    (Xt Xt' : Array β) (Yt Yt' : Array Int) (Xv Xv' : Array β) (Yv Yv' : Array Int) (n : Int) (hn : 1 ≤ n)
    (hst : Xt.size = Yt.size) (hsv : Xv.size = Yv.size)
    (h : LearnImp.learn ops proto negOne zero small s rng Xt Yt Xv Yv n = some (s', rng', Xt', Yt', Xv', Yv')) :
    Xt'.size = Xt.size ∧ Yt'.size = Yt.size ∧ Xv'.size = Xv.size ∧ Yv'.size = Yv.size ∧
      (pairs { Xt := Xt', Yt := Yt', Xv := Xv', Yv := Yv' }).Perm (pairs { Xt := Xt, Yt := Yt, Xv := Xv, Yv := Yv }) := by
  rw [learn_refines ops proto negOne zero small s rng Xt Yt Xv Yv n hn] at h
  cases hs : learnSpec ops proto negOne zero small s rng { Xt := Xt, Yt := Yt, Xv := Xv, Yv := Yv } n with
  | none => rw [hs] at h; cases h
  | some r =>
    obtain ⟨s1, rng1, d1⟩ := r
    rw [hs] at h
    simp only [Option.map_some, flat, Option.some.injEq, Prod.mk.injEq] at h
    obtain ⟨rfl, rfl, rfl, rfl, rfl, rfl⟩ := h
    obtain ⟨tr, b, best, last, hrun, _⟩ := LearnRefine.learnSpec_some _ _ _ _ _ _ _ _ _ _ _ _ hs
    exact LearnRefine.run_cons ops proto small n _ _ _ _ _ _ _ _ _ ⟨hst, hsv⟩ hrun

/-- **C17, best-model clause, on the translated source.** `tr` lists, per executed iteration, the classifier as it is
after `predict` and its validation accuracy. -/
theorem c17_learn_keeps_best (ops : LearnOps σ β ρ) (proto negOne zero small : Int) (s s' : σ) (rng rng' : ρ)
    (Xt Xt' : Array β) (Yt Yt' : Array Int) (Xv Xv' : Array β) (Yv Yv' : Array Int) (n : Int) (hn : 1 ≤ n)
    (h : LearnImp.learn ops proto negOne zero small s rng Xt Yt Xv Yv n = some (s', rng', Xt', Yt', Xv', Yv')) :
    ∃ tr d' b best last,
      run ops proto small n n.toNat 0 zero s rng { Xt := Xt, Yt := Yt, Xv := Xv, Yv := Yv } = some (tr, rng', d') ∧
      1 ≤ tr.length ∧ tr.length ≤ n.toNat ∧
      bestIter negOne (tr.map (·.2)) = some b ∧ tr[b]? = some best ∧ tr.getLast? = some last ∧
      ops.restore last.1 best.1 = some s' ∧ negOne < best.2 ∧
      (∀ x ∈ tr, x.2 ≤ best.2) ∧ (∀ j, j < b → ∀ x, tr[j]? = some x → x.2 < best.2) := by
  rw [learn_refines ops proto negOne zero small s rng Xt Yt Xv Yv n hn] at h
  cases hs : learnSpec ops proto negOne zero small s rng { Xt := Xt, Yt := Yt, Xv := Xv, Yv := Yv } n with
  | none => rw [hs] at h; cases h
  | some r =>
    obtain ⟨s1, rng1, d1⟩ := r
    rw [hs] at h
    simp only [Option.map_some, flat, Option.some.injEq, Prod.mk.injEq] at h
    obtain ⟨rfl, rfl, _⟩ := h
    obtain ⟨tr, b, best, last, hrun, hb, hbest, hlast, hrest⟩ :=
      LearnRefine.learnSpec_some _ _ _ _ _ _ _ _ _ _ _ _ hs
    obtain ⟨hl1, hl2⟩ := LearnRefine.run_length ops proto small n _ _ _ _ _ _ _ _ _ hrun
    obtain ⟨f1, f2, f3⟩ := LearnRefine.best_facts negOne tr b best hb hbest
    exact ⟨tr, d1, b, best, last, hrun, hl1, hl2, hb, hbest, hlast, hrest, f1, f2, f3⟩

/-! ## non-vacuity: a concrete object on which translated `learn` returns. The classifier state counts the fits, the
prediction is the parity of the row id, accuracies are read from a table by the sum of the validation labels, the draws
come from a list; statuses `[1, 0, 0, 1, 0]` make rows 0 and 3 prototypes. -/

def demoOps : LearnOps Nat Nat (List Int) where
  fit := fun s _ _ => some (s + 1)
  predict := fun s X => some (s, X.map (fun x => ((x % 2 : Nat) : Int)))
  opf_accuracy := fun Y _ => (#[50, 70, 60, 90, 20] : Array Int)[(Y.foldl (· + ·) 0).toNat % 5]?
  statuses := fun _ => #[1, 0, 0, 1, 0]
  rand := fun r _ hi => match r with | [] => none | x :: xs => some (x % hi, xs)
  fabs_diff := fun a b => if a ≥ b then a - b else b - a
  restore := fun s b => some (s * 100 + b)

/-- three iterations are executed (accuracies 90, 60, 60: the third repeats the second, so the loop stops), the first is
the best and is put back (`301` = restored into the object of iteration 3 the classifier of iteration 1); the exchanged
data keep their (row, label) pairs. (Stated component-wise: instance search does not find `DecidableEq` of the 6-tuple.) -/
example : (LearnImp.learn demoOps 1 (-1) 0 2 0 [0, 3, 1, 0, 2, 4, 4, 0, 1, 2, 3, 3] #[1, 2, 3, 4, 5] #[1, 0, 1, 0, 1]
    #[6, 7, 8] #[1, 1, 1] 4).map (fun r => (r.1, r.2.1)) = some (301, [4, 4, 0, 1, 2, 3, 3]) := by
  rw [learn_refines _ _ _ _ _ _ _ _ _ _ _ _ (by decide)]; decide +kernel
example : (LearnImp.learn demoOps 1 (-1) 0 2 0 [0, 3, 1, 0, 2, 4, 4, 0, 1, 2, 3, 3] #[1, 2, 3, 4, 5] #[1, 0, 1, 0, 1]
    #[6, 7, 8] #[1, 1, 1] 4).map (fun r => (r.2.2.1, r.2.2.2.1)) = some (#[1, 6, 8, 4, 5], #[1, 1, 1, 0, 1]) := by
  rw [learn_refines _ _ _ _ _ _ _ _ _ _ _ _ (by decide)]; decide +kernel
example : (LearnImp.learn demoOps 1 (-1) 0 2 0 [0, 3, 1, 0, 2, 4, 4, 0, 1, 2, 3, 3] #[1, 2, 3, 4, 5] #[1, 0, 1, 0, 1]
    #[6, 7, 8] #[1, 1, 1] 4).map (fun r => (r.2.2.2.2.1, r.2.2.2.2.2)) = some (#[2, 7, 3], #[0, 1, 1]) := by
  rw [learn_refines _ _ _ _ _ _ _ _ _ _ _ _ (by decide)]; decide +kernel

end Opf.C17Learn
