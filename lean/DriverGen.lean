/-
Line-protocol driver for the GENERATED statement-level translations that are validated by running them
(DESIGN §2.1b/§2.2): the counting part of the evaluation measures (`Gen/MeasImp.lean`), whose numpy reading
(`Model/PyMeas.lean`) is trusted and therefore also sampled against the real functions.
Run with:  lake env lean --run DriverGen.lean < ops.txt
`gmeas nl labels[nl] np preds[np]` prints  <confusion | ERR> | <accuracy bits | ERR> | <per-label bits | ERR> | <purity bits | ERR>
where the float tails are applied here in the order numpy applies them to short tables (sequential sums).
`gnorm r c bits[r*c]` runs the translated `normalize` (`Gen/NormImp.lean`) on the r × c matrix of binary64 values with the sequential
mean and population deviation, and prints the r*c result bits row by row (`ERR` when it does not return).
-/
import OpfVerif.Gen.MeasImp
import OpfVerif.Gen.NormImp
open Opf Opf.Gen

def fbitsG (f : Float) : String := toString f.toBits.toNat
def iF (i : Int) : Float := if i < 0 then -((-i).toNat.toFloat) else i.toNat.toFloat

/-- `errors[:, 1] /= counts; errors[:, 0] /= np.nansum(counts) - counts; errors = np.nansum(errors, axis=1);
    accuracy = 1 - np.sum(errors) / (2 * n_class)` -/
def accTail (counts : Array Int) (errors : Array (Array Int)) (nClass : Int) : Option Float := do
  if counts.size ≠ errors.size then none      -- numpy broadcasting error
  let tot := counts.foldl (· + ·) 0
  let mut s : Float := 0.0
  for i in [0:errors.size] do
    let row := errors[i]!
    let c := counts[i]!
    let e1 := iF row[1]! / iF c
    let e0 := iF row[0]! / iF (tot - c)
    let r := (if e0.isNaN then 0.0 else e0) + (if e1.isNaN then 0.0 else e1)
    s := s + r
  pure (1.0 - s / iF (2 * nClass))

/-- `errors /= counts; accuracy = 1 - errors` (numpy broadcasts a one-element `counts` over `errors`) -/
def perTail (counts errors : Array Int) : Option (List Float) :=
  if counts.size = 1 then some ((List.range errors.size).map (fun i => 1.0 - iF errors[i]! / iF counts[0]!))
  else if counts.size ≠ errors.size then none
  else some ((List.range errors.size).map (fun i => 1.0 - iF errors[i]! / iF counts[i]!))

def runGmeas (toks : Array Int) : String :=
  let nl := (toks.getD 0 0).toNat
  let labels := toks.extract 1 (1 + nl)
  let np := (toks.getD (1 + nl) 0).toNat
  let preds := toks.extract (2 + nl) (2 + nl + np)
  let conf := match MeasImp.confusion_matrix labels preds with
    | some m => " , ".intercalate (m.toList.map fun (r : Array Int) => " ".intercalate (r.toList.map toString))
    | none => "ERR"
  let acc := match MeasImp.opf_accuracy labels preds with
    | some (counts, errors, k) => (match accTail counts errors k with | some a => fbitsG a | none => "ERR")
    | none => "ERR"
  let per := match MeasImp.opf_accuracy_per_label labels preds with
    | some (counts, errors) => (match perTail counts errors with | some l => " ".intercalate (l.map fbitsG) | none => "ERR")
    | none => "ERR"
  let pur := match MeasImp.purity labels preds with
    | some (a, b) => fbitsG (iF a / iF b)
    | none => "ERR"
  s!"{conf} | {acc} | {per} | {pur}"

def meanF (l : List Float) : Float := l.foldl (· + ·) 0.0 / l.length.toFloat
def stdF (l : List Float) : Float :=
  let m := meanF l
  Float.sqrt ((l.map (fun v => (v - m) * (v - m))).foldl (· + ·) 0.0 / l.length.toFloat)

def runGnorm (toks : Array Nat) : String :=
  let r := toks.getD 0 0
  let c := toks.getD 1 0
  let data : Array (Array Float) := (Array.range r).map fun i =>
    (toks.extract (2 + i * c) (2 + (i + 1) * c)).map (fun b => Float.ofBits b.toUInt64)
  match NormImp.normalize meanF stdF data with
  | none => "ERR"
  | some out => " ".intercalate (out.toList.flatMap fun (row : Array Float) => row.toList.map fbitsG)

partial def loopG (h : IO.FS.Stream) : IO Unit := do
  let line ← h.getLine
  if line.isEmpty then return ()
  let parts := (line.trimAscii.toString.splitOn " ").filter (· ≠ "")
  match parts with
  | "gmeas" :: rest =>
    let toks := (rest.map (fun t => t.toInt?.getD 0)).toArray
    IO.println (runGmeas toks)
  | "gnorm" :: rest =>
    IO.println (runGnorm (rest.map (fun t => t.toNat?.getD 0)).toArray)
  | _ => IO.println "bad-op"
  loopG h

def main : IO Unit := do loopG (← IO.getStdin)
