/-
Line-protocol driver for the correspondence check (DESIGN §2.2).
Run with:  lake env lean --run Driver.lean < ops.txt > model.out
Every input line is `<stream> <int> <int> ...`; every output line is the canonical observation
of the model for that case (or `bad-op` when the line is outside the modelled domain).
-/
import OpfVerif.Model.Heap
import OpfVerif.Model.Forest
import OpfVerif.Model.Expr
import OpfVerif.Model.Knn
import OpfVerif.Model.Lawful
import OpfVerif.Model.Measures
import OpfVerif.Model.Stream
import OpfVerif.Model.Learn
import OpfVerif.Model.Pipeline
import OpfVerif.Model.ClusterLawful
import OpfVerif.Gen.Distance
import OpfVerif.Gen.Decorator
open Opf

structure Rd where
  toks : Array Int
  i : Nat := 0

abbrev RM := StateM Rd

def nextI : RM Int := do
  let s ← get
  set { s with i := s.i + 1 }
  return s.toks.getD s.i 0
def nextN : RM Nat := do return (← nextI).toNat
def nextNs (k : Nat) : RM (Array Nat) := do
  let mut a := Array.mkEmpty k
  for _ in [0:k] do a := a.push (← nextN)
  return a
def nextIs (k : Nat) : RM (Array Int) := do
  let mut a := Array.mkEmpty k
  for _ in [0:k] do a := a.push (← nextI)
  return a

def showInts (a : Array Int) : String := " ".intercalate (a.toList.map toString)
def showNats (a : Array Nat) : String := " ".intercalate (a.toList.map toString)
def showOpt (a : Array (Option Nat)) : String :=
  " ".intercalate (a.toList.map fun o => match o with | none => "-1" | some x => toString x)
def showBools (a : Array Bool) : String := " ".intercalate (a.toList.map fun b => if b then "1" else "0")

def heapObs (h : Heap) (ret : Int) : String :=
  let ps := (Array.range h.cnt).map h.slot
  s!"{ret} {h.cnt} | {showNats ps} | {showNats (ps.map h.posOf)} | {showNats h.color} | {showInts h.cost}"

def runHeap : RM String := do
  let size ← nextN
  let isMax := (← nextN) == 1
  let top ← nextI
  let nops ← nextN
  let mut h := Heap.init size isMax top
  let mut out : Array String := #[]
  for _ in [0:nops] do
    let op ← nextN
    if op == 0 then
      let x ← nextN
      if x < size then
        let (h', ok) := h.insert x
        h := h'
        out := out.push (heapObs h (if ok then 1 else 0))
      else out := out.push "bad-op"
    else if op == 1 then
      let (h', r) := h.remove
      h := h'
      out := out.push (heapObs h (match r with | none => -1 | some x => (x : Int)))
    else if op == 2 then
      let x ← nextN
      let c ← nextI
      if x < size then
        h := h.update x c
        out := out.push (heapObs h 0)
      else out := out.push "bad-op"
    else if op == 3 then
      let x ← nextN
      let c ← nextI
      if x < size ∧ (h.colorOf x = WHITE ∨ h.colorOf x = BLACK) then   -- a removed element may be inserted again
        let (h', ok) := (h.setCost x c).insert x
        h := h'
        out := out.push (heapObs h (if ok then 1 else 0))
      else out := out.push "bad-op"
    else out := out.push "bad-op"
  return " ; ".intercalate out.toList

def forestObs (f : Forest) : String :=
  s!"{showBools f.proto} | {showInts f.ncost} | {showOpt f.pred} | {showNats f.plabel} | {showNats f.label} | {showNats f.order}"

/-- `prim nLab top labels[nLab] w[nLab*nLab]` -/
def runPrim : RM String := do
  let n ← nextN
  let top ← nextI
  let lab ← nextNs n
  let m ← nextIs (n * n)
  let w := fun p q => m.getD (p * n + q) 0
  let s := primRun w top n (Forest.init lab)
  return s!"{forestObs s.f} | {if s.h.isEmpty then 1 else 0}"

/-- `fit semi nLab n top labels[n] w[n*n] nq d[nq*n]` : fit, then predict the `nq` queries. -/
def runFit : RM String := do
  let semi := (← nextN) == 1
  let nLab ← nextN
  let n ← nextN
  let top ← nextI
  let lab ← nextNs n
  let m ← nextIs (n * n)
  let w := fun p q => m.getD (p * n + q) 0
  let s := fitRun w top semi nLab lab
  let nq ← nextN
  let dm ← nextIs (nq * n)
  let ds := (List.range nq).map fun i => fun t => dm.getD (i * n + t) 0
  let (f2, labs) := predictBatch s.f ds
  let ls := " ".intercalate (labs.map fun o => match o with | none => "-1" | some x => toString x)
  return s!"{forestObs s.f} | {if s.h.isEmpty then 1 else 0} | {ls} | {showBools f2.relevant}"

/-- `dist <function index in Gen.functions> n xbits[n] ybits[n]` : binary64 value of the generated
term (with the decorator's shift applied when the function is decorated), as a bit pattern. -/
def runDist : RM String := do
  let k ← nextN
  let n ← nextN
  let xs := (← nextIs n).map fun b => Float.ofBits b.toNat.toUInt64
  let ys := (← nextIs n).map fun b => Float.ofBits b.toNat.toUInt64
  match Gen.functions[k]? , Gen.bodies[k]? with
  | some (_, dec, _), some (_, body) =>
    let eps := litF Gen.decoratorEps.1 Gen.decoratorEps.2
    let shift (a : Array Float) (i : Nat) : Array Float :=
      if dec ∧ Gen.decoratorShifts.any (fun s => s.1 == i) then a.map (· + eps) else a
    let v := body.evalF (shift xs 0) (shift ys 1)
    return s!"{v.toBits.toNat}"
  | _, _ => return "bad-op"

def readLists (n : Nat) : RM (Array (List Nat)) := do
  let mut a := Array.mkEmpty n
  for _ in [0:n] do
    let len ← nextN
    a := a.push (← nextNs len).toList
  return a

def showLists (a : Array (List Nat)) : String :=
  " , ".intercalate (a.toList.map fun l => " ".intercalate (l.map toString))

/-- `arcs n k top tiny one w[n*n] priorBound {len entries}*n priorNplat[n] priorRadius[n]` -/
def runArcs : RM String := do
  let n ← nextN
  let k ← nextN
  let top ← nextI
  let tiny ← nextI
  let one ← nextI
  let m ← nextIs (n * n)
  let w := fun p q => m.getD (p * n + q) 0
  let pb ← nextI
  let adj ← readLists n
  let np ← nextNs n
  let rad ← nextIs n
  let g : KnnSub := { n := n, adj := adj, radius := rad, nplat := np, bound := pb }
  let (g', maxd) := createArcs w top tiny one k g
  return s!"{showLists g'.adj} | {showInts g'.radius} | {showNats g'.nplat} | {g'.bound} | {showInts maxd}"

def fbits (f : Float) : String := toString f.toBits.toNat
def rdF : RM Float := do return Float.ofBits (← nextI).toNat.toUInt64

/-- `pdf k n boundbits {k expbits}*n` -/
def runPdf : RM String := do
  let k ← nextN
  let n ← nextN
  let bound ← rdF
  let mut exps : Array (List Float) := #[]
  for _ in [0:n] do
    let mut es : Array Float := #[]
    for _ in [0:k] do es := es.push (← rdF)
    exps := exps.push es.toList
  let o := pdfG (0.0 : Float) 1.0 2.0 9.0 1000.0 1.7976931348623157e308 bound k (k + 1).toFloat exps.toList
  let sh (l : List Float) := " ".intercalate (l.map fbits)
  return s!"{fbits o.constant} | {fbits o.minD} | {fbits o.maxD} | {sh o.density} | {sh o.cost}"

/-- `qdens minbits maxbits k {expbits}*k` and `elim hbits densbits costbits` -/
def runQdens : RM String := do
  let mn ← rdF
  let mx ← rdF
  let k ← nextN
  let mut es : Array Float := #[]
  for _ in [0:k] do es := es.push (← rdF)
  return fbits (queryDensityG (0.0 : Float) 1.0 1000.0 1e-20 mn mx k.toFloat es.toList)

def runElim : RM String := do
  let h ← rdF
  let n ← nextN
  let mut out : Array String := #[]
  for _ in [0:n] do
    let d ← rdF
    let c ← rdF
    out := out.push (fbits (elimG (0.0 : Float) h d c))
  return " ".intercalate out.toList

/-- `cluster unsup force top negTop k n {adj}*n nplat[n] dens[n] cost[n] tlabel[n] lenOrder order..` -/
def runCluster : RM String := do
  let unsup := (← nextN) == 1
  let force := (← nextN) == 1
  let top ← nextI
  let negTop ← nextI
  let k ← nextN
  let n ← nextN
  let adj ← readLists n
  let np ← nextNs n
  let dens ← nextIs n
  let cost ← nextIs n
  let tl ← nextNs n
  let lo ← nextN
  let ord ← nextNs lo
  let c : Clu := { n := n, adj := adj, nplat := np, dens := dens, cost := cost,
                   pred := Array.replicate n none, root := Array.replicate n 0, lab := Array.replicate n 0,
                   tlabel := tl, order := ord, nclusters := 0 }
  let r := clusterRun unsup force top negTop k c
  return s!"{showLists r.adj} | {showNats r.nplat} | {showOpt r.pred} | {showNats r.root} | {showNats r.lab} | {showInts r.cost} | {showNats r.order} | {r.nclusters} | {showNats (propagateLabels r)}"

/-- `knnq k n top negTop density dist[n] cost[n] lab[n] clu[n]` : costs of the valid neighbour slots in
rank order, then label and cluster of the arg-max neighbour (0 0 when there is none) -/
def runKnnq : RM String := do
  let k ← nextN
  let n ← nextN
  let top ← nextI
  let negTop ← nextI
  let dens ← nextI
  let dist ← nextIs n
  let cost ← nextIs n
  let lab ← nextNs n
  let clu ← nextNs n
  let buf := queryNeighbours k n top (fun j => dist.getD j 0)
  let vs := validSlots k top buf
  let r := knnArgmax negTop (fun j => cost.getD j 0) dens vs
  let w := match r.1 with | none => "0 0" | some x => s!"{lab.getD x 0} {clu.getD x 0}"
  return s!"{" ".intercalate (vs.map fun s => toString (cost.getD s.2 0))} | {w}"

/-- `ncut n k nclusters {adj}*n nplat[n] clu[n] distbits[n*n]` -/
def runNcut : RM String := do
  let n ← nextN
  let k ← nextN
  let nc ← nextN
  let adj ← readLists n
  let np ← nextNs n
  let clu ← nextNs n
  let mut dm : Array Float := #[]
  for _ in [0:n*n] do dm := dm.push (← rdF)
  let v := normalizedCutG (0.0 : Float) 1.0 (fun i j => dm.getD (i * n + j) 0.0) adj np k (fun i => clu.getD i 0) n nc
  return fbits v

/-- `unsfit n minK maxK distbits[n*n] ntape (argbits resbits)*ntape` : whole `UnsupervisedOPF.fit` -/
def runUnsFit : RM String := do
  let n ← nextN
  let minK ← nextN
  let maxK ← nextN
  let mut dm : Array Float := #[]
  for _ in [0:n*n] do dm := dm.push (← rdF)
  let nt ← nextN
  let mut tape : Array (Float × Float) := #[]
  for _ in [0:nt] do
    let a ← rdF
    let r ← rdF
    tape := tape.push (a, r)
  let (s, cuts, bk, rest) := unsFit (fun i j => dm.getD (i * n + j) 0.0) n minK maxK tape.toList
  let fl (a : Array Float) := " ".intercalate (a.toList.map fbits)
  return s!"{match bk with | none => "-1" | some k => toString k} | {" ".intercalate (cuts.map fbits)} | {showLists s.sub.adj} | {showNats s.sub.nplat} | {showOpt s.pred} | {showNats s.root} | {showNats s.clu} | {fl s.cost} | {fl s.dens} | {showNats s.order} | {s.nclusters} | {fbits s.constant} {fbits s.minD} {fbits s.maxD} | {fbits (decF s.sub.bound)} | {if s.tapeOk then 1 else 0} {rest.length}"

/-- `knnfit n nv maxK y[n] yv[nv] distbits[n*n] qdistbits[nv*n] ntape (argbits resbits)*` : whole `KNNSupervisedOPF.fit` -/
def runKnnFit : RM String := do
  let n ← nextN
  let nv ← nextN
  let maxK ← nextN
  let y := (← nextNs n).toList
  let yv := (← nextNs nv).toList
  let mut dm : Array Float := #[]
  for _ in [0:n*n] do dm := dm.push (← rdF)
  let mut qm : Array Float := #[]
  for _ in [0:nv*n] do qm := qm.push (← rdF)
  let nt ← nextN
  let mut tape : Array (Float × Float) := #[]
  for _ in [0:nt] do
    let a ← rdF
    let r ← rdF
    tape := tape.push (a, r)
  let (s, accs, bk, rest) := knnFit (fun i j => dm.getD (i * n + j) 0.0) (fun q j => qm.getD (q * n + j) 0.0) n nv maxK y yv tape.toList
  let fl (a : Array Float) := " ".intercalate (a.toList.map fbits)
  return s!"{match bk with | none => "-1" | some k => toString k} | {" ".intercalate (accs.map fbits)} | {showOpt s.pred} | {showNats s.root} | {showNats s.lab} | {fl s.cost} | {fl s.dens} | {showNats s.order} | {fbits s.constant} {fbits s.minD} {fbits s.maxD} | {fbits (decF s.sub.bound)} | {if s.tapeOk then 1 else 0} {rest.length}"

/-- `lawclu unsup force negTop n {visited nbrs}*n dens[n] cost0[n] tlabel[n] lenOrder order..` : replay the real
removal order of a clustering through the relational semantics (tier B) -/
def runLawClu : RM String := do
  let unsup := (← nextN) == 1
  let force := (← nextN) == 1
  let negTop ← nextI
  let n ← nextN
  let nb ← readLists n
  let dens ← nextIs n
  let c0 ← nextIs n
  let tl ← nextNs n
  let lo ← nextN
  let ord ← nextNs lo
  let I : CluInst := { n := n, nbrs := fun p => nb.getD p [], dens := fun x => dens.getD x 0, cost0 := fun x => c0.getD x 0,
                       tlabel := fun x => tl.getD x 0, unsup := unsup, force := force, negTop := negTop }
  match I.runPicksCluF (CluInst.freeze n (I.init (fun _ => 0))) ord.toList with
  | none => return "unlawful"
  | some s =>
    let rng := Array.range n
    return s!"lawful {if I.isFinal s then 1 else 0} | {showInts (rng.map s.cost)} | {showOpt (rng.map s.pred)} | {showNats (rng.map s.root)} | {showNats (rng.map s.lab)} | {s.next}"

def runSelMax : RM String := do
  let start ← nextI
  let n ← nextN
  let accs ← nextIs n
  return match selectMaxAcc start accs.toList with | none => "-1" | some k => toString k

def runSelCut : RM String := do
  let top ← nextI
  let zero ← nextI
  let minK ← nextN
  let n ← nextN
  let cuts ← nextIs n
  let r := selectMinCut top zero minK cuts.toList
  return s!"{match r.1 with | none => "-1" | some k => toString k} {r.2}"

/-- `lawfit n top seeds[n] lam[n] w[n*n] pred0[n] lab0[n] lenOrder order..` : replay the real
conquest order through the relational semantics (tier B). -/
def runLawFit : RM String := do
  let n ← nextN
  let top ← nextI
  let seeds ← nextNs n
  let lam ← nextNs n
  let m ← nextIs (n * n)
  let p0 ← nextIs n
  let l0 ← nextNs n
  let lo ← nextN
  let ord ← nextNs lo
  let I : CompInst := { n := n, w := fun p q => m.getD (p * n + q) 0, seed := fun x => seeds.getD x 0 == 1,
                        lam := fun x => lam.getD x 0, top := top }
  let pred0 := fun x => let v := p0.getD x (-1); if v < 0 then none else some v.toNat
  match I.runPicksF (CompInst.freeze n (I.init pred0 (fun x => l0.getD x 0))) ord.toList with
  | none => return "unlawful"
  | some s =>
    let rng := Array.range n
    return s!"lawful {if I.isFinal s then 1 else 0} | {showInts (rng.map s.cost)} | {showOpt (rng.map s.pred)} | {showNats (rng.map s.lab)}"

/-- `lawprim n top lam[n] w[n*n] lenOrder order..` : same for Prim (order = removal order). -/
def runLawPrim : RM String := do
  let n ← nextN
  let top ← nextI
  let lam ← nextNs n
  let m ← nextIs (n * n)
  let lo ← nextN
  let ord ← nextNs lo
  let I : PrimInst := { n := n, w := fun p q => m.getD (p * n + q) 0, lam := fun x => lam.getD x 0, top := top }
  match I.runPicksF (PrimInst.freeze n I.init) ord.toList with
  | none => return "unlawful"
  | some s =>
    let rng := Array.range n
    return s!"lawful {if I.isFinal s then 1 else 0} | {showOpt (rng.map s.pred)} | {showBools (rng.map s.proto)}"

/-- `predict n cost[n] plabel[n] pred[n] lenOrder order.. nq d[nq*n]` : prediction pass on a given forest -/
def runPredict : RM String := do
  let n ← nextN
  let cost ← nextIs n
  let pl ← nextNs n
  let pr ← nextIs n
  let lo ← nextN
  let ord ← nextNs lo
  let f : Forest := { n := n, pred := pr.map (fun v => if v < 0 then none else some v.toNat), proto := Array.replicate n false,
                      ncost := cost, plabel := pl, label := Array.replicate n 0, order := ord,
                      relevant := Array.replicate n false }
  let nq ← nextN
  let dm ← nextIs (nq * n)
  let ds := (List.range nq).map fun i => fun t => dm.getD (i * n + t) 0
  let (f2, labs) := predictBatch f ds
  let ls := " ".intercalate (labs.map fun o => match o with | none => "-1" | some x => toString x)
  return s!"{ls} | {showBools f2.relevant}"

/-- `acc n labels[n] preds[n]` : confusion matrix | opf_accuracy bits | per-label bits | purity bits -/
def runAcc : RM String := do
  let n ← nextN
  let labels := (← nextNs n).toList
  let preds := (← nextNs n).toList
  let cast : Nat → Float := fun k => k.toFloat
  let cm := confusion labels preds
  let a := opfAccuracyG cast 0.0 1.0 labels preds
  let pl := perLabelG cast 1.0 labels preds
  let pu := purityG cast 0.0 labels preds
  return s!"{" , ".intercalate (cm.map fun r => " ".intercalate (r.map toString))} | {fbits a} | {" ".intercalate (pl.map fbits)} | {fbits pu}"

/-- `acc1 n labels[n] preds[n]` : opf_accuracy only (predictions may exceed the label range) -/
def runAcc1 : RM String := do
  let n ← nextN
  let labels := (← nextNs n).toList
  let preds := (← nextNs n).toList
  return fbits (opfAccuracyG (fun k => k.toFloat) 0.0 1.0 labels preds)

/-- `norm n bits[n]` : one column -/
def runNorm : RM String := do
  let n ← nextN
  let mut col : Array Float := #[]
  for _ in [0:n] do col := col.push (← rdF)
  let o := normalizeColG (fun k => k.toFloat) (0.0 : Float) Float.sqrt col.toList
  return " ".intercalate (o.map fbits)

/-- `split n halt perm[n] labels[n]` : I1 | Y1 | I2 | Y2 (rows are identified by their index) -/
def runSplit : RM String := do
  let n ← nextN
  let halt ← nextN
  let perm := (← nextNs n).toList
  let ys := (← nextNs n).toList
  let r := splitRun (List.range n) ys perm halt
  let sh (l : List Nat) := " ".intercalate (l.map toString)
  let m := mergeRun r.1.1 r.2.1 r.1.2.1 r.2.2.1
  return s!"{sh r.1.2.2} | {sh r.1.1} | {sh r.1.2.1} | {sh r.2.2.2} | {sh r.2.1} | {sh r.2.2.1} | {sh m.1} | {sh m.2}"

def runParse : RM String := do
  let n ← nextN
  let labels := (← nextIs n).toList
  return if parseAccept labels then "1" else "0"

def runDecode : RM String := do
  let n ← nextN
  let bytes := ((← nextNs n).toList).map (fun b => b.toUInt8)
  match decodeOpf bytes with
  | none => return "none"
  | some ss => return " , ".intercalate (ss.map fun s => s!"{s.id} {s.label} {" ".intercalate (s.feats.map fun f => toString f.toNat)}")

/-- `swap nt nv nonProto proto[nt] ne errors[ne] nd draws[nd]` -/
def runSwap : RM String := do
  let nt ← nextN
  let nv ← nextN
  let np ← nextN
  let proto ← nextNs nt
  let ne ← nextN
  let errs := (← nextNs ne).toList
  let ndr ← nextN
  let draws := (← nextNs ndr).toList
  let s0 : SwapSt Nat := { train := List.range nt, val := (List.range nv).map (· + nt), nonProto := np, draws := draws }
  let s := swapLoop (fun j => proto.getD j 0 == 1) errs s0
  let sh (l : List Nat) := " ".intercalate (l.map toString)
  return s!"{sh s.train} | {sh s.val}"

def runBest : RM String := do
  let start ← nextI
  let n ← nextN
  let accs := (← nextIs n).toList
  return match bestIter start accs with | none => "-1" | some k => toString k

/-- `iters nIter n accbits[n]` : how many iterations `learn` runs on this accuracy sequence -/
def runIters : RM String := do
  let nIter ← nextN
  let n ← nextN
  let mut accs : Array Float := #[]
  for _ in [0:n] do accs := accs.push (← rdF)
  return toString (learnIterations nIter 0.0 0 accs.toList)

def runPrune : RM String := do
  let n ← nextN
  let rel ← nextNs n
  return " ".intercalate ((pruneFilter (fun i => rel.getD i 0 == 1) (List.range n)).map toString)

def dispatch (line : String) : String :=
  match (line.splitOn " ").filter (· ≠ "") with
  | [] => "bad-op"
  | name :: rest =>
    let toks := (rest.map fun t => t.toInt?.getD 0).toArray
    let run (m : RM String) : String := (m.run { toks := toks }).1
    match name with
    | "heap" => run runHeap
    | "prim" => run runPrim
    | "fit" => run runFit
    | "predict" => run runPredict
    | "acc" => run runAcc
    | "acc1" => run runAcc1
    | "norm" => run runNorm
    | "split" => run runSplit
    | "parse" => run runParse
    | "decode" => run runDecode
    | "swap" => run runSwap
    | "best" => run runBest
    | "prune" => run runPrune
    | "iters" => run runIters
    | "dist" => run runDist
    | "arcs" => run runArcs
    | "pdf" => run runPdf
    | "qdens" => run runQdens
    | "elim" => run runElim
    | "cluster" => run runCluster
    | "knnq" => run runKnnq
    | "ncut" => run runNcut
    | "unsfit" => run runUnsFit
    | "knnfit" => run runKnnFit
    | "selmax" => run runSelMax
    | "selcut" => run runSelCut
    | "lawfit" => run runLawFit
    | "lawclu" => run runLawClu
    | "lawprim" => run runLawPrim
    | _ => "bad-op"

partial def loop (h : IO.FS.Stream) (out : IO.FS.Stream) : IO Unit := do
  let line ← h.getLine
  if line.isEmpty then return ()
  out.putStrLn (dispatch line.trimAscii.toString)
  loop h out

def main : IO Unit := do
  let stdin ← IO.getStdin
  let stdout ← IO.getStdout
  loop stdin stdout
