/-
Line-protocol driver for the correspondence check (DESIGN §2.2).
Run with:  lake env lean --run Driver.lean < ops.txt > model.out
Every input line is `<stream> <int> <int> ...`; every output line is the canonical observation
of the model for that case (or `bad-op` when the line is outside the modelled domain).
-/
import OpfVerif.Model.Heap
import OpfVerif.Model.Forest
import OpfVerif.Model.Expr
import OpfVerif.Gen.Distance
import OpfVerif.Gen.Decorator
open Opf

structure Rd where
  toks : Array Int
  i : Nat := 0

abbrev RM := StateM Rd

def nextI : RM Int := do
  let s ← get
  set { s with i := s.i + 1 }
  return s.toks.getD s.i 0
def nextN : RM Nat := do return (← nextI).toNat
def nextNs (k : Nat) : RM (Array Nat) := do
  let mut a := Array.mkEmpty k
  for _ in [0:k] do a := a.push (← nextN)
  return a
def nextIs (k : Nat) : RM (Array Int) := do
  let mut a := Array.mkEmpty k
  for _ in [0:k] do a := a.push (← nextI)
  return a

def showInts (a : Array Int) : String := " ".intercalate (a.toList.map toString)
def showNats (a : Array Nat) : String := " ".intercalate (a.toList.map toString)
def showOpt (a : Array (Option Nat)) : String :=
  " ".intercalate (a.toList.map fun o => match o with | none => "-1" | some x => toString x)
def showBools (a : Array Bool) : String := " ".intercalate (a.toList.map fun b => if b then "1" else "0")

def heapObs (h : Heap) (ret : Int) : String :=
  let ps := (Array.range h.cnt).map h.slot
  s!"{ret} {h.cnt} | {showNats ps} | {showNats (ps.map h.posOf)} | {showNats h.color} | {showInts h.cost}"

def runHeap : RM String := do
  let size ← nextN
  let isMax := (← nextN) == 1
  let top ← nextI
  let nops ← nextN
  let mut h := Heap.init size isMax top
  let mut out : Array String := #[]
  for _ in [0:nops] do
    let op ← nextN
    if op == 0 then
      let x ← nextN
      if x < size then
        let (h', ok) := h.insert x
        h := h'
        out := out.push (heapObs h (if ok then 1 else 0))
      else out := out.push "bad-op"
    else if op == 1 then
      let (h', r) := h.remove
      h := h'
      out := out.push (heapObs h (match r with | none => -1 | some x => (x : Int)))
    else if op == 2 then
      let x ← nextN
      let c ← nextI
      if x < size then
        h := h.update x c
        out := out.push (heapObs h 0)
      else out := out.push "bad-op"
    else if op == 3 then
      let x ← nextN
      let c ← nextI
      if x < size ∧ h.colorOf x = WHITE then
        let (h', ok) := (h.setCost x c).insert x
        h := h'
        out := out.push (heapObs h (if ok then 1 else 0))
      else out := out.push "bad-op"
    else out := out.push "bad-op"
  return " ; ".intercalate out.toList

def forestObs (f : Forest) : String :=
  s!"{showBools f.proto} | {showInts f.ncost} | {showOpt f.pred} | {showNats f.plabel} | {showNats f.label} | {showNats f.order}"

/-- `prim nLab top labels[nLab] w[nLab*nLab]` -/
def runPrim : RM String := do
  let n ← nextN
  let top ← nextI
  let lab ← nextNs n
  let m ← nextIs (n * n)
  let w := fun p q => m.getD (p * n + q) 0
  let s := primRun w top n (Forest.init lab)
  return s!"{forestObs s.f} | {if s.h.isEmpty then 1 else 0}"

/-- `fit semi nLab n top labels[n] w[n*n] nq d[nq*n]` : fit, then predict the `nq` queries. -/
def runFit : RM String := do
  let semi := (← nextN) == 1
  let nLab ← nextN
  let n ← nextN
  let top ← nextI
  let lab ← nextNs n
  let m ← nextIs (n * n)
  let w := fun p q => m.getD (p * n + q) 0
  let s := fitRun w top semi nLab lab
  let nq ← nextN
  let dm ← nextIs (nq * n)
  let ds := (List.range nq).map fun i => fun t => dm.getD (i * n + t) 0
  let (f2, labs) := predictBatch s.f ds
  let ls := " ".intercalate (labs.map fun o => match o with | none => "-1" | some x => toString x)
  return s!"{forestObs s.f} | {if s.h.isEmpty then 1 else 0} | {ls} | {showBools f2.relevant}"

/-- `dist <function index in Gen.functions> n xbits[n] ybits[n]` : binary64 value of the generated
term (with the decorator's shift applied when the function is decorated), as a bit pattern. -/
def runDist : RM String := do
  let k ← nextN
  let n ← nextN
  let xs := (← nextIs n).map fun b => Float.ofBits b.toNat.toUInt64
  let ys := (← nextIs n).map fun b => Float.ofBits b.toNat.toUInt64
  match Gen.functions[k]? , Gen.bodies[k]? with
  | some (_, dec, _), some (_, body) =>
    let eps := litF Gen.decoratorEps.1 Gen.decoratorEps.2
    let shift (a : Array Float) (i : Nat) : Array Float :=
      if dec ∧ Gen.decoratorShifts.any (fun s => s.1 == i) then a.map (· + eps) else a
    let v := body.evalF (shift xs 0) (shift ys 1)
    return s!"{v.toBits.toNat}"
  | _, _ => return "bad-op"

def dispatch (line : String) : String :=
  match (line.splitOn " ").filter (· ≠ "") with
  | [] => "bad-op"
  | name :: rest =>
    let toks := (rest.map fun t => t.toInt?.getD 0).toArray
    let run (m : RM String) : String := (m.run { toks := toks }).1
    match name with
    | "heap" => run runHeap
    | "prim" => run runPrim
    | "fit" => run runFit
    | "dist" => run runDist
    | _ => "bad-op"

partial def loop (h : IO.FS.Stream) (out : IO.FS.Stream) : IO Unit := do
  let line ← h.getLine
  if line.isEmpty then return ()
  out.putStrLn (dispatch line.trimAscii.toString)
  loop h out

def main : IO Unit := do
  let stdin ← IO.getStdin
  let stdout ← IO.getStdout
  loop stdin stdout
