/-
Line-protocol driver for the GENERATED translations of the converters, `load_json` and `parse_loader`
(`Gen/ConvImp.lean`, `Gen/ParseImp.lean`; DESIGN §2.1b/§2.2), whose reading of `struct`, file reads, dicts and numpy column
indexing (`Model/PyStruct.lean`, `Model/PyMeas.lean`) is trusted and therefore also sampled against the real functions.
A driver of its own, so that a change confined to `math/general.py` (which `DriverGen.lean` depends on) does not stop it.
Run with:  lake env lean --run DriverConv.lean < ops.txt
`gconv nbytes b…` runs the translated converters (`Gen/ConvImp.lean`) on the file bytes and prints
  <rows opf2txt | ERR> | <rows opf2csv | ERR> | <records opf2json | ERR> | <rows load_json(opf2json) | ERR>
(a row is `id label bits…` with binary32 bit patterns, rows joined by " , "; a record is `key=value …`).
`gparse r c v…` runs the translated `parse_loader` (`Gen/ParseImp.lean`) on an r × c integer matrix:  <labels ; X rows | ERR>.
-/
import OpfVerif.Gen.ConvImp
import OpfVerif.Gen.ParseImp
open Opf Opf.Gen

def svalS : PyS.SVal → String
  | .int i => toString i
  | .f32 b => "f" ++ toString b.toNat

def rowsS (r : Option (Array (Array PyS.SVal))) : String :=
  match r with
  | none => "ERR"
  | some rows => " , ".intercalate (rows.toList.map fun row => " ".intercalate (row.toList.map svalS))

def jvalS : PyS.JVal → String
  | .sc v => svalS v
  | .arr a => "[" ++ " ".intercalate (a.toList.map svalS) ++ "]"

def recsS (r : Option (Array PyS.JRec)) : String :=
  match r with
  | none => "ERR"
  | some recs => " , ".intercalate (recs.toList.map fun rec => " ".intercalate (rec.map fun (k, v) => k ++ "=" ++ jvalS v))

def runGconv (toks : Array Int) : String :=
  let n := (toks.getD 0 0).toNat
  let bytes : List UInt8 := ((toks.extract 1 (1 + n)).toList.map fun (i : Int) => UInt8.ofNat i.toNat)
  let j := ConvImp.opf2json bytes
  s!"{rowsS (ConvImp.opf2txt bytes)} | {rowsS (ConvImp.opf2csv bytes)} | {recsS j} | {rowsS (j.bind ConvImp.load_json)}"

def runGparse (toks : Array Int) : String :=
  let r := (toks.getD 0 0).toNat
  let c := (toks.getD 1 0).toNat
  let data : Array (Array Int) := (Array.range r).map fun i => toks.extract (2 + i * c) (2 + (i + 1) * c)
  match ParseImp.parse_loader data with
  | none => "ERR"
  | some (X, Y) => " ".intercalate (Y.toList.map toString) ++ " ; " ++
      " , ".intercalate (X.toList.map fun (row : Array Int) => " ".intercalate (row.toList.map toString))

partial def loopC (h : IO.FS.Stream) : IO Unit := do
  let line ← h.getLine
  if line.isEmpty then return ()
  let parts := (line.trimAscii.toString.splitOn " ").filter (· ≠ "")
  match parts with
  | "gconv" :: rest =>
    IO.println (runGconv (rest.map (fun t => t.toInt?.getD 0)).toArray)
  | "gparse" :: rest =>
    IO.println (runGparse (rest.map (fun t => t.toInt?.getD 0)).toArray)
  | _ => IO.println "bad-op"
  loopC h

def main : IO Unit := do loopC (← IO.getStdin)
