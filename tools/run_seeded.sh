#!/bin/sh
# applies every seeded change to /repo in turn, runs the check of the property it breaks (quick tier),
# reverts, and writes seeded/RESULTS.md. /repo must be clean. Never leaves a patch applied.
cd "$(dirname "$0")/.." || exit 2
export VERIF_EVIDENCE_DIR=/tmp/opfverif-mutant-evidence
out=seeded/RESULTS.md
{
echo "# Seeded changes vs checks (quick tier, seed ${VERIF_SEED:-default})"
echo
echo "| change | check | exit | verdict line |"
echo "|---|---|---|---|"
} > $out
for d in seeded/C*_*; do
  id=$(basename $d); p=${id%_*}
  if ! git -C /repo diff --quiet; then echo "/repo dirty"; exit 2; fi
  git -C /repo apply "$PWD/$d/patch.diff" || { echo "| $id | $p | - | patch does not apply |" >> $out; continue; }
  res=$(./check $p 2>&1); rc=$?
  git -C /repo checkout -- .
  v=$(echo "$res" | grep -E "VIOLATION" | head -1 | sed 's/|/\\|/g')
  echo "| $id | $p | $rc | ${v:-(none)} |" >> $out
  echo "$id rc=$rc"
done
/venv/bin/python tools/translate.py >/dev/null 2>&1
git -C /repo status --short | head -3
