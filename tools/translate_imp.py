#!/venv/bin/python
"""Statement-level translator: a Python class with list/int state -> Lean 4 (DESIGN §2.1b).

    /repo/opfython/core/heap.py  (class Heap)  ->  lean/OpfVerif/Gen/HeapImp.lean

Only the AST is read.  Every method becomes a definition in the `Option` monad over an explicit
object record, written against `Model/PyPrelude.lean` (Python list indexing with negative indices
and IndexError, `int(a / b)`, `while` as a least fixed point).  The supported fragment is exactly
what the class uses; anything else raises `Untranslatable` — a broken proof obligation, handled
by the check as such (never silently skipped).

Reading of Python that is trusted here (listed in DESIGN §6):
  * evaluation order: right-hand side first, then targets left to right; operands left to right;
    `and`/`or`/`not` short-circuit;
  * a property whose getter is `return self._x` is a field; assigning it runs the setter, whose
    `raise` statements become `none`; `isinstance` tests are decided from the annotations;
  * `self.x[i] = v` mutates the list held by the field (no setter call);
  * `x / y` on ints appears only under `int(…)` and is translated to truncated division;
  * parameters have the types of their annotations.
"""
import ast
import os

INT, FLOAT, BOOL, STR, UNIT = "int", "float", "bool", "str", "unit"
LINT, LFLOAT = "list[int]", "list[float]"
INT_OR_BOOL = "int|bool"

LEAN_TY = {INT: "Int", FLOAT: "Int", BOOL: "Bool", STR: "String", UNIT: "Unit",
           LINT: "Array Int", LFLOAT: "Array Int", INT_OR_BOOL: "(Sum Int Bool)"}


class Untranslatable(Exception):
    pass


class Imp:
    def __init__(self, path, clsname, consts, const_alias="c", rel=None):
        self.path = path
        self.rel = rel or path
        self.consts = consts
        self.const_alias = const_alias
        src = open(path).read()
        tree = ast.parse(src)
        self.cls = None
        for n in tree.body:
            if isinstance(n, ast.ClassDef) and n.name == clsname:
                self.cls = n
        if self.cls is None:
            raise Untranslatable(f"{self.rel}: class {clsname} not found")
        self.fields = {}     # name -> type tag
        self.setters = {}    # name -> FunctionDef
        self.methods = {}    # name -> FunctionDef
        self.init = None
        self.tmp = 0
        self._scan()

    # ------------------------------------------------------------------ utilities
    def fail(self, node, msg):
        raise Untranslatable(f"untranslatable construct at {self.rel}:{getattr(node, 'lineno', '?')}: {msg}")

    def ann(self, a, node):
        if a is None:
            self.fail(node, "missing annotation")
        s = ast.unparse(a)
        table = {"int": INT, "float": FLOAT, "bool": BOOL, "str": STR, "None": UNIT,
                 "List[int]": LINT, "List[float]": LFLOAT, "list[int]": LINT, "list[float]": LFLOAT}
        if s not in table:
            self.fail(node, f"annotation {s}")
        return table[s]

    def fresh(self):
        self.tmp += 1
        return f"t{self.tmp}"

    @staticmethod
    def ind(lines, n=2):
        return [(" " * n) + ln for ln in lines]

    # ------------------------------------------------------------------ class scan
    def _scan(self):
        for n in self.cls.body:
            if isinstance(n, ast.Expr) and isinstance(n.value, ast.Constant):
                continue
            if not isinstance(n, ast.FunctionDef):
                self.fail(n, f"class-level statement {type(n).__name__}")
            decs = [ast.unparse(d) for d in n.decorator_list]
            if decs == ["property"]:
                body = [s for s in n.body if not (isinstance(s, ast.Expr) and isinstance(s.value, ast.Constant))]
                if not (len(body) == 1 and isinstance(body[0], ast.Return)
                        and ast.unparse(body[0].value) == f"self._{n.name}"):
                    self.fail(n, f"getter of {n.name} is not `return self._{n.name}`")
                self.fields[n.name] = self.ann(n.returns, n)
            elif len(decs) == 1 and decs[0].endswith(".setter"):
                self.setters[n.name] = n
            elif decs:
                self.fail(n, f"decorator {decs}")
            elif n.name == "__init__":
                self.init = n
            elif n.name.startswith("__"):
                self.fail(n, f"special method {n.name}")
            else:
                self.methods[n.name] = n
        for f in self.fields:
            if f not in self.setters:
                self.fail(self.cls, f"property {f} has no setter")
            if f in self.methods:
                self.fail(self.cls, f"name {f} is both a property and a method")
        if self.init is None:
            self.fail(self.cls, "no __init__")
        # purity: a method is impure if it stores through self or calls an impure method
        self.impure = set()
        changed = True
        while changed:
            changed = False
            for name, fn in self.methods.items():
                if name in self.impure:
                    continue
                if self._stores_self(fn) or any(c in self.impure for c in self._self_calls(fn)):
                    self.impure.add(name)
                    changed = True
        # return types
        self.ret = {}
        for name, fn in self.methods.items():
            t = self.ann(fn.returns, fn)
            if t == INT:
                for r in ast.walk(fn):
                    if isinstance(r, ast.Return) and isinstance(r.value, ast.Constant) and isinstance(r.value.value, bool):
                        t = INT_OR_BOOL
            self.ret[name] = t
        # call order
        self.order = []
        seen = set()

        def visit(m, stack):
            if m in seen:
                return
            for c in self._self_calls(self.methods[m]):
                if c != m and c in self.methods:
                    if c in stack:
                        self.fail(self.methods[m], f"mutual recursion {m} <-> {c}")
                    visit(c, stack | {m})
            seen.add(m)
            self.order.append(m)
        for m in self.methods:
            visit(m, set())

    def _stores_self(self, fn):
        for n in ast.walk(fn):
            tgts = []
            if isinstance(n, ast.Assign):
                tgts = n.targets
            elif isinstance(n, ast.AugAssign):
                tgts = [n.target]
            for t in tgts:
                for s in (t.elts if isinstance(t, ast.Tuple) else [t]):
                    root = s
                    while isinstance(root, (ast.Subscript, ast.Attribute)):
                        root = root.value
                    if isinstance(root, ast.Name) and root.id == "self" and not isinstance(s, ast.Name):
                        return True
        return False

    def _self_calls(self, fn):
        out = []
        for n in ast.walk(fn):
            if (isinstance(n, ast.Call) and isinstance(n.func, ast.Attribute)
                    and isinstance(n.func.value, ast.Name) and n.func.value.id == "self"):
                out.append(n.func.attr)
        return out

    # ------------------------------------------------------------------ expressions
    def expr(self, e, env, lines, in_branch=False):
        """returns (lean term, type tag); binds needed to evaluate it are appended to `lines`."""
        if isinstance(e, ast.Constant):
            v = e.value
            if isinstance(v, bool):
                return ("true" if v else "false"), BOOL
            if isinstance(v, int):
                return f"({v} : Int)", INT
            if isinstance(v, str):
                return '"' + v.replace("\\", "\\\\").replace('"', '\\"') + '"', STR
            self.fail(e, f"constant {v!r}")
        if isinstance(e, ast.Name):
            if e.id not in env:
                self.fail(e, f"name {e.id} not bound on every path")
            return e.id, env[e.id]
        if isinstance(e, ast.Attribute) and isinstance(e.value, ast.Name):
            if e.value.id == "self":
                if e.attr in self.fields:
                    return f"self.{e.attr}", self.fields[e.attr]
                self.fail(e, f"attribute self.{e.attr} is not a property of the class")
            if e.value.id == self.const_alias:
                if e.attr not in self.consts:
                    self.fail(e, f"unknown constant {e.attr}")
                v = self.consts[e.attr]
                if v == "FLOAT_MAX":
                    self.uses_float_max = True
                    return "FLOAT_MAX", FLOAT
                if isinstance(v, int):
                    return f"({v} : Int)", INT
                self.fail(e, f"constant {e.attr} = {v!r}")
        if isinstance(e, ast.Subscript):
            a, ta = self.expr(e.value, env, lines, in_branch)
            i, ti = self.expr(e.slice, env, lines, in_branch)
            if ta not in (LINT, LFLOAT) or ti != INT:
                self.fail(e, f"subscript of {ta} by {ti}")
            t = self.fresh()
            lines.append(f"let {t} ← Py.idx {a} {i}")
            return t, (INT if ta == LINT else FLOAT)
        if isinstance(e, ast.BinOp):
            if isinstance(e.op, ast.Div):
                self.fail(e, "true division outside int(…)")
            a, ta = self.expr(e.left, env, lines, in_branch)
            b, tb = self.expr(e.right, env, lines, in_branch)
            ops = {ast.Add: "+", ast.Sub: "-", ast.Mult: "*"}
            if type(e.op) not in ops or ta != INT or tb != INT:
                self.fail(e, f"binary operator {type(e.op).__name__} on {ta}, {tb}")
            return f"({a} {ops[type(e.op)]} {b})", INT
        if isinstance(e, ast.UnaryOp):
            if isinstance(e.op, ast.Not):
                a, ta = self.expr(e.operand, env, lines, in_branch)
                if ta != BOOL:
                    self.fail(e, f"not of {ta}")
                return f"(!{a})", BOOL
            if isinstance(e.op, ast.USub):
                a, ta = self.expr(e.operand, env, lines, in_branch)
                if ta != INT:
                    self.fail(e, f"negation of {ta}")
                return f"(-{a})", INT
            self.fail(e, "unary operator")
        if isinstance(e, ast.Compare):
            if len(e.ops) != 1:
                self.fail(e, "chained comparison")
            op = e.ops[0]
            if isinstance(op, (ast.In, ast.NotIn)):
                a, ta = self.expr(e.left, env, lines, in_branch)
                r = e.comparators[0]
                if not (isinstance(r, ast.List) and ta == STR
                        and all(isinstance(x, ast.Constant) and isinstance(x.value, str) for x in r.elts)):
                    self.fail(e, "membership test")
                lst = "[" + ", ".join('"' + x.value + '"' for x in r.elts) + "]"
                t = f"({lst}.contains {a})"
                return (f"(!{t})" if isinstance(op, ast.NotIn) else t), BOOL
            a, ta = self.expr(e.left, env, lines, in_branch)
            b, tb = self.expr(e.comparators[0], env, lines, in_branch)
            if ta != tb or ta not in (INT, FLOAT, STR):
                self.fail(e, f"comparison of {ta} with {tb}")
            ops = {ast.Eq: "=", ast.NotEq: "≠", ast.Lt: "<", ast.LtE: "≤", ast.Gt: ">", ast.GtE: "≥"}
            if type(op) not in ops or (ta == STR and type(op) not in (ast.Eq, ast.NotEq)):
                self.fail(e, f"comparison operator {type(op).__name__}")
            return f"(decide ({a} {ops[type(op)]} {b}))", BOOL
        if isinstance(e, ast.BoolOp):
            is_and = isinstance(e.op, ast.And)
            acc, ta = self.expr(e.values[0], env, lines, in_branch)
            if ta != BOOL:
                self.fail(e, f"boolean operator on {ta}")
            for v in e.values[1:]:
                sub = []
                b, tb = self.expr(v, env, sub, True)
                if tb != BOOL:
                    self.fail(e, f"boolean operator on {tb}")
                if not sub:
                    acc = f"({acc} && {b})" if is_and else f"({acc} || {b})"
                else:
                    t = self.fresh()
                    if is_and:
                        lines.append(f"let {t} ← (if {acc} then (do")
                        lines.extend(self.ind(sub, 4))
                        lines.append(f"    pure {b}) else pure false)")
                    else:
                        lines.append(f"let {t} ← (if {acc} then pure true else (do")
                        lines.extend(self.ind(sub, 4))
                        lines.append(f"    pure {b}))")
                    acc = t
            return acc, BOOL
        if isinstance(e, ast.Call):
            f = e.func
            if isinstance(f, ast.Name) and f.id == "int" and len(e.args) == 1 and not e.keywords:
                a0 = e.args[0]
                if isinstance(a0, ast.BinOp) and isinstance(a0.op, ast.Div):
                    a, ta = self.expr(a0.left, env, lines, in_branch)
                    b, tb = self.expr(a0.right, env, lines, in_branch)
                    if ta != INT or tb != INT:
                        self.fail(e, f"int(a / b) on {ta}, {tb}")
                    t = self.fresh()
                    lines.append(f"let {t} ← Py.intTrueDiv {a} {b}")
                    return t, INT
                a, ta = self.expr(a0, env, lines, in_branch)
                if ta != INT:
                    self.fail(e, f"int() of {ta}")
                return a, INT
            if isinstance(f, ast.Name) and f.id == "isinstance" and len(e.args) == 2:
                a, ta = self.expr(e.args[0], env, lines, in_branch)
                want = ast.unparse(e.args[1])
                ok = {"int": ta in (INT, BOOL), "list": ta in (LINT, LFLOAT), "str": ta == STR,
                      "float": ta == FLOAT, "bool": ta == BOOL}
                if want not in ok:
                    self.fail(e, f"isinstance(…, {want})")
                return ("true" if ok[want] else "false"), BOOL
            if (isinstance(f, ast.Attribute) and isinstance(f.value, ast.Name) and f.value.id == "self"
                    and f.attr in self.methods and not e.keywords):
                m = f.attr
                fn = self.methods[m]
                params = fn.args.args[1:]
                if len(e.args) != len(params):
                    self.fail(e, f"call of {m} with {len(e.args)} arguments")
                args = []
                for a_, p_ in zip(e.args, params):
                    a, ta = self.expr(a_, env, lines, in_branch)
                    if ta != self.ann(p_.annotation, p_):
                        self.fail(e, f"argument of type {ta} for parameter {p_.arg}")
                    args.append(a)
                t = self.fresh()
                argstr = "".join(" " + a for a in args)
                if m in self.impure:
                    if in_branch:
                        self.fail(e, f"state-changing call {m} inside a short-circuit operand")
                    lines.append(f"let (self, {t}) ← Obj.{m} self{argstr}")
                    self.touched_self = True
                else:
                    lines.append(f"let {t} ← Obj.{m} self{argstr}")
                return t, self.ret[m]
            self.fail(e, f"call {ast.unparse(f)}")
        if isinstance(e, ast.ListComp):
            if len(e.generators) == 1 and not e.generators[0].ifs and isinstance(e.generators[0].target, ast.Name):
                g = e.generators[0]
                it = g.iter
                if (isinstance(it, ast.Call) and isinstance(it.func, ast.Name) and it.func.id == "range"
                        and len(it.args) == 1):
                    n, tn = self.expr(it.args[0], env, lines, in_branch)
                    if tn != INT:
                        self.fail(e, "range of non-int")
                    if any(isinstance(x, ast.Name) and x.id == g.target.id for x in ast.walk(e.elt)):
                        self.fail(e, "comprehension element depends on the loop variable")
                    v, tv = self.expr(e.elt, env, lines, in_branch)
                    if tv not in (INT, FLOAT):
                        self.fail(e, f"list of {tv}")
                    return f"(Py.replicate {n} {v})", (LINT if tv == INT else LFLOAT)
            self.fail(e, "list comprehension")
        self.fail(e, f"expression {type(e).__name__}")

    # ------------------------------------------------------------------ statements
    @staticmethod
    def is_doc(s):
        return isinstance(s, ast.Expr) and isinstance(s.value, ast.Constant)

    def terminates(self, stmts):
        """every path through `stmts` ends in return/raise."""
        for s in stmts:
            if isinstance(s, (ast.Return, ast.Raise)):
                return True
            if isinstance(s, ast.If) and s.orelse and self.terminates(s.body) and self.terminates(s.orelse):
                return True
        return False

    @staticmethod
    def has_exit(stmts):
        return any(isinstance(n, (ast.Return, ast.Raise, ast.Break, ast.Continue))
                   for s in stmts for n in ast.walk(s))

    def assigned(self, stmts):
        """names (and 'self') a statement list may assign, in first-occurrence order."""
        out = []

        def add(x):
            if x not in out:
                out.append(x)
        for s in stmts:
            for n in ast.walk(s):
                tg = []
                if isinstance(n, ast.Assign):
                    tg = n.targets
                elif isinstance(n, ast.AugAssign):
                    tg = [n.target]
                for t in tg:
                    for u in (t.elts if isinstance(t, ast.Tuple) else [t]):
                        if isinstance(u, ast.Name):
                            add(u.id)
                        else:
                            add("self")
                if (isinstance(n, ast.Call) and isinstance(n.func, ast.Attribute)
                        and isinstance(n.func.value, ast.Name) and n.func.value.id == "self"
                        and n.func.attr in self.impure):
                    add("self")
        return out

    def tuple_of(self, names):
        return names[0] if len(names) == 1 else "(" + ", ".join(names) + ")"

    def sigma(self, names, env):
        tys = ["Obj" if n == "self" else LEAN_TY[env[n]] for n in names]
        return " × ".join(tys)

    def store(self, target, val, tv, env, lines):
        if isinstance(target, ast.Name):
            if target.id in env and env[target.id] != tv:
                self.fail(target, f"variable {target.id} changes type from {env[target.id]} to {tv}")
            if target.id == "self":
                self.fail(target, "assignment to self")
            lines.append(f"let {target.id} := {val}")
            env[target.id] = tv
            return
        if (isinstance(target, ast.Attribute) and isinstance(target.value, ast.Name)
                and target.value.id == "self"):
            name = target.attr
            if self.mode == "setter" and name == "_" + self.cur:
                if self.fields[self.cur] != tv:
                    self.fail(target, f"field {self.cur} of type {self.fields[self.cur]} assigned {tv}")
                lines.append(f"let self := {{ self with {self.cur} := {val} }}")
                return
            if name in self.fields:
                if self.fields[name] != tv:
                    self.fail(target, f"property {name} of type {self.fields[name]} assigned {tv}")
                lines.append(f"let self ← Obj.set_{name} self {val}")
                return
            self.fail(target, f"store to self.{name}")
        if isinstance(target, ast.Subscript):
            o = target.value
            if not (isinstance(o, ast.Attribute) and isinstance(o.value, ast.Name) and o.value.id == "self"
                    and o.attr in self.fields and self.fields[o.attr] in (LINT, LFLOAT)):
                self.fail(target, "subscript store to something other than a list property of self")
            i, ti = self.expr(target.slice, env, lines)
            want = INT if self.fields[o.attr] == LINT else FLOAT
            if ti != INT or tv != want:
                self.fail(target, f"store of {tv} at index {ti} into {self.fields[o.attr]}")
            t = self.fresh()
            lines.append(f"let {t} ← Py.setIdx self.{o.attr} {i} {val}")
            lines.append(f"let self := {{ self with {o.attr} := {t} }}")
            return
        self.fail(target, f"assignment target {type(target).__name__}")

    def finish(self, env, value=None, ty=UNIT):
        """the line that ends the function normally."""
        if self.mode in ("setter", "init"):
            return "pure self"
        rt = self.ret[self.cur]
        if value is None:
            if rt != UNIT:
                self.fail(self.methods[self.cur], "falls off the end of a function that returns a value")
            v = "()"
        else:
            if rt == INT_OR_BOOL:
                if ty == INT:
                    v = f"(Sum.inl {value})"
                elif ty == BOOL:
                    v = f"(Sum.inr {value})"
                else:
                    self.fail(self.methods[self.cur], f"return of {ty}")
            elif rt != ty:
                self.fail(self.methods[self.cur], f"return of {ty} from a function annotated {rt}")
            else:
                v = value
        return f"pure (self, {v})" if self.cur in self.impure else f"pure {v}"

    def block(self, stmts, env, tail):
        """lines of a do-block. `tail` = ('fn',) at function level, ('yield', names) inside a join."""
        lines = []
        stmts = [s for s in stmts if not self.is_doc(s)]
        for k, s in enumerate(stmts):
            rest = stmts[k + 1:]
            if isinstance(s, ast.Pass):
                continue
            if isinstance(s, ast.Return):
                if tail[0] != "fn":
                    self.fail(s, "return inside a block that must fall through")
                if s.value is None:
                    lines.append(self.finish(env))
                else:
                    v, tv = self.expr(s.value, env, lines)
                    lines.append(self.finish(env, v, tv))
                return lines
            if isinstance(s, ast.Raise):
                if tail[0] != "fn":
                    self.fail(s, "raise inside a block that must fall through")
                lines.append("none")
                return lines
            if isinstance(s, ast.Expr):
                if isinstance(s.value, ast.Call):
                    self.expr(s.value, env, lines)
                    continue
                self.fail(s, "expression statement")
            if isinstance(s, ast.Assign):
                if len(s.targets) != 1:
                    self.fail(s, "chained assignment")
                tg = s.targets[0]
                if isinstance(tg, ast.Tuple):
                    if not (isinstance(s.value, ast.Tuple) and len(s.value.elts) == len(tg.elts)):
                        self.fail(s, "tuple assignment from a non-tuple")
                    vals = []
                    for ve in s.value.elts:
                        v, tv = self.expr(ve, env, lines)
                        t = self.fresh()
                        lines.append(f"let {t} := {v}")
                        vals.append((t, tv))
                    for u, (v, tv) in zip(tg.elts, vals):
                        self.store(u, v, tv, env, lines)
                else:
                    v, tv = self.expr(s.value, env, lines)
                    self.store(tg, v, tv, env, lines)
                continue
            if isinstance(s, ast.AugAssign):
                ops = {ast.Add: "+", ast.Sub: "-", ast.Mult: "*"}
                if type(s.op) not in ops:
                    self.fail(s, "augmented operator")
                load = ast.copy_location(ast.parse(ast.unparse(s.target), mode="eval").body, s)
                for n_ in ast.walk(load):
                    ast.copy_location(n_, s)
                a, ta = self.expr(load, env, lines)
                b, tb = self.expr(s.value, env, lines)
                if ta != INT or tb != INT:
                    self.fail(s, f"augmented assignment on {ta}, {tb}")
                if isinstance(s.target, ast.Subscript):
                    self.fail(s, "augmented assignment to a subscript")
                self.store(s.target, f"({a} {ops[type(s.op)]} {b})", INT, env, lines)
                continue
            if isinstance(s, ast.If):
                c, tc = self.expr(s.test, env, lines)
                if tc != BOOL:
                    self.fail(s, f"condition of type {tc}")
                bt, et = self.terminates(s.body), self.terminates(s.orelse)
                if bt or et:
                    if tail[0] != "fn":
                        self.fail(s, "return/raise inside a block that must fall through")
                    if bt:
                        a = self.block(s.body, dict(env), tail)
                        b = self.block(list(s.orelse) + rest, env, tail)
                    else:
                        b = self.block(s.orelse, dict(env), tail)
                        a = self.block(list(s.body) + rest, env, tail)
                    lines.append(f"if {c} then (do")
                    lines.extend(self.ind(a, 4))
                    lines[-1] += ") else (do"
                    lines.extend(self.ind(b, 4))
                    lines[-1] += ")"
                    return lines
                if self.has_exit(s.body) or self.has_exit(s.orelse):
                    self.fail(s, "return/raise on some but not all paths of a branch")
                w = self.assigned(s.body + s.orelse)
                ea, eb = dict(env), dict(env)
                a = self.block(s.body, ea, ("yield", None))
                b = self.block(s.orelse, eb, ("yield", None))
                keep = [x for x in w if x == "self" or (x in ea and x in eb and ea[x] == eb[x])]
                for x in keep:
                    if x != "self":
                        env[x] = ea[x]
                pat = self.tuple_of(keep) if keep else "_u"
                val = self.tuple_of(keep) if keep else "()"
                lines.append(f"let {pat} ← (if {c} then (do")
                lines.extend(self.ind(a + [f"pure {val}"], 4))
                lines[-1] += ") else (do"
                lines.extend(self.ind(b + [f"pure {val}"], 4))
                lines[-1] += "))"
                continue
            if isinstance(s, ast.While):
                if s.orelse or self.has_exit(s.body):
                    self.fail(s, "while with else/break/continue/return")
                w = [x for x in self.assigned(s.body) if x == "self" or x in env]
                if not w:
                    self.fail(s, "while loop that assigns nothing")
                pat = self.tuple_of(w)
                cl = []
                c, tc = self.expr(s.test, dict(env), cl, True)
                if tc != BOOL:
                    self.fail(s, f"condition of type {tc}")
                be = dict(env)
                bl = self.block(s.body, be, ("yield", None))
                for x in w:
                    if x != "self" and be[x] != env[x]:
                        self.fail(s, f"loop variable {x} changes type")
                lines.append(f"let {pat} ← Py.whileM (σ := {self.sigma(w, env)})")
                lines.append(f"  (fun {pat} => (do")
                lines.extend(self.ind(cl + [f"pure {c}))"], 4))
                lines.append(f"  (fun {pat} => (do")
                lines.extend(self.ind(bl + [f"pure {pat}))"], 4))
                lines.append(f"  {pat}")
                continue
            self.fail(s, f"statement {type(s).__name__}")
        if tail[0] == "fn":
            lines.append(self.finish(env))
        return lines

    # ------------------------------------------------------------------ definitions
    def params(self, fn):
        out, env = [], {}
        for a in fn.args.args[1:]:
            t = self.ann(a.annotation, a)
            out.append(f"({a.arg} : {LEAN_TY[t]})")
            env[a.arg] = t
        if fn.args.vararg or fn.args.kwarg or fn.args.kwonlyargs:
            self.fail(fn, "variadic parameters")
        return out, env

    def emit(self):
        out = []
        out.append("structure Obj where")
        for f, t in self.fields.items():
            out.append(f"  {f} : {LEAN_TY[t]}")
        out.append("deriving Inhabited, Repr")
        out.append("")
        for f, fn in self.setters.items():
            self.mode, self.cur, self.uses_float_max = "setter", f, False
            ps, env = self.params(fn)
            if len(ps) != 1 or env[fn.args.args[1].arg] != self.fields[f]:
                self.fail(fn, "setter parameter does not have the property's type")
            body = self.block(fn.body, env, ("fn",))
            out.append(f"/-- setter of `{f}` (line {fn.lineno}) -/")
            out.append(f"def Obj.set_{f} (self : Obj) {' '.join(ps)} : Option Obj := do")
            out.extend(self.ind(body))
            out.append("")
        for m in self.order:
            fn = self.methods[m]
            self.mode, self.cur, self.uses_float_max = "method", m, False
            ps, env = self.params(fn)
            body = self.block(fn.body, env, ("fn",))
            if self.uses_float_max:
                self.fail(fn, "FLOAT_MAX outside __init__")
            rt = LEAN_TY[self.ret[m]]
            sig = f"Option (Obj × {rt})" if m in self.impure else f"Option {rt}"
            out.append(f"/-- `{m}` (line {fn.lineno}){'' if m in self.impure else ' — reads only'} -/")
            out.append(f"def Obj.{m} (self : Obj) {' '.join(ps)} : {sig} := do".replace("  :", " :"))
            out.extend(self.ind(body))
            if m in self._self_calls(fn):
                out.append("partial_fixpoint")
            out.append("")
        fn = self.init
        self.mode, self.cur, self.uses_float_max = "init", "__init__", False
        ps, env = self.params(fn)
        body = self.block(fn.body, env, ("fn",))
        if self.uses_float_max:
            ps.append("(FLOAT_MAX : Int)")
        out.append(f"/-- `__init__` (line {fn.lineno}); Python's default arguments are supplied by the caller -/")
        out.append(f"def Obj.init {' '.join(ps)} : Option Obj := do")
        out.append("  let self : Obj := default")
        out.extend(self.ind(body))
        out.append("")
        defaults = [ast.unparse(d) for d in fn.args.defaults]
        out.append(f"/-- default arguments of `__init__`, as written -/")
        out.append("def initDefaults : List String := [" + ", ".join('"' + d.replace('"', "'") + '"' for d in defaults) + "]")
        return out


def translate_heap(repo, gen, consts, write):
    rel = "opfython/core/heap.py"
    head = ["/- GENERATED by tools/translate_imp.py from /repo/" + rel + " — do not edit. -/",
            "import OpfVerif.Model.PyPrelude",
            "set_option linter.unusedVariables false",
            "namespace Opf.Gen.HeapImp", "open Opf", ""]
    try:
        body = Imp(os.path.join(repo, rel), "Heap", consts, rel=rel).emit()
        err = None
    except Untranslatable as ex:
        body = [f"#eval (throw (IO.userError {str(ex)!r}) : IO Unit)".replace("'", '"')]
        # make the module fail to build: a statement-level translation does not exist
        body = ['theorem untranslatable : False := by', '  exact (show False from nomatch (⟨⟩ : Unit))  -- ' + str(ex)]
        err = str(ex)
    write(os.path.join(gen, "HeapImp.lean"), "\n".join(head + body + ["", "end Opf.Gen.HeapImp"]) + "\n")
    return err


if __name__ == "__main__":
    import sys
    sys.path.insert(0, os.path.dirname(os.path.abspath(__file__)))
    import translate as T
    e = translate_heap(T.REPO, T.GEN, T.read_constants(), T.write)
    if e:
        print("TRANSLATOR:", e)
        sys.exit(3)
