#!/venv/bin/python
"""writes MANIFEST.json from harness/registry.py + tools/manifest_text.json (per-property texts)."""
import json, os, sys
V = os.path.dirname(os.path.dirname(os.path.abspath(__file__)))
sys.path.insert(0, os.path.join(V, "harness"))
os.environ["OPFVERIF_NO_CHDIR"] = "1"
import registry
texts = json.load(open(os.path.join(V, "tools", "manifest_text.json")))
props = [json.loads(l)["id"] for l in open(os.path.join(V, "properties.jsonl"))]
checks, na = [], []
for pid in props:
    cfg = registry.PROPS.get(pid)
    t = texts.get(pid, {})
    if cfg is None or cfg.get("not_applicable"):
        na.append({"property_id": pid, "reason": t.get("na_reason", "check not built yet (work in progress; see DESIGN.md §4)")})
        continue
    level = cfg.get("level", "proof" if cfg.get("modules") else "other")
    checks.append({
        "property_id": pid,
        "quick_cmd": f"./check {pid} --tier quick",
        "thorough_cmd": f"./check {pid} --tier thorough",
        "evidence_file": f"evidence/{pid}.json",
        "replay_cmd_template": f"./check {pid} --replay {{path}}",
        "engine": "lean4-proof+correspondence",
        "level_claimed": {"category": level, "text": t.get("text", ""), "design_ref": t.get("design_ref", f"DESIGN.md §4 {pid}")},
        "level_note": t.get("note", ""),
        "technique": t.get("technique", "Lean 4 theorems about an executable model; model tied to /repo by differential correspondence"),
    })
man = {
    "version": 1,
    "setup_cmd": "./tools/setup.sh",
    "hooks": {"guard": "OPFYTHON_VERIF", "enable": "no source hooks are needed: all observation points are public attributes or return values; the harness wraps functions from outside",
              "baseline_off_cmd": "cd /repo && /venv/bin/python -m pytest -ra -q -p no:cacheprovider --timeout=900 --continue-on-collection-errors",
              "source_commits": [], "add_only": True},
    "engines": [{"name": "lean4-proof+correspondence", "path": "check", "serves_properties": [c["property_id"] for c in checks],
                 "kind_free_text": "Lean 4 theorems (lean/OpfVerif/Props) about executable models (lean/OpfVerif/Model) and translator output (lean/OpfVerif/Gen); Python harness (harness/) runs model and real code on the same generated inputs and evaluates property oracles on the real outputs"}],
    "checks": checks,
    "not_applicable": na,
    "notes": "See DESIGN.md. known_findings.json lists repaired defects (fix: commits in /repo).",
}
json.dump(man, open(os.path.join(V, "MANIFEST.json"), "w"), indent=1)
print(len(checks), "checks;", len(na), "not claimed")
