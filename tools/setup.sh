#!/bin/sh
# offline setup: build the Lean library (models, lemmas, property theorems) and warm numba's cache
set -e
cd "$(dirname "$0")/.."
if [ -f tools/translate.py ]; then /venv/bin/python tools/translate.py; fi
(cd lean && lake build)
cd /tmp && /venv/bin/python -c "import sys; sys.path.insert(0,'/repo'); import logging; logging.disable(logging.CRITICAL); import opfython.math.distance" >/dev/null 2>&1 || true
