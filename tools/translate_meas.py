#!/venv/bin/python
"""Statement-level translator for the COUNTING part of the evaluation measures of `opfython/math/general.py`
(`confusion_matrix`, `opf_accuracy`, `opf_accuracy_per_label`, `purity`) -> lean/OpfVerif/Gen/MeasImp.lean (DESIGN §2.1b).

Each function is read as   <counting prefix> ; <float tail>   where the prefix is every statement up to and including the
last `for` loop (all of it integer work: class count, zero tables, bincount / unique counts, the per-sample loop) and the
tail is the float arithmetic applied to the finished tables.  The prefix is translated statement by statement and
returns the tables the tail reads; the tail is emitted verbatim as a string (`<fn>_tail`) that a Lean theorem compares
with the text the hand-written model `Model/Measures.lean` was written for — a changed tail breaks that theorem, and the
`measures` stream (which compares values with the model instantiated at Float) is then asked for a failing input.
`purity` has no loop: its only float operation is the final `/`, numerator and denominator are translated.

Trusted reading of numpy (Model/PyMeas.lean): `np.asarray` of an int list is the list; the count tables are float64
arrays that only ever receive `+= 1` — exact below 2^53 increments — and are read as ints; `np.max` of an empty array
raises; `np.zeros` with a negative dimension raises; `np.bincount` raises on a negative entry and has length
max(minlength, max+1); `np.unique(..., return_counts=True)[1]` are the multiplicities of the sorted distinct values;
`zip` stops at the shorter argument; `a[i][j] += 1` / `a[i] += 1` use Python indexing (negative wraps, out of range raises).
"""
import ast
import os

from translate_imp import Untranslatable

ARR, MAT, INT = "arr", "mat", "int"
LTY = {ARR: "Array Int", MAT: "Array (Array Int)", INT: "Int"}


class MeasFn:
    def __init__(self, path, rel):
        self.rel = rel
        self.tree = ast.parse(open(path).read())
        self.tmp = 0
        self.done = {}

    def fail(self, node, msg):
        raise Untranslatable(f"untranslatable construct at {self.rel}:{getattr(node, 'lineno', '?')}: {msg}")

    def fresh(self):
        self.tmp += 1
        return f"t{self.tmp}"

    def expr(self, e, env, lines):
        s = ast.unparse(e)
        if isinstance(e, ast.Name):
            if e.id not in env:
                self.fail(e, f"name {e.id}")
            return e.id, env[e.id]
        if isinstance(e, ast.Constant) and isinstance(e.value, int) and not isinstance(e.value, bool):
            return f"({e.value} : Int)", INT
        if isinstance(e, ast.Call):
            f = ast.unparse(e.func)
            args = e.args
            kws = {k.arg: k.value for k in e.keywords}
            if f == "np.asarray" and len(args) == 1 and not kws:
                return self.expr(args[0], env, lines)
            if f == "np.max" and len(args) == 1 and not kws:
                a, ta = self.expr(args[0], env, lines)
                if ta != ARR:
                    self.fail(e, "np.max of a non-vector")
                t = self.fresh()
                lines.append(f"let {t} ← Py.npMax {a}")
                return t, INT
            if f == "max" and len(args) == 2 and not kws:
                a, ta = self.expr(args[0], env, lines)
                b, tb = self.expr(args[1], env, lines)
                if ta != INT or tb != INT:
                    self.fail(e, "max of non-ints")
                return f"(max {a} {b})", INT
            if f == "len" and len(args) == 1 and not kws:
                a, ta = self.expr(args[0], env, lines)
                if ta not in (ARR, MAT):
                    self.fail(e, "len of a scalar")
                return f"({a}.size : Int)", INT
            if f == "np.zeros" and len(args) == 1 and not kws:
                sh = args[0]
                if isinstance(sh, ast.Tuple) and len(sh.elts) == 2:
                    r, tr = self.expr(sh.elts[0], env, lines)
                    c, tc = self.expr(sh.elts[1], env, lines)
                    if tr != INT or tc != INT:
                        self.fail(e, "shape of non-ints")
                    t = self.fresh()
                    lines.append(f"let {t} ← Py.zeros2 {r} {c}")
                    return t, MAT
                r, tr = self.expr(sh, env, lines)
                if tr != INT:
                    self.fail(e, "shape of a non-int")
                t = self.fresh()
                lines.append(f"let {t} ← Py.zeros1 {r}")
                return t, ARR
            if f == "np.bincount" and len(args) == 1 and list(kws) == ["minlength"]:
                a, ta = self.expr(args[0], env, lines)
                m, tm = self.expr(kws["minlength"], env, lines)
                if ta != ARR or tm != INT:
                    self.fail(e, "bincount argument kinds")
                t = self.fresh()
                lines.append(f"let {t} ← Py.bincount {a} {m}")
                return t, ARR
            if f in self.done and len(args) == len(self.done[f]) and not kws:
                parts = [self.expr(a, env, lines) for a in args]
                if any(t != ARR for _, t in parts):
                    self.fail(e, "call argument kinds")
                t = self.fresh()
                lines.append(f"let {t} ← {f} {' '.join(v for v, _ in parts)}")
                return t, self.ret[f]
            if f == "np.sum" and len(args) == 1 and not kws and isinstance(args[0], ast.Call) and \
                    ast.unparse(args[0].func) == "np.max" and len(args[0].args) == 1 and \
                    [(k.arg, ast.unparse(k.value)) for k in args[0].keywords] == [("axis", "0")]:
                a, ta = self.expr(args[0].args[0], env, lines)
                if ta != MAT:
                    self.fail(e, "column maxima of a non-matrix")
                t = self.fresh()
                lines.append(f"let {t} ← Py.sumColMax {a}")
                return t, INT
        if isinstance(e, ast.BinOp) and isinstance(e.op, (ast.Add, ast.Sub, ast.Mult)):
            a, ta = self.expr(e.left, env, lines)
            b, tb = self.expr(e.right, env, lines)
            if ta != INT or tb != INT:
                self.fail(e, "integer arithmetic on non-ints")
            op = {ast.Add: "+", ast.Sub: "-", ast.Mult: "*"}[type(e.op)]
            return f"({a} {op} {b})", INT
        if isinstance(e, ast.Compare) and len(e.ops) == 1 and isinstance(e.ops[0], (ast.NotEq, ast.Eq)):
            a, ta = self.expr(e.left, env, lines)
            b, tb = self.expr(e.comparators[0], env, lines)
            if ta != INT or tb != INT:
                self.fail(e, "comparison of non-ints")
            return f"decide ({a} {'≠' if isinstance(e.ops[0], ast.NotEq) else '='} {b})", "bool"
        self.fail(e, f"expression {s[:70]}")

    def incr(self, st, env, lines):
        """`A[i][j] += 1` / `a[i] += 1`"""
        if not (isinstance(st.op, ast.Add) and isinstance(st.value, ast.Constant) and st.value.value == 1):
            self.fail(st, "augmented assignment other than += 1")
        tg = st.target
        if isinstance(tg, ast.Subscript) and isinstance(tg.value, ast.Name) and env.get(tg.value.id) == ARR:
            a = tg.value.id
            i, ti = self.expr(tg.slice, env, lines)
            t = self.fresh()
            lines += [f"let {t} ← Py.idx {a} {i}", f"let {a} ← Py.setIdx {a} {i} ({t} + 1)"]
            return
        if isinstance(tg, ast.Subscript) and isinstance(tg.value, ast.Subscript) and isinstance(tg.value.value, ast.Name) \
                and env.get(tg.value.value.id) == MAT:
            a = tg.value.value.id
            i, ti = self.expr(tg.value.slice, env, lines)
            j, tj = self.expr(tg.slice, env, lines)
            r, v = self.fresh(), self.fresh()
            lines += [f"let {r} ← Py.idx {a} {i}", f"let {v} ← Py.idx {r} {j}",
                      f"let {r} ← Py.setIdx {r} {j} ({v} + 1)", f"let {a} ← Py.setIdx {a} {i} {r}"]
            return
        self.fail(st, "augmented assignment target")

    def assigned(self, stmts):
        out = []
        for st in stmts:
            for n in ast.walk(st):
                if isinstance(n, ast.AugAssign):
                    t = n.target
                    while isinstance(t, ast.Subscript):
                        t = t.value
                    if isinstance(t, ast.Name) and t.id not in out:
                        out.append(t.id)
                elif isinstance(n, ast.Assign):
                    self.fail(n, "plain assignment inside the counting loop")
        return out

    def body(self, stmts, env, tup):
        lines = []
        for st in stmts:
            if isinstance(st, ast.AugAssign):
                self.incr(st, env, lines)
            elif isinstance(st, ast.If) and not st.orelse:
                c, tc = self.expr(st.test, env, lines)
                inner = self.body(st.body, env, tup)
                lines.append(f"let {tup} ← (if {c} then (do")
                lines += ["    " + ln for ln in inner] + [f"    pure {tup}) else pure {tup})"]
            else:
                self.fail(st, f"statement {type(st).__name__} inside the counting loop")
        return lines

    def function(self, name, params):
        fn = None
        for n in self.tree.body:
            if isinstance(n, ast.FunctionDef) and n.name == name:
                fn = n
        if fn is None:
            raise Untranslatable(f"{self.rel}: function {name} not found")
        if [a.arg for a in fn.args.args] != params:
            self.fail(fn, f"parameters of {name}")
        stmts = [s for s in fn.body if not (isinstance(s, ast.Expr) and isinstance(s.value, ast.Constant))]
        last_for = max([i for i, s in enumerate(stmts) if isinstance(s, ast.For)], default=None)
        env = {p: ARR for p in params}
        lines = []
        if last_for is None:
            # no loop: `<name> = <int expr> / <int expr>` then `return <name>`
            *pre, fin, ret = stmts
            for s in pre:
                self.simple(s, env, lines)
            if not (isinstance(fin, ast.Assign) and isinstance(fin.value, ast.BinOp) and isinstance(fin.value.op, ast.Div)
                    and isinstance(ret, ast.Return) and ast.unparse(ret.value) == ast.unparse(fin.targets[0])):
                self.fail(fin, "final statement is not `<x> = <int> / <int>; return <x>`")
            a, ta = self.expr(fin.value.left, env, lines)
            b, tb = self.expr(fin.value.right, env, lines)
            if ta != INT or tb != INT:
                self.fail(fin, "ratio of non-ints")
            rty, ret_t, tail = "Int × Int", f"({a}, {b})", "<numerator> / <denominator>"
        else:
            for s in stmts[:last_for]:
                self.simple(s, env, lines)
            f = stmts[last_for]
            if not (isinstance(f.iter, ast.Call) and ast.unparse(f.iter.func) == "zip" and len(f.iter.args) == 2
                    and isinstance(f.target, ast.Tuple) and len(f.target.elts) == 2
                    and all(isinstance(u, ast.Name) for u in f.target.elts) and not f.orelse):
                self.fail(f, "loop is not `for a, b in zip(x, y)`")
            xa, ta = self.expr(f.iter.args[0], env, lines)
            xb, tb = self.expr(f.iter.args[1], env, lines)
            if ta != ARR or tb != ARR:
                self.fail(f, "zip of non-vectors")
            live = self.assigned(f.body)
            for v in live:
                if v not in env:
                    self.fail(f, f"table {v} not defined before the loop")
            tup = live[0] if len(live) == 1 else "(" + ", ".join(live) + ")"
            e2 = dict(env)
            va, vb = (u.id for u in f.target.elts)
            e2[va] = e2[vb] = INT
            inner = self.body(f.body, e2, tup)
            lines.append(f"let {tup} ← Py.forZip {xa} {xb} (fun {va} {vb} {tup} => do")
            lines += ["    " + ln for ln in inner] + [f"    pure {tup}) {tup}"]
            tail_stmts = stmts[last_for + 1:]
            tail = "\n".join(ast.unparse(s) for s in tail_stmts)
            free = []
            for s in tail_stmts:
                for n in ast.walk(s):
                    if isinstance(n, ast.Name) and isinstance(n.ctx, ast.Load) and n.id in env and n.id not in free \
                            and n.id not in params:
                        free.append(n.id)
            defined_in_tail = set()
            for s in tail_stmts:
                if isinstance(s, ast.Assign) and isinstance(s.targets[0], ast.Name):
                    defined_in_tail.add(s.targets[0].id)
            free = [v for v in free]
            if not free:
                self.fail(fn, "the tail reads none of the tables")
            rty = " × ".join(LTY[env[v]] for v in free)
            ret_t = free[0] if len(free) == 1 else "(" + ", ".join(free) + ")"
            self.reads = free
        self.done[name] = params
        self.ret = getattr(self, "ret", {})
        self.ret[name] = MAT if rty == "Array (Array Int)" else None
        doc_reads = "" if last_for is None else f"; returns what the tail reads: {ret_t}"
        out = [f"/-- `{name}` ({self.rel}:{fn.lineno}), counting part{doc_reads} -/",
               f"def {name} {' '.join(f'({p} : Array Int)' for p in params)} : Option ({rty}) := do"]
        out += ["  " + ln for ln in lines] + [f"  pure {ret_t}", "",
                f"/-- the float tail of `{name}`, as written -/",
                f"def {name}_tail : String := " + '"' + tail.replace("\\", "\\\\").replace('"', '\\"').replace("\n", "\\n") + '"', ""]
        return out

    def simple(self, s, env, lines):
        if isinstance(s, ast.Assign) and len(s.targets) == 1:
            tg = s.targets[0]
            if isinstance(tg, ast.Name):
                v, tv = self.expr(s.value, env, lines)
                if tv is None or tv == "bool":
                    self.fail(s, "value kind")
                lines.append(f"let {tg.id} := {v}")
                env[tg.id] = tv
                return
            if isinstance(tg, ast.Tuple) and len(tg.elts) == 2 and all(isinstance(u, ast.Name) for u in tg.elts) \
                    and tg.elts[0].id == "_" and isinstance(s.value, ast.Call) and ast.unparse(s.value.func) == "np.unique" \
                    and len(s.value.args) == 1 and [(k.arg, ast.unparse(k.value)) for k in s.value.keywords] == [("return_counts", "True")]:
                a, ta = self.expr(s.value.args[0], env, lines)
                if ta != ARR:
                    self.fail(s, "np.unique of a non-vector")
                lines.append(f"let {tg.elts[1].id} := Py.uniqueCounts {a}")
                env[tg.elts[1].id] = ARR
                return
        self.fail(s, f"statement `{ast.unparse(s)[:60]}` before the counting loop")


def translate_measures(repo, gen, write):
    rel = "opfython/math/general.py"
    head = [f"/- GENERATED by tools/translate_meas.py from /repo/{rel} — do not edit. -/",
            "import OpfVerif.Model.PyMeas", "set_option linter.unusedVariables false",
            "namespace Opf.Gen.MeasImp", "open Opf", ""]
    try:
        t = MeasFn(os.path.join(repo, rel), rel)
        body = t.function("confusion_matrix", ["labels", "preds"]) + t.function("opf_accuracy", ["labels", "preds"]) + \
            t.function("opf_accuracy_per_label", ["labels", "preds"]) + t.function("purity", ["labels", "preds"])
        # `normalize`: three vectorised float statements; emitted as text (the model `normalizeColG` mirrors them column by column)
        fn = [n for n in t.tree.body if isinstance(n, ast.FunctionDef) and n.name == "normalize"]
        if not fn:
            raise Untranslatable(f"{rel}: function normalize not found")
        stmts = [s_ for s_ in fn[0].body if not (isinstance(s_, ast.Expr) and isinstance(s_.value, ast.Constant))]
        txt = "\n".join(ast.unparse(s_) for s_ in stmts)
        body += [f"/-- `normalize` ({rel}:{fn[0].lineno}), as written -/",
                 "def normalize_body : String := " + '"' + txt.replace("\\", "\\\\").replace('"', '\\"').replace("\n", "\\n") + '"', ""]
        err = None
    except Untranslatable as ex:
        body = ['theorem untranslatable : False := by', '  exact (show False from nomatch (⟨⟩ : Unit))  -- ' + str(ex)]
        err = str(ex)
    write(os.path.join(gen, "MeasImp.lean"), "\n".join(head + body + ["end Opf.Gen.MeasImp"]) + "\n")
    return err


if __name__ == "__main__":
    import sys

    def w(p, t):
        open(p, "w").write(t)
    os.makedirs("/tmp/gen_try", exist_ok=True)
    print(translate_measures(sys.argv[1] if len(sys.argv) > 1 else "/repo", "/tmp/gen_try", w))
    print(open("/tmp/gen_try/MeasImp.lean").read())



def translate_normalize(repo, gen, write):
    """Gen/NormImp.lean: `normalize` of opfython/math/general.py, statement by statement, polymorphic in the number type; `np.mean(·, axis=0)`
    and `np.std(·, axis=0)` are the reductions MEAN / STD applied per column (`Model/PyNorm.lean`)."""
    rel = "opfython/math/general.py"
    head = [f"/- GENERATED by tools/translate_meas.py from /repo/{rel} — do not edit. -/", "import OpfVerif.Model.PyNorm",
            "set_option linter.unusedVariables false", "namespace Opf.Gen.NormImp", "open Opf", ""]
    try:
        tree = ast.parse(open(os.path.join(repo, rel)).read())
        fn = [n for n in tree.body if isinstance(n, ast.FunctionDef) and n.name == "normalize"]
        if not fn:
            raise Untranslatable(f"{rel}: normalize not found")
        f = fn[0]

        def fail(node, msg):
            raise Untranslatable(f"untranslatable construct at {rel}:{getattr(node, 'lineno', '?')}: {msg}")
        arg = f.args.args[0].arg
        env, lines, tmp = {arg: "mat"}, [], [0]

        def expr(e):
            if isinstance(e, ast.Name):
                if e.id not in env:
                    fail(e, f"name {e.id}")
                return e.id, env[e.id]
            if isinstance(e, ast.Call) and ast.unparse(e.func) in ("np.mean", "np.std") and len(e.args) == 1 \
                    and [(k.arg, ast.unparse(k.value)) for k in e.keywords] == [("axis", "0")]:
                a, ta = expr(e.args[0])
                if ta != "mat":
                    fail(e, "reduction of a non-matrix")
                tmp[0] += 1
                lines.append(f"  let t{tmp[0]} ← Py.axis0 {'MEAN' if ast.unparse(e.func) == 'np.mean' else 'STD'} {a}")
                return f"t{tmp[0]}", "vec"
            if isinstance(e, ast.BinOp) and isinstance(e.op, (ast.Sub, ast.Div)):
                a, ta = expr(e.left)
                b, tb = expr(e.right)
                if ta != "mat" or tb != "vec":
                    fail(e, "only matrix (op) vector is in the fragment")
                tmp[0] += 1
                lines.append(f"  let t{tmp[0]} ← Py.bcast (fun x y => x {'-' if isinstance(e.op, ast.Sub) else '/'} y) {a} {b}")
                return f"t{tmp[0]}", "mat"
            fail(e, f"expression {ast.unparse(e)[:60]}")
        ret = None
        for st in f.body:
            if isinstance(st, ast.Expr) and isinstance(st.value, ast.Constant):
                continue
            if isinstance(st, ast.Assign) and len(st.targets) == 1 and isinstance(st.targets[0], ast.Name):
                a, ta = expr(st.value)
                lines.append(f"  let {st.targets[0].id} := {a}")
                env[st.targets[0].id] = ta
                continue
            if isinstance(st, ast.Return) and st is f.body[-1]:
                a, ta = expr(st.value)
                if ta != "mat":
                    fail(st, "returns a non-matrix")
                ret = a
                continue
            fail(st, f"statement {ast.unparse(st)[:60]}")
        if ret is None:
            fail(f, "no return")
        body = [f"/-- `normalize` ({rel}:{f.lineno}) -/",
                f"def normalize {{α : Type}} [Inhabited α] [Sub α] [Div α] (MEAN STD : List α → α) ({arg} : Array (Array α)) : Option (Array (Array α)) := do"] + \
            lines + [f"  pure {ret}", ""]
        err = None
    except Untranslatable as ex:
        body = ['theorem untranslatable : False := by', '  exact (show False from nomatch (⟨⟩ : Unit))  -- ' + str(ex)]
        err = str(ex)
    write(os.path.join(gen, "NormImp.lean"), "\n".join(head + body + ["end Opf.Gen.NormImp"]) + "\n")
    return err

def translate_persist(repo, gen, write):
    """Gen/PersistText.lean: the bodies of `OPF.save` / `OPF.load` as written (logging statements dropped) and the list of
    classes of the package that customise pickling (`__getstate__`, `__setstate__`, `__reduce__`, `__reduce_ex__`,
    `__getnewargs__`, `__getnewargs_ex__`, `__deepcopy__`, `__copy__`) — pickling itself is library behaviour outside any
    model (C19 is partial by nature); what the theorems of Props/C19.lean pin down is that the library adds nothing to it."""
    head = ["/- GENERATED by tools/translate_meas.py from /repo/opfython (save/load and pickling hooks) — do not edit. -/",
            "namespace Opf.Gen.PersistText", ""]
    try:
        rel = "opfython/core/opf.py"
        tree = ast.parse(open(os.path.join(repo, rel)).read())
        cls = [n for n in tree.body if isinstance(n, ast.ClassDef) and n.name == "OPF"]
        if not cls:
            raise Untranslatable(f"{rel}: class OPF not found")
        out = []
        for name in ("save", "load"):
            fn = [n for n in cls[0].body if isinstance(n, ast.FunctionDef) and n.name == name]
            if not fn:
                raise Untranslatable(f"{rel}: OPF.{name} not found")
            stmts = [s for s in fn[0].body if not (isinstance(s, ast.Expr) and isinstance(s.value, ast.Constant))
                     and not (isinstance(s, ast.Expr) and isinstance(s.value, ast.Call) and ast.unparse(s.value.func).startswith("logger."))]
            txt = "\n".join(ast.unparse(s) for s in stmts)
            sig = ", ".join(a.arg for a in fn[0].args.args)
            out += [f"/-- `OPF.{name}({sig})` ({rel}:{fn[0].lineno}), as written, logging dropped -/",
                    f"def {name}_body : String := " + '"' + (f"({sig})\n" + txt).replace("\\", "\\\\").replace('"', '\\"').replace("\n", "\\n") + '"', ""]
        hooks = []
        HOOKS = {"__getstate__", "__setstate__", "__reduce__", "__reduce_ex__", "__getnewargs__", "__getnewargs_ex__", "__deepcopy__", "__copy__"}
        for root, _dirs, files in os.walk(os.path.join(repo, "opfython")):
            for f in sorted(files):
                if not f.endswith(".py"):
                    continue
                pth = os.path.join(root, f)
                t = ast.parse(open(pth).read())
                for n in ast.walk(t):
                    if isinstance(n, ast.ClassDef):
                        for b in n.body:
                            if isinstance(b, ast.FunctionDef) and b.name in HOOKS:
                                hooks.append(f"{os.path.relpath(pth, repo)}:{n.name}.{b.name}")
        hooks.sort()
        cattrs = []
        for root, _dirs, files in os.walk(os.path.join(repo, "opfython")):
            for f in sorted(files):
                if not f.endswith(".py"):
                    continue
                pth = os.path.join(root, f)
                for n in ast.walk(ast.parse(open(pth).read())):
                    if isinstance(n, ast.ClassDef):
                        for b in n.body:
                            if isinstance(b, (ast.Assign, ast.AnnAssign, ast.AugAssign)):
                                tg = b.targets[0] if isinstance(b, ast.Assign) else b.target
                                cattrs.append(f"{os.path.relpath(pth, repo)}:{n.name}.{ast.unparse(tg)}")
        cattrs.sort()
        # every `if` of a model class's __init__: which attributes each branch assigns through `self`
        def _top_attrs(stmts, methods, depth=0):
            out = set()
            for st in stmts:
                if isinstance(st, (ast.Assign, ast.AnnAssign, ast.AugAssign)):
                    for tg in (st.targets if isinstance(st, ast.Assign) else [st.target]):
                        if isinstance(tg, ast.Attribute) and isinstance(tg.value, ast.Name) and tg.value.id == "self":
                            out.add(tg.attr)
                if isinstance(st, ast.Expr) and isinstance(st.value, ast.Call) and isinstance(st.value.func, ast.Attribute) \
                        and isinstance(st.value.func.value, ast.Name) and st.value.func.value.id == "self" and depth == 0 \
                        and st.value.func.attr in methods:
                    out |= _top_attrs(methods[st.value.func.attr].body, methods, 1)
            return out
        branches = []
        for relp in ["opfython/core/opf.py"] + sorted("opfython/models/" + f for f in os.listdir(os.path.join(repo, "opfython/models")) if f.endswith(".py")):
            for n in ast.parse(open(os.path.join(repo, relp)).read()).body:
                if isinstance(n, ast.ClassDef):
                    methods = {b.name: b for b in n.body if isinstance(b, ast.FunctionDef)}
                    if "__init__" in methods:
                        for st in ast.walk(methods["__init__"]):
                            if isinstance(st, ast.If):
                                a = sorted(_top_attrs(st.body, methods)); b_ = sorted(_top_attrs(st.orelse, methods))
                                branches.append((f"{relp}:{n.name}.__init__:{st.lineno}", a, b_))
        out += ["/-- classes of the package that customise pickling / copying -/",
                "def pickle_hooks : List String := [" + ", ".join('"' + h + '"' for h in hooks) + "]", "",
                "/-- data attributes defined at CLASS level (assignments in a class body, `__slots__` included) in the package's classes: such an\n"
                "attribute is not in an instance's `__dict__` until it is assigned through `self`, so `pickle.dump(self)` / `__dict__.update` would not carry it -/",
                "def class_data_attrs : List String := [" + ", ".join('"' + h + '"' for h in cattrs) + "]", "",
                "/-- every `if` in the `__init__` of `OPF` and of the model classes: the attributes assigned through `self` in its then-branch and in its\n"
                "else-branch (a call `self.m(…)` counts with what `m` assigns at its top level) -/",
                "def init_branches : List (String × List String × List String) := [" + ", ".join(
                    '("' + w + '", [' + ", ".join('"' + x + '"' for x in a) + '], [' + ", ".join('"' + x + '"' for x in b_) + '])' for w, a, b_ in branches) + "]", ""]
        body = out
        err = None
    except Untranslatable as ex:
        body = ['theorem untranslatable : False := by', '  exact (show False from nomatch (⟨⟩ : Unit))  -- ' + str(ex)]
        err = str(ex)
    write(os.path.join(gen, "PersistText.lean"), "\n".join(head + body + ["end Opf.Gen.PersistText"]) + "\n")
    return err
