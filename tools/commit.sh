#!/bin/sh
# commit /verif only from a clean /repo with freshly regenerated Gen/ files (never while a seeded change is applied)
cd "$(dirname "$0")/.." || exit 2
if ! git -C /repo diff --quiet; then echo "refusing: /repo has uncommitted changes (a seeded change is applied?)"; exit 1; fi
/venv/bin/python tools/translate.py || exit 1
/venv/bin/python tools/gen_manifest.py >/dev/null
git add -A && git commit -q -m "$1" && git log --oneline | head -1
