#!/bin/sh
# usage: tools/all_checks.sh [tier] [seed...]  — runs every registered check for each seed; prints one line per run
tier=${1:-quick}; shift
[ $# -eq 0 ] && set -- 1
cd "$(dirname "$0")/.."
for seed in "$@"; do
  for p in C01 C02 C03 C04 C05 C06 C07 C08 C09 C10 C11 C12 C13 C14 C15 C16 C17 C18 C19 C20; do
    out=$(VERIF_SEED=$seed ./check $p --tier $tier 2>&1); rc=$?
    echo "seed=$seed $(echo "$out" | grep -E "^$p:|VIOLATION|KNOWN" | tr '\n' ' ') [rc=$rc]"
  done
done
