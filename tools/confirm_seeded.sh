#!/bin/sh
# usage: tools/confirm_seeded.sh <Cxx> <A|B>   — confirm a sub-agent's mutant in ITS scratch worktree and file it under seeded/
# (tests pass with the change, demo fails with it, demo passes without it), then copy patch/demo/meta.
set -u
P="$1"; X="$2"; WT=/tmp/mut/$P; OUT=$WT/_out
cd "$WT" || exit 2
git checkout -q -- opfython 2>/dev/null
git apply "$OUT/patch_$X.diff" || { echo "patch does not apply"; exit 2; }
t=$(/venv/bin/python -m pytest -q -p no:cacheprovider --timeout=900 -x 2>&1 | tail -1)
/venv/bin/python "$OUT/demo_$X.py" >/dev/null 2>&1; d1=$?
git checkout -q -- opfython
/venv/bin/python "$OUT/demo_$X.py" >/dev/null 2>&1; d0=$?
rm -f opfython.log boat_split_distances.txt data/test.pkl; find . -name "__pycache__" -type d -prune -exec rm -rf {} + 2>/dev/null
echo "$P $X tests: $t | demo with change: exit $d1 | demo without: exit $d0"
case "$t" in *passed*) ;; *) echo "NOT CONFIRMED (tests)"; exit 1;; esac
case "$t" in *failed*) echo "NOT CONFIRMED (tests failed)"; exit 1;; esac
[ "$d1" -ne 0 ] && [ "$d0" -eq 0 ] || { echo "NOT CONFIRMED (demo)"; exit 1; }
D=/verif/seeded/${P}_$X; mkdir -p "$D"
cp "$OUT/patch_$X.diff" "$D/patch.diff"; cp "$OUT/demo_$X.py" "$D/demo.py"
python3 - "$OUT/meta_$X.json" "$D/meta.json" "$t" "$d1" "$d0" <<'PY'
import json,sys
m=json.load(open(sys.argv[1]))
m["confirmed_by_me"]={"tests_with_change":sys.argv[3],"demo_exit_with_change":int(sys.argv[4]),"demo_exit_without":int(sys.argv[5]),
  "how":"tools/confirm_seeded.sh in the sub-agent's scratch worktree (git apply; pytest; demo; git checkout; demo)"}
json.dump(m,open(sys.argv[2],"w"),indent=1)
PY
echo "filed $D"
